#!/bin/bash
# usage: tools/seedtest.sh <mutant-dir with patch.diff> <CHECK-ID>...   — runs checks against a scratch worktree of /repo HEAD + patch
set -u
md="$(cd "$1" && pwd)"; shift
wt="/tmp/seedtest.$$"
git -C /repo worktree add --detach "$wt" HEAD -q || exit 2
trap 'git -C /repo worktree remove --force "$wt" >/dev/null 2>&1; rm -f /verif/bin/*.alt."$(basename "$wt")"* /verif/bin/go._tmp_"$(basename "$wt")".*' EXIT
# hooks are untracked in /repo until committed: copy them
for f in $(git -C /repo ls-files --others --exclude-standard | grep 'verif_hooks.*\.go$'); do cp "/repo/$f" "$wt/$f"; done
if ! git -C "$wt" apply "$md/patch.diff"; then echo "PATCH-DOES-NOT-APPLY $md"; exit 2; fi
cd /verif
for id in "$@"; do
  out=$(VERIF_REPO="$wt" ./check "$id" --no-reconfirm 2>&1)
  echo "$out" | grep -E "^VIOLATION|^KNOWN-FINDING|^RESULT|^BUILD-FAILED|^INCONCLUSIVE" | cut -c1-220
  echo "$out" | grep -E "^  clause=" | cut -c1-220 | head -5
done
