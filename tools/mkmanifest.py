#!/usr/bin/env python3
"""Regenerates /verif/MANIFEST.json from tools/checks.json (one entry per claimed property)
and properties.jsonl (everything not claimed goes to not_applicable with its recorded reason)."""
import json, os, subprocess
root = os.path.dirname(os.path.dirname(os.path.abspath(__file__)))
checks = json.load(open(os.path.join(root, "tools", "checks.json")))
props = [json.loads(l) for l in open(os.path.join(root, "properties.jsonl")) if l.strip()]
hooks = []
try:
    out = subprocess.run(["git", "-C", "/repo", "log", "--format=%H %s"], capture_output=True, text=True).stdout
    hooks = [l.split()[0] for l in out.splitlines() if l.split(" ", 1)[1].startswith("verif hook:")]
except Exception:
    pass
m = {
    "version": 1,
    "setup_cmd": "./setup.sh",
    "hooks": {
        "guard": "verif",
        "enable": "go build -tags verif (the harness module in /verif/harness replaces github.com/bio-routing/bio-rd with /repo)",
        "baseline_off_cmd": "cd /repo && GOFLAGS=-mod=mod GOPROXY=off GOSUMDB=off GOTOOLCHAIN=local go test -vet=off -count=1 -timeout 25m ./...",
        "source_commits": hooks,
        "add_only": True,
    },
    "engines": [
        {"name": "vf", "path": "harness/internal/vf", "serves_properties": sorted(checks["claimed"].keys()),
         "kind_free_text": "runtime-monitoring framework: PRNG case generation, oracle monitors, replay files reconfirmed in a fresh process, known-findings matching, evidence writer"},
    ],
    "checks": [],
    "notes": "Technique family: runtime monitoring and sanitizers. Every check executes the real bio-rd code from /repo's working tree under generated/hostile/stress workloads and decides with an oracle over observed events. See DESIGN.md.",
    "not_applicable": [],
}
for p in props:
    pid = p["id"]
    c = checks["claimed"].get(pid)
    if c is None:
        m["not_applicable"].append({"property_id": pid, "reason": checks["unclaimed"].get(pid, "check not built yet in this session; no claim is made")})
        continue
    e = {
        "property_id": pid,
        "quick_cmd": "./check %s --tier quick" % pid,
        "thorough_cmd": "./check %s --tier thorough" % pid,
        "evidence_file": "evidence/%s.json" % pid,
        "replay_cmd_template": "./check %s --replay {path}" % pid,
        "engine": "vf",
        "level_claimed": {"category": c.get("category", "exploration"), "text": c["text"], "design_ref": "DESIGN.md section 4, " + pid},
        "level_note": c["note"],
        "technique": c["technique"],
    }
    m["checks"].append(e)
json.dump(m, open(os.path.join(root, "MANIFEST.json"), "w"), indent=1)
print("claimed", len(m["checks"]), "unclaimed", len(m["not_applicable"]))
