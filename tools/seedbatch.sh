#!/bin/bash
# usage: tools/seedbatch.sh <logprefix> <ID>...   — confirms and tests /tmp/seed/<ID>/out/m*/ against check <ID>
pre="$1"; shift
cd "$(dirname "$0")/.."
for id in "$@"; do
  for md in /tmp/seed/$id/out/m*/; do
    [ -f "$md/patch.diff" ] || continue
    dest=$(tools/seeddest.py "$md" 2>&1) || { echo "== $md NO-DEST $dest" >> "$pre.confirm.log"; continue; }
    echo "== $md -> $dest" >> "$pre.confirm.log"
    tools/seedconfirm.sh "$md" "$dest" >> "$pre.confirm.log" 2>&1
    echo "== $md" >> "$pre.test.log"
    tools/seedtest.sh "$md" "$id" >> "$pre.test.log" 2>&1
  done
done
echo done > "$pre.done"
