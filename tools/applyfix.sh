#!/bin/bash
# usage: tools/applyfix.sh <diff> <message-file>  — applies a proposed fix to /repo and commits it (tests are run separately)
set -eu
cd /repo
git apply --check "$1"
git apply "$1"
export GOFLAGS=-mod=mod GOPROXY=off GOSUMDB=off GOTOOLCHAIN=local
go build ./... 
files=$(git diff --name-only)
git add $files
git commit -q -F "$2"
git log --oneline | head -1
