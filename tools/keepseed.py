#!/usr/bin/env python3
"""usage: keepseed.py <src dir (out/mN)> <seeded id, e.g. C01-m1> <detected-by, e.g. "C01:lpm,getlonger; C15:supernet"> [note]
Copies patch.diff + demo + meta.json (augmented with the coordinator's own confirmation) to /verif/seeded/<id>/."""
import json, os, shutil, sys, glob
src, sid, detected = sys.argv[1], sys.argv[2], sys.argv[3]
note = sys.argv[4] if len(sys.argv) > 4 else ""
dst = os.path.join('/verif/seeded', sid)
os.makedirs(dst, exist_ok=True)
shutil.copy(os.path.join(src, 'patch.diff'), dst)
for f in glob.glob(os.path.join(src, '*_test.go')) + glob.glob(os.path.join(src, '*.go')):
    # keep demos under a name the Go tool ignores, so that /verif/seeded never becomes a package
    shutil.copy(f, os.path.join(dst, os.path.basename(f) + '.txt'))
meta = json.load(open(os.path.join(src, 'meta.json')))
meta['confirmed_by_coordinator'] = "tools/seedconfirm.sh: demo passes without the patch, fails with it; go build ./... and the existing suite pass with the patch (scratch worktree of /repo HEAD)"
meta['checks_run'] = "tools/seedtest.sh (scratch worktree of /repo HEAD + patch, quick tier, seed 1)"
meta['detected_by'] = detected
if note:
    meta['note'] = note
json.dump(meta, open(os.path.join(dst, 'meta.json'), 'w'), indent=1)
print("kept", dst)
