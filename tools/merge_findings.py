#!/usr/bin/env python3
"""Merges known_findings.d/*.jsonl (written by the build workers) into known_findings.jsonl.
An entry becomes "fixed" (with the commit id) when its text refers to a proposed fix that was committed
(tools/fix_map.json) or when it is listed in tools/fixed_extra.json ({"<property>|<clause>|<feature json>": "<commit>"});
otherwise it stays as the worker left it. Entries already in known_findings.jsonl (the coordinator's own) are kept."""
import json, glob, os, re
root = '/verif'
fix_map = json.load(open(f'{root}/tools/fix_map.json'))
extra = {}
if os.path.exists(f'{root}/tools/fixed_extra.json'):
    extra = json.load(open(f'{root}/tools/fixed_extra.json'))
still = json.load(open(f'{root}/tools/still_reproduces.json')) if os.path.exists(f'{root}/tools/still_reproduces.json') else {}
own = [json.loads(l) for l in open(f'{root}/known_findings.jsonl') if l.strip() and not l.startswith('#')]
own = [e for e in own if not e.get('merged')]
out = list(own)
for fn in sorted(glob.glob(f'{root}/known_findings.src/*.jsonl')):
    for line in open(fn):
        line = line.strip()
        if not line or line.startswith('#'):
            continue
        e = json.loads(line)
        e['merged'] = os.path.basename(fn)
        key = f"{e['property']}|{e['clause']}|{json.dumps(e.get('features', {}), sort_keys=True)}"
        if e.get('status') == 'open' and e.get('what') not in still.get(e['property'], []):
            commit = extra.get(key)
            if not commit and e['property'] not in ('C25', 'C26'):  # schedule dependent: statuses maintained by hand
                for slug, c in fix_map.items():
                    if slug in e.get('what', '') or slug in json.dumps(e.get('witness', '')):
                        commit = c
                        break
            if commit:
                e['status'] = 'fixed'
                e['commit'] = commit
        out.append(e)
with open(f'{root}/known_findings.jsonl.new', 'w') as f:
    for e in out:
        f.write(json.dumps(e, ensure_ascii=False) + '\n')
n_open = sum(1 for e in out if e['status'] == 'open')
print(f"{len(out)} entries, {n_open} open")
for e in out:
    if e['status'] == 'open':
        print("OPEN", e['property'], e['clause'], json.dumps(e.get('features', {})), '|', e['what'][:100])
