#!/usr/bin/env python3
"""Prints the prompt given to a fresh sub-agent that seeds a property-breaking change (nothing from /verif but the property text)."""
import json, sys
pid = sys.argv[1]
n = sys.argv[2] if len(sys.argv) > 2 else "2"
extra = sys.argv[3] if len(sys.argv) > 3 else ""
p = [json.loads(l) for l in open('/verif/properties.jsonl') if l.strip()]
p = [x for x in p if x['id'] == pid][0]
print(f"""You are helping to evaluate a verification tool for the Go routing daemon bio-rd (github.com/bio-routing/bio-rd). You have your own scratch git worktree of the repository at /tmp/seed/{pid} (work ONLY there; never touch /repo or /verif, do not read /verif).

Environment for every shell call: `export GOFLAGS=-mod=mod GOPROXY=off GOSUMDB=off GOTOOLCHAIN=local` (no network; Go 1.23). Tests: `cd /tmp/seed/{pid} && go test -vet=off -count=1 ./...` (takes a few minutes; run at least the packages you touch and everything that imports them, ideally the whole suite).

Here is a semantic property the daemon is supposed to satisfy:

  Title: {p['title']}
  Statement: {p['statement']}
  Quantified over: {p['quantifier']['text']}
  Relevant code: {', '.join(p['anchors']['files'])}

Task: produce {n} DIFFERENT, independent, realistic source changes ("seeded defects"), each of which BREAKS this property while the repository still compiles and its existing test suite still passes unedited. They should look like plausible maintenance mistakes (a wrong bound or comparison, a dropped or misplaced update, a missed case, a reordered pair of statements, an early return, two sites that each look fine alone), NOT something that ordinary use would expose at once: each must need something specific to manifest — a particular multi-step sequence of operations, an unusual but legitimate input, a boundary value, a particular interleaving, a fault at a particular point. Do not touch test files of the repository. Keep each change small (a few lines). NEVER use `git stash` (the stash is shared by all worktrees of the repository and other agents work in sibling worktrees): to compare with the baseline use `git diff > /tmp/seed/{pid}/out/cur.diff; git checkout -- .; ...; git apply /tmp/seed/{pid}/out/cur.diff`. {extra}

For each change i (1..{n}), starting each from a clean tree (`git -C /tmp/seed/{pid} checkout -- . && git -C /tmp/seed/{pid} clean -fdq -e out`):
 1. make the change; confirm `go build ./...` and the test suite pass;
 2. write a demonstration: a Go test file (placed in the affected package directory, name `zz_seed_demo_test.go`) or a small program that FAILS with the change and PASSES without it, and confirm both directions yourself;
 3. save under /tmp/seed/{pid}/out/m<i>/ : `patch.diff` (output of `git diff` for the source change only, WITHOUT the demo file), the demo file, and `meta.json` with keys: property ("{pid}"), summary (one sentence: what was changed), needs (what specific sequence/input/interleaving is needed to manifest), ran (the exact commands you ran to confirm: tests pass with the change; demo fails with it and passes without it).
Finish with the tree clean again (only the out/ directory left). Your final message: a short list of the changes with their file/function and what each needs to manifest.""")
