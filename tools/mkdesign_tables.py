#!/usr/bin/env python3
"""Regenerates the generated sections of DESIGN.md (between <!-- BEGIN x --> / <!-- END x --> markers):
findings (from known_findings.jsonl) and seeds (from seeded/*/meta.json)."""
import json, glob, os, re
root = '/verif'
ents = [json.loads(l) for l in open(f'{root}/known_findings.jsonl') if l.strip() and not l.startswith('#')]
def clean(s, n=230):
    s = re.sub(r'\s+', ' ', s).replace('|', '/')
    s = re.sub(r';? ?(fix|same fix|same proposed fix)[^;]*proposed[^;]*$', '', s)
    return s[:n] + ('…' if len(s) > n else '')
fixed = {}
for e in ents:
    if e['status'] == 'fixed':
        fixed.setdefault(e.get('commit', '?'), []).append(e)
out = ["### Repaired defects (one `fix:` commit each; entries in known_findings.jsonl have status `fixed` and suppress nothing)\n",
       "| commit | properties (clauses) | what failed |", "|---|---|---|"]
import subprocess
order = subprocess.run(['git', '-C', '/repo', 'log', '--reverse', '--format=%h %s'], capture_output=True, text=True).stdout.splitlines()
subj = {l.split()[0]: l.split(' ', 1)[1] for l in order}
seen = set()
for l in order:
    h = l.split()[0]
    if not l.split(' ', 1)[1].startswith('fix:'):
        continue
    es = fixed.get(h, [])
    props = sorted({f"{e['property']} ({e['clause']})" for e in es})
    what = clean(es[0]['what']) if es else ''
    out.append(f"| {h} | {', '.join(props) if props else '—'} | {subj[h][5:]}{(' — ' + what) if what else ''} |")
    seen.add(h)
out.append("")
out.append("### Open known findings (genuine defects that are recorded, not repaired; the check prints KNOWN-FINDING and exits 0)\n")
out.append("| property | clause / features | what fails | why not repaired |")
out.append("|---|---|---|---|")
why = json.load(open(f'{root}/tools/open_reasons.json')) if os.path.exists(f'{root}/tools/open_reasons.json') else {}
for e in ents:
    if e['status'] == 'open':
        key = f"{e['property']}|{e['clause']}"
        reason = why.get(key + '|' + json.dumps(e.get('features', {}), sort_keys=True)) or why.get(key) or why.get(e['property'], '')
        out.append(f"| {e['property']} | {e['clause']} {json.dumps(e.get('features', {}))} | {clean(e['what'], 260)} | {reason} |")
findings = '\n'.join(out)
rows = ["| seed | breaks | needs | detected by |", "|---|---|---|---|"]
for d in sorted(glob.glob(f'{root}/seeded/*/meta.json')):
    m = json.load(open(d))
    sid = os.path.basename(os.path.dirname(d))
    rows.append(f"| {sid} | {clean(m.get('summary', ''), 200)} | {clean(str(m.get('needs', '')), 200)} | {clean(m.get('detected_by', ''), 220)}{(' — ' + clean(m['note'], 200)) if m.get('note') else ''} |")
seeds = '\n'.join(rows)
p = f'{root}/DESIGN.md'
s = open(p).read()
for name, body in (('findings', findings), ('seeds', seeds)):
    b, e = f'<!-- BEGIN {name} -->', f'<!-- END {name} -->'
    if b in s:
        s = s[:s.index(b) + len(b)] + '\n' + body + '\n' + s[s.index(e):]
open(p, 'w').write(s)
print("fix commits listed:", len(seen), "open:", sum(1 for e in ents if e['status'] == 'open'), "seeds:", len(rows) - 2)
