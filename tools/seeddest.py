#!/usr/bin/env python3
"""Prints the repo-relative directory a seed's demonstration test belongs in (from its package clause and the patched files)."""
import sys, re, os, glob, subprocess
md = sys.argv[1]
demo = (glob.glob(os.path.join(md, '*_test.go')) or [None])[0]
if not demo:
    sys.exit("no demo")
pkg = re.search(r'^package\s+(\w+)', open(demo).read(), re.M).group(1)
pkg = re.sub(r'_test$', '', pkg)
files = re.findall(r'^\+\+\+ b/(\S+)', open(os.path.join(md, 'patch.diff')).read(), re.M)
def pkgof(d):
    for f in glob.glob(os.path.join('/repo', d, '*.go')):
        if f.endswith('_test.go'):
            continue
        m = re.search(r'^package\s+(\w+)', open(f).read(), re.M)
        if m:
            return m.group(1)
    return None
for f in files:
    d = os.path.dirname(f)
    if pkgof(d) == pkg:
        print(d); sys.exit(0)
# search the whole repo, prefer directories mentioned in the demo's imports or meta
out = subprocess.run(['grep', '-rlE', f'^package {pkg}$', '--include=*.go', '/repo'], capture_output=True, text=True).stdout.split()
dirs = sorted({os.path.relpath(os.path.dirname(p), '/repo') for p in out if '/third_party/' not in p})
meta = open(os.path.join(md, 'meta.json')).read() if os.path.exists(os.path.join(md, 'meta.json')) else ''
for d in dirs:
    if d in meta:
        print(d); sys.exit(0)
if dirs:
    print(dirs[0]); sys.exit(0)
sys.exit("package not found: " + pkg)
