#!/bin/bash
# usage: tools/runall.sh <seed> [tier]   — runs every claimed check once, prints one line per check
seed="${1:-1}"; tier="${2:-quick}"
cd "$(dirname "$0")/.."
for id in $(jq -r '.checks[].property_id' MANIFEST.json); do
  s=$(date +%s)
  out=$(VERIF_SEED=$seed ./check $id --tier $tier 2>&1); rc=$?
  e=$(( $(date +%s) - s ))
  echo "$id rc=$rc ${e}s $(echo "$out" | grep -E '^RESULT' | sed 's/.*verdict=\([a-z]*\).*new_violations=\([0-9]*\) known_findings=\([0-9]*\).*/\1 new=\2 known=\3/')"
  echo "$out" | grep -E "^VIOLATION|^INCONCLUSIVE|^BUILD-FAILED|^UNCONFIRMED" | cut -c1-200
done
