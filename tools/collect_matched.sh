#!/bin/bash
# usage: tools/collect_matched.sh <out.json> <seed>... -- <ID>...   : runs checks, collects known_findings_matched per property
out="$1"; shift
seeds=(); while [ "$1" != "--" ]; do seeds+=("$1"); shift; done; shift
echo "{" > "$out.tmp"
first=1
for id in "$@"; do
  for s in "${seeds[@]}"; do
    VERIF_SEED=$s ./check "$id" > "/tmp/coord/cm.$id.$s.log" 2>&1
    rc=$?
    m=$(jq -c '.coverage.known_findings_matched // []' "evidence/$id.json")
    [ $first = 1 ] || echo "," >> "$out.tmp"; first=0
    echo "\"$id/$s\": {\"rc\": $rc, \"matched\": $m}" >> "$out.tmp"
  done
done
echo "}" >> "$out.tmp"; mv "$out.tmp" "$out"
