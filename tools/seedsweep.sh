#!/bin/bash
# Runs every kept seeded change against the checks named in its meta.json (detected_by: "C01: ...; C15: ...")
# on a scratch worktree of /repo HEAD + patch. Prints one line per (seed, check).
cd "$(dirname "$0")/.."
for d in seeded/*/; do
  id=$(basename "$d")
  checks=$(jq -r '.detected_by' "$d/meta.json" | grep -oE 'C[0-9]{2}:' | tr -d ':' | sort -u | tr '\n' ' ')
  out=$(tools/seedtest.sh "$d" $checks 2>&1)
  if echo "$out" | grep -q "PATCH-DOES-NOT-APPLY"; then echo "$id PATCH-DOES-NOT-APPLY"; continue; fi
  echo "$out" | grep -E "^RESULT" | sed "s/^RESULT property=\(C[0-9]*\).*verdict=\([a-z]*\).*new_violations=\([0-9]*\).*/$id \1 \2 new=\3/"
done
