#!/bin/bash
# usage: tools/seedconfirm.sh <mutant-dir> <demo-dest-dir-relative-to-repo>
# Confirms in a scratch worktree of /repo HEAD: demo passes without the patch, fails with it; build + existing suite pass with it.
set -u
export GOFLAGS=-mod=mod GOPROXY=off GOSUMDB=off GOTOOLCHAIN=local
md="$(cd "$1" && pwd)"; dest="$2"
wt="/tmp/seedconfirm.$$"
git -C /repo worktree add --detach "$wt" HEAD -q || exit 2
trap 'git -C /repo worktree remove --force "$wt" >/dev/null 2>&1' EXIT
cd "$wt"
demo=$(ls "$md"/*_test.go 2>/dev/null | head -1)
[ -n "$demo" ] || { echo "NO-DEMO"; exit 2; }
cp "$demo" "$dest/zz_seed_demo_test.go"
if go test -vet=off -count=1 -run 'Seed|seed|Demo' "./$dest/" >/tmp/seedconfirm.$$.log 2>&1; then echo "demo-without-patch: PASS"; else echo "demo-without-patch: FAIL (unexpected)"; tail -5 /tmp/seedconfirm.$$.log; fi
git apply "$md/patch.diff" || { echo "PATCH-DOES-NOT-APPLY"; exit 2; }
go build ./... || { echo "BUILD-FAILS"; exit 2; }
if go test -vet=off -count=1 -run 'Seed|seed|Demo' "./$dest/" >/tmp/seedconfirm.$$.log 2>&1; then echo "demo-with-patch: PASS (unexpected)"; else echo "demo-with-patch: FAIL (expected)"; fi
rm "$dest/zz_seed_demo_test.go"
if go test -vet=off -count=1 ./... >/tmp/seedconfirm.$$.log 2>&1; then echo "suite-with-patch: PASS"; else echo "suite-with-patch: FAIL"; grep -E "^(FAIL|--- FAIL)" /tmp/seedconfirm.$$.log | head; fi
rm -f /tmp/seedconfirm.$$.log
