#!/bin/bash
# usage: tools/runsome.sh <seed> <tier> <ID>...   — runs the named checks once, one line per check
seed="$1"; tier="$2"; shift 2
cd "$(dirname "$0")/.."
for id in "$@"; do
  s=$(date +%s)
  out=$(VERIF_SEED=$seed ./check $id --tier $tier 2>&1); rc=$?
  e=$(( $(date +%s) - s ))
  echo "$id rc=$rc ${e}s $(echo "$out" | grep -E '^RESULT' | sed 's/.*verdict=\([a-z]*\).*new_violations=\([0-9]*\) known_findings=\([0-9]*\).*/\1 new=\2 known=\3/')"
  echo "$out" | grep -E "^VIOLATION|^INCONCLUSIVE|^BUILD-FAILED|^UNCONFIRMED|^WATCHDOG" | cut -c1-220
done
echo runsome-done
