#!/bin/bash
# setup_cmd: offline build of everything the checks need; primes the Go build cache.
set -eu
export GOFLAGS=-mod=mod GOPROXY=off GOSUMDB=off GOTOOLCHAIN=local
ROOT="$(cd "$(dirname "$0")" && pwd)"
cd "$ROOT/harness"
cp /repo/go.sum go.sum
mkdir -p "$ROOT/bin" "$ROOT/evidence"
go build -o "$ROOT/bin/gofail" go.etcd.io/gofail
go build -tags verif ./... 
for d in cmd/*/; do
  n="$(basename "$d")"
  [ -f "$d/main.go" ] && go build -tags verif -o "$ROOT/bin/$n" "./cmd/$n"
  [ -f "$d/RACE" ] && go build -race -tags verif -o "$ROOT/bin/$n.race" "./cmd/$n"
done
echo setup ok
