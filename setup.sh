#!/bin/bash
# setup_cmd: offline build of everything the checks need; primes the Go build cache.
# Individual harness build failures are reported but do not fail setup (each check rebuilds its own harness anyway).
set -u
export GOFLAGS=-mod=mod GOPROXY=off GOSUMDB=off GOTOOLCHAIN=local
ROOT="$(cd "$(dirname "$0")" && pwd)"
cd "$ROOT/harness" || exit 1
cp /repo/go.sum go.sum
mkdir -p "$ROOT/bin" "$ROOT/evidence" "$ROOT/replays"
go build -o "$ROOT/bin/gofail" go.etcd.io/gofail || echo "warning: gofail CLI did not build"
for d in cmd/*/; do
  n="$(basename "$d")"
  [ -f "$d/main.go" ] || continue
  go build -tags verif -o "$ROOT/bin/$n" "./cmd/$n" || echo "warning: $n did not build"
  if [ -f "$d/RACE" ]; then
    go build -race -tags verif -o "$ROOT/bin/$n.race" "./cmd/$n" || echo "warning: $n (race) did not build"
  fi
done
echo setup ok
