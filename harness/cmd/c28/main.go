// C28: BMP receiver tables mirror the monitored sessions.
//
// Generated well-formed BMP histories (2 routers x 3 peers x 2 VRFs: initiation, peer up with real
// OPEN pairs, route monitoring with IPv4/IPv6 announcements and withdrawals, add-path per negotiated
// capability, peer down, termination, connection loss, reconnect) are applied to real Router objects
// (hook-built, real serve loop on an in-memory connection). A model keeps, per router, VRF and
// family, the set {(peer, prefix, path id)} -> attributes announced and not withdrawn by peers that
// are up. After EVERY message:
//
//	missing / extra / attrs   Loc-RIB dumps of GetVRF(rd) equal the model (so nothing of a peer that
//	                          went down remains);
//	observer                  observers registered on the Loc-RIBs as the RIS server does
//	                          (RegisterWithOptions, MaxPaths 100) hold exactly the table content;
//	after loss                after termination / connection loss: GetVRFs() is empty, the former
//	                          tables are empty, every observer got Dispose();
//	panic                     no message panics the receiver.
//
// Messages are applied either synchronously through VerifProcessMsg (the serve loop is parked in
// Read) or through the connection (synchronisation: reader blocked with everything consumed);
// termination always goes through the connection, loss is a reset/EOF of the connection
// (synchronisation: VerifServe returned).
package main

import (
	"bytes"
	"fmt"
	"math/rand/v2"
	"net"
	"runtime/debug"
	"sort"
	"strings"
	"sync"
	"time"

	bnet "github.com/bio-routing/bio-rd/net"
	"github.com/bio-routing/bio-rd/protocols/bgp/server"
	"github.com/bio-routing/bio-rd/route"
	"github.com/bio-routing/bio-rd/routingtable"
	"github.com/bio-routing/bio-rd/routingtable/locRIB"

	"verifharness/internal/bmpconn"
	m "verifharness/internal/bmpmsg"
	"verifharness/internal/bmprig"
	"verifharness/internal/vf"
)

const watchdog = 60 * time.Second

type pfx struct {
	Addr []byte `json:"addr"`
	Len  uint8  `json:"len"`
}

type peerDef struct {
	Addr    [16]byte `json:"addr"`
	V6      bool     `json:"v6,omitempty"`
	AS      uint32   `json:"as"`
	RD      uint64   `json:"rd"`
	AddPath bool     `json:"addpath,omitempty"`
	Post    bool     `json:"post,omitempty"`    // this peer's route monitoring is post-policy (L flag)
	TwoByte bool     `json:"twobyte,omitempty"` // A flag: AS_PATH in 2-byte format
	BGPID   uint32   `json:"bgpid"`
}

type routerDef struct {
	LocalAS uint32    `json:"local_as"`
	Peers   []peerDef `json:"peers"`
}

type nl struct {
	P  int    `json:"p"`            // index into the prefix universe of the family
	ID uint32 `json:"id,omitempty"` // path identifier (add-path peers)
}

type op struct {
	K      string   `json:"k"` // init peerup rm peerdown stats observe term drop connect
	R      int      `json:"r"`
	Peer   int      `json:"peer,omitempty"`
	Ann4   []nl     `json:"ann4,omitempty"`
	Wd4    []nl     `json:"wd4,omitempty"`
	Ann6   []nl     `json:"ann6,omitempty"`
	Wd6    []nl     `json:"wd6,omitempty"`
	UID    uint32   `json:"uid,omitempty"` // unique id of the announcement (next hop, community)
	MED    uint32   `json:"med,omitempty"`
	Origin uint8    `json:"origin,omitempty"`
	Path   []uint32 `json:"path,omitempty"`
	LP     uint32   `json:"lp,omitempty"`
	Post   bool     `json:"post,omitempty"` // view of this message (differs from the peer's only in mixed histories)
	RD     uint64   `json:"rd,omitempty"`   // observe
	Fam    int      `json:"fam,omitempty"`  // observe: 4 | 6
	Reset  bool     `json:"reset,omitempty"`
	Why    uint8    `json:"why,omitempty"` // peerdown: RFC 7854 reason 1..5 (0: 4)
}

type hist struct {
	Routers []routerDef `json:"routers"`
	P4      []pfx       `json:"p4"`
	P6      []pfx       `json:"p6"`
	Ops     []op        `json:"ops"`
	Stream  bool        `json:"stream,omitempty"` // deliver through the connection instead of VerifProcessMsg
	Mixed   bool        `json:"mixed,omitempty"`  // peers mix pre- and post-policy views: crash/leak checks only
}

var rds = []uint64{0, uint64(65000)<<32 | 100}

func genHist(rng *rand.Rand, nops int) hist {
	h := hist{Stream: rng.IntN(2) == 0, Mixed: rng.IntN(8) == 0}
	// prefix universes: siblings, parent/child, default, host route
	base := byte(rng.IntN(200) + 10)
	h.P4 = []pfx{{[]byte{base, 1, 0, 0}, 16}, {[]byte{base, 1, 2, 0}, 24}, {[]byte{base, 1, 3, 0}, 24}, {[]byte{base, 1, 2, 128}, 25},
		{[]byte{0, 0, 0, 0}, 0}, {[]byte{base, 1, 2, 3}, 32}, {[]byte{base + 1, 0, 0, 0}, 8}}
	v6 := func(l uint8, tail ...byte) pfx {
		a := make([]byte, 16)
		a[0], a[1], a[2], a[3] = 0x20, 0x01, 0x0d, base
		copy(a[4:], tail)
		return pfx{a, l}
	}
	h.P6 = []pfx{v6(32), v6(48, 0, 1), v6(64, 0, 1, 0, 2), v6(128, 0, 1, 0, 2, 0, 0, 0, 0, 0, 0, 0, 1), {make([]byte, 16), 0}}
	for r := 0; r < 2; r++ {
		rd := routerDef{LocalAS: []uint32{65000, 65000, 4200000001}[rng.IntN(3)]}
		for i := 0; i < 3; i++ {
			p := peerDef{RD: rds[rng.IntN(2)], AddPath: rng.IntN(3) == 0, Post: rng.IntN(2) == 0, TwoByte: rng.IntN(6) == 0, BGPID: uint32(0x0a000002 + 256*i)}
			if rng.IntN(4) == 0 {
				p.V6 = true
				p.Addr = [16]byte{0x20, 0x01, 0x0d, 0xb8, 0, byte(r), 15: byte(10 + i)}
			} else {
				p.Addr = m.V4(10, byte(r), byte(i), 2)
			}
			switch rng.IntN(4) {
			case 0:
				p.AS = rd.LocalAS // iBGP
			case 1:
				p.AS = uint32(4200000100 + i)
			default:
				p.AS = uint32(65001 + i)
			}
			if p.AS > 65535 {
				p.TwoByte = false
			}
			// a third peer may reuse the address of the first one in the other VRF
			if i == 2 && rng.IntN(4) == 0 {
				q := rd.Peers[0]
				p.Addr, p.V6 = q.Addr, q.V6
				p.RD = rds[0] + rds[1] - q.RD
			}
			rd.Peers = append(rd.Peers, p)
		}
		h.Routers = append(h.Routers, rd)
	}
	// state used to keep the history well-formed
	type rstate struct {
		connected bool
		up        [3]bool
		vrfSeen   map[uint64]bool
		announced map[string]bool // peer/fam/prefix/id currently announced
	}
	st := make([]*rstate, 2)
	for i := range st {
		st[i] = &rstate{vrfSeen: map[uint64]bool{}, announced: map[string]bool{}}
	}
	uid := uint32(0)
	for len(h.Ops) < nops {
		r := rng.IntN(2)
		s := st[r]
		if !s.connected {
			h.Ops = append(h.Ops, op{K: "connect", R: r}, op{K: "init", R: r})
			s.connected = true
			continue
		}
		x := rng.IntN(100)
		pi := rng.IntN(3)
		pd := h.Routers[r].Peers[pi]
		switch {
		case x < 12:
			if !s.up[pi] {
				h.Ops = append(h.Ops, op{K: "peerup", R: r, Peer: pi})
				s.up[pi] = true
				s.vrfSeen[pd.RD] = true
			}
		case x < 18:
			if s.up[pi] {
				h.Ops = append(h.Ops, op{K: "peerdown", R: r, Peer: pi, Why: uint8(1 + rng.IntN(5))})
				s.up[pi] = false
				for k := range s.announced {
					if strings.HasPrefix(k, fmt.Sprintf("%d/", pi)) {
						delete(s.announced, k)
					}
				}
			}
		case x < 24:
			if len(s.vrfSeen) > 0 {
				o := op{K: "observe", R: r, RD: rds[rng.IntN(2)], Fam: []int{4, 6}[rng.IntN(2)]}
				if s.vrfSeen[o.RD] {
					h.Ops = append(h.Ops, o)
				}
			}
		case x < 27:
			if s.up[pi] {
				h.Ops = append(h.Ops, op{K: "stats", R: r, Peer: pi})
			}
		case x < 30:
			h.Ops = append(h.Ops, op{K: "term", R: r})
			*s = rstate{vrfSeen: map[uint64]bool{}, announced: map[string]bool{}}
		case x < 33:
			h.Ops = append(h.Ops, op{K: "drop", R: r, Reset: rng.IntN(2) == 0})
			*s = rstate{vrfSeen: map[uint64]bool{}, announced: map[string]bool{}}
		default:
			if !s.up[pi] {
				// bias towards getting peers up
				h.Ops = append(h.Ops, op{K: "peerup", R: r, Peer: pi})
				s.up[pi] = true
				s.vrfSeen[pd.RD] = true
				continue
			}
			uid++
			o := op{K: "rm", R: r, Peer: pi, UID: uid, MED: uint32(rng.IntN(50)), Origin: uint8(rng.IntN(3)), Post: pd.Post}
			if h.Mixed {
				o.Post = rng.IntN(2) == 0
			}
			if pd.AS != h.Routers[r].LocalAS {
				o.Path = append(o.Path, pd.AS)
			} else {
				o.LP = uint32(50 + rng.IntN(200))
			}
			for n := rng.IntN(3); n > 0; n-- {
				// one hop in five is an AS of the monitored topology itself: the monitored router's own AS (a looped or
				// allowas-in announcement as a pre-policy Adj-RIB-In shows it), the other router's, the announcing peer's
				// (prepending) or another peer's. The receiver only mirrors: none of them is a loop for it.
				if rng.IntN(5) == 0 {
					own := []uint32{h.Routers[r].LocalAS, h.Routers[r].LocalAS, h.Routers[1-r].LocalAS, pd.AS, h.Routers[r].Peers[rng.IntN(3)].AS}[rng.IntN(5)]
					if !pd.TwoByte || own <= 65535 {
						o.Path = append(o.Path, own)
						continue
					}
				}
				if pd.TwoByte {
					o.Path = append(o.Path, uint32(64600+rng.IntN(50)))
				} else {
					o.Path = append(o.Path, []uint32{uint32(64600 + rng.IntN(50)), uint32(4200001000 + rng.IntN(50))}[rng.IntN(2)])
				}
			}
			pickNL := func(n int, fam int, universe int, wantAnnounced bool) []nl {
				var out []nl
				used := map[int]bool{}
				for i := 0; i < n; i++ {
					e := nl{P: rng.IntN(universe)}
					if pd.AddPath {
						e.ID = uint32(1 + rng.IntN(3))
					}
					k := fmt.Sprintf("%d/%d/%d/%d", pi, fam, e.P, e.ID)
					if wantAnnounced && !s.announced[k] && rng.IntN(4) != 0 {
						// prefer withdrawing something that is there
						for kk := range s.announced {
							var a, b, c, d int
							fmt.Sscanf(kk, "%d/%d/%d/%d", &a, &b, &c, &d)
							if a == pi && b == fam {
								e = nl{P: c, ID: uint32(d)}
								break
							}
						}
					}
					if used[e.P] { // one mention per prefix and UPDATE
						continue
					}
					used[e.P] = true
					out = append(out, e)
				}
				sort.Slice(out, func(i, j int) bool { return out[i].P < out[j].P })
				return out
			}
			// announcements of a family that do not mention a prefix the UPDATE withdraws
			annBeside := func(n, fam, universe int, wd []nl) []nl {
				var out []nl
				for _, e := range pickNL(n, fam, universe, false) {
					dup := false
					for _, w := range wd {
						dup = dup || w.P == e.P
					}
					if !dup {
						out = append(out, e)
					}
				}
				return out
			}
			switch rng.IntN(12) {
			case 10:
				// MP_UNREACH_NLRI and MP_REACH_NLRI in one UPDATE: IPv6 withdrawals next to IPv6 announcements
				o.Wd6 = pickNL(1+rng.IntN(2), 6, len(h.P6), true)
				o.Ann6 = annBeside(1+rng.IntN(2), 6, len(h.P6), o.Wd6)
			case 11:
				// everything at once: withdrawn routes, MP_UNREACH_NLRI, MP_REACH_NLRI and NLRI
				o.Wd4 = pickNL(1, 4, len(h.P4), true)
				o.Wd6 = pickNL(1+rng.IntN(2), 6, len(h.P6), true)
				o.Ann4 = annBeside(1+rng.IntN(2), 4, len(h.P4), o.Wd4)
				o.Ann6 = annBeside(1+rng.IntN(2), 6, len(h.P6), o.Wd6)
			case 0, 1, 2, 3:
				o.Ann4 = pickNL(1+rng.IntN(3), 4, len(h.P4), false)
			case 4, 5:
				o.Ann6 = pickNL(1+rng.IntN(3), 6, len(h.P6), false)
			case 6:
				o.Ann4 = pickNL(1+rng.IntN(2), 4, len(h.P4), false)
				o.Ann6 = pickNL(1+rng.IntN(2), 6, len(h.P6), false)
			case 7:
				o.Wd4 = pickNL(1+rng.IntN(2), 4, len(h.P4), true)
			case 8:
				o.Wd6 = pickNL(1+rng.IntN(2), 6, len(h.P6), true)
			default:
				o.Wd4 = pickNL(1, 4, len(h.P4), true)
				o.Wd6 = pickNL(1, 6, len(h.P6), true)
				// announce something else in the same UPDATE
				for _, e := range pickNL(1, 4, len(h.P4), false) {
					dup := false
					for _, w := range o.Wd4 {
						dup = dup || w.P == e.P
					}
					if !dup {
						o.Ann4 = append(o.Ann4, e)
					}
				}
			}
			for _, e := range o.Ann4 {
				s.announced[fmt.Sprintf("%d/4/%d/%d", pi, e.P, e.ID)] = true
			}
			for _, e := range o.Ann6 {
				s.announced[fmt.Sprintf("%d/6/%d/%d", pi, e.P, e.ID)] = true
			}
			for _, e := range o.Wd4 {
				delete(s.announced, fmt.Sprintf("%d/4/%d/%d", pi, e.P, e.ID))
			}
			for _, e := range o.Wd6 {
				delete(s.announced, fmt.Sprintf("%d/6/%d/%d", pi, e.P, e.ID))
			}
			h.Ops = append(h.Ops, o)
		}
	}
	return h
}

// ---------------------------------------------------------------------------------------------
// message construction

func (h *hist) hdr(r int, pi int, post bool) m.PeerHdr {
	pd := h.Routers[r].Peers[pi]
	ph := m.PeerHdr{RD: pd.RD, Addr: pd.Addr, AS: pd.AS, BGPID: pd.BGPID, TS: 1700000000}
	if pd.RD != 0 {
		ph.Type = 1
	}
	if pd.V6 {
		ph.Flags |= m.FlagV
	}
	if pd.TwoByte {
		ph.Flags |= m.FlagA
	}
	if post {
		ph.Flags |= m.FlagL
	}
	return ph
}

func nhBytes4(uid uint32) [4]byte { return [4]byte{198, 18, byte(uid >> 8), byte(uid)} }
func nhBytes6(uid uint32) []byte {
	b := make([]byte, 16)
	b[0], b[1], b[2], b[3], b[4], b[5] = 0x20, 0x01, 0x0d, 0xb8, 0xff, 0xff
	b[12], b[13], b[14], b[15] = byte(uid>>24), byte(uid>>16), byte(uid>>8), byte(uid)
	return b
}

func (h *hist) nlris(es []nl, fam int, addpath bool) []m.NLRI {
	var out []m.NLRI
	for _, e := range es {
		p := h.P4[0]
		if fam == 4 {
			p = h.P4[e.P]
		} else {
			p = h.P6[e.P]
		}
		out = append(out, m.NLRI{PathID: e.ID, AddPath: addpath, Len: p.Len, Addr: p.Addr})
	}
	return out
}

func (h *hist) message(o op) []byte {
	switch o.K {
	case "init":
		return m.Initiation(m.TLV{Type: 2, Value: []byte(fmt.Sprintf("router-%d", o.R))}, m.TLV{Type: 1, Value: []byte("C28")})
	case "term":
		return m.TerminationReason(0, "bye")
	case "stats":
		return m.Stats(h.hdr(o.R, o.Peer, false), [2]uint32{0, 1}, [2]uint32{7, 42})
	case "peerdown":
		// RFC 7854 §4.9: reasons 1 and 3 carry the NOTIFICATION PDU, 2 a two byte FSM event code, 4 and 5 nothing
		switch o.Why {
		case 1, 3:
			n := append(bytes.Repeat([]byte{0xff}, 16), 0, 21, 3, 6, 2+o.Why)
			return m.PeerDown(h.hdr(o.R, o.Peer, false), o.Why, n)
		case 2:
			return m.PeerDown(h.hdr(o.R, o.Peer, false), 2, []byte{0, byte(8 + o.Peer%20)})
		case 5:
			return m.PeerDown(h.hdr(o.R, o.Peer, false), 5, nil)
		}
		return m.PeerDown(h.hdr(o.R, o.Peer, false), 4, nil)
	case "peerup":
		rd := h.Routers[o.R]
		pd := rd.Peers[o.Peer]
		var sx, rx []m.Cap
		if pd.AddPath {
			sx = append(sx, m.CapAddPath([3]uint16{1, 1, 1}, [3]uint16{2, 1, 3}))
			rx = append(rx, m.CapAddPath([3]uint16{1, 1, 3}, [3]uint16{2, 1, 2}))
		}
		sent := m.OpenFor(rd.LocalAS, 0x0a000001+uint32(o.R), true, sx...).Bytes()
		recv := m.OpenFor(pd.AS, pd.BGPID, true, rx...).Bytes()
		local := m.V4(10, byte(o.R), byte(o.Peer), 1)
		if pd.V6 {
			local = [16]byte{0x20, 0x01, 0x0d, 0xb8, 0, byte(o.R), 15: 1}
		}
		return m.PeerUp(h.hdr(o.R, o.Peer, false), local, 179, 40000, sent, recv, nil)
	case "rm":
		pd := h.Routers[o.R].Peers[o.Peer]
		var attrs []byte
		if len(o.Ann4) > 0 || len(o.Ann6) > 0 {
			attrs = append(attrs, m.AttrOrigin(o.Origin)...)
			attrs = append(attrs, m.AttrASPath(!pd.TwoByte, o.Path)...)
			if len(o.Ann4) > 0 {
				attrs = append(attrs, m.AttrNextHop(nhBytes4(o.UID))...)
			}
			attrs = append(attrs, m.AttrMED(o.MED)...)
			if o.LP != 0 {
				attrs = append(attrs, m.AttrLocalPref(o.LP)...)
			}
			attrs = append(attrs, m.AttrCommunities(o.UID)...)
			if len(o.Ann6) > 0 {
				attrs = append(attrs, m.AttrMPReach(2, 1, nhBytes6(o.UID), h.nlris(o.Ann6, 6, pd.AddPath))...)
			}
		}
		if len(o.Wd6) > 0 {
			attrs = append(attrs, m.AttrMPUnreach(2, 1, h.nlris(o.Wd6, 6, pd.AddPath))...)
		}
		return m.RouteMonitoring(h.hdr(o.R, o.Peer, o.Post), m.Update(h.nlris(o.Wd4, 4, pd.AddPath), attrs, h.nlris(o.Ann4, 4, pd.AddPath)))
	}
	return nil
}

// ---------------------------------------------------------------------------------------------
// model and observation

type attrs struct {
	UID    uint32
	NH     string
	Origin uint8
	MED    uint32
	LP     uint32 // 0: not announced, any value accepted
	Path   string
}

func (a attrs) String() string {
	return fmt.Sprintf("{uid %d nh %s origin %d med %d lp %d path [%s]}", a.UID, a.NH, a.Origin, a.MED, a.LP, a.Path)
}

type key struct {
	Peer string // source address as bio-rd prints it
	Pfx  string
	ID   uint32
}

type table map[key]attrs

func ipString(a [16]byte, v6 bool) string {
	if v6 {
		ip, _ := bnet.IPFromBytes(a[:])
		return ip.String()
	}
	ip, _ := bnet.IPFromBytes(a[12:])
	return ip.String()
}

func pfxString(p pfx, fam int) string {
	if fam == 4 {
		return bnet.NewPfx(bnet.IPv4FromBytes(p.Addr), p.Len).Ptr().String()
	}
	ip, _ := bnet.IPFromBytes(p.Addr)
	return bnet.NewPfx(ip, p.Len).Ptr().String()
}

func pathString(asns []uint32) string {
	var s []string
	for _, a := range asns {
		s = append(s, fmt.Sprint(a))
	}
	return strings.Join(s, " ")
}

func observe(p *route.Path) (string, uint32, attrs) {
	a := attrs{}
	if p == nil || p.BGPPath == nil || p.BGPPath.BGPPathA == nil {
		return "?", 0, a
	}
	b := p.BGPPath
	src := "?"
	if b.BGPPathA.Source != nil {
		src = b.BGPPathA.Source.String()
	}
	if b.BGPPathA.NextHop != nil {
		a.NH = b.BGPPathA.NextHop.String()
	}
	a.Origin, a.MED, a.LP = b.BGPPathA.Origin, b.BGPPathA.MED, b.BGPPathA.LocalPref
	if b.ASPath != nil {
		var all []uint32
		for _, seg := range *b.ASPath {
			all = append(all, seg.ASNs...)
		}
		a.Path = pathString(all)
	}
	if b.Communities != nil && len(*b.Communities) == 1 {
		a.UID = (*b.Communities)[0]
	}
	return src, b.PathIdentifier, a
}

func sameAttrs(want, got attrs) bool {
	if want.LP == 0 {
		got.LP = 0
	}
	return want == got
}

func dumpTable(rib *locRIB.LocRIB) (table, []string) {
	t := table{}
	var dups []string
	for _, r := range rib.Dump() {
		for _, p := range r.Paths() {
			src, id, a := observe(p)
			k := key{src, r.Prefix().String(), id}
			if _, ok := t[k]; ok {
				dups = append(dups, fmt.Sprintf("%v", k))
			}
			t[k] = a
		}
	}
	return t, dups
}

// observer is a RouteTableClient registered like the RIS server's ObserveRIB client.
type observer struct {
	mu       sync.Mutex
	content  map[key][]attrs
	disposed bool
	eor      bool
	errs     []string
	rd       uint64
	fam      int
}

func (o *observer) add(pfx *bnet.Prefix, p *route.Path) {
	src, id, a := observe(p)
	k := key{src, pfx.String(), id}
	o.mu.Lock()
	o.content[k] = append(o.content[k], a)
	o.mu.Unlock()
}
func (o *observer) AddPath(pfx *bnet.Prefix, p *route.Path) error { o.add(pfx, p); return nil }
func (o *observer) AddPathInitialDump(pfx *bnet.Prefix, p *route.Path) error {
	o.add(pfx, p)
	return nil
}
func (o *observer) EndOfRIB() { o.mu.Lock(); o.eor = true; o.mu.Unlock() }
func (o *observer) RemovePath(pfx *bnet.Prefix, p *route.Path) bool {
	src, id, a := observe(p)
	k := key{src, pfx.String(), id}
	o.mu.Lock()
	defer o.mu.Unlock()
	l := o.content[k]
	for i := range l {
		if l[i].UID == a.UID {
			l = append(l[:i], l[i+1:]...)
			if len(l) == 0 {
				delete(o.content, k)
			} else {
				o.content[k] = l
			}
			return true
		}
	}
	o.errs = append(o.errs, fmt.Sprintf("RemovePath(%v %s) for a path the observer was never given", k, a))
	return false
}
func (o *observer) ReplacePath(pfx *bnet.Prefix, old *route.Path, new *route.Path) {
	o.RemovePath(pfx, old)
	o.add(pfx, new)
}
func (o *observer) RefreshRoute(*bnet.Prefix, []*route.Path) {}
func (o *observer) Dispose()                                 { o.mu.Lock(); o.disposed = true; o.mu.Unlock() }

var _ routingtable.RouteTableClient = (*observer)(nil)

// rig is the run-time state of one router of a history.
type rig struct {
	router    *server.Router
	sess      *bmprig.Session
	model     map[uint64]map[int]table // rd -> family -> table
	up        map[int]bool
	observers []*observer
	oldRibs   []*locRIB.LocRIB // tables of the session that ended last
}

type stats struct {
	msgs, checks, rm, addpathMulti, reconnects, peerdowns, observers, twoPeersSamePrefix int
	ownASAnnounced                                                                       int // paths announced whose AS_PATH holds the monitored router's own AS
	mpBoth, mpBothWdHit                                                                  int // UPDATEs with MP_REACH_NLRI and MP_UNREACH_NLRI; routes such an MP_UNREACH_NLRI really removed
}

func runHist(h hist, st *stats, viol func(clause string, f map[string]string, detail string)) {
	step := -1
	var cur op
	defer func() {
		if p := recover(); p != nil {
			where, via := bmprig.TopFrames(string(debug.Stack()))
			viol("panic", vf.F("where", where, "via", via, "what", bmprig.PanicClass(fmt.Sprint(p)), "op", cur.K), fmt.Sprintf("op %d %+v: panic: %v\n%s", step, cur, p, debug.Stack()))
		}
	}()
	rigs := make([]*rig, len(h.Routers))
	for i := range rigs {
		rigs[i] = &rig{router: bmprig.NewRouter(net.IP{10, 255, 0, byte(i + 1)}, server.RouterConfig{}), model: map[uint64]map[int]table{}, up: map[int]bool{}}
	}
	defer func() {
		for _, g := range rigs {
			if g.sess != nil {
				g.sess.Conn.Reset()
				g.sess.Returned(watchdog)
			}
		}
	}()
	feat := func(o op, fam int) map[string]string {
		f := vf.F("after", o.K, "family", fam, "mixed", h.Mixed)
		if o.K == "rm" || o.K == "peerup" || o.K == "peerdown" {
			pd := h.Routers[o.R].Peers[o.Peer]
			f["addpath"] = fmt.Sprint(pd.AddPath)
			f["view"] = map[bool]string{false: "pre", true: "post"}[o.Post]
			if o.K == "rm" {
				own := false
				for _, as := range o.Path {
					own = own || as == h.Routers[o.R].LocalAS
				}
				f["own_as_in_path"] = fmt.Sprint(own)
			}
		}
		return f
	}
	ribOf := func(g *rig, rd uint64, fam int) *locRIB.LocRIB {
		v := g.router.GetVRF(rd)
		if v == nil {
			return nil
		}
		if fam == 4 {
			return v.IPv4UnicastRIB()
		}
		return v.IPv6UnicastRIB()
	}
	// serveEnded handles the end of a session: oracle "after loss"
	sessionEnded := func(g *rig, o op) bool {
		out, ok := g.sess.Returned(watchdog)
		if !ok {
			viol("wedge", vf.F("after", o.K), fmt.Sprintf("op %d %+v: serve loop did not return within %v", step, o, watchdog))
			return false
		}
		if out.Panicked {
			where, via := bmprig.TopFrames(out.Stack)
			viol("panic", vf.F("where", where, "via", via, "what", bmprig.PanicClass(out.Panic), "op", o.K), fmt.Sprintf("op %d %+v: serve goroutine panicked: %s\n%s", step, o, out.Panic, out.Stack))
		}
		g.sess = nil
		if n := len(g.router.GetVRFs()); n != 0 {
			viol("vrfs_after_loss", vf.F("after", o.K), fmt.Sprintf("op %d %+v: GetVRFs() still lists %d VRFs after the session ended", step, o, n))
		}
		if n := g.router.VerifNeighborCount(); n != 0 {
			viol("neighbors_after_loss", vf.F("after", o.K), fmt.Sprintf("op %d %+v: %d neighbors still tracked after the session ended", step, o, n))
		}
		for _, rib := range g.oldRibs {
			if t, _ := dumpTable(rib); len(t) != 0 {
				viol("routes_after_loss", vf.F("after", o.K, "mixed", h.Mixed), fmt.Sprintf("op %d %+v: a table of the ended session still holds %d paths, e.g. %v", step, o, len(t), firstKey(t)))
				break
			}
		}
		for _, ob := range g.observers {
			ob.mu.Lock()
			d := ob.disposed
			ob.mu.Unlock()
			if !d {
				viol("observer_not_informed", vf.F("after", o.K), fmt.Sprintf("op %d %+v: observer on VRF %d family %d got no Dispose() when the session ended", step, o, ob.rd, ob.fam))
			}
		}
		g.observers, g.oldRibs = nil, nil
		g.model = map[uint64]map[int]table{}
		g.up = map[int]bool{}
		return true
	}
	for i, o := range h.Ops {
		step, cur = i, o
		g := rigs[o.R]
		switch o.K {
		case "connect":
			g.sess = bmprig.Serve(g.router)
			if s := g.sess.Conn.WaitQuiescent(watchdog); s != bmpconn.Blocked {
				viol("wedge", vf.F("after", o.K), fmt.Sprintf("op %d: serve loop not reading after start (%s)", i, s))
				return
			}
			st.reconnects++
			continue
		case "observe":
			rib := ribOf(g, o.RD, o.Fam)
			if rib == nil {
				viol("vrf_missing", vf.F("after", o.K), fmt.Sprintf("op %d %+v: GetVRF(%d) is nil although a peer of that VRF came up", i, o, o.RD))
				continue
			}
			ob := &observer{content: map[key][]attrs{}, rd: o.RD, fam: o.Fam}
			rib.RegisterWithOptions(ob, routingtable.ClientOptions{MaxPaths: 100})
			g.observers = append(g.observers, ob)
			st.observers++
		case "drop":
			for rd := range g.model {
				for _, fam := range []int{4, 6} {
					if rib := ribOf(g, rd, fam); rib != nil {
						g.oldRibs = append(g.oldRibs, rib)
					}
				}
			}
			if o.Reset {
				g.sess.Conn.Reset()
			} else {
				g.sess.Conn.CloseWrite()
			}
			if !sessionEnded(g, o) {
				return
			}
			continue
		case "term":
			for rd := range g.model {
				for _, fam := range []int{4, 6} {
					if rib := ribOf(g, rd, fam); rib != nil {
						g.oldRibs = append(g.oldRibs, rib)
					}
				}
			}
			g.sess.Conn.Feed(h.message(o))
			st.msgs++
			if !sessionEnded(g, o) {
				return
			}
			continue
		default:
			msg := h.message(o)
			st.msgs++
			if h.Stream {
				g.sess.Conn.Feed(msg)
				if s := g.sess.Conn.WaitQuiescent(watchdog); s != bmpconn.Blocked {
					if out, ok := g.sess.Returned(time.Second); ok && out.Panicked {
						where, via := bmprig.TopFrames(out.Stack)
						viol("panic", vf.F("where", where, "via", via, "what", bmprig.PanicClass(out.Panic), "op", o.K), fmt.Sprintf("op %d %+v: serve goroutine panicked: %s\n%s", i, o, out.Panic, out.Stack))
					} else {
						viol("wedge", vf.F("after", o.K), fmt.Sprintf("op %d %+v: connection %s after a well-formed message", i, o, s))
					}
					g.sess = nil
					return
				}
			} else {
				g.router.VerifProcessMsg(msg)
			}
			// model
			pd := h.Routers[o.R].Peers[o.Peer]
			src := ipString(pd.Addr, pd.V6)
			switch o.K {
			case "peerup":
				g.up[o.Peer] = true
				if g.model[pd.RD] == nil {
					g.model[pd.RD] = map[int]table{4: {}, 6: {}}
				}
			case "peerdown":
				g.up[o.Peer] = false
				st.peerdowns++
				for _, fam := range []int{4, 6} {
					for k := range g.model[pd.RD][fam] {
						if k.Peer == src {
							delete(g.model[pd.RD][fam], k)
						}
					}
				}
			case "rm":
				st.rm++
				a := attrs{UID: o.UID, Origin: o.Origin, MED: o.MED, LP: o.LP, Path: pathString(o.Path)}
				apply := func(fam int, ann, wd []nl, nh string) {
					t := g.model[pd.RD][fam]
					universe := h.P4
					if fam == 6 {
						universe = h.P6
					}
					if fam == 6 && len(ann) > 0 && len(wd) > 0 {
						st.mpBoth++
					}
					for _, e := range wd {
						if _, ok := t[key{src, pfxString(universe[e.P], fam), e.ID}]; ok && fam == 6 && len(ann) > 0 {
							st.mpBothWdHit++
						}
						delete(t, key{src, pfxString(universe[e.P], fam), e.ID})
					}
					for _, e := range ann {
						for _, as := range o.Path {
							if as == h.Routers[o.R].LocalAS {
								st.ownASAnnounced++
								break
							}
						}
						a.NH = nh
						k := key{src, pfxString(universe[e.P], fam), e.ID}
						t[k] = a
						if pd.AddPath {
							for kk := range t {
								if kk.Peer == k.Peer && kk.Pfx == k.Pfx && kk.ID != k.ID {
									st.addpathMulti++
								}
							}
						}
						for kk := range t {
							if kk.Peer != k.Peer && kk.Pfx == k.Pfx {
								st.twoPeersSamePrefix++
							}
						}
					}
				}
				nh4 := nhBytes4(o.UID)
				ip6, _ := bnet.IPFromBytes(nhBytes6(o.UID))
				apply(4, o.Ann4, o.Wd4, bnet.IPv4FromBytes(nh4[:]).String())
				apply(6, o.Ann6, o.Wd6, ip6.String())
			}
		}
		// checks after every message (all routers: a message for one must not touch the other)
		for ri, gg := range rigs {
			if gg.sess == nil {
				continue
			}
			seen := map[uint64]bool{}
			for rd, fams := range gg.model {
				seen[rd] = true
				for _, fam := range []int{4, 6} {
					want := fams[fam]
					rib := ribOf(gg, rd, fam)
					var got table
					if rib != nil {
						var dups []string
						got, dups = dumpTable(rib)
						if len(dups) > 0 && !h.Mixed {
							viol("extra", feat(o, fam), fmt.Sprintf("op %d %+v: router %d VRF %d: path listed twice: %v", i, o, ri, rd, dups))
						}
					} else if len(want) > 0 {
						viol("vrf_missing", vf.F("after", o.K), fmt.Sprintf("op %d %+v: router %d GetVRF(%d) is nil, model holds %d paths", i, o, ri, rd, len(want)))
						continue
					}
					st.checks++
					if !h.Mixed {
						bad := false
						compare(want, got, func(clause, d string) {
							bad = true
							viol(clause, feat(o, fam), fmt.Sprintf("op %d %+v: router %d VRF %d IPv%d: %s", i, o, ri, rd, fam, d))
						})
						if bad {
							// report a deviation once: continue from what the table really holds
							t := table{}
							for k, a := range got {
								if w, ok := want[k]; ok && sameAttrs(w, a) {
									a = w
								}
								t[k] = a
							}
							fams[fam] = t
						}
					} else {
						// mixed views: only "nothing of a peer that is down"
						for k := range got {
							if !peerUp(h, ri, gg, rd, k.Peer) {
								viol("extra", feat(o, fam), fmt.Sprintf("op %d %+v: router %d VRF %d IPv%d: path %v of a peer that is down", i, o, ri, rd, fam, k))
							}
						}
					}
				}
			}
			for _, v := range gg.router.GetVRFs() {
				if !seen[v.RD()] {
					viol("extra", vf.F("after", o.K, "what", "vrf"), fmt.Sprintf("op %d %+v: router %d lists VRF %d nobody announced", i, o, ri, v.RD()))
				}
			}
			for _, ob := range gg.observers {
				rib := ribOf(gg, ob.rd, ob.fam)
				if rib == nil {
					continue
				}
				got, _ := dumpTable(rib)
				ob.mu.Lock()
				errs := ob.errs
				ob.errs = nil
				var diff []string
				for k, l := range ob.content {
					if len(l) != 1 {
						diff = append(diff, fmt.Sprintf("observer holds %d paths for %v", len(l), k))
					} else if a, ok := got[k]; !ok {
						diff = append(diff, fmt.Sprintf("observer holds %v %s, table does not", k, l[0]))
					} else if a != l[0] {
						diff = append(diff, fmt.Sprintf("%v: observer %s, table %s", k, l[0], a))
					}
				}
				for k, a := range got {
					if _, ok := ob.content[k]; !ok {
						diff = append(diff, fmt.Sprintf("table holds %v %s, observer was not told", k, a))
					}
				}
				disposed, eor := ob.disposed, ob.eor
				ob.mu.Unlock()
				sort.Strings(diff)
				if len(errs) > 0 {
					viol("observer", feat(o, ob.fam), fmt.Sprintf("op %d %+v: router %d VRF %d IPv%d: %s", i, o, ri, ob.rd, ob.fam, strings.Join(errs, "; ")))
				}
				if len(diff) > 0 {
					viol("observer", feat(o, ob.fam), fmt.Sprintf("op %d %+v: router %d VRF %d IPv%d: %s", i, o, ri, ob.rd, ob.fam, strings.Join(diff[:min(len(diff), 4)], "; ")))
				}
				if disposed {
					viol("observer", vf.F("after", o.K, "what", "disposed_while_up"), fmt.Sprintf("op %d %+v: observer disposed while the session is up", i, o))
				}
				if !eor {
					viol("observer", vf.F("after", o.K, "what", "no_end_of_rib"), fmt.Sprintf("op %d %+v: observer never got EndOfRIB after registering", i, o))
				}
			}
		}
	}
}

func peerUp(h hist, ri int, g *rig, rd uint64, src string) bool {
	for pi, pd := range h.Routers[ri].Peers {
		if pd.RD == rd && ipString(pd.Addr, pd.V6) == src && g.up[pi] {
			return true
		}
	}
	return false
}

func firstKey(t table) key {
	var ks []key
	for k := range t {
		ks = append(ks, k)
	}
	sort.Slice(ks, func(i, j int) bool { return fmt.Sprint(ks[i]) < fmt.Sprint(ks[j]) })
	return ks[0]
}

func compare(want, got table, viol func(clause, detail string)) {
	var missing, extra, diff []string
	for k, a := range want {
		g, ok := got[k]
		if !ok {
			missing = append(missing, fmt.Sprintf("%v %s", k, a))
		} else if !sameAttrs(a, g) {
			diff = append(diff, fmt.Sprintf("%v: announced %s, table %s", k, a, g))
		}
	}
	for k, a := range got {
		if _, ok := want[k]; !ok {
			extra = append(extra, fmt.Sprintf("%v %s", k, a))
		}
	}
	sort.Strings(missing)
	sort.Strings(extra)
	sort.Strings(diff)
	if len(missing) > 0 {
		viol("missing", fmt.Sprintf("%d announced path(s) not in the table, e.g. %s (table holds %d paths)", len(missing), missing[0], len(got)))
	}
	if len(extra) > 0 {
		viol("extra", fmt.Sprintf("%d path(s) in the table that no up peer announces, e.g. %s", len(extra), extra[0]))
	}
	if len(diff) > 0 {
		viol("attrs", diff[0])
	}
}

func main() {
	bmprig.Quiet()
	vf.Main("C28", "exploration", func(r *vf.Run) {
		r.Rule("PRNG histories over 2 routers x 3 peers (IPv4/IPv6 peer addresses, eBGP/iBGP, 2- and 4-octet AS, A flag, add-path per OPEN pair, optionally the same address in both VRFs) x 2 VRFs (peer distinguisher 0 and 65000:100), 7 IPv4 and 5 IPv6 prefixes (parent/child, siblings, default, host routes): connect, initiation, peer up, route monitoring (IPv4 NLRI, MP_REACH/MP_UNREACH IPv6, withdrawals, mixed UPDATEs: IPv4 withdrawals + MP_UNREACH + IPv4 NLRI, MP_UNREACH + MP_REACH of different IPv6 prefixes in one UPDATE (one UPDATE in twelve), all four parts at once (one in twelve); each announcement with a unique next hop and community; AS_PATH = neighbour AS on eBGP plus 0-2 further hops, one in five of them an AS of the monitored topology itself: the monitored router's own AS, the other router's, the announcing or another peer's), statistics, observer registration, peer down, termination, connection loss (EOF/reset), reconnect; each peer uses one view (pre- or post-policy), 1/8 of the histories mix views and are judged only for panics, leftovers of down peers and the after-loss clauses; half of the histories go through the connection, half through VerifProcessMsg. distinct_nontrivial = histories with a peer down while it had routes, a reconnect, an observer registered while routes existed, two peers announcing one prefix and (non-mixed) an add-path peer holding two paths of one prefix")
		r.Assume("eBGP paths are not empty (such paths are hidden by the Adj-RIB-In; the statement does not speak about them); the receiver itself has no AS, so no AS_PATH is a loop for it: a path that contains the monitored router's own AS is an announced route like any other",
			"LOCAL_PREF is compared only when announced (bio-rd defaults it to 100 on eBGP sessions)",
			"one UPDATE mentions a prefix at most once")
		mk := func(h hist) func(string, map[string]string, string) {
			return func(clause string, f map[string]string, detail string) {
				r.Violate(vf.Violation{Clause: clause, Features: f, Detail: detail, Case: h})
			}
		}
		if raw, ok := r.Replaying(); ok {
			var h hist
			vf.Decode(raw, &h)
			runHist(h, &stats{}, mk(h))
			return
		}
		n := r.N(2000, 80000)
		var mu sync.Mutex
		vf.Parallel(n, 8, func(i int) {
			rng := r.RandN("c28", i)
			h := genHist(rng, 50+rng.IntN(20))
			st := &stats{}
			runHist(h, st, mk(h))
			mu.Lock()
			defer mu.Unlock()
			r.Eval(st.checks)
			r.Count("histories", 1)
			r.Count("messages", st.msgs)
			r.Count("route_monitoring_messages", st.rm)
			r.Count("peer_downs", st.peerdowns)
			r.Count("sessions", st.reconnects)
			r.Count("observers", st.observers)
			r.Count("addpath_second_path_events", st.addpathMulti)
			r.Count("paths_announced_with_the_monitored_routers_own_as", st.ownASAnnounced)
			r.Count("updates_with_mp_reach_and_mp_unreach", st.mpBoth)
			r.Count("routes_withdrawn_by_mp_unreach_next_to_mp_reach", st.mpBothWdHit)
			if h.Mixed {
				r.Count("mixed_view_histories", 1)
			}
			if h.Stream {
				r.Count("histories_through_connection", 1)
			}
			if st.peerdowns > 0 && st.reconnects > 2 && st.observers > 0 && st.twoPeersSamePrefix > 0 && (h.Mixed || st.addpathMulti > 0) {
				r.Nontrivial(fmt.Sprint(i))
			}
			if i < 2 {
				r.Sample(map[string]any{"routers": h.Routers, "first_ops": h.Ops[:min(12, len(h.Ops))], "n_ops": len(h.Ops), "stream": h.Stream, "mixed": h.Mixed})
			}
		})
		r.Require("route_monitoring_messages", 10000)
		r.Require("addpath_second_path_events", 100)
		r.Require("paths_announced_with_the_monitored_routers_own_as", 200)
		r.Require("routes_withdrawn_by_mp_unreach_next_to_mp_reach", 200)
	})
}
