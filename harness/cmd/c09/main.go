// C09: export eligibility and attribute rewriting follow the BGP RFCs.
// Oracle: the rule table of internal/rig/export.go, a literal transcription of the statement, applied per
// (path shape, community set, source peer, target session kind, role setting, OTC, add-path, way the route
// reaches the Adj-RIB-Out). The bounded domain is enumerated completely. Observation point of this half:
// AdjRIBOut.Dump() after the real pipeline (Loc-RIB -> registered Adj-RIB-Out) ran.
package main

import (
	"bytes"
	"fmt"
	"strings"
	"sync"

	"github.com/bio-routing/bio-rd/protocols/bgp/packet"
	"github.com/bio-routing/bio-rd/protocols/bgp/server"
	"github.com/bio-routing/bio-rd/protocols/bgp/types"

	"verifharness/internal/batch"
	"verifharness/internal/gen"
	"verifharness/internal/rig"
	"verifharness/internal/vf"
	"verifharness/internal/wire"
)

type c9case struct {
	Shape   int       `json:"shape"`
	Comms   int       `json:"comms"`
	Src     string    `json:"src"`    // ebgp | ibgp | rrclient | target | static
	Target  string    `json:"target"` // session kind
	Role    *rig.Role `json:"role,omitempty"`
	OTC     string    `json:"otc"` // none | own | other
	AddPath bool      `json:"addpath"`
	Mode    string    `json:"mode"`          // propagate | initial-dump | refresh
	Unk     bool      `json:"unk,omitempty"` // wire half: the path also carries an unknown optional transitive attribute
}

const (
	peerE = 0x0A000101 // eBGP peer A, AS 65101
	peerI = 0x0A000201 // iBGP peer B
	peerC = 0x0A000301 // iBGP RR client C
	peerT = 0x0A000901 // the target session's peer
	asE   = 65101
	asT   = 65109
)

var shapeNames = []string{"seq2", "seq4", "set-first", "seq+set", "empty", "rr-attrs"}
var commNames = []string{"none", "plain", "no-export", "no-advertise", "plain+no-export", "no-export+no-advertise", "no-advertise+no-export", "no-export+plain+no-advertise"}

func commSet(i int) []uint32 {
	switch i {
	case 1:
		return []uint32{65000<<16 | 7}
	case 2:
		return []uint32{types.WellKnownCommunityNoExport}
	case 3:
		return []uint32{types.WellKnownCommunityNoAdvertise}
	case 4:
		return []uint32{65000<<16 | 7, types.WellKnownCommunityNoExport}
	case 5:
		return []uint32{types.WellKnownCommunityNoExport, types.WellKnownCommunityNoAdvertise}
	case 6:
		return []uint32{types.WellKnownCommunityNoAdvertise, types.WellKnownCommunityNoExport}
	case 7:
		return []uint32{types.WellKnownCommunityNoExport, 65000<<16 | 7, types.WellKnownCommunityNoAdvertise}
	}
	return nil
}

func (c c9case) sess() rig.Sess {
	s := rig.Sess{Kind: c.Target, Peer: peerT, PeerASN: asT, Role: c.Role}
	if s.IBGP() {
		s.PeerASN = rig.DefaultLocal.ASN
	}
	if c.AddPath {
		s.AddPath = 3
	}
	return s
}

func (c c9case) path() rig.Attr {
	a := rig.Attr{ID: 1, NextHop: 0xC6336401, LocalPref: 100, MED: 5, Origin: 1}
	first := uint32(64801)
	switch c.Src {
	case "ebgp":
		a.Source, a.EBGP, a.BGPID, first = peerE, true, 0x01010101, asE
	case "ibgp":
		a.Source, a.BGPID = peerI, 0x02020202
	case "rrclient":
		a.Source, a.BGPID = peerC, 0x03030303
	case "target":
		a.Source, a.BGPID = peerT, 0x09090909
		if !c.sess().IBGP() {
			a.EBGP, first = true, asT
		}
	case "static":
		return rig.Attr{ID: 1, Static: true}
	}
	switch c.Shape {
	case 0:
		a.ASPath = []rig.Seg{{ASNs: []uint32{first, 64999}}}
	case 1:
		a.ASPath = []rig.Seg{{ASNs: []uint32{first, 64703, 64704, 64705}}}
	case 2:
		a.ASPath = []rig.Seg{{Set: true, ASNs: []uint32{64700, 64701}}, {ASNs: []uint32{64702}}}
	case 3:
		a.ASPath = []rig.Seg{{ASNs: []uint32{first}}, {Set: true, ASNs: []uint32{64707, 64708}}}
	case 4:
		a.ASPath = nil
	case 5:
		a.ASPath = []rig.Seg{{ASNs: []uint32{first, 64999}}}
		a.OriginatorID = 0x0A0A0A0A
		a.ClusterList = []uint32{0x0B0B0B0B, 0x0C0C0C0C}
	}
	a.Comms = commSet(c.Comms)
	if c.Unk {
		a.Unknown = []rig.Unk{{Optional: true, Transitive: true, Type: 222, Value: []byte{1, 2, 3}}}
	}
	switch c.OTC {
	case "own":
		a.OTC = rig.DefaultLocal.ASN
	case "other":
		a.OTC = 64666
	}
	return a
}

var pfx = gen.P{V4: true, Hi: 0xC6336400 << 32, Len: 24} // 198.51.100.0/24

type outcome struct {
	present bool
	checked bool
}

var hg *rig.HangGuard

func runCase(r *vf.Run, c c9case) (o outcome) {
	l := rig.DefaultLocal
	s := c.sess()
	a := c.path()
	feat := func(extra ...any) map[string]string {
		f := vf.F("target", c.Target, "source", rig.SourceKind(a), "mode", c.Mode)
		for i := 0; i+1 < len(extra); i += 2 {
			f[fmt.Sprint(extra[i])] = fmt.Sprint(extra[i+1])
		}
		return f
	}
	hangFeat := vf.F("mode", c.Mode, "addpath", c.AddPath)
	obs, g, hung, st := rig.RunGuarded(hg, fmt.Sprint(hangFeat), func() (obs []rig.Attr) {
		rg := rig.New(l, true)
		var out *rig.Out
		switch c.Mode {
		case "propagate":
			out = rg.AddOut(s, rig.AcceptAll())
			rg.Loc.AddPath(pfx.Bio(), a.Build(rg.Pool))
		case "initial-dump":
			rg.Loc.AddPath(pfx.Bio(), a.Build(rg.Pool))
			out = rg.AddOut(s, rig.AcceptAll())
		case "refresh":
			out = rg.AddOut(s, rig.RejectAll())
			rg.Loc.AddPath(pfx.Bio(), a.Build(rg.Pool))
			rg.ReplaceExport(out, rig.AcceptAll())
		}
		for _, rt := range out.Table.Dump() {
			for _, p := range rt.Paths() {
				obs = append(obs, rig.FromPath(p))
			}
		}
		return obs
	})
	if hung {
		r.Violate(vf.Violation{Clause: "hang", Features: hangFeat, Detail: fmt.Sprintf("path %s to %s: the table call never returned; blocked in:\n%s", a.Short(), s, st), Case: c})
		return
	}
	if g != "" {
		r.Violate(vf.Violation{Clause: "panic", Features: feat("site", rig.PanicSite(g)), Detail: fmt.Sprintf("path %s to %s: panic: %s", a.Short(), s, g), Case: c})
		return
	}
	o.present = len(obs) > 0
	excl := rig.Excluded(l, s, a)
	if excl != "" {
		if len(obs) > 0 {
			r.Violate(vf.Violation{Clause: "advertised:" + excl, Features: feat(), Case: c,
				Detail: fmt.Sprintf("path %s must not be advertised on %s (%s) but the Adj-RIB-Out holds %s", a.Short(), s, excl, rig.ShortList(obs))})
		}
		o.checked = true
		return
	}
	if len(obs) == 0 {
		return // whether an admitted path must be present is C08's statement, not this one
	}
	if len(obs) > 1 {
		r.Violate(vf.Violation{Clause: "duplicate", Features: feat(), Case: c, Detail: fmt.Sprintf("one Loc-RIB path, Adj-RIB-Out holds %s", rig.ShortList(obs))})
	}
	o.checked = true
	w := rig.Rewrite(l, s, a)
	ob := obs[0]
	orig := a
	if a.Static {
		orig = rig.Attr{ID: a.ID, Static: true}
	}
	// W1
	if s.Kind == rig.EBGP {
		want := orig.Clone()
		want.Prepend(l.ASN, 1)
		if ob.Field(rig.FASPath) != want.Field(rig.FASPath) {
			r.Violate(vf.Violation{Clause: "rewrite:W1-prepend", Features: feat(), Case: c,
				Detail: fmt.Sprintf("to eBGP peer: AS_PATH %s, want local ASN %d prepended to %s", ob.Field(rig.FASPath), l.ASN, orig.Field(rig.FASPath))})
		}
		if ob.NextHop != l.IP {
			r.Violate(vf.Violation{Clause: "rewrite:W1-nexthop", Features: feat(), Case: c,
				Detail: fmt.Sprintf("to eBGP peer: next hop %s, want the local address", ob.Field(rig.FNextHop))})
		}
	}
	// W2
	if w.RRRequired {
		if ob.OriginatorID == 0 {
			r.Violate(vf.Violation{Clause: "rewrite:W2-originator-id", Features: feat(), Case: c, Detail: "reflected to an RR client without ORIGINATOR_ID: " + ob.Short()})
		}
		if len(ob.ClusterList) == 0 || ob.ClusterList[0] != l.ClusterID {
			r.Violate(vf.Violation{Clause: "rewrite:W2-cluster-list", Features: feat(), Case: c,
				Detail: fmt.Sprintf("reflected to an RR client: CLUSTER_LIST %v does not start with the local cluster id %d", ob.ClusterList, l.ClusterID)})
		}
	}
	// W3
	if !s.IBGP() && s.Role.Known() {
		switch s.Role.Remote {
		case packet.PeerRoleRoleCustomer, packet.PeerRoleRolePeer, packet.PeerRoleRoleRSClient:
			if ob.OTC == 0 {
				r.Violate(vf.Violation{Clause: "rewrite:W3-otc", Features: feat("role", rig.RoleNames[s.Role.Remote]), Case: c,
					Detail: fmt.Sprintf("towards a %s no OTC attribute was added: %s", rig.RoleNames[s.Role.Remote], ob.Short())})
			}
		}
	}
	return
}

func enumerate() []c9case {
	var roles []*rig.Role
	roles = append(roles, nil)
	roles = append(roles, &rig.Role{Enabled: true, AdvByPeer: false, Local: packet.PeerRoleRoleProvider})
	for _, lo := range []uint8{0, 1, 2, 3, 4} {
		for _, re := range []uint8{0, 1, 2, 3, 4} {
			roles = append(roles, &rig.Role{Enabled: true, AdvByPeer: true, Local: lo, Remote: re})
		}
	}
	var out []c9case
	for shape := range shapeNames {
		for comms := range commNames {
			for _, src := range []string{"ebgp", "ibgp", "rrclient", "target", "static"} {
				for _, tgt := range rig.Kinds {
					for _, otc := range []string{"none", "own", "other"} {
						for _, ap := range []bool{false, true} {
							for _, mode := range []string{"propagate", "initial-dump", "refresh"} {
								rs := roles
								if tgt == rig.IBGP || tgt == rig.IBGPRR {
									rs = roles[:1] // RFC 9234 roles exist on eBGP sessions only
								}
								if src == "static" && (shape > 0 || comms > 0 || otc != "none") {
									continue // a static path has no BGP attributes to vary
								}
								for _, role := range rs {
									out = append(out, c9case{Shape: shape, Comms: comms, Src: src, Target: tgt, Role: role, OTC: otc, AddPath: ap, Mode: mode})
								}
							}
						}
					}
				}
			}
		}
	}
	return out
}

func main() {
	if batch.IsChild() { // server half (server.go): its cases run in child processes
		batch.ChildMain(runServerCase)
		return
	}
	vf.Main("C09", "exploration", func(r *vf.Run) {
		r.Rule("complete enumeration of 6 AS_PATH shapes (2- and 4-ASN sequence, leading AS_SET, sequence+set, empty, with ORIGINATOR_ID/CLUSTER_LIST already present) x 8 community sets (none, plain, NO_EXPORT, NO_ADVERTISE, plain+NO_EXPORT, NO_EXPORT+NO_ADVERTISE, NO_ADVERTISE+NO_EXPORT, NO_EXPORT+plain+NO_ADVERTISE) x source {eBGP peer, iBGP peer, RR client, the target peer itself, redistributed static} x target {eBGP, eBGP RS client, iBGP, iBGP RR client} x 27 role settings on eBGP targets (off, local only, 5 local x 5 remote roles) x OTC {absent, own ASN, other ASN} x add-path {off, on} x way of reaching the Adj-RIB-Out {propagated Loc-RIB change, initial dump at registration, refresh after an export-policy replacement}. distinct_nontrivial = combinations in which a rule of the table decided something (a forbidden advertisement to look for, or an advertised path whose rewrites were checked)." + srvRule)
		r.Assume("RFC 9234 roles are enumerated on eBGP targets only", "table half: LOCAL_PREF-only-to-iBGP and the presence of ORIGINATOR_ID/CLUSTER_LIST/OTC in the UPDATE bytes are judged by the wire half (see evidence key wire_half) and the server half",
			"exhaustive refers to the bounded domain of the table half; the server half (real sessions: SessionAttrs as the server derives them from AddPeer and the OPEN exchange, default cluster id = router id per RFC 4456) is PRNG sampled",
			"whether an admitted path must be present is C08's statement; here a missing path is not an alarm, but the run is inconclusive unless most admitted paths were observed")
		_, replay := r.Replaying()
		hg = rig.NewHangGuard(replay)
		if raw, ok := r.Replaying(); ok {
			if isServerCase(raw) {
				driveServer(r, []any{raw})
				return
			}
			var c c9case
			vf.Decode(raw, &c)
			if c.Mode == "wire" {
				wireCase(r, c)
			} else {
				runCase(r, c)
			}
			return
		}
		cases := enumerate()
		byTarget := map[string]int{}
		byRule := map[string]int{}
		var mu sync.Mutex
		vf.Parallel(len(cases), 16, func(i int) {
			c := cases[i]
			o := runCase(r, c)
			mu.Lock()
			defer mu.Unlock()
			r.Eval(1)
			byTarget[c.Target]++
			if o.checked {
				r.Nontrivial(fmt.Sprintf("%d", i))
				if o.present {
					r.Count("advertised_and_rewrites_checked", 1)
				} else {
					r.Count("forbidden_and_absence_checked", 1)
				}
			}
			if ex := rig.Excluded(rig.DefaultLocal, c.sess(), c.path()); ex != "" {
				byRule[strings.SplitN(ex, ":", 2)[0]]++
			} else if !o.present {
				r.Count("admitted_but_absent", 1)
			}
			if i%9973 == 0 {
				r.Sample(map[string]any{"case": c, "path": c.path().Short(), "session": c.sess().String(), "excluded_by": rig.Excluded(rig.DefaultLocal, c.sess(), c.path())})
			}
		})
		r.Exhaustive(true)
		r.Set("cases_by_target", byTarget)
		r.Set("cases_by_excluding_rule", byRule)
		r.Set("wire_half", wireHalf(r))
		r.Require("advertised_and_rewrites_checked", 1000)
		r.Require("forbidden_and_absence_checked", 1000)
		r.Require("wire_cases_judged", 100)
		driveServer(r, genServerCases(r))
	})
}

// wireCase runs one combination through the real pipeline with the real update sender (hook-built, bound to a
// capture writer) registered on the Adj-RIB-Out, forces one aggregation round with the sender's own EndOfRIB() and
// judges the UPDATE bytes with the independent codec.
func wireCase(r *vf.Run, c c9case) (sent bool) {
	l := rig.DefaultLocal
	s := c.sess()
	a := c.path()
	feat := func(extra ...any) map[string]string {
		f := vf.F("target", c.Target, "observed", "wire")
		for i := 0; i+1 < len(extra); i += 2 {
			f[fmt.Sprint(extra[i])] = fmt.Sprint(extra[i+1])
		}
		return f
	}
	type res struct {
		stream []byte
		stored []rig.Attr
	}
	out, g, hung, st := rig.RunGuarded(hg, "wire/"+c.Target, func() (x res) {
		rg := rig.New(l, true)
		o := rg.AddOut(s, rig.AcceptAll())
		var buf bytes.Buffer
		snd := server.VerifNewUpdateSender(server.VerifUpdateSenderConfig{Out: &buf, AFI: 1, SAFI: 1, IBGP: s.IBGP(), RRClient: s.Kind == rig.IBGPRR, ASN4: true, LocalASN: l.ASN})
		o.Table.Register(snd)
		rg.Loc.AddPath(pfx.Bio(), a.Build(rg.Pool))
		snd.EndOfRIB()
		for _, rt := range o.Table.Dump() {
			for _, p := range rt.Paths() {
				x.stored = append(x.stored, rig.FromPath(p))
			}
		}
		x.stream = append([]byte{}, buf.Bytes()...)
		return x
	})
	if hung {
		r.Violate(vf.Violation{Clause: "hang", Features: feat(), Detail: "the update sender never returned; blocked in:\n" + st, Case: c})
		return
	}
	if g != "" {
		r.Violate(vf.Violation{Clause: "panic", Features: feat("site", rig.PanicSite(g)), Detail: fmt.Sprintf("path %s to %s: panic: %s", a.Short(), s, g), Case: c})
		return
	}
	msgs, rest, err := wire.Split(out.stream)
	if err != nil || len(rest) > 0 {
		r.Violate(vf.Violation{Clause: "wire:framing", Features: feat(), Detail: fmt.Sprintf("captured stream does not split into messages: %v, %d trailing bytes", err, len(rest)), Case: c})
		return
	}
	var pa *wire.PathAttrs
	for _, m := range msgs {
		if m.Type != wire.TypeUpdate {
			continue
		}
		u, err := wire.DecodeUpdate(m.Body, wire.Options{AS4: true})
		if err != nil {
			r.Violate(vf.Violation{Clause: "wire:undecodable", Features: feat(), Detail: fmt.Sprintf("path %s to %s: UPDATE %x does not decode: %v", a.Short(), s, m.Raw, err), Case: c})
			return
		}
		for _, n := range u.Announced() {
			if n.Family == wire.IPv4Unicast && n.NLRI.Len == pfx.Len && bytes.HasPrefix([]byte{198, 51, 100}, n.NLRI.Addr[:min(3, len(n.NLRI.Addr))]) {
				pa = u.PA
			}
		}
	}
	if ex := rig.Excluded(l, s, a); ex != "" {
		if pa != nil {
			r.Violate(vf.Violation{Clause: "advertised:" + ex, Features: feat(), Case: c, Detail: fmt.Sprintf("path %s must not be advertised on %s (%s) but an UPDATE announces the prefix", a.Short(), s, ex)})
		}
		return true
	}
	if len(out.stored) == 0 {
		return false
	}
	if pa == nil {
		r.Violate(vf.Violation{Clause: "wire:not-sent", Features: feat(), Case: c, Detail: fmt.Sprintf("the Adj-RIB-Out holds %s for %s but no UPDATE announces the prefix (%d messages captured)", rig.ShortList(out.stored), s, len(msgs))})
		return false
	}
	w := rig.Rewrite(l, s, a)
	desc := func() string {
		return fmt.Sprintf("path %s to %s, Adj-RIB-Out %s", a.Short(), s, rig.ShortList(out.stored))
	}
	// W4: LOCAL_PREF only to iBGP peers
	if (pa.LocalPref != nil) != s.IBGP() {
		r.Violate(vf.Violation{Clause: "wire:W4-local-pref", Features: feat(), Case: c, Detail: fmt.Sprintf("LOCAL_PREF present=%v on a session with iBGP=%v: %s", pa.LocalPref != nil, s.IBGP(), desc())})
	}
	// W1
	if s.Kind == rig.EBGP {
		if len(pa.ASPath) == 0 || pa.ASPath[0].Type != wire.SegSequence || len(pa.ASPath[0].ASNs) == 0 || pa.ASPath[0].ASNs[0] != l.ASN {
			r.Violate(vf.Violation{Clause: "wire:W1-prepend", Features: feat(), Case: c, Detail: fmt.Sprintf("AS_PATH on the wire %v does not start with the local ASN: %s", pa.ASPath, desc())})
		}
		if !bytes.Equal(pa.NextHop, []byte{byte(l.IP >> 24), byte(l.IP >> 16), byte(l.IP >> 8), byte(l.IP)}) {
			r.Violate(vf.Violation{Clause: "wire:W1-nexthop", Features: feat(), Case: c, Detail: fmt.Sprintf("NEXT_HOP on the wire %v is not the local address: %s", pa.NextHop, desc())})
		}
	}
	// W2
	if w.RRRequired {
		if pa.OriginatorID == nil {
			r.Violate(vf.Violation{Clause: "wire:W2-originator-id", Features: feat(), Case: c, Detail: "reflected to an RR client, no ORIGINATOR_ID on the wire: " + desc()})
		}
		if len(pa.ClusterList) == 0 || pa.ClusterList[0] != l.ClusterID {
			r.Violate(vf.Violation{Clause: "wire:W2-cluster-list", Features: feat(), Case: c, Detail: fmt.Sprintf("reflected to an RR client, CLUSTER_LIST on the wire %v does not start with the local cluster id: %s", pa.ClusterList, desc())})
		}
	}
	// W3
	if !s.IBGP() && s.Role.Known() {
		switch s.Role.Remote {
		case packet.PeerRoleRoleCustomer, packet.PeerRoleRolePeer, packet.PeerRoleRoleRSClient:
			if pa.OTC == nil {
				r.Violate(vf.Violation{Clause: "wire:W3-otc", Features: feat("role", rig.RoleNames[s.Role.Remote]), Case: c, Detail: fmt.Sprintf("towards a %s the UPDATE carries no OTC attribute: %s", rig.RoleNames[s.Role.Remote], desc())})
			}
		}
	}
	return true
}

// wireHalf enumerates a sub-domain (2 AS_PATH shapes x 2 community sets x 4 sources x 4 targets x 6 role settings on
// eBGP targets x OTC absent/other x with/without an unknown optional transitive attribute) at the wire.
func wireHalf(r *vf.Run) string {
	n, sent := 0, 0
	roles := []*rig.Role{nil, {Enabled: true, AdvByPeer: true, Local: 0, Remote: 3}, {Enabled: true, AdvByPeer: true, Local: 3, Remote: 0},
		{Enabled: true, AdvByPeer: true, Local: 4, Remote: 4}, {Enabled: true, AdvByPeer: true, Local: 1, Remote: 2}, {Enabled: true, AdvByPeer: true, Local: 2, Remote: 1}}
	for _, shape := range []int{0, 5} {
		for _, comms := range []int{0, 1} {
			for _, src := range []string{"ebgp", "ibgp", "rrclient", "static"} {
				for _, tgt := range rig.Kinds {
					for _, otc := range []string{"none", "other"} {
						rs := roles
						if tgt == rig.IBGP || tgt == rig.IBGPRR {
							rs = roles[:1]
						}
						if src == "static" && (shape > 0 || comms > 0 || otc != "none") {
							continue
						}
						for _, role := range rs {
							for _, unk := range []bool{false, true} {
								if unk && src == "static" {
									continue
								}
								c := c9case{Shape: shape, Comms: comms, Src: src, Target: tgt, Role: role, OTC: otc, Mode: "wire", Unk: unk}
								n++
								if wireCase(r, c) {
									sent++
								}
								r.Eval(1)
							}
						}
					}
				}
			}
		}
	}
	r.Count("wire_cases", n)
	r.Count("wire_cases_judged", sent)
	return fmt.Sprintf("run: %d combinations through the hook-built update sender, %d judged on UPDATE bytes", n, sent)
}
