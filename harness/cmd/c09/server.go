// C09, server half: the export rules judged where a neighbour sees them. The table half (main.go) builds SessionAttrs
// itself; here they are whatever the real server derives from BGPServer.AddPeer, the OPEN exchange and the negotiated
// RFC 9234 roles. One case is one real server (internal/speaker, in-memory connections, the harness plays every
// neighbour) with
//
//	three neighbours that announce routes: an eBGP neighbour, an iBGP non-client, an RR client
//	    (plain, with OTC, NO_EXPORT, NO_EXPORT+NO_ADVERTISE in either order, RR attributes already present),
//	target sessions: eBGP without roles, eBGP whose neighbour sends no role capability, eBGP for each of the five role
//	    pairs, an RS client, an iBGP non-client, an RR client with a configured cluster id and one WITHOUT (the local
//	    cluster id is then the router id, RFC 4456); the announcing neighbours are targets as well (back to the sender),
//	half of the targets established before the announcements (propagation), half after (initial dump).
//
// Input of the oracle: the path as it stands in the Loc-RIB and the session as configured / as the harness' own OPEN
// says (the neighbour's role is the one the harness sent). Judged: the net effect of the UPDATE bytes each neighbour
// was sent, read once every prefix of the session's Adj-RIB-Out (dumped at a synchronisation point) stands on the wire.
package main

import (
	"encoding/json"
	"fmt"
	"math/rand/v2"
	"sort"
	"time"

	bnet "github.com/bio-routing/bio-rd/net"
	"github.com/bio-routing/bio-rd/protocols/bgp/server"
	"github.com/bio-routing/bio-rd/protocols/bgp/types"

	"verifharness/internal/batch"
	"verifharness/internal/gen"
	"verifharness/internal/rig"
	"verifharness/internal/speaker"
	"verifharness/internal/vf"
	"verifharness/internal/wire"
)

type srvPeer struct {
	Name      string `json:"name"`
	Kind      string `json:"kind"`                 // rig session kind
	Role      uint8  `json:"role,omitempty"`       // local role (server.PeerConfigRole*), 0 = off
	Mute      bool   `json:"mute,omitempty"`       // the neighbour's OPEN carries no role capability
	ClusterID uint32 `json:"cluster_id,omitempty"` // RR client: configured cluster id, 0 = none configured
	Late      bool   `json:"late,omitempty"`       // established after the announcements
	Feeds     bool   `json:"feeds,omitempty"`
}

type srvRoute struct {
	From  int      `json:"from"` // index of the announcing peer
	OTC   uint32   `json:"otc,omitempty"`
	Comms []uint32 `json:"comms,omitempty"`
	RR    bool     `json:"rr,omitempty"` // ORIGINATOR_ID and CLUSTER_LIST already present
}

type srvCase struct {
	Kind     string     `json:"kind"` // "server"
	RouterID uint32     `json:"router_id"`
	Peers    []srvPeer  `json:"peers"`
	Routes   []srvRoute `json:"routes"`
}

const srvLocalAS, srvLocalIP = 65000, 0x7F000001

func isServerCase(raw json.RawMessage) bool {
	var k struct {
		Kind string `json:"kind"`
	}
	return json.Unmarshal(raw, &k) == nil && k.Kind == "server"
}

func (c srvCase) peerAddr(i int) uint32 { return 0x7F000900 + uint32(i+1) }
func (c srvCase) peerAS(i int) uint32 {
	if k := c.Peers[i].Kind; k == rig.IBGP || k == rig.IBGPRR {
		return srvLocalAS
	}
	return 65101 + uint32(i)
}
func (c srvCase) pfx(ri int) gen.P {
	return gen.FromBio(bnet.NewPfx(bnet.IPv4FromOctets(10, 90, byte(ri), 0), 24).Ptr())
}

func genServerCase(rng *rand.Rand) srvCase {
	c := srvCase{Kind: "server", RouterID: 0x0AC80000 + uint32(1+rng.IntN(0xfffe))}
	cid := func() uint32 { return []uint32{0, 0x0AFE0000 + uint32(1+rng.IntN(200))}[rng.IntN(2)] }
	c.Peers = []srvPeer{
		{Name: "E", Kind: rig.EBGP, Feeds: true},
		{Name: "I", Kind: rig.IBGP, Feeds: true},
		{Name: "C", Kind: rig.IBGPRR, Feeds: true, ClusterID: cid()},
		{Name: "ebgp", Kind: rig.EBGP},
		{Name: "ebgp-neighbour-without-role", Kind: rig.EBGP, Role: uint8(1 + rng.IntN(5)), Mute: true},
	}
	for role := uint8(server.PeerConfigRoleProvider); role <= server.PeerConfigRolePeer; role++ {
		c.Peers = append(c.Peers, srvPeer{Name: "ebgp-role", Kind: rig.EBGP, Role: role})
	}
	c.Peers = append(c.Peers,
		srvPeer{Name: "rs-client", Kind: rig.EBGPRS, Role: []uint8{0, server.PeerConfigRoleRS}[rng.IntN(2)]},
		srvPeer{Name: "ibgp", Kind: rig.IBGP},
		srvPeer{Name: "rr-client-default-cluster", Kind: rig.IBGPRR},
		srvPeer{Name: "rr-client-configured-cluster", Kind: rig.IBGPRR, ClusterID: 0x0AFD0000 + uint32(1+rng.IntN(200))})
	for i := range c.Peers {
		c.Peers[i].Late = !c.Peers[i].Feeds && rng.IntN(2) == 0
	}
	otc := func() uint32 { return []uint32{64666, srvLocalAS, 65101}[rng.IntN(3)] }
	ne, na := uint32(types.WellKnownCommunityNoExport), uint32(types.WellKnownCommunityNoAdvertise)
	both := [][]uint32{{ne, na}, {na, ne}, {65000<<16 | 7, ne, na}}[rng.IntN(3)]
	c.Routes = []srvRoute{
		{From: 0}, {From: 0, OTC: otc()}, {From: 0, Comms: []uint32{ne}}, {From: 0, Comms: both}, {From: 0, Comms: []uint32{65000<<16 | 7}},
		{From: 1}, {From: 1, OTC: otc()}, {From: 1, RR: true}, {From: 1, Comms: []uint32{[]uint32{ne, na}[rng.IntN(2)]}},
		{From: 2}, {From: 2, OTC: otc()}, {From: 2, RR: true},
	}
	return c
}

type srvInconclusive string

func (e srvInconclusive) Error() string { return string(e) }

func srvBringUp(p *speaker.Peer, mute bool) (*speaker.Session, error) {
	var last error
	for attempt := 0; attempt < 5; attempt++ {
		time.Sleep(time.Duration(attempt*attempt) * 25 * time.Millisecond) // bio-rd's 1 s OpenSent timer may fire on a stalled machine
		s, err := p.Connect()
		if err == nil {
			o := p.DefaultOpen()
			if mute {
				var caps []wire.Capability
				for _, cp := range o.Caps {
					if cp.Code != wire.CapCodeRole {
						caps = append(caps, cp)
					}
				}
				o.Caps = caps
			}
			err = s.Establish(o)
		}
		if err == nil {
			return s, nil
		}
		last = err
		if s != nil && s.Conn != nil && !s.Conn.IsClosed() {
			s.SendNotification(6, 0)
			s.Conn.WaitClosed(2 * time.Second)
		}
	}
	return nil, srvInconclusive("cannot establish a session: " + last.Error())
}

// netEffect: prefix -> attributes of the last announcement that no later withdrawal removed.
func netEffect(out []byte, o wire.Options) (map[string]*wire.PathAttrs, error) {
	msgs, _, _ := wire.Split(out)
	m := map[string]*wire.PathAttrs{}
	for _, x := range msgs {
		if x.Type != wire.TypeUpdate {
			continue
		}
		u, err := wire.DecodeUpdate(x.Body, o)
		if err != nil {
			return nil, fmt.Errorf("UPDATE %x of bio-rd does not decode: %v", x.Raw, err)
		}
		for _, w := range u.Withdrawals() {
			delete(m, speaker.NLRIToP(w.NLRI).String())
		}
		for _, a := range u.Announced() {
			m[speaker.NLRIToP(a.NLRI).String()] = u.PA
		}
	}
	return m, nil
}

func flat(segs []wire.Segment) (out []uint32) {
	for _, s := range segs {
		out = append(out, s.ASNs...)
	}
	return out
}

func runServerCase(idx int, raw json.RawMessage) (res batch.Result) {
	var c srvCase
	if err := json.Unmarshal(raw, &c); err != nil {
		res.Inconcl = "undecodable case: " + err.Error()
		return
	}
	srv := speaker.NewServer(speaker.ServerConfig{RouterID: c.RouterID})
	peers := make([]*speaker.Peer, len(c.Peers))
	sess := make([]*speaker.Session, len(c.Peers))
	defer func() {
		for _, s := range sess {
			if s != nil && s.Conn != nil && !s.Conn.IsClosed() {
				s.SendNotification(6, 0)
				s.Conn.WaitClosed(2 * time.Second)
			}
		}
	}()
	for i, p := range c.Peers {
		var err error
		addr := bnet.IPv4(c.peerAddr(i))
		peers[i], err = srv.AddPeer(speaker.PeerConfig{LocalAS: srvLocalAS, PeerAS: c.peerAS(i), PeerAddr: &addr, RRClient: p.Kind == rig.IBGPRR, ClusterID: p.ClusterID,
			RSClient: p.Kind == rig.EBGPRS, Role: p.Role, IPv4: &speaker.Family{}})
		if err != nil {
			res.Inconcl = "AddPeer " + p.Name + ": " + err.Error()
			return
		}
	}
	up := func(late bool) error {
		for i, p := range c.Peers {
			if p.Late != late {
				continue
			}
			var err error
			if sess[i], err = srvBringUp(peers[i], p.Mute); err != nil {
				return fmt.Errorf("%s: %w", p.Name, err)
			}
		}
		return nil
	}
	if err := up(false); err != nil {
		res.Inconcl = err.Error()
		return
	}
	for ri, rt := range c.Routes {
		s := sess[rt.From]
		ibgp := c.peerAS(rt.From) == srvLocalAS
		pa := &wire.PathAttrs{Origin: wire.U8(0), HasASPath: true, NextHop: []byte{198, 18, 0, byte(1 + ri)}, Communities: rt.Comms}
		if ibgp {
			pa.ASPath, pa.LocalPref = []wire.Segment{{Type: wire.SegSequence, ASNs: []uint32{64701}}}, wire.U32(100)
		} else {
			pa.ASPath = []wire.Segment{{Type: wire.SegSequence, ASNs: []uint32{c.peerAS(rt.From), 64700}}}
		}
		if rt.OTC != 0 {
			pa.OTC = wire.U32(rt.OTC)
		}
		if rt.RR {
			pa.OriginatorID, pa.ClusterList = wire.U32(0x0A0A0A0A), []uint32{0x0B0B0B0B}
		}
		if err := s.SendUpdate(&wire.Update{Attrs: pa.Build(s.Neg.SendOpts()), NLRI: []wire.NLRI{speaker.PToNLRI(c.pfx(ri))}}); err != nil {
			res.Inconcl = "announce: " + err.Error()
			return
		}
	}
	for i, p := range c.Peers {
		if !p.Feeds {
			continue
		}
		if r := sess[i].Sync(); !r.OK() || !sess[i].Established() {
			res.Inconcl = fmt.Sprintf("valid UPDATEs ended the session of %s (%v, state %s, notifications %v)", p.Name, r, sess[i].State(), sess[i].Notifications())
			return
		}
	}
	if err := up(true); err != nil {
		res.Inconcl = err.Error()
		return
	}
	// the Loc-RIB is the oracle's input
	loc := map[string]rig.Attr{}
	for _, rt := range srv.Dump(true) {
		if ps := rt.Paths(); len(ps) == 1 {
			loc[gen.FromBio(rt.Prefix()).String()] = rig.FromPath(ps[0])
		}
	}
	for i, p := range c.Peers {
		s := sess[i]
		l := rig.Local{ASN: srvLocalAS, RouterID: c.RouterID, ClusterID: p.ClusterID, IP: srvLocalIP}
		if l.ClusterID == 0 {
			l.ClusterID = c.RouterID // RFC 4456: the cluster id defaults to the BGP identifier of the route reflector
		}
		rs := rig.Sess{Kind: p.Kind, Peer: c.peerAddr(i), PeerASN: c.peerAS(i)}
		role := "off"
		if p.Role != 0 {
			lw, _ := speaker.ConfigRoleToWire(p.Role)
			rs.Role = &rig.Role{Enabled: true, Local: lw}
			rs.Role.Remote, rs.Role.AdvByPeer = s.MyOpen.Role() // what the harness' own OPEN said
			role = rs.Role.String()
		}
		mode, cluster := "propagated", "-"
		if p.Late {
			mode = "initial-dump"
		}
		if p.Kind == rig.IBGPRR {
			cluster = map[bool]string{true: "configured", false: "default-router-id"}[p.ClusterID != 0]
		}
		feat := func(extra ...any) map[string]string {
			f := vf.F("target", p.Kind, "observed", "server-wire", "role", role, "mode", mode, "cluster_id", cluster)
			for j := 0; j+1 < len(extra); j += 2 {
				f[fmt.Sprint(extra[j])] = fmt.Sprint(extra[j+1])
			}
			return f
		}
		dump, ok := s.RIBOut(true)
		if !ok {
			res.Inconcl = "the established session of " + p.Name + " has no Adj-RIB-Out"
			return
		}
		var net map[string]*wire.PathAttrs
		var derr error
		flushed := s.Conn.WaitOut(speaker.StepTimeout, func(out []byte) bool {
			if net, derr = netEffect(out, s.Neg.RecvOpts()); derr != nil {
				return true
			}
			for _, rt := range dump {
				if net[gen.FromBio(rt.Prefix()).String()] == nil {
					return false
				}
			}
			return true
		})
		if derr != nil {
			res.Add("wire:undecodable", feat(), "%s: %v", p.Name, derr)
			continue
		}
		if !flushed || !s.Established() {
			res.Inconcl = fmt.Sprintf("%s: the UPDATEs on the wire never covered the session's Adj-RIB-Out (closed=%v)", p.Name, s.Conn.IsClosed())
			return
		}
		res.Count("server_sessions_judged", 1)
		res.Seen("server_sessions", fmt.Sprintf("%s role=%s %s cluster=%s", p.Kind, role, mode, cluster))
		var keys []string
		for k := range loc {
			keys = append(keys, k)
		}
		sort.Strings(keys)
		for _, k := range keys {
			a := loc[k]
			pa := net[k]
			desc := func() string {
				return fmt.Sprintf("router id %d, neighbour %s (%s, configured cluster id %d): Loc-RIB path %s for %s", c.RouterID, p.Name, rs, p.ClusterID, a.Short(), k)
			}
			if ex := rig.Excluded(l, rs, a); ex != "" {
				res.Count("server_forbidden_and_absence_checked", 1)
				if pa != nil {
					res.Add("advertised:"+ex, feat(), "%s must not be advertised (%s) but the neighbour was sent it with %s", desc(), ex, pa.Canon())
				}
				continue
			}
			if pa == nil {
				res.Count("server_admitted_but_absent", 1)
				continue // whether an admitted path must be present is C08's statement
			}
			res.Count("server_advertised_and_rewrites_checked", 1)
			if a.OTC != 0 {
				res.Count("server_otc_routes_sent_on", 1)
			}
			w := rig.Rewrite(l, rs, a)
			if (pa.LocalPref != nil) != rs.IBGP() { // W4
				res.Add("wire:W4-local-pref", feat(), "LOCAL_PREF present=%v on a session with iBGP=%v: %s", pa.LocalPref != nil, rs.IBGP(), desc())
			}
			if p.Kind == rig.EBGP { // W1
				var orig []uint32
				for _, sg := range a.ASPath {
					orig = append(orig, sg.ASNs...)
				}
				if got := flat(pa.ASPath); len(got) != len(orig)+1 || got[0] != srvLocalAS || fmt.Sprint(got[1:]) != fmt.Sprint(orig) {
					res.Add("wire:W1-prepend", feat(), "AS_PATH on the wire %v is not the local ASN in front of %v: %s", got, orig, desc())
				}
				if fmt.Sprint(pa.NextHop) != fmt.Sprint([]byte{127, 0, 0, 1}) {
					res.Add("wire:W1-nexthop", feat(), "NEXT_HOP on the wire %v is not the local address: %s", pa.NextHop, desc())
				}
			}
			if w.RRRequired { // W2
				res.Count("server_reflected_routes_checked", 1)
				if pa.OriginatorID == nil {
					res.Add("wire:W2-originator-id", feat(), "reflected to an RR client, no ORIGINATOR_ID on the wire: %s", desc())
				}
				if len(pa.ClusterList) == 0 || pa.ClusterList[0] != l.ClusterID {
					res.Add("wire:W2-cluster-list", feat(), "reflected to an RR client, CLUSTER_LIST on the wire %v does not start with the local cluster id %d: %s", pa.ClusterList, l.ClusterID, desc())
				}
			}
			if w.Base.OTC != 0 && a.OTC == 0 { // W3
				res.Count("server_otc_additions_checked", 1)
				if pa.OTC == nil {
					res.Add("wire:W3-otc", feat(), "towards a %s the UPDATE carries no OTC attribute: %s", role, desc())
				}
			}
		}
	}
	res.Count("server_cases", 1)
	res.Nontrivial = append(res.Nontrivial, fmt.Sprintf("server-%d", idx))
	if idx == 0 {
		res.Sample = map[string]any{"server_case": c}
	}
	return
}

const srvRule = " Server half: PRNG cases (router id, cluster ids, OTC values, community order, which targets come up before / after the announcements); each case is one real BGP server with 14 neighbours over in-memory connections: announcing eBGP / iBGP / RR-client neighbours (plain, OTC, NO_EXPORT, NO_EXPORT+NO_ADVERTISE in either order, RR attributes present) and targets {eBGP no roles, eBGP neighbour without role capability, eBGP x 5 role pairs, RS client, iBGP, RR client with configured cluster id, RR client without (default = router id)}; judged on the UPDATE bytes every neighbour was sent, against the Loc-RIB path and the session as configured / as the harness' OPEN negotiated it"

func driveServer(r *vf.Run, cases []any) {
	_, replay := r.Replaying()
	r.Eval(len(cases))
	batch.Drive(r, batch.Config{Name: "c09", PerChild: 16, Workers: 2, Lanes: 2, ChildBudget: 5 * time.Minute}, cases, func(i int, f batch.Fatal) map[string]string {
		return map[string]string{"observed": "server-wire"}
	})
	if !replay {
		r.Require("server_cases", int64(len(cases)*8/10))
		r.Require("server_reflected_routes_checked", int64(len(cases)*8))
		r.Require("server_otc_additions_checked", int64(len(cases)*8))
		r.Require("server_otc_routes_sent_on", int64(len(cases)*8))
	}
}

func genServerCases(r *vf.Run) []any {
	n := r.N(8, 200)
	out := make([]any, 0, n)
	for i := 0; i < n; i++ {
		out = append(out, genServerCase(r.RandN("c09-server", i)))
	}
	return out
}
