package main

import (
	"encoding/json"
	"runtime"
	"sync"
	"testing"
	"time"

	"verifharness/internal/vf"
)

func TestBench(t *testing.T) {
	r := &vf.Run{Seed: 1, Tier: "quick"}
	cases := genCases(r)[:2000]
	start := time.Now()
	var wg sync.WaitGroup
	ch := make(chan int)
	var mu sync.Mutex
	var worst time.Duration
	for w := 0; w < 8; w++ {
		wg.Add(1)
		go func() {
			defer wg.Done()
			for i := range ch {
				b, _ := json.Marshal(cases[i])
				t0 := time.Now()
				runCase(i, b)
				d := time.Since(t0)
				if d > 300*time.Millisecond {
					t.Logf("slow %v: %s", d, b)
				}
				mu.Lock()
				if d > worst {
					worst = d
				}
				mu.Unlock()
			}
		}()
	}
	for i := range cases {
		ch <- i
	}
	close(ch)
	wg.Wait()
	var ms runtime.MemStats; runtime.ReadMemStats(&ms); t.Logf("%d cases in %v, worst %v heap=%dMB sys=%dMB goroutines=%d", len(cases), time.Since(start), worst, ms.HeapAlloc>>20, ms.Sys>>20, runtime.NumGoroutine())
}
