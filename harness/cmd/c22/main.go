// C22: OPEN negotiation admits only valid sessions and negotiates correctly.
//
// Every case is one OPEN message from a bounded domain sent to a fresh bio-rd server with one of
// twelve local peer configurations over an in-memory connection. Oracles (DESIGN.md §4 C22):
//
//	established-on-invalid-open  the session reached Established although the reference predicate rejects
//	rejected-valid-open          the predicate accepts but the session did not reach Established
//	reject-notification          after a rejection no NOTIFICATION 2/x (x in the class's set) is on the wire
//	reject-connection-open       after a rejection bio-rd did not close the connection
//	negotiated-hold              hold time ≠ min(both offers)
//	negotiated-flags             4-octet AS / multiprotocol / add-path flag ≠ AND of both sides
//	update-encoding              the UPDATEs bio-rd sends next (pre-seeded routes) do not parse under exactly
//	                             the negotiated encoding (AS width, path identifiers, MP_REACH vs classic NLRI)
//
// "Established" is the FSM state published under the FSM's own lock together with "bio-rd has not
// closed this connection", read after the synchronisation point of internal/speaker.
package main

import (
	"encoding/json"
	"fmt"
	"math/rand/v2"
	"sort"
	"strings"
	"time"

	bnet "github.com/bio-routing/bio-rd/net"
	"github.com/bio-routing/bio-rd/protocols/bgp/server"

	"verifharness/internal/batch"
	"verifharness/internal/speaker"
	"verifharness/internal/vf"
	"verifharness/internal/wire"
)

type localCfg struct {
	Name     string `json:"name"`
	LocalAS  uint32 `json:"local_as"`
	PeerAS   uint32 `json:"peer_as"`
	V4       bool   `json:"v4"`
	V6       bool   `json:"v6"`
	V4MP     bool   `json:"v4mp,omitempty"`
	NHExt    bool   `json:"nhext,omitempty"` // extended next hop encoding for IPv4 (brings the IPv4 multiprotocol capability with it)
	APRecvV4 bool   `json:"ap_recv_v4,omitempty"`
	APSendV4 bool   `json:"ap_send_v4,omitempty"`
	APRecvV6 bool   `json:"ap_recv_v6,omitempty"`
	APSendV6 bool   `json:"ap_send_v6,omitempty"`
	Hold     int    `json:"hold"` // seconds, 0 = hold time 0
	Role     uint8  `json:"role,omitempty"`
	Strict   bool   `json:"strict,omitempty"`
}

var locals = []localCfg{
	{Name: "ibgp-v4", LocalAS: 65000, PeerAS: 65000, V4: true, Hold: 90},
	{Name: "ebgp-v4", LocalAS: 65000, PeerAS: 65001, V4: true, Hold: 90},
	{Name: "ebgp-peer-as4", LocalAS: 65000, PeerAS: 200000, V4: true, Hold: 90},
	{Name: "ebgp-local-as4", LocalAS: 200000, PeerAS: 65001, V4: true, V6: true, Hold: 90},
	{Name: "ibgp-v4v6-aprecv4", LocalAS: 65000, PeerAS: 65000, V4: true, V6: true, APRecvV4: true, Hold: 90},
	{Name: "ebgp-v4v6-apsend4-aprecv6", LocalAS: 65000, PeerAS: 65001, V4: true, V6: true, APSendV4: true, APRecvV6: true, Hold: 30},
	{Name: "ebgp-v4mp-apboth", LocalAS: 65000, PeerAS: 65001, V4: true, V4MP: true, V6: true, APRecvV4: true, APSendV4: true, APRecvV6: true, APSendV6: true, Hold: 90},
	{Name: "ebgp-v4-exthop", LocalAS: 65000, PeerAS: 65001, V4: true, NHExt: true, Hold: 90},
	{Name: "ibgp-v4v6-exthop-v4mp", LocalAS: 65000, PeerAS: 65000, V4: true, V6: true, NHExt: true, V4MP: true, Hold: 90},
	{Name: "ebgp-role-provider", LocalAS: 65000, PeerAS: 65001, V4: true, Hold: 90, Role: server.PeerConfigRoleProvider},
	{Name: "ebgp-role-customer-strict", LocalAS: 65000, PeerAS: 65001, V4: true, Hold: 90, Role: server.PeerConfigRoleCustomer, Strict: true},
	{Name: "ebgp-role-peer-strict", LocalAS: 65000, PeerAS: 65001, V4: true, V6: true, Hold: 90, Role: server.PeerConfigRolePeer, Strict: true},
	{Name: "ibgp-nohold", LocalAS: 65000, PeerAS: 65000, V4: true, V6: true, Hold: 0},
	{Name: "ebgp-hold3-rsclient", LocalAS: 65000, PeerAS: 65001, V4: true, Hold: 3, Role: server.PeerConfigRoleRS},
}

type openSpec struct {
	AS    string `json:"as"`    // cfg | other | trans
	Cap65 string `json:"cap65"` // none | cfg | other
	ID    string `json:"id"`    // zero | ours | other
	Hold  uint16 `json:"hold"`
	APv4  uint8  `json:"ap_v4"` // 0 none, 1 receive, 2 send, 3 both
	APv6  uint8  `json:"ap_v6"`
	MPv4  bool   `json:"mp_v4"`
	MPv6  bool   `json:"mp_v6"`
	Roles []int  `json:"roles"` // RFC 9234 capability values, 0…2 of them
	// Split: every capability travels in its own Capabilities optional parameter (RFC 5492 §4 allows one or several
	// capabilities per parameter and several parameters); Rot rotates the capability order by that many places
	Split bool `json:"split,omitempty"`
	Rot   int  `json:"rot,omitempty"`
}

type ccase struct {
	L int      `json:"l"`
	O openSpec `json:"o"`
}

var (
	asModes  = []string{"cfg", "other", "trans"}
	capModes = []string{"none", "cfg", "other"}
	idModes  = []string{"zero", "ours", "other"}
	holds    = []uint16{0, 1, 2, 3, 4, 5, 90, 65535}
	roleSets = [][]int{nil, {0}, {1}, {2}, {3}, {4}, {0, 4}, {3, 0}}
)

const otherAS = 64999
const serverID = 0x0a000001

func (o openSpec) build(l localCfg) *wire.Open {
	w := &wire.Open{Version: 4, HoldTime: o.Hold}
	switch o.AS {
	case "cfg":
		if l.PeerAS > 0xffff {
			w.AS = speaker.ASTrans
		} else {
			w.AS = uint16(l.PeerAS)
		}
	case "other":
		w.AS = otherAS
	case "trans":
		w.AS = speaker.ASTrans
	}
	switch o.Cap65 {
	case "cfg":
		w.Caps = append(w.Caps, wire.CapAS4(l.PeerAS))
	case "other":
		w.Caps = append(w.Caps, wire.CapAS4(otherAS))
	}
	switch o.ID {
	case "ours":
		w.ID = serverID
	case "other":
		w.ID = 0x0a090909
	}
	if o.MPv4 {
		w.Caps = append(w.Caps, wire.CapMP(wire.IPv4Unicast))
	}
	if o.MPv6 {
		w.Caps = append(w.Caps, wire.CapMP(wire.IPv6Unicast))
	}
	var ts []wire.AddPathTuple
	if o.APv4 != 0 {
		ts = append(ts, wire.AddPathTuple{Family: wire.IPv4Unicast, Mode: o.APv4})
	}
	if o.APv6 != 0 {
		ts = append(ts, wire.AddPathTuple{Family: wire.IPv6Unicast, Mode: o.APv6})
	}
	if len(ts) > 0 {
		w.Caps = append(w.Caps, wire.CapAddPath(ts...))
	}
	for _, r := range o.Roles {
		w.Caps = append(w.Caps, wire.CapRole(uint8(r)))
	}
	if n := len(w.Caps); n > 1 && o.Rot%n != 0 {
		k := o.Rot % n
		w.Caps = append(append([]wire.Capability{}, w.Caps[k:]...), w.Caps[:k]...)
	}
	w.CapsPerParam = o.Split
	return w
}

// verdict of the reference predicate
type verdict struct {
	Accept   bool     // must establish
	Reject   bool     // must not establish
	Why      []string // failed (or, for the AS, possibly failed) conditions in a fixed order: identifier-zero, identifier-ours, as, role, hold-time
	Definite []string // the conditions that fail for certain
	Allowed  []uint8  // NOTIFICATION 2/x subcodes that name one of the failed conditions
}

// predicate is the statement, literally: resolved peer AS = configured; identifier ≠ 0 and (eBGP or
// ≠ ours); hold time 0 or ≥ 3; RFC 9234 roles compatible incl. strict mode. Where the 2-octet field
// (≠ AS_TRANS) and capability 65 name different AS numbers the statement does not say which one
// "the peer's AS" is: if exactly one of them is the configured AS either outcome is accepted.
func predicate(l localCfg, w *wire.Open) verdict {
	var v verdict
	fail := func(name string, sub uint8, definite bool) {
		v.Why = append(v.Why, name)
		v.Allowed = append(v.Allowed, sub)
		if definite {
			v.Reject = true
			v.Definite = append(v.Definite, name)
		}
	}
	ebgp := l.LocalAS != l.PeerAS
	if w.ID == 0 {
		fail("identifier-zero", 3, true)
	} else if !ebgp && w.ID == serverID {
		fail("identifier-ours", 3, true)
	}
	cands := []uint32{uint32(w.AS)}
	if c, ok := w.AS4(); ok {
		if w.AS == speaker.ASTrans || uint32(w.AS) == c {
			cands = []uint32{c}
		} else {
			cands = []uint32{uint32(w.AS), c}
		}
	}
	match := 0
	for _, c := range cands {
		if c == l.PeerAS {
			match++
		}
	}
	asAmbiguous := match > 0 && match < len(cands)
	if match < len(cands) {
		fail("as", 2, match == 0)
	}
	if lr, on := speaker.ConfigRoleToWire(l.Role); on && ebgp {
		var roles []uint8
		for _, c := range w.Caps {
			if c.Code == wire.CapCodeRole && len(c.Value) == 1 {
				roles = append(roles, c.Value[0])
			}
		}
		bad := false
		switch {
		case len(roles) == 0:
			bad = l.Strict
		default:
			for _, r := range roles[1:] {
				if r != roles[0] {
					bad = true
				}
			}
			if !bad && !speaker.RolesCompatible(lr, roles[0]) {
				bad = true
			}
		}
		if bad {
			fail("role", 11, true)
		}
	}
	if w.HoldTime == 1 || w.HoldTime == 2 {
		fail("hold-time", 6, true)
	}
	if !v.Reject && !asAmbiguous {
		v.Accept = true
	}
	return v
}

func fam(v4 bool) string {
	if v4 {
		return "ipv4"
	}
	return "ipv6"
}

var (
	seedV4 = bnet.NewPfx(bnet.IPv4FromOctets(10, 77, 0, 0), 16)
	seedV6 = bnet.NewPfx(bnet.IPv6(0x20010db800770000, 0), 48)
)

// runCase runs the case; an attempt in which bio-rd's OpenSent/OpenConfirm hold timer fired (NOTIFICATION 4/x: the
// machine stalled for more than a second between two steps of the exchange) decides nothing and is repeated.
func runCase(idx int, raw json.RawMessage) batch.Result {
	var res batch.Result
	for attempt := 0; attempt < 4; attempt++ {
		var stalled bool
		res, stalled = runCaseOnce(idx, raw)
		if !stalled {
			return res
		}
	}
	return batch.Result{Inconcl: "bio-rd's hold timer fired during the OPEN exchange in 4 attempts (machine too slow)"}
}

func runCaseOnce(idx int, raw json.RawMessage) (res batch.Result, stalled bool) {
	var c ccase
	if err := json.Unmarshal(raw, &c); err != nil {
		res.Inconcl = "case does not decode: " + err.Error()
		return
	}
	l := locals[c.L]
	kind := "ibgp"
	if l.LocalAS != l.PeerAS {
		kind = "ebgp"
	}
	srv := speaker.NewServer(speaker.ServerConfig{RouterID: serverID})
	srv.AddStatic(seedV4.Ptr(), bnet.IPv4FromOctets(192, 0, 2, 77))
	if l.V6 {
		srv.AddStatic(seedV6.Ptr(), bnet.IPv6(0x20010db800000000, 0x77))
	}
	pc := speaker.PeerConfig{LocalAS: l.LocalAS, PeerAS: l.PeerAS, HoldTime: time.Duration(l.Hold) * time.Second, NoHold: l.Hold == 0,
		Role: l.Role, RoleStrict: l.Strict, AdvertiseIPv4MP: l.V4MP}
	if l.V4 {
		pc.IPv4 = &speaker.Family{AddPathRecv: l.APRecvV4, AddPathSend: l.APSendV4, NextHopExtended: l.NHExt}
	}
	if l.V6 {
		pc.IPv6 = &speaker.Family{AddPathRecv: l.APRecvV6, AddPathSend: l.APSendV6}
	}
	p, err := srv.AddPeer(pc)
	if err != nil {
		res.Inconcl = "AddPeer: " + err.Error()
		return
	}
	s, err := p.Connect()
	if err != nil {
		res.Inconcl = err.Error()
		return
	}
	sut, err := s.WaitSUTOpen()
	if err != nil {
		res.Inconcl = err.Error()
		return
	}
	my := c.O.build(l)
	v := predicate(l, my)
	why := strings.Join(v.Why, "+")
	s.SendOpen(my)
	r1 := s.Sync()
	if !r1.OK() {
		res.Inconcl = fmt.Sprintf("no synchronisation after OPEN (%v, state %s)", r1, s.State())
		return
	}
	res.Count("opens", 1)
	if my.CapsPerParam && len(my.Caps) > 1 {
		res.Count("opens_with_one_capability_per_parameter", 1)
		for i, c := range my.Caps[1:] {
			switch c.Code {
			case wire.CapCodeAS4:
				res.Count("split_opens_with_4_octet_as_behind_the_first_parameter", 1)
			case wire.CapCodeRole:
				res.Count("split_opens_with_role_behind_the_first_parameter", 1)
			case wire.CapCodeAddPath, wire.CapCodeMP:
				if i == 0 || my.Caps[i].Code != c.Code { // (counted once per capability kind run)
					res.Count("split_opens_with_addpath_or_mp_behind_the_first_parameter", 1)
				}
			}
		}
	}
	established := false
	var info server.VerifFSMInfo
	if i1, _ := s.Info(); i1.State == "openConfirm" && !s.Conn.IsClosed() {
		s.SendKeepalive()
		r2 := s.Sync()
		if !r2.OK() {
			res.Inconcl = fmt.Sprintf("no synchronisation after KEEPALIVE (%v, state %s)", r2, s.State())
			return
		}
		established = s.Established()
		info, _ = s.Info()
	}
	defer func() {
		// leave no timers behind: a session that is up (or half up) is torn down by a NOTIFICATION
		if st := s.State(); st == "established" || st == "openConfirm" || st == "openSent" {
			s.SendNotification(6, 0)
			s.Conn.WaitClosed(2 * time.Second)
		}
	}()

	pv := "either"
	if v.Accept {
		pv = "accept"
	} else if v.Reject {
		pv = "reject"
	}
	res.Count("predicate_"+pv, 1)
	res.Nontrivial = append(res.Nontrivial, fmt.Sprintf("%s|%s|%s|est=%v", l.Name, pv, why, established))
	for _, w := range v.Why {
		res.Seen("reject_reasons_driven", w)
	}

	notifs := s.Notifications()
	var ns []string
	for _, n := range notifs {
		ns = append(ns, fmt.Sprintf("%d/%d", n.Code, n.Subcode))
	}
	for _, n := range notifs {
		if n.Code == 4 {
			return batch.Result{}, true
		}
	}
	sent := strings.Join(ns, ",")
	if sent == "" {
		sent = "none"
	}
	desc := fmt.Sprintf("local=%s OPEN{as=%d cap65=%s id=%#x hold=%d caps=%s}", l.Name, my.AS, c.O.Cap65, my.ID, my.HoldTime, capsText(my))
	if my.CapsPerParam {
		desc += " (one Capabilities optional parameter per capability)"
	}

	if established {
		res.Count("established", 1)
		for _, cond := range v.Definite {
			res.Add("established-on-invalid-open", vf.F("why", cond),
				"%s: the reference predicate rejects (%s) but the session reached Established and the connection is open; bio-rd wrote %s", desc, cond, msgTypes(s))
		}
	} else {
		res.Count("not_established", 1)
		if v.Accept {
			res.Add("rejected-valid-open", vf.F("local", l.Name, "sent", sent),
				"%s: the reference predicate accepts but the session is in state %q (connection closed=%v); bio-rd wrote %s", desc, s.State(), s.Conn.IsClosed(), msgTypes(s))
		} else {
			// rejection: NOTIFICATION 2/x with x naming a failed condition, and the connection closed
			ok := false
			for _, n := range notifs {
				if n.Code == 2 {
					for _, a := range v.Allowed {
						if n.Subcode == a {
							ok = true
						}
					}
				}
			}
			if !ok {
				res.Add("reject-notification", vf.F("why", v.Why[0], "sent", sent),
					"%s: rejected (%s) but no OPEN error NOTIFICATION 2/%v is on the wire; bio-rd wrote %s", desc, why, v.Allowed, msgTypes(s))
			}
			if !s.Conn.IsClosed() {
				res.Add("reject-connection-open", vf.F("why", v.Why[0]),
					"%s: rejected (%s), FSM state %q, but bio-rd did not close the connection; bio-rd wrote %s", desc, why, s.State(), msgTypes(s))
			}
			res.Count("rejections_checked", 1)
		}
		return
	}

	// ---- negotiated parameters (reference: the two OPENs that were on the wire) ----
	neg := speaker.Negotiate(sut, my)
	wantHold := time.Duration(neg.HoldTime) * time.Second
	if info.HoldTime != wantHold {
		rel := "smaller-than-min"
		if info.HoldTime > wantHold {
			rel = "greater-than-min"
		}
		res.Add("negotiated-hold", vf.F("got", rel),
			"%s: bio-rd offered %d, peer offered %d, negotiated hold time is %v, want %v", desc, sut.HoldTime, my.HoldTime, info.HoldTime, wantHold)
	}
	flag := func(name string, v4 bool, got, want bool) {
		res.Count("flags_checked", 1)
		if got != want {
			res.Add("negotiated-flags", vf.F("flag", name, "family", fam(v4), "got", got),
				"%s: bio-rd's OPEN caps=%s; %s/%s is %v, both sides advertised it: %v", desc, capsText(sut), name, fam(v4), got, want)
		}
	}
	if info.ASN4 != neg.AS4 {
		res.Add("negotiated-flags", vf.F("flag", "asn4", "family", "-", "got", info.ASN4),
			"%s: 4-octet AS is %v, both sides advertised capability 65: %v", desc, info.ASN4, neg.AS4)
	}
	if l.V4 {
		// IPv4 unicast without the capability is the RFC 4271 default; "multiprotocol behaviour" for IPv4 = MP encoding
		flag("multiprotocol", true, info.IPv4.MultiProtocol, neg.MPv4)
		flag("addpath-rx", true, info.IPv4.AddPathRX, neg.ToSUTAddPathV4)
		flag("addpath-tx", true, info.IPv4.AddPathTX, neg.FromSUTAddPathV4)
	}
	if l.V6 {
		flag("multiprotocol", false, info.IPv6.MultiProtocol, neg.MPv6)
		flag("addpath-rx", false, info.IPv6.AddPathRX, neg.ToSUTAddPathV6)
		flag("addpath-tx", false, info.IPv6.AddPathTX, neg.FromSUTAddPathV6)
	}
	res.Nontrivial = append(res.Nontrivial, fmt.Sprintf("neg|%s|%+v", l.Name, neg))

	// ---- the UPDATEs bio-rd sent right after establishing (initial table dump; on the wire before the barrier) ----
	s.Neg = neg
	sawV4, sawV6 := false, false
	for _, u := range s.Updates() {
		res.Count("updates_decoded", 1)
		if u.Err != nil {
			res.Add("update-encoding", vf.F("what", "decode", "as4", neg.AS4, "addpath_v4", neg.FromSUTAddPathV4, "addpath_v6", neg.FromSUTAddPathV6),
				"%s: UPDATE %x does not parse under the negotiated options %+v: %v", desc, u.Raw, neg.RecvOpts(), u.Err)
			continue
		}
		for _, n := range u.U.NLRI {
			if neg.MPv4 {
				res.Add("update-encoding", vf.F("what", "classic-nlri-on-mp-session", "family", "ipv4"), "%s: IPv4 multiprotocol negotiated but %s is announced in the classic NLRI field", desc, n)
			}
			if n.Key() != "10.77.0.0/16" {
				res.Add("update-encoding", vf.F("what", "nlri-content", "family", "ipv4"), "%s: classic NLRI decodes to %s, the only IPv4 route is 10.77.0.0/16 (raw %x)", desc, n, u.Raw)
			} else {
				sawV4 = true
			}
		}
		if mp := u.U.PA.MPReach; mp != nil {
			switch mp.Family {
			case wire.IPv4Unicast:
				if !neg.MPv4 {
					res.Add("update-encoding", vf.F("what", "mp-reach-not-negotiated", "family", "ipv4"), "%s: MP_REACH_NLRI for IPv4 although the multiprotocol capability was not advertised by both sides", desc)
				}
				for _, n := range mp.NLRI {
					if n.Key() != "10.77.0.0/16" {
						res.Add("update-encoding", vf.F("what", "nlri-content", "family", "ipv4"), "%s: MP NLRI decodes to %s (raw %x)", desc, n, u.Raw)
					} else {
						sawV4 = true
					}
				}
			case wire.IPv6Unicast:
				if !neg.MPv6 {
					res.Add("update-encoding", vf.F("what", "mp-reach-not-negotiated", "family", "ipv6"), "%s: MP_REACH_NLRI for IPv6 although the multiprotocol capability was not advertised by both sides", desc)
				}
				for _, n := range mp.NLRI {
					if n.Key() != wire.V6(0x20010db800770000, 0, 48).Key() {
						res.Add("update-encoding", vf.F("what", "nlri-content", "family", "ipv6"), "%s: MP NLRI decodes to %s (raw %x)", desc, n, u.Raw)
					} else {
						sawV6 = true
					}
				}
			default:
				res.Add("update-encoding", vf.F("what", "family", "family", mp.Family.String()), "%s: MP_REACH_NLRI for family %s", desc, mp.Family)
			}
		}
		if len(u.U.Announced()) > 0 && kind == "ebgp" {
			// the AS_PATH must be the one prepended local AS; its width is what capability 65 negotiated
			ap := u.U.PA.ASPath
			if len(ap) != 1 || ap[0].Type != wire.SegSequence || len(ap[0].ASNs) != 1 {
				res.Add("update-encoding", vf.F("what", "as-path-shape"), "%s: AS_PATH %v, want one sequence with the local AS", desc, ap)
			} else if want := l.LocalAS; (neg.AS4 || want <= 0xffff) && ap[0].ASNs[0] != want {
				res.Add("update-encoding", vf.F("what", "as-path-value", "as4", neg.AS4), "%s: AS_PATH %v, want [%d]", desc, ap, want)
			}
		}
	}
	if sawV4 {
		res.Count("next_update_seen_ipv4", 1)
	}
	if sawV6 {
		res.Count("next_update_seen_ipv6", 1)
	}
	if idx%97 == 0 {
		res.Sample = map[string]any{"local": l.Name, "open": c.O, "predicate": pv, "established": established, "negotiated": neg, "biord_wrote": msgTypes(s)}
	}
	return
}

func capsText(o *wire.Open) string {
	var parts []string
	for _, c := range o.Caps {
		parts = append(parts, fmt.Sprintf("%d:%x", c.Code, c.Value))
	}
	return "[" + strings.Join(parts, " ") + "]"
}

func msgTypes(s *speaker.Session) string {
	m, rest, err := s.Messages()
	var parts []string
	for _, x := range m {
		switch x.Type {
		case wire.TypeOpen:
			parts = append(parts, "OPEN")
		case wire.TypeKeepalive:
			parts = append(parts, "KEEPALIVE")
		case wire.TypeUpdate:
			parts = append(parts, "UPDATE")
		case wire.TypeNotification:
			n, _ := wire.DecodeNotification(x.Body)
			parts = append(parts, n.String())
		default:
			parts = append(parts, fmt.Sprintf("type%d", x.Type))
		}
	}
	if err != nil || len(rest) > 0 {
		parts = append(parts, fmt.Sprintf("+%d stray bytes", len(rest)))
	}
	return "[" + strings.Join(parts, " ") + "]"
}

func pick[T any](rng *rand.Rand, xs []T) T { return xs[rng.IntN(len(xs))] }

func randSpec(rng *rand.Rand) openSpec {
	return openSpec{AS: pick(rng, asModes), Cap65: pick(rng, capModes), ID: pick(rng, idModes), Hold: pick(rng, holds),
		APv4: uint8(rng.IntN(4)), APv6: uint8(rng.IntN(4)), MPv4: rng.IntN(2) == 0, MPv6: rng.IntN(2) == 0, Roles: pick(rng, roleSets)}
}

// validSpec is an OPEN that the predicate accepts for l with everything else random.
func validSpec(rng *rand.Rand, l localCfg) openSpec {
	o := randSpec(rng)
	o.AS, o.ID = "cfg", "other"
	if l.PeerAS > 0xffff {
		o.Cap65 = "cfg"
	} else if o.Cap65 == "other" {
		o.Cap65 = "cfg"
	}
	if o.Hold == 1 || o.Hold == 2 {
		o.Hold = 3
	}
	o.Roles = nil
	if lr, on := speaker.ConfigRoleToWire(l.Role); on && l.LocalAS != l.PeerAS {
		for r := uint8(0); r < 5; r++ {
			if speaker.RolesCompatible(lr, r) {
				o.Roles = []int{int(r)}
			}
		}
	}
	return o
}

func genCases(r *vf.Run) []any {
	var out []any
	seen := map[string]bool{}
	add := func(l int, o openSpec) {
		b, _ := json.Marshal(ccase{L: l, O: o})
		if !seen[string(b)] {
			seen[string(b)] = true
			out = append(out, ccase{L: l, O: o})
		}
	}
	for li, l := range locals {
		rng := r.RandN("c22", li)
		first := len(out)
		// stratum 1: one-dimensional sweeps around a valid OPEN (each value of each dimension at least once)
		base := validSpec(rng, l)
		for _, x := range asModes {
			for _, y := range capModes {
				o := base
				o.AS, o.Cap65 = x, y
				add(li, o)
			}
		}
		for _, x := range idModes {
			o := base
			o.ID = x
			add(li, o)
		}
		for _, x := range holds {
			o := validSpec(rng, l)
			o.Hold = x
			add(li, o)
		}
		for _, x := range roleSets {
			o := validSpec(rng, l)
			o.Roles = x
			add(li, o)
		}
		for ap4 := uint8(0); ap4 < 4; ap4++ {
			for ap6 := uint8(0); ap6 < 4; ap6++ {
				for mp := 0; mp < 4; mp++ {
					o := validSpec(rng, l)
					o.APv4, o.APv6, o.MPv4, o.MPv6 = ap4, ap6, mp&1 != 0, mp&2 != 0
					add(li, o)
				}
			}
		}
		if !r.Quick() {
			// the complete core product AS × cap-65 × identifier × hold × roles with random capabilities
			for _, a := range asModes {
				for _, c := range capModes {
					for _, i := range idModes {
						for _, h := range holds {
							for _, ro := range roleSets {
								o := randSpec(rng)
								o.AS, o.Cap65, o.ID, o.Hold, o.Roles = a, c, i, h, ro
								add(li, o)
							}
						}
					}
				}
			}
		}
		// stratum 2: random points of the whole domain, half of them valid apart from the capabilities
		n := r.N(250, 4000)
		for k := 0; k < n; k++ {
			if k%2 == 0 {
				add(li, validSpec(rng, l))
			} else {
				add(li, randSpec(rng))
			}
		}
		// stratum 3: the same OPENs with every capability in its own Capabilities optional parameter and the capability
		// order rotated: all of the AS / identifier / hold / role sweeps, a quarter of the rest
		srng := r.RandN("c22split", li)
		for i, end := first, len(out); i < end; i++ {
			if o := out[i].(ccase).O; i-first < 28 || srng.IntN(4) == 0 {
				o.Split, o.Rot = true, srng.IntN(5)
				add(li, o)
			}
		}
	}
	return out
}

func main() {
	if batch.IsChild() {
		// no FSM ever ceases in this workload, so a barrier that is late on a closed connection is a stalled
		// machine, not an ended FSM: wait for it
		speaker.CeaseGrace = 5 * time.Second
		batch.ChildMain(runCase)
		return
	}
	vf.Main("C22", "exploration", func(r *vf.Run) {
		r.Rule("one OPEN per case against a fresh server with one of 12 local peer configurations (iBGP/eBGP, 2- and 4-octet local/peer AS, IPv4/IPv6, IPv4 multiprotocol, add-path receive/send per family, hold 0/3/30/90, RFC 9234 roles incl. strict). OPEN domain: AS field {configured|AS_TRANS, other, AS_TRANS} × capability 65 {absent, configured, other} × identifier {0, ours, other} × hold {0,1,2,3,4,5,90,65535} × add-path {none,receive,send,both} per family × multiprotocol {none,v4,v6,both} × roles {none, each of 5, two different}; per configuration: one-dimensional sweeps around a valid OPEN, the full add-path × multiprotocol product on valid OPENs, PRNG points (thorough: also the complete AS × cap-65 × identifier × hold × roles product); the sweeps and a quarter of the other points are repeated with every capability in its own Capabilities optional parameter (RFC 5492 §4) and the capability order rotated by 0-4 places. distinct_nontrivial = distinct (configuration, predicate verdict, failed conditions, established) and distinct negotiated parameter sets per configuration")
		r.Assume("the rest of the exchange is valid: version 4, well-formed capabilities, KEEPALIVE sent after bio-rd's OPEN/KEEPALIVE",
			"where the 2-octet AS field (≠ AS_TRANS) and capability 65 disagree and exactly one equals the configured AS, either outcome is accepted (the statement does not say which one is the peer's AS)",
			"reference negotiation is computed from the two OPEN messages on the wire with internal/wire, not from bio-rd's configuration")
		var cases []any
		if raw, ok := r.Replaying(); ok {
			cases = []any{raw}
		} else {
			cases = genCases(r)
		}
		r.Eval(len(cases))
		batch.Drive(r, batch.Config{Name: "c22", PerChild: 600, Workers: 8}, cases, func(i int, f batch.Fatal) map[string]string {
			return map[string]string{"stage": "open"}
		})
		if _, ok := r.Replaying(); !ok {
			r.Require("opens", int64(len(cases)*9/10))
			r.Require("established", 100)
			r.Require("rejections_checked", 100)
			r.Require("next_update_seen_ipv4", 50)
			r.Require("split_opens_with_4_octet_as_behind_the_first_parameter", 100)
			r.Require("split_opens_with_role_behind_the_first_parameter", 100)
			r.Require("split_opens_with_addpath_or_mp_behind_the_first_parameter", 100)
		}
		keys := []string{}
		for _, l := range locals {
			keys = append(keys, l.Name)
		}
		sort.Strings(keys)
		r.Set("local_configurations", keys)
	})
}
