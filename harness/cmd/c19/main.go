// C19: malformed UPDATEs never install routes.
//
// The parent builds valid UPDATEs, applies typed mutations (one or two per message) and keeps the
// mutants that the strict classifier of internal/wire puts into at least one of the classes of the
// statement (length-sum, nlri-tiling, attr-length, prefix-len, missing-mandatory). Each mutant is a
// case for a child process: bio-rd's own packet.Decode pre-screens it under the session's options;
// the mutants Decode accepts (up to a quota per mutation signature) and a 2 % sample of those it rejects
// are sent over a fresh Established session that already holds a few valid routes. After the synchronisation point the
// Adj-RIB-In of both families and the Loc-RIB are compared with their content before the message:
//
//	installed   a (prefix, path id, attributes) entry exists that was not there before
//
// Removals are not judged (the statement is about installing). A mutant that kills the process is
// C21's business: it is counted and sampled in the evidence, not judged here.
package main

import (
	"bytes"
	"encoding/binary"
	"encoding/hex"
	"encoding/json"
	"fmt"
	"math/rand/v2"
	"os"
	"sort"
	"strconv"
	"strings"
	"sync"
	"time"

	"github.com/bio-routing/bio-rd/protocols/bgp/packet"

	"verifharness/internal/batch"
	"verifharness/internal/gen"
	"verifharness/internal/sessgen"
	"verifharness/internal/speaker"
	"verifharness/internal/vf"
	"verifharness/internal/wire"
)

type ccase struct {
	Cfg      sessgen.Cfg     `json:"cfg"`
	Baseline sessgen.UpdSpec `json:"baseline"` // valid UPDATE sent first
	Source   string          `json:"source"`   // description of the valid UPDATE the mutant was made from
	Shape    string          `json:"shape"`    // where the valid UPDATE announces: classic | mp | both (classic NLRI and MP_REACH)
	Muts     []string        `json:"mutations"`
	Classes  []string        `json:"classes"`
	Msg      string          `json:"msg"` // hex of the whole mutant message
	Accepted bool            `json:"accepted_by_decode"`
}

func cfgOpts(c sessgen.Cfg) wire.Options {
	return wire.Options{AS4: c.PeerAS4 || c.BigPeer, AddPathIPv4: c.AddPathV4(), AddPathIPv6: c.AddPathV6()}
}

// ---------------------------------------------------------------------------------------------
// mutations

// mutant under construction: typed attributes + classic fields, then raw attrs, then body bytes
type work struct {
	opts wire.Options
	wd   []wire.NLRI
	nlri []wire.NLRI
	pa   *wire.PathAttrs
	// post-build patches
	attrEdits []func(attrs []wire.Attr) []wire.Attr
	bodyEdits []func(body []byte) []byte
}

func overlong(n wire.NLRI, rng *rand.Rand) wire.NLRI {
	max := 32
	if n.AFI == wire.AFIIPv6 {
		max = 128
	}
	l := max + 1 + rng.IntN(8)
	switch rng.IntN(4) {
	case 0:
		l = max + 1
	case 1:
		l = 255
	}
	addr := make([]byte, (l+7)/8)
	copy(addr, n.Addr)
	for i := len(n.Addr); i < len(addr); i++ {
		addr[i] = byte(rng.IntN(256))
	}
	n.Len, n.Addr = uint8(l), addr
	return n
}

type mutation struct {
	name string
	ok   func(w *work) bool
	do   func(w *work, rng *rand.Rand)
}

func hasAttr(w *work, t uint8) bool {
	switch t {
	case wire.AttrOrigin:
		return w.pa.Origin != nil
	case wire.AttrASPath:
		return w.pa.HasASPath
	case wire.AttrNextHop:
		return w.pa.NextHop != nil
	case wire.AttrMED:
		return w.pa.MED != nil
	case wire.AttrLocalPref:
		return w.pa.LocalPref != nil
	case wire.AttrAtomicAggregate:
		return w.pa.AtomicAggregate
	case wire.AttrCommunities:
		return w.pa.Communities != nil
	case wire.AttrOriginatorID:
		return w.pa.OriginatorID != nil
	case wire.AttrClusterList:
		return w.pa.ClusterList != nil
	}
	return false
}

func resize(t uint8, delta int) func(*work, *rand.Rand) {
	return func(w *work, rng *rand.Rand) {
		w.attrEdits = append(w.attrEdits, func(attrs []wire.Attr) []wire.Attr {
			for i := range attrs {
				if attrs[i].Type == t {
					v := attrs[i].Value
					if delta > 0 {
						for k := 0; k < delta; k++ {
							v = append(v, byte(rng.IntN(256)))
						}
					} else if len(v) >= -delta {
						v = v[:len(v)+delta]
					}
					attrs[i].Value = v
				}
			}
			return attrs
		})
	}
}

func dropAttr(ts ...uint8) func(*work, *rand.Rand) {
	return func(w *work, rng *rand.Rand) {
		w.attrEdits = append(w.attrEdits, func(attrs []wire.Attr) []wire.Attr {
			var out []wire.Attr
			for _, a := range attrs {
				keep := true
				for _, t := range ts {
					if a.Type == t {
						keep = false
					}
				}
				if keep {
					out = append(out, a)
				}
			}
			return out
		})
	}
}

func patchLen(which int, delta func(rng *rand.Rand, cur int) int) func(*work, *rand.Rand) {
	return func(w *work, rng *rand.Rand) {
		w.bodyEdits = append(w.bodyEdits, func(b []byte) []byte {
			if len(b) < 4 {
				return b
			}
			wl := int(binary.BigEndian.Uint16(b))
			off := 0
			if which == 1 {
				off = 2 + wl
				if off+2 > len(b) {
					return b
				}
			}
			cur := int(binary.BigEndian.Uint16(b[off:]))
			n := delta(rng, cur)
			if n < 0 {
				n = 0
			}
			binary.BigEndian.PutUint16(b[off:], uint16(n))
			return b
		})
	}
}

func plus(rng *rand.Rand, cur int) int {
	return cur + []int{1, 2, 3, 5, 8, 21, 200, 4000, 60000}[rng.IntN(9)]
}
func minus(rng *rand.Rand, cur int) int { return cur - []int{1, 2, 3, 5, 8, 21}[rng.IntN(6)] }

var fixedAttrs = []struct {
	t    uint8
	name string
}{{wire.AttrOrigin, "origin"}, {wire.AttrNextHop, "next-hop"}, {wire.AttrMED, "med"}, {wire.AttrLocalPref, "local-pref"},
	{wire.AttrAtomicAggregate, "atomic-aggregate"}, {wire.AttrOriginatorID, "originator-id"}}

func mutations() []mutation {
	ms := []mutation{
		{"withdrawn-length+", func(w *work) bool { return true }, patchLen(0, plus)},
		{"withdrawn-length-", func(w *work) bool { return len(w.wd) > 0 }, patchLen(0, minus)},
		{"attribute-length+", func(w *work) bool { return true }, patchLen(1, plus)},
		{"attribute-length-", func(w *work) bool { return true }, patchLen(1, minus)},
		{"truncate", func(w *work) bool { return true }, func(w *work, rng *rand.Rand) {
			w.bodyEdits = append(w.bodyEdits, func(b []byte) []byte {
				k := 1 + rng.IntN(6)
				if k >= len(b) {
					k = len(b) - 1
				}
				if k < 0 {
					k = 0
				}
				return b[:len(b)-k]
			})
		}},
		{"append-bytes", func(w *work) bool { return true }, func(w *work, rng *rand.Rand) {
			w.bodyEdits = append(w.bodyEdits, func(b []byte) []byte {
				tail := [][]byte{{24, 10}, {32, 10, 1}, {8}, {17, 172, 16}, {0, 0, 0, 1, 24, 10}}[rng.IntN(5)]
				return append(b, tail...)
			})
		}},
		{"nlri-short", func(w *work) bool { return len(w.nlri) > 0 && len(w.nlri[len(w.nlri)-1].Addr) > 0 }, func(w *work, rng *rand.Rand) {
			n := &w.nlri[len(w.nlri)-1]
			n.Addr = n.Addr[:len(n.Addr)-1]
		}},
		{"prefix-length:nlri", func(w *work) bool { return len(w.nlri) > 0 }, func(w *work, rng *rand.Rand) {
			i := rng.IntN(len(w.nlri))
			w.nlri[i] = overlong(w.nlri[i], rng)
		}},
		{"prefix-length:withdrawn", func(w *work) bool { return len(w.wd) > 0 }, func(w *work, rng *rand.Rand) {
			i := rng.IntN(len(w.wd))
			w.wd[i] = overlong(w.wd[i], rng)
		}},
		{"prefix-length:mp-reach", func(w *work) bool { return w.pa.MPReach != nil && len(w.pa.MPReach.NLRI) > 0 }, func(w *work, rng *rand.Rand) {
			i := rng.IntN(len(w.pa.MPReach.NLRI))
			w.pa.MPReach.NLRI[i] = overlong(w.pa.MPReach.NLRI[i], rng)
		}},
		{"prefix-length:mp-unreach", func(w *work) bool { return w.pa.MPUnreach != nil && len(w.pa.MPUnreach.NLRI) > 0 }, func(w *work, rng *rand.Rand) {
			i := rng.IntN(len(w.pa.MPUnreach.NLRI))
			w.pa.MPUnreach.NLRI[i] = overlong(w.pa.MPUnreach.NLRI[i], rng)
		}},
		{"mp-reach-nlri-short", func(w *work) bool {
			return w.pa.MPReach != nil && len(w.pa.MPReach.NLRI) > 0 && len(w.pa.MPReach.NLRI[len(w.pa.MPReach.NLRI)-1].Addr) > 0
		}, func(w *work, rng *rand.Rand) {
			n := &w.pa.MPReach.NLRI[len(w.pa.MPReach.NLRI)-1]
			n.Addr = n.Addr[:len(n.Addr)-1]
		}},
		{"drop:origin", func(w *work) bool { return hasAttr(w, wire.AttrOrigin) }, dropAttr(wire.AttrOrigin)},
		{"drop:as-path", func(w *work) bool { return hasAttr(w, wire.AttrASPath) }, dropAttr(wire.AttrASPath)},
		{"drop:next-hop", func(w *work) bool { return hasAttr(w, wire.AttrNextHop) }, dropAttr(wire.AttrNextHop)},
		{"drop:all-mandatory", func(w *work) bool { return hasAttr(w, wire.AttrOrigin) }, dropAttr(wire.AttrOrigin, wire.AttrASPath, wire.AttrNextHop)},
		{"drop:all-attributes", func(w *work) bool { return len(w.nlri) > 0 }, func(w *work, rng *rand.Rand) {
			w.attrEdits = append(w.attrEdits, func([]wire.Attr) []wire.Attr { return nil })
		}},
		{"mp-next-hop-empty", func(w *work) bool { return w.pa.MPReach != nil && len(w.pa.MPReach.NLRI) > 0 }, func(w *work, rng *rand.Rand) {
			w.pa.MPReach.NextHop = nil
		}},
		{"as-path-count+", func(w *work) bool { return len(w.pa.ASPath) > 0 }, func(w *work, rng *rand.Rand) {
			w.attrEdits = append(w.attrEdits, func(attrs []wire.Attr) []wire.Attr {
				for i := range attrs {
					if attrs[i].Type == wire.AttrASPath && len(attrs[i].Value) >= 2 {
						attrs[i].Value[1] += byte(1 + rng.IntN(3))
					}
				}
				return attrs
			})
		}},
		{"as-path-count-", func(w *work) bool { return len(w.pa.ASPath) > 0 && len(w.pa.ASPath[0].ASNs) > 0 }, func(w *work, rng *rand.Rand) {
			w.attrEdits = append(w.attrEdits, func(attrs []wire.Attr) []wire.Attr {
				for i := range attrs {
					if attrs[i].Type == wire.AttrASPath && len(attrs[i].Value) >= 2 && attrs[i].Value[1] > 0 {
						attrs[i].Value[1]--
					}
				}
				return attrs
			})
		}},
		{"as-path-odd-bytes", func(w *work) bool { return len(w.pa.ASPath) > 0 }, resize(wire.AttrASPath, 1)},
		{"communities-odd-bytes", func(w *work) bool { return hasAttr(w, wire.AttrCommunities) }, resize(wire.AttrCommunities, 1)},
		{"cluster-list-odd-bytes", func(w *work) bool { return hasAttr(w, wire.AttrClusterList) }, resize(wire.AttrClusterList, -1)},
		{"last-attribute-overruns", func(w *work) bool { return true }, func(w *work, rng *rand.Rand) {
			w.attrEdits = append(w.attrEdits, func(attrs []wire.Attr) []wire.Attr {
				if len(attrs) == 0 {
					return attrs
				}
				// marks the attribute; the declared length is raised after encoding (see build)
				attrs[len(attrs)-1].Flags |= 0x01
				return attrs
			})
		}},
	}
	for _, f := range fixedAttrs {
		f := f
		ms = append(ms,
			mutation{"fixed-size:" + f.name + "+1", func(w *work) bool { return hasAttr(w, f.t) }, resize(f.t, 1)},
			mutation{"fixed-size:" + f.name + "-1", func(w *work) bool { return hasAttr(w, f.t) && f.t != wire.AttrAtomicAggregate }, resize(f.t, -1)},
		)
	}
	ms = append(ms, mutation{"fixed-size:next-hop+12", func(w *work) bool { return hasAttr(w, wire.AttrNextHop) }, resize(wire.AttrNextHop, 12)})
	// the length octet INSIDE MP_REACH_NLRI (next hop length) against what the attribute holds; the attribute's own
	// length and all outer lengths stay consistent
	hasMPNH := func(w *work) bool { return w.pa.MPReach != nil && len(w.pa.MPReach.NextHop) > 0 }
	for _, k := range []string{"double", "to-end", "past-end", "plus", "minus", "max"} {
		ms = append(ms, mutation{"mp-next-hop-length:" + k, hasMPNH, mpNextHopLen(k)})
	}
	// MP_REACH_NLRI / MP_UNREACH_NLRI cut inside their fixed part (AFI, SAFI, next hop length, next hop, reserved)
	ms = append(ms,
		mutation{"mp-reach-cut", hasMPNH, func(w *work, rng *rand.Rand) {
			w.attrEdits = append(w.attrEdits, func(attrs []wire.Attr) []wire.Attr {
				for i := range attrs {
					if v := attrs[i].Value; attrs[i].Type == wire.AttrMPReach && len(v) >= 5 {
						fixed := 4 + int(v[3]) + 1
						if fixed > len(v) {
							fixed = len(v)
						}
						attrs[i].Value = v[:rng.IntN(fixed)]
					}
				}
				return attrs
			})
		}},
		mutation{"mp-unreach-cut", func(w *work) bool { return w.pa.MPUnreach != nil }, func(w *work, rng *rand.Rand) {
			w.attrEdits = append(w.attrEdits, func(attrs []wire.Attr) []wire.Attr {
				for i := range attrs {
					if attrs[i].Type == wire.AttrMPUnreach && len(attrs[i].Value) >= 3 {
						attrs[i].Value = attrs[i].Value[:rng.IntN(3)]
					}
				}
				return attrs
			})
		}})
	return ms
}

// mpNextHopLen rewrites the next hop length octet of MP_REACH_NLRI: "double" = twice the real length (16 -> 32 is the
// length of the legitimate global + link-local form, 4 -> 8), "to-end" = everything behind the octet (no room for the
// reserved octet), "past-end" = 1…8 more than the attribute holds, "plus" / "minus" = 1…15 more / 1…all less, "max" = 255.
func mpNextHopLen(kind string) func(*work, *rand.Rand) {
	return func(w *work, rng *rand.Rand) {
		w.attrEdits = append(w.attrEdits, func(attrs []wire.Attr) []wire.Attr {
			for i := range attrs {
				v := attrs[i].Value
				if attrs[i].Type != wire.AttrMPReach || len(v) < 5 {
					continue
				}
				real, rest := int(v[3]), len(v)-4
				n := real
				switch kind {
				case "double":
					n = 2 * real
				case "to-end":
					n = rest
				case "past-end":
					n = rest + 1 + rng.IntN(8)
				case "plus":
					n = real + 1 + rng.IntN(15)
				case "minus":
					if real > 0 {
						n = real - 1 - rng.IntN(real)
					}
				case "max":
					n = 255
				}
				if n < 0 {
					n = 0
				}
				if n > 255 {
					n = 255
				}
				v[3] = byte(n)
			}
			return attrs
		})
	}
}

// build serialises the mutant body.
func (w *work) build() []byte {
	attrs := w.pa.Build(w.opts)
	for _, e := range w.attrEdits {
		attrs = e(attrs)
	}
	wd := wire.EncodeNLRIs(w.wd, w.opts.AddPathIPv4)
	var a []byte
	for i, at := range attrs {
		overrun := at.Flags&0x01 != 0
		at.Flags &^= 0x01
		enc := at.Encode()
		if overrun && i == len(attrs)-1 {
			// raise the declared length of the last attribute beyond the attribute region
			if at.Flags&wire.FlagExtLen != 0 || len(at.Value) > 255 {
				binary.BigEndian.PutUint16(enc[2:], uint16(len(at.Value)+3))
			} else if len(at.Value) < 250 {
				enc[2] = byte(len(at.Value) + 3)
			}
		}
		a = append(a, enc...)
	}
	b := binary.BigEndian.AppendUint16(nil, uint16(len(wd)))
	b = append(b, wd...)
	b = binary.BigEndian.AppendUint16(b, uint16(len(a)))
	b = append(b, a...)
	b = append(b, wire.EncodeNLRIs(w.nlri, w.opts.AddPathIPv4)...)
	for _, e := range w.bodyEdits {
		b = e(b)
	}
	return b
}

// group maps a mutation to the part of the decoder it probes; violations are labelled with it.
func group(name string) string {
	switch {
	case strings.HasPrefix(name, "withdrawn-length"), strings.HasPrefix(name, "attribute-length"), name == "truncate", name == "last-attribute-overruns":
		return "length-fields"
	case name == "append-bytes", name == "nlri-short", name == "mp-reach-nlri-short":
		return "nlri-region"
	case strings.HasPrefix(name, "prefix-length:"):
		return "prefix-length"
	case strings.HasPrefix(name, "fixed-size:"):
		return "fixed-size-attribute"
	case strings.HasPrefix(name, "as-path-"), strings.HasSuffix(name, "-odd-bytes"):
		return "attribute-content"
	case strings.HasPrefix(name, "drop:"), name == "mp-next-hop-empty":
		return "mandatory-attributes"
	case strings.HasPrefix(name, "mp-next-hop-length:"):
		return "mp-next-hop-length"
	case name == "mp-reach-cut", name == "mp-unreach-cut":
		return "mp-attribute-cut"
	}
	return name
}

// mpFixedPart describes, from the bytes of the message, how the fixed part of its MP_REACH_NLRI / MP_UNREACH_NLRI
// (AFI, SAFI, next hop length, next hop, reserved octet / AFI, SAFI) relates to the attribute's declared length:
// "" when every MP attribute holds its fixed part.
func mpFixedPart(msg []byte) string {
	if len(msg) < wire.HeaderLen+4 {
		return ""
	}
	b := msg[wire.HeaderLen:]
	wl := int(binary.BigEndian.Uint16(b))
	if 4+wl > len(b) {
		return ""
	}
	al := int(binary.BigEndian.Uint16(b[2+wl:]))
	if 4+wl+al > len(b) {
		return ""
	}
	attrs, _ := wire.SplitAttrs(b[4+wl : 4+wl+al])
	for _, a := range attrs {
		v := a.Value
		switch a.Type {
		case wire.AttrMPReach:
			switch {
			case len(v) < 4:
				return "mp-reach-shorter-than-its-header"
			case len(v) < 4+int(v[3]):
				return "mp-reach-next-hop-overruns-the-attribute"
			case len(v) == 4+int(v[3]):
				return "mp-reach-ends-behind-the-next-hop(no-reserved-octet)"
			}
		case wire.AttrMPUnreach:
			if len(v) < 3 {
				return "mp-unreach-shorter-than-its-header"
			}
		}
	}
	return ""
}

// ---------------------------------------------------------------------------------------------
// case generation

func genSource(rng *rand.Rand, c sessgen.Cfg, u4, u6 []gen.P, nh uint32) sessgen.UpdSpec {
	var u sessgen.UpdSpec
	pick := func(u []gen.P, n int, ap bool) []sessgen.NL {
		var out []sessgen.NL
		seen := map[int]bool{}
		for k := 0; k < n; k++ {
			i := rng.IntN(len(u))
			if seen[i] {
				continue
			}
			seen[i] = true
			x := sessgen.NL{P: u[i]}
			if ap {
				x.ID = uint32(100 + rng.IntN(50))
			}
			out = append(out, x)
		}
		return out
	}
	for len(u.Ann)+len(u.MPR) == 0 {
		fam4 := c.V4 && (!c.V6 || rng.IntN(2) == 0)
		switch {
		case fam4 && c.V4MP && rng.IntN(2) == 0:
			u.MPR, u.MPRv4 = pick(u4, 1+rng.IntN(4), c.AddPathV4()), true
		case fam4:
			u.Ann = pick(u4, 1+rng.IntN(4), c.AddPathV4())
			if c.V6 && rng.IntN(3) == 0 {
				u.MPR = pick(u6, 1+rng.IntN(3), c.AddPathV6())
			}
		case c.V6:
			u.MPR = pick(u6, 1+rng.IntN(4), c.AddPathV6())
		}
	}
	if rng.IntN(3) == 0 {
		u.Wd = pick(u4, 1+rng.IntN(2), c.AddPathV4())
		// a prefix must not be announced and withdrawn by the same valid message
		var w []sessgen.NL
		for _, x := range u.Wd {
			dup := false
			for _, y := range append(append([]sessgen.NL{}, u.Ann...), u.MPR...) {
				if y.P == x.P {
					dup = true
				}
			}
			if !dup {
				w = append(w, x)
			}
		}
		u.Wd = w
	}
	if c.V6 && len(u.MPR) > 0 && !u.MPRv4 && rng.IntN(3) == 0 {
		var w []sessgen.NL
		for _, x := range pick(u6, 1+rng.IntN(2), c.AddPathV6()) {
			dup := false
			for _, y := range u.MPR {
				if y.P == x.P {
					dup = true
				}
			}
			if !dup {
				w = append(w, x)
			}
		}
		u.MPU = w
	}
	u.Attr = sessgen.RandAttrs(rng, c, nh)
	return u
}

func genCase(rng *rand.Rand, muts []mutation) (ccase, bool) {
	var c ccase
	c.Cfg = sessgen.RandCfg(rng)
	opts := cfgOpts(c.Cfg)
	// two disjoint universes: the baseline's prefixes and the mutant's
	all4 := gen.Universe(rng, true, 12)
	all6 := gen.Universe(rng, false, 12)
	base := sessgen.UpdSpec{Attr: sessgen.RandAttrs(rng, c.Cfg, 1)}
	for _, p := range all4[:3] {
		x := sessgen.NL{P: p}
		if c.Cfg.AddPathV4() {
			x.ID = 7
		}
		base.Ann = append(base.Ann, x)
	}
	if c.Cfg.V6 {
		for _, p := range all6[:3] {
			x := sessgen.NL{P: p}
			if c.Cfg.AddPathV6() {
				x.ID = 7
			}
			base.MPR = append(base.MPR, x)
		}
	}
	c.Baseline = base
	src := genSource(rng, c.Cfg, all4[3:], all6[3:], 2)
	if rng.IntN(4) == 0 && len(src.Wd) == 0 {
		// withdraw one of the baseline's routes in the same message
		x := base.Ann[rng.IntN(len(base.Ann))]
		src.Wd = []sessgen.NL{x}
	}
	c.Source = src.Describe()
	switch {
	case len(src.Ann) > 0 && len(src.MPR) > 0:
		c.Shape = "both"
	case len(src.MPR) > 0:
		c.Shape = "mp"
	default:
		c.Shape = "classic"
	}
	full, _ := src.Typed()
	w := &work{opts: opts, wd: sessgen.NLRIs(src.Wd), nlri: sessgen.NLRIs(src.Ann), pa: full}
	n := 1
	if rng.IntN(4) == 0 {
		n = 2
	}
	for k := 0; k < n; k++ {
		var m mutation
		found := false
		for try := 0; try < 40; try++ {
			m = muts[rng.IntN(len(muts))]
			if m.ok(w) {
				found = true
				break
			}
		}
		if !found {
			return c, false
		}
		m.do(w, rng)
		c.Muts = append(c.Muts, m.name)
	}
	body := w.build()
	if wire.HeaderLen+len(body) > wire.MaxLen {
		return c, false
	}
	for _, cl := range wire.ClassifyUpdate(body, opts) {
		c.Classes = append(c.Classes, string(cl))
	}
	if len(c.Classes) == 0 {
		return c, false
	}
	c.Msg = hex.EncodeToString(wire.Frame(wire.TypeUpdate, body))
	return c, true
}

// ---------------------------------------------------------------------------------------------
// child

type entry struct {
	Table string
	V4    bool
	Pfx   string
	ID    uint32
	Attrs string
}

func (e entry) String() string {
	return fmt.Sprintf("%s %s #%d {%s}", e.Table, e.Pfx, e.ID, e.Attrs)
}

func snapshot(srv *speaker.Server, s *speaker.Session) map[entry]bool {
	out := map[entry]bool{}
	for _, v4 := range []bool{true, false} {
		if d, ok := s.RIBIn(v4); ok {
			for _, v := range speaker.Views(d) {
				out[entry{"adj-rib-in", v4, v.PfxS, v.PathID, v.Attrs}] = true
			}
		}
		for _, v := range speaker.Views(srv.Dump(v4)) {
			out[entry{"loc-rib", v4, v.PfxS, v.PathID, v.Attrs}] = true
		}
	}
	return out
}

func preScreen(msg []byte, c sessgen.Cfg) (accepted bool, panicked string) {
	defer func() {
		if p := recover(); p != nil {
			accepted, panicked = false, fmt.Sprint(p)
		}
	}()
	buf := make([]byte, packet.MaxLen)
	copy(buf, msg)
	o := &packet.DecodeOptions{Use32BitASN: c.PeerAS4 || c.BigPeer, AddPathIPv4Unicast: c.AddPathV4(), AddPathIPv6Unicast: c.AddPathV6()}
	m, err := packet.Decode(bytes.NewBuffer(buf), o)
	return err == nil && m != nil, ""
}

func runCase(idx int, raw json.RawMessage) (res batch.Result) {
	var c ccase
	if err := json.Unmarshal(raw, &c); err != nil {
		res.Inconcl = "case does not decode: " + err.Error()
		return
	}
	msg, err := hex.DecodeString(c.Msg)
	if err != nil {
		res.Inconcl = "bad hex"
		return
	}
	accepted, panicked := preScreen(msg, c.Cfg)
	if panicked != "" {
		// Decode panics: the FSM goroutine (no recover there) would kill the process — C21's business
		res.Count("decode_panics_not_sent", 1)
		return
	}
	if accepted {
		res.Nontrivial = append(res.Nontrivial, fmt.Sprintf("%s|%s|%s", strings.Join(c.Muts, "+"), strings.Join(c.Classes, "+"), c.Cfg.Kind()))
		res.Seen("mutations_sent_through_sessions", strings.Join(c.Muts, "+"))
		for _, cl := range c.Classes {
			res.Count("accepted_session_class_"+cl, 1)
		}
	}
	srv, _, s, err := sessgen.NewSession(c.Cfg)
	if err != nil {
		res.Inconcl = "cannot establish: " + err.Error()
		return
	}
	// The session is torn down at the end unless the mutant installed something: with a damaged route in the
	// tables the teardown itself can kill the process (C21's business) and the verdict of this case would be lost.
	teardown := true
	defer func() {
		if teardown && s.Established() {
			s.SendNotification(6, 0)
			s.Sync()
		}
	}()
	w, _ := c.Baseline.Build(s.Neg.SendOpts())
	if err := s.SendUpdate(w); err != nil {
		res.Inconcl = "baseline: " + err.Error()
		return
	}
	if r := s.Sync(); !r.OK() || !s.Established() {
		res.Inconcl = fmt.Sprintf("baseline UPDATE ended the session (%v)", r)
		return
	}
	before := snapshot(srv, s)
	if len(before) == 0 {
		res.Inconcl = "baseline UPDATE installed nothing"
		return
	}
	s.Send(msg)
	r := s.Sync()
	if !r.Idle && !r.Closed {
		res.Inconcl = fmt.Sprintf("no synchronisation after the mutant (%v)", r)
		return
	}
	res.Count("sessions", 1)
	for _, cl := range c.Classes {
		res.Count("session_class_"+cl, 1)
	}
	if !accepted {
		res.Count("rejected_sample_through_session", 1)
	}
	if s.Established() {
		res.Count("session_survived", 1)
	}
	after := snapshot(srv, s)
	var fresh []entry
	for e := range after {
		if !before[e] {
			fresh = append(fresh, e)
		}
	}
	if len(fresh) == 0 {
		return
	}
	teardown = false
	sort.Slice(fresh, func(i, j int) bool { return fresh[i].String() < fresh[j].String() })
	table := "loc-rib"
	var list []string
	for i, e := range fresh {
		if e.Table == "adj-rib-in" {
			table = "adj-rib-in"
		}
		if i < 6 {
			list = append(list, e.String())
		}
	}
	// the finding is labelled with the mutation group(s) of the mutant (a pair: both, sorted)
	gs := map[string]bool{}
	for _, m := range c.Muts {
		g := group(m)
		if g == "mp-next-hop-length" || g == "mp-attribute-cut" {
			// these mutations end in different defects of the attribute: name the one this message has
			if fp := mpFixedPart(msg); fp != "" {
				g = fp
			}
		}
		gs[g] = true
	}
	var gl []string
	for g := range gs {
		gl = append(gl, g)
	}
	sort.Strings(gl)
	label := strings.Join(gl, "+")
	if len(c.Muts) > 1 {
		label = "two-mutations" // the groups are in the detail; every pair rides on an open single-mutation group
	}
	res.Add("installed", vf.F("group", label, "single", len(c.Muts) == 1),
		"groups %v, session{%s as4=%v ap4=%v ap6=%v}: valid %s mutated by %v is malformed (%s) but %d new entries (first in %s) exist after it was processed (session established afterwards: %v, bio-rd wrote %v): %s; message %s",
		gl, c.Cfg.Kind(), c.Cfg.PeerAS4 || c.Cfg.BigPeer, c.Cfg.AddPathV4(), c.Cfg.AddPathV6(), c.Source, c.Muts, strings.Join(c.Classes, "+"), len(fresh), table, s.Established(), s.Notifications(), strings.Join(list, "; "), c.Msg)
	res.Count("sessions_with_installed_routes", 1)
	return
}

func singles(m map[string]int) map[string]int {
	out := map[string]int{}
	for k, v := range m {
		if !strings.Contains(k, "+") || strings.HasSuffix(k, "+") && strings.Count(k, "+") == 1 {
			out[k] = v
		}
	}
	return out
}

func main() {
	if batch.IsChild() {
		// no FSM ever ceases in this workload, so a barrier that is late on a closed connection is a stalled
		// machine, not an ended FSM: wait for it
		speaker.CeaseGrace = 5 * time.Second
		batch.ChildMain(runCase)
		return
	}
	vf.Main("C19", "exploration", func(r *vf.Run) {
		r.Rule("valid UPDATEs (1–4 NLRI in the classic field, MP_REACH IPv4/IPv6, optional withdrawals; full attribute sets; session options drawn as in C20 and negotiated for real) → one mutation (25 %: two) out of: withdrawn-/attribute-length ±k, truncation, appended bytes, short NLRI, prefix length 33…255 / 129…255 in NLRI / withdrawn / MP_REACH / MP_UNREACH, dropped ORIGIN / AS_PATH / NEXT_HOP / all attributes, empty MP next hop, AS_PATH segment count ±, odd AS_PATH / COMMUNITIES / CLUSTER_LIST sizes, every fixed-size attribute one byte longer / shorter (outer lengths kept consistent), last attribute overrunning the region, the next hop length octet inside MP_REACH_NLRI doubled (16 -> 32, 4 -> 8: the length of the legitimate two-address form) / set to everything behind it / beyond the attribute / 1…15 more / less / 255 with the attribute itself unchanged, MP_REACH_NLRI / MP_UNREACH_NLRI cut inside their fixed part. About 6 % of the valid UPDATEs carry classic IPv4 NLRI next to an IPv6 MP_REACH_NLRI (routes outside the damaged attribute). Only mutants that the strict classifier labels with ≥ 1 class of the statement are cases. Every mutant bio-rd's Decode accepts (up to a quota per mutation signature and shape of the valid UPDATE: classic NLRI only / MP only / both), and every 100th (thorough: 50th) other one, goes through a fresh Established session that holds 3 (+3 IPv6) valid routes. distinct_nontrivial = distinct (mutation, classes, session kind) among mutants that Decode accepted")
		r.Assume("a message packet.Decode rejects cannot install anything because establishedState.msgReceived returns before looking at the body; re-checked on a 1–2 % sample of such mutants through real sessions",
			"removals caused by a malformed UPDATE are not judged", "process-fatal mutants are counted (coverage.process_fatal_*), C21 judges them")
		var cases []any
		if raw, ok := r.Replaying(); ok {
			cases = []any{raw}
		} else {
			muts := mutations()
			n := r.N(40000, 1500000)
			if v, err := strconv.Atoi(os.Getenv("VERIF_C19_N")); err == nil && v > 0 {
				n = v // development aid
			}
			quotaSingle, quotaPair := r.N(12, 600), r.N(1, 40)
			sampleEvery := r.N(60, 40) // share of the mutants Decode rejects that go through a session anyway
			// generation, classification and the Decode pre-screen are pure functions: done here, in parallel
			type slot struct {
				c  ccase
				ok bool
			}
			var mu sync.Mutex
			perSig := map[string]int{}
			accBySig := map[string]int{}
			total, discarded, accepted, rejected, panics, bothSent := 0, 0, 0, 0, 0, 0
			mpLenMutants := map[string]int{}
			classCount := map[string]int{}
			for base := 0; total < n; base += 4096 {
				slots := make([]slot, 4096)
				vf.Parallel(len(slots), 8, func(k int) {
					c, ok := genCase(r.RandN("c19", base+k), muts)
					if ok {
						msg, _ := hex.DecodeString(c.Msg)
						acc, pan := preScreen(msg, c.Cfg)
						c.Accepted = acc
						if pan != "" {
							mu.Lock()
							panics++
							mu.Unlock()
						}
					}
					slots[k] = slot{c, ok}
				})
				for k, sl := range slots {
					if total >= n {
						break
					}
					if !sl.ok {
						discarded++
						continue
					}
					total++
					c := sl.c
					for _, cl := range c.Classes {
						classCount[cl]++
					}
					sig := strings.Join(c.Muts, "+")
					if len(c.Muts) == 1 && group(c.Muts[0]) == "mp-next-hop-length" {
						mpLenMutants[c.Muts[0]+"|"+c.Shape]++
					}
					if !c.Accepted {
						rejected++
						if (base+k)%sampleEvery == 0 {
							cases = append(cases, c)
						}
						continue
					}
					accepted++
					accBySig[sig]++
					q := quotaSingle
					if len(c.Muts) > 1 {
						q = quotaPair
					}
					// the quota is per (mutations, shape of the valid UPDATE): whether routes exist outside the damaged
					// part of the message (classic NLRI next to a damaged MP attribute and vice versa) decides what an
					// accepted mutant can install
					if qs := sig + "|" + c.Shape; perSig[qs] < q {
						perSig[qs]++
						cases = append(cases, c)
						if c.Shape == "both" {
							bothSent++
						}
					}
				}
			}
			r.Eval(total)
			r.Count("mutants", total)
			r.Count("mutants_not_malformed_discarded", discarded)
			r.Count("decode_accepted", accepted)
			r.Count("decode_rejected", rejected)
			r.Count("decode_panics", panics)
			for cl, v := range classCount {
				r.Count("class_"+cl, v)
			}
			r.Set("decode_accepted_by_single_mutation", singles(accBySig))
			r.Set("mp_next_hop_length_mutants_by_kind_and_shape", mpLenMutants)
			r.Count("mp_next_hop_length_doubled_with_classic_nlri", mpLenMutants["mp-next-hop-length:double|both"])
			r.Count("accepted_mutants_with_classic_and_mp_nlri_sent", bothSent)
			r.Set("session_quota_per_mutation_signature", map[string]int{"single": quotaSingle, "pair": quotaPair})
		}
		for i := 0; i < len(cases) && i < 300; i += 97 {
			r.Sample(cases[i])
		}
		batch.Drive(r, batch.Config{Name: "c19", PerChild: 120, Workers: 1, Lanes: 8, FatalNotViolation: true}, cases, nil)
		if _, ok := r.Replaying(); !ok {
			r.Require("sessions", 300)
			for _, cl := range []string{"length-sum", "nlri-tiling", "attr-length", "prefix-len", "missing-mandatory"} {
				r.Require("class_"+cl, 200)
				r.Require("session_class_"+cl, 10) // accepted by Decode or not: every class is driven through real sessions
			}
			// the inner length octet of MP_REACH_NLRI was really varied on messages that also carry classic NLRI
			r.Require("mp_next_hop_length_doubled_with_classic_nlri", 5)
		}
	})
}
