// C17: every BGP message bio-rd emits is well-formed and round-trips.
// Monitor: routes with swept attribute sizes are pushed through the real update sender (hook-built,
// capture writer) — directly and behind a real Adj-RIB-Out — and every captured write is checked:
// at most 4096 bytes, header length = bytes written, the independent decoder (internal/wire) decodes
// it under the session's negotiated options to the content that was handed in, and packet.Decode
// agrees with the independent decoder. OPEN/NOTIFICATION/KEEPALIVE serializers are checked the same way
// over every capability configuration peer.go can build.
package main

import (
	"bytes"
	"encoding/hex"
	"fmt"
	"math/rand/v2"
	"runtime"
	"sort"
	"strings"
	"sync"

	bnet "github.com/bio-routing/bio-rd/net"
	"github.com/bio-routing/bio-rd/protocols/bgp/packet"
	"github.com/bio-routing/bio-rd/route"
	"github.com/bio-routing/bio-rd/routingtable"
	"github.com/bio-routing/bio-rd/routingtable/adjRIBOut"
	"github.com/bio-routing/bio-rd/routingtable/filter"

	"verifharness/internal/bgpx"
	"verifharness/internal/gen"
	"verifharness/internal/vf"
	"verifharness/internal/wire"
)

type openCase struct {
	LocalAS   uint32 `json:"local_as"`
	HoldTime  uint16 `json:"hold"`
	RouterID  uint32 `json:"id"`
	IPv4      bool   `json:"ipv4"`
	IPv6      bool   `json:"ipv6"`
	ExtNH     bool   `json:"extnh"`
	AdvV4MP   bool   `json:"adv_v4_mp"`
	AddPath4  uint8  `json:"addpath4"` // 0 none, 1 receive, 2 send, 3 both
	AddPath6  uint8  `json:"addpath6"`
	Role      int    `json:"role"` // -1: none
	ErrorCode uint8  `json:"code,omitempty"`
	ErrorSub  uint8  `json:"sub,omitempty"`
}

type c17case struct {
	Mode  string        `json:"mode"` // sender | ribout | open | notification | keepalive
	Sess  bgpx.Sess     `json:"sess"`
	Path  bgpx.PathSpec `json:"path"`
	Pfxs  []gen.P       `json:"pfxs,omitempty"`
	Focus string        `json:"focus,omitempty"`
	Size  int           `json:"size,omitempty"`
	Open  *openCase     `json:"open,omitempty"`
}

const localASN = 64999

// optBits is the number of optional/conditional attributes whose presence the "optmix" focus enumerates: MED,
// ATOMIC_AGGREGATE, AGGREGATOR, COMMUNITIES, LARGE_COMMUNITIES, ONLY_TO_CUSTOMER, a first and a second unknown transitive
// attribute, ORIGINATOR_ID+CLUSTER_LIST.
const optBits = 9

var sizes = map[string]int{"aspath": 600, "prepend": 400, "unknown": 700, "cluster": 100, "comms": 900, "lcomms": 300}

func drawSize(rng *rand.Rand, max int) int {
	b := []int{0, 1, 2, 62, 63, 64, 65, 84, 85, 86, 126, 127, 128, 129, 253, 254, 255, 256, 257, 258, 300, 301, 509, 510, 511, 512, max - 1, max}
	if rng.IntN(3) == 0 {
		for {
			v := b[rng.IntN(len(b))]
			if v >= 0 && v <= max {
				return v
			}
		}
	}
	return rng.IntN(max + 1)
}

func asn(rng *rand.Rand, as4 bool) uint32 {
	if as4 && rng.IntN(2) == 0 {
		return 65536 + rng.Uint32N(1<<32-65536-1)
	}
	return 1 + rng.Uint32N(64000)
}

func asns(rng *rand.Rand, as4 bool, n int) []uint32 {
	out := make([]uint32, n)
	for i := range out {
		out[i] = asn(rng, as4)
	}
	return out
}

func comm(rng *rand.Rand) uint32 {
	for {
		c := rng.Uint32()
		if c>>16 != 0xffff { // no well-known communities (no-export / no-advertise would stop the export)
			return c
		}
	}
}

func genSpec(rng *rand.Rand, s bgpx.Sess, focus string, size int, uid uint32) bgpx.PathSpec {
	p := bgpx.PathSpec{Origin: uint8(rng.IntN(3)), V6: s.V6, LocalPref: rng.Uint32(), EBGP: rng.IntN(2) == 0, Source: 0x0a0a0a0a, Atomic: rng.IntN(3) == 0}
	if s.V6 {
		p.NextHop = [2]uint64{0x20010db800000000, uint64(uid)}
	} else {
		p.NextHop = [2]uint64{0, uint64(0x0a000000 | uid&0xffffff)}
	}
	if rng.IntN(4) != 0 {
		p.MED = rng.Uint32()
	}
	if s.AddPath {
		p.PathID = 1 + rng.Uint32N(1<<31)
	}
	if rng.IntN(4) == 0 {
		p.Aggr = &[2]uint32{1 + rng.Uint32N(65000), rng.Uint32()}
	}
	for i, n := 0, rng.IntN(4); i < n; i++ {
		p.ASPath = append(p.ASPath, bgpx.Seg{T: uint8(2 - rng.IntN(4)/3), A: asns(rng, s.AS4, 1+rng.IntN(5))})
	}
	for i, n := 0, rng.IntN(4); i < n; i++ {
		p.Comms = append(p.Comms, comm(rng))
	}
	for i, n := 0, rng.IntN(3); i < n; i++ {
		p.LComms = append(p.LComms, [3]uint32{rng.Uint32(), rng.Uint32(), rng.Uint32()})
	}
	if s.RR || rng.IntN(4) == 0 {
		if rng.IntN(5) != 0 {
			p.OrigID = 1 + rng.Uint32N(1<<32-2)
		}
		for i, n := 0, rng.IntN(4); i < n; i++ {
			p.Cluster = append(p.Cluster, rng.Uint32())
		}
	}
	unk := func(n int) bgpx.Unk {
		v := make([]byte, n)
		for i := range v {
			v[i] = byte(rng.IntN(256))
		}
		return bgpx.Unk{Type: uint8(100 + rng.IntN(120)), Optional: rng.IntN(8) != 0, Partial: rng.IntN(3) == 0, Value: hex.EncodeToString(v)}
	}
	if rng.IntN(4) == 0 {
		p.Unknown = append(p.Unknown, unk(rng.IntN(20)))
	}
	if rng.IntN(4) == 0 {
		// ONLY_TO_CUSTOMER (RFC 9234): the last recognised optional attribute bio-rd appends before the unknown ones
		p.OTC = asn(rng, s.AS4)
	}
	switch focus {
	case "aspath":
		p.ASPath = nil
		nseg := 1 + rng.IntN(4)
		left := size
		for i := 0; i < nseg; i++ {
			n := left
			if i < nseg-1 {
				n = rng.IntN(left + 1)
			}
			t := uint8(2)
			if rng.IntN(6) == 0 && n <= 255 { // an AS_SET has no meaningful split: sets stay within one segment
				t = 1
			}
			if n > 0 {
				p.ASPath = append(p.ASPath, bgpx.Seg{T: t, A: asns(rng, s.AS4, n)})
			}
			left -= n
		}
	case "prepend":
		a := asn(rng, s.AS4)
		p.Prepend = &[2]uint32{a, uint32(size)}
	case "unknown":
		p.Unknown = []bgpx.Unk{unk(size)}
		if rng.IntN(3) == 0 {
			p.Unknown = append(p.Unknown, unk(rng.IntN(300)))
			sort.Slice(p.Unknown, func(i, j int) bool { return p.Unknown[i].Type < p.Unknown[j].Type })
			if p.Unknown[0].Type == p.Unknown[1].Type {
				p.Unknown = p.Unknown[:1]
			}
		}
	case "cluster":
		p.Cluster = make([]uint32, size)
		for i := range p.Cluster {
			p.Cluster[i] = rng.Uint32()
		}
	case "comms":
		p.Comms = make([]uint32, size)
		for i := range p.Comms {
			p.Comms[i] = comm(rng)
		}
	case "lcomms":
		p.LComms = make([][3]uint32, size)
		for i := range p.LComms {
			p.LComms[i] = [3]uint32{rng.Uint32(), rng.Uint32(), rng.Uint32()}
		}
	case "optmix":
		// size is a bit mask over the attributes a route may or may not carry: every subset is enumerated (see optBits)
		p.MED, p.Atomic, p.Aggr, p.Comms, p.LComms, p.OTC, p.Unknown, p.OrigID, p.Cluster = 0, false, nil, nil, nil, 0, nil, 0, nil
		has := func(b int) bool { return size>>uint(b)&1 == 1 }
		if has(0) {
			p.MED = 1 + rng.Uint32N(1<<32-1)
		}
		p.Atomic = has(1)
		if has(2) {
			p.Aggr = &[2]uint32{1 + rng.Uint32N(65000), rng.Uint32()}
		}
		if has(3) {
			for i, n := 0, 1+rng.IntN(3); i < n; i++ {
				p.Comms = append(p.Comms, comm(rng))
			}
		}
		if has(4) {
			for i, n := 0, 1+rng.IntN(3); i < n; i++ {
				p.LComms = append(p.LComms, [3]uint32{rng.Uint32(), rng.Uint32(), rng.Uint32()})
			}
		}
		if has(5) {
			p.OTC = asn(rng, s.AS4)
		}
		if has(6) {
			p.Unknown = append(p.Unknown, unk(rng.IntN(12)))
			p.Unknown[0].Type = uint8(100 + rng.IntN(60))
			if rng.IntN(3) == 0 {
				p.Unknown[0].Type = 16 // EXTENDED COMMUNITIES: bio-rd keeps them as a raw transitive attribute
				p.Unknown[0].Value = hex.EncodeToString([]byte{0, 2, byte(rng.IntN(256)), byte(rng.IntN(256)), 0, 0, 0, byte(rng.IntN(256))})
			}
		}
		if has(7) {
			u := unk(rng.IntN(12))
			u.Type = uint8(160 + rng.IntN(60))
			p.Unknown = append(p.Unknown, u)
		}
		if has(8) {
			p.OrigID = 1 + rng.Uint32N(1<<32-2)
			p.Cluster = []uint32{rng.Uint32()}
			if rng.IntN(2) == 0 {
				p.Cluster = append(p.Cluster, rng.Uint32())
			}
		}
	case "mixed":
		p.ASPath = []bgpx.Seg{{T: 2, A: asns(rng, s.AS4, 1+rng.IntN(200))}}
		p.Comms = make([]uint32, rng.IntN(200))
		for i := range p.Comms {
			p.Comms[i] = comm(rng)
		}
		p.Unknown = []bgpx.Unk{unk(rng.IntN(300))}
		p.Cluster = make([]uint32, rng.IntN(70))
	}
	if len(p.Comms) == 0 {
		p.Comms = nil
	}
	return p
}

func genCase(rng *rand.Rand, i int) c17case {
	foci := []string{"aspath", "prepend", "unknown", "cluster", "comms", "lcomms", "mixed", "small", "fill", "optmix"}
	focus := foci[i%len(foci)]
	c := c17case{Mode: "sender", Focus: focus}
	fam := rng.IntN(3)
	c.Sess = bgpx.Sess{V6: fam == 2, MP: fam != 0, AddPath: rng.IntN(2) == 0, AS4: rng.IntN(3) != 0}
	switch rng.IntN(3) {
	case 1:
		c.Sess.IBGP = true
	case 2:
		c.Sess.IBGP, c.Sess.RR = true, true
	}
	if focus == "cluster" && rng.IntN(4) != 0 {
		c.Sess.IBGP, c.Sess.RR = true, true
	}
	if (focus == "aspath" || focus == "prepend" || focus == "small") && rng.IntN(4) == 0 {
		// behind a real eBGP Adj-RIB-Out (prepends the local ASN, rewrites the next hop)
		c.Mode = "ribout"
		c.Sess.IBGP, c.Sess.RR, c.Sess.AddPath = false, false, false
	}
	if max, ok := sizes[focus]; ok {
		c.Size = drawSize(rng, max)
	}
	if focus == "optmix" {
		c.Size = (i / len(foci)) % (1 << optBits) // enumerated, not drawn: every subset comes up n/10/512 times
	}
	c.Path = genSpec(rng, c.Sess, focus, c.Size, uint32(i+1))
	u := gen.Universe(rng, !c.Sess.V6, 4)
	c.Pfxs = u[:1+rng.IntN(len(u))]
	if focus == "fill" {
		// hundreds of prefixes share one path so that the sender fills messages up to the 4096 byte limit; the
		// path carries the attributes whose encoded size is easiest to get wrong (MED, ATOMIC_AGGREGATE,
		// AGGREGATOR, ORIGINATOR_ID, CLUSTER_LIST of up to 120 ids)
		c.Path.MED, c.Path.Atomic, c.Path.Aggr = 1+rng.Uint32N(1<<31), true, &[2]uint32{1 + rng.Uint32N(65000), rng.Uint32()}
		if c.Sess.IBGP || rng.IntN(2) == 0 {
			c.Path.OrigID = 1 + rng.Uint32N(1<<32-2)
			c.Path.Cluster = make([]uint32, rng.IntN(121))
			for j := range c.Path.Cluster {
				c.Path.Cluster[j] = rng.Uint32()
			}
		}
		n := 150 + rng.IntN(1300)
		l := uint8(24)
		if c.Sess.V6 {
			l = uint8(40 + 8*rng.IntN(4))
		} else if rng.IntN(2) == 0 {
			l = uint8(17 + rng.IntN(16))
		}
		stem := rng.Uint64()
		c.Pfxs = nil
		for j := 0; j < n; j++ {
			q := gen.P{V4: !c.Sess.V6, Len: l}
			if q.V4 {
				q.Hi = (stem&0xff00000000000000 | uint64(j)<<(64-uint(l))) & 0xffffffff00000000
			} else {
				q.Hi = 0x2001000000000000 | uint64(j)<<(64-uint(l))
			}
			c.Pfxs = append(c.Pfxs, q.Canon())
		}
		dedup := map[string]bool{}
		out := c.Pfxs[:0]
		for _, q := range c.Pfxs {
			if !dedup[q.Key()] {
				dedup[q.Key()] = true
				out = append(out, q)
			}
		}
		c.Pfxs = out
	}
	return c
}

type reporter func(clause string, f map[string]string, detail string)

func famNLRIs(fs []wire.FamNLRI, addPath bool) string {
	var s []string
	for _, f := range fs {
		n := f.NLRI
		if !addPath {
			n.PathID = 0
		}
		s = append(s, f.Family.String()+":"+n.String())
	}
	sort.Strings(s)
	return strings.Join(s, ",")
}

func wantNLRIs(s bgpx.Sess, pfxs []gen.P, id uint32) string {
	var out []string
	fam := wire.IPv4Unicast
	if s.V6 {
		fam = wire.IPv6Unicast
	}
	for _, p := range pfxs {
		n := wire.FromBits(p.V4, p.Hi, p.Lo, p.Len)
		if s.AddPath {
			n.PathID = id
		}
		out = append(out, fam.String()+":"+n.String())
	}
	sort.Strings(out)
	return strings.Join(out, ",")
}

// stats of one case for the evidence
type cstat struct {
	msgs, declined int
	shortAggr      int // messages judged with a widened 2-octet AGGREGATOR (known finding)
	maxLen         int
	nontrivial     bool
}

func runSender(c c17case, rep reporter) (st cstat) {
	s := c.Sess
	base := func(kv ...any) map[string]string {
		return vf.F(append([]any{"mode", c.Mode, "family", s.Family()}, kv...)...)
	}
	defer func() {
		if p := recover(); p != nil {
			stk := make([]byte, 2500)
			stk = stk[:runtime.Stack(stk, false)]
			rep("panic", vf.F("where", bgpx.PanicSite(stk)), fmt.Sprintf("%s (%s, focus %s size %d): panic while serialising: %v\n%s", s, c.Mode, c.Focus, c.Size, p, stk))
		}
	}()
	u, cap := bgpx.NewSender(s)
	exp := bgpx.Expect{Sess: s}
	var rib *adjRIBOut.AdjRIBOut
	if c.Mode == "ribout" {
		sa := routingtable.SessionAttrs{RouterID: 1, PeerIP: bnet.IPv4(0x0a0000fe).Ptr(), LocalIP: bnet.IPv4(0x0a0000fd).Ptr(), Type: route.BGPPathType,
			LocalASN: localASN, PeerASN: localASN + 1}
		if s.V6 {
			sa.PeerIP, sa.LocalIP = bnet.IPv6(0x20010db8ffff0000, 0xfe).Ptr(), bnet.IPv6(0x20010db8ffff0000, 0xfd).Ptr()
		}
		rib = adjRIBOut.New(nil, sa, filter.NewAcceptAllFilterChain())
		rib.Register(u)
		exp.FrontASNs = []uint32{localASN}
		exp.NextHopAny = true
	}
	for _, p := range c.Pfxs {
		if rib != nil {
			rib.AddPath(p.Bio(), c.Path.Bio())
		} else {
			u.AddPath(p.Bio(), c.Path.Bio())
		}
	}
	u.EndOfRIB()
	writes := cap.Take()
	long := false // was a segment with more than 255 ASNs handed in?
	for _, sg := range c.Path.ASPath {
		if len(sg.A) > 255 {
			long = true
		}
	}
	expLens := bgpx.ExpectedLens(&c.Path, s)
	expTypes := map[uint8]bool{}
	for t := range expLens {
		expTypes[t] = true
	}
	asFeat := func(attr string) map[string]string {
		if attr == "as-path" || attr == "length-of-as-path" {
			return vf.F("attr", attr, "segment_over_255_handed", long, "prepend", c.Path.Prepend != nil || c.Mode == "ribout")
		}
		return vf.F("attr", attr)
	}
	announced := ""
	broken := false
	for wi, w := range writes {
		st.msgs++
		if len(w) > st.maxLen {
			st.maxLen = len(w)
		}
		typ, body, bad := bgpx.CheckFrame(w)
		if bad != "" {
			rep("framing", base(), bad)
			broken = true
			continue
		}
		if typ != wire.TypeUpdate {
			rep("framing", base(), fmt.Sprintf("update sender wrote a message of type %d", typ))
			continue
		}
		last := wi == len(writes)-1
		shortAggr := false
		if cul, decl, typ := bgpx.LengthCulprit(body, expLens); cul != "" && !last {
			rep("attribute-length", asFeat(cul), fmt.Sprintf("%s (%s, focus %s size %d): attribute %s declares %d bytes, which no encoding of the handed content has (allowed %v); message of %d bytes", s, c.Mode, c.Focus, c.Size, cul, decl, expLens[typ], len(w)))
			// an AGGREGATOR with a 2-octet AS on a 4-octet session is reported above; the attribute is self-delimiting, so
			// the rest of the message is still aligned and is judged too (with the aggregator widened)
			if shortAggr = typ == wire.AttrAggregator && decl == 6 && s.AS4; !shortAggr {
				broken = true
				continue
			}
		}
		up, err := wire.DecodeUpdate(body, s.WireOpts())
		if err != nil && shortAggr {
			var widened bool
			if up, widened, err = bgpx.DecodeUpdateLenient(body, s.WireOpts()); err == nil && !widened {
				err = fmt.Errorf("AGGREGATOR of 6 bytes expected")
			}
			if err == nil {
				st.shortAggr++
			}
		}
		if err != nil {
			rep("reference-decoder-rejects", asFeat(bgpx.Culprit(body, s.WireOpts(), expTypes)), fmt.Sprintf("%s (%s, focus %s size %d): the independent decoder cannot decode what bio-rd wrote (%d bytes): %v", s, c.Mode, c.Focus, c.Size, len(w), err))
			broken = true
			continue
		}
		if last {
			// the End-of-RIB marker of the sender's family (RFC 4724 §2)
			f, ok := up.IsEndOfRIB()
			wantFam := wire.IPv4Unicast
			if s.V6 {
				wantFam = wire.IPv6Unicast
			}
			if !ok {
				rep("eor", base(), "EndOfRIB() did not end with an End-of-RIB marker")
			} else if f != wantFam {
				rep("eor-family", base(), fmt.Sprintf("End-of-RIB marker of the %s sender decodes as the marker of family %s", wantFam, f))
			}
			continue
		}
		for _, d := range bgpx.Compare(&c.Path, exp, up.PA) {
			rep("content", asFeat(d.Attr), fmt.Sprintf("%s (%s, focus %s size %d): %s", s, c.Mode, c.Focus, c.Size, d.Detail))
		}
		if len(up.Withdrawals()) != 0 {
			rep("content", base("attr", "withdrawn"), "announcement carries withdrawals")
		}
		if announced != "" {
			announced += ","
		}
		announced += famNLRIs(up.Announced(), s.AddPath)
		if msg := bgpx.BioDecodeAgrees(w, s, up); msg != "" {
			rep("biord-decoder-disagrees", vf.F("what", strings.SplitN(msg, ":", 2)[0]), fmt.Sprintf("%s: %s", s, msg))
		}
	}
	if len(writes) <= 1 {
		st.declined++ // bio-rd declined to serialise (too long): loss is C18's business
	} else if !broken {
		parts := strings.Split(announced, ",")
		sort.Strings(parts)
		if got, want := strings.Join(parts, ","), wantNLRIs(s, c.Pfxs, c.Path.PathID); got != want {
			rep("content", base("attr", "nlri"), fmt.Sprintf("%s: announced NLRI %s, handed %s", s, got, want))
		}
		st.nontrivial = true
	}
	// withdrawal of the first prefix
	if rib != nil {
		rib.RemovePath(c.Pfxs[0].Bio(), c.Path.Bio())
	} else {
		u.RemovePath(c.Pfxs[0].Bio(), c.Path.Bio())
	}
	ws := cap.Take()
	if rib != nil && len(writes) <= 1 {
		return st
	}
	if len(ws) != 1 {
		rep("content", base("attr", "withdrawn"), fmt.Sprintf("%s: RemovePath wrote %d messages", s, len(ws)))
		return st
	}
	st.msgs++
	_, body, bad := bgpx.CheckFrame(ws[0])
	if bad != "" {
		rep("framing", base(), bad)
		return st
	}
	up, err := wire.DecodeUpdate(body, s.WireOpts())
	if err != nil {
		rep("reference-decoder-rejects", base("attr", "withdrawn"), fmt.Sprintf("%s: withdrawal undecodable: %v", s, err))
		return st
	}
	if got, want := famNLRIs(up.Withdrawals(), s.AddPath), wantNLRIs(s, c.Pfxs[:1], c.Path.PathID); got != want || len(up.Announced()) != 0 {
		rep("content", base("attr", "withdrawn"), fmt.Sprintf("%s: withdrawn NLRI %s, handed %s", s, got, want))
	}
	if msg := bgpx.BioDecodeAgrees(ws[0], s, up); msg != "" {
		rep("biord-decoder-disagrees", vf.F("what", strings.SplitN(msg, ":", 2)[0]), fmt.Sprintf("%s: withdrawal: %s", s, msg))
	}
	return st
}

// buildOpen mirrors the capability assembly of server/peer.go (newPeer) and FSM.openMessage.
func buildOpen(o *openCase) (*packet.BGPOpen, []wire.Capability) {
	caps := packet.Capabilities{}
	var want []wire.Capability
	ap := func(afi uint16, mode uint8) {
		if mode != 0 {
			caps = append(caps, packet.Capability{Code: packet.AddPathCapabilityCode, Value: packet.AddPathCapability{{AFI: afi, SAFI: 1, SendReceive: mode}}})
			want = append(want, wire.CapAddPath(wire.AddPathTuple{Family: wire.Family{AFI: afi, SAFI: 1}, Mode: mode}))
		}
	}
	mp := func(afi uint16) {
		caps = append(caps, packet.Capability{Code: packet.MultiProtocolCapabilityCode, Value: packet.MultiProtocolCapability{AFI: afi, SAFI: 1}})
		want = append(want, wire.CapMP(wire.Family{AFI: afi, SAFI: 1}))
	}
	if o.IPv4 {
		ap(1, o.AddPath4)
	}
	if o.IPv6 {
		ap(2, o.AddPath6)
	}
	caps = append(caps, packet.Capability{Code: packet.ASN4CapabilityCode, Value: packet.ASN4Capability{ASN4: o.LocalAS}})
	want = append(want, wire.CapAS4(o.LocalAS))
	if o.IPv4 {
		if o.ExtNH {
			caps = append(caps, packet.Capability{Code: packet.ExtendedNextHopEncodingCapabilityCode, Value: packet.ExtendedNextHopCapability{{AFI: 1, SAFI: 1, NextHopAFI: 2}}})
			want = append(want, wire.CapExtNextHop(wire.ExtNextHopTuple{AFI: 1, SAFI: 1, NextHopAFI: 2}))
			mp(1)
		}
		if o.AdvV4MP {
			mp(1)
		}
	}
	if o.IPv6 {
		mp(2)
	}
	if o.Role >= 0 {
		caps = append(caps, packet.Capability{Code: packet.PeerRoleCapabilityCode, Value: packet.PeerRoleCapability{PeerRole: uint8(o.Role)}})
		want = append(want, wire.CapRole(uint8(o.Role)))
	}
	as16 := uint16(o.LocalAS)
	if o.LocalAS > 65535 {
		as16 = 23456
	}
	return &packet.BGPOpen{Version: 4, ASN: as16, HoldTime: o.HoldTime, BGPIdentifier: o.RouterID, OptParams: []packet.OptParam{{Type: packet.CapabilitiesParamType, Value: caps}}}, want
}

func runSmall(c c17case, rep reporter) {
	f := vf.F("mode", c.Mode)
	if c.Mode == "notification" {
		f = vf.F("mode", c.Mode, "code", fmt.Sprintf("%d/%d", c.Open.ErrorCode, c.Open.ErrorSub))
	}
	defer func() {
		if p := recover(); p != nil {
			rep("panic", f, fmt.Sprintf("panic while serialising: %v", p))
		}
	}()
	var raw []byte
	switch c.Mode {
	case "open":
		msg, want := buildOpen(c.Open)
		raw = packet.SerializeOpenMsg(msg)
		typ, body, bad := bgpx.CheckFrame(raw)
		if bad != "" || typ != wire.TypeOpen {
			rep("framing", f, fmt.Sprintf("OPEN: %s type %d", bad, typ))
			return
		}
		o, err := wire.DecodeOpen(body)
		if err != nil {
			rep("reference-decoder-rejects", f, fmt.Sprintf("OPEN undecodable: %v (%x)", err, raw))
			return
		}
		ok := o.Version == 4 && o.AS == msg.ASN && o.HoldTime == msg.HoldTime && o.ID == msg.BGPIdentifier && len(o.OtherParams) == 0 && len(o.Caps) == len(want)
		for i := 0; ok && i < len(want); i++ {
			ok = o.Caps[i].Code == want[i].Code && bytes.Equal(o.Caps[i].Value, want[i].Value)
		}
		if !ok {
			rep("content", f, fmt.Sprintf("OPEN decodes to %+v, handed %+v with capabilities %+v", o, msg, want))
		}
	case "notification":
		raw = packet.SerializeNotificationMsg(&packet.BGPNotification{ErrorCode: c.Open.ErrorCode, ErrorSubcode: c.Open.ErrorSub})
		typ, body, bad := bgpx.CheckFrame(raw)
		if bad != "" || typ != wire.TypeNotification {
			rep("framing", f, fmt.Sprintf("NOTIFICATION: %s type %d", bad, typ))
			return
		}
		n, err := wire.DecodeNotification(body)
		if err != nil || n.Code != c.Open.ErrorCode || n.Subcode != c.Open.ErrorSub || len(n.Data) != 0 {
			rep("content", f, fmt.Sprintf("NOTIFICATION %d/%d decodes to %v (%v)", c.Open.ErrorCode, c.Open.ErrorSub, n, err))
		}
	case "keepalive":
		raw = packet.SerializeKeepaliveMsg()
		typ, body, bad := bgpx.CheckFrame(raw)
		if bad != "" || typ != wire.TypeKeepalive || len(body) != 0 {
			rep("framing", f, fmt.Sprintf("KEEPALIVE: %s type %d body %d", bad, typ, len(body)))
		}
		return
	}
	// packet.Decode must accept its own OPEN / NOTIFICATION (for the codes bio-rd itself sends) with the same content
	m, err := packet.Decode(bytes.NewBuffer(raw), &packet.DecodeOptions{})
	if err != nil {
		rep("biord-decoder-disagrees", f, fmt.Sprintf("packet.Decode rejects what bio-rd serialised: %v (%x)", err, raw))
		return
	}
	switch b := m.Body.(type) {
	case *packet.BGPOpen:
		if b.ASN != uint16(min(c.Open.LocalAS, 1<<32-1)) && b.ASN != 23456 || b.HoldTime != c.Open.HoldTime || b.BGPIdentifier != c.Open.RouterID {
			rep("biord-decoder-disagrees", f, fmt.Sprintf("packet.Decode OPEN content %+v", b))
		}
	case *packet.BGPNotification:
		if b.ErrorCode != c.Open.ErrorCode || b.ErrorSubcode != c.Open.ErrorSub {
			rep("biord-decoder-disagrees", f, fmt.Sprintf("packet.Decode NOTIFICATION content %+v", b))
		}
	}
}

func main() {
	vf.Main("C17", "exploration", func(r *vf.Run) {
		bgpx.Quiet()
		r.Rule("routes with one swept attribute dimension each (AS_PATH 0..600 ASNs in 1..4 segments; Prepend counts 0..400; one unknown transitive attribute of 0..700 bytes; CLUSTER_LIST 0..100; COMMUNITIES 0..900; LARGE_COMMUNITIES 0..300; a mixed block; small; optmix = EVERY subset of the 9 optional/conditional attributes {MED, ATOMIC_AGGREGATE, AGGREGATOR, COMMUNITIES, LARGE_COMMUNITIES, ONLY_TO_CUSTOMER, a first unknown transitive attribute (a third of them EXTENDED COMMUNITIES, type 16), a second unknown attribute, ORIGINATOR_ID+CLUSTER_LIST} enumerated (512 subsets, each several times over the session kinds), and a quarter of all other routes carry ONLY_TO_CUSTOMER; fill = 150..1450 prefixes sharing one path with MED, ATOMIC_AGGREGATE, AGGREGATOR, ORIGINATOR_ID and a CLUSTER_LIST of 0..120 ids, so that messages are filled to the limit), sizes drawn uniformly and from the boundaries of one-byte lengths/counts, x {IPv4, IPv4-MP, IPv6-MP} x {eBGP, iBGP, RR client} x add-path x 2/4-octet AS, 1-4 prefixes; pushed into the real update sender (a quarter of the AS_PATH cases behind a real eBGP Adj-RIB-Out), flushed with EndOfRIB(), then one prefix withdrawn; plus every OPEN capability configuration peer.go can assemble, every NOTIFICATION code/subcode the FSM and the decoder's BGPError values can make bio-rd send, KEEPALIVE. distinct_nontrivial = cases in which bio-rd emitted at least one announcement (it did not decline to serialise), keyed by (focus, size, session)")
		r.Assume("2-octet-AS sessions carry only ASNs below 65536 (bio-rd has no AS4_PATH; the statement does not define the content then)",
			"how an AS_SEQUENCE is cut into segments is encoding, not content: adjacent sequences are compared merged",
			"ONLY_TO_CUSTOMER is content: it goes out with the value handed in (the sender is driven directly, or behind an Adj-RIB-Out without RFC 9234 roles, which does not touch it)", "MED 0 may be omitted; LOCAL_PREF towards eBGP and ORIGINATOR_ID/CLUSTER_LIST towards a non-client may be omitted; attribute flags of recognised attributes are not content",
			"an unknown attribute's Partial bit must survive when it was set on the stored path (RFC 4271: once set it is never cleared)")
		var vmu sync.Mutex
		mk := func(c c17case) reporter {
			return func(clause string, f map[string]string, detail string) {
				vmu.Lock()
				defer vmu.Unlock()
				r.Violate(vf.Violation{Clause: clause, Features: f, Detail: detail, Case: c})
			}
		}
		if raw, ok := r.Replaying(); ok {
			var c c17case
			vf.Decode(raw, &c)
			if c.Mode == "sender" || c.Mode == "ribout" {
				runSender(c, mk(c))
			} else {
				runSmall(c, mk(c))
			}
			return
		}
		n := r.N(30000, 1000000)
		perFocus := map[string]int{}
		perSess := map[string]int{}
		optMasks := map[int]int{}
		var mu sync.Mutex
		vf.Parallel(n, 8, func(i int) {
			rng := r.RandN("c17", i)
			c := genCase(rng, i)
			st := runSender(c, mk(c))
			r.Eval(st.msgs)
			r.Count("routes", 1)
			r.Count("declined_to_serialise", st.declined)
			r.Count("messages_judged_despite_two_octet_aggregator", st.shortAggr)
			r.Max("max_message_bytes", int64(st.maxLen))
			if st.nontrivial {
				r.Nontrivial(fmt.Sprintf("%s/%d/%s/%s", c.Focus, c.Size, c.Sess, c.Mode))
				r.Count("routes_announced", 1)
			}
			mu.Lock()
			perFocus[c.Focus]++
			perSess[c.Sess.Family()+"/"+c.Sess.Kind()]++
			if st.nontrivial && c.Focus == "optmix" {
				optMasks[c.Size]++
			}
			mu.Unlock()
			if st.nontrivial {
				// the tail of the attribute list: which of the attributes bio-rd appends last went out together
				tail := 0
				for _, b := range []bool{len(c.Path.Comms) > 0, len(c.Path.LComms) > 0, c.Path.OTC != 0, len(c.Path.Unknown) > 0} {
					if b {
						tail++
					}
				}
				if tail >= 2 {
					r.Count("routes_announced_with_two_or_more_of_communities_largecommunities_otc_unknown", 1)
				}
				if c.Path.OTC != 0 && len(c.Path.Unknown) > 0 {
					r.Count("routes_announced_with_otc_and_unknown_attribute", 1)
				}
			}
			if i < 3 {
				r.Sample(map[string]any{"mode": c.Mode, "session": c.Sess.String(), "focus": c.Focus, "size": c.Size, "prefixes": len(c.Pfxs), "messages": st.msgs})
			}
		})
		// OPEN: the whole configuration space of peer.go
		nopen := 0
		for _, as := range []uint32{1, 65535, 65536, 4200000000} {
			for bits := 0; bits < 16; bits++ {
				for ap4 := uint8(0); ap4 < 4; ap4++ {
					for ap6 := uint8(0); ap6 < 4; ap6++ {
						for role := -1; role < 5; role++ {
							o := &openCase{LocalAS: as, HoldTime: uint16(90 + bits), RouterID: 0x0a000001 + uint32(bits), IPv4: bits&1 != 0, IPv6: bits&2 != 0, ExtNH: bits&4 != 0, AdvV4MP: bits&8 != 0, AddPath4: ap4, AddPath6: ap6, Role: role}
							c := c17case{Mode: "open", Open: o}
							runSmall(c, mk(c))
							nopen++
						}
					}
				}
			}
		}
		r.Count("open_configurations", nopen)
		r.Eval(nopen)
		for _, cs := range [][2]uint8{{1, 1}, {1, 2}, {1, 3}, {2, 1}, {2, 2}, {2, 3}, {2, 11}, {4, 0}, {5, 0}, {6, 0}} {
			c := c17case{Mode: "notification", Open: &openCase{ErrorCode: cs[0], ErrorSub: cs[1]}}
			runSmall(c, mk(c))
			r.Eval(1)
		}
		c := c17case{Mode: "keepalive"}
		runSmall(c, mk(c))
		r.Eval(1)
		r.Set("routes_by_focus", perFocus)
		r.Set("routes_by_session", perSess)
		r.Count("optmix_subsets_announced", len(optMasks))
		r.Set("optmix_subsets_total", 1<<optBits)
		r.Require("routes_announced", int64(n/2))
		r.Require("optmix_subsets_announced", 1<<optBits)
		r.Require("routes_announced_with_otc_and_unknown_attribute", int64(n/100))
	})
}
