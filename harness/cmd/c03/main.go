// C03: best-path tie-breaking follows RFC 4271 9.1.2.2 and RFC 4456 section 9.
// Monitor: for every ordered pair of an attribute domain in which each decision step is the first differing one in
// both directions, sign(a.Select(b)) and the Loc-RIB's best path (both insertion orders) are compared with a reference
// comparator that is a literal transcription of the statement.
package main

import (
	"fmt"

	bnet "github.com/bio-routing/bio-rd/net"
	"github.com/bio-routing/bio-rd/routingtable/locRIB"

	"verifharness/internal/tbl"
	"verifharness/internal/vf"
)

type kase struct {
	A tbl.PathSpec `json:"a"`
	B tbl.PathSpec `json:"b"`
}

var pfx = bnet.NewPfx(bnet.IPv4(0x0a000000), 8).Ptr()

func domain() []tbl.PathSpec {
	var out []tbl.PathSpec
	id := uint32(1)
	aspaths := [][]tbl.Seg{
		{{ASNs: []uint32{65001}}},
		{{ASNs: []uint32{65001, 65002}}},
		{{ASNs: []uint32{65001}}, {Set: true, ASNs: []uint32{65003, 65004, 65005}}}, // length 2: a set counts 1
		{{Set: true, ASNs: []uint32{65010, 65011}}, {ASNs: []uint32{65020, 65030}}}, // length 3: the set is not the last segment
	}
	cls := []*[]uint32{nil, {}, {7}, {7, 8}}
	for _, lp := range []uint32{100, 200} {
		for _, asp := range aspaths {
			for _, origin := range []uint8{0, 2} {
				for _, med := range []uint32{0, 10} {
					for _, ebgp := range []bool{false, true} {
						for _, bid := range []uint32{1, 2} {
							for _, oid := range []uint32{0, 1, 3} {
								for _, cl := range cls {
									if ebgp && (oid != 0 || cl != nil) {
										continue // ORIGINATOR_ID / CLUSTER_LIST are iBGP attributes
									}
									for _, src := range []uint32{0x0a000001, 0x0a000002} {
										out = append(out, tbl.PathSpec{ID: id, LP: lp, ASPath: asp, Origin: origin, MED: med, EBGP: ebgp, BGPID: bid, OrigID: oid, Cluster: cl, Source: src, NextHop: 0x0b000001})
										id++
									}
								}
							}
						}
					}
				}
			}
		}
	}
	// IPv6 peers: same attributes throughout (a LOCAL_PREF no IPv4 spec has), so the peer address decides among them;
	// the addresses differ in the high or the low 64 bit word, by less and by more than 2^63
	for _, s6 := range [][2]uint64{{0x20010db800000000, 1}, {0x20010db800000000, 2}, {0x20010db800000000, 0x8000000000000001},
		{0x20010db800000000, 0xfffffffffffffffe}, {0xfe80000000000000, 1}, {0xfc00000000000000, 1}, {0x0000000000000000, 1}} {
		s6 := s6
		out = append(out, tbl.PathSpec{ID: id, LP: 300, ASPath: aspaths[0], Origin: 0, MED: 0, BGPID: 1, Source6: &s6, NextHop: 0x0b000001})
		id++
	}
	return out
}

func sign(x int8) int {
	switch {
	case x > 0:
		return 1
	case x < 0:
		return -1
	}
	return 0
}

func checkPair(r *vf.Run, a, b tbl.PathSpec, locrib bool) string {
	want, step := tbl.RefCompare(a, b)
	defer func() {
		if p := recover(); p != nil {
			r.Violate(vf.Violation{Clause: "panic", Features: vf.F("step", step), Detail: fmt.Sprintf("panic: %v", p), Case: kase{a, b}})
		}
	}()
	if want == 0 {
		return step // the statement leaves it open
	}
	got := sign(a.Build().Select(b.Build()))
	if got != want {
		r.Violate(vf.Violation{Clause: "select-direction", Features: vf.F("step", step), Detail: fmt.Sprintf("first differing step %s: statement prefers %s, Select(a,b)=%d; a=%s b=%s", step, pick(want), got, a.Describe(), b.Describe()), Case: kase{a, b}})
	}
	r.Eval(1)
	if locrib {
		wantID := a.ID
		if want < 0 {
			wantID = b.ID
		}
		for _, order := range [][2]tbl.PathSpec{{a, b}, {b, a}} {
			lr := locRIB.New("c03")
			lr.AddPath(pfx, order[0].Build())
			lr.AddPath(pfx, order[1].Build())
			best := lr.Get(pfx).BestPath()
			if tbl.IDOf(best) != wantID {
				r.Violate(vf.Violation{Clause: "locrib-best", Features: vf.F("step", step), Detail: fmt.Sprintf("first differing step %s: statement prefers #%d, Loc-RIB best path is #%d; a=#%d %s b=#%d %s", step, wantID, tbl.IDOf(best), a.ID, a.Describe(), b.ID, b.Describe()), Case: kase{a, b}})
			}
			r.Eval(1)
		}
	}
	return step
}

func pick(w int) string {
	if w > 0 {
		return "a"
	}
	return "b"
}

func main() {
	vf.Main("C03", "exploration", func(r *vf.Run) {
		r.Rule("exhaustive ordered pairs of a BGP path domain (LOCAL_PREF{100,200} x AS_PATH{1 ASN, 2 ASNs, 1 ASN + a set, a set followed by 2 ASNs} x ORIGIN{0,2} x MED{0,10} x eBGP/iBGP x identifier{1,2} x ORIGINATOR_ID{0,1,3} x CLUSTER_LIST{absent,empty,1,2} x peer address{2}) plus 7 paths that differ only in their IPv6 peer address (differences below and above 2^63 in either 64 bit word); reference = the statement's steps in order; pairs on which every stated step ties are not judged. distinct_nontrivial = ordered pairs decided by a stated step (counted per pair)")
		r.Assume("ORIGINATOR_ID and CLUSTER_LIST only on iBGP paths", "AS_PATH length counts an AS_SET as 1 (RFC 4271 9.1.2.2 a)")
		if raw, ok := r.Replaying(); ok {
			var k kase
			vf.Decode(raw, &k)
			checkPair(r, k.A, k.B, true)
			return
		}
		d := domain()
		steps := map[string]int{}
		nt := 0
		for i := range d {
			for j := range d {
				if i == j {
					continue
				}
				// Loc-RIB insertion for a stride of the pairs (every pair of Select is checked)
				step := checkPair(r, d[i], d[j], (i*31+j)%7 == 0)
				steps[step]++
				if step != "unspecified" {
					nt++
					r.Nontrivial(fmt.Sprintf("%d>%d", i, j))
				}
			}
		}
		r.Set("pairs_by_deciding_step", steps)
		r.Count("domain_paths", len(d))
		r.Set("decided_pairs", nt)
		for i := 0; i < 3; i++ {
			a, b := d[(i*977)%len(d)], d[(i*613+5)%len(d)]
			w, s := tbl.RefCompare(a, b)
			r.Sample(map[string]any{"a": a.Describe(), "b": b.Describe(), "reference": w, "step": s})
		}
		r.Exhaustive(true)
	})
}
