// C15: prefix and address arithmetic matches the bit-level definitions.
// Oracle: an independent 128-bit reference (two uint64 words handled bit by bit) for every
// method of net.Prefix / net.IP the property names; enumeration of all length pairs with
// single-bit-difference address pairs; PRNG pairs on top.
package main

import (
	"encoding/json"
	"fmt"
	gonet "net"

	bnet "github.com/bio-routing/bio-rd/net"

	"verifharness/internal/vf"
)

type addr struct {
	V4     bool   `json:"v4"`
	Hi, Lo uint64 // v4: value in the top 32 bits of Hi (reference layout)
}

type pcase struct {
	V4   bool   `json:"v4"`
	AHi  uint64 `json:"a_hi"`
	ALo  uint64 `json:"a_lo"`
	ALen uint8  `json:"a_len"`
	BHi  uint64 `json:"b_hi"`
	BLo  uint64 `json:"b_lo"`
	BLen uint8  `json:"b_len"`
	Str  string `json:"str,omitempty"`
	// Cross: compare the IPv4 address AHi>>32 (prefix length ALen) with the IPv6 one that has the same numeric bits
	Cross bool `json:"cross,omitempty"`
}

func width(v4 bool) int {
	if v4 {
		return 32
	}
	return 128
}

// reference bit i (1-based from the most significant bit)
func bit(hi, lo uint64, i int) bool {
	if i <= 64 {
		return hi>>(64-uint(i))&1 == 1
	}
	return lo>>(128-uint(i))&1 == 1
}

func maskTo(hi, lo uint64, l int) (uint64, uint64) {
	var rh, rl uint64
	for i := 1; i <= l; i++ {
		if bit(hi, lo, i) {
			if i <= 64 {
				rh |= 1 << (64 - uint(i))
			} else {
				rl |= 1 << (128 - uint(i))
			}
		}
	}
	return rh, rl
}

func commonLen(ah, al, bh, bl uint64, max int) int {
	n := 0
	for i := 1; i <= max; i++ {
		if bit(ah, al, i) != bit(bh, bl, i) {
			break
		}
		n++
	}
	return n
}

func toIP(v4 bool, hi, lo uint64) bnet.IP {
	if v4 {
		return bnet.IPv4(uint32(hi >> 32))
	}
	return bnet.IPv6(hi, lo)
}

func fromIP(ip bnet.IP) (bool, uint64, uint64) {
	if ip.IsIPv4() {
		return true, uint64(ip.ToUint32()) << 32, 0
	}
	return false, ip.Higher(), ip.Lower()
}

func ipStr(v4 bool, hi, lo uint64) string {
	if v4 {
		return fmt.Sprintf("v4:%08x", uint32(hi>>32))
	}
	return fmt.Sprintf("v6:%016x%016x", hi, lo)
}

func band(v4 bool, l uint8) string {
	if v4 {
		return "v4"
	}
	switch {
	case l <= 32:
		return "v6:0-32"
	case l <= 64:
		return "v6:33-64"
	case l <= 96:
		return "v6:65-96"
	default:
		return "v6:97-128"
	}
}

func isV4Mapped(hi, lo uint64) bool { return hi == 0 && lo>>32 == 0xffff }

func check(r *vf.Run, c pcase) {
	if c.Cross {
		v := uint32(c.AHi >> 32)
		a4, a6 := bnet.IPv4(v), bnet.IPv6(0, uint64(v))
		p4, p6 := bnet.NewPfx(a4, c.ALen), bnet.NewPfx(a6, c.ALen)
		r.Eval(2)
		if a4.Equal(a6) || a6.Equal(a4) {
			r.Violate(vf.Violation{Clause: "equal", Features: vf.F("family", "cross", "of", "address"), Detail: fmt.Sprintf("IP %s Equal %s = true: addresses of different families", a4.String(), a6.String()), Case: c})
		}
		if p4.Equal(&p6) || p6.Equal(&p4) {
			r.Violate(vf.Violation{Clause: "equal", Features: vf.F("family", "cross", "of", "prefix"), Detail: fmt.Sprintf("prefix %s Equal %s = true: prefixes of different families", p4.String(), p6.String()), Case: c})
		}
		return
	}
	w := width(c.V4)
	fam := "ipv6"
	if c.V4 {
		fam = "ipv4"
	}
	viol := func(clause string, f map[string]string, format string, a ...any) {
		f["family"] = fam
		r.Violate(vf.Violation{Clause: clause, Features: f, Detail: fmt.Sprintf(format, a...), Case: c})
	}
	defer func() {
		if p := recover(); p != nil {
			viol("panic", vf.F(), "panic: %v", p)
		}
	}()
	aIP, bIP := toIP(c.V4, c.AHi, c.ALo), toIP(c.V4, c.BHi, c.BLo)
	A, B := bnet.NewPfx(aIP, c.ALen), bnet.NewPfx(bIP, c.BLen)
	la, lb := int(c.ALen), int(c.BLen)
	minl := la
	if lb < minl {
		minl = lb
	}
	cl := commonLen(c.AHi, c.ALo, c.BHi, c.BLo, w)
	n := 0

	// containment (strict; equal-length pairs are not judged: the doc comment and the code disagree and the property does not say)
	if la != lb {
		want := la < lb && cl >= la
		if got := A.Contains(&B); got != want {
			viol("contains", vf.F("band", band(c.V4, c.ALen)), "%s/%d Contains %s/%d = %v, bits say %v", ipStr(c.V4, c.AHi, c.ALo), la, ipStr(c.V4, c.BHi, c.BLo), lb, got, want)
		}
		want = lb < la && cl >= lb
		if got := B.Contains(&A); got != want {
			viol("contains", vf.F("band", band(c.V4, c.BLen)), "%s/%d Contains %s/%d = %v, bits say %v", ipStr(c.V4, c.BHi, c.BLo), lb, ipStr(c.V4, c.AHi, c.ALo), la, got, want)
		}
		n += 2
	}
	// equality
	wantEq := la == lb && c.AHi == c.BHi && c.ALo == c.BLo
	if got := A.Equal(&B); got != wantEq {
		viol("equal", vf.F(), "Equal=%v want %v", got, wantEq)
	}
	n++
	// supernet: defined (and used by the trie) when the canonical prefixes differ before min(lenA,lenB)
	ch, clo := maskTo(c.AHi, c.ALo, la)
	dh, dlo := maskTo(c.BHi, c.BLo, lb)
	ccl := commonLen(ch, clo, dh, dlo, minl)
	if ccl < minl {
		CA, CB := bnet.NewPfx(toIP(c.V4, ch, clo), c.ALen), bnet.NewPfx(toIP(c.V4, dh, dlo), c.BLen)
		sh, sl := maskTo(ch, clo, ccl)
		got := CA.GetSupernet(&CB)
		_, gh, gl := fromIP(got.Addr())
		if int(got.Len()) != ccl || gh != sh || gl != sl || got.Addr().IsIPv4() != c.V4 {
			viol("supernet", vf.F("band", band(c.V4, uint8(ccl))), "GetSupernet(%s/%d,%s/%d)=%s want %s/%d", ipStr(c.V4, ch, clo), la, ipStr(c.V4, dh, dlo), lb, got.String(), ipStr(c.V4, sh, sl), ccl)
		}
		got2 := CB.GetSupernet(&CA)
		if !got2.Equal(&got) {
			viol("supernet-symmetry", vf.F("band", band(c.V4, uint8(ccl))), "GetSupernet not symmetric: %s vs %s", got.String(), got2.String())
		}
		n += 2
	}
	if ccl >= minl && la != lb && minl >= 1 {
		// one properly contains the other (equal prefixes are not judged: no caller asks for their supernet). What "the" common supernet is then is not pinned down by the
		// statement (the shorter prefix itself, or the next shorter one that strictly contains both): accepted is any
		// prefix that contains-or-equals both and is at most one bit shorter than the shorter of the two
		CA, CB := bnet.NewPfx(toIP(c.V4, ch, clo), c.ALen), bnet.NewPfx(toIP(c.V4, dh, dlo), c.BLen)
		got := CA.GetSupernet(&CB)
		gl8 := int(got.Len())
		_, gh, gl := fromIP(got.Addr())
		sh, sl := maskTo(ch, clo, gl8)
		if gl8 > minl || gl8 < minl-1 || gh != sh || gl != sl || got.Addr().IsIPv4() != c.V4 {
			viol("supernet", vf.F("band", band(c.V4, uint8(minl)), "nested", true), "GetSupernet(%s/%d,%s/%d)=%s: not a prefix of length %d or %d that covers both (one contains the other)", ipStr(c.V4, ch, clo), la, ipStr(c.V4, dh, dlo), lb, got.String(), minl-1, minl)
		}
		n++
	}
	// base address, validity
	bh, bl := maskTo(c.AHi, c.ALo, la)
	base := A.BaseAddr()
	_, gh, gl := fromIP(base)
	if gh != bh || gl != bl || base.IsIPv4() != c.V4 {
		viol("baseaddr", vf.F("band", band(c.V4, c.ALen)), "BaseAddr(%s/%d)=%s want %s", ipStr(c.V4, c.AHi, c.ALo), la, base.String(), ipStr(c.V4, bh, bl))
	}
	wantValid := bh == c.AHi && bl == c.ALo
	if got := A.Valid(); got != wantValid {
		viol("valid", vf.F("band", band(c.V4, c.ALen)), "Valid(%s/%d)=%v want %v", ipStr(c.V4, c.AHi, c.ALo), la, got, wantValid)
	}
	n += 2
	// bit at position: all positions of A's address
	for pos := 1; pos <= w; pos++ {
		if got := aIP.BitAtPosition(uint8(pos)); got != bit(c.AHi, c.ALo, pos) {
			viol("bitatposition", vf.F(), "BitAtPosition(%s,%d)=%v", ipStr(c.V4, c.AHi, c.ALo), pos, got)
			break
		}
	}
	n += w
	// ordering (same family)
	wantCmp := int8(0)
	if c.AHi != c.BHi {
		if c.AHi > c.BHi {
			wantCmp = 1
		} else {
			wantCmp = -1
		}
	} else if c.ALo != c.BLo {
		if c.ALo > c.BLo {
			wantCmp = 1
		} else {
			wantCmp = -1
		}
	}
	if got := aIP.Compare(&bIP); got != wantCmp {
		viol("compare", vf.F(), "Compare=%d want %d", got, wantCmp)
	}
	if got := bIP.Compare(&aIP); got != -wantCmp {
		viol("compare", vf.F(), "Compare(rev)=%d want %d", got, -wantCmp)
	}
	n += 2
	// print/parse and bytes round trips
	mapped := !c.V4 && isV4Mapped(c.AHi, c.ALo)
	s := aIP.String()
	back, err := bnet.IPFromString(s)
	if err != nil || back != aIP {
		viol("ip-string-roundtrip", vf.F("v4mapped", mapped), "IPFromString(%q)=%v,%v want %s", s, back, err, ipStr(c.V4, c.AHi, c.ALo))
	}
	if std := gonet.ParseIP(s); std == nil {
		viol("ip-string-format", vf.F(), "String()=%q is not parseable by the standard library", s)
	} else {
		var ref gonet.IP
		if c.V4 {
			ref = gonet.IPv4(byte(c.AHi>>56), byte(c.AHi>>48), byte(c.AHi>>40), byte(c.AHi>>32))
		} else {
			ref = make(gonet.IP, 16)
			for i := 0; i < 8; i++ {
				ref[i] = byte(c.AHi >> (56 - 8*uint(i)))
				ref[8+i] = byte(c.ALo >> (56 - 8*uint(i)))
			}
		}
		if !std.Equal(ref) {
			viol("ip-string-format", vf.F(), "String()=%q denotes another address than %s", s, ipStr(c.V4, c.AHi, c.ALo))
		}
	}
	ps := A.String()
	pb, err := bnet.PrefixFromString(ps)
	if err != nil || pb == nil || !pb.Equal(&A) {
		viol("prefix-string-roundtrip", vf.F("v4mapped", mapped), "PrefixFromString(%q) does not return the prefix (err=%v)", ps, err)
	}
	raw := aIP.Bytes()
	if len(raw) != w/8 {
		viol("bytes-length", vf.F(), "Bytes() has %d bytes", len(raw))
	}
	bb, err := bnet.IPFromBytes(raw)
	if err != nil || bb != aIP {
		viol("ip-bytes-roundtrip", vf.F("v4mapped", mapped), "IPFromBytes(Bytes(%s))=%v,%v", ipStr(c.V4, c.AHi, c.ALo), bb, err)
	}
	n += 5
	r.Eval(n)
}

func flip(hi, lo uint64, k int) (uint64, uint64) {
	if k <= 64 {
		return hi ^ 1<<(64-uint(k)), lo
	}
	return hi, lo ^ 1<<(128-uint(k))
}

func main() {
	vf.Main("C15", "exploration", func(r *vf.Run) {
		r.Rule("every (lenA,lenB) in 0..32 squared and 0..128 squared x base address {0, all-ones, 3 PRNG, v4-mapped for v6} x second address = first with exactly bit k flipped, k in {1,min-1,min,min+1,31..34,63..66,95..98,127,128} within the width, plus identical addresses; plus PRNG pairs; plus equality of an IPv4 and an IPv6 address/prefix with the same numeric bits (must be false); reference = bit-by-bit 128-bit arithmetic. distinct_nontrivial = distinct (family,lenA,lenB,k) combinations where the flipped bit lies at or before min(lenA,lenB)+1, i.e. it decides containment/supernet")
		r.Assume("Contains is judged as strict containment; equal-length pairs are not judged for Contains", "GetSupernet is judged exactly where the canonical prefixes differ before min(lenA,lenB) (the only case in which the trie calls it); where one prefix properly contains the other any covering prefix of length min or min-1 is accepted; equal prefixes and a /0 operand are not judged")
		if raw, ok := r.Replaying(); ok {
			var c pcase
			vf.Decode(raw, &c)
			check(r, c)
			return
		}
		rng := r.Rand("c15")
		for _, v4 := range []bool{true, false} {
			w := width(v4)
			bases := [][2]uint64{{0, 0}, {^uint64(0), ^uint64(0)}}
			for i := 0; i < 3; i++ {
				bases = append(bases, [2]uint64{rng.Uint64(), rng.Uint64()})
			}
			if !v4 {
				bases = append(bases, [2]uint64{0, 0xffff<<32 | uint64(rng.Uint32())})
			}
			for la := 0; la <= w; la++ {
				for lb := 0; lb <= w; lb++ {
					minl := la
					if lb < minl {
						minl = lb
					}
					ks := map[int]bool{0: true}
					for _, k := range []int{1, minl - 1, minl, minl + 1, 31, 32, 33, 34, 63, 64, 65, 66, 95, 96, 97, 98, 127, 128} {
						if k >= 1 && k <= w {
							ks[k] = true
						}
					}
					for _, b := range bases {
						hi, lo := b[0], b[1]
						if v4 {
							hi, lo = hi&0xffffffff00000000, 0
						}
						for k := range ks {
							bh, bl := hi, lo
							if k > 0 {
								bh, bl = flip(hi, lo, k)
							}
							c := pcase{V4: v4, AHi: hi, ALo: lo, ALen: uint8(la), BHi: bh, BLo: bl, BLen: uint8(lb)}
							check(r, c)
							if k > 0 && k <= minl+1 {
								r.Nontrivial(fmt.Sprintf("%v/%d/%d/%d", v4, la, lb, k))
							}
						}
					}
				}
			}
		}
		// cross-family equality: an IPv4 address / prefix never equals the IPv6 one with the same numeric bits
		// (0.0.0.0/0 vs ::/0, a.b.c.d vs ::a.b.c.d)
		xvals := []uint32{0, 1, 0xffffffff, 0x0a000001, 0xc0000200}
		for i := 0; i < 200; i++ {
			xvals = append(xvals, rng.Uint32())
		}
		for _, v := range xvals {
			for _, l := range []uint8{0, 1, 8, 24, 32} {
				check(r, pcase{Cross: true, V4: true, AHi: uint64(v) << 32, ALen: l})
				r.Count("cross_family_equality_checks", 1)
			}
		}
		r.Exhaustive(true)
		// PRNG pairs: random addresses sharing a random-length stem
		nr := r.N(200000, 4000000)
		for i := 0; i < nr; i++ {
			v4 := rng.IntN(3) == 0
			w := width(v4)
			hi, lo := rng.Uint64(), rng.Uint64()
			bh, bl := rng.Uint64(), rng.Uint64()
			stem := rng.IntN(w + 1)
			mh, ml := maskTo(hi, lo, stem)
			// b = stem of a, rest random
			var keepH, keepL uint64
			if stem >= 64 {
				keepH = ^uint64(0)
				if stem > 64 {
					keepL = ^uint64(0) << (128 - uint(stem))
				}
			} else if stem > 0 {
				keepH = ^uint64(0) << (64 - uint(stem))
			}
			bh, bl = mh|bh&^keepH, ml|bl&^keepL
			if v4 {
				hi, lo, bh, bl = hi&0xffffffff00000000, 0, bh&0xffffffff00000000, 0
			}
			c := pcase{V4: v4, AHi: hi, ALo: lo, ALen: uint8(rng.IntN(w + 1)), BHi: bh, BLo: bl, BLen: uint8(rng.IntN(w + 1))}
			check(r, c)
			if i < 3 {
				j, _ := json.Marshal(c)
				r.Sample(json.RawMessage(j))
			}
		}
		r.Count("random_pairs", nr)
		r.Sample(map[string]any{"a": "2001:db8:1::/48", "b": "ffff:db8:1:5::/64", "note": "single-bit-difference pair family: bit 1 flipped, lenA=48, lenB=64"})
	})
}
