// C23: the session state machine refines the RFC 4271 FSM model.
//
// A case is a sequence of events injected into one FSM of a fresh bio-rd server: administrative
// events and Cease (event hook), a connection delivered (listener for a passive peer, connector hook
// for an FSM waiting in Connect/Active), the remote side closing, valid and invalid OPEN, KEEPALIVE,
// UPDATE, NOTIFICATION, garbage, failing writes (memconn fault) and — in a few sequences — real
// waits that let bio-rd's timers fire. An optional prelude first drives the valid conversation to a
// start state. After every event the harness synchronises with the FSM (internal/speaker) and records
// (published state, attached to the Loc-RIB, contributing ASN, connection closed by bio-rd). Clauses:
//
//	transition        the step (state, event) → state' is not in the successor set of the abstract
//	                  model (internal/sess2/model.go, RFC 4271 §8.2.2, permissive where the RFC is). A step to
//	                  Idle that the model does not allow is accepted only if bio-rd wrote NOTIFICATION 4
//	                  (its hold timer fired: the machine was slow).
//	attached          Loc-RIB client registration / contributing ASN present although the state is not
//	                  Established, or absent although it is
//	update-processed  a route is in the Adj-RIB-In / Loc-RIB whose UPDATE was delivered while the FSM was
//	                  not Established
//	idle-open         a step from OpenSent/OpenConfirm/Established to Idle (or Ceased) left the connection open
//
// The model side is walked exhaustively for the evidence: every event sequence up to the bound has a
// non-empty successor set (coverage.model_*).
package main

import (
	"encoding/json"
	"fmt"
	"net"
	"os"
	"strconv"
	"strings"
	"time"

	"github.com/bio-routing/bio-rd/protocols/bgp/server"

	"verifharness/internal/batch"
	"verifharness/internal/memconn"
	m "verifharness/internal/sess2"
	"verifharness/internal/sessgen"
	"verifharness/internal/speaker"
	"verifharness/internal/vf"
	"verifharness/internal/wire"
)

const localAS = 65000

type ccase struct {
	Mode    string   `json:"mode"` // active: the peer's own FSM (starts in Idle, connector hook) | passive: FSMs are made by incoming connections
	EBGP    bool     `json:"ebgp"`
	Hold3   bool     `json:"hold3,omitempty"`   // 3 s hold time on both sides (timer sequences)
	Prelude string   `json:"prelude,omitempty"` // "", connect, openSent, openConfirm, established
	Events  []string `json:"events"`
}

type obs struct {
	State        string
	Attached     bool // LocRIB.ClientCount() > 0
	Contributing bool // vrf.IsContributingASN(local AS)
	HasConn      bool
	Closed       bool // bio-rd closed the current connection
}

type drv struct {
	c          ccase
	srv        *speaker.Server
	p          *speaker.Peer
	idx        int // FSM under observation; -1: none yet (passive peer)
	s          *speaker.Session
	peerClosed bool
	wfail      bool
	ceased     bool
	updN       int
	okUpd      map[int]bool
	sentIn     map[int]string
	res        *batch.Result
	where      string
	found      bool
}

func (d *drv) peerAS() uint32 {
	if d.c.EBGP {
		return 65001
	}
	return localAS
}

func (d *drv) observe() obs {
	var o obs
	o.Attached = d.srv.ClientCount(true) > 0
	o.Contributing = d.srv.VRF.IsContributingASN(localAS)
	if d.s != nil {
		o.HasConn = true
		o.Closed = d.s.Conn.IsClosed()
	}
	switch {
	case d.idx < 0:
		o.State = "none"
	case d.ceased:
		o.State = m.StCeased
	default:
		fs := d.p.FSMs()
		if d.idx < len(fs) {
			o.State = fs[d.idx].State
		}
	}
	return o
}

func (d *drv) connUsable() bool {
	return d.s != nil && !d.s.Conn.IsClosed() && !d.peerClosed
}

func (d *drv) open(valid bool, variant int) *wire.Open {
	o := d.p.DefaultOpen()
	if d.c.Hold3 {
		o.HoldTime = 3
	}
	if !valid {
		// which check fails varies with the position in the sequence and with the case
		h := variant
		for _, e := range d.c.Events {
			h = h*31 + len(e) + len(d.c.Prelude)
		}
		switch (h%5 + 5) % 5 {
		case 0:
			o.AS = 64999
			for i := range o.Caps {
				if o.Caps[i].Code == wire.CapCodeAS4 {
					o.Caps[i] = wire.CapAS4(64999)
				}
			}
		case 1:
			o.Version = 3
		case 2:
			o.HoldTime = 2 // RFC 4271 section 4.2: hold times of one and two seconds must be rejected
		case 3:
			o.HoldTime = 1
		default:
			o.ID = 0
		}
	}
	return o
}

// apply injects the event; applicable=false: the event cannot be delivered in the present situation (no-op).
func (d *drv) apply(ev string, step int, before obs) (applicable bool, err error) {
	admin := map[string]int{m.EvManualStart: server.ManualStart, m.EvManualStop: server.ManualStop, m.EvAutomaticStart: server.AutomaticStart,
		m.EvAutomaticStop: server.AutomaticStop, m.EvCease: server.Cease}
	if n, ok := admin[ev]; ok {
		if d.idx < 0 || d.ceased {
			return false, nil
		}
		if err := server.VerifFSMEvent(d.srv.B, d.srv.VRF, d.p.Addr, d.idx, n, 3*time.Second); err != nil {
			return true, fmt.Errorf("the FSM (state %s) does not take event %s: %v", before.State, ev, err)
		}
		return true, nil
	}
	switch ev {
	case m.EvWaitShort:
		time.Sleep(1300 * time.Millisecond)
		return true, nil
	case m.EvWaitHold:
		time.Sleep(4300 * time.Millisecond)
		return true, nil
	case m.EvConnDelivered:
		if d.ceased {
			return false, nil
		}
		switch {
		case before.State == m.StConnect || before.State == m.StActive:
			c := memconn.New(&net.TCPAddr{IP: d.p.Cfg.LocalAddr.ToNetIP(), Port: 179}, &net.TCPAddr{IP: d.p.Addr.ToNetIP()})
			if err := server.VerifFSMDeliverConn(d.srv.B, d.srv.VRF, d.p.Addr, d.idx, c, 3*time.Second); err != nil {
				return true, fmt.Errorf("the FSM in state %s does not take a connection: %v", before.State, err)
			}
			d.s = &speaker.Session{P: d.p, Conn: c, FSMIndex: d.idx}
		case d.c.Mode == "passive" && d.idx < 0:
			s, err := d.p.Connect()
			if err != nil {
				return true, err
			}
			d.s, d.idx = s, s.FSMIndex
		default:
			return false, nil
		}
		d.peerClosed, d.wfail = false, false
		d.s.WaitSUTOpen()
		return true, nil
	}
	if !d.connUsable() {
		return false, nil
	}
	switch ev {
	case m.EvConnClosed:
		d.s.Conn.PeerClose()
		d.peerClosed = true
	case m.EvWriteFailure:
		d.s.Conn.FailWrites(nil, 0)
		d.wfail = true
	case m.EvOpenValid:
		d.s.SendOpen(d.open(true, 0))
	case m.EvOpenInvalid:
		d.s.SendOpen(d.open(false, step))
	case m.EvKeepalive:
		d.s.SendKeepalive()
	case m.EvNotification:
		// any NOTIFICATION must end the session the same way: vary code/subcode with the position in the sequence
		// and the case (the last four pairs are ones bio-rd's decoder does not know: Cease/9 Hard Reset, Cease/10 BFD
		// Down, ROUTE-REFRESH Message Error, Hold Timer Expired with a subcode)
		codes := [][2]uint8{{6, 0}, {1, 1}, {1, 2}, {2, 2}, {3, 1}, {4, 0}, {5, 0}, {6, 2}, {2, 6}, {6, 9}, {6, 10}, {7, 1}, {4, 1}}
		h := step
		for _, e := range d.c.Events {
			h = h*31 + len(e) + len(d.c.Prelude)
		}
		nc := codes[(h%len(codes)+len(codes))%len(codes)]
		d.s.SendNotification(nc[0], nc[1])
	case m.EvGarbage:
		// a header whose marker is wrong and nothing else (length 19, type KEEPALIVE)
		g := wire.Keepalive()
		for i := 0; i < 16; i++ {
			g[i] = byte(0x11 * (i + 1))
		}
		d.s.Send(g)
	case m.EvUpdate:
		d.updN++
		k := d.updN
		pa := &wire.PathAttrs{Origin: wire.U8(0), HasASPath: true, NextHop: sessgen.NHv4(uint32(k)), Communities: []uint32{0xfdec0000 | uint32(k)}}
		if d.c.EBGP {
			pa.ASPath = []wire.Segment{{Type: wire.SegSequence, ASNs: []uint32{d.peerAS()}}}
		} else {
			lp := uint32(100)
			pa.LocalPref = &lp
		}
		// before OPEN negotiation nothing is negotiated: bio-rd always offers 4-octet AS and so does DefaultOpen
		opts := wire.Options{AS4: true}
		u := &wire.Update{Attrs: pa.Build(opts), NLRI: []wire.NLRI{updRoute(k)}}
		b, _ := u.Encode(opts)
		// every third UPDATE has the largest legal size: padded with communities (and, for the remainder, a MED
		// and further NLRI of the same route) to exactly 4096 octets
		h := k
		for _, e := range d.c.Events {
			h = h*31 + len(e)
		}
		if h%3 == 0 {
			if big := maxSizeUpdate(pa, opts, k); big != nil {
				b = big
				d.res.Count("updates_of_exactly_4096_octets", 1)
			}
		}
		d.s.Send(b)
		d.sentIn[k] = before.State
		if before.State == m.StEstablished {
			d.okUpd[k] = true
		}
	}
	return true, nil
}

func updRoute(k int) wire.NLRI { return wire.V4(100, 80, byte(k), 0, 24) }

// maxSizeUpdate pads the attributes so that the UPDATE announcing updRoute(k) is exactly 4096 octets long.
func maxSizeUpdate(pa *wire.PathAttrs, opts wire.Options, k int) []byte {
	base := append([]uint32{}, pa.Communities...)
	for extra := 0; extra < 4; extra++ { // 0-3 additional more specific NLRI shift the length by 5 octets each
		nlri := []wire.NLRI{updRoute(k)}
		for j := 0; j < extra; j++ {
			nlri = append(nlri, wire.V4(100, 80, byte(k), byte(1+j), 32))
		}
		for n := 960; n < 1020; n++ {
			q := *pa
			q.Communities = append([]uint32{}, base...)
			for j := 0; j < n; j++ {
				q.Communities = append(q.Communities, 0xfdeb0000|uint32(j))
			}
			u := &wire.Update{Attrs: q.Build(opts), NLRI: nlri}
			b, err := u.Encode(opts)
			if err == nil && len(b) == 4096 {
				return b
			}
			if len(b) > 4096 {
				break
			}
		}
	}
	return nil
}

// settle is the synchronisation point after an event. An FSM that does not take the barrier has ended
// (Ceased): after a Cease event that is expected and decided quickly; after any other event the barrier
// gets a long time before the FSM is declared gone (the model will then object to the step).
func (d *drv) settle(ev string) error {
	if d.idx < 0 || d.ceased {
		return nil
	}
	long := 6 * time.Second
	barrier := func(to time.Duration) bool {
		return server.VerifFSMSync(d.srv.B, d.srv.VRF, d.p.Addr, d.idx, to) == nil
	}
	if d.connUsable() {
		r := m.Sync(d.s)
		if !r.Idle && !r.Closed {
			return fmt.Errorf("no synchronisation: %v", r)
		}
		if r.Barrier {
			return nil
		}
		if !r.Closed {
			return fmt.Errorf("the FSM does not take the barrier although its connection is open: %v", r)
		}
		if ev == m.EvCease || !barrier(long) {
			d.ceased = true
		}
		return nil
	}
	to := long
	if ev == m.EvCease {
		to = speaker.CeaseGrace
	}
	if !barrier(to) {
		d.ceased = true
	}
	return nil
}

func (d *drv) violate(clause string, f map[string]string, format string, a ...any) {
	d.found = true
	d.res.Add(clause, f, d.where+": "+format, a...)
}

func (d *drv) check(step int, ev string, applicable bool, before, after obs) {
	d.res.Count("steps", 1)
	if applicable {
		d.res.Count("steps_applicable", 1)
		d.res.Seen("transitions_seen", before.State+" --"+ev+"--> "+after.State)
	}
	trace := fmt.Sprintf("step %d %s (applicable %v): %+v → %+v", step, ev, applicable, before, after)
	// transition
	from := before.State
	if from == "none" {
		// a passive peer has no FSM before the first connection: the new FSM starts in Active and gets the connection at once
		if after.State == "none" {
			return
		}
		from = m.StActive
	}
	allowed := m.Allowed(from, ev, m.Ctx{Applicable: applicable, WriteFault: d.wfail})
	if !allowed[after.State] {
		if after.State == m.StIdle && d.s != nil && m.HoldTimerFired(d.s) && (from == m.StOpenSent || d.c.Hold3) {
			d.res.Count("steps_explained_by_hold_timer", 1)
		} else {
			var al []string
			for _, s := range m.ModelStates() {
				if allowed[s] {
					al = append(al, s)
				}
			}
			d.violate("transition", vf.F("from", from, "event", ev, "to", after.State, "write_fault", d.wfail),
				"%s; the model allows %v (NOTIFICATIONs on the connection: %s)", trace, al, notifs(d.s))
			return
		}
	}
	// attached ⇔ Established
	est := after.State == m.StEstablished
	if after.Attached != est || after.Contributing != est {
		d.violate("attached", vf.F("state", after.State, "from", from, "event", ev, "loc_rib_client", after.Attached, "contributing_asn", after.Contributing),
			"%s: Loc-RIB client registered %v, contributing ASN %v, but the state is %s", trace, after.Attached, after.Contributing, after.State)
		return
	}
	// routes only from UPDATEs delivered in Established
	var in []string
	if d.s != nil && !d.ceased {
		if dump, ok := d.s.RIBIn(true); ok {
			for _, v := range speaker.Views(dump) {
				in = append(in, v.PfxS)
			}
		}
	}
	for _, v := range speaker.FromSource(speaker.Views(d.srv.Dump(true)), d.p.Addr) {
		in = append(in, v.PfxS)
	}
	for _, pfx := range in {
		for k := 1; k <= d.updN; k++ {
			if pfx == updRoute(k).Key() && !d.okUpd[k] {
				d.violate("update-processed", vf.F("state", d.sentIn[k]), "%s: route %s is installed, its UPDATE was delivered in state %s", trace, pfx, d.sentIn[k])
				return
			}
		}
	}
	// leaving to Idle closes the connection
	if (from == m.StOpenSent || from == m.StOpenConfirm || from == m.StEstablished) && (after.State == m.StIdle || after.State == m.StCeased) && before.HasConn && !after.Closed {
		d.violate("idle-open", vf.F("from", from, "event", ev, "to", after.State), "%s: the connection is still open", trace)
	}
}

func notifs(s *speaker.Session) string {
	if s == nil {
		return "no connection"
	}
	return m.NotifText(s)
}

func preludeEvents(p string) []string {
	switch p {
	case "connect":
		return []string{m.EvManualStart}
	case "openSent":
		return []string{m.EvManualStart, m.EvConnDelivered}
	case "openConfirm":
		return []string{m.EvManualStart, m.EvConnDelivered, m.EvOpenValid}
	case "established":
		return []string{m.EvManualStart, m.EvConnDelivered, m.EvOpenValid, m.EvKeepalive}
	}
	return nil
}

func runCase(idx int, raw json.RawMessage) batch.Result {
	var c ccase
	if err := json.Unmarshal(raw, &c); err != nil {
		return batch.Result{Inconcl: "case does not decode: " + err.Error()}
	}
	var res batch.Result
	for attempt := 0; attempt < 4; attempt++ {
		var stalled bool
		res, stalled = runOnce(c)
		if !stalled {
			return res
		}
	}
	return batch.Result{Inconcl: "the prelude ran into bio-rd's OpenSent timer in 4 attempts (machine too slow)"}
}

func runOnce(c ccase) (res batch.Result, stalled bool) {
	srv := speaker.NewServer(speaker.ServerConfig{})
	pc := speaker.PeerConfig{LocalAS: localAS, PeerAS: localAS, Active: c.Mode == "active"}
	if c.EBGP {
		pc.PeerAS = 65001
	}
	if c.Hold3 {
		pc.HoldTime = 3 * time.Second
	}
	p, err := srv.AddPeer(pc)
	if err != nil {
		res.Inconcl = "AddPeer: " + err.Error()
		return
	}
	d := &drv{c: c, srv: srv, p: p, idx: -1, okUpd: map[int]bool{}, sentIn: map[int]string{}, res: &res}
	if c.Mode == "active" {
		d.idx = 0
	}
	kind := "ibgp"
	if c.EBGP {
		kind = "ebgp"
	}
	d.where = fmt.Sprintf("%s %s peer, prelude %q, events %v", c.Mode, kind, c.Prelude, c.Events)
	defer func() {
		if d.s != nil && !d.ceased && !d.peerClosed {
			m.Teardown(d.s)
		}
	}()
	pre := preludeEvents(c.Prelude)
	all := append(append([]string(nil), pre...), c.Events...)
	for i, ev := range all {
		before := d.observe()
		t0 := time.Now()
		applicable, err := d.apply(ev, i, before)
		if err == nil {
			err = d.settle(ev)
		}
		if err != nil {
			if d.s != nil && m.HoldTimerFired(d.s) && !strings.HasPrefix(ev, "Wait") {
				return res, true
			}
			res.Inconcl = fmt.Sprintf("%s: step %d %s: %v", d.where, i, ev, err)
			return
		}
		after := d.observe()
		if i < len(pre) {
			// the prelude is the valid conversation; if the 1 s OpenSent timer beat it, try again
			want := map[string]string{m.EvManualStart: m.StConnect, m.EvConnDelivered: m.StOpenSent, m.EvOpenValid: m.StOpenConfirm, m.EvKeepalive: m.StEstablished}[ev]
			if ev == m.EvManualStart && c.Mode == "passive" {
				continue
			}
			if after.State != want {
				if d.s != nil && m.HoldTimerFired(d.s) {
					return res, true
				}
				res.Inconcl = fmt.Sprintf("%s: the prelude reached %s instead of %s", d.where, after.State, want)
				return
			}
		}
		if time.Since(t0) > 700*time.Millisecond && !strings.HasPrefix(ev, "Wait") {
			res.Count("slow_steps", 1)
		}
		d.check(i, ev, applicable, before, after)
		if d.found {
			break
		}
	}
	res.Count("sequences", 1)
	if c.Prelude == "openConfirm" && len(c.Events) == 3 && c.Events[0] == m.EvKeepalive && c.Events[1] == m.EvUpdate {
		res.Sample = map[string]any{"sequence": c, "final": d.observe()}
	}
	res.Nontrivial = append(res.Nontrivial, fmt.Sprintf("%s|%v|%s|%v", c.Mode, c.EBGP, c.Prelude, c.Events))
	return
}

// ---------------------------------------------------------------------------------------------
// generation

func sequences(alphabet []string, maxLen int) [][]string {
	var out [][]string
	var rec func(cur []string)
	rec = func(cur []string) {
		if len(cur) > 0 {
			out = append(out, append([]string(nil), cur...))
		}
		if len(cur) == maxLen {
			return
		}
		for _, e := range alphabet {
			rec(append(cur, e))
		}
	}
	rec(nil)
	return out
}

// walkModel: every sequence up to maxLen from every state stays inside the state set with non-empty successor sets.
func walkModel(maxLen int) (seqs int, ok bool) {
	ok = true
	for _, start := range m.ModelStates() {
		cur := map[string]bool{start: true}
		var rec func(cur map[string]bool, depth int)
		rec = func(cur map[string]bool, depth int) {
			if depth == maxLen {
				return
			}
			for _, e := range m.Events {
				next := map[string]bool{}
				for s := range cur {
					for _, wf := range []bool{false, true} {
						a := m.Allowed(s, e, m.Ctx{Applicable: true, WriteFault: wf})
						if len(a) == 0 {
							ok = false
						}
						for t := range a {
							next[t] = true
						}
					}
				}
				seqs++
				rec(next, depth+1)
			}
		}
		rec(cur, 0)
	}
	return
}

func main() {
	if batch.IsChild() {
		batch.ChildMain(runCase)
		return
	}
	vf.Main("C23", "exploration", func(r *vf.Run) {
		r.Rule("event sequences over the 14 non-timer event classes {ManualStart, ManualStop, AutomaticStart, AutomaticStop, Cease, ConnDelivered, ConnClosed, OpenValid, OpenInvalid, Keepalive, Update, Notification, Garbage, WriteFailure}: EVERY sequence of length ≤ 3 (thorough: ≤ 4) from a fresh peer (every third UPDATE is padded to exactly 4096 octets, the largest legal message), alternating active/passive and iBGP/eBGP; every sequence of length ≤ 2 (thorough: ≤ 3) after each prelude that drives the valid conversation to Connect / OpenSent / OpenConfirm / Established; sampled sequences of length 3 after a prelude and of length 5–8; sequences with real waits (1.3 s > bio-rd's OpenSent hold time and > the keepalive time of a 3 s session; hold time + 1.3 s) on peers with a 3 s hold time. Events that cannot be delivered in the present situation (a message without an open connection, a connection while no FSM waits for one) are no-ops in model and implementation. distinct_nontrivial = distinct (peer mode, session kind, prelude, sequence)")
		r.Assume("the abstract model is internal/sess2/model.go: successor SETS per RFC 4271 §8.2.2; optional events (AutomaticStart/Stop) may be ignored; a remote close may go unnoticed until a timer fires; Ceased stands for the FSM object being destroyed",
			"attached is observed from outside the FSM: LocRIB.ClientCount() > 0 and vrf.IsContributingASN(local AS) on a server with exactly one peer",
			"an unexpected step to Idle is accepted as a timer expiry only if bio-rd wrote NOTIFICATION 4 on the connection")
		var cases []any
		if raw, ok := r.Replaying(); ok {
			cases = []any{raw}
		} else {
			n := 0
			add := func(c ccase) {
				c.Mode = []string{"active", "passive"}[n%2]
				c.EBGP = (n/2)%2 == 1
				n++
				cases = append(cases, c)
			}
			base := r.N(3, 4)
			for _, s := range sequences(m.Events, base) {
				add(ccase{Events: s})
			}
			preludes := []string{"connect", "openSent", "openConfirm", "established"}
			for _, p := range preludes {
				for _, s := range sequences(m.Events, base-1) {
					add(ccase{Prelude: p, Events: s})
					add(ccase{Prelude: p, Events: s}) // second time with the other peer mode
				}
			}
			rng := r.Rand("c23")
			pick := func(k int, alphabet []string) []string {
				s := make([]string, k)
				for i := range s {
					s[i] = alphabet[rng.IntN(len(alphabet))]
				}
				return s
			}
			for i := 0; i < r.N(1500, 12000); i++ {
				add(ccase{Prelude: preludes[rng.IntN(len(preludes))], Events: pick(base, m.Events)})
			}
			for i := 0; i < r.N(1000, 12000); i++ {
				add(ccase{Prelude: []string{"", "openSent", "established"}[rng.IntN(3)], Events: pick(5+rng.IntN(4), m.Events)})
			}
			// timer sequences
			withTimers := append(append([]string(nil), m.Events...), m.EvWaitShort, m.EvWaitShort, m.EvWaitHold)
			for i := 0; i < r.N(300, 6000); i++ {
				s := pick(2+rng.IntN(3), withTimers)
				s[rng.IntN(len(s))] = []string{m.EvWaitShort, m.EvWaitShort, m.EvWaitHold}[rng.IntN(3)]
				add(ccase{Hold3: true, Prelude: []string{"openSent", "openConfirm", "established", "established"}[rng.IntN(4)], Events: s})
			}
			if v, err := strconv.Atoi(os.Getenv("VERIF_C23_N")); err == nil && v > 0 && v < len(cases) {
				step := len(cases) / v
				var sub []any
				for i := 0; i < len(cases); i += step {
					sub = append(sub, cases[i])
				}
				cases = sub
			}
			r.Rand("c23-order").Shuffle(len(cases), func(i, j int) { cases[i], cases[j] = cases[j], cases[i] })
			r.Eval(len(cases))
			seqs, ok := walkModel(base)
			r.Set("model_sequences_walked", seqs)
			r.Set("model_total", ok)
		}
		// timer sequences sleep most of the time: 4 workers per child, 8 children
		batch.Drive(r, batch.Config{Name: "c23", PerChild: 400, Workers: 4, Lanes: 8}, cases, nil)
		if _, ok := r.Replaying(); !ok {
			r.Require("sequences", int64(len(cases)*9/10))
		}
	})
}
