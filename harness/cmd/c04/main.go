// C04: Loc-RIB clients hold exactly the selected paths they asked for.
// Monitor: recording RouteTableClients registered with every option; after every operation of a sequential history
// (and at the quiescent end of a concurrent round) the set each client holds (initial dump + adds - removes) is compared
// with the first paths of the Loc-RIB's own current selection that the client's option admits.
package main

import (
	"encoding/json"
	"fmt"
	"math/rand/v2"
	"runtime"
	"sort"
	"sync"

	bnet "github.com/bio-routing/bio-rd/net"
	"github.com/bio-routing/bio-rd/routingtable"
	"github.com/bio-routing/bio-rd/routingtable/locRIB"

	"verifharness/internal/tbl"
	"verifharness/internal/vf"
)

type clientOpt struct {
	Best bool `json:"best,omitempty"`
	ECMP bool `json:"ecmp,omitempty"`
	Max  uint `json:"max,omitempty"`
}

func (o clientOpt) String() string {
	switch {
	case o.Best:
		return "best"
	case o.ECMP:
		return "ecmp"
	}
	return fmt.Sprintf("max%d", o.Max)
}

func (o clientOpt) bio() routingtable.ClientOptions {
	return routingtable.ClientOptions{BestOnly: o.Best, EcmpOnly: o.ECMP, MaxPaths: o.Max}
}

type op struct {
	K      string `json:"k"` // add | remove | replace | register | unregister | refresh
	Pfx    int    `json:"pfx,omitempty"`
	Path   int    `json:"path,omitempty"` // candidate index
	Old    int    `json:"old,omitempty"`  // replace: candidate index to replace
	Client int    `json:"client,omitempty"`
}

type hist struct {
	Cands   [][]tbl.PathSpec `json:"cands"` // per prefix
	Clients []clientOpt      `json:"clients"`
	Ops     []op             `json:"ops"`
	Workers int              `json:"workers,omitempty"` // >0: concurrent round
	// Twins[p] >= 0: the LAST candidate of prefix p is a twin of candidate Twins[p]: same attributes in every respect the
	// decision process and path equality look at, another id (community). A twin only enters the table by replacing its
	// sibling (what an import policy replacement that changes a non-selection attribute produces).
	Twins []int `json:"twins,omitempty"`
}

var pfxs = func() []*bnet.Prefix {
	var out []*bnet.Prefix
	for i := 0; i < 6; i++ {
		out = append(out, bnet.NewPfx(bnet.IPv4(0x0a000000+uint32(i)<<16), 16).Ptr())
	}
	return out
}()

func genCands(rng *rand.Rand) [][]tbl.PathSpec {
	c := make([][]tbl.PathSpec, len(pfxs))
	id := uint32(1)
	for i := range c {
		n := 3 + rng.IntN(4)
		for j := 0; j < n; j++ {
			s := tbl.PathSpec{ID: id, LP: []uint32{100, 100, 100, 200}[rng.IntN(4)], ASPath: []tbl.Seg{{ASNs: []uint32{65001}}}, Origin: uint8(rng.IntN(2)) * uint8(rng.IntN(2)),
				MED: []uint32{0, 0, 0, 5}[rng.IntN(4)], BGPID: uint32(1 + rng.IntN(3)), Source: 0x0a0a0001 + uint32(j), NextHop: 0x0b000001 + uint32(rng.IntN(3)), EBGP: rng.IntN(3) == 0}
			if rng.IntN(5) == 0 {
				s.ASPath = []tbl.Seg{{ASNs: []uint32{65001, 65002}}}
			}
			if rng.IntN(12) == 0 {
				s = tbl.PathSpec{Static: true, ID: id}
			}
			c[i] = append(c[i], s)
			id++
		}
	}
	return c
}

var allOpts = []clientOpt{{Best: true}, {ECMP: true}, {Max: 1}, {Max: 2}, {Max: 3}, {Max: 4}}

// genHist generates a history in which a candidate is only added while it is not stored and only removed/replaced
// while it is (a session never announces the same path twice without a withdrawal in between). With workers > 0 the
// table operations are generated per worker over the candidates that worker owns (index % workers), so that the
// constraint holds under every interleaving.
func genHist(rng *rand.Rand, nops int, workers int) hist {
	h := hist{Cands: genCands(rng), Workers: workers}
	if workers == 0 {
		h.Twins = make([]int, len(h.Cands))
		maxID := uint32(0)
		for _, cs := range h.Cands {
			for _, c := range cs {
				if c.ID > maxID {
					maxID = c.ID
				}
			}
		}
		for p := range h.Cands {
			h.Twins[p] = -1
			j := rng.IntN(len(h.Cands[p]))
			if rng.IntN(3) != 0 && !h.Cands[p][j].Static {
				t := h.Cands[p][j]
				maxID++
				t.ID = maxID
				h.Cands[p] = append(h.Cands[p], t)
				h.Twins[p] = j
			}
		}
	}
	isTwin := func(p, j int) bool { return h.Twins != nil && h.Twins[p] >= 0 && j == len(h.Cands[p])-1 }
	sibling := func(p, j int) int {
		if h.Twins == nil || h.Twins[p] < 0 {
			return -1
		}
		if j == len(h.Cands[p])-1 {
			return h.Twins[p]
		}
		if j == h.Twins[p] {
			return len(h.Cands[p]) - 1
		}
		return -1
	}
	nc := 3 + rng.IntN(4)
	for i := 0; i < nc; i++ {
		h.Clients = append(h.Clients, allOpts[rng.IntN(len(allOpts))])
	}
	stored := map[[2]int]bool{}
	owners := 1
	if workers > 0 {
		owners = workers
	}
	pick := func(p, owner int, want bool) int {
		var c []int
		for j := range h.Cands[p] {
			if j%owners == owner && stored[[2]int{p, j}] == want {
				if !want {
					// a twin (or the sibling of a stored twin) only enters by replacing its sibling
					if sb := sibling(p, j); isTwin(p, j) || (sb >= 0 && stored[[2]int{p, sb}]) {
						continue
					}
				}
				c = append(c, j)
			}
		}
		if len(c) == 0 {
			return -1
		}
		return c[rng.IntN(len(c))]
	}
	for i := 0; i < nops; i++ {
		p := rng.IntN(len(pfxs))
		if rng.IntN(2) == 0 {
			p = rng.IntN(2) // concentrate so that ECMP sets grow and shrink
		}
		owner := rng.IntN(owners)
		x := rng.IntN(100)
		switch {
		case x < 40:
			if j := pick(p, owner, false); j >= 0 {
				h.Ops = append(h.Ops, op{K: "add", Pfx: p, Path: j})
				stored[[2]int{p, j}] = true
			}
		case x < 62:
			if j := pick(p, owner, true); j >= 0 {
				h.Ops = append(h.Ops, op{K: "remove", Pfx: p, Path: j})
				stored[[2]int{p, j}] = false
			}
		case x < 72:
			o, n := pick(p, owner, true), pick(p, owner, false)
			if o >= 0 {
				if sb := sibling(p, o); sb >= 0 && rng.IntN(2) == 0 {
					n = sb // replaced by its twin: nothing the decision process looks at changes
				}
			}
			if o >= 0 && n >= 0 {
				h.Ops = append(h.Ops, op{K: "replace", Pfx: p, Old: o, Path: n})
				stored[[2]int{p, o}] = false
				stored[[2]int{p, n}] = true
			}
		case x < 84:
			h.Ops = append(h.Ops, op{K: "register", Client: rng.IntN(nc)})
		case x < 93:
			h.Ops = append(h.Ops, op{K: "unregister", Client: rng.IntN(nc)})
		default:
			h.Ops = append(h.Ops, op{K: "refresh", Client: rng.IntN(nc)})
		}
	}
	return h
}

type cstate struct {
	rec        *tbl.Recorder
	registered bool
	unregAt    int // recorder length when Unregister returned
	regAfterOp int
}

type stats struct {
	callbacks map[string]int
	dups      int
	ecmpGrow  int
	ecmpShrink int
	truncated int
	bestChanges int
}

// expected returns the ids the option admits from the Loc-RIB's current selection for a prefix.
func expected(lr *locRIB.LocRIB, p *bnet.Prefix, o clientOpt) []uint32 {
	rt := lr.Get(p)
	if rt == nil {
		return nil
	}
	paths := rt.Paths()
	n := 0
	switch {
	case o.Best:
		n = 1
	case o.ECMP:
		n = int(rt.ECMPPathCount())
	default:
		n = int(o.Max)
	}
	if n > len(paths) {
		n = len(paths)
	}
	return tbl.SortedIDs(paths[:n])
}

func eq(a, b []uint32) bool {
	if len(a) != len(b) {
		return false
	}
	for i := range a {
		if a[i] != b[i] {
			return false
		}
	}
	return true
}

func compareAll(lr *locRIB.LocRIB, cs []*cstate, opts []clientOpt, phase, after string, step int, viol func(string, map[string]string, string)) int {
	n := 0
	for ci, c := range cs {
		if !c.registered {
			continue
		}
		held := c.rec.Held()
		for _, p := range pfxs {
			want := expected(lr, p, opts[ci])
			got := held[p.String()]
			n++
			if !eq(got, want) {
				viol("client-set-mismatch", vf.F("option", opts[ci].String(), "after", after, "phase", phase), fmt.Sprintf("step %d (%s): client %d (%s) holds %v for %s, the Loc-RIB's admitted selection is %v (all paths in order: %v)", step, after, ci, opts[ci], got, p, want, tbl.IDs(lr.Get(p).Paths())))
			}
		}
	}
	return n
}

func runSeq(h hist, st *stats, viol func(string, map[string]string, string)) int {
	evals := 0
	step := -1
	defer func() {
		if p := recover(); p != nil {
			buf := make([]byte, 3000)
			buf = buf[:runtime.Stack(buf, false)]
			viol("panic", vf.F("phase", "sequential"), fmt.Sprintf("panic at step %d: %v\n%s", step, p, buf))
		}
	}()
	lr := locRIB.New("c04")
	cs := make([]*cstate, len(h.Clients))
	for i := range cs {
		cs[i] = &cstate{rec: tbl.NewRecorder(fmt.Sprint(i))}
	}
	prevECMP := map[int]uint{}
	prevBest := map[int]uint32{}
	for i, o := range h.Ops {
		step = i
		switch o.K {
		case "add":
			lr.AddPath(pfxs[o.Pfx], h.Cands[o.Pfx][o.Path].Build())
		case "remove":
			lr.RemovePath(pfxs[o.Pfx], h.Cands[o.Pfx][o.Path].Build())
		case "replace":
			lr.ReplacePath(pfxs[o.Pfx], h.Cands[o.Pfx][o.Old].Build(), h.Cands[o.Pfx][o.Path].Build())
		case "register":
			c := cs[o.Client]
			if !c.registered {
				c.rec = tbl.NewRecorder(fmt.Sprint(o.Client))
				lr.RegisterWithOptions(c.rec, h.Clients[o.Client].bio())
				c.registered = true
			}
		case "unregister":
			c := cs[o.Client]
			if c.registered {
				lr.Unregister(c.rec)
				c.registered = false
				c.unregAt = c.rec.Len()
			}
		case "refresh":
			c := cs[o.Client]
			if c.registered {
				from := c.rec.Len()
				lr.RefreshClient(c.rec)
				// exactly the admitted list per stored prefix
				seen := map[string][]uint32{}
				for _, e := range c.rec.Events(from) {
					if e.Kind == "refresh" {
						seen[e.Pfx] = e.IDs
					} else {
						viol("refresh-side-effect", vf.F("option", h.Clients[o.Client].String(), "kind", e.Kind), fmt.Sprintf("step %d: RefreshClient delivered a %s callback", i, e.Kind))
					}
				}
				for _, p := range pfxs {
					want := expected(lr, p, h.Clients[o.Client])
					got, ok := seen[p.String()]
					if lr.Get(p) == nil {
						if ok && len(got) > 0 {
							viol("refresh-mismatch", vf.F("option", h.Clients[o.Client].String()), fmt.Sprintf("step %d: refresh for %s which is not stored: %v", i, p, got))
						}
						continue
					}
					if !ok || !eq(got, want) {
						viol("refresh-mismatch", vf.F("option", h.Clients[o.Client].String()), fmt.Sprintf("step %d: RefreshClient delivered %v for %s (delivered=%v), admitted selection is %v", i, got, p, ok, want))
					}
					evals++
				}
			}
		}
		// bookkeeping for evidence
		if o.K == "add" || o.K == "remove" || o.K == "replace" {
			if rt := lr.Get(pfxs[o.Pfx]); rt != nil {
				e := rt.ECMPPathCount()
				if e > prevECMP[o.Pfx] && prevECMP[o.Pfx] > 0 {
					st.ecmpGrow++
				}
				if e < prevECMP[o.Pfx] && e > 0 {
					st.ecmpShrink++
				}
				prevECMP[o.Pfx] = e
				b := tbl.IDOf(rt.BestPath())
				if prevBest[o.Pfx] != 0 && b != prevBest[o.Pfx] {
					st.bestChanges++
				}
				prevBest[o.Pfx] = b
				if len(rt.Paths()) > 2 {
					st.truncated++
				}
			} else {
				prevECMP[o.Pfx], prevBest[o.Pfx] = 0, 0
			}
		}
		evals += compareAll(lr, cs, h.Clients, "sequential", o.K, i, viol)
		// nothing after unregister
		for ci, c := range cs {
			if !c.registered && c.rec.Len() > c.unregAt && c.unregAt > 0 {
				ev := c.rec.Events(c.unregAt)
				viol("callback-after-unregister", vf.F("option", h.Clients[ci].String(), "kind", ev[0].Kind), fmt.Sprintf("step %d (%s): client %d received %s %s #%d after Unregister returned", i, o.K, ci, ev[0].Kind, ev[0].Pfx, ev[0].ID))
				c.unregAt = c.rec.Len()
			}
		}
	}
	for _, c := range cs {
		for _, e := range c.rec.Events(0) {
			st.callbacks[e.Kind]++
		}
		st.dups += c.rec.Dups()
	}
	return evals
}

// runConc: the op list is split round-robin over Workers mutator goroutines (table ops) plus one registrar goroutine
// (client ops); comparison happens after all of them returned.
func runConc(h hist, st *stats, viol func(string, map[string]string, string)) int {
	lr := locRIB.New("c04c")
	cs := make([]*cstate, len(h.Clients))
	for i := range cs {
		cs[i] = &cstate{rec: tbl.NewRecorder(fmt.Sprint(i))}
	}
	var wg sync.WaitGroup
	var panics sync.Map
	var mut, reg []op
	for _, o := range h.Ops {
		switch o.K {
		case "add", "remove", "replace":
			mut = append(mut, o)
		default:
			reg = append(reg, o)
		}
	}
	for w := 0; w < h.Workers; w++ {
		wg.Add(1)
		go func(w int) {
			defer wg.Done()
			defer func() {
				if p := recover(); p != nil {
					panics.Store(w, fmt.Sprint(p))
				}
			}()
			for i := 0; i < len(mut); i++ {
				o := mut[i]
				if o.Path%h.Workers != w {
					continue
				}
				switch o.K {
				case "add":
					lr.AddPath(pfxs[o.Pfx], h.Cands[o.Pfx][o.Path].Build())
				case "remove":
					lr.RemovePath(pfxs[o.Pfx], h.Cands[o.Pfx][o.Path].Build())
				case "replace":
					lr.ReplacePath(pfxs[o.Pfx], h.Cands[o.Pfx][o.Old].Build(), h.Cands[o.Pfx][o.Path].Build())
				}
				if i%3 == 0 {
					runtime.Gosched()
				}
			}
		}(w)
	}
	wg.Add(1)
	go func() {
		defer wg.Done()
		defer func() {
			if p := recover(); p != nil {
				panics.Store(-1, fmt.Sprint(p))
			}
		}()
		for _, o := range reg {
			c := cs[o.Client]
			switch o.K {
			case "register":
				if !c.registered {
					c.rec = tbl.NewRecorder(fmt.Sprint(o.Client))
					lr.RegisterWithOptions(c.rec, h.Clients[o.Client].bio())
					c.registered = true
				}
			case "unregister":
				if c.registered {
					lr.Unregister(c.rec)
					c.registered = false
				}
			case "refresh":
				if c.registered {
					lr.RefreshClient(c.rec)
				}
			}
			runtime.Gosched()
		}
	}()
	wg.Wait()
	panics.Range(func(k, v any) bool {
		viol("panic", vf.F("phase", "concurrent"), fmt.Sprintf("goroutine %v panicked: %v", k, v))
		return true
	})
	// quiescent: mark lengths, compare, then one more mutation to see that unregistered clients stay silent
	lens := make([]int, len(cs))
	for i, c := range cs {
		lens[i] = c.rec.Len()
	}
	n := compareAll(lr, cs, h.Clients, "concurrent", "quiesce", len(h.Ops), viol)
	lr.AddPath(pfxs[0], tbl.PathSpec{ID: 9999, LP: 999, ASPath: []tbl.Seg{{ASNs: []uint32{1}}}, Source: 1, NextHop: 1}.Build())
	for i, c := range cs {
		if !c.registered && c.rec.Len() > lens[i] {
			viol("callback-after-unregister", vf.F("option", h.Clients[i].String(), "kind", "concurrent"), fmt.Sprintf("client %d received a callback after it was unregistered and the table had quiesced", i))
		}
	}
	n += compareAll(lr, cs, h.Clients, "concurrent", "post-quiesce-add", len(h.Ops)+1, viol)
	for _, c := range cs {
		for _, e := range c.rec.Events(0) {
			st.callbacks[e.Kind]++
		}
		st.dups += c.rec.Dups()
	}
	return n
}

func main() {
	vf.Main("C04", "exploration", func(r *vf.Run) {
		r.Rule("PRNG histories of ~80 operations (add/remove/replace of 3-6 candidate paths on 6 prefixes; register/unregister/refresh of 3-6 clients with options best, ECMP, max-paths 1-4) against a real Loc-RIB; after EVERY operation each registered client's held set is compared per prefix with the first paths of LocRIB.Get(pfx) its option admits; RefreshClient must deliver exactly that list; an unregistered client must see no further callback. Concurrent rounds: the same operation mix split over 4 mutator goroutines and a registrar goroutine, compared once all returned. distinct_nontrivial = histories in which a best-path change, an ECMP growth and an ECMP shrink were all observed"+risRule)
		r.Assume("held paths are compared as a set per prefix (duplicate deliveries are counted, not judged)", "expected selection is read from the Loc-RIB itself (C02/C03 judge the selection)")
		mk := func(h hist) func(string, map[string]string, string) {
			return func(clause string, f map[string]string, detail string) {
				r.Violate(vf.Violation{Clause: clause, Features: f, Detail: detail, Case: h})
			}
		}
		r.NonDeterministic("panic")
		if raw, ok := r.Replaying(); ok {
			var k struct {
				Kind string `json:"kind"`
			}
			if json.Unmarshal(raw, &k) == nil && k.Kind == risKind {
				var c risCase
				vf.Decode(raw, &c)
				runRIS(c, func(clause string, f map[string]string, detail string) {
					r.Violate(vf.Violation{Clause: clause, Features: f, Detail: detail, Case: c})
				})
				return
			}
			var h hist
			vf.Decode(raw, &h)
			st := &stats{callbacks: map[string]int{}}
			if h.Workers > 0 {
				for i := 0; i < 200 && r.Violations() == 0; i++ {
					runConc(h, st, mk(h))
				}
			} else {
				runSeq(h, st, mk(h))
			}
			return
		}
		var mu sync.Mutex
		cb := map[string]int{}
		agg := stats{}
		nseq := r.N(3000, 100000)
		vf.Parallel(nseq, runtime.NumCPU(), func(i int) {
			rng := r.RandN("seq", i)
			h := genHist(rng, 70+rng.IntN(41), 0)
			st := &stats{callbacks: map[string]int{}}
			n := runSeq(h, st, mk(h))
			r.Eval(n)
			mu.Lock()
			for k, v := range st.callbacks {
				cb[k] += v
			}
			agg.dups += st.dups
			agg.ecmpGrow += st.ecmpGrow
			agg.ecmpShrink += st.ecmpShrink
			agg.bestChanges += st.bestChanges
			agg.truncated += st.truncated
			mu.Unlock()
			if st.bestChanges > 0 && st.ecmpGrow > 0 && st.ecmpShrink > 0 {
				r.Nontrivial(fmt.Sprintf("seq/%d", i))
			}
			if i < 2 {
				r.Sample(map[string]any{"clients": fmt.Sprint(h.Clients), "first_ops": h.Ops[:12], "n_ops": len(h.Ops)})
			}
		})
		r.Count("sequential_histories", nseq)
		nconc := r.N(300, 10000)
		for _, procs := range []int{2, 4, 16} {
			old := runtime.GOMAXPROCS(procs)
			vf.Parallel(nconc/3, 4, func(i int) {
				rng := r.RandN(fmt.Sprintf("conc%d", procs), i)
				h := genHist(rng, 200+rng.IntN(100), 4)
				st := &stats{callbacks: map[string]int{}}
				n := runConc(h, st, mk(h))
				r.Eval(n)
				mu.Lock()
				for k, v := range st.callbacks {
					cb[k] += v
				}
				agg.dups += st.dups
				mu.Unlock()
			})
			runtime.GOMAXPROCS(old)
		}
		r.Count("concurrent_rounds", nconc/3*3)
		keys := make([]string, 0, len(cb))
		for k := range cb {
			keys = append(keys, k)
		}
		sort.Strings(keys)
		r.Set("callbacks_by_kind", cb)
		r.Set("duplicate_deliveries", agg.dups)
		r.Set("ecmp_growth_events", agg.ecmpGrow)
		r.Set("ecmp_shrink_events", agg.ecmpShrink)
		r.Set("best_path_changes", agg.bestChanges)
		r.Set("steps_with_more_than_two_paths", agg.truncated)
		total := 0
		for _, v := range cb {
			total += v
		}
		r.Count("callbacks", total)
		r.Require("callbacks", 10000)
		risPhase(r)
	})
}
