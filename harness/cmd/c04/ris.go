// C04, RIS observer phase: the Loc-RIB client the RIS server registers for an ObserveRIB call (cmd/ris/risserver:
// ribClient + update queue + stream sender) is judged like every other client, at the far end of what it does with
// the callbacks: the net effect of the RIBUpdate messages handed to the stream (advertisements minus withdrawals,
// identified by the harness' id community) must equal, per prefix, the Loc-RIB's selection the client's option
// (max-paths 100) admits. The stream consumer is slow: Send only returns when the harness hands out a token, so that
// updates pile up in the queue while the Loc-RIB goes on changing.
package main

import (
	"context"
	"fmt"
	"math/rand/v2"
	"net"
	"runtime"
	"sort"
	"sync"
	"time"

	pb "github.com/bio-routing/bio-rd/cmd/ris/api"
	"github.com/bio-routing/bio-rd/cmd/ris/risserver"
	bnet "github.com/bio-routing/bio-rd/net"
	"github.com/bio-routing/bio-rd/protocols/bgp/server"
	"github.com/bio-routing/bio-rd/route"
	"github.com/bio-routing/bio-rd/routingtable/vrf"
	"google.golang.org/grpc/metadata"

	"verifharness/internal/tbl"
	"verifharness/internal/vf"
)

const risKind = "ris-observer"

type risCase struct {
	Kind string `json:"kind"`
	H    hist   `json:"h"`
	// Tokens[i]: how many Send calls the consumer completes before operation i is issued (the rest stay queued)
	Tokens []int `json:"tokens"`
}

type fakeRouter struct{ v *vrf.VRF }

func (f *fakeRouter) Name() string                       { return "r1" }
func (f *fakeRouter) Address() net.IP                    { return net.IPv4(192, 0, 2, 1) }
func (f *fakeRouter) GetVRF(uint64) *vrf.VRF             { return f.v }
func (f *fakeRouter) GetVRFs() []*vrf.VRF                { return []*vrf.VRF{f.v} }
func (f *fakeRouter) Ready(uint64, uint16) (bool, error) { return true, nil }

type fakeReceiver struct{ r *fakeRouter }

func (f *fakeReceiver) GetRouter(string) server.RouterInterface { return f.r }
func (f *fakeReceiver) GetRouters() []server.RouterInterface    { return []server.RouterInterface{f.r} }

// gatedStream is the server side of the ObserveRIB stream: Send records the update and then waits for a token.
type gatedStream struct {
	ctx    context.Context
	mu     sync.Mutex
	held   map[string]map[uint32]int // prefix -> id -> advertised count
	sent   int
	marker chan struct{}
	once   sync.Once
	tokens chan struct{}
	open   bool // true: no more tokens needed
	dups   int
}

func (g *gatedStream) SetHeader(metadata.MD) error  { return nil }
func (g *gatedStream) SendHeader(metadata.MD) error { return nil }
func (g *gatedStream) SetTrailer(metadata.MD)       {}
func (g *gatedStream) Context() context.Context     { return g.ctx }
func (g *gatedStream) SendMsg(any) error            { return nil }
func (g *gatedStream) RecvMsg(any) error            { return nil }

var markerPfx = bnet.NewPfx(bnet.IPv4(0xc6336400), 24).Ptr()

func (g *gatedStream) Send(u *pb.RIBUpdate) error {
	if u.Route != nil && len(u.Route.Paths) > 0 {
		rt := route.RouteFromProtoRoute(u.Route, false)
		key := rt.Prefix().String()
		g.mu.Lock()
		for _, p := range rt.Paths() {
			id := tbl.IDOf(p)
			if g.held[key] == nil {
				g.held[key] = map[uint32]int{}
			}
			if u.Advertisement {
				if g.held[key][id] > 0 {
					g.dups++
				}
				g.held[key][id] = 1
			} else {
				delete(g.held[key], id)
			}
		}
		g.sent++
		isMarker := key == markerPfx.String()
		open := g.open
		g.mu.Unlock()
		if isMarker {
			g.once.Do(func() { close(g.marker) })
			return nil
		}
		if open {
			return nil
		}
	}
	select {
	case <-g.tokens:
	case <-g.ctx.Done():
		return g.ctx.Err()
	}
	return nil
}

func genRISCase(rng *rand.Rand) risCase {
	h := genHist(rng, 50+rng.IntN(40), 0)
	c := risCase{Kind: risKind}
	// only what changes the table: the observer is the one client
	for _, o := range h.Ops {
		if o.K == "add" || o.K == "remove" || o.K == "replace" {
			c.H.Ops = append(c.H.Ops, o)
		}
	}
	c.H.Cands, c.H.Twins = h.Cands, h.Twins
	slow := rng.IntN(3) // 0: keeps up mostly, 1: lags, 2: stalls for long stretches
	for range c.H.Ops {
		t := 0
		switch slow {
		case 0:
			t = rng.IntN(4)
		case 1:
			t = rng.IntN(2)
		default:
			if rng.IntN(8) == 0 {
				t = rng.IntN(12)
			}
		}
		c.Tokens = append(c.Tokens, t)
	}
	return c
}

type risStats struct {
	updates, queuedMax, dups int
}

func runRIS(c risCase, viol func(string, map[string]string, string)) (evals int, st risStats, inconclusive string) {
	defer func() {
		if p := recover(); p != nil {
			buf := make([]byte, 3000)
			buf = buf[:runtime.Stack(buf, false)]
			viol("panic", vf.F("phase", "ris-observer"), fmt.Sprintf("panic: %v\n%s", p, buf))
		}
	}()
	v := vrf.NewUntrackedVRF("c04", 0)
	lr, err := v.CreateIPv4UnicastLocRIB("inet.0")
	if err != nil {
		return 0, st, "cannot create the Loc-RIB: " + err.Error()
	}
	srv := risserver.NewServer(&fakeReceiver{&fakeRouter{v}})
	ctx, cancel := context.WithCancel(context.Background())
	defer cancel()
	g := &gatedStream{ctx: ctx, held: map[string]map[uint32]int{}, marker: make(chan struct{}), tokens: make(chan struct{}, 1<<16)}
	done := make(chan error, 1)
	go func() {
		done <- srv.ObserveRIB(&pb.ObserveRIBRequest{Router: "r1", VrfId: 0, Afisafi: pb.ObserveRIBRequest_IPv4Unicast, AllowUnreadyRib: true}, g)
	}()
	// the observer is registered once the Loc-RIB has a client
	for i := 0; lr.ClientCount() == 0; i++ {
		if i > 5000 {
			return 0, st, "ObserveRIB did not register its client within 5 s"
		}
		select {
		case e := <-done:
			return 0, st, fmt.Sprintf("ObserveRIB returned at once: %v", e)
		default:
		}
		time.Sleep(time.Millisecond)
	}

	for i, o := range c.H.Ops {
		for k := 0; k < c.Tokens[i]; k++ {
			g.tokens <- struct{}{}

		}
		if c.Tokens[i] > 0 {
			runtime.Gosched()
		}
		switch o.K {
		case "add":
			lr.AddPath(pfxs[o.Pfx], c.H.Cands[o.Pfx][o.Path].Build())
		case "remove":
			lr.RemovePath(pfxs[o.Pfx], c.H.Cands[o.Pfx][o.Path].Build())
		case "replace":
			lr.ReplacePath(pfxs[o.Pfx], c.H.Cands[o.Pfx][o.Old].Build(), c.H.Cands[o.Pfx][o.Path].Build())
		}
	}
	// quiescence: everything queued before the marker route is delivered before it (the queue is first in, first out)
	g.mu.Lock()
	g.open = true
	g.mu.Unlock()
	for k := 0; k < 4; k++ {
		g.tokens <- struct{}{}
	}
	lr.AddPath(markerPfx, tbl.PathSpec{ID: 9999, LP: 100, Source: 0x0a0a0a0a, NextHop: 0x0b000001, BGPID: 1}.Build())
	select {
	case <-g.marker:
	case e := <-done:
		viol("observer-ended", vf.F("phase", "ris-observer"), fmt.Sprintf("ObserveRIB returned while the Loc-RIB was being observed: %v", e))
		return 0, st, ""
	case <-time.After(20 * time.Second):
		return 0, st, "the marker route did not reach the stream within 20 s"
	}
	g.mu.Lock()
	defer g.mu.Unlock()
	st.updates, st.dups = g.sent, g.dups
	opt := clientOpt{Max: 100}
	for _, p := range pfxs {
		want := expected(lr, p, opt)
		var got []uint32
		for id := range g.held[p.String()] {
			got = append(got, id)
		}
		sort.Slice(got, func(a, b int) bool { return got[a] < got[b] })
		evals++
		if !eq(got, want) {
			var all []uint32
			if rt := lr.Get(p); rt != nil {
				all = tbl.IDs(rt.Paths())
			}
			viol("observer-set-mismatch", vf.F("phase", "ris-observer", "after", "history"), fmt.Sprintf("after %d operations and %d RIBUpdate messages the observer's stream adds up to %v for %s, the Loc-RIB's selection (max-paths 100) is %v (all paths in order: %v)", len(c.H.Ops), g.sent, got, p, want, all))
		}
	}
	return evals, st, ""
}

const risRule = " || RIS observer phase: the same add/remove/replace histories against a Loc-RIB observed through the real RIS server (risserver.Server.ObserveRIB on a fake BMP receiver whose VRF holds the Loc-RIB): the stream's Send returns only when the harness hands out a token (0-11 per operation, three consumer speeds), so updates queue up behind a slow consumer while the table changes; after a marker route has come through, advertisements minus withdrawals of the whole stream are compared per prefix with the selection max-paths 100 admits"

func risPhase(r *vf.Run) {
	n := r.N(400, 12000)
	var mu sync.Mutex
	vf.Parallel(n, runtime.NumCPU(), func(i int) {
		rng := r.RandN("ris", i)
		c := genRISCase(rng)
		ev, st, inc := runRIS(c, func(clause string, f map[string]string, detail string) {
			r.Violate(vf.Violation{Clause: clause, Features: f, Detail: detail, Case: c})
		})
		mu.Lock()
		defer mu.Unlock()
		if inc != "" {
			r.Count("ris_histories_inconclusive", 1)
			return
		}
		r.Eval(ev)
		r.Count("ris_histories", 1)
		r.Count("ris_updates_streamed", st.updates)
		if i < 1 {
			r.Sample(map[string]any{"phase": "ris-observer", "operations": len(c.H.Ops), "updates_streamed": st.updates, "tokens_first_ops": c.Tokens[:min(10, len(c.Tokens))]})
		}
	})
	r.Require("ris_histories", int64(n*9/10))
}
