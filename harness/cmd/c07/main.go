// C07: leaving Established withdraws everything the session contributed.
//
// Restated as a safety property: WHENEVER the session is observed to have left Established (hook
// state ≠ established, or bio-rd closed the connection — every exit handler closes after it cleaned
// up), then at that point
//
//	routes-remain          no Loc-RIB path (IPv4, IPv6) has this peer as source
//	rib-out-registered     LocRIB.ClientCount() is back to its value before the session
//	contributing-asn       vrf.IsContributingASN(local AS) is false (no other session holds it)
//	contributing-cluster   vrf.IsContributingClusterID(cluster id) is false (RR client sessions)
//
// and after connecting again and re-establishing
//
//	reestablish            the session can be established again
//	rib-in-not-empty       the new Adj-RIB-In is empty before the first UPDATE
//	stale-routes-return    still no Loc-RIB path from the peer before the first UPDATE
//	not-readvertised       every exportable Loc-RIB route (the seeded static routes) is announced again
//	rib-out-differs        the new Adj-RIB-Out holds exactly the exportable routes
//
// Exit causes: NOTIFICATION from the peer, hold-timer expiry (4 s, real), keepalive send failure
// (write fault), malformed UPDATE (several kinds), bad header marker, unknown message type,
// unexpected OPEN, DisposePeer, ManualStop / AutomaticStop / Cease through the event hook, and
// peer-gone: the remote side vanishes (no more input, bio-rd's writes start failing after k more writes),
// so that the hold timer or the keepalive timer notices and the NOTIFICATION / KEEPALIVE cannot be written.
//
// A part of the cases runs a second, silent session (the "other" session) of another peer in the same
// VRF, with the same or a different local AS / cluster id, established before or after the observed one.
// Then additionally, at the same points,
//
//	other-session-contribution   the other session is still Established and its local AS / cluster id still
//	                             contributes (what a leaving session withdraws is ITS contribution)
//
// and the Loc-RIB client count is compared with the count that includes the other session's Adj-RIB-Out.
//
// Third block of cases: (a) before the session leaves, prefixes it had announced are announced AGAIN with a path
// the eligibility rules hide (local AS in the AS_PATH, own ORIGINATOR_ID, own cluster id in the CLUSTER_LIST): the
// Adj-RIB-In then only holds the hidden path, and the route learned first must be gone from the Loc-RIB after the
// exit like every other one; (b) IPv6 is configured on bio-rd's side but the neighbour's OPEN offers no
// multiprotocol capability for it (configured, not negotiated): whatever bio-rd attached for that family at
// Established must be detached at the exit as well.
package main

import (
	"encoding/binary"
	"encoding/json"
	"fmt"
	"sort"
	"strings"
	"time"

	bnet "github.com/bio-routing/bio-rd/net"
	"github.com/bio-routing/bio-rd/protocols/bgp/server"

	"verifharness/internal/batch"
	"verifharness/internal/gen"
	"verifharness/internal/sessgen"
	"verifharness/internal/speaker"
	"verifharness/internal/vf"
	"verifharness/internal/wire"
)

type ccase struct {
	Cfg     sessgen.Cfg       `json:"cfg"`
	Cause   string            `json:"cause"`
	Updates []sessgen.UpdSpec `json:"updates"`
	Twice   bool              `json:"twice,omitempty"` // tear the second session down the same way and establish a third time
	// WritesOK (cause peer-gone): bio-rd's writes on the connection fail after this many more writes
	WritesOK int `json:"writes_ok,omitempty"`
	// Other: a second session of another peer in the same VRF
	Other *otherSpec `json:"other,omitempty"`
	// Hide: the last UPDATEs announce already learned prefixes again with a path that is ineligible for this reason
	// (as-loop | originator-id | cluster-loop); "" none
	Hide string `json:"hide,omitempty"`
}

// routerID is bio-rd's router id in every case (also the cluster id of its route reflector client sessions).
const routerID = 0x0a000001

// otherSpec describes the second session: an iBGP peer of bio-rd under its own local AS.
type otherSpec struct {
	LocalAS   uint32 `json:"local_as"`
	RRClient  bool   `json:"rr_client,omitempty"`
	ClusterID uint32 `json:"cluster_id,omitempty"` // 0: bio-rd's router id (what the observed RR client session uses)
	First     bool   `json:"first,omitempty"`      // established (and so registered) before the observed session
}

func (o *otherSpec) label(victimRR bool) string {
	if o == nil {
		return "none"
	}
	what := "other-as"
	if o.LocalAS == sessgen.LocalAS {
		what = "same-as"
	}
	if o.RRClient && victimRR {
		if o.ClusterID == 0 {
			what += "+same-cluster"
		} else {
			what += "+other-cluster"
		}
	}
	if o.First {
		return what + ",registered-earlier"
	}
	return what + ",registered-later"
}

var causes = []string{
	"notification", "hold-timer", "keepalive-send-failure",
	"malformed-update:length-sum", "malformed-update:as-path-segment", "malformed-update:truncated", "malformed-update:mp-reach",
	"bad-marker", "unknown-type", "bad-notification", "unexpected-open",
	"dispose-peer", "manual-stop", "automatic-stop", "cease", "peer-gone",
}

var (
	seedV4 = bnet.NewPfx(bnet.IPv4FromOctets(10, 77, 0, 0), 16)
	seedV6 = bnet.NewPfx(bnet.IPv6(0x20010db800770000, 0), 48)
)

// hostile builds the message that makes the session leave Established for the malformed-* causes.
func hostile(cause string, o wire.Options) []byte {
	pa := &wire.PathAttrs{Origin: wire.U8(0), HasASPath: true, ASPath: []wire.Segment{{Type: wire.SegSequence, ASNs: []uint32{65001}}}, NextHop: []byte{198, 18, 9, 9}}
	u := &wire.Update{Attrs: pa.Build(o), NLRI: []wire.NLRI{wire.V4(10, 99, 0, 0, 16)}}
	switch cause {
	case "malformed-update:length-sum":
		b := u.EncodeBody(o)
		al := binary.BigEndian.Uint16(b[2:])
		binary.BigEndian.PutUint16(b[2:], al+4000) // total path attribute length far beyond the message
		return wire.Frame(wire.TypeUpdate, b)
	case "malformed-update:as-path-segment":
		for i := range u.Attrs {
			if u.Attrs[i].Type == wire.AttrASPath {
				u.Attrs[i].Value[0] = 9 // segment type 9
			}
		}
		return wire.Frame(wire.TypeUpdate, u.EncodeBody(o))
	case "malformed-update:truncated":
		b := u.EncodeBody(o)
		return wire.Frame(wire.TypeUpdate, b[:len(b)-len(wire.EncodeNLRIs(u.NLRI, o.AddPathIPv4))-2]) // cut inside the last attribute
	case "malformed-update:mp-reach":
		pa.MPReach = &wire.MPReach{Family: wire.IPv6Unicast, NextHop: []byte{1, 2, 3}, NLRI: []wire.NLRI{wire.V6(0x20010db8aaaa0000, 0, 48)}} // next hop of 3 bytes
		u.Attrs = pa.Build(o)
		return wire.Frame(wire.TypeUpdate, u.EncodeBody(o))
	case "bad-marker":
		m := wire.Keepalive()
		m[3] = 0
		return m
	case "unknown-type":
		return wire.Frame(9, nil)
	case "bad-notification":
		// a NOTIFICATION whose error code does not exist: a message that does not decode, without an RFC error of its own
		return wire.Frame(wire.TypeNotification, []byte{9, 7})
	}
	return nil
}

func genUpdates(cfg sessgen.Cfg, n int, idx int, hide string) []sessgen.UpdSpec {
	// deterministic, small: two or three UPDATEs with unique next hops; IPv6 through MP_REACH when configured
	var out []sessgen.UpdSpec
	mk := func(nh uint32) sessgen.AttrSpec {
		a := sessgen.AttrSpec{Origin: 0, NH: nh, Comm: []uint32{0xfde80000 | nh}}
		if cfg.EBGP {
			a.Seq = []uint32{cfg.PeerAS(), 64600 + nh}
		} else {
			a.Seq = []uint32{64600 + nh}
			lp := uint32(200 + nh)
			a.LP = &lp
		}
		return a
	}
	p4 := func(a, b, c byte, l uint8) sessgen.NL {
		return sessgen.NL{P: gen.P{V4: true, Hi: uint64(uint32(a)<<24|uint32(b)<<16|uint32(c)<<8) << 32, Len: l}}
	}
	u1 := sessgen.UpdSpec{Ann: []sessgen.NL{p4(172, 20, byte(idx), 24), p4(172, 21, 0, 16), p4(172, 22, 128, 17)}, Attr: mk(1)}
	out = append(out, u1)
	if cfg.V4MP {
		out = append(out, sessgen.UpdSpec{MPR: []sessgen.NL{p4(172, 23, 0, 16)}, MPRv4: true, Attr: mk(2)})
	}
	if cfg.NegV6() {
		out = append(out, sessgen.UpdSpec{MPR: []sessgen.NL{
			{P: gen.P{Hi: 0x20010db800a00000, Len: 44}}, {P: gen.P{Hi: 0x20010db800b00000 | uint64(idx), Len: 64}}}, Attr: mk(3)})
	}
	if n > len(out) {
		out = append(out, sessgen.UpdSpec{Ann: []sessgen.NL{p4(172, 24, 0, 16)}, Wd: []sessgen.NL{p4(172, 22, 128, 17)}, Attr: mk(4)})
	}
	if hide != "" {
		// the same prefixes once more, now with a path bio-rd must not use: the implicit replacement leaves only the
		// hidden path in the Adj-RIB-In
		bad := func(nh uint32) sessgen.AttrSpec {
			a := mk(nh)
			switch hide {
			case "as-loop":
				a.Seq = append(a.Seq, sessgen.LocalAS, 64700+nh)
			case "originator-id":
				o := uint32(routerID)
				a.OrigID, a.Cluster = &o, []uint32{0x05050505}
			case "cluster-loop":
				o := uint32(0x09090909)
				a.OrigID, a.Cluster = &o, []uint32{0x05050505, routerID, 0x06060606}
			}
			return a
		}
		out = append(out, sessgen.UpdSpec{Ann: []sessgen.NL{p4(172, 21, 0, 16), p4(172, 20, byte(idx), 24)}, Attr: bad(5)})
		if cfg.NegV6() {
			out = append(out, sessgen.UpdSpec{MPR: []sessgen.NL{{P: gen.P{Hi: 0x20010db800a00000, Len: 44}}}, Attr: bad(6)})
		}
	}
	return out
}

// hideReasons lists the ineligibility reasons that apply to a session kind (the local AS always contributes; the
// router id is what ORIGINATOR_ID is compared with on internal sessions; bio-rd's cluster id only contributes while a
// route reflector client session is up).
func hideReasons(kind string) []string {
	switch kind {
	case "ebgp":
		return []string{"as-loop"}
	case "rr-client":
		return []string{"cluster-loop", "as-loop", "originator-id"}
	}
	return []string{"originator-id", "as-loop"}
}

// exitPath names the handler of establishedState a cause ends in.
func exitPath(cause string) string {
	switch {
	case strings.HasPrefix(cause, "malformed-update:"), cause == "bad-marker", cause == "unknown-type", cause == "bad-notification":
		return "decode-error"
	case cause == "dispose-peer":
		return "manual-stop"
	case cause == "unexpected-open":
		return "unexpected-message"
	}
	return cause
}

type probe struct {
	res   *batch.Result
	feat  func() map[string]string
	where string
}

func (p *probe) add(clause, format string, args ...any) {
	p.res.Add(clause, p.feat(), p.where+": "+format, args...)
}

func fromPeer(srv *speaker.Server, addr *bnet.IP) []speaker.PathView {
	var out []speaker.PathView
	for _, v4 := range []bool{true, false} {
		out = append(out, speaker.FromSource(speaker.Views(srv.Dump(v4)), addr)...)
	}
	return out
}

func viewList(vs []speaker.PathView) string {
	var s []string
	for i, v := range vs {
		if i == 5 {
			s = append(s, fmt.Sprintf("… %d more", len(vs)-5))
			break
		}
		s = append(s, v.String())
	}
	return strings.Join(s, "; ")
}

// leave makes session s leave Established by the given cause and waits for the synchronisation point.
// It returns a description of what was observed, or an error text when the session did not leave.
func leave(srv *speaker.Server, p *speaker.Peer, s *speaker.Session, c ccase) (how string, inconcl string) {
	cause := c.Cause
	budget := 5 * time.Second
	switch cause {
	case "peer-gone":
		// bio-rd's keepalive interval is a third of the hold time, so a hold timer that starts at the beginning
		// of the session expires just when a KEEPALIVE is due. The peer's last message is therefore placed
		// half an interval behind one of bio-rd's KEEPALIVEs: from there bio-rd writes three more KEEPALIVEs,
		// and its fourth write is the HoldTimeExpired NOTIFICATION.
		n0 := s.Conn.WriteCount()
		for deadline := time.Now().Add(5 * time.Second); s.Conn.WriteCount() == n0; time.Sleep(time.Millisecond) {
			if time.Now().After(deadline) {
				return "", "bio-rd wrote no KEEPALIVE within 5 s"
			}
		}
		time.Sleep(time.Duration(c.Cfg.Hold) * time.Second / 6)
		s.SendKeepalive()
		if r := s.Sync(); !r.OK() || !s.Established() {
			return "", fmt.Sprintf("a KEEPALIVE ended the session (%v)", r)
		}
		s.Conn.FailWrites(nil, c.WritesOK)
		budget = 20 * time.Second // hold time 3 or 4 s
	case "notification":
		s.SendNotification(6, 2)
	case "hold-timer":
		budget = 20 * time.Second // negotiated hold time 4 s, checked about every other second
	case "keepalive-send-failure":
		s.Conn.FailWrites(nil, 0)
		budget = 10 * time.Second // keepalive timer = 1 s
	case "unexpected-open":
		s.Send(p.DefaultOpen().Encode())
	case "dispose-peer":
		if !p.Dispose(5 * time.Second) {
			return "", "DisposePeer did not return"
		}
	case "manual-stop":
		if err := s.Event(server.ManualStop, 2*time.Second); err != nil {
			return "", err.Error()
		}
	case "automatic-stop":
		if err := s.Event(server.AutomaticStop, 2*time.Second); err != nil {
			return "", err.Error()
		}
	case "cease":
		if err := s.Event(server.Cease, 2*time.Second); err != nil {
			return "", err.Error()
		}
	default:
		m := hostile(cause, s.Neg.SendOpts())
		if m == nil {
			return "", "unknown cause " + cause
		}
		s.Send(m)
	}
	deadline := time.Now().Add(budget)
	for s.Established() {
		if time.Now().After(deadline) {
			return "", fmt.Sprintf("session still established %v after cause %q (bio-rd wrote %v)", budget, cause, s.Notifications())
		}
		time.Sleep(time.Millisecond)
	}
	// barrier: an FSM that went to Idle takes it after its exit handler returned; a ceased FSM and a disposed peer cannot
	barrier := s.Barrier(speaker.CeaseGrace)
	if !barrier && !s.Conn.IsClosed() {
		// neither a published non-established state with a live FSM loop nor a closed connection: wait for the close
		s.Conn.WaitClosed(2 * time.Second)
	}
	var ns []string
	for _, n := range s.Notifications() {
		ns = append(ns, n.String())
	}
	return fmt.Sprintf("state=%q closed=%v barrier=%v notifications=%v refused-writes=%v", s.State(), s.Conn.IsClosed(), barrier, ns, refusedWrites(s)), ""
}

// refusedWrites names the messages bio-rd tried to write while the injected write fault was active.
func refusedWrites(s *speaker.Session) []string {
	var out []string
	for _, d := range s.Conn.FailedWriteData() {
		switch {
		case len(d) < wire.HeaderLen:
			out = append(out, fmt.Sprintf("%d bytes", len(d)))
		case d[18] == wire.TypeNotification && len(d) >= wire.HeaderLen+2:
			out = append(out, fmt.Sprintf("NOTIFICATION %d/%d", d[19], d[20]))
		case d[18] == wire.TypeKeepalive:
			out = append(out, "KEEPALIVE")
		case d[18] == wire.TypeUpdate:
			out = append(out, "UPDATE")
		default:
			out = append(out, fmt.Sprintf("type %d", d[18]))
		}
	}
	return out
}

// observedExit refines the exit path of a peer-gone case from what bio-rd tried to write last.
func observedExit(s *speaker.Session) string {
	rw := refusedWrites(s)
	if len(rw) == 0 {
		return "hold-timer" // every write went through: a plain hold timer expiry
	}
	switch last := rw[len(rw)-1]; {
	case last == "NOTIFICATION 4/0":
		return "hold-timer+notification-write-failure"
	case last == "KEEPALIVE":
		return "keepalive-send-failure"
	default:
		return "write-failure:" + last
	}
}

func runCase(idx int, raw json.RawMessage) (res batch.Result) {
	var c ccase
	if err := json.Unmarshal(raw, &c); err != nil {
		res.Inconcl = "case does not decode: " + err.Error()
		return
	}
	cfg := c.Cfg
	chain := cfg.Import
	if chain == "" {
		chain = "accept"
	}
	fams := "ipv4"
	if cfg.V6 {
		fams = "ipv4+ipv6"
		if cfg.OmitMPv6 {
			fams = "ipv4+ipv6(configured, not negotiated)"
		}
	}
	pr := &probe{res: &res}
	// the feature that pins a defect is the FSM exit path the cause drives; cause, kind and chain are in the detail
	exit := exitPath(c.Cause)
	pr.feat = func() map[string]string {
		f := vf.F("exit", exit)
		if c.Other != nil {
			// the order of registration is in the detail
			l, _, _ := strings.Cut(c.Other.label(cfg.RRClient), ",")
			f["other_session"] = l
		}
		if c.Hide != "" {
			f["reannounced_ineligible"] = c.Hide
		}
		if cfg.V6 && cfg.OmitMPv6 {
			f["ipv6"] = "configured-not-negotiated"
		}
		return f
	}

	srv := speaker.NewServer(speaker.ServerConfig{RouterID: routerID})
	srv.AddStatic(seedV4.Ptr(), bnet.IPv4FromOctets(192, 0, 2, 77))
	if cfg.V6 {
		srv.AddStatic(seedV6.Ptr(), bnet.IPv6(0x20010db800000000, 0x77))
	}
	clients0 := [2]uint64{srv.ClientCount(true), srv.ClientCount(false)}
	pc := cfg.PeerConfig()
	p, err := srv.AddPeer(pc)
	if err != nil {
		res.Inconcl = "AddPeer: " + err.Error()
		return
	}
	clusterID := srv.RouterID
	// ---- the other session ----
	var op *speaker.Peer
	var osess *speaker.Session
	otherUp := func() (err error) {
		if op == nil {
			if op, err = srv.AddPeer(speaker.PeerConfig{LocalAS: c.Other.LocalAS, RRClient: c.Other.RRClient, ClusterID: c.Other.ClusterID, IPv4: &speaker.Family{Import: speaker.Accept()}}); err != nil {
				return err
			}
		}
		for attempt := 0; attempt < 4; attempt++ {
			if osess, err = op.EstablishDefault(); err == nil {
				return nil
			}
			time.Sleep(time.Duration(attempt*attempt) * 25 * time.Millisecond)
		}
		return err
	}
	otherClients := func(v4 bool) uint64 { // what the other session adds to the Loc-RIB client count
		if osess != nil && v4 {
			return 1
		}
		return 0
	}
	otherCluster := func() uint32 {
		if c.Other.ClusterID != 0 {
			return c.Other.ClusterID
		}
		return srv.RouterID
	}
	// checkOther: the other session is untouched by what happened to the observed one
	checkOther := func() {
		if osess == nil {
			return
		}
		if r := osess.Sync(); !r.OK() || !osess.Established() {
			pr.add("other-session-contribution", "the other session (local AS %d) is no longer Established (%v, state %s, NOTIFICATIONs %v)", c.Other.LocalAS, r, osess.State(), osess.Notifications())
			return
		}
		if !srv.VRF.IsContributingASN(c.Other.LocalAS) {
			pr.add("other-session-contribution", "vrf.IsContributingASN(%d) is false although the other session, whose local AS that is, is still Established", c.Other.LocalAS)
		}
		if c.Other.RRClient && !srv.VRF.IsContributingClusterID(otherCluster()) {
			pr.add("other-session-contribution", "vrf.IsContributingClusterID(%#x) is false although the other session, an RR client with that cluster id, is still Established", otherCluster())
		}
		res.Count("other_session_checks", 1)
	}
	if c.Other != nil && c.Other.First {
		if err := otherUp(); err != nil {
			res.Inconcl = "cannot establish the other session: " + err.Error()
			return
		}
	}
	rounds := 1
	if c.Twice {
		rounds = 2
	}
	var s *speaker.Session
	for round := 0; round <= rounds; round++ {
		// ---- (re-)establish ----
		s, err = sessgen.Establish(p, cfg)
		pr.where = fmt.Sprintf("%s/%s/%s/%s round %d", c.Cause, cfg.Kind(), chain, fams, round)
		if c.Other != nil {
			pr.where += " [other session: " + c.Other.label(cfg.RRClient) + "]"
		}
		if err != nil {
			if round == 0 {
				res.Inconcl = "cannot establish: " + err.Error()
			} else {
				pr.add("reestablish", "the session cannot be established again after it left Established: %v", err)
			}
			return
		}
		if round > 0 {
			res.Count("reestablished", 1)
			// before the first UPDATE of the new session
			for _, v4 := range []bool{true, false} {
				if (v4 && !cfg.V4) || (!v4 && !cfg.V6) {
					continue
				}
				in, ok := s.RIBIn(v4)
				if !ok {
					res.Inconcl = "no Adj-RIB-In on the re-established session"
					return
				}
				if vs := speaker.Views(in); len(vs) > 0 {
					pr.add("rib-in-not-empty", "the Adj-RIB-In (v4=%v) of the re-established session holds %d paths before the first UPDATE: %s", v4, len(vs), viewList(vs))
				}
			}
			if vs := fromPeer(srv, p.Addr); len(vs) > 0 {
				pr.add("stale-routes-return", "Loc-RIB holds %d paths from the peer before the first UPDATE of the re-established session: %s", len(vs), viewList(vs))
			}
			// re-advertisement: decoded from the wire (the initial dump is written before Established can be observed)
			ann := map[string]bool{}
			for _, u := range s.Updates() {
				if u.Err != nil {
					pr.add("not-readvertised", "UPDATE of the re-established session does not decode: %v", u.Err)
					continue
				}
				for _, a := range u.U.Announced() {
					ann[speaker.NLRIToP(a.NLRI).String()] = true
				}
			}
			want := []string{gen.FromBio(seedV4.Ptr()).String()}
			if cfg.NegV6() { // a family the neighbour did not offer cannot be advertised to it
				want = append(want, gen.FromBio(seedV6.Ptr()).String())
			}
			for _, w := range want {
				if !ann[w] {
					pr.add("not-readvertised", "the exportable Loc-RIB route %s was not announced on the re-established session (announced: %v)", w, keys(ann))
				}
			}
			for _, v4 := range []bool{true, false} {
				if (v4 && !cfg.V4) || (!v4 && !cfg.V6) {
					continue
				}
				out, ok := s.RIBOut(v4)
				if !ok {
					continue
				}
				var got []string
				for _, v := range speaker.Views(out) {
					got = append(got, v.Pfx.String())
				}
				sort.Strings(got)
				w := gen.FromBio(seedV4.Ptr()).String()
				if !v4 {
					w = gen.FromBio(seedV6.Ptr()).String()
				}
				if len(got) != 1 || got[0] != w {
					pr.add("rib-out-differs", "the Adj-RIB-Out (v4=%v) of the re-established session holds %v, the exportable Loc-RIB routes are [%s]", v4, got, w)
				}
			}
			res.Count("reestablish_checks", 1)
		}
		if round == rounds {
			break
		}
		if c.Other != nil && osess == nil {
			// registered later than the observed session
			if err := otherUp(); err != nil {
				res.Inconcl = "cannot establish the other session: " + err.Error()
				return
			}
		}
		// ---- learn routes ----
		for ui, u := range c.Updates {
			w, _ := u.Build(s.Neg.SendOpts())
			if err := s.SendUpdate(w); err != nil {
				res.Inconcl = fmt.Sprintf("update %d: %v", ui, err)
				return
			}
		}
		if r := s.Sync(); !r.OK() || !s.Established() {
			res.Inconcl = fmt.Sprintf("valid UPDATEs ended the session (%v)", r)
			return
		}
		learned := fromPeer(srv, p.Addr)
		if len(learned) == 0 {
			res.Inconcl = "no route from the peer reached the Loc-RIB: the case decides nothing"
			return
		}
		if !srv.VRF.IsContributingASN(sessgen.LocalAS) || srv.ClientCount(true) != clients0[0]+otherClients(true)+1 {
			res.Inconcl = fmt.Sprintf("established session is not attached as expected (contributing=%v clients=%d)", srv.VRF.IsContributingASN(sessgen.LocalAS), srv.ClientCount(true))
			return
		}
		hiddenNow := 0
		if c.Hide != "" {
			for _, v4 := range []bool{true, false} {
				if in, ok := s.RIBIn(v4); ok {
					for _, v := range speaker.Views(in) {
						if v.Hidden != 0 {
							hiddenNow++
						}
					}
				}
			}
			wantHidden := 2
			if cfg.NegV6() {
				wantHidden = 3
			}
			if hiddenNow != wantHidden {
				res.Inconcl = fmt.Sprintf("the Adj-RIB-In holds %d hidden paths after the %s re-announcements, %d expected: the case does not exercise what it is meant to", hiddenNow, c.Hide, wantHidden)
				return
			}
		}
		rewritten := 0
		for _, v := range learned {
			if strings.Contains(v.Attrs, "64777") || strings.Contains(v.Attrs, "lp=777") {
				rewritten++
			}
		}
		// ---- leave Established ----
		how, inc := leave(srv, p, s, c)
		if inc != "" {
			res.Inconcl = inc
			return
		}
		res.Count("exits", 1)
		res.Count("exit_"+c.Cause, 1)
		if c.Cause == "peer-gone" {
			exit = observedExit(s)
			res.Count("exit_peer-gone_as_"+exit, 1)
			res.Count(fmt.Sprintf("exit_peer-gone_hold%d_writes-ok%d_as_%s", cfg.Hold, c.WritesOK, exit), 1)
		}
		variant := ""
		if c.Hide != "" {
			res.Count("exits_after_hidden_reannouncement", 1)
			res.Count("exits_after_hidden_reannouncement_"+c.Hide, 1)
			res.Count("hidden_paths_in_adj_rib_in_at_exit", hiddenNow)
			variant += "|reannounced-ineligible=" + c.Hide
		}
		if cfg.V6 && cfg.OmitMPv6 {
			res.Count("exits_with_ipv6_configured_not_negotiated", 1)
			variant += "|ipv6-not-negotiated"
		}
		if c.Other != nil {
			res.Count("exits_with_other_session", 1)
			res.Count("exits_with_other_session_"+c.Other.label(cfg.RRClient), 1)
			res.Nontrivial = append(res.Nontrivial, fmt.Sprintf("%s|%s|%s|%s|rewritten=%v|other=%s%s", exit, cfg.Kind(), chain, fams, rewritten > 0, c.Other.label(cfg.RRClient), variant))
		} else {
			res.Nontrivial = append(res.Nontrivial, fmt.Sprintf("%s|%s|%s|%s|rewritten=%v%s", exit, cfg.Kind(), chain, fams, rewritten > 0, variant))
		}
		if c.Hide != "" {
			pr.where += fmt.Sprintf(" [%d learned prefixes re-announced with an ineligible path (%s) before the exit]", hiddenNow, c.Hide)
		}
		pr.where += " after exit (" + how + ")"
		if vs := fromPeer(srv, p.Addr); len(vs) > 0 {
			pr.add("routes-remain", "%d of %d Loc-RIB paths learned from the peer are still there: %s", len(vs), len(learned), viewList(vs))
		}
		for i, v4 := range []bool{true, false} {
			if n := srv.ClientCount(v4); n != clients0[i]+otherClients(v4) {
				// supporting observation: a route from another source still reaches the dead session's sender
				before := s.Conn.LateWrites() + s.Conn.WriteCount()
				srv.AddStatic(bnet.NewPfx(bnet.IPv4FromOctets(10, 88, byte(round), 0), 24).Ptr(), bnet.IPv4FromOctets(192, 0, 2, 88))
				time.Sleep(30 * time.Millisecond)
				srv.RemoveStatic(bnet.NewPfx(bnet.IPv4FromOctets(10, 88, byte(round), 0), 24).Ptr(), bnet.IPv4FromOctets(192, 0, 2, 88))
				after := s.Conn.LateWrites() + s.Conn.WriteCount()
				pr.add("rib-out-registered", "Loc-RIB (v4=%v) has %d clients, %d before the session: the Adj-RIB-Out is still registered (a route injected afterwards caused %d write attempts on the old connection)", v4, n, clients0[i]+otherClients(v4), after-before)
				break
			}
		}
		sharedAS := osess != nil && c.Other.LocalAS == sessgen.LocalAS
		sharedCluster := osess != nil && c.Other.RRClient && otherCluster() == clusterID
		if !sharedAS && srv.VRF.IsContributingASN(sessgen.LocalAS) {
			pr.add("contributing-asn", "vrf.IsContributingASN(%d) is still true and no other session with that local AS exists (other session: %s)", sessgen.LocalAS, c.Other.label(cfg.RRClient))
		}
		if cfg.RRClient && !sharedCluster && srv.VRF.IsContributingClusterID(clusterID) {
			pr.add("contributing-cluster", "vrf.IsContributingClusterID(%#x) is still true and no other session with that cluster id exists (other session: %s)", clusterID, c.Other.label(cfg.RRClient))
		}
		checkOther()
		res.Count("exit_checks", 1)
		if c.Cause == "dispose-peer" {
			// the peer is gone: configure it again for the next round
			p, err = srv.AddPeer(pc)
			if err != nil {
				res.Inconcl = "AddPeer after DisposePeer: " + err.Error()
				return
			}
		}
	}
	// the other session goes (NOTIFICATION from its peer) while the re-established observed session stays:
	// now ITS contribution is the one to be withdrawn, and the observed session's the one to stay
	if osess != nil && s != nil && s.Established() {
		pr.where = fmt.Sprintf("%s/%s/%s/%s after the other session (%s) left Established by NOTIFICATION", c.Cause, cfg.Kind(), chain, fams, c.Other.label(cfg.RRClient))
		exit = "notification"
		osess.SendNotification(6, 2)
		deadline := time.Now().Add(5 * time.Second)
		for osess.Established() && time.Now().Before(deadline) {
			time.Sleep(time.Millisecond)
		}
		osess.Barrier(speaker.CeaseGrace)
		if osess.Established() {
			res.Inconcl = "the other session did not leave Established on a NOTIFICATION"
			return
		}
		if c.Other.LocalAS != sessgen.LocalAS && srv.VRF.IsContributingASN(c.Other.LocalAS) {
			pr.add("contributing-asn", "vrf.IsContributingASN(%d) is still true and no session with that local AS is left", c.Other.LocalAS)
		}
		if c.Other.RRClient && !(cfg.RRClient && otherCluster() == clusterID) && srv.VRF.IsContributingClusterID(otherCluster()) {
			pr.add("contributing-cluster", "vrf.IsContributingClusterID(%#x) is still true and no session with that cluster id is left", otherCluster())
		}
		if r := s.Sync(); !r.OK() || !s.Established() {
			pr.add("other-session-contribution", "the observed session is no longer Established after the other session left (%v, state %s)", r, s.State())
		} else {
			if !srv.VRF.IsContributingASN(sessgen.LocalAS) {
				pr.add("other-session-contribution", "vrf.IsContributingASN(%d) is false although the observed session, whose local AS that is, is Established", sessgen.LocalAS)
			}
			if cfg.RRClient && !srv.VRF.IsContributingClusterID(clusterID) {
				pr.add("other-session-contribution", "vrf.IsContributingClusterID(%#x) is false although the observed RR client session is Established", clusterID)
			}
		}
		res.Count("other_session_exit_checks", 1)
	}
	// leave nothing running
	for _, x := range []*speaker.Session{s, osess} {
		if x != nil && x.Established() {
			x.SendNotification(6, 0)
			x.Conn.WaitClosed(2 * time.Second)
		}
	}
	if idx%40 == 0 {
		res.Sample = map[string]any{"cause": c.Cause, "kind": cfg.Kind(), "chain": chain, "families": fams, "updates": len(c.Updates)}
	}
	return
}

func keys(m map[string]bool) []string {
	var out []string
	for k := range m {
		out = append(out, k)
	}
	sort.Strings(out)
	return out
}

func genCases(r *vf.Run) []any {
	var out []any
	i := 0
	reps := r.N(1, 30)
	for rep := 0; rep < reps; rep++ {
		for _, cause := range causes {
			for _, chain := range []string{"accept", "set-lp", "prepend"} {
				for _, kind := range []string{"ibgp", "ebgp", "rr-client"} {
					for _, v6 := range []bool{false, true} {
						cfg := sessgen.Cfg{EBGP: kind == "ebgp", RRClient: kind == "rr-client", V4: true, V6: v6, V4MP: v6 && (i+rep)%2 == 0, PeerAS4: true, Import: chain}
						switch cause {
						case "hold-timer":
							// not 3: with a keepalive interval of one second (hold time 3) the keepalive timer always
							// wins against the one-second poll that checks the hold timer and the session never expires
							cfg.Hold = 4
						case "keepalive-send-failure":
							cfg.Hold = 3
						}
						cc := ccase{Cfg: cfg, Cause: cause, Twice: (i+rep)%5 == 0}
						if cause == "peer-gone" {
							// hold time 3: the expiry is noticed on the keepalive timer's path; 4: by the periodic check.
							// The 4th write after the peer's last message is the HoldTimeExpired NOTIFICATION (see leave)
							cc.Cfg.Hold = 3 + i%2
							cc.WritesOK = 3
						}
						if rep > 0 {
							rng := r.RandN("c07", i)
							cc.Cfg.RecvV4, cc.Cfg.OfferV4 = rng.IntN(2) == 0, rng.IntN(2) == 0
							cc.Cfg.PeerAS4 = rng.IntN(3) != 0
							if cause == "peer-gone" && rng.IntN(2) == 0 {
								cc.WritesOK = rng.IntN(5) // 0…2: a KEEPALIVE fails first; 4: the NOTIFICATION is still written
							}
							if rng.IntN(3) == 0 {
								hr := hideReasons(kind)
								cc.Hide = hr[rng.IntN(len(hr))]
							}
							cc.Cfg.OmitMPv6 = v6 && rng.IntN(4) == 0
						}
						cc.Updates = genUpdates(cc.Cfg, 3+i%2, i%200, cc.Hide)
						out = append(out, cc)
						i++
					}
				}
			}
		}
		// a second session in the same VRF: same local AS, or another local AS registered later / earlier than
		// the observed session's (RR clients: alternately the same and another cluster id)
		for _, cause := range causes {
			for _, kind := range []string{"ibgp", "ebgp", "rr-client"} {
				for mode := 0; mode < 3; mode++ {
					cfg := sessgen.Cfg{EBGP: kind == "ebgp", RRClient: kind == "rr-client", V4: true, V6: (i+rep)%2 == 0, PeerAS4: true, Import: []string{"accept", "set-lp", "prepend"}[(i+rep)%3]}
					o := &otherSpec{LocalAS: sessgen.LocalAS, First: (i+rep)%2 == 0}
					if mode > 0 {
						o.LocalAS, o.First = 65010+uint32(i%7), mode == 2
					}
					if cfg.RRClient {
						o.RRClient = true
						if (i/3+mode+rep)%2 == 0 {
							o.ClusterID = 0x0b0b0b00 + uint32(1+i%9)
						}
					}
					cc := ccase{Cfg: cfg, Cause: cause, Other: o, Twice: (i+rep)%7 == 0}
					switch cause {
					case "hold-timer":
						cc.Cfg.Hold = 4
					case "keepalive-send-failure":
						cc.Cfg.Hold = 3
					case "peer-gone":
						cc.Cfg.Hold, cc.WritesOK = 3+i%2, 3
					}
					cc.Updates = genUpdates(cc.Cfg, 3+i%2, i%200, "")
					out = append(out, cc)
					i++
				}
			}
		}
		// third block: learned prefixes announced again with an ineligible path before the exit, and IPv6 configured
		// but not offered by the neighbour; every cause × kind once, the two variations alternating so that each
		// cause sees both of them alone and together over the kinds and repetitions
		for ci, cause := range causes {
			for ki, kind := range []string{"ibgp", "ebgp", "rr-client"} {
				hr := hideReasons(kind)
				m := (ci + ki + rep) % 3 // 0: both, 1: re-announcement only (IPv6 negotiated), 2: not negotiated only
				cfg := sessgen.Cfg{EBGP: kind == "ebgp", RRClient: kind == "rr-client", V4: true, V6: m != 1 || (ci+rep)%2 == 0, PeerAS4: true,
					Import: []string{"accept", "set-lp", "prepend"}[(i+rep)%3]}
				cfg.OmitMPv6 = m != 1
				cc := ccase{Cfg: cfg, Cause: cause, Twice: (i+rep)%6 == 0}
				if m != 2 {
					cc.Hide = hr[(ci/3+rep)%len(hr)]
				}
				switch cause {
				case "hold-timer":
					cc.Cfg.Hold = 4
				case "keepalive-send-failure":
					cc.Cfg.Hold = 3
				case "peer-gone":
					cc.Cfg.Hold, cc.WritesOK = 3+i%2, 3
				}
				if rep > 0 {
					rng := r.RandN("c07-third", i)
					cc.Cfg.RecvV4, cc.Cfg.OfferV4 = rng.IntN(2) == 0, rng.IntN(2) == 0
					cc.Cfg.RecvV6, cc.Cfg.OfferV6 = rng.IntN(2) == 0, rng.IntN(2) == 0
				}
				cc.Updates = genUpdates(cc.Cfg, 3+i%2, i%200, cc.Hide)
				out = append(out, cc)
				i++
			}
		}
	}
	return out
}

func main() {
	if batch.IsChild() {
		batch.ChildMain(runCase)
		return
	}
	vf.Main("C07", "exploration", func(r *vf.Run) {
		r.Rule("one session per case: exit cause {" + strings.Join(causes, ", ") + "} × import chain {accept, set LOCAL_PREF, prepend} × {iBGP, eBGP, RR client} × {IPv4, IPv4+IPv6 multiprotocol (every other one with IPv4 multiprotocol too)}; two static routes are seeded in the Loc-RIB; the session learns 3–4 UPDATEs (6–7 routes incl. a withdrawal), leaves Established by the cause, is checked, is established again over a new connection and checked again (every fifth case: torn down and established a third time). Cause peer-gone: the remote side falls silent and bio-rd's writes fail after k more writes (quick: k=3 with hold time 3 and 4 s, which makes the HoldTimeExpired NOTIFICATION the first refused write, on the keepalive timer's path and on the periodic check's path; thorough: k=0…4, so a KEEPALIVE is refused first or nothing is); the exit path really taken is read off the refused writes. Second block: every cause × kind with a second, silent session of another peer in the same VRF — same local AS, or another local AS registered later or earlier than the observed session's; RR clients alternately with the same and another cluster id — checked for being untouched whenever the observed session left, and finally torn down itself while the observed session stays. Third block: every cause × kind once more with (a) two or three of the learned prefixes (IPv4, and IPv6 when negotiated) announced AGAIN right before the exit with a path the eligibility rules hide — the local AS in the AS_PATH (all kinds), bio-rd's router id as ORIGINATOR_ID (internal sessions), its cluster id in the CLUSTER_LIST (RR client sessions) — the case only counts when the Adj-RIB-In then holds exactly these hidden paths, and/or (b) IPv6 unicast configured on bio-rd's side while the neighbour's OPEN carries no multiprotocol capability for it (configured, not negotiated), where every clause (Loc-RIB client counts of both families, contributing AS / cluster id) is judged as before; thorough: a third of the first block's cases re-announce ineligibly and a quarter of its dual-stack cases do not negotiate IPv6. distinct_nontrivial = distinct (exit path, kind, chain, families, import policy rewrote the learned paths, other session) among sessions that had learned routes in the Loc-RIB and did leave Established")
		r.Assume("'whenever it leaves': that a session must leave Established for a cause is not claimed; a case whose session stays up is inconclusive",
			"synchronisation: FSM state published under fsm.stateMu ≠ established or connection closed by bio-rd, then the barrier event where an FSM loop is left to take it",
			"exportable Loc-RIB routes = the seeded static routes (bio-rd redistributes them to every kind of peer)",
			"hold-timer, keepalive and peer-gone cases wait in real time (hold time 3–4 s / keepalive interval 1–1.3 s)",
			"what a leaving session withdraws is its own contribution: a local AS / cluster id that another Established session of the VRF contributes stays contributing")
		var cases []any
		if raw, ok := r.Replaying(); ok {
			cases = []any{raw}
		} else {
			cases = genCases(r)
		}
		r.Eval(len(cases))
		batch.Drive(r, batch.Config{Name: "c07", PerChild: 64, Workers: 8, Lanes: 2, ChildBudget: 4 * time.Minute}, cases, func(i int, f batch.Fatal) map[string]string {
			var c ccase
			if b, err := json.Marshal(cases[i]); err == nil {
				json.Unmarshal(b, &c)
			}
			return map[string]string{"cause": c.Cause}
		})
		if _, ok := r.Replaying(); !ok {
			r.Require("exits", int64(len(cases)*8/10))
			r.Require("reestablish_checks", int64(len(cases)*6/10))
			nOther, nGone, nHide, nOmit := 0, 0, 0, 0
			for _, c := range cases {
				if cc, ok := c.(ccase); ok {
					if cc.Hide != "" {
						nHide++
					}
					if cc.Cfg.V6 && cc.Cfg.OmitMPv6 {
						nOmit++
					}
					if cc.Other != nil {
						nOther++
					}
					if cc.Cause == "peer-gone" && cc.WritesOK == 3 {
						nGone++
					}
				}
			}
			r.Require("exits_with_other_session", int64(nOther*8/10))
			r.Require("other_session_checks", int64(nOther*8/10))
			r.Require("other_session_exit_checks", int64(nOther*6/10))
			for _, l := range []string{"same-as", "other-as"} {
				for _, o := range []string{"registered-earlier", "registered-later"} {
					r.Require("exits_with_other_session_"+l+","+o, int64(nOther/20))
				}
			}
			r.Require("exit_peer-gone_as_hold-timer+notification-write-failure", int64(nGone/2))
			r.Require("exits_after_hidden_reannouncement", int64(nHide*8/10))
			r.Require("hidden_paths_in_adj_rib_in_at_exit", int64(nHide*2*8/10))
			for _, k := range []string{"as-loop", "originator-id", "cluster-loop"} {
				r.Require("exits_after_hidden_reannouncement_"+k, int64(nHide/12))
			}
			r.Require("exits_with_ipv6_configured_not_negotiated", int64(nOmit*8/10))
		}
	})
}
