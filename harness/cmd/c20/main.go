// C20: received UPDATEs are applied NLRI by NLRI.
//
// A case is one session (local configuration + the OPEN capabilities the remote side offers) and a
// sequence of valid UPDATE messages. After every UPDATE — at the synchronisation point of
// internal/speaker — the Adj-RIB-In of both families is dumped and compared with a model map
// (family, prefix, path id | ∗) → attribute content built from the statement:
//
//	announce-per-nlri   symptom announce-not-installed: an announced NLRI has no path with its own identifier
//	                    symptom attrs-differ: the stored path of an announced NLRI does not carry the message's attributes
//	                    symptom announce-wrong-path-id: a path appeared under an identifier the NLRI did not carry
//	withdraw-per-nlri   symptom withdraw-not-removed: the path named by a withdrawn NLRI is still stored
//	                    symptom withdraw-removed-other: a withdrawal removed a path with another identifier
//	duplicate-path      two paths stored under one (prefix, identifier)
//	collateral          a (prefix, identifier) the UPDATE did not mention changed
//	session-lost        a valid UPDATE ended the session
//
// After a divergence the model is re-based on what bio-rd stores so that later UPDATEs of the
// session are judged on their own.
package main

import (
	"encoding/json"
	"fmt"
	"math/rand/v2"
	"sort"
	"strings"
	"time"

	"verifharness/internal/batch"
	"verifharness/internal/gen"
	"verifharness/internal/sessgen"
	"verifharness/internal/speaker"
	"verifharness/internal/vf"
	"verifharness/internal/wire"
)

type (
	nl       = sessgen.NL
	attrSpec = sessgen.AttrSpec
	updSpec  = sessgen.UpdSpec
	sessCfg  = sessgen.Cfg
)

type ccase struct {
	Cfg     sessCfg   `json:"cfg"`
	Updates []updSpec `json:"updates"`
}

// ---------------------------------------------------------------------------------------------
// generation

var apLayouts = []string{"reversed", "foreign-first", "foreign-last", "foreign-between", "split", "split-foreign-first"}

// layoutCfg draws a session whose OPEN lays the ADD-PATH capability out in one of the other legal ways (tuples in
// another order, tuples of families the session does not carry around the real ones, one capability instance per
// tuple, the capability ahead of the multiprotocol capabilities) and that mostly runs a single family — IPv6 only
// or IPv4 only — with add-path receive configured, so that path identifiers do travel.
func layoutCfg(rng *rand.Rand) sessCfg {
	cfg := sessgen.RandCfg(rng)
	switch rng.IntN(5) {
	case 0, 1: // IPv6 only
		cfg.V4, cfg.V4MP, cfg.V6 = false, false, true
		cfg.RecvV4 = false
		cfg.RecvV6, cfg.OfferV6 = rng.IntN(6) != 0, rng.IntN(6) != 0
	case 2, 3: // IPv4 only (classic or multiprotocol)
		cfg.V6, cfg.RecvV6 = false, false
		cfg.RecvV4, cfg.OfferV4 = rng.IntN(6) != 0, rng.IntN(6) != 0
	default: // both
		cfg.V4, cfg.V6 = true, true
		cfg.RecvV4, cfg.OfferV4, cfg.RecvV6, cfg.OfferV6 = rng.IntN(4) != 0, rng.IntN(4) != 0, rng.IntN(4) != 0, rng.IntN(4) != 0
	}
	cfg.APLayout = apLayouts[rng.IntN(len(apLayouts))]
	cfg.APFirst = rng.IntN(2) == 0
	return cfg
}

func genCase(rng *rand.Rand, nUpd int, layout bool) ccase {
	var c ccase
	cfg := &c.Cfg
	if layout {
		*cfg = layoutCfg(rng)
	} else {
		*cfg = sessgen.RandCfg(rng)
	}
	apV4 := cfg.V4 && cfg.RecvV4 && cfg.OfferV4
	apV6 := cfg.V6 && cfg.RecvV6 && cfg.OfferV6

	u4 := gen.Universe(rng, true, 10)
	u6 := gen.Universe(rng, false, 10)
	// what the remote side believes it has announced: per family prefix index -> ids
	have := map[bool]map[int][]uint32{true: {}, false: {}}
	nextID := uint32(1)
	nh := uint32(0)

	annNow := map[string]bool{} // (family, prefix index, id) announced by the UPDATE under construction
	pickAnn := func(v4, ap bool, avoid map[int]bool) []nl {
		u := u6
		if v4 {
			u = u4
		}
		n := 1 + rng.IntN(12)
		if rng.IntN(3) == 0 {
			n = 1 + rng.IntN(3)
		}
		var out []nl
		used := map[string]bool{}
		for k := 0; k < n; k++ {
			pi := rng.IntN(len(u))
			if avoid[pi] {
				continue
			}
			x := nl{P: u[pi]}
			if ap {
				ids := have[v4][pi]
				switch {
				case len(ids) > 0 && rng.IntN(3) == 0: // re-announce an identifier (implicit replace)
					x.ID = ids[rng.IntN(len(ids))]
				default:
					x.ID = nextID
					nextID++
					if rng.IntN(8) == 0 {
						x.ID = 0 // identifier zero is legal
					}
				}
			}
			k2 := fmt.Sprintf("%d/%d", pi, x.ID)
			if used[k2] {
				continue
			}
			used[k2] = true
			annNow[fmt.Sprintf("%v/%s", v4, k2)] = true
			out = append(out, x)
			if ap {
				found := false
				for _, id := range have[v4][pi] {
					if id == x.ID {
						found = true
					}
				}
				if !found {
					have[v4][pi] = append(have[v4][pi], x.ID)
				}
			} else {
				have[v4][pi] = []uint32{0}
			}
			avoid[pi] = avoid[pi] || !ap // without add-path a prefix appears once per UPDATE
		}
		return out
	}
	pickWd := func(v4, ap bool, avoid map[int]bool) []nl {
		u := u6
		if v4 {
			u = u4
		}
		var cand []int
		for pi := range have[v4] {
			if len(have[v4][pi]) > 0 && !avoid[pi] {
				cand = append(cand, pi)
			}
		}
		sort.Ints(cand)
		n := 1 + rng.IntN(6)
		var out []nl
		for k := 0; k < n; k++ {
			var pi int
			if len(cand) > 0 && rng.IntN(5) != 0 {
				pi = cand[rng.IntN(len(cand))]
			} else {
				pi = rng.IntN(len(u)) // withdraw something that is not there
				if avoid[pi] {
					continue
				}
			}
			x := nl{P: u[pi]}
			if ap {
				ids := have[v4][pi]
				if len(ids) > 0 && rng.IntN(6) != 0 {
					j := rng.IntN(len(ids))
					if annNow[fmt.Sprintf("%v/%d/%d", v4, pi, ids[j])] {
						continue
					}
					x.ID = ids[j]
					have[v4][pi] = append(append([]uint32{}, ids[:j]...), ids[j+1:]...)
				} else {
					x.ID = 900000 + uint32(rng.IntN(100)) // an identifier that was never announced
				}
			} else {
				delete(have[v4], pi)
				avoid[pi] = true
			}
			dup := false
			for _, y := range out {
				if y.P == x.P && y.ID == x.ID {
					dup = true
				}
			}
			if !dup {
				out = append(out, x)
			}
		}
		return out
	}

	for len(c.Updates) < nUpd {
		var u updSpec
		clear(annNow)
		avoid4, avoid6 := map[int]bool{}, map[int]bool{}
		// withdrawals first (they must not name a prefix announced in the same message without add-path)
		shape := rng.IntN(10)
		wantWd := shape >= 6
		wantAnn := shape <= 7
		// announcements
		if wantAnn {
			// IPv4 goes classic or MP, IPv6 always MP; at most one MP_REACH per message
			fam4 := cfg.V4 && (!cfg.V6 || rng.IntN(2) == 0)
			switch {
			case fam4 && cfg.V4MP && rng.IntN(2) == 0:
				u.MPR, u.MPRv4 = pickAnn(true, apV4, avoid4), true
			case fam4:
				u.Ann = pickAnn(true, apV4, avoid4)
				if cfg.V6 && rng.IntN(3) == 0 { // classic IPv4 and MP IPv6 in one message
					u.MPR = pickAnn(false, apV6, avoid6)
				}
			case cfg.V6:
				u.MPR = pickAnn(false, apV6, avoid6)
			}
		}
		if wantWd {
			fam4 := cfg.V4 && (!cfg.V6 || rng.IntN(2) == 0)
			switch {
			case fam4 && cfg.V4MP && rng.IntN(2) == 0:
				u.MPU, u.MPUv4 = pickWd(true, apV4, avoid4), true
			case fam4:
				u.Wd = pickWd(true, apV4, avoid4)
				if cfg.V6 && rng.IntN(3) == 0 {
					u.MPU = pickWd(false, apV6, avoid6)
				}
			case cfg.V6:
				u.MPU = pickWd(false, apV6, avoid6)
			}
		}
		if len(u.Wd)+len(u.Ann)+len(u.MPR)+len(u.MPU) == 0 {
			continue
		}
		nh++
		a := sessgen.RandAttrs(rng, *cfg, nh)
		u.Attr = a
		// RFC 4271 lets the attributes come in any order: half of the messages are not in ascending type
		// order (MP attributes first in either order, last in either order, reversed, shuffled)
		if rng.IntN(2) == 0 {
			u.Order, _ = sessgen.RandOrder(rng, u)
		}
		c.Updates = append(c.Updates, u)
	}
	return c
}

// ---------------------------------------------------------------------------------------------
// building messages and the reference

type key struct {
	V4  bool
	Pfx string
	ID  uint32
}

func (k key) String() string {
	f := "ipv6"
	if k.V4 {
		f = "ipv4"
	}
	return fmt.Sprintf("%s %s #%d", f, k.Pfx, k.ID)
}

func normalise(a speaker.AttrFields, ebgp bool) string {
	if ebgp {
		a.LocalPref = 0 // the statement does not say what LOCAL_PREF an eBGP-learned path carries
	}
	return a.Text()
}

func dumpAll(s *speaker.Session, cfg sessCfg) (map[key]string, map[key]int, error) {
	out := map[key]string{}
	mult := map[key]int{}
	for _, v4 := range []bool{true, false} {
		if (v4 && !cfg.V4) || (!v4 && !cfg.V6) {
			continue
		}
		d, ok := s.RIBIn(v4)
		if !ok {
			return nil, nil, fmt.Errorf("no Adj-RIB-In attached for v4=%v", v4)
		}
		for _, r := range d {
			for _, p := range r.Paths() {
				k := key{V4: v4, Pfx: gen.FromBio(r.Prefix()).String()}
				if p.BGPPath != nil {
					k.ID = p.BGPPath.PathIdentifier
				}
				out[k] = normalise(speaker.FieldsOfPath(p), cfg.EBGP)
				mult[k]++
			}
		}
	}
	return out, mult, nil
}

func runCase(idx int, raw json.RawMessage) (res batch.Result) {
	var c ccase
	if err := json.Unmarshal(raw, &c); err != nil {
		res.Inconcl = "case does not decode: " + err.Error()
		return
	}
	cfg := c.Cfg
	_, _, s, err := sessgen.NewSession(cfg)
	if err != nil {
		res.Inconcl = "cannot establish: " + err.Error()
		return
	}
	defer func() { s.SendNotification(6, 0); s.Sync() }()
	opts := s.Neg.SendOpts()
	res.Count("sessions", 1)
	sessKind := fmt.Sprintf("ebgp=%v v4mp=%v ap4=%v ap6=%v as4=%v", cfg.EBGP, cfg.V4MP, opts.AddPathIPv4, opts.AddPathIPv6, opts.AS4)
	if cfg.APLayout != "" || !cfg.V4 {
		sessKind += fmt.Sprintf(" families=%s add-path-capability=%s", famsOf(cfg), apLayoutText(cfg, s.MyOpen))
	}
	res.Seen("session_kinds", sessKind)
	if cfg.APLayout != "" {
		// what the remote side's OPEN really looked like, read off the OPEN that was sent
		res.Count("sessions_other_addpath_layout", 1)
		res.Seen("addpath_layouts", cfg.APLayout+fmt.Sprintf(",ahead-of-mp=%v", cfg.APFirst))
		if !cfg.V4 || !cfg.V6 {
			res.Count("sessions_single_family_"+famsOf(cfg), 1)
		}
		if opts.AddPathIPv4 || opts.AddPathIPv6 {
			res.Count("sessions_other_addpath_layout_with_path_ids", 1)
			if foreignAhead(cfg, s.MyOpen) {
				res.Count("sessions_with_path_ids_behind_a_foreign_addpath_tuple", 1)
				res.Count("sessions_with_path_ids_behind_a_foreign_addpath_tuple_"+famsOf(cfg), 1)
			}
		}
	}

	model := map[key]string{}
	prevMult := map[key]int{}
	for ui, u := range c.Updates {
		w, ref := u.Build(opts)
		if err := s.SendUpdate(w); err != nil {
			res.Inconcl = fmt.Sprintf("update %d: %v", ui, err)
			return
		}
		r := s.Sync()
		if !r.OK() || r.Closed || !s.Established() {
			res.Add("session-lost", lostFeat(cfg, s.MyOpen), "session{"+sessKind+"} update %d of a valid sequence: session no longer established (%v, state %s, notifications %v); UPDATE %+v", ui, r, s.State(), s.Notifications(), u)
			return
		}
		res.Count("updates", 1)
		// ---- reference ----
		ann := map[key]bool{} // (pfx,id) announced by this message
		annP := map[string]bool{}
		wd := map[key]bool{}
		wdP := map[string]bool{}
		encAnn := map[string]string{} // family+pfx -> encoding of the announcement / withdrawal naming it
		encWd := map[string]string{}
		apply := func(v4 bool, ap bool, xs []nl, announce bool, attrs string, encoding string) {
			for _, x := range xs {
				k := key{V4: v4, Pfx: x.P.String()}
				pk := fmt.Sprintf("%v %s", v4, k.Pfx)
				if announce {
					encAnn[pk] = encoding
				} else {
					encWd[pk] = encoding
				}
				if ap {
					k.ID = x.ID
				}
				if announce {
					ann[k], annP[pk] = true, true
					if !ap {
						for mk := range model {
							if mk.V4 == v4 && mk.Pfx == k.Pfx {
								delete(model, mk)
							}
						}
					}
					model[k] = attrs
				} else {
					wd[k], wdP[pk] = true, true
					if ap {
						delete(model, k)
					} else {
						for mk := range model {
							if mk.V4 == v4 && mk.Pfx == k.Pfx {
								delete(model, mk)
							}
						}
					}
				}
			}
		}
		apply(true, opts.AddPathIPv4, u.Wd, false, "", "classic")
		apply(u.MPUv4, opts.AddPath(famOf(u.MPUv4)), u.MPU, false, "", "mp")
		apply(true, opts.AddPathIPv4, u.Ann, true, normalise(speaker.FieldsOfWire(ref, nil), cfg.EBGP), "classic")
		mpnh := sessgen.NHv6(u.Attr.NH)
		if u.MPRv4 {
			mpnh = sessgen.NHv4(u.Attr.NH)
		}
		apply(u.MPRv4, opts.AddPath(famOf(u.MPRv4)), u.MPR, true, normalise(speaker.FieldsOfWire(ref, mpnh), cfg.EBGP), "mp")

		nAnn := len(u.Ann) + len(u.MPR)
		if nAnn >= 2 && ((len(u.Ann) >= 2 && opts.AddPathIPv4) || (len(u.MPR) >= 2 && opts.AddPath(famOf(u.MPRv4)))) {
			res.Nontrivial = append(res.Nontrivial, fmt.Sprintf("multi-id|%s|ann=%d mpr=%d|%d", sessKind, len(u.Ann), len(u.MPR), u.Attr.NH+uint32(idx)<<8))
			res.Count("updates_with_several_path_ids", 1)
		}
		if len(u.Wd)+len(u.MPU) > 0 && nAnn > 0 {
			res.Count("updates_mixed_announce_withdraw", 1)
		}
		if pos := attrPositions(w); !pos.ascending {
			res.Count("updates_attrs_not_in_type_order", 1)
			if pos.reach >= 0 && pos.unreach >= 0 && pos.unreach < pos.reach {
				res.Count("updates_mp_unreach_before_mp_reach", 1)
				if u.MPRv4 == u.MPUv4 {
					res.Count("updates_mp_unreach_before_mp_reach_same_family", 1)
				}
			}
			if pos.reach == 0 || pos.unreach == 0 {
				res.Count("updates_mp_attribute_first", 1)
			}
		} else if pos.reach >= 0 && pos.unreach >= 0 {
			res.Count("updates_mp_reach_before_mp_unreach", 1)
		}
		res.Count("nlri_announced", nAnn)
		res.Count("nlri_withdrawn", len(u.Wd)+len(u.MPU))

		// ---- observation ----
		got, mult, err := dumpAll(s, cfg)
		if err != nil {
			res.Inconcl = err.Error()
			return
		}
		// One UPDATE is one verdict: the symptoms of its divergence are collected and the one highest in
		// the list below is reported (a wrong identifier on one NLRI drags collateral symptoms along:
		// an existing path under that identifier is overwritten, a later withdrawal misses, …).
		type symptom struct {
			clause string
			k      key
			text   string
		}
		var symptoms []symptom
		feat := func(k key, clause string) map[string]string {
			pk := fmt.Sprintf("%v %s", k.V4, k.Pfx)
			e := encAnn[pk]
			if strings.HasPrefix(clause, "withdraw") || e == "" {
				if w := encWd[pk]; w != "" {
					e = w
				}
			}
			if e == "" {
				e = "-"
			}
			ft := vf.F("family", famOf(k.V4).String(), "encoding", e, "addpath", opts.AddPath(famOf(k.V4)))
			if cfg.APLayout != "" {
				ft["foreign_addpath_tuple_ahead"] = fmt.Sprint(foreignAhead(cfg, s.MyOpen))
			}
			if pos := attrPositions(w); !pos.ascending {
				ft["attr_order"] = "not-ascending"
				if pos.reach >= 0 && pos.unreach >= 0 && pos.unreach < pos.reach {
					ft["attr_order"] = "mp-unreach-before-mp-reach"
				}
			}
			return ft
		}
		var keys []key
		for k := range model {
			keys = append(keys, k)
		}
		for k := range got {
			if _, ok := model[k]; !ok {
				keys = append(keys, k)
			}
		}
		sort.Slice(keys, func(i, j int) bool { return keys[i].String() < keys[j].String() })
		for _, k := range keys {
			want, inModel := model[k]
			have, inGot := got[k]
			pk := fmt.Sprintf("%v %s", k.V4, k.Pfx)
			switch {
			case inModel && !inGot:
				switch {
				case ann[k]:
					symptoms = append(symptoms, symptom{"announce-per-nlri/announce-not-installed", k, fmt.Sprintf("announced %v is not in the Adj-RIB-In (stored for that prefix: %s)", k, storedFor(got, k))})
				case wdP[pk]:
					symptoms = append(symptoms, symptom{"withdraw-per-nlri/withdraw-removed-other", k, fmt.Sprintf("%v was not withdrawn (withdrawn: %s) but is gone", k, keysOf(wd, k))})
				default:
					symptoms = append(symptoms, symptom{"collateral", k, fmt.Sprintf("%v disappeared although the message does not mention it", k)})
				}
			case !inModel && inGot:
				switch {
				case wd[k]:
					symptoms = append(symptoms, symptom{"withdraw-per-nlri/withdraw-not-removed", k, fmt.Sprintf("withdrawn %v is still stored", k)})
				case annP[pk]:
					symptoms = append(symptoms, symptom{"announce-per-nlri/announce-wrong-path-id", k, fmt.Sprintf("a path is stored as %v, the message announced that prefix as %s", k, keysOf(ann, k))})
				default:
					symptoms = append(symptoms, symptom{"collateral", k, fmt.Sprintf("%v is stored although the model has no such path", k)})
				}
			case want != have:
				if ann[k] {
					symptoms = append(symptoms, symptom{"announce-per-nlri/attrs-differ", k, fmt.Sprintf("%v stores {%s}, the message carries {%s}", k, have, want)})
				} else {
					symptoms = append(symptoms, symptom{"collateral", k, fmt.Sprintf("attributes of %v changed to {%s} from {%s} although the message does not mention it", k, have, want)})
				}
			}
			if mult[k] > prevMult[k] && mult[k] > 1 {
				symptoms = append(symptoms, symptom{"duplicate-path", k, fmt.Sprintf("%d paths stored as %v", mult[k], k)})
			}
		}
		prevMult = mult
		diverged := len(symptoms) > 0
		if diverged {
			prio := map[string]int{"announce-per-nlri/announce-not-installed": 0, "announce-per-nlri/attrs-differ": 1, "announce-per-nlri/announce-wrong-path-id": 2,
				"withdraw-per-nlri/withdraw-not-removed": 3, "withdraw-per-nlri/withdraw-removed-other": 4, "duplicate-path": 5, "collateral": 6}
			sort.SliceStable(symptoms, func(i, j int) bool { return prio[symptoms[i].clause] < prio[symptoms[j].clause] })
			var all []string
			for i, sy := range symptoms {
				if i < 8 {
					all = append(all, sy.clause+": "+sy.text)
				}
			}
			clause, sym, _ := strings.Cut(symptoms[0].clause, "/")
			ft := feat(symptoms[0].k, symptoms[0].clause)
			if sym != "" {
				ft["symptom"] = sym
			}
			res.Add(clause, ft, "session{%s} update %d %s: %s [all %d symptoms of this UPDATE: %s]", sessKind, ui, describe(u), symptoms[0].text, len(symptoms), strings.Join(all, "; "))
			res.Count("diverging_updates", 1)
		}
		res.Count("paths_compared", len(keys))
		if diverged {
			model = got
		}
	}
	if idx%53 == 0 && len(c.Updates) > 0 {
		res.Sample = map[string]any{"session": sessKind, "first_update": describe(c.Updates[0]), "updates": len(c.Updates), "final_paths": len(model)}
	}
	return
}

func famsOf(cfg sessCfg) string {
	switch {
	case cfg.V4 && cfg.V6:
		return "ipv4+ipv6"
	case cfg.V6:
		return "ipv6"
	}
	return "ipv4"
}

func carried(cfg sessCfg, f wire.Family) bool {
	return (f == wire.IPv4Unicast && cfg.V4) || (f == wire.IPv6Unicast && cfg.V6)
}

// foreignAhead: in the OPEN that was sent, an ADD-PATH tuple of a family the session does not carry stands in front
// of the tuple of a family for which path identifiers travel towards bio-rd.
func foreignAhead(cfg sessCfg, o *wire.Open) bool {
	if o == nil {
		return false
	}
	foreign := false
	for _, t := range o.AddPath() {
		switch {
		case !carried(cfg, t.Family):
			foreign = true
		case foreign && t.Mode&2 != 0 && ((t.Family == wire.IPv4Unicast && cfg.AddPathV4()) || (t.Family == wire.IPv6Unicast && cfg.AddPathV6())):
			return true
		}
	}
	return false
}

func apLayoutText(cfg sessCfg, o *wire.Open) string {
	if o == nil {
		return "?"
	}
	var parts []string
	for _, c := range o.Caps {
		if c.Code != wire.CapCodeAddPath {
			continue
		}
		var ts []string
		for v := c.Value; len(v) >= 4; v = v[4:] {
			ts = append(ts, fmt.Sprintf("%d/%d:%d", uint16(v[0])<<8|uint16(v[1]), v[2], v[3]))
		}
		parts = append(parts, "["+strings.Join(ts, " ")+"]")
	}
	if len(parts) == 0 {
		return "none"
	}
	return strings.Join(parts, "")
}

type attrPos struct {
	ascending      bool
	reach, unreach int // position of MP_REACH_NLRI / MP_UNREACH_NLRI in the encoded attribute list, -1 absent
}

// attrPositions reads the order of the attributes off the message that is really sent.
func attrPositions(w *wire.Update) attrPos {
	p := attrPos{ascending: true, reach: -1, unreach: -1}
	for i, a := range w.Attrs {
		if i > 0 && w.Attrs[i-1].Type > a.Type {
			p.ascending = false
		}
		switch a.Type {
		case wire.AttrMPReach:
			p.reach = i
		case wire.AttrMPUnreach:
			p.unreach = i
		}
	}
	return p
}

func lostFeat(cfg sessCfg, o *wire.Open) map[string]string {
	ft := vf.F("ebgp", cfg.EBGP)
	if cfg.APLayout != "" {
		ft["addpath_capability"] = "one-capability"
		if strings.HasPrefix(cfg.APLayout, "split") {
			ft["addpath_capability"] = "one-instance-per-tuple"
		}
		ft["foreign_tuple_ahead"] = fmt.Sprint(foreignAhead(cfg, o))
	}
	return ft
}

func famOf(v4 bool) wire.Family {
	if v4 {
		return wire.IPv4Unicast
	}
	return wire.IPv6Unicast
}

func storedFor(got map[key]string, k key) string {
	var out []string
	for g := range got {
		if g.V4 == k.V4 && g.Pfx == k.Pfx {
			out = append(out, fmt.Sprintf("#%d", g.ID))
		}
	}
	sort.Strings(out)
	if out == nil {
		return "nothing"
	}
	return strings.Join(out, ",")
}

func keysOf(m map[key]bool, k key) string {
	var out []string
	for g := range m {
		if g.V4 == k.V4 && g.Pfx == k.Pfx {
			out = append(out, fmt.Sprintf("#%d", g.ID))
		}
	}
	sort.Strings(out)
	return strings.Join(out, ",")
}

func describe(u updSpec) string { return u.Describe() }

func main() {
	if batch.IsChild() {
		// no FSM ever ceases in this workload, so a barrier that is late on a closed connection is a stalled
		// machine, not an ended FSM: wait for it
		speaker.CeaseGrace = 5 * time.Second
		batch.ChildMain(runCase)
		return
	}
	vf.Main("C20", "exploration", func(r *vf.Run) {
		r.Rule("one session per case: iBGP/eBGP × {IPv4, IPv4+IPv6, IPv4 multiprotocol (+IPv6)} × add-path receive configured per family × add-path send offered per family × capability 65 (incl. a 4-octet peer AS), all negotiated in a real OPEN exchange; then 20 valid UPDATEs over 10 IPv4 + 10 IPv6 adversarial prefixes: 1–12 NLRI per family in classic NLRI / MP_REACH (IPv4 or IPv6), withdrawals in the classic field / MP_UNREACH, announce and withdraw mixed in one message, classic IPv4 + MP IPv6 in one message, distinct / repeated / zero path identifiers under add-path, withdrawals of absent prefixes and of unknown identifiers; attributes ORIGIN, AS_PATH (sequence+set, 2/4-octet), NEXT_HOP or MP next hop, MED, LOCAL_PREF (iBGP), ATOMIC_AGGREGATE, COMMUNITIES (one unique per message), LARGE_COMMUNITIES, ORIGINATOR_ID+CLUSTER_LIST (iBGP), an unknown optional transitive attribute; half of the messages encode their attributes out of ascending type order (MP_REACH/MP_UNREACH first or last in either mutual order, all reversed, or shuffled), so MP_UNREACH_NLRI precedes MP_REACH_NLRI of the same or the other family in part of the messages that carry both. A second block (30 % more sessions, 12 UPDATEs each) varies how the remote OPEN lays out its ADD-PATH capability — tuples reversed, tuples of families the session does not carry (the other unicast family, IPv4 multicast, AFI 25) in front of / between / behind the real ones, one capability instance per tuple, the capability ahead of the multiprotocol capabilities — mostly on single-family sessions (IPv6 only, IPv4 only) with add-path receive configured; add-path is on exactly when the RFC 7911 reading of the two OPENs says so, and path identifiers are sent accordingly. After every UPDATE the Adj-RIB-In dumps of both families are compared with the model. distinct_nontrivial = UPDATEs that announce ≥ 2 NLRI of one family with path identifiers on an add-path session")
		r.Assume("LOCAL_PREF of paths learned over eBGP is not compared (the statement does not say which value they carry)",
			"within one UPDATE the announced and withdrawn (prefix, path id) sets are disjoint, and without add-path a prefix occurs at most once per message",
			"Adj-RIB-In content is read through the FSM's own adjRIBIn object (hook VerifFSMRIBs → Dump), the object BGPServer.GetRIBIn returns")
		var cases []any
		nLayout := 0
		if raw, ok := r.Replaying(); ok {
			cases = []any{raw}
		} else {
			n := r.N(300, 15000)
			for i := 0; i < n; i++ {
				cases = append(cases, genCase(r.RandN("c20", i), 20, false))
			}
			nLayout = r.N(90, 4500)
			for i := 0; i < nLayout; i++ {
				cases = append(cases, genCase(r.RandN("c20-layout", i), 12, true))
			}
		}
		batch.Drive(r, batch.Config{Name: "c20", PerChild: 150, Workers: 8}, cases, nil)
		r.Eval(int(r.Counter("updates")))
		if _, ok := r.Replaying(); !ok {
			r.Require("sessions", int64(len(cases)*9/10))
			r.Require("updates", int64(len(cases)*10))
			r.Require("sessions_other_addpath_layout", int64(nLayout*9/10))
			r.Require("sessions_other_addpath_layout_with_path_ids", int64(nLayout/2))
			r.Require("sessions_with_path_ids_behind_a_foreign_addpath_tuple", int64(nLayout/6))
			r.Require("sessions_with_path_ids_behind_a_foreign_addpath_tuple_ipv6", int64(nLayout/40))
			r.Require("sessions_with_path_ids_behind_a_foreign_addpath_tuple_ipv4", int64(nLayout/40))
			r.Require("sessions_single_family_ipv6", int64(nLayout/5))
			r.Require("updates_with_several_path_ids", 100)
			r.Require("updates_attrs_not_in_type_order", int64(len(cases)*3))
			r.Require("updates_mp_unreach_before_mp_reach", int64(len(cases)/20))
			r.Require("updates_mp_unreach_before_mp_reach_same_family", int64(len(cases)/40))
			r.Require("updates_mp_attribute_first", int64(len(cases)/2))
		}
	})
}
