package main

import (
	"fmt"
	"math/rand/v2"
	"runtime"
	"sync"
	"testing"
	"time"
)


func TestTimeRIS(t *testing.T) {
	t0 := time.Now()
	var wg sync.WaitGroup
	for w := 0; w < 4; w++ {
		wg.Add(1)
		go func(w int) {
			defer wg.Done()
			for i := w; i < 150; i += 4 {
				c := genRIS(rand.New(rand.NewPCG(1, uint64(i))))
				st := &seqStats{byOp: map[string]int{}}
				if w := runRIS(c, fmt.Sprint(i), st, func(cl string, f map[string]string, d string) { t.Log(cl, f, d) }); w != "" { t.Log(i, w, c.Ops) }
			}
		}(w)
	}
	wg.Wait()
	t.Log(time.Since(t0), runtime.NumGoroutine())
}
