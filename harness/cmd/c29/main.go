// C29: the merged RIB holds a route exactly while some source advertises it.
// Sequential oracle: per route key the SET of sources that currently advertise it; the route must be in the
// underlying Loc-RIB iff the set is non-empty; checked after every operation with ContainsPfxPath, Dump and
// Count. Concurrent oracle: one goroutine per source issues AddRoute/RemoveRoute/DropAllBySrc while a reader
// records ContainsPfxPath; every call/return is stamped from one atomic counter and the history is checked
// for linearizability against the same model with porcupine, partitioned by route key.
package main

import (
	"fmt"
	"math/rand/v2"
	"runtime"
	"sort"
	"strings"
	"sync"
	"sync/atomic"
	"time"

	"github.com/anishathalye/porcupine"

	bnet "github.com/bio-routing/bio-rd/net"
	"github.com/bio-routing/bio-rd/route"
	routeapi "github.com/bio-routing/bio-rd/route/api"
	"github.com/bio-routing/bio-rd/routingtable/locRIB"
	"github.com/bio-routing/bio-rd/routingtable/mergedlocrib"

	"verifharness/internal/vf"
)

// ---- routes ----

type routeSpec struct {
	V6  bool   `json:"v6"`
	Pfx uint32 `json:"pfx"` // index of the prefix (routes may share a prefix and differ in the path)
	Len uint8  `json:"len"`
	NH  uint32 `json:"nh"` // unique per route key
	BGP bool   `json:"bgp"`
	// number of paths the API route message carries (0 = 1); path i has next hop NH + i<<8, so no two keys share a path
	NPaths int `json:"npaths,omitempty"`
}

func (s routeSpec) npaths() int {
	if s.NPaths < 1 {
		return 1
	}
	return s.NPaths
}

func (s routeSpec) prefix() *bnet.Prefix {
	if s.Len == 0 { // the default route of the family
		if s.V6 {
			return bnet.NewPfx(bnet.IPv6(0, 0), 0).Ptr()
		}
		return bnet.NewPfx(bnet.IPv4(0), 0).Ptr()
	}
	if s.V6 {
		return bnet.NewPfx(bnet.IPv6(0x20010db800000000|uint64(s.Pfx)<<16, 0), s.Len).Ptr()
	}
	return bnet.NewPfx(bnet.IPv4(10<<24|s.Pfx<<16), s.Len).Ptr()
}

func (s routeSpec) nextHop(i int) bnet.IP {
	if s.V6 {
		return bnet.IPv6(0xfe80000000000000, uint64(s.NH)|uint64(i)<<8)
	}
	return bnet.IPv4(192<<24 | s.NH | uint32(i)<<8)
}

// path builds the bio-rd path the merged RIB must have installed for the route (what RouteFromProtoRoute yields).
func (s routeSpec) api() *routeapi.Route {
	var ps []*route.Path
	for i := 0; i < s.npaths(); i++ {
		if s.BGP {
			b := route.NewBGPPath()
			b.BGPPathA.NextHop = s.nextHop(i).Ptr()
			b.BGPPathA.Source = s.nextHop(i).Ptr()
			b.BGPPathA.LocalPref = 100
			b.BGPPathA.EBGP = true
			ps = append(ps, &route.Path{Type: route.BGPPathType, BGPPath: b})
		} else {
			ps = append(ps, &route.Path{Type: route.StaticPathType, StaticPath: &route.StaticPath{NextHop: s.nextHop(i).Ptr()}})
		}
	}
	return route.NewRouteAddPath(s.prefix(), ps).ToProto()
}

// pathNames are the "prefix via next hop" names of all paths of the route.
func (s routeSpec) pathNames() []string {
	var out []string
	for i := 0; i < s.npaths(); i++ {
		out = append(out, fmt.Sprintf("%s via %s", s.prefix().String(), s.nextHop(i).String()))
	}
	return out
}

func (s routeSpec) String() string { return strings.Join(s.pathNames(), " + ") }

func genRoutes(rng *rand.Rand, n int) []routeSpec {
	out := make([]routeSpec, n)
	v6 := rng.IntN(3) == 0
	for i := range out {
		out[i] = routeSpec{V6: v6, Pfx: uint32(rng.IntN(2)), NH: uint32(i + 1), BGP: rng.IntN(4) != 0}
		if v6 {
			out[i].Len = 48
		} else {
			out[i].Len = 16
		}
		// boundary prefix lengths: the default route (0.0.0.0/0, ::/0) and host routes (/32, /128)
		switch rng.IntN(8) {
		case 0:
			out[i].Len = 0
		case 1:
			out[i].Len = 32
			if v6 {
				out[i].Len = 128
			}
		}
		// one route in three carries two or three paths (ECMP static route, BGP multipath): legitimate for the API's Route message
		if rng.IntN(3) == 0 {
			out[i].NPaths = 2 + rng.IntN(2)
		}
	}
	// routes that share a prefix must be of the same path type (a Loc-RIB route holds the paths of its best protocol)
	for i := range out {
		for j := 0; j < i; j++ {
			if out[j].Pfx == out[i].Pfx {
				out[i].BGP = out[j].BGP
			}
		}
	}
	return out
}

// ---- operations ----

type op struct {
	K   string `json:"k"` // add | remove | drop | contains
	Src int    `json:"src,omitempty"`
	Key int    `json:"key,omitempty"`
}

func (o op) String() string {
	switch o.K {
	case "drop":
		return fmt.Sprintf("DropAllBySrc(s%d)", o.Src)
	case "add":
		return fmt.Sprintf("AddRoute(s%d,r%d)", o.Src, o.Key)
	case "remove":
		return fmt.Sprintf("RemoveRoute(s%d,r%d)", o.Src, o.Key)
	}
	return fmt.Sprintf("contains(r%d)", o.Key)
}

type source struct{ id int } // compared by pointer, like the *grpc.ClientConn the RIS client passes

type rig struct {
	lr     *locRIB.LocRIB
	m      *mergedlocrib.MergedLocRIB
	srcs   []*source
	routes []routeSpec
	pfx    []*bnet.Prefix
	paths  [][]*route.Path // all paths of the key's route
}

func newRig(nsrc int, routes []routeSpec) *rig {
	g := &rig{lr: locRIB.New("c29"), routes: routes}
	g.m = mergedlocrib.New(g.lr)
	for i := 0; i < nsrc; i++ {
		g.srcs = append(g.srcs, &source{id: i})
	}
	for _, s := range routes {
		r := route.RouteFromProtoRoute(s.api(), false)
		g.pfx = append(g.pfx, r.Prefix())
		g.paths = append(g.paths, r.Paths())
	}
	return g
}

func (g *rig) apply(o op) error {
	switch o.K {
	case "add":
		return g.m.AddRoute(g.srcs[o.Src], g.routes[o.Key].api())
	case "remove":
		return g.m.RemoveRoute(g.srcs[o.Src], g.routes[o.Key].api())
	case "drop":
		g.m.DropAllBySrc(g.srcs[o.Src])
	}
	return nil
}

// contains: the route of the key is present = the Loc-RIB holds at least one of its paths under its prefix (which of
// the paths of a multi-path route get installed is bio-rd's choice; with no source left none of them may remain).
func (g *rig) contains(key int) bool {
	for _, p := range g.paths[key] {
		if g.lr.ContainsPfxPath(g.pfx[key], p) {
			return true
		}
	}
	return false
}

// ---- sequential ----

type seqCase struct {
	Kind   string      `json:"kind"` // "seq"
	NSrc   int         `json:"nsrc"`
	Routes []routeSpec `json:"routes"`
	Ops    []op        `json:"ops"`
}

// genOps produces a script. advertised tracks what the generator believes each source advertises; with
// dupFree an add of something already advertised by that source is turned into a remove.
func genOps(rng *rand.Rand, n, nsrc, nkeys int, srcFixed int, dupFree bool) []op {
	adv := map[[2]int]bool{}
	var out []op
	for i := 0; i < n; i++ {
		s := srcFixed
		if s < 0 {
			s = rng.IntN(nsrc)
		}
		k := rng.IntN(nkeys)
		x := rng.IntN(100)
		switch {
		case x < 50:
			if dupFree && adv[[2]int{s, k}] {
				out = append(out, op{K: "remove", Src: s, Key: k})
				delete(adv, [2]int{s, k})
			} else {
				out = append(out, op{K: "add", Src: s, Key: k})
				adv[[2]int{s, k}] = true
			}
		case x < 85:
			out = append(out, op{K: "remove", Src: s, Key: k})
			delete(adv, [2]int{s, k})
		default:
			out = append(out, op{K: "drop", Src: s})
			for kk := 0; kk < nkeys; kk++ {
				delete(adv, [2]int{s, kk})
			}
		}
	}
	return out
}

type seqStats struct {
	ops, checks         int
	dupAdverts          int // adds by a source already advertising the key
	multiSource         bool
	lastSourceWithdraws bool
	multiPathLastGone   int // times a route of two or more paths lost its last source
	defaultLastGone     int // times a default route (/0) lost its last source
	hostLastGone        int // times a host route (/32, /128) lost its last source
	byOp                map[string]int
}

// checker holds the set-of-sources model of one rig and compares the Loc-RIB with it.
type checker struct {
	g      *rig
	routes []routeSpec
	model  []uint32 // per key: bit per source currently advertising it
	dup    []bool   // the key has seen a repeated advertisement by one source
	st     *seqStats
	viol   func(clause string, f map[string]string, detail string)
}

func newChecker(g *rig, st *seqStats, viol func(string, map[string]string, string)) *checker {
	return &checker{g: g, routes: g.routes, model: make([]uint32, len(g.routes)), dup: make([]bool, len(g.routes)), st: st, viol: viol}
}

// note applies an add / remove / drop to the model.
func (ck *checker) note(o op) {
	bit := uint32(1) << uint(o.Src)
	gone := func(k int) {
		if ck.model[k] == bit {
			ck.st.lastSourceWithdraws = true
			if ck.routes[k].npaths() > 1 {
				ck.st.multiPathLastGone++
			}
			switch ck.routes[k].Len {
			case 0:
				ck.st.defaultLastGone++
			case 32, 128:
				ck.st.hostLastGone++
			}
		}
		ck.model[k] &^= bit
	}
	switch o.K {
	case "add":
		if ck.model[o.Key]&bit != 0 {
			ck.dup[o.Key] = true
			ck.st.dupAdverts++
		}
		ck.model[o.Key] |= bit
		if ck.model[o.Key]&^bit != 0 {
			ck.st.multiSource = true
		}
	case "remove":
		gone(o.Key)
	case "drop":
		for k := range ck.model {
			gone(k)
		}
	}
}

// verify compares ContainsPfxPath for every key and the Loc-RIB dump with the model (i = index of the last operation).
func (ck *checker) verify(i int, after string, trace func(int) string) {
	g, st := ck.g, ck.st
	owner := map[string]int{} // path name -> key
	for k := range ck.routes {
		exp := ck.model[k] != 0
		got := g.contains(k)
		st.checks++
		for _, n := range ck.routes[k].pathNames() {
			owner[n] = k
		}
		if !exp && !got {
			ck.dup[k] = false // no source and not installed: the container is gone, earlier repetitions cannot matter any more
		}
		if got != exp {
			e := "absent"
			if exp {
				e = "present"
			}
			plen := "inner"
			switch ck.routes[k].Len {
			case 0:
				plen = "default-route"
			case 32, 128:
				plen = "host-route"
			}
			ck.viol("presence", vf.F("expected", e, "dup_advert", ck.dup[k], "after", after, "paths_in_route", min(ck.routes[k].npaths(), 2), "prefix_length", plen),
				fmt.Sprintf("after op %d, route r%d (%s) is %s in the Loc-RIB but sources advertising it = %s; history: %s", i, k, ck.routes[k], map[bool]string{true: "present", false: "absent"}[got], srcSet(ck.model[k]), trace(i)))
		}
	}
	// dump: every dumped path belongs to an advertised route, every advertised route has at least one path dumped
	have := map[string]bool{}
	for _, r := range g.lr.Dump() {
		for _, p := range r.Paths() {
			have[fmt.Sprintf("%s via %s", r.Prefix().String(), p.NextHop().String())] = true
		}
	}
	st.checks++
	extra, missing := false, false
	var want []string
	for n := range have {
		if k, ok := owner[n]; !ok || ck.model[k] == 0 {
			extra = true
		}
	}
	for k := range ck.routes {
		if ck.model[k] == 0 {
			continue
		}
		want = append(want, ck.routes[k].String())
		found := false
		for _, n := range ck.routes[k].pathNames() {
			found = found || have[n]
		}
		missing = missing || !found
	}
	if extra || missing {
		anyDup := false
		for k := range ck.dup {
			anyDup = anyDup || ck.dup[k]
		}
		sort.Strings(want)
		ck.viol("dump", vf.F("dup_advert", anyDup, "extra_routes", extra, "after", after), fmt.Sprintf("after op %d Loc-RIB dump = %v, advertised routes = %v; history: %s", i, keys(have), want, trace(i)))
	}
}

func runSeq(c seqCase, st *seqStats, viol func(clause string, f map[string]string, detail string)) {
	step := -1
	defer func() {
		if p := recover(); p != nil {
			buf := make([]byte, 1500)
			buf = buf[:runtime.Stack(buf, false)]
			viol("panic", vf.F("mode", "sequential"), fmt.Sprintf("panic at op %d: %v\n%s", step, p, buf))
		}
	}()
	g := newRig(c.NSrc, c.Routes)
	ck := newChecker(g, st, viol)
	trace := func(upto int) string {
		var b strings.Builder
		for i := 0; i <= upto; i++ {
			if i > 0 {
				b.WriteString("; ")
			}
			b.WriteString(c.Ops[i].String())
		}
		return b.String()
	}
	for i, o := range c.Ops {
		step = i
		ck.note(o)
		if err := g.apply(o); err != nil {
			viol("error", vf.F("op", o.K), fmt.Sprintf("op %d %s returned %v", i, o, err))
		}
		st.ops++
		st.byOp[o.K]++
		ck.verify(i, o.K, trace)
	}
}

func srcSet(m uint32) string {
	var s []string
	for i := 0; i < 32; i++ {
		if m&(1<<uint(i)) != 0 {
			s = append(s, fmt.Sprintf("s%d", i))
		}
	}
	return "{" + strings.Join(s, ",") + "}"
}

func keys(m map[string]bool) []string {
	var out []string
	for k := range m {
		out = append(out, k)
	}
	sort.Strings(out)
	return out
}

func sameKeys(a, b map[string]bool) bool {
	if len(a) != len(b) {
		return false
	}
	for k := range a {
		if !b[k] {
			return false
		}
	}
	return true
}

// ---- concurrent ----

type concCase struct {
	Kind    string      `json:"kind"` // "conc"
	Routes  []routeSpec `json:"routes"`
	Scripts [][]op      `json:"scripts"` // one per source goroutine (source i runs Scripts[i])
	Reads   []int       `json:"reads"`   // keys the reader probes, in order
	DupFree bool        `json:"dup_free"`
	Yield   uint64      `json:"yield"` // seed for the goroutines' yield pattern
}

type hInput struct {
	K   string
	Src int
	Key int
}

var model = porcupine.Model{
	Partition: func(h []porcupine.Operation) [][]porcupine.Operation {
		m := map[int][]porcupine.Operation{}
		var ks []int
		for _, o := range h {
			k := o.Input.(hInput).Key
			if _, ok := m[k]; !ok {
				ks = append(ks, k)
			}
			m[k] = append(m[k], o)
		}
		sort.Ints(ks)
		var out [][]porcupine.Operation
		for _, k := range ks {
			out = append(out, m[k])
		}
		return out
	},
	Init: func() interface{} { return uint32(0) },
	Step: func(state, input, output interface{}) (bool, interface{}) {
		st := state.(uint32)
		in := input.(hInput)
		bit := uint32(1) << uint(in.Src)
		switch in.K {
		case "add":
			return true, st | bit
		case "remove", "drop":
			return true, st &^ bit
		}
		return output.(bool) == (st != 0), st
	},
	Equal: func(a, b interface{}) bool { return a.(uint32) == b.(uint32) },
	DescribeOperation: func(in, out interface{}) string {
		i := in.(hInput)
		if i.K == "contains" {
			return fmt.Sprintf("contains(r%d)=%v", i.Key, out)
		}
		return fmt.Sprintf("%s(s%d,r%d)", i.K, i.Src, i.Key)
	},
}

func genConc(rng *rand.Rand) concCase {
	c := concCase{Kind: "conc", Routes: genRoutes(rng, 3), DupFree: rng.IntN(2) == 0, Yield: rng.Uint64()}
	nsrc := 3 + rng.IntN(2)
	per := 6 + rng.IntN(7) // <= 12 ops per source, <= 48 writes
	for s := 0; s < nsrc; s++ {
		c.Scripts = append(c.Scripts, genOps(rng, per, nsrc, 3, s, c.DupFree))
	}
	for i, n := 0, 8+rng.IntN(5); i < n; i++ {
		c.Reads = append(c.Reads, rng.IntN(3))
	}
	return c
}

// runConc executes the scripts once and returns the history.
func runConc(c concCase, run int) (hist []porcupine.Operation, panicked string) {
	g := newRig(len(c.Scripts), c.Routes)
	var clock atomic.Int64
	var mu sync.Mutex
	var wg sync.WaitGroup
	start := make(chan struct{})
	rec := func(client int, in hInput, out interface{}, call, ret int64) {
		mu.Lock()
		hist = append(hist, porcupine.Operation{ClientId: client, Input: in, Output: out, Call: call, Return: ret})
		mu.Unlock()
	}
	guard := func() {
		if p := recover(); p != nil {
			buf := make([]byte, 1500)
			buf = buf[:runtime.Stack(buf, false)]
			mu.Lock()
			panicked = fmt.Sprintf("%v\n%s", p, buf)
			mu.Unlock()
		}
	}
	for s := range c.Scripts {
		wg.Add(1)
		go func(s int) {
			defer wg.Done()
			defer guard()
			y := rand.New(rand.NewPCG(c.Yield+uint64(run), uint64(s)))
			<-start
			for _, o := range c.Scripts[s] {
				for k := y.IntN(3); k > 0; k-- {
					runtime.Gosched()
				}
				call := clock.Add(1)
				g.apply(o)
				ret := clock.Add(1)
				if o.K == "drop" {
					for k := range c.Routes {
						rec(s, hInput{"drop", s, k}, nil, call, ret)
					}
				} else {
					rec(s, hInput{o.K, s, o.Key}, nil, call, ret)
				}
			}
		}(s)
	}
	wg.Add(1)
	go func() {
		defer wg.Done()
		defer guard()
		y := rand.New(rand.NewPCG(c.Yield+uint64(run), 99))
		<-start
		for _, k := range c.Reads {
			for j := y.IntN(4); j > 0; j-- {
				runtime.Gosched()
			}
			call := clock.Add(1)
			got := g.contains(k)
			ret := clock.Add(1)
			rec(len(c.Scripts), hInput{"contains", 0, k}, got, call, ret)
		}
	}()
	close(start)
	wg.Wait()
	// final quiescent reads: after all writers returned the table must equal the model's final state on every key
	for k := range c.Routes {
		call := clock.Add(1)
		got := g.contains(k)
		ret := clock.Add(1)
		rec(len(c.Scripts), hInput{"contains", 0, k}, got, call, ret)
	}
	return hist, panicked
}

// dupInScripts reports per key whether some source re-advertises the key while (in its own program order) still advertising it.
func dupInScripts(c concCase) []bool {
	out := make([]bool, len(c.Routes))
	for _, sc := range c.Scripts {
		adv := map[int]bool{}
		for _, o := range sc {
			switch o.K {
			case "add":
				if adv[o.Key] {
					out[o.Key] = true
				}
				adv[o.Key] = true
			case "remove":
				delete(adv, o.Key)
			case "drop":
				adv = map[int]bool{}
			}
		}
	}
	return out
}

type concResult struct {
	ops      int
	overlaps int // pairs of operations of different clients on one key that overlap in time
	unknown  bool
}

func checkConc(c concCase, run int, viol func(clause string, f map[string]string, detail string)) (res concResult) {
	hist, panicked := runConc(c, run)
	if panicked != "" {
		viol("panic", vf.F("mode", "concurrent"), "panic in a workload goroutine: "+panicked)
		return
	}
	res.ops = len(hist)
	parts := model.Partition(hist)
	dups := dupInScripts(c)
	for _, part := range parts {
		for i := range part {
			for j := i + 1; j < len(part); j++ {
				if part[i].ClientId != part[j].ClientId && part[i].Call < part[j].Return && part[j].Call < part[i].Return {
					res.overlaps++
				}
			}
		}
		key := part[0].Input.(hInput).Key
		single := model
		single.Partition = nil
		switch porcupine.CheckOperationsTimeout(single, part, 30*time.Second) {
		case porcupine.Unknown:
			res.unknown = true
		case porcupine.Illegal:
			sort.Slice(part, func(a, b int) bool { return part[a].Call < part[b].Call })
			var b strings.Builder
			for _, o := range part {
				fmt.Fprintf(&b, "[%d,%d] c%d %s; ", o.Call, o.Return, o.ClientId, model.DescribeOperation(o.Input, o.Output))
			}
			viol("linearizability", vf.F("dup_advert", dups[key]), fmt.Sprintf("history of route r%d (%s) is not linearizable w.r.t. the set-of-sources model: %s", key, c.Routes[key], b.String()))
		}
	}
	return
}

func main() {
	vf.Main("C29", "exploration", func(r *vf.Run) {
		r.Rule("sequential: PRNG histories of 40 operations (50% AddRoute, 35% RemoveRoute, 15% DropAllBySrc) by 2-4 sources over 3 route keys (IPv4 or IPv6, BGP or static paths, keys may share a prefix and differ in the next hops; one key in eight is the default route 0.0.0.0/0 resp. ::/0, one in eight a host route /32 resp. /128, the others /16 resp. /48; one route in three carries 2-3 paths in its API message); half of the histories never re-advertise a key a source is already advertising, the other half do; after EVERY operation ContainsPfxPath for every key, the Loc-RIB dump and nothing else is compared with the set-of-sources model. concurrent: 3-4 source goroutines with scripts of 6-12 operations plus a reader of 8-12 probes and a final quiescent probe of every key, call/return stamped from one atomic counter, checked with porcupine per route key (DropAllBySrc = one operation per key). RIS clients: 2-3 real risclient.RISClients, each on its own in-memory gRPC connection to a fake RIS server with a scripted ObserveRIB stream, write to the merged RIB; PRNG histories of up to 18 events (advertisement, withdrawal, graceful Stop() followed by one more update or the end of the stream, end of stream, stream error, loss of the server, a new client on the same connection); after every event (update: the client's call into the merged RIB returned; source gone: its DropAllBySrc returned or its goroutine left RISClient.serviceLoop) the same ContainsPfxPath + dump comparison with the set-of-sources model. Reconnecting RIS clients: histories in which ONE client lives through 2 (thorough: 2-3) ObserveRIB sessions: it learns routes (4-7 advertisements/withdrawals per session, two in five by other sources), loses its stream (end of stream or stream error) WITHOUT being stopped, opens the next stream by its own retry loop (real backoff timer, 2.5-7.5 s), learns routes again and loses that stream too (end of stream, stream error or graceful Stop()); same comparison after every event (violations after the loss of a later session carry after=ris-<how>-of-reconnected-client). distinct_nontrivial = distinct histories in which some key is advertised by two sources at once AND the last advertising source withdraws or is dropped (sequential), or in which operations of different goroutines on one key overlap in time (concurrent)")
		r.Assume("a source is an opaque comparable value (the RIS client passes its *grpc.ClientConn); one goroutine per source, as in the RIS mirror", "distinct route keys never share a (prefix, path) pair; a route of several paths is present when the Loc-RIB holds at least one of its paths under its prefix (which ones get installed is bio-rd's choice) and absent when it holds none of them", "cross-key atomicity of DropAllBySrc is not claimed", "a RIS source has gone away when its client left the service loop for any reason (Stop, end of stream, stream error, server lost); a client that was told to Stop() but is still blocked in Recv is not judged", "a porcupine timeout (30 s per key) makes the run inconclusive, not violated")
		// the first witness of every signature is minimised (greedy removal of operations while the same
		// clause with the same features still fires) before it is recorded
		var shrunkMu sync.Mutex
		shrunk := map[string]*sync.Once{}
		mkSeq := func(c seqCase) func(string, map[string]string, string) {
			return func(clause string, f map[string]string, detail string) {
				v := vf.Violation{Clause: clause, Features: f, Detail: detail, Case: c}
				sig := v.Signature()
				shrunkMu.Lock()
				once := shrunk[sig]
				if once == nil {
					once = &sync.Once{}
					shrunk[sig] = once
				}
				shrunkMu.Unlock()
				once.Do(func() {
					fires := func(cand seqCase) (string, bool) {
						var d string
						hit := false
						runSeq(cand, &seqStats{byOp: map[string]int{}}, func(cl string, ff map[string]string, dd string) {
							w := vf.Violation{Clause: cl, Features: ff}
							if !hit && w.Signature() == sig {
								hit, d = true, dd
							}
						})
						return d, hit
					}
					cur := c
					for changed := true; changed; {
						changed = false
						for i := 0; i < len(cur.Ops); i++ {
							cand := cur
							cand.Ops = append(append([]op{}, cur.Ops[:i]...), cur.Ops[i+1:]...)
							if d, ok := fires(cand); ok {
								cur, v.Detail, changed = cand, d, true
								i--
							}
						}
					}
					v.Case = cur
					r.Violate(v)
				})
				r.Violate(v)
			}
		}
		mkConc := func(c concCase) func(string, map[string]string, string) {
			return func(clause string, f map[string]string, detail string) {
				r.Violate(vf.Violation{Clause: clause, Features: f, Detail: detail, Case: c})
			}
		}
		mkRIS := func(c risCase) func(string, map[string]string, string) {
			return func(clause string, f map[string]string, detail string) {
				r.Violate(vf.Violation{Clause: clause, Features: f, Detail: detail, Case: c})
			}
		}
		if raw, ok := r.Replaying(); ok {
			var k struct {
				Kind string `json:"kind"`
			}
			vf.Decode(raw, &k)
			if k.Kind == "ris" {
				var c risCase
				vf.Decode(raw, &c)
				if w := runRIS(c, "replay", &seqStats{byOp: map[string]int{}}, mkRIS(c)); w != "" {
					r.Inconclusive("RIS client phase: " + w)
				}
				return
			}
			if k.Kind == "conc" {
				var c concCase
				vf.Decode(raw, &c)
				// schedule dependent: re-run the same scripts until the monitor fires again (bounded)
				for run := 0; run < 300 && r.Violations() == 0; run++ {
					checkConc(c, run, mkConc(c))
				}
				return
			}
			var c seqCase
			vf.Decode(raw, &c)
			st := &seqStats{byOp: map[string]int{}}
			runSeq(c, st, mkSeq(c))
			return
		}
		var mu sync.Mutex
		risWedged := ""
		byOp := map[string]int{}
		risPhase := func(n, width int, name string, gen func(i int) risCase) {
			vf.Parallel(n, width, func(i int) {
				c := gen(i)
				st := &seqStats{byOp: map[string]int{}}
				if w := runRIS(c, fmt.Sprint(name, i), st, mkRIS(c)); w != "" {
					r.Count("ris_watchdog_expiries", 1)
					mu.Lock()
					risWedged = w
					mu.Unlock()
				}
				r.Eval(st.checks)
				r.Count("ris_client_events", st.ops)
				r.Count("default_routes_losing_last_source", st.defaultLastGone)
				r.Count("host_routes_losing_last_source", st.hostLastGone)
				mu.Lock()
				for k, v := range st.byOp {
					byOp[k] += v
				}
				mu.Unlock()
				if st.multiSource && st.lastSourceWithdraws {
					r.Nontrivial(fmt.Sprintf("%s/%d", name, i))
				}
				if i < 1 {
					r.Sample(map[string]any{"mode": name, "sources": c.NSrc, "ops": c.Ops})
				}
			})
		}
		// reconnecting RIS clients: the histories mostly wait for the clients' own retry timers (2.5-7.5 s before the first
		// retry, 3.75-11.25 s before the second), so all of a batch run side by side and next to the other phases
		nrec := r.N(24, 480)
		recDone := make(chan struct{})
		go func() {
			defer close(recDone)
			risPhase(nrec, 48, "ris-reconnect", func(i int) risCase {
				rng := r.RandN("c29risrec", i)
				nre := 1
				if !r.Quick() && rng.IntN(4) == 0 {
					nre = 2
				}
				return genRISReconnect(rng, nre)
			})
		}()
		nseq := r.N(5000, 200000)
		vf.Parallel(nseq, 8, func(i int) {
			rng := r.RandN("c29seq", i)
			nsrc := 2 + rng.IntN(3)
			c := seqCase{Kind: "seq", NSrc: nsrc, Routes: genRoutes(rng, 3)}
			c.Ops = genOps(rng, 40, nsrc, 3, -1, i%2 == 0)
			st := &seqStats{byOp: map[string]int{}}
			runSeq(c, st, mkSeq(c))
			r.Eval(st.checks)
			mu.Lock()
			for k, v := range st.byOp {
				byOp[k] += v
			}
			mu.Unlock()
			r.Count("sequential_operations", st.ops)
			r.Count("repeated_advertisements", st.dupAdverts)
			r.Count("multi_path_routes_losing_last_source", st.multiPathLastGone)
			r.Count("default_routes_losing_last_source", st.defaultLastGone)
			r.Count("host_routes_losing_last_source", st.hostLastGone)
			if st.multiSource && st.lastSourceWithdraws {
				r.Nontrivial(fmt.Sprintf("seq/%d", i))
			}
			if i < 2 {
				r.Sample(map[string]any{"mode": "sequential", "sources": nsrc, "routes": []string{c.Routes[0].String(), c.Routes[1].String(), c.Routes[2].String()}, "first_ops": c.Ops[:12]})
			}
		})
		r.Count("sequential_histories", nseq)
		nconc := r.N(400, 20000)
		vf.Parallel(nconc, 4, func(i int) {
			rng := r.RandN("c29conc", i)
			c := genConc(rng)
			res := checkConc(c, 0, mkConc(c))
			r.Eval(res.ops)
			r.Count("concurrent_operations", res.ops)
			r.Count("overlapping_operation_pairs", res.overlaps)
			if res.unknown {
				r.Count("porcupine_timeouts", 1)
			}
			if res.overlaps > 0 {
				r.Nontrivial(fmt.Sprintf("conc/%d", i))
			}
			if i < 1 {
				r.Sample(map[string]any{"mode": "concurrent", "dup_free": c.DupFree, "scripts": c.Scripts, "reads": c.Reads})
			}
		})
		r.Count("concurrent_histories", nconc)
		// producer side: real RIS clients over scripted ObserveRIB streams
		nris := r.N(150, 6000)
		risPhase(nris, 4, "ris", func(i int) risCase { return genRIS(r.RandN("c29ris", i)) })
		<-recDone
		r.Count("ris_reconnect_histories", nrec)
		r.Count("ris_client_reconnects", byOp["ris-reconnect"])
		r.Count("ris_later_sessions_lost", byOp["ris-later-session-lost"])
		r.Count("ris_sole_source_routes_at_loss_of_later_session", byOp["ris-later-session-lost-sole-source-routes"])
		r.Require("ris_later_sessions_lost", int64(nrec*3/4))
		r.Require("ris_sole_source_routes_at_loss_of_later_session", int64(nrec/2))
		r.Count("ris_client_histories", nris)
		for _, k := range []string{"stop", "eof", "break", "kill"} {
			r.Count("ris_sources_gone_by_"+k, byOp["ris-"+k])
			r.Require("ris_sources_gone_by_"+k, 10)
		}
		if risWedged != "" {
			r.Inconclusive("RIS client phase: " + risWedged)
		}
		r.Set("sequential_ops_by_kind", byOp)
		if n := r.Counter("porcupine_timeouts"); n > 0 {
			r.Inconclusive(fmt.Sprintf("porcupine timed out on %d history partition(s)", n))
		}
		r.Require("sequential_operations", 1000)
		r.Require("multi_path_routes_losing_last_source", 100)
		r.Require("default_routes_losing_last_source", 100)
		r.Require("host_routes_losing_last_source", 100)
		r.Require("overlapping_operation_pairs", 100)
	})
}
