// C29, producer side: real risclient.RISClients (one per source, each with its own in-memory gRPC connection to a fake
// RIS server whose ObserveRIB stream is scripted) feed the merged RIB. A source "goes away" by graceful Stop() (noticed
// with the next update or the end of the stream), by the end of the stream, by a stream error or by losing the server;
// afterwards the same set-of-sources model must hold. A client whose stream ended or broke and that was not stopped
// reconnects by itself (backoff.Retry around runORC, first retry after 2.5-7.5 s): "reconnect" histories let ONE client
// live through several ObserveRIB sessions and lose each of them. Synchronisation is logical: an update counts as delivered when the
// client's call into the merged RIB has returned; a client counts as gone when its goroutine (found by a pprof label)
// has left RISClient.serviceLoop.
package main

import (
	"bytes"
	"context"
	"fmt"
	"math/rand/v2"
	"net"
	"runtime/pprof"
	"strings"
	"time"

	risapi "github.com/bio-routing/bio-rd/cmd/ris/api"
	"github.com/bio-routing/bio-rd/risclient"
	routeapi "github.com/bio-routing/bio-rd/route/api"
	"google.golang.org/grpc"
	"google.golang.org/grpc/codes"
	"google.golang.org/grpc/credentials/insecure"
	"google.golang.org/grpc/status"
	"google.golang.org/grpc/test/bufconn"
)

type risOp struct {
	K   string `json:"k"` // add | remove | stop | eof | break | kill | restart | reconnect
	Src int    `json:"src"`
	Key int    `json:"key,omitempty"`
	Via string `json:"via,omitempty"` // stop: what the loop sees next: add | remove | eof
	// eof | break: the client is NOT stopped afterwards: its own retry loop (backoff.Retry around runORC) opens a new
	// ObserveRIB stream on the same client; the next event of this source is "reconnect" (wait for that stream)
	Keep bool `json:"keep,omitempty"`
}

func (o risOp) String() string {
	switch o.K {
	case "add", "remove":
		return fmt.Sprintf("%s(s%d,r%d)", o.K, o.Src, o.Key)
	case "stop":
		return fmt.Sprintf("Stop(s%d)+%s(r%d)", o.Src, o.Via, o.Key)
	}
	if o.Keep {
		return fmt.Sprintf("%s(s%d, client keeps retrying)", o.K, o.Src)
	}
	return fmt.Sprintf("%s(s%d)", o.K, o.Src)
}

type risCase struct {
	Kind   string      `json:"kind"` // "ris"
	NSrc   int         `json:"nsrc"`
	Routes []routeSpec `json:"routes"`
	Ops    []risOp     `json:"ops"`
}

func genRIS(rng *rand.Rand) risCase {
	c := risCase{Kind: "ris", NSrc: 2 + rng.IntN(2), Routes: genRoutes(rng, 3)}
	state := make([]int, c.NSrc) // 0 up, 1 down (client gone, server alive), 2 dead
	for i := 0; i < 18; i++ {
		s, k, x := rng.IntN(c.NSrc), rng.IntN(3), rng.IntN(100)
		switch {
		case state[s] == 2:
		case state[s] == 1:
			c.Ops, state[s] = append(c.Ops, risOp{K: "restart", Src: s}), 0
		case x < 50:
			c.Ops = append(c.Ops, risOp{K: "add", Src: s, Key: k})
		case x < 72:
			c.Ops = append(c.Ops, risOp{K: "remove", Src: s, Key: k})
		case x < 86:
			c.Ops, state[s] = append(c.Ops, risOp{K: "stop", Src: s, Key: k, Via: []string{"add", "remove", "eof"}[rng.IntN(3)]}), 1
		case x < 96:
			c.Ops, state[s] = append(c.Ops, risOp{K: []string{"eof", "break"}[rng.IntN(2)], Src: s}), 1
		default:
			c.Ops, state[s] = append(c.Ops, risOp{K: "kill", Src: s}), 2
		}
	}
	return c
}

// genRISReconnect: histories in which ONE client lives through several ObserveRIB sessions: it learns routes, loses its
// stream (end of stream or stream error), reconnects by its own retry loop, learns routes again and loses the stream
// again (nre reconnects; the last loss may also be a graceful Stop()). The other sources advertise and withdraw in between.
func genRISReconnect(rng *rand.Rand, nre int) risCase {
	c := risCase{Kind: "ris", NSrc: 2 + rng.IntN(2), Routes: genRoutes(rng, 3)}
	s0 := rng.IntN(c.NSrc)
	session := func() {
		c.Ops = append(c.Ops, risOp{K: "add", Src: s0, Key: rng.IntN(3)}) // every session learns at least one route
		for i, n := 0, 3+rng.IntN(4); i < n; i++ {
			s, k := s0, rng.IntN(3)
			if rng.IntN(5) < 2 {
				s = rng.IntN(c.NSrc)
			}
			if rng.IntN(100) < 70 {
				c.Ops = append(c.Ops, risOp{K: "add", Src: s, Key: k})
			} else {
				c.Ops = append(c.Ops, risOp{K: "remove", Src: s, Key: k})
			}
		}
	}
	for i := 0; i < nre; i++ {
		session()
		c.Ops = append(c.Ops, risOp{K: []string{"eof", "break"}[rng.IntN(2)], Src: s0, Keep: true}, risOp{K: "reconnect", Src: s0})
	}
	session()
	if rng.IntN(3) == 0 {
		c.Ops = append(c.Ops, risOp{K: "stop", Src: s0, Key: rng.IntN(3), Via: []string{"add", "remove", "eof"}[rng.IntN(3)]})
	} else {
		c.Ops = append(c.Ops, risOp{K: []string{"eof", "break"}[rng.IntN(2)], Src: s0})
	}
	return c
}

type risItem struct {
	u   *risapi.RIBUpdate
	err error
}

// fakeRIS serves ObserveRIB from scripted streams: every call takes the next script channel.
type fakeRIS struct {
	risapi.UnimplementedRoutingInformationServiceServer
	streams chan chan risItem
	opened  chan struct{} // one token per ObserveRIB call that reached the server
}

func (f *fakeRIS) ObserveRIB(_ *risapi.ObserveRIBRequest, st risapi.RoutingInformationService_ObserveRIBServer) error {
	f.opened <- struct{}{}
	for ch := <-f.streams; ; {
		select {
		case it := <-ch:
			if it.u == nil {
				return it.err // nil: the client sees io.EOF
			}
			if err := st.Send(it.u); err != nil {
				return err
			}
		case <-st.Context().Done():
			return st.Context().Err()
		}
	}
}

// risSrc is one upstream RIS instance with the client connection (= the source identity) and the current RIS client.
type risSrc struct {
	fake    *fakeRIS
	srv     *grpc.Server
	cc      *grpc.ClientConn
	cl      *risclient.RISClient
	ch      chan risItem
	label   string
	halted  bool          // Stop() was called on cl (a second call would panic)
	recv    chan struct{} // one token per Recv the client enters on its stream (it is inside serviceLoop, about to block)
	done    chan struct{} // one token per AddRoute / RemoveRoute of this source that returned
	dropped chan struct{} // one token per DropAllBySrc of this source that returned
	session int           // number of the ObserveRIB session of the current client (1 = first)
}

func (s *risSrc) stop() {
	if !s.halted {
		s.halted = true
		s.cl.Stop()
	}
}

// obsStream reports every Recv the RIS client enters.
type obsStream struct {
	grpc.ClientStream
	recv chan struct{}
}

func (o *obsStream) RecvMsg(m interface{}) error {
	o.recv <- struct{}{}
	return o.ClientStream.RecvMsg(m)
}

// tokClient is the risclient.Client the RIS clients write to: the real merged RIB, plus the tokens above.
type tokClient struct {
	g  *rig
	by map[interface{}]*risSrc
}

func (t *tokClient) AddRoute(src interface{}, r *routeapi.Route) error {
	defer func() { t.by[src].done <- struct{}{} }()
	return t.g.m.AddRoute(src, r)
}
func (t *tokClient) RemoveRoute(src interface{}, r *routeapi.Route) error {
	defer func() { t.by[src].done <- struct{}{} }()
	return t.g.m.RemoveRoute(src, r)
}
func (t *tokClient) DropAllBySrc(src interface{}) {
	t.g.m.DropAllBySrc(src)
	t.by[src].dropped <- struct{}{}
}

// inServiceLoop: a goroutine started under the label is executing RISClient.serviceLoop (deferred calls included).
// Expensive (goroutine profile); only used to tell "has not dropped yet" from "left without dropping".
func inServiceLoop(label string) bool {
	var b bytes.Buffer
	pprof.Lookup("goroutine").WriteTo(&b, 1)
	for _, blk := range strings.Split(b.String(), "\n\n") {
		if strings.Contains(blk, `"c29ris":"`+label+`"`) && strings.Contains(blk, "(*RISClient).serviceLoop") {
			return true
		}
	}
	return false
}

const risWatchdog = 20 * time.Second

// the client's retry loop waits 2.5-7.5 s before its first retry, 3.75-11.25 s before the second, ...
const risReconnectWatchdog = 60 * time.Second

// runRIS executes one case; id makes the goroutine labels unique. wedged reports a watchdog expiry (decides nothing).
func runRIS(c risCase, id string, st *seqStats, viol func(string, map[string]string, string)) (wedged string) {
	g := newRig(0, c.Routes)
	failed := false // the first event after which the table is wrong ends the case: what follows would only echo it
	ck := newChecker(g, st, func(cl string, f map[string]string, d string) { failed = true; viol(cl, f, d) })
	tc := &tokClient{g: g, by: map[interface{}]*risSrc{}}
	srcs := make([]*risSrc, c.NSrc)
	awaitFor := func(ch chan struct{}, what string, d time.Duration) bool {
		select {
		case <-ch:
			return true
		case <-time.After(d):
			wedged = what
			return false
		}
	}
	await := func(ch chan struct{}, what string) bool { return awaitFor(ch, what, risWatchdog) }
	start := func(i, gen int) bool {
		s := srcs[i]
		s.ch, s.label, s.halted, s.session = make(chan risItem, 8), fmt.Sprintf("%s/%d/%d", id, i, gen), false, 1
		s.recv, s.dropped = make(chan struct{}, 64), make(chan struct{}, 64) // no stale tokens of the previous client
		s.fake.streams <- s.ch
		s.cl = risclient.New(&risclient.Request{Router: "r", VRFRD: 1}, s.cc, tc)
		pprof.Do(context.Background(), pprof.Labels("c29ris", s.label), func(context.Context) { s.cl.Start() })
		// the stream exists on both ends (gRPC would silently re-create a stream the server never saw when the server goes away)
		return await(s.fake.opened, "ObserveRIB never reached the server") && await(s.recv, "client never called Recv on its ObserveRIB stream")
	}
	for i := range srcs {
		lis := bufconn.Listen(1 << 16)
		s := &risSrc{fake: &fakeRIS{streams: make(chan chan risItem, 4), opened: make(chan struct{}, 4)}, srv: grpc.NewServer(), done: make(chan struct{}, 64)}
		risapi.RegisterRoutingInformationServiceServer(s.srv, s.fake)
		go s.srv.Serve(lis)
		cc, err := grpc.Dial("bufnet", grpc.WithContextDialer(func(ctx context.Context, _ string) (net.Conn, error) { return lis.DialContext(ctx) }),
			grpc.WithTransportCredentials(insecure.NewCredentials()),
			grpc.WithStreamInterceptor(func(ctx context.Context, d *grpc.StreamDesc, cc *grpc.ClientConn, m string, sr grpc.Streamer, o ...grpc.CallOption) (grpc.ClientStream, error) {
				cs, err := sr(ctx, d, cc, m, o...)
				return &obsStream{cs, s.recv}, err
			}))
		if err != nil {
			return "grpc.Dial: " + err.Error()
		}
		s.cc, srcs[i], tc.by[cc] = cc, s, s
		g.srcs = append(g.srcs, &source{id: i})
		defer func() { s.srv.Stop(); s.cc.Close() }()
	}
	for i, s := range srcs {
		if !start(i, 0) {
			return
		}
		defer s.stop()
	}
	trace := func(upto int) string {
		var b strings.Builder
		for i := 0; i <= upto; i++ {
			b.WriteString(c.Ops[i].String() + "; ")
		}
		return b.String()
	}
	// send: one update; it is delivered when the client's call into the merged RIB has returned; a client that is not
	// told to stop then enters Recv again (so a later Stop() always finds it blocked there, as in a quiet network).
	send := func(s *risSrc, o risOp, kind string) bool {
		s.ch <- risItem{u: &risapi.RIBUpdate{Advertisement: kind == "add", Route: c.Routes[o.Key].api()}}
		if !await(s.done, "update never reached the merged RIB") {
			return false
		}
		ck.note(op{K: kind, Src: o.Src, Key: o.Key})
		return s.halted || await(s.recv, "client did not return to Recv after an update")
	}
	for i, o := range c.Ops {
		s := srcs[o.Src]
		after := "ris-" + o.K
		switch o.K {
		case "add", "remove":
			if !send(s, o, o.K) {
				return
			}
		case "restart":
			if !start(o.Src, i+1) {
				return
			}
		case "reconnect":
			// the SAME client opens its next ObserveRIB stream (backoff.Retry calls runORC again) and blocks in Recv on it
			if s.halted {
				return "case asks a stopped client to reconnect"
			}
			s.ch = make(chan risItem, 8)
			s.fake.streams <- s.ch
			if !awaitFor(s.fake.opened, "client did not open a new ObserveRIB stream after losing the previous one", risReconnectWatchdog) ||
				!await(s.recv, "client never called Recv on its new ObserveRIB stream") {
				return
			}
			// the client is in its next session: a DropAllBySrc token still here belongs to the previous one (its end was
			// seen by the goroutine poll first)
			for stale := true; stale; {
				select {
				case <-s.dropped:
				default:
					stale = false
				}
			}
			s.session++
			st.byOp["ris-reconnect"]++
		default: // the source goes away
			switch {
			case o.K == "stop":
				s.stop()
				if o.Via != "eof" && !send(s, o, o.Via) {
					return
				}
				s.ch <- risItem{}
			case o.K == "kill":
				s.srv.Stop()
			case o.K == "break":
				s.ch <- risItem{err: status.Error(codes.Unavailable, "scripted stream error")}
			default:
				s.ch <- risItem{}
			}
			// gone: its DropAllBySrc returned, or its goroutine is no longer in serviceLoop (then it never will drop)
			for t0, gone := time.Now(), false; !gone; {
				select {
				case <-s.dropped:
					gone = true
				case <-time.After(5 * time.Millisecond):
					gone = !inServiceLoop(s.label)
					st.byOp["ris-goroutine-polls"]++
				}
				if !gone && time.Since(t0) > risWatchdog {
					return "client never left serviceLoop after " + o.K
				}
			}
			if !o.Keep {
				s.stop() // no reconnect when the backoff timer fires
			}
			if s.session > 1 {
				// a later session of one client ended: everything it learned in THIS session has to go as well
				after = "ris-" + o.K + "-of-reconnected-client"
				st.byOp["ris-later-session-lost"]++
				for k := range ck.model {
					if ck.model[k] == 1<<uint(o.Src) {
						st.byOp["ris-later-session-lost-sole-source-routes"]++
					}
				}
			}
			ck.note(op{K: "drop", Src: o.Src})
			st.byOp["ris-"+o.K]++
		}
		st.ops++
		if ck.verify(i, after, trace); failed {
			break
		}
	}
	return
}
