// C08: an Adj-RIB-Out equals the export view of the Loc-RIB at every quiescent point.
// Oracle: after EVERY Loc-RIB operation of a generated history (all table calls are synchronous, so the return of
// the call is the quiescent point) the reference export function of C09 (internal/rig/export.go) is applied to the
// first N paths of LocRIB.Get(prefix) the session's add-path setting selects, then the reference policy
// interpreter, and the result is compared per prefix, as a set keyed by the unique path id, with AdjRIBOut.Dump()
// of every registered session. The Loc-RIB's own content and order are taken as input (C02-C04 judge them).
package main

import (
	"fmt"
	"math/rand/v2"
	"os"
	"sort"
	"strings"
	"sync"
	"time"

	bnet "github.com/bio-routing/bio-rd/net"
	"github.com/bio-routing/bio-rd/protocols/bgp/types"

	"verifharness/internal/gen"
	"verifharness/internal/rig"
	"verifharness/internal/vf"
)

type op struct {
	K   string `json:"k"` // add | remove | replace | attach
	Pfx int    `json:"pfx"`
	ID  uint32 `json:"id,omitempty"`  // path added / removed / replaced
	New uint32 `json:"new,omitempty"` // replace: the new path
	S   int    `json:"s,omitempty"`   // attach: session index
}

type sessCfg struct {
	Sess   rig.Sess   `json:"sess"`
	Policy rig.Policy `json:"policy"`
	Late   bool       `json:"late,omitempty"` // registered by an attach op (initial dump) instead of up front
	Skip   bool       `json:"skip,omitempty"` // removed by the shrinker
}

type hist struct {
	V4       bool                `json:"v4"`
	Universe []gen.P             `json:"universe"`
	Sessions []sessCfg           `json:"sessions"`
	Paths    map[uint32]rig.Attr `json:"paths"`
	Ops      []op                `json:"ops"`
}

func genHist(rng *rand.Rand, nops int) hist {
	h := hist{V4: rng.IntN(3) != 0, Paths: map[uint32]rig.Attr{}}
	h.Universe = gen.Universe(rng, h.V4, 8)
	ns := 2 + rng.IntN(3)
	for _, s := range rig.GenSessions(rng, ns, []uint{0, 0, 2, 4}) {
		sc := sessCfg{Sess: s}
		switch rng.IntN(4) {
		case 0:
			sc.Policy = rig.AcceptAll()
		case 1:
			sc.Policy = rig.GenPolicy(rng, h.Universe, rig.GenOpts{NoModify: true})
		default:
			sc.Policy = rig.GenPolicy(rng, h.Universe, rig.GenOpts{})
		}
		sc.Late = rng.IntN(4) == 0
		h.Sessions = append(h.Sessions, sc)
	}
	next := uint32(1)
	// stored[pfx] = ids currently in the Loc-RIB; slot = (source index, rx path id) a path occupies; static = -1
	type slot struct{ src, rx int }
	stored := map[int][]uint32{}
	slotOf := map[uint32]slot{}
	staticPfx := map[int]bool{}
	for i := range h.Universe {
		if rng.IntN(4) == 0 {
			staticPfx[i] = true // static and BGP paths are kept on different prefixes (the Loc-RIB cannot hold both, see report)
		}
	}
	newPath := func(pi int, sl slot) uint32 {
		id := next
		next++
		if sl.src < 0 {
			h.Paths[id] = rig.Attr{ID: id, Static: true}
		} else {
			a := rig.GenPath(rng, id, rig.Sources[sl.src], rig.PathOpts{Dedup: true, Unknown: true, RRAttrs: true, WellKnownMix: true})
			a.PathID = uint32(sl.rx)
			// sometimes a sibling of a stored path from the same source that differs in communities only
			if sl.rx > 0 {
				for _, oid := range stored[pi] {
					if o := slotOf[oid]; o.src == sl.src && o.rx != sl.rx && rng.IntN(2) == 0 {
						b := h.Paths[oid].Clone()
						b.ID, b.PathID = id, uint32(sl.rx)
						b.Comms = []uint32{65000<<16 | 77}
						a = b
						break
					}
				}
			}
			h.Paths[id] = a
		}
		slotOf[id] = sl
		return id
	}
	freeSlot := func(pi int) (slot, bool) {
		if staticPfx[pi] {
			return slot{src: -1, rx: int(next)}, true
		}
		for try := 0; try < 6; try++ {
			sl := slot{src: rng.IntN(len(rig.Sources))}
			if rng.IntN(5) == 0 {
				sl.rx = 1 + rng.IntN(2)
			}
			taken := false
			for _, oid := range stored[pi] {
				if slotOf[oid] == sl {
					taken = true
				}
			}
			if !taken {
				return sl, true
			}
		}
		return slot{}, false
	}
	late := []int{}
	for i, s := range h.Sessions {
		if s.Late {
			late = append(late, i)
		}
	}
	for len(h.Ops) < nops {
		if len(late) > 0 && rng.IntN(nops/2+1) < 2 {
			h.Ops = append(h.Ops, op{K: "attach", S: late[0]})
			late = late[1:]
			continue
		}
		pi := rng.IntN(len(h.Universe))
		if rng.IntN(3) != 0 {
			pi = rng.IntN(1 + len(h.Universe)/2) // bias to a working subset so that prefixes hold several paths
		}
		ids := stored[pi]
		x := rng.IntN(100)
		switch {
		case x < 45 || len(ids) == 0:
			sl, ok := freeSlot(pi)
			if !ok {
				continue
			}
			id := newPath(pi, sl)
			h.Ops = append(h.Ops, op{K: "add", Pfx: pi, ID: id})
			stored[pi] = append(stored[pi], id)
		case x < 75:
			j := rng.IntN(len(ids))
			h.Ops = append(h.Ops, op{K: "remove", Pfx: pi, ID: ids[j]})
			stored[pi] = append(append([]uint32{}, ids[:j]...), ids[j+1:]...)
		default:
			// the same neighbour sends a new path for the prefix: the Adj-RIB-In either withdraws and re-adds or replaces in place
			j := rng.IntN(len(ids))
			old := ids[j]
			id := newPath(pi, slotOf[old])
			if rng.IntN(2) == 0 {
				h.Ops = append(h.Ops, op{K: "replace", Pfx: pi, ID: old, New: id})
			} else {
				h.Ops = append(h.Ops, op{K: "remove", Pfx: pi, ID: old}, op{K: "add", Pfx: pi, ID: id})
			}
			stored[pi] = append(append(append([]uint32{}, ids[:j]...), ids[j+1:]...), id)
		}
	}
	for _, s := range late {
		h.Ops = append(h.Ops, op{K: "attach", S: s})
	}
	return h
}

type stats struct {
	ops, compared, staleChecks           int
	announced, withdrawn, bestChanges    map[string]int
	sawAnnounce, sawWithdraw, sawReplace bool
	sawStatic, sawLate, sawAddPathMulti  bool
	// distinct (session, path) pairs: an admitted path on which "rewrites, then policy" and "policy, then rewrites"
	// differ; a selected path with NO_EXPORT in front of NO_ADVERTISE on an iBGP session
	orderDecides, noAdvBehindNoExport int
	byWhy                             map[string]int
}

type result struct {
	viol []vf.Violation
	at   []int // op index at which each violation appeared
	st   stats
}

func apStr(s rig.Sess) string {
	if s.AddPath > 0 {
		return "true"
	}
	return "false"
}

func runHist(h hist) (res result) {
	st := &res.st
	st.announced, st.withdrawn, st.bestChanges, st.byWhy = map[string]int{}, map[string]int{}, map[string]int{}, map[string]int{}
	seen := map[string]bool{}
	curOp := 0
	// a discrepancy is blamed on the operation after which it first appears; it is not reported again while it persists
	prevDisc, curDisc := map[string]bool{}, map[string]bool{}
	viol := func(clause string, f map[string]string, detail string) {
		v := vf.Violation{Clause: clause, Features: f, Detail: detail, Case: h}
		if sig := v.Signature(); !seen[sig] {
			seen[sig] = true
			res.viol = append(res.viol, v)
			res.at = append(res.at, curOp)
		}
	}
	disc := func(key string, clause string, f func() map[string]string, detail func() string) {
		curDisc[key] = true
		if !prevDisc[key] {
			viol(clause, f(), detail())
		}
	}
	l := rig.DefaultLocal
	rg := rig.New(l, h.V4)
	outs := make([]*rig.Out, len(h.Sessions))
	recSeen := make([]int, len(h.Sessions))
	for i, s := range h.Sessions {
		if s.Skip {
			continue
		}
		outs[i] = rg.NewOut(s.Sess, s.Policy)
		if !s.Late {
			rg.Attach(outs[i])
		}
	}
	bio := make([]*bnet.Prefix, len(h.Universe))
	for i, p := range h.Universe {
		bio[i] = p.Bio()
	}
	orderSeen, wkSeen := map[[2]uint32]bool{}, map[[2]uint32]bool{}
	blockedSeen := map[int]bool{}      // session index -> a selected path barred by R1-R3 was seen at an earlier evaluation
	inLoc := map[int]map[uint32]bool{} // harness' own record of what it put into the Loc-RIB (for the stale/extra distinction only)
	for i, o := range h.Ops {
		curOp = i
		if o.K == "attach" && outs[o.S] == nil {
			continue
		}
		var bestBefore uint32
		if o.K != "attach" {
			if r := rg.Loc.Get(bio[o.Pfx]); r != nil && len(r.Paths()) > 0 {
				bestBefore = rig.FromPath(r.Paths()[0]).ID
			}
		}
		g := rig.Guard(func() {
			switch o.K {
			case "add":
				rg.Loc.AddPath(bio[o.Pfx], h.Paths[o.ID].Build(rg.Pool))
			case "remove":
				rg.Loc.RemovePath(bio[o.Pfx], h.Paths[o.ID].Build(rg.Pool))
			case "replace":
				rg.Loc.ReplacePath(bio[o.Pfx], h.Paths[o.ID].Build(rg.Pool), h.Paths[o.New].Build(rg.Pool))
			case "attach":
				rg.Attach(outs[o.S])
			}
		})
		if g != "" {
			viol("panic", vf.F("after", o.K, "site", rig.PanicSite(g)), fmt.Sprintf("op %d %+v: panic: %s", i, o, g))
			return // locks may be held; the tables are not usable any more
		}
		st.ops++
		if o.K != "attach" {
			if inLoc[o.Pfx] == nil {
				inLoc[o.Pfx] = map[uint32]bool{}
			}
			switch o.K {
			case "add":
				inLoc[o.Pfx][o.ID] = true
				st.sawStatic = st.sawStatic || h.Paths[o.ID].Static
			case "remove":
				delete(inLoc[o.Pfx], o.ID)
			case "replace":
				delete(inLoc[o.Pfx], o.ID)
				inLoc[o.Pfx][o.New] = true
			}
		} else {
			st.sawLate = true
		}
		// what each session's client saw during this operation (evidence only)
		for si, out := range outs {
			if out == nil {
				continue
			}
			evs := out.Rec.Since(recSeen[si])
			recSeen[si] += len(evs)
			for _, e := range evs {
				switch e.Kind {
				case "add":
					st.announced[out.Sess.Kind]++
					st.sawAnnounce = true
				case "remove":
					st.withdrawn[out.Sess.Kind]++
					st.sawWithdraw = true
				}
			}
		}
		if o.K != "attach" {
			var bestAfter uint32
			if r := rg.Loc.Get(bio[o.Pfx]); r != nil && len(r.Paths()) > 0 {
				bestAfter = rig.FromPath(r.Paths()[0]).ID
			}
			if bestBefore != 0 && bestAfter != 0 && bestBefore != bestAfter {
				st.bestChanges[o.K]++
				st.sawReplace = true
			}
		}
		// oracle
		prevDisc, curDisc = curDisc, map[string]bool{}
		for si, out := range outs {
			if out == nil || !out.Registered {
				continue
			}
			s := out.Sess
			pol := h.Sessions[si].Policy
			observed := map[string][]rig.Attr{}
			for _, rt := range out.Table.Dump() {
				k := gen.FromBio(rt.Prefix()).Key()
				for _, p := range rt.Paths() {
					observed[k] = append(observed[k], rig.FromPath(p))
				}
			}
			f := func(extra ...any) map[string]string {
				m := vf.F("session", s.Kind, "addpath", apStr(s))
				for j := 0; j+1 < len(extra); j += 2 {
					m[fmt.Sprint(extra[j])] = fmt.Sprint(extra[j+1])
				}
				return m
			}
			blockedBefore := blockedSeen[si]
			for pi, p := range h.Universe {
				k := p.Key()
				form := func(a rig.Attr) rig.Attr { return rig.ExportForm(l, s, pol, p, a) }
				var loc []rig.Attr
				if r := rg.Loc.Get(bio[pi]); r != nil {
					for _, lp := range r.Paths() {
						loc = append(loc, rig.FromPath(lp))
					}
				}
				n := s.Take(len(loc))
				if n >= 2 {
					st.sawAddPathMulti = true
				}
				type exp struct {
					a     rig.Attr
					cands []rig.Attr
					mask  []string
				}
				want := map[uint32]exp{}
				why := map[uint32]string{}
				for j, a := range loc {
					if j >= n {
						why[a.ID] = "not-selected"
						continue
					}
					c, m, w := rig.CandidatesPolicyLast(l, s, pol, p, a)
					if key := [2]uint32{uint32(si), a.ID}; s.IBGP() && !wkSeen[key] && noAdvertiseBehindNoExport(a) {
						wkSeen[key] = true
						st.noAdvBehindNoExport++
					}
					if key := [2]uint32{uint32(si), a.ID}; len(c) > 0 && s.Kind == rig.EBGP && !orderSeen[key] && rig.OrderMatters(l, s, pol, p, a) {
						orderSeen[key] = true
						st.orderDecides++
					}
					if len(c) == 0 {
						why[a.ID] = w
						st.byWhy[strings.SplitN(w, ":", 2)[0]]++
						continue
					}
					want[a.ID] = exp{a, c, m}
				}
				blockedSibling := false // a selected path of this prefix is barred by its communities or is the peer's own path
				for _, w := range why {
					if strings.HasPrefix(w, "R1") || strings.HasPrefix(w, "R2") || strings.HasPrefix(w, "R3") {
						blockedSibling = true
					}
				}
				if blockedSibling {
					blockedSeen[si] = true
				}
				obs := observed[k]
				delete(observed, k)
				st.compared++
				if o.K == "remove" && pi == o.Pfx {
					st.staleChecks++
				}
				ctx := func() string {
					return fmt.Sprintf("op %d %s %s (path %d) session %s policy %q: Loc-RIB (in preference order) %s, Adj-RIB-Out %s", i, o.K, p, o.ID, s, pol.String(), rig.OrderedList(loc), rig.ShortList(obs))
				}
				got := map[uint32]int{}
				dk := func(c string, id uint32) string { return fmt.Sprintf("%d|%s|%s|%d", si, c, k, id) }
				// A redistributed static route carries its unique id in attributes the session or the policy may
				// overwrite (next hop); two static paths whose exported attributes coincide are one path as far as the
				// statement (and the peer) can tell. Such an observed path stands for any expected static path with
				// the same projection, and copies of it are not counted.
				obs = resolveStatics(l, s, obs, func(id uint32) (rig.Attr, []rig.Attr, []string, bool) {
					e, ok := want[id]
					return e.a, e.cands, e.mask, ok
				}, func() []uint32 {
					var ids []uint32
					for id, e := range want {
						if e.a.Static {
							ids = append(ids, id)
						}
					}
					sort.Slice(ids, func(a, b int) bool { return ids[a] < ids[b] })
					return ids
				}())
				for _, ob := range obs {
					ob := ob
					got[ob.ID]++
					if got[ob.ID] == 2 && !ob.Static {
						disc(dk("duplicate", ob.ID), "duplicate", func() map[string]string {
							return f("transform", rig.Transform(l, s, pol, p, h.Paths[ob.ID]), "tie", hasTie(h, pi, ob.ID, form))
						}, ctx)
					}
					e, ok := want[ob.ID]
					if !ok {
						switch w := why[ob.ID]; {
						case w == "" && !inLoc[pi][ob.ID]:
							disc(dk("stale", ob.ID), "stale", func() map[string]string {
								return f("transform", rig.Transform(l, s, pol, p, h.Paths[ob.ID]), "tie", hasTie(h, pi, ob.ID, form))
							},
								func() string { return fmt.Sprintf("holds path %d which the Loc-RIB has withdrawn: %s", ob.ID, ctx()) })
						case w == "":
							disc(dk("unknown", ob.ID), "unknown-path", func() map[string]string { return f() },
								func() string {
									return "holds a path that is not in the Loc-RIB although the harness never removed it: " + ctx()
								})
						default:
							disc(dk("extra", ob.ID), "extra:"+strings.SplitN(w, ":", 2)[0], func() map[string]string {
								return f("transform", rig.Transform(l, s, pol, p, h.Paths[ob.ID]), "tie", hasTie(h, pi, ob.ID, form))
							},
								func() string { return fmt.Sprintf("holds path %d which must not be there (%s): %s", ob.ID, w, ctx()) })
						}
						continue
					}
					if got[ob.ID] > 1 {
						continue
					}
					if d, closest := rig.MatchObserved(l, s, e.a, ob, e.cands, e.mask); len(d) > 0 {
						disc(dk("attrs:"+strings.Join(d, "+"), ob.ID), "attrs", func() map[string]string { return f("fields", strings.Join(d, "+"), "source", rig.SourceKind(e.a)) },
							func() string {
								return fmt.Sprintf("path %d differs in %v: expected e.g. %s observed %s (%s vs %s): %s", ob.ID, d, closest.Short(), ob.Short(), fieldsOf(closest, d), fieldsOf(ob, d), ctx())
							})
					}
				}
				var ids []uint32
				for id := range want {
					ids = append(ids, id)
				}
				sort.Slice(ids, func(a, b int) bool { return ids[a] < ids[b] })
				for _, id := range ids {
					id := id
					if got[id] == 0 {
						disc(dk("missing", id), "missing", func() map[string]string {
							return f("blocked_sibling", blockedSibling, "blocked_earlier", blockedBefore, "tie", hasTie(h, pi, id, form))
						},
							func() string { return fmt.Sprintf("path %d is selected and admitted but absent: %s", id, ctx()) })
					}
				}
			}
			for k, obs := range observed {
				k, obs := k, obs
				disc(fmt.Sprintf("%d|foreign|%s", si, k), "foreign-prefix", func() map[string]string { return f() },
					func() string {
						return fmt.Sprintf("op %d: session %s holds %s for prefix key %s outside the universe", i, s, rig.ShortList(obs), k)
					})
			}
		}
	}
	return res
}

// validOps reports whether every remove/replace refers to a path the history itself put into the Loc-RIB and no path
// is added twice (the shrinker only proposes histories that are themselves legitimate Loc-RIB histories).
func validOps(h hist) bool {
	in := map[int]map[uint32]bool{}
	for _, o := range h.Ops {
		if in[o.Pfx] == nil {
			in[o.Pfx] = map[uint32]bool{}
		}
		switch o.K {
		case "add":
			if in[o.Pfx][o.ID] {
				return false
			}
			in[o.Pfx][o.ID] = true
		case "remove":
			if !in[o.Pfx][o.ID] {
				return false
			}
			delete(in[o.Pfx], o.ID)
		case "replace":
			if !in[o.Pfx][o.ID] || in[o.Pfx][o.New] {
				return false
			}
			delete(in[o.Pfx], o.ID)
			in[o.Pfx][o.New] = true
		}
	}
	return true
}

func fires(h hist, sig string) (bool, int, vf.Violation) {
	var res result
	if p := rig.Guard(func() { res = runHist(h) }); p != "" {
		return false, 0, vf.Violation{}
	}
	for i, v := range res.viol {
		if v.Signature() == sig {
			return true, res.at[i], v
		}
	}
	return false, 0, vf.Violation{}
}

// shrink reduces a failing history to a small one with the same violation signature: truncate after the operation
// that exposed it, drop the other sessions, then delete operations greedily.
func shrink(h hist, sig string, full bool) vf.Violation {
	ok, at, v := fires(h, sig)
	if !ok {
		if os.Getenv("C08_SHRINK") != "" {
			fmt.Println("shrink: signature does not fire again:", sig)
		}
		return vf.Violation{}
	}
	cur := h
	cur.Ops = append([]op{}, h.Ops[:at+1]...)
	cur.Sessions = append([]sessCfg{}, h.Sessions...)
	if ok2, _, v2 := fires(cur, sig); ok2 {
		v = v2
	} else {
		cur = h
	}
	for si := range cur.Sessions {
		if cur.Sessions[si].Skip {
			continue
		}
		try := cur
		try.Sessions = append([]sessCfg{}, cur.Sessions...)
		try.Sessions[si].Skip = true
		if ok, _, v2 := fires(try, sig); ok {
			cur, v = try, v2
		}
	}
	for changed := full; changed; {
		changed = false
		for i := len(cur.Ops) - 2; i >= 0; i-- {
			try := cur
			try.Ops = append(append([]op{}, cur.Ops[:i]...), cur.Ops[i+1:]...)
			if !validOps(try) {
				continue
			}
			if ok, _, v2 := fires(try, sig); ok {
				cur, v, changed = try, v2, true
			}
		}
	}
	// drop unused paths and mark the witness
	used := map[uint32]bool{}
	for _, o := range cur.Ops {
		used[o.ID], used[o.New] = true, true
	}
	paths := map[uint32]rig.Attr{}
	for id, a := range cur.Paths {
		if used[id] {
			paths[id] = a
		}
	}
	cur.Paths = paths
	var ss []sessCfg
	remap := map[int]int{}
	for i, sc := range cur.Sessions {
		if !sc.Skip {
			remap[i] = len(ss)
			ss = append(ss, sc)
		}
	}
	var ops []op
	for _, o := range cur.Ops {
		if o.K == "attach" {
			j, ok := remap[o.S]
			if !ok {
				continue
			}
			o.S = j
		}
		ops = append(ops, o)
	}
	cur.Sessions, cur.Ops = ss, ops
	if ok, _, v2 := fires(cur, sig); ok {
		v = v2
	}
	return v
}

// resolveStatics relabels observed static paths: an observed static path that does not match the expected path of
// its own id but matches the projection of another expected static path is given that path's id.
func resolveStatics(l rig.Local, s rig.Sess, obs []rig.Attr, want func(uint32) (rig.Attr, []rig.Attr, []string, bool), staticIDs []uint32) []rig.Attr {
	out := append([]rig.Attr{}, obs...)
	satisfied := map[uint32]bool{}
	matches := func(id uint32, ob rig.Attr) bool {
		a, cands, mask, ok := want(id)
		if !ok {
			return false
		}
		probe := ob
		probe.ID = id
		d, _ := rig.MatchObserved(l, s, a, probe, cands, mask)
		return len(d) == 0
	}
	var open []int
	for i, ob := range out {
		if !ob.Static {
			continue
		}
		if matches(ob.ID, ob) && !satisfied[ob.ID] {
			satisfied[ob.ID] = true
			continue
		}
		open = append(open, i)
	}
	for _, i := range open {
		// prefer an expected path nobody stands for yet, else any with the same projection
		done := false
		for _, id := range staticIDs {
			if !satisfied[id] && matches(id, out[i]) {
				out[i].ID, satisfied[id], done = id, true, true
				break
			}
		}
		for _, id := range staticIDs {
			if !done && matches(id, out[i]) {
				out[i].ID, done = id, true
			}
		}
	}
	return out
}

// selectKey lists the attributes bio-rd's path comparison (route.BGPPath.Select) looks at; two paths with the same key
// are equally preferred.
func selectKey(a rig.Attr) string {
	n := 0
	for _, s := range a.ASPath {
		if s.Set {
			n++
		} else {
			n += len(s.ASNs)
		}
	}
	return fmt.Sprint(a.Static, a.LocalPref, n, a.Origin, a.MED, a.EBGP, a.BGPID, a.OriginatorID, len(a.ClusterList), a.Source, a.NextHop)
}

// hasTie reports whether the history puts another path on prefix pi that bio-rd's comparison cannot tell from path id
// once both are in the form the session exports them in (a policy that sets next hop / LOCAL_PREF makes more paths tie).
func hasTie(h hist, pi int, id uint32, form func(rig.Attr) rig.Attr) bool {
	k := selectKey(form(h.Paths[id]))
	for _, o := range h.Ops {
		if o.K == "attach" || o.Pfx != pi {
			continue
		}
		for _, x := range []uint32{o.ID, o.New} {
			if x != 0 && x != id && !h.Paths[x].Static && selectKey(form(h.Paths[x])) == k {
				return true
			}
		}
	}
	return false
}

// noAdvertiseBehindNoExport: the path carries NO_ADVERTISE somewhere behind a NO_EXPORT community.
func noAdvertiseBehindNoExport(a rig.Attr) bool {
	ne := false
	for _, c := range a.Comms {
		if c == types.WellKnownCommunityNoExport {
			ne = true
		}
		if c == types.WellKnownCommunityNoAdvertise && ne {
			return true
		}
	}
	return false
}

func fieldsOf(a rig.Attr, fs []string) string {
	var p []string
	for _, f := range fs {
		p = append(p, f+"="+a.Field(f))
	}
	return strings.Join(p, " ")
}

func main() {
	vf.Main("C08", "exploration", func(r *vf.Run) {
		r.Rule("PRNG Loc-RIB histories (add / remove / replace-in-place / same neighbour re-announces) over 8 adversarial prefixes of one family with paths learned from two eBGP peers, an iBGP peer and an RR client (LOCAL_PREF, AS_PATH incl. sets and empty, MED, origin, NO_EXPORT / NO_ADVERTISE / plain communities and mixes of them in either order, OTC own/other, ORIGINATOR_ID+CLUSTER_LIST, unknown attributes, add-path-received siblings that differ in communities only, deduplicated attribute blocks) and redistributed static routes; 2-4 sessions per history from {eBGP, eBGP RS client, iBGP, iBGP RR client} x {best only, add-path 2, add-path 4} x {accept, accept/reject by prefix, rewriting chain: set LOCAL_PREF / MED / a third-party next hop, prepend a foreign ASN}, target peers often equal to a source, eBGP sessions sometimes with RFC 9234 roles, some sessions registered late (initial dump). After every operation every session's Adj-RIB-Out is compared with the reference export view. distinct_nontrivial = histories in which the sessions' clients saw an announcement, a withdrawal and a best-path change, and some add-path session had >= 2 paths selected")
		r.Assume("the Loc-RIB's content and path order after each operation are taken as input", "static and BGP paths are kept on different prefixes",
			"attribute defaults of a redistributed static route are bio-rd's choice: every outcome consistent with the statement is accepted",
			"the export policy runs on the path as the session rewrote it and has the last word (a next hop it sets is the advertised one, ASNs it prepends stand in front of the local ASN); policy_order_decides_session_paths counts the (plain eBGP session, admitted path) pairs on which the other order would give a different Adj-RIB-Out",
			"ORIGINATOR_ID/CLUSTER_LIST on non-reflected routes towards an RR client and AS_PATH/next hop towards an RS client: both outcomes accepted")
		_, replay := r.Replaying()
		hg := rig.NewHangGuard(replay)
		hg.Short, hg.Long = 0, 60*time.Second // whole histories run under the long timeout only
		report := func(h hist, i int) {
			res, p, hung, stk := rig.RunGuarded(hg, "hist", func() result { return runHist(h) })
			if hung {
				r.Violate(vf.Violation{Clause: "hang", Features: vf.F(), Detail: "a table call never returned; blocked in:\n" + stk, Case: h})
				return
			}
			if p != "" {
				r.Violate(vf.Violation{Clause: "harness-panic", Features: vf.F(), Detail: p, Case: h})
				return
			}
			for _, v := range res.viol {
				sig := v.Signature()
				mu.Lock()
				done, seen := shrunk[sig]
				if !seen {
					done = make(chan struct{})
					shrunk[sig] = done
				}
				mu.Unlock()
				if seen {
					<-done // the first reporter registers the shrunk witness; later ones only count
				} else {
					if !replay || os.Getenv("C08_SHRINK") != "" {
						// full (quadratic) shrinking once per class of violation, cheap truncation for the rest
						class := v.Clause
						for _, k := range []string{"transform", "tie", "blocked_sibling", "blocked_earlier", "addpath", "site", "fields"} {
							class += "|" + v.Features[k]
						}
						mu.Lock()
						full := !shrunkClass[class]
						shrunkClass[class] = true
						mu.Unlock()
						if sv := shrink(h, sig, full); sv.Clause != "" {
							v = sv
						}
					}
					r.Violate(v)
					close(done)
					continue
				}
				r.Violate(v)
			}
			st := res.st
			r.Eval(st.compared)
			r.Count("operations", st.ops)
			r.Count("histories", 1)
			r.Count("stale_entry_checks", st.staleChecks)
			r.Count("policy_order_decides_session_paths", st.orderDecides)
			r.Count("no_advertise_behind_no_export_on_ibgp_session_paths", st.noAdvBehindNoExport)
			mu.Lock()
			for k, v := range st.announced {
				announced[k] += v
			}
			for k, v := range st.withdrawn {
				withdrawn[k] += v
			}
			for k, v := range st.bestChanges {
				best[k] += v
			}
			for k, v := range st.byWhy {
				byWhy[k] += v
			}
			mu.Unlock()
			if st.sawAnnounce && st.sawWithdraw && st.sawReplace && st.sawAddPathMulti {
				r.Nontrivial(fmt.Sprint(i))
			}
			if i < 2 {
				var ss []string
				for _, s := range h.Sessions {
					ss = append(ss, s.Sess.String()+" "+s.Policy.String())
				}
				r.Sample(map[string]any{"v4": h.V4, "sessions": ss, "n_ops": len(h.Ops), "first_ops": h.Ops[:min(8, len(h.Ops))], "n_paths": len(h.Paths)})
			}
		}
		if raw, ok := r.Replaying(); ok {
			var h hist
			vf.Decode(raw, &h)
			report(h, 0)
			return
		}
		n := r.N(2500, 25000) // thorough bounded by memory: bio-rd's process-global BGPPathA cache never evicts
		vf.Parallel(n, 8, func(i int) {
			report(genHist(r.RandN("c08", i), 60), i)
		})
		r.Set("announcements_seen_by_session_kind", announced)
		r.Set("withdrawals_seen_by_session_kind", withdrawn)
		r.Set("best_path_changes_by_op", best)
		r.Set("paths_not_exported_by_reason", byWhy)
		r.Require("operations", 10000)
		r.Require("stale_entry_checks", 1000)
		r.Require("policy_order_decides_session_paths", 1000)
		r.Require("no_advertise_behind_no_export_on_ibgp_session_paths", 1000)
	})
}

var (
	mu          sync.Mutex
	announced   = map[string]int{}
	withdrawn   = map[string]int{}
	best        = map[string]int{}
	byWhy       = map[string]int{}
	shrunk      = map[string]chan struct{}{}
	shrunkClass = map[string]bool{}
)
