// C24: connection collisions leave at most one established session.
//
// A scenario gives one peer of a fresh bio-rd server two simultaneous connections — two incoming
// ones, or the outgoing one (the peer's active FSM, fed through the connector hook) and an incoming
// one — and plays the valid conversation CONNECT, OPEN, KEEPALIVE, UPDATE on both in one of the 70
// interleavings that keep each connection's own order, for every ordering of the BGP identifiers
// (local < remote, local > remote, equal with local AS < / > remote AS — equal only between
// external peers) and for iBGP and eBGP. After every step the harness synchronises with the FSMs
// (internal/speaker) and the monitors look:
//
//	two-established     more than one FSM of the peer is Established (hook state established AND
//	                    bio-rd has not closed that FSM's connection)
//	both-contribute     routes announced on both connections are in the Loc-RIB at the same time
//	loser-notification  a connection bio-rd closed does not carry a NOTIFICATION with code 6 (Cease)
//	wrong-survivor      outgoing+incoming, both OPENs exchanged while the other connection was in
//	                    OpenConfirm: the connection that is left is not the one RFC 4271 §6.8 / RFC 6286
//	                    names (initiated by the speaker with the higher identifier; equal identifiers:
//	                    higher AS). When the other connection was already Established the RFC closes
//	                    the new one by default, so either survivor is accepted there. For two incoming
//	                    connections only "at most one" is asserted.
//	none-survives       outgoing+incoming: both connections were closed
//
// The scenarios run in child processes (a panic in a bio-rd goroutine is attributed to its scenario).
package main

import (
	"encoding/json"
	"fmt"
	"os"
	"strconv"
	"strings"
	"time"

	"github.com/bio-routing/bio-rd/protocols/bgp/server"

	"verifharness/internal/batch"
	"verifharness/internal/sess2"
	"verifharness/internal/sessgen"
	"verifharness/internal/speaker"
	"verifharness/internal/vf"
	"verifharness/internal/wire"
)

const (
	localID = 0x0a000001
	localAS = 65000
)

type ccase struct {
	Mode     string   `json:"mode"` // in+in | out+in (connection 1 is the outgoing one)
	EBGP     bool     `json:"ebgp"`
	IDs      string   `json:"ids"`   // lt | gt | eq-as-lt | eq-as-gt | eq-as4-lt  (local vs remote; as4: the remote AS needs 4 octets)
	Order    []string `json:"order"` // C1 O1 K1 U1 C2 O2 K2 U2 interleaved
	Unsynced bool     `json:"unsynced,omitempty"`
}

func (c ccase) remoteID() uint32 {
	switch c.IDs {
	case "lt":
		return localID + 1
	case "gt":
		return localID - 1
	}
	return localID
}

func (c ccase) remoteAS() uint32 {
	if !c.EBGP {
		return localAS
	}
	if c.IDs == "eq-as4-lt" {
		return 4200000001 // on the wire the OPEN's My AS field is AS_TRANS (23456 < local AS); the capability carries the real one
	}
	if c.IDs == "eq-as-gt" || c.IDs == "gt" {
		return localAS - 1 // local AS is the larger one
	}
	return localAS + 1
}

// outgoingWins: the connection initiated by bio-rd is the one §6.8 keeps.
func (c ccase) outgoingWins() bool {
	switch c.IDs {
	case "gt":
		return true
	case "lt":
		return false
	}
	return localAS > c.remoteAS()
}

func interleavings() [][]string {
	var out [][]string
	a := []string{"C1", "O1", "K1", "U1"}
	b := []string{"C2", "O2", "K2", "U2"}
	var rec func(i, j int, cur []string)
	rec = func(i, j int, cur []string) {
		if i == len(a) && j == len(b) {
			out = append(out, append([]string(nil), cur...))
			return
		}
		if i < len(a) {
			rec(i+1, j, append(cur, a[i]))
		}
		if j < len(b) {
			rec(i, j+1, append(cur, b[j]))
		}
	}
	rec(0, 0, nil)
	return out
}

type conn struct {
	s        *speaker.Session
	outgoing bool
	model    string // "", opensent, openconfirm, established, closed  (what the valid conversation reached)
	sentUpd  bool
}

func routeOf(k int) wire.NLRI { return wire.V4(100, 70, byte(k), 0, 24) }

func runCase(idx int, raw json.RawMessage) batch.Result {
	var c ccase
	if err := json.Unmarshal(raw, &c); err != nil {
		return batch.Result{Inconcl: "case does not decode: " + err.Error()}
	}
	for attempt := 0; attempt < 4; attempt++ {
		res, stalled := runOnce(c)
		if !stalled {
			return res
		}
	}
	return batch.Result{Inconcl: "bio-rd's OpenSent timer fired during the exchange in 4 attempts (machine too slow)"}
}

func runOnce(c ccase) (res batch.Result, stalled bool) {
	srv := speaker.NewServer(speaker.ServerConfig{RouterID: localID})
	p, err := srv.AddPeer(speaker.PeerConfig{LocalAS: localAS, PeerAS: c.remoteAS(), Active: c.Mode == "out+in"})
	if err != nil {
		res.Inconcl = "AddPeer: " + err.Error()
		return
	}
	open := func() *wire.Open { o := p.DefaultOpen(); o.ID = c.remoteID(); return o }
	kind := "ibgp"
	if c.EBGP {
		kind = "ebgp"
	}
	feat := vf.F("mode", c.Mode, "session", kind, "ids", c.IDs)
	where := fmt.Sprintf("%s %s identifiers %s, order %s", c.Mode, kind, c.IDs, strings.Join(c.Order, " "))
	cs := map[byte]*conn{'1': {outgoing: c.Mode == "out+in"}, '2': {}}
	other := func(k byte) *conn {
		if k == '1' {
			return cs['2']
		}
		return cs['1']
	}
	defer func() {
		for _, x := range cs {
			if x.s != nil {
				sess2.Teardown(x.s)
			}
		}
	}()
	suf := ""
	if c.Unsynced {
		suf = "-unsynced"
	}
	// what §6.8 decides, from the conversation alone
	strictWinner := byte(0) // connection that must survive
	decided := false
	found := false

	var third *speaker.Session
	monitors := func(step string) {
		if found {
			return
		}
		// #Established
		n := 0
		var desc []string
		for _, f := range p.FSMs() {
			s := sess2.ConnOfFSM(f, cs['1'].s, cs['2'].s, third)
			live := s != nil && !s.Conn.IsClosed()
			desc = append(desc, fmt.Sprintf("fsm%d:%s live=%v", f.Index, f.State, live))
			if f.State == "established" && live {
				n++
			}
		}
		res.Count("sync_points", 1)
		if n > 1 {
			found = true
			res.Add("two-established"+suf, vf.F("mode", c.Mode), "%s: after %s %d FSMs of the peer are Established on connections bio-rd has not closed (%s); Loc-RIB clients %d", where, step, n, strings.Join(desc, ", "), srv.ClientCount(true))
			return
		}
		// contributions
		have := map[int]bool{}
		for _, v := range speaker.FromSource(speaker.Views(srv.Dump(true)), p.Addr) {
			for k := 1; k <= 2; k++ {
				if v.PfxS == routeOf(k).Key() {
					have[k] = true
				}
			}
		}
		if have[1] && have[2] {
			found = true
			res.Add("both-contribute"+suf, vf.F("mode", c.Mode), "%s: after %s the Loc-RIB holds the routes announced on connection 1 and on connection 2 (%s)", where, step, strings.Join(desc, ", "))
		}
	}

	settle := func(x *conn) {
		// an FSM that was told to cease ends asynchronously: wait for its connection to close
		if x == nil || x.s == nil || x.s.Conn.IsClosed() {
			return
		}
		if !x.s.Barrier(200 * time.Millisecond) {
			x.s.Conn.WaitClosed(2 * time.Second)
		}
	}

	for _, ev := range c.Order {
		k := ev[1]
		x := cs[k]
		for _, y := range cs {
			if y.s != nil && y.s.Conn.IsClosed() {
				y.model = "closed" // a connection bio-rd closed takes no further part
			}
		}
		switch ev[0] {
		case 'C':
			if x.outgoing {
				if err := server.VerifFSMEvent(srv.B, srv.VRF, p.Addr, 0, server.ManualStart, 2*time.Second); err != nil {
					res.Inconcl = err.Error()
					return
				}
				x.s, err = p.DeliverOutgoing()
			} else {
				x.s, err = p.Connect()
			}
			if err != nil {
				res.Inconcl = "connect: " + err.Error()
				return
			}
			x.model = "opensent"
			if !c.Unsynced {
				if _, err := x.s.WaitSUTOpen(); err != nil {
					if sess2.HoldTimerFired(x.s) {
						return res, true
					}
					res.Inconcl = err.Error()
					return
				}
			}
		case 'O':
			if x.s == nil || x.s.Conn.IsClosed() {
				continue
			}
			if c.Unsynced {
				x.s.WaitSUTOpen()
			}
			x.s.SendOpen(open())
			// §6.8 on receipt of an OPEN: look at the other connection
			if y := other(k); !decided && y.model == "openconfirm" {
				decided = true
				if c.Mode == "out+in" {
					strictWinner = '2'
					if c.outgoingWins() {
						strictWinner = '1'
					}
				}
			} else if !decided && y.model == "established" {
				decided = true // the new connection is closed by default; either survivor is accepted
			}
			x.model = "openconfirm"
		case 'K':
			if x.s == nil || x.s.Conn.IsClosed() {
				continue
			}
			x.s.SendKeepalive()
			x.model = "established"
		case 'U':
			if x.s == nil || x.s.Conn.IsClosed() {
				continue
			}
			lp := uint32(100)
			pa := &wire.PathAttrs{Origin: wire.U8(0), HasASPath: true, NextHop: sessgen.NHv4(uint32(k - '0')), Communities: []uint32{0xfdeb0000 | uint32(k-'0')}}
			if c.EBGP {
				pa.ASPath = []wire.Segment{{Type: wire.SegSequence, ASNs: []uint32{c.remoteAS()}}}
			} else {
				pa.LocalPref = &lp
			}
			u := &wire.Update{Attrs: pa.Build(x.s.Neg.SendOpts()), NLRI: []wire.NLRI{routeOf(int(k - '0'))}}
			if x.s.SendUpdate(u) == nil {
				x.sentUpd = true
			}
		}
		if c.Unsynced {
			continue
		}
		if x.s != nil {
			if r := sess2.Sync(x.s); !r.Idle && !r.Closed {
				res.Inconcl = fmt.Sprintf("%s: no synchronisation after %s (%v)", where, ev, r)
				return
			}
		}
		settle(other(k))
		settle(x)
		for _, y := range cs {
			if y.s != nil && sess2.HoldTimerFired(y.s) {
				return res, true
			}
		}
		monitors(ev)
	}
	if c.Unsynced {
		for _, x := range cs {
			if x.s != nil {
				sess2.Sync(x.s)
			}
		}
		for _, x := range cs {
			settle(x)
		}
		for _, y := range cs {
			if y.s != nil && sess2.HoldTimerFired(y.s) {
				return res, true
			}
		}
		monitors("the whole conversation")
	}
	// A further incoming connection after the collision has been resolved (e.g. the peer retries) must not become a
	// second Established session either: the FSM that lost stays in the peer's list and must not hide the survivor.
	if !c.Unsynced && !found && (len(strings.Join(c.Order, ""))+len(c.IDs)+len(c.Mode))%2 == 0 || !c.Unsynced && !found && c.Order[1] == "C2" {
		anyUp := false
		for _, x := range cs {
			if x.s != nil && !x.s.Conn.IsClosed() && x.model == "established" {
				anyUp = true
			}
		}
		if s3, err := p.Connect(); anyUp && err == nil {
			third = s3
			defer sess2.Teardown(s3)
			if _, err := s3.WaitSUTOpen(); err == nil {
				s3.SendOpen(open())
				sess2.Sync(s3)
				if !s3.Conn.IsClosed() {
					s3.SendKeepalive()
					sess2.Sync(s3)
				}
				for _, x := range cs {
					settle(x)
				}
				res.Count("third_connection_attempts", 1)
				monitors("a third (incoming) connection sent OPEN and KEEPALIVE")
			}
		}
	}
	res.Count("scenarios", 1)
	if len(c.Order) > 0 && c.Order[1] == "C2" && c.Order[2] == "O2" && c.Order[3] == "O1" {
		defer func() { res.Sample = map[string]any{"scenario": c, "findings": len(res.Findings)} }()
	}
	state := func(x *conn) string {
		if x.s == nil {
			return "none"
		}
		if x.s.Conn.IsClosed() {
			return "closed[" + sess2.NotifText(x.s) + "]"
		}
		return x.s.State()
	}
	outcome := fmt.Sprintf("1:%s 2:%s", state(cs['1']), state(cs['2']))
	res.Nontrivial = append(res.Nontrivial, fmt.Sprintf("%s|%s|%s|%v|%v|%s", c.Mode, kind, c.IDs, c.Order, c.Unsynced, outcome))
	res.Seen("outcomes", fmt.Sprintf("%s %s", c.Mode, outcome))
	if decided {
		res.Count("scenarios_with_collision", 1)
	}
	if found {
		return
	}
	// the loser carries a Cease NOTIFICATION
	for k, x := range cs {
		if x.s != nil && x.s.Conn.IsClosed() && !sess2.NotificationWith(x.s, 6) {
			res.Add("loser-notification"+suf, feat, "%s: bio-rd closed connection %c without a Cease NOTIFICATION (it wrote %s); outcome %s", where, k, sess2.NotifText(x.s), outcome)
			return
		}
	}
	if c.Mode == "out+in" && decided && !c.Unsynced {
		open1, open2 := !cs['1'].s.Conn.IsClosed(), !cs['2'].s.Conn.IsClosed()
		switch {
		case !open1 && !open2:
			res.Add("none-survives", feat, "%s: both connections were closed; outcome %s", where, outcome)
		case strictWinner != 0 && (open1 != (strictWinner == '1') || open2 != (strictWinner == '2')):
			res.Add("wrong-survivor", vf.F("mode", c.Mode, "session", kind, "ids", c.IDs, "must_survive", map[byte]string{'1': "outgoing", '2': "incoming"}[strictWinner]),
				"%s: both OPENs arrived while the other connection was in OpenConfirm; local identifier %#x AS %d, remote identifier %#x AS %d: RFC 4271 §6.8 keeps connection %c; outcome %s",
				where, uint32(localID), localAS, c.remoteID(), c.remoteAS(), strictWinner, outcome)
		default:
			res.Count("survivor_as_rfc", 1)
		}
	}
	return
}

func main() {
	if batch.IsChild() {
		batch.ChildMain(runCase)
		return
	}
	vf.Main("C24", "exploration", func(r *vf.Run) {
		r.Rule("one peer, two simultaneous connections (in+in: two incoming; out+in: the active FSM's outgoing connection fed through the connector hook + one incoming). All 70 interleavings of {CONNECT, OPEN, KEEPALIVE, UPDATE}×2 that keep each connection's order × identifier orderings {local<remote, local>remote} (iBGP, eBGP) and {equal with local AS < remote AS, equal with local AS > remote AS, equal with a 4-octet remote AS (AS_TRANS in the OPEN) > local AS} (eBGP) × {in+in, out+in}; after every step both FSMs are synchronised and the monitors run. Thorough adds the same scenarios with both conversations injected without waiting (final state judged only). distinct_nontrivial = distinct (mode, session kind, identifier ordering, interleaving, final state of both connections)")
		r.Assume("Established = hook state established AND bio-rd has not closed that FSM's connection (a ceased FSM never republishes its state)",
			"when the second OPEN arrives while the other connection is already Established either survivor is accepted (RFC 4271 §6.8 closes the new one unless configured otherwise)",
			"for two incoming connections the statement's rule does not distinguish them: only 'at most one' and the Cease NOTIFICATION are asserted")
		r.NonDeterministic("two-established-unsynced")
		r.NonDeterministic("both-contribute-unsynced")
		r.NonDeterministic("loser-notification-unsynced")
		var cases []any
		if raw, ok := r.Replaying(); ok {
			cases = []any{raw}
		} else {
			ils := interleavings()
			for _, mode := range []string{"in+in", "out+in"} {
				for _, ebgp := range []bool{false, true} {
					ids := []string{"lt", "gt"}
					if ebgp {
						ids = append(ids, "eq-as-lt", "eq-as-gt")
						if mode == "out+in" {
							ids = append(ids, "eq-as4-lt")
						}
					}
					for _, id := range ids {
						for _, il := range ils {
							cases = append(cases, ccase{Mode: mode, EBGP: ebgp, IDs: id, Order: il})
							// back-to-back variant (no barrier between the steps): all in the thorough tier, every 6th in the quick one
							if !r.Quick() || len(cases)%6 == 0 {
								cases = append(cases, ccase{Mode: mode, EBGP: ebgp, IDs: id, Order: il, Unsynced: true})
							}
						}
					}
				}
			}
			if v, err := strconv.Atoi(os.Getenv("VERIF_C24_N")); err == nil && v > 0 && v < len(cases) {
				step := len(cases) / v
				var sub []any
				for i := 0; i < len(cases); i += step {
					sub = append(sub, cases[i])
				}
				cases = sub
			}
			r.Eval(len(cases))
			r.Exhaustive(true)
			r.Set("interleavings", len(ils))
		}
		batch.Drive(r, batch.Config{Name: "c24", PerChild: 60, Workers: 1, Lanes: 8}, cases, nil)
		if _, ok := r.Replaying(); !ok {
			r.Require("scenarios", int64(len(cases)*9/10))
			r.Require("scenarios_with_collision", int64(len(cases)/2))
		}
	})
}
