// C12, server half: the same differential oracle as the table kinds, but through the live server API.
//
// System A = a bio-rd BGP server (internal/speaker) with a peer configured with chain OLD on the import or the export
// side; the harness plays the neighbour, the session is established, routes are announced (import side) or seeded as
// static routes / learned from a second neighbour (export side); then the chain is replaced through
// BGPServer.ReplaceImportFilterChain / ReplaceExportFilterChain in one of four situations:
//
//	established   while the session is Established
//	down          while the session is down (the neighbour sent a NOTIFICATION, the FSM is back in Idle), followed by
//	              re-establishing and re-announcing
//	twice         two or three replacements in a row while Established (OLD -> MID -> NEW)
//	flap          while Established, then the session goes down and is established and fed again
//
// System B = a fresh server whose peer is configured with the final chain from the start and fed the same routes.
// Compared per prefix as sets of path content: the Loc-RIB (import side), the session's Adj-RIB-Out and the net effect
// of the UPDATEs the neighbour was sent (export side).
//
// Passive peers get a new FSM with every incoming connection, active peers keep FSM 0 for every session: both are run.
package main

import (
	"encoding/json"
	"fmt"
	"math/rand/v2"
	"sort"
	"strings"
	"time"

	bnet "github.com/bio-routing/bio-rd/net"
	"github.com/bio-routing/bio-rd/protocols/bgp/server"
	"github.com/bio-routing/bio-rd/route"

	"verifharness/internal/batch"
	"verifharness/internal/gen"
	"verifharness/internal/rig"
	"verifharness/internal/sessgen"
	"verifharness/internal/speaker"
	"verifharness/internal/vf"
)

type srvRoute struct {
	P    gen.P            `json:"p"`
	Attr sessgen.AttrSpec `json:"attr"`
}

type srvStatic struct {
	P  gen.P  `json:"p"`
	NH uint32 `json:"nh"` // next hop 192.0.2.<nh>
}

type srvCase struct {
	Kind      string       `json:"kind"`      // "server"
	Side      string       `json:"side"`      // import | export
	Situation string       `json:"situation"` // established | down | twice | flap
	Mode      string       `json:"mode"`      // passive | active (which side opens the connection; active peers reuse FSM 0)
	EBGP      bool         `json:"ebgp"`
	Change    string       `json:"change"` // how the final chain differs from the first
	Chains    []rig.Policy `json:"chains"` // OLD, (MID…), NEW
	Universe  []gen.P      `json:"universe"`
	Routes    []srvRoute   `json:"routes,omitempty"`  // announced by the session under test (import side)
	Feeder    []srvRoute   `json:"feeder,omitempty"`  // announced by a second, eBGP neighbour with accept-all policies
	Statics   []srvStatic  `json:"statics,omitempty"` // static routes in the Loc-RIB
}

const (
	srvLocalAS  = sessgen.LocalAS
	srvPeerAS   = 65001
	srvFeederAS = 65002
)

var (
	srvPeerAddr   = bnet.IPv4FromOctets(127, 0, 9, 1)
	srvFeederAddr = bnet.IPv4FromOctets(127, 0, 9, 2)
)

func isServerCase(raw json.RawMessage) bool {
	var k struct {
		Kind string `json:"kind"`
	}
	return json.Unmarshal(raw, &k) == nil && k.Kind == "server"
}

// ---------------------------------------------------------------------------------------------------------
// generation

func pol(terms ...rig.Term) rig.Policy { return rig.Policy{Filters: []rig.Filter{{Terms: terms}}} }

func genRF(rng *rand.Rand, uni []gen.P) rig.RF {
	p := uni[rng.IntN(len(uni))]
	if p.Len > 0 && rng.IntN(2) == 0 {
		p.Len = uint8(rng.IntN(int(p.Len) + 1))
		p = p.Canon()
	}
	rf := rig.RF{Pattern: p, Matcher: []string{"exact", "orlonger", "longer", "range"}[rng.IntN(4)]}
	if rf.Matcher == "range" {
		w := p.Width()
		mn := int(p.Len) + rng.IntN(3)
		if mn > w {
			mn = w
		}
		rf.Min = uint8(mn)
		rf.Max = uint8(mn + rng.IntN(w-mn+1))
	}
	return rf
}

func genSet(rng *rand.Rand) rig.Act {
	switch rng.IntN(4) {
	case 0:
		return rig.Act{Kind: "localpref", V: []uint32{50, 100, 200, 300}[rng.IntN(4)]}
	case 1:
		return rig.Act{Kind: "med", V: []uint32{0, 10, 20}[rng.IntN(3)]}
	case 2:
		return rig.Act{Kind: "nexthop", V: 0xC0000200 + uint32(1+rng.IntN(3))}
	}
	return rig.Act{Kind: "prepend", V: 64900 + uint32(rng.IntN(2)), Times: uint16(1 + rng.IntN(2))}
}

// genBase draws a simple chain (what speaker.Accept/Reject/SetLocalPref/SetMED/Prepend build, optionally guarded by a
// route filter or a prefix list and followed by a default term) that has a place for a mutation of class want.
func genBase(rng *rand.Rand, uni []gen.P, want string) rig.Policy {
	var first rig.Term
	needCond := want == "bound" || want == "prefix-list" || want == "term-order"
	if needCond || rng.IntN(2) == 0 {
		var cd rig.Cond
		if want == "prefix-list" || (want != "bound" && rng.IntN(4) == 0) {
			var pl []gen.P
			for j := 0; j < 1+rng.IntN(3); j++ {
				pl = append(pl, uni[rng.IntN(len(uni))])
			}
			cd.PrefixLists = [][]gen.P{pl}
		} else {
			cd.RouteFilters = []rig.RF{genRF(rng, uni)}
		}
		first.From = []rig.Cond{cd}
	}
	if want == "action-value" || rng.IntN(2) == 0 {
		first.Then = append(first.Then, genSet(rng))
	}
	if len(first.From) > 0 && rng.IntN(3) == 0 {
		first.Then = append(first.Then, rig.Act{Kind: "reject"})
	} else {
		first.Then = append(first.Then, rig.Act{Kind: "accept"})
	}
	if len(first.From) == 0 {
		return pol(first)
	}
	last := rig.Term{Then: []rig.Act{{Kind: "accept"}}}
	if first.Then[len(first.Then)-1].Kind == "accept" && rng.IntN(3) == 0 {
		last.Then[0].Kind = "reject"
	} else if rng.IntN(4) == 0 {
		last.Then = []rig.Act{genSet(rng), {Kind: "accept"}}
	}
	return pol(first, last)
}

// genPair draws (OLD, NEW) and names the difference.
func genPair(rng *rand.Rand, uni []gen.P) (old, nw rig.Policy, change string) {
	k := rng.IntN(20)
	switch {
	case k < 2: // truly equal chains (fresh objects): the replacement may be skipped
		old = genBase(rng, uni, "")
		return old, old, "none"
	case k < 4: // accept all <-> reject all
		if rng.IntN(2) == 0 {
			return rig.AcceptAll(), rig.RejectAll(), "to-reject-all"
		}
		return rig.RejectAll(), rig.AcceptAll(), "to-accept-all"
	case k < 6: // unrelated chains from the full grammar
		o := rig.GenOpts{Protocols: true}
		return rig.GenPolicy(rng, uni, o), rig.GenPolicy(rng, uni, o), "unrelated"
	}
	want := "action-value"
	switch {
	case k < 12:
	case k < 14:
		want = "accept-reject"
	case k < 17:
		want = "bound"
	case k < 18:
		want = "prefix-list"
	case k < 19:
		want = "term-order"
	default: // one small change anywhere in a chain of the full grammar
		want = ""
	}
	for try := 0; try < 200; try++ {
		if want == "" {
			old = rig.GenPolicy(rng, uni, rig.GenOpts{Protocols: true})
		} else {
			old = genBase(rng, uni, want)
		}
		for m := 0; m < 30; m++ {
			q, kind, ok := rig.Mutate(rng, old, uni)
			if ok && strings.HasPrefix(kind, want) {
				return old, q, kind
			}
		}
	}
	return rig.AcceptAll(), rig.RejectAll(), "to-reject-all"
}

var srvSituations = []string{"established", "down", "twice", "flap"}

func genServerCase(rng *rand.Rand, i int) srvCase {
	c := srvCase{Kind: "server", Side: []string{"import", "export"}[i%2], Situation: srvSituations[(i/2)%4], Mode: []string{"passive", "active"}[(i/8)%2]}
	c.EBGP = rng.IntN(2) == 0
	c.Universe = gen.Universe(rng, true, 8)
	uni := c.Universe
	old, nw, change := genPair(rng, uni)
	c.Change = change
	c.Chains = []rig.Policy{old, nw}
	if c.Situation == "twice" {
		var mid rig.Policy
		switch rng.IntN(6) {
		case 0:
			mid = rig.RejectAll()
		case 1:
			mid = rig.AcceptAll()
		case 2:
			mid = nw // the second replacement installs an equal chain
		case 3: // there and back: the final chain equals the configured one
			mid = nw
			nw = old
			c.Change = "there-and-back:" + change
		default:
			q, _, ok := rig.Mutate(rng, old, uni)
			if !ok {
				q = rig.GenPolicy(rng, uni, rig.GenOpts{})
			}
			mid = q
		}
		c.Chains = []rig.Policy{old, mid, nw}
		if rng.IntN(4) == 0 { // three replacements
			c.Chains = []rig.Policy{old, mid, rig.GenPolicy(rng, uni, rig.GenOpts{}), nw}
		}
	}
	id := uint32(1)
	peerCfg := sessgen.Cfg{EBGP: c.EBGP, V4: true, PeerAS4: true}
	feedCfg := sessgen.Cfg{EBGP: true, V4: true, PeerAS4: true}
	feed := func(p gen.P) {
		a := sessgen.RandAttrs(rng, feedCfg, id)
		a.Seq[0] = srvFeederAS
		c.Feeder = append(c.Feeder, srvRoute{P: p, Attr: a})
		id++
	}
	static := func(p gen.P) {
		c.Statics = append(c.Statics, srvStatic{P: p, NH: id})
		id++
	}
	if c.Side == "import" {
		for _, p := range uni {
			if rng.IntN(7) == 0 {
				continue
			}
			c.Routes = append(c.Routes, srvRoute{P: p, Attr: sessgen.RandAttrs(rng, peerCfg, id)})
			id++
		}
		if len(c.Routes) == 0 {
			c.Routes = append(c.Routes, srvRoute{P: uni[0], Attr: sessgen.RandAttrs(rng, peerCfg, id)})
			id++
		}
		// other content of the same Loc-RIB: a second neighbour and static routes, partly on the same prefixes
		if rng.IntN(2) == 0 {
			for _, p := range uni {
				if rng.IntN(3) == 0 {
					feed(p)
				}
			}
		}
		if rng.IntN(2) == 0 {
			static(uni[rng.IntN(len(uni))])
		}
		return c
	}
	// export side: every prefix gets a static route, a route from the second neighbour, or both
	for _, p := range uni {
		switch rng.IntN(5) {
		case 0:
			static(p)
		case 1:
			static(p)
			feed(p)
		case 2:
		default:
			feed(p)
		}
	}
	if len(c.Statics)+len(c.Feeder) == 0 {
		static(uni[0])
	}
	return c
}

// ---------------------------------------------------------------------------------------------------------
// one system

type srvSys struct {
	c    *srvCase
	srv  *speaker.Server
	pool *rig.IPPool
	p    *speaker.Peer
	s    *speaker.Session
	fp   *speaker.Peer
	fs   *speaker.Session
	ups  int // sessions of the peer under test established so far
}

type inconclusive string

func (e inconclusive) Error() string { return string(e) }

func waitFSM0(p *speaker.Peer, state string, d time.Duration) bool {
	deadline := time.Now().Add(d)
	for {
		if f := p.FSMs(); len(f) > 0 && f[0].State == state {
			return true
		}
		if time.Now().After(deadline) {
			return false
		}
		time.Sleep(speaker.PollEvery)
	}
}

// bringUp establishes a session with p: over a new incoming connection (passive peer, bio-rd creates a new FSM) or as
// the far end of the connection FSM 0 opens after a start event (active peer).
func bringUp(p *speaker.Peer) (*speaker.Session, error) {
	var last error
	for attempt := 0; attempt < 4; attempt++ {
		var s *speaker.Session
		var err error
		if p.Cfg.Active {
			if !waitFSM0(p, "idle", 4*time.Second) {
				last = fmt.Errorf("FSM 0 of the active peer is not in Idle (%v)", p.FSMs())
				continue
			}
			if err = server.VerifFSMEvent(p.S.B, p.S.VRF, p.Addr, 0, server.ManualStart, 2*time.Second); err == nil {
				s, err = p.DeliverOutgoing()
			}
		} else {
			s, err = p.Connect()
		}
		if err == nil {
			err = s.Establish(p.DefaultOpen())
		}
		if err == nil {
			return s, nil
		}
		last = err
		if s != nil && s.Conn != nil && !s.Conn.IsClosed() {
			s.SendNotification(6, 0)
			s.Conn.WaitClosed(2 * time.Second)
		}
	}
	return nil, inconclusive("cannot establish: " + last.Error())
}

func announce(s *speaker.Session, routes []srvRoute) error {
	for _, r := range routes {
		w, _ := sessgen.UpdSpec{Ann: []sessgen.NL{{P: r.P}}, Attr: r.Attr}.Build(s.Neg.SendOpts())
		if err := s.SendUpdate(w); err != nil {
			return inconclusive("announce " + r.P.String() + ": " + err.Error())
		}
	}
	if r := s.Sync(); !r.OK() || !s.Established() {
		return inconclusive(fmt.Sprintf("valid UPDATEs ended the session (%v, state %s, notifications %v)", r, s.State(), s.Notifications()))
	}
	return nil
}

func newSrvSys(c *srvCase, chain rig.Policy) (*srvSys, error) {
	x := &srvSys{c: c, srv: speaker.NewServer(speaker.ServerConfig{}), pool: rig.NewIPPool()}
	for _, st := range c.Statics {
		x.srv.AddStatic(st.P.Bio(), bnet.IPv4FromOctets(192, 0, 2, byte(st.NH)))
	}
	var err error
	if len(c.Feeder) > 0 {
		fa := srvFeederAddr
		if x.fp, err = x.srv.AddPeer(speaker.PeerConfig{LocalAS: srvLocalAS, PeerAS: srvFeederAS, PeerAddr: &fa, IPv4: &speaker.Family{}}); err != nil {
			return x, inconclusive("AddPeer (second neighbour): " + err.Error())
		}
		if x.fs, err = bringUp(x.fp); err != nil {
			return x, err
		}
		if err = announce(x.fs, c.Feeder); err != nil {
			return x, err
		}
	}
	fam := &speaker.Family{}
	if c.Side == "import" {
		fam.Import = chain.Build(x.pool)
	} else {
		fam.Export = chain.Build(x.pool)
	}
	pa := srvPeerAddr
	pc := speaker.PeerConfig{LocalAS: srvLocalAS, PeerAS: srvLocalAS, PeerAddr: &pa, Active: c.Mode == "active", IPv4: fam}
	if c.EBGP {
		pc.PeerAS = srvPeerAS
	}
	if x.p, err = x.srv.AddPeer(pc); err != nil {
		return x, inconclusive("AddPeer: " + err.Error())
	}
	return x, x.up()
}

// up establishes the session under test and lets the neighbour announce its routes.
func (x *srvSys) up() (err error) {
	if x.s, err = bringUp(x.p); err != nil {
		return err
	}
	x.ups++
	return announce(x.s, x.c.Routes) // with no routes: only the synchronisation point
}

// down: the neighbour ends the session with a NOTIFICATION; returns when the FSM is back in Idle with its tables gone.
func (x *srvSys) down() error {
	s := x.s
	s.SendNotification(6, 2)
	deadline := time.Now().Add(5 * time.Second)
	for s.Established() {
		if time.Now().After(deadline) {
			return inconclusive("session still established 5 s after the neighbour's NOTIFICATION")
		}
		time.Sleep(time.Millisecond)
	}
	if !s.Barrier(2 * time.Second) {
		return inconclusive(fmt.Sprintf("FSM did not return to Idle after the neighbour's NOTIFICATION (state %q, closed=%v)", s.State(), s.Conn.IsClosed()))
	}
	if st := s.State(); st != "idle" {
		return inconclusive("FSM is in state " + st + " after the neighbour's NOTIFICATION")
	}
	if in, ok := s.RIBIn(true); ok {
		return inconclusive(fmt.Sprintf("the FSM in Idle still has an Adj-RIB-In (%d routes)", len(in)))
	}
	return nil
}

// replace calls the public server API; what is "panic", "hang" or "error" when the call did not do its job.
func (x *srvSys) replace(ch rig.Policy) (what, detail string) {
	chain := ch.Build(x.pool)
	var err error
	p, hung, stk := rig.GuardTimeout(20*time.Second, func() {
		if x.c.Side == "import" {
			err = x.srv.B.ReplaceImportFilterChain(x.srv.VRF, x.p.Addr, chain)
		} else {
			err = x.srv.B.ReplaceExportFilterChain(x.srv.VRF, x.p.Addr, chain)
		}
	})
	switch {
	case hung:
		return "hang", "the call did not return within 20 s; blocked in:\n" + stk
	case p != "":
		return "panic", p
	case err != nil:
		return "error", err.Error()
	}
	return "", ""
}

func (x *srvSys) close() {
	for _, s := range []*speaker.Session{x.s, x.fs} {
		if s != nil && s.Conn != nil && !s.Conn.IsClosed() {
			s.SendNotification(6, 0)
			s.Conn.WaitClosed(2 * time.Second)
		}
	}
}

// ---------------------------------------------------------------------------------------------------------
// observation

// pathSet: prefix -> sorted texts of its paths
type pathSet map[string][]string

func viewsOf(dump []*route.Route) pathSet {
	m := pathSet{}
	for _, v := range speaker.Views(dump) {
		m[v.PfxS] = append(m[v.PfxS], fmt.Sprintf("type=%d src=%s hidden=%d {%s}", v.Type, v.Source, v.Hidden, v.Attrs))
	}
	for k := range m {
		sort.Strings(m[k])
	}
	return m
}

// table is the table the statement names for the side: the Loc-RIB or the session's Adj-RIB-Out.
func (x *srvSys) table() (pathSet, error) {
	if x.c.Side == "import" {
		return viewsOf(x.srv.Dump(true)), nil
	}
	d, ok := x.s.RIBOut(true)
	if !ok {
		return nil, inconclusive("the established session has no Adj-RIB-Out")
	}
	return viewsOf(d), nil
}

// sent is the net effect of every UPDATE bio-rd wrote on the current connection of the session under test.
func (x *srvSys) sent() (pathSet, error) {
	m := pathSet{}
	for _, u := range x.s.Updates() {
		if u.Err != nil {
			return nil, fmt.Errorf("UPDATE %d of bio-rd does not decode: %v", u.Index, u.Err)
		}
		for _, w := range u.U.Withdrawals() {
			delete(m, speaker.NLRIToP(w.NLRI).String())
		}
		for _, a := range u.U.Announced() {
			m[speaker.NLRIToP(a.NLRI).String()] = []string{speaker.FieldsOfWire(u.U.PA, nil).Text()}
		}
	}
	return m, nil
}

type pfxDiff struct {
	pfx  string
	a, b []string
}

func diffSets(a, b pathSet) []pfxDiff {
	keys := map[string]bool{}
	for k := range a {
		keys[k] = true
	}
	for k := range b {
		keys[k] = true
	}
	var ks []string
	for k := range keys {
		ks = append(ks, k)
	}
	sort.Strings(ks)
	var out []pfxDiff
	for _, k := range ks {
		if strings.Join(a[k], "\n") != strings.Join(b[k], "\n") {
			out = append(out, pfxDiff{k, a[k], b[k]})
		}
	}
	return out
}

// what names how the replaced system's paths of one prefix differ from the fresh system's. only != "": look at the
// paths from that source only (import side: the session under test), everything else is "other-paths".
func what(d pfxDiff, only string) string {
	a, b := d.a, d.b
	if only != "" {
		pick := func(xs []string) (out []string) {
			for _, x := range xs {
				if strings.Contains(x, "src="+only+" ") {
					out = append(out, x)
				}
			}
			return
		}
		a, b = pick(a), pick(b)
		if strings.Join(a, "\n") == strings.Join(b, "\n") {
			return "other-paths"
		}
	}
	switch {
	case len(a) > 0 && len(b) == 0:
		return "not-withdrawn"
	case len(a) == 0 && len(b) > 0:
		return "not-announced"
	case len(a) > len(b):
		return "old-version-kept"
	case len(a) < len(b):
		return "path-missing"
	}
	return "old-attributes"
}

func chainList(cs []rig.Policy) string {
	var p []string
	for _, ch := range cs {
		p = append(p, "["+ch.String()+"]")
	}
	return strings.Join(p, " => ")
}

// ---------------------------------------------------------------------------------------------------------
// the case

func runServerCase(idx int, raw json.RawMessage) (res batch.Result) {
	var c srvCase
	if err := json.Unmarshal(raw, &c); err != nil {
		res.Inconcl = "case does not decode: " + err.Error()
		return
	}
	finalFSM := "same"
	if c.Situation == "down" || c.Situation == "flap" {
		finalFSM = "reused"
		if c.Mode == "passive" {
			finalFSM = "new"
		}
	}
	kind := "ibgp"
	if c.EBGP {
		kind = "ebgp"
	}
	feat := func() map[string]string {
		return vf.F("side", c.Side, "situation", c.Situation, "final_fsm", finalFSM)
	}
	final := c.Chains[len(c.Chains)-1]
	where := fmt.Sprintf("%s side, %s %s peer, situation %s, chains %s", c.Side, c.Mode, kind, c.Situation, chainList(c.Chains))
	fail := func(err error) {
		res.Inconcl = where + ": " + err.Error()
	}

	a, err := newSrvSys(&c, c.Chains[0])
	defer a.close()
	if err != nil {
		fail(err)
		return
	}
	a0, err := a.table()
	if err != nil {
		fail(err)
		return
	}
	// does bio-rd's own comparison call the last pair of chains equal (it then skips the replacement)?
	skip := false
	{
		pool := rig.NewIPPool()
		prev := c.Chains[len(c.Chains)-2].Build(pool)
		rig.Guard(func() { skip = final.Build(pool).Equal(prev) })
	}
	replace := func(ch rig.Policy) bool {
		res.Count("server_replacements", 1)
		if w, detail := a.replace(ch); w != "" {
			res.Add("server-replace-"+w, feat(), "%s: Replace%sFilterChain(%s): %s", where, map[string]string{"import": "Import", "export": "Export"}[c.Side], ch, detail)
			return false
		}
		return true
	}
	switch c.Situation {
	case "established":
		if !replace(final) {
			return
		}
	case "twice":
		for _, ch := range c.Chains[1:] {
			if !replace(ch) {
				return
			}
		}
	case "down":
		if err := a.down(); err != nil {
			fail(err)
			return
		}
		if !replace(final) {
			return
		}
		if err := a.up(); err != nil {
			fail(err)
			return
		}
	case "flap":
		if !replace(final) {
			return
		}
		if err := a.down(); err != nil {
			fail(err)
			return
		}
		if err := a.up(); err != nil {
			fail(err)
			return
		}
	default:
		res.Inconcl = "unknown situation " + c.Situation
		return
	}
	// the feeder session must have survived all this
	if a.fs != nil && !a.fs.Established() {
		res.Inconcl = where + ": the second neighbour's session ended"
		return
	}
	at, err := a.table()
	if err != nil {
		fail(err)
		return
	}

	b, err := newSrvSys(&c, final)
	defer b.close()
	if err != nil {
		fail(err)
		return
	}
	bt, err := b.table()
	if err != nil {
		fail(err)
		return
	}

	res.Count("server_cases", 1)
	res.Count("server_cases_"+c.Side+"_"+c.Situation, 1)
	res.Count("server_prefixes_compared", len(bt))
	res.Seen("server_chain_changes", c.Change)
	res.Seen("server_sessions", c.Mode+"/"+kind+"/"+finalFSM)
	if c.Change == "none" {
		res.Count("server_cases_with_truly_equal_chains", 1)
	}
	if skip {
		res.Count("server_cases_whose_last_replacement_bio_rd_calls_equal", 1)
	}
	if len(diffSets(a0, bt)) > 0 {
		res.Nontrivial = append(res.Nontrivial, fmt.Sprintf("server/%d", idx))
		res.Count("server_cases_where_the_new_chain_changes_the_result", 1)
	}
	only := ""
	tbl := "Adj-RIB-Out"
	if c.Side == "import" {
		only = a.p.Addr.String()
		tbl = "Loc-RIB"
	}
	seen := map[string]bool{}
	for _, d := range diffSets(at, bt) {
		w := what(d, only)
		if seen[w] {
			continue
		}
		seen[w] = true
		res.Add("server-diverged:"+w, feat(), "%s (change %s; bio-rd's Chain.Equal on the last pair: %v): %s, prefix %s: after the replacement %v, a session set up with the final chain from the start %v",
			where, c.Change, skip, tbl, d.pfx, d.a, d.b)
	}
	if c.Side == "export" && len(seen) == 0 {
		// what the neighbour was sent: the update sender runs on a 5 ms ticker, so poll; a difference that is still
		// there after 3 s is a message that was never written
		var as, bs pathSet
		var ds []pfxDiff
		deadline := time.Now().Add(3 * time.Second)
		for {
			var ea, eb error
			as, ea = a.sent()
			bs, eb = b.sent()
			if ea != nil || eb != nil {
				res.Inconcl = fmt.Sprintf("%s: %v %v", where, ea, eb)
				return
			}
			ds = diffSets(as, bs)
			if len(ds) == 0 || time.Now().After(deadline) {
				break
			}
			time.Sleep(2 * time.Millisecond)
		}
		res.Count("server_sent_streams_compared", 1)
		for _, d := range ds {
			w := "sent-" + what(d, "")
			if seen[w] {
				continue
			}
			seen[w] = true
			res.Add("server-diverged:"+w, feat(), "%s (change %s): the Adj-RIB-Outs agree, but the UPDATEs written to the neighbour do not, prefix %s: net effect after the replacement %v, on a session set up with the final chain from the start %v",
				where, c.Change, d.pfx, d.a, d.b)
		}
	}
	if idx%40 == 0 {
		res.Sample = map[string]any{"kind": "server", "side": c.Side, "situation": c.Situation, "peer": c.Mode + "/" + kind, "change": c.Change, "chains": chainList(c.Chains),
			"routes": len(c.Routes), "second_neighbour_routes": len(c.Feeder), "static_routes": len(c.Statics)}
	}
	return
}

// ---------------------------------------------------------------------------------------------------------
// driver

const srvRule = "Server half: PRNG cases over 8 adversarial IPv4 prefixes; side {import, export} x situation {established: replaced while Established; down: replaced while the session is down after the neighbour's NOTIFICATION, then re-established and fed again; twice: two or three replacements in a row; flap: replaced while Established, then down, up and fed again} x peer {passive: a new FSM per connection; active: FSM 0 reused} x {iBGP, eBGP}; (OLD, NEW) pairs: one action value of set LOCAL_PREF / MED / next hop / prepend (30%), accept<->reject (10%), one route-filter bound / matcher / pattern (15%), one prefix-list entry, order of two terms, one small change in a chain of the full grammar (5% each), accept-all<->reject-all, unrelated chains, truly equal chains (10% each); import side: the neighbour announces up to 8 routes, half of the cases with a second eBGP neighbour and/or a static route in the same Loc-RIB; export side: Loc-RIB from static routes and a second eBGP neighbour. Each case builds both systems over real sessions (in-memory connections) and compares Loc-RIB (import) or Adj-RIB-Out and the net effect of the UPDATEs sent (export). A server case is non-trivial when the table before the replacement differs from the freshly built one"

func genServerCases(r *vf.Run) []any {
	n := r.N(96, 3000)
	out := make([]any, 0, n)
	for i := 0; i < n; i++ {
		out = append(out, genServerCase(r.RandN("c12-server", i), i))
	}
	return out
}

func driveServer(r *vf.Run, cases []any) {
	_, replay := r.Replaying()
	r.Eval(len(cases))
	batch.Drive(r, batch.Config{Name: "c12", PerChild: 48, Workers: 4, Lanes: 2, ChildBudget: 5 * time.Minute}, cases, func(i int, f batch.Fatal) map[string]string {
		var c srvCase
		if b, err := json.Marshal(cases[i]); err == nil {
			json.Unmarshal(b, &c)
		}
		return map[string]string{"side": c.Side, "situation": c.Situation}
	})
	if !replay {
		r.Require("server_cases", int64(len(cases)*8/10))
		r.Require("server_cases_where_the_new_chain_changes_the_result", int64(len(cases)*3/10))
	}
}
