// C12: replacing a policy converges to the new policy's result.
// Oracle (differential, no reference model): system A = tables built with the old chain, routes loaded, then
// ReplaceFilterChain(new) (possibly several replacements); system B = fresh tables built with the final chain and fed
// the same routes. Compared per prefix as sets of deep path content: the Loc-RIB (import side) and the session's
// Adj-RIB-Out (export side, add-path identifiers left out). Third case kind: the predicate that lets the BGP server
// skip a replacement (filter.Chain.Equal) must not call two chains equal that treat some route of the set differently.
package main

import (
	"bytes"
	"fmt"
	"math/rand/v2"
	"sort"
	"strings"
	"sync"

	"github.com/bio-routing/bio-rd/route"

	"verifharness/internal/batch"
	"verifharness/internal/gen"
	"verifharness/internal/rig"
	"verifharness/internal/vf"
)

type routeSpec struct {
	Pfx  int      `json:"pfx"`
	From int      `json:"from"` // 0 = the session under test, 1 = another neighbour, 2 = directly into the Loc-RIB
	Attr rig.Attr `json:"attr"`
	// Late: the route only arrives after the last policy replacement (the replaced policy must also govern what
	// comes afterwards, e.g. when the table was empty at the moment of the replacement)
	Late bool `json:"late,omitempty"`
}

type c12case struct {
	Kind     string       `json:"kind"` // import | export | equal
	V4       bool         `json:"v4"`
	Universe []gen.P      `json:"universe"`
	Sess     rig.Sess     `json:"sess"`
	Chains   []rig.Policy `json:"chains"`
	Mutation []string     `json:"mutation"` // how each chain differs from its predecessor
	Routes   []routeSpec  `json:"routes"`
}

var otherPeer = rig.Src{Name: "X", IP: 0x0A000401, ASN: 65000, Kind: rig.IBGP, BGPID: 0x04040401}

func genCase(rng *rand.Rand, kind string) c12case {
	c := c12case{Kind: kind, V4: rng.IntN(3) != 0}
	c.Universe = gen.Universe(rng, c.V4, 8)
	src := rig.Sources[rng.IntN(len(rig.Sources))]
	c.Sess = rig.Sess{Kind: src.Kind, Peer: src.IP, PeerASN: src.ASN}
	if kind == "export" {
		c.Sess = rig.GenSessions(rng, 1, []uint{0, 0, 2, 4})[0]
	}
	o := rig.GenOpts{Protocols: true}
	first := rig.GenPolicy(rng, c.Universe, o)
	if rng.IntN(6) == 0 {
		first = rig.AcceptAll()
	}
	c.Chains = []rig.Policy{first}
	n := 1
	if rng.IntN(4) == 0 {
		n = 2 + rng.IntN(2)
	}
	for len(c.Chains) < n+1 {
		prev := c.Chains[len(c.Chains)-1]
		if rng.IntN(10) < 7 {
			if q, k, ok := rig.Mutate(rng, prev, c.Universe); ok {
				c.Chains = append(c.Chains, q)
				c.Mutation = append(c.Mutation, k)
				continue
			}
		}
		switch rng.IntN(8) {
		case 0:
			c.Chains = append(c.Chains, rig.RejectAll())
			c.Mutation = append(c.Mutation, "to-reject-all")
		case 1:
			c.Chains = append(c.Chains, rig.AcceptAll())
			c.Mutation = append(c.Mutation, "to-accept-all")
		default:
			c.Chains = append(c.Chains, rig.GenPolicy(rng, c.Universe, o))
			c.Mutation = append(c.Mutation, "unrelated")
		}
	}
	id := uint32(1)
	withStatic := rng.IntN(4) == 0
	for pi := range c.Universe {
		if rng.IntN(6) == 0 {
			continue
		}
		if kind == "export" {
			// Loc-RIB content: BGP paths from the usual neighbours, or static routes on their own prefixes
			if (pi == len(c.Universe)-1 && withStatic) || (withStatic && rng.IntN(7) == 0) {
				for k := 0; k < 1+rng.IntN(2); k++ {
					c.Routes = append(c.Routes, routeSpec{Pfx: pi, From: 2, Attr: rig.Attr{ID: id, Static: true}})
					id++
				}
				continue
			}
			used := map[int]bool{}
			for k := 0; k < 1+rng.IntN(3); k++ {
				si := rng.IntN(len(rig.Sources))
				if used[si] {
					continue
				}
				used[si] = true
				c.Routes = append(c.Routes, routeSpec{Pfx: pi, From: 2, Attr: rig.GenPath(rng, id, rig.Sources[si], rig.PathOpts{Unknown: true, RRAttrs: true})})
				id++
			}
			continue
		}
		// import: the neighbour under test announces the prefix; sometimes another neighbour and a static route too
		a := rig.GenPath(rng, id, src, rig.PathOpts{Unknown: true, RRAttrs: true})
		if rng.IntN(10) == 0 && len(a.ASPath) > 0 {
			a.ASPath[0].ASNs = append(a.ASPath[0].ASNs, rig.DefaultLocal.ASN) // hidden: own ASN in the path
		}
		c.Routes = append(c.Routes, routeSpec{Pfx: pi, From: 0, Attr: a})
		id++
		if rng.IntN(3) == 0 {
			c.Routes = append(c.Routes, routeSpec{Pfx: pi, From: 1, Attr: rig.GenPath(rng, id, otherPeer, rig.PathOpts{})})
			id++
		}
	}
	if kind == "import" && rng.IntN(2) == 0 {
		// a static route on a prefix no neighbour announces
		c.Routes = append(c.Routes, routeSpec{Pfx: len(c.Universe) - 1, From: 2, Attr: rig.Attr{ID: id, Static: true}})
		var keep []routeSpec
		for _, r := range c.Routes {
			if r.Pfx != len(c.Universe)-1 || r.From == 2 {
				keep = append(keep, r)
			}
		}
		c.Routes = keep
	}
	switch rng.IntN(4) {
	case 0: // everything arrives after the replacement: the table is empty when the policy is replaced
		for i := range c.Routes {
			c.Routes[i].Late = true
		}
	case 1: // a part arrives afterwards
		for i := range c.Routes {
			c.Routes[i].Late = rng.IntN(2) == 0
		}
	}
	return c
}

type system struct {
	rg    *rig.Rig
	in    *rig.In
	other *rig.In
	out   *rig.Out
	down  *rig.Out // import cases: a best-only route-reflector client that is fed from the Loc-RIB
}

func build(c c12case, chain rig.Policy) *system {
	s := &system{rg: rig.New(rig.DefaultLocal, c.V4)}
	switch c.Kind {
	case "import":
		s.in = s.rg.AddIn(c.Sess, chain)
		other := s.rg.AddIn(rig.Sess{Kind: otherPeer.Kind, Peer: otherPeer.IP, PeerASN: otherPeer.ASN}, rig.AcceptAll())
		s.other = other
		s.down = s.rg.AddOut(rig.Sess{Kind: rig.IBGPRR, Peer: 0x0A000909, PeerASN: rig.DefaultLocal.ASN}, rig.AcceptAll())
		s.load(c, false)
	case "export":
		s.load(c, false)
		s.out = s.rg.AddOut(c.Sess, chain)
	}
	return s
}

// load feeds the routes that arrive before (late=false) or after (late=true) the policy replacements.
func (s *system) load(c c12case, late bool) {
	for _, r := range c.Routes {
		if r.Late != late {
			continue
		}
		switch {
		case c.Kind == "import" && r.From == 0:
			s.in.Table.AddPath(c.Universe[r.Pfx].Bio(), r.Attr.Build(s.rg.Pool))
		case c.Kind == "import" && r.From == 1:
			s.other.Table.AddPath(c.Universe[r.Pfx].Bio(), r.Attr.Build(s.rg.Pool))
		default:
			s.rg.Loc.AddPath(c.Universe[r.Pfx].Bio(), r.Attr.Build(s.rg.Pool))
		}
	}
}

func (s *system) snap(kind string) *rig.TableSnap {
	if kind == "import" {
		return rig.Snap(s.rg.Loc.Dump(), true)
	}
	return rig.Snap(s.out.Table.Dump(), false)
}

var hg *rig.HangGuard

type outcome struct {
	viol                                   []vf.Violation
	compared, prefixes                     int
	changedSomething, hadHidden, hadStatic bool
}

func feat(c c12case, extra ...any) map[string]string {
	mut := "several"
	if len(c.Mutation) == 1 {
		mut = c.Mutation[0]
	}
	f := vf.F("side", c.Kind, "session", c.Sess.Kind, "addpath", c.Sess.AddPath > 0, "change", mut)
	if c.Kind == "export" {
		// a route of the set may not be advertised on this session at all (NO_ADVERTISE, NO_EXPORT to eBGP, the peer's own route)
		blocked := false
		for _, r := range c.Routes {
			ex := rig.Excluded(rig.DefaultLocal, c.Sess, r.Attr)
			blocked = blocked || strings.HasPrefix(ex, "R1") || strings.HasPrefix(ex, "R2") || strings.HasPrefix(ex, "R3")
		}
		f["blocked_route_present"] = fmt.Sprint(blocked)
	}
	for i := 0; i+1 < len(extra); i += 2 {
		f[fmt.Sprint(extra[i])] = fmt.Sprint(extra[i+1])
	}
	return f
}

func runCase(c c12case) (o outcome) {
	for _, r := range c.Routes {
		o.hadStatic = o.hadStatic || r.Attr.Static
		for _, s := range r.Attr.ASPath {
			for _, x := range s.ASNs {
				o.hadHidden = o.hadHidden || x == rig.DefaultLocal.ASN
			}
		}
	}
	if c.Kind == "equal" {
		return runEqual(c)
	}
	final := c.Chains[len(c.Chains)-1]
	var a, b, a0, ad, bd *rig.TableSnap
	key := fmt.Sprintf("%s/%s/%v", c.Kind, c.Sess.Kind, c.Sess.AddPath > 0)
	static := o.hadStatic
	g, hung, stk := rig.WaitGuarded(hg, key, func() {
		sa := build(c, c.Chains[0])
		a0 = sa.snap(c.Kind)
		for _, ch := range c.Chains[1:] {
			if c.Kind == "import" {
				sa.rg.ReplaceImport(sa.in, ch)
			} else {
				sa.rg.ReplaceExport(sa.out, ch)
			}
		}
		sa.load(c, true)
		a = sa.snap(c.Kind)
		sb := build(c, final)
		sb.load(c, true)
		b = sb.snap(c.Kind)
		if c.Kind == "import" {
			ad, bd = rig.Snap(sa.down.Table.Dump(), false), rig.Snap(sb.down.Table.Dump(), false)
		}
	})
	if hung {
		o.viol = append(o.viol, vf.Violation{Clause: "hang", Features: vf.F("side", c.Kind, "addpath", c.Sess.AddPath > 0), Detail: "the replacement never returned; blocked in:\n" + stk, Case: c})
		return
	}
	if g != "" {
		o.viol = append(o.viol, vf.Violation{Clause: "panic", Features: vf.F("side", c.Kind, "session", c.Sess.Kind, "site", rig.PanicSite(g), "static_route_present", static), Detail: "panic: " + g, Case: c})
		return
	}
	o.changedSomething = len(a0.SetDiff(b)) > 0
	o.prefixes = len(b.Keys)
	o.compared = 1
	seen := map[string]bool{}
	for _, d := range a.SetDiff(b) {
		for _, how := range classify(a.Attrs[d.Key], b.Attrs[d.Key]) {
			v := vf.Violation{Clause: "diverged:" + how, Features: feat(c), Case: c,
				Detail: fmt.Sprintf("%s side, session %s, chains %s: prefix %s after the replacement holds %v, a session set up with the final chain holds %v",
					c.Kind, c.Sess, chainsStr(c), d.Pfx, d.Before, d.After)}
			if !seen[v.Signature()] {
				seen[v.Signature()] = true
				o.viol = append(o.viol, v)
			}
		}
	}
	// what the Loc-RIB passed on: a downstream session must have converged as well
	if ad != nil && len(o.viol) == 0 {
		for _, d := range ad.SetDiff(bd) {
			for _, how := range classify(ad.Attrs[d.Key], bd.Attrs[d.Key]) {
				v := vf.Violation{Clause: "diverged-downstream:" + how, Features: feat(c), Case: c,
					Detail: fmt.Sprintf("import side, session %s, chains %s: the Loc-RIBs agree, but for prefix %s the Adj-RIB-Out of a route-reflector client holds %v after the replacement and %v when everything is set up with the final chain",
						c.Sess, chainsStr(c), d.Pfx, d.Before, d.After)}
				if !seen[v.Signature()] {
					seen[v.Signature()] = true
					o.viol = append(o.viol, v)
				}
			}
		}
	}
	return
}

// classify names how system A's paths of one prefix differ from system B's.
func classify(a, b []rig.Attr) []string {
	am, bm := map[uint32][]rig.Attr{}, map[uint32][]rig.Attr{}
	for _, x := range a {
		am[x.ID] = append(am[x.ID], x)
	}
	for _, x := range b {
		bm[x.ID] = append(bm[x.ID], x)
	}
	set := map[string]bool{}
	for id, xs := range am {
		ys, ok := bm[id]
		switch {
		case !ok:
			set["not-withdrawn"] = true
		case len(xs) > len(ys):
			set["old-version-kept"] = true
		case len(xs) < len(ys):
			set["not-announced"] = true
		default:
			for i := range xs {
				x, y := xs[i], ys[i]
				x.PathID, y.PathID = 0, 0
				if len(x.DiffFields(y, rig.AllFields)) > 0 {
					set["old-attributes"] = true
				}
			}
		}
	}
	for id := range bm {
		if _, ok := am[id]; !ok {
			set["not-announced"] = true
		}
	}
	var out []string
	for k := range set {
		out = append(out, k)
	}
	sort.Strings(out)
	if len(out) == 0 {
		return []string{"other"}
	}
	return out
}

func chainsStr(c c12case) string {
	var p []string
	for _, ch := range c.Chains {
		p = append(p, "["+ch.String()+"]")
	}
	return strings.Join(p, " => ")
}

// runEqual: if bio-rd calls two chains equal (and would therefore skip the replacement), they must treat every route
// of the set the same. Judged with bio-rd's own Chain.Process on both chains.
func runEqual(c c12case) (o outcome) {
	pool := rig.NewIPPool()
	oldC, newC := c.Chains[0].Build(pool), c.Chains[1].Build(pool)
	var eq bool
	if g := rig.Guard(func() { eq = oldC.Equal(newC) }); g != "" {
		o.viol = append(o.viol, vf.Violation{Clause: "panic", Features: vf.F("side", "equal", "site", rig.PanicSite(g)), Detail: "Chain.Equal: " + g, Case: c})
		return
	}
	o.compared = 1
	differs := ""
	for _, r := range c.Routes {
		p := c.Universe[r.Pfx]
		x, rx := oldC.Process(p.Bio(), r.Attr.Build(pool))
		y, ry := newC.Process(p.Bio(), r.Attr.Build(pool))
		if rx != ry || (!rx && !bytes.Equal(rig.PathBytes(x, true), rig.PathBytes(y, true))) {
			differs = fmt.Sprintf("route %s %s: old chain -> reject=%v %s, new chain -> reject=%v %s", p, r.Attr.Short(), rx, rig.FromPath(x).Short(), ry, rig.FromPath(y).Short())
			break
		}
	}
	o.changedSomething = differs != ""
	if eq && differs != "" {
		o.viol = append(o.viol, vf.Violation{Clause: "equal-but-different", Features: vf.F("change", c.Mutation[0]), Case: c,
			Detail: fmt.Sprintf("Chain.Equal says [%s] and [%s] are equal (the server would skip the replacement), but %s", c.Chains[0], c.Chains[1], differs)})
	}
	return
}

func genEqualCase(rng *rand.Rand) c12case {
	c := genCase(rng, "import")
	c.Kind = "equal"
	c.Chains = c.Chains[:2]
	c.Mutation = c.Mutation[:1]
	// make sure the route set exercises every prefix with a BGP and a static path
	id := uint32(1000)
	for pi := range c.Universe {
		c.Routes = append(c.Routes, routeSpec{Pfx: pi, Attr: rig.GenPath(rng, id, rig.Sources[0], rig.PathOpts{})}, routeSpec{Pfx: pi, Attr: rig.Attr{ID: id + 1, Static: true}})
		id += 2
	}
	return c
}

func main() {
	if batch.IsChild() { // server half (server.go): its cases run in child processes
		batch.ChildMain(runServerCase)
		return
	}
	vf.Main("C12", "exploration", func(r *vf.Run) {
		r.Rule("PRNG (old chain, new chain(s), route set) triples over 8 adversarial prefixes from the policy grammar (prefix lists, route filters exact/orlonger/longer/range, protocol conditions, accept, reject, set LOCAL_PREF / MED / next hop, AS-path prepend): 70% of the new chains differ from their predecessor in one small way (one action value, one next hop, one route-filter bound/matcher/pattern, one prefix-list entry, protocol, order of two terms, accept<->reject), the rest are unrelated chains or accept-all/reject-all; 25% of the cases replace two or three times. Import side: an Adj-RIB-In of an eBGP / iBGP / RR-client neighbour with up to 8 routes (some hidden for an AS loop), a second neighbour and static routes in the same Loc-RIB. Export side: Loc-RIB with BGP paths from four neighbours and static routes, one Adj-RIB-Out from {eBGP, RS client, iBGP, RR client} x {best only, add-path 2/4} x roles. Third kind: Chain.Equal against bio-rd's own evaluation of both chains on the route set. distinct_nontrivial = cases in which the final chain really changes the result (the table before the replacement differs from the freshly built one). " + srvRule)
		r.Assume("kinds import/export/equal work on the tables directly; kind server drives BGPServer.ReplaceImportFilterChain/ReplaceExportFilterChain over live sessions (IPv4 unicast, best path only; synchronisation points of internal/speaker)",
			"paths are compared per prefix as sets (order is C02's business); add-path identifiers are left out on the export side",
			"server kind, UPDATEs sent: the update sender writes on a 5 ms ticker; a difference between the two systems' streams counts when it is still there after 3 s")
		_, replay := r.Replaying()
		hg = rig.NewHangGuard(replay)
		var mu sync.Mutex
		byKind := map[string]int{}
		byChange := map[string]int{}
		report := func(c c12case, i int) {
			var o outcome
			if p := rig.Guard(func() { o = runCase(c) }); p != "" {
				r.Violate(vf.Violation{Clause: "harness-panic", Features: vf.F(), Detail: p, Case: c})
				return
			}
			for _, v := range o.viol {
				r.Violate(v)
			}
			r.Eval(o.compared)
			r.Count("cases_"+c.Kind, 1)
			r.Count("prefixes_compared", o.prefixes)
			if o.changedSomething {
				r.Nontrivial(fmt.Sprint(i))
				r.Count("cases_where_the_new_chain_changes_the_result", 1)
			}
			mu.Lock()
			byKind[c.Kind+"/"+c.Sess.Kind]++
			for _, m := range c.Mutation {
				byChange[m]++
			}
			mu.Unlock()
			if i%1000 == 1 {
				r.Sample(map[string]any{"kind": c.Kind, "session": c.Sess.String(), "chains": chainsStr(c), "routes": len(c.Routes)})
			}
		}
		if raw, ok := r.Replaying(); ok {
			if isServerCase(raw) {
				driveServer(r, []any{raw})
				return
			}
			var c c12case
			vf.Decode(raw, &c)
			report(c, 0)
			return
		}
		n := r.N(3000, 100000)
		vf.Parallel(n, 8, func(i int) {
			rng := r.RandN("c12", i)
			switch i % 5 {
			case 0, 1:
				report(genCase(rng, "import"), i)
			case 2, 3:
				report(genCase(rng, "export"), i)
			default:
				report(genEqualCase(rng), i)
			}
		})
		r.Set("cases_by_kind_and_session", byKind)
		r.Set("chain_changes_by_kind", byChange)
		r.Require("cases_where_the_new_chain_changes_the_result", 500)
		driveServer(r, genServerCases(r))
	})
}

var _ = route.BGPPathType
