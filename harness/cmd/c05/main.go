// C05: the Loc-RIB mirrors the accepted paths of each Adj-RIB-In.
// Monitor: a model map (prefix, path id | *) -> announced path per session; after every operation the Loc-RIB paths
// whose source is a session are compared (projection: unique id + LOCAL_PREF, MED, next hop, AS_PATH, path id) with the
// model's stored, eligible announcements rewritten by the reference policy.
package main

import (
	"fmt"
	"math/rand/v2"
	"runtime"
	"sort"

	bnet "github.com/bio-routing/bio-rd/net"
	"github.com/bio-routing/bio-rd/route"
	"github.com/bio-routing/bio-rd/routingtable/adjRIBIn"
	"github.com/bio-routing/bio-rd/routingtable/locRIB"
	"github.com/bio-routing/bio-rd/routingtable/vrf"

	"verifharness/internal/tbl"
	"verifharness/internal/vf"
)

const localASN = 65000
const clusterID = 0x0a0a0a0a

type sess struct {
	S tbl.SessionSpec `json:"s"`
	P tbl.PolicySpec  `json:"p"`
}

type op struct {
	K    string       `json:"k"` // announce | withdraw | flush | unregister | register
	Sess int          `json:"sess"`
	Pfx  int          `json:"pfx,omitempty"`
	Path tbl.PathSpec `json:"path,omitempty"`
	PID  uint32       `json:"pid,omitempty"`
}

type hist struct {
	Sessions []sess `json:"sessions"`
	Ops      []op   `json:"ops"`
}

var pfxs = func() []*bnet.Prefix {
	var out []*bnet.Prefix
	for i := 0; i < 5; i++ {
		out = append(out, bnet.NewPfx(bnet.IPv4(0x0a000000+uint32(i)<<16), 16).Ptr())
	}
	return out
}()

func u(x uint32) *uint32 { return &x }

func genSess(rng *rand.Rand, i int) sess {
	s := tbl.SessionSpec{LocalASN: localASN, RouterID: 0x01010101, ClusterID: clusterID, PeerIP: 0x0a0a0001 + uint32(i), AddPathRX: rng.IntN(2) == 0}
	if rng.IntN(2) == 0 {
		s.IBGP, s.PeerASN = true, localASN
	} else {
		s.PeerASN = 65100 + uint32(i)
	}
	var p tbl.PolicySpec
	switch rng.IntN(6) {
	case 0: // accept all
	case 1:
		p.Reject = []string{pfxs[rng.IntN(len(pfxs))].String(), pfxs[rng.IntN(len(pfxs))].String()}
	case 2:
		p.SetLP = u(200 + uint32(rng.IntN(3))*50)
	case 3:
		p.Prepend = &[2]uint32{64999, uint32(1 + rng.IntN(3))}
	case 4:
		p.SetMED = u(77)
		p.SetNH = u(0x0c000001)
	case 5:
		p.Reject = []string{pfxs[rng.IntN(len(pfxs))].String()}
		p.SetLP = u(300)
		p.Prepend = &[2]uint32{64998, 1}
	}
	return sess{S: s, P: p}
}

func genPath(rng *rand.Rand, s tbl.SessionSpec, id uint32) tbl.PathSpec {
	p := tbl.PathSpec{ID: id, Source: s.PeerIP, NextHop: 0x0b000001 + uint32(rng.IntN(3)), BGPID: 0x02020200 + s.PeerIP&0xff, EBGP: !s.IBGP, MED: uint32(rng.IntN(2)) * 5}
	if s.IBGP {
		p.LP = []uint32{0, 100, 150}[rng.IntN(3)]
		p.ASPath = [][]tbl.Seg{nil, {{ASNs: []uint32{65200}}}, {{ASNs: []uint32{65200, 65201}}}}[rng.IntN(3)]
	} else {
		p.ASPath = [][]tbl.Seg{{{ASNs: []uint32{s.PeerASN}}}, {{ASNs: []uint32{s.PeerASN, 65201}}}, {{ASNs: []uint32{s.PeerASN}}, {Set: true, ASNs: []uint32{65300, 65301}}}}[rng.IntN(3)]
	}
	if s.AddPathRX {
		p.PathID = uint32(1 + rng.IntN(3))
	}
	// a share of ineligible announcements
	switch rng.IntN(12) {
	case 0:
		p.ASPath = append(p.ASPath, tbl.Seg{ASNs: []uint32{localASN}})
	case 1:
		if s.IBGP {
			p.OrigID = s.RouterID
		}
	case 2:
		if s.IBGP {
			p.Cluster = &[]uint32{5, clusterID}
		}
	case 3:
		if !s.IBGP {
			p.ASPath = nil
		}
	case 4:
		if s.IBGP {
			p.OrigID = 0x09090909
			p.Cluster = &[]uint32{5}
		}
	}
	return p
}

func genHist(rng *rand.Rand, nops int) hist {
	var h hist
	ns := 2 + rng.IntN(2)
	for i := 0; i < ns; i++ {
		h.Sessions = append(h.Sessions, genSess(rng, i))
	}
	id := uint32(1)
	for i := 0; i < nops; i++ {
		si := rng.IntN(ns)
		x := rng.IntN(100)
		switch {
		case x < 55:
			h.Ops = append(h.Ops, op{K: "announce", Sess: si, Pfx: rng.IntN(len(pfxs)), Path: genPath(rng, h.Sessions[si].S, id)})
			id++
		case x < 80:
			o := op{K: "withdraw", Sess: si, Pfx: rng.IntN(len(pfxs))}
			if h.Sessions[si].S.AddPathRX {
				o.PID = uint32(1 + rng.IntN(3))
			}
			h.Ops = append(h.Ops, o)
		case x < 85:
			h.Ops = append(h.Ops, op{K: "flush", Sess: si})
		case x < 93:
			h.Ops = append(h.Ops, op{K: "unregister", Sess: si})
		default:
			h.Ops = append(h.Ops, op{K: "register", Sess: si})
		}
	}
	return h
}

type key struct {
	pfx int
	pid uint32
}

type stats struct {
	byKind     map[string]int
	implicit   int
	unregAfterRewrite int
	ineligible int
}

func projKey(p tbl.Proj) string {
	return fmt.Sprintf("#%d lp=%d med=%d nh=%x as=%s pid=%d", p.ID, p.LP, p.MED, p.NH, p.ASPath, p.PathID)
}

func run(h hist, st *stats, viol func(string, map[string]string, string)) int {
	evals := 0
	step := -1
	defer func() {
		if p := recover(); p != nil {
			buf := make([]byte, 3000)
			buf = buf[:runtime.Stack(buf, false)]
			viol("panic", vf.F(), fmt.Sprintf("panic at step %d: %v\n%s", step, p, buf))
		}
	}()
	v := vrf.NewUntrackedVRF("c05", 0)
	v.AddContributingASN(localASN)
	v.AddContributingClusterID(clusterID)
	lr := locRIB.New("inet.0")
	localASNs := map[uint32]bool{localASN: true}
	localCIDs := map[uint32]bool{clusterID: true}
	type sstate struct {
		in         *adjRIBIn.AdjRIBIn
		stored     map[key]tbl.PathSpec
		registered bool
	}
	ss := make([]*sstate, len(h.Sessions))
	for i, s := range h.Sessions {
		ss[i] = &sstate{in: adjRIBIn.New(s.P.Chain(), v, s.S.Attrs()), stored: map[key]tbl.PathSpec{}, registered: true}
		ss[i].in.Register(lr)
	}
	for i, o := range h.Ops {
		step = i
		s := ss[o.Sess]
		spec := h.Sessions[o.Sess]
		st.byKind[o.K]++
		switch o.K {
		case "announce":
			k := key{o.Pfx, 0}
			if spec.S.AddPathRX {
				k.pid = o.Path.PathID
			}
			if _, ok := s.stored[k]; ok {
				st.implicit++
			}
			if tbl.Ineligible(o.Path, spec.S, localASNs, localCIDs) != "" {
				st.ineligible++
			}
			s.in.AddPath(pfxs[o.Pfx], o.Path.Build())
			s.stored[k] = o.Path
		case "withdraw":
			w := &route.Path{Type: route.BGPPathType, BGPPath: &route.BGPPath{PathIdentifier: o.PID}}
			s.in.RemovePath(pfxs[o.Pfx], w)
			if spec.S.AddPathRX {
				delete(s.stored, key{o.Pfx, o.PID})
			} else {
				delete(s.stored, key{o.Pfx, 0})
			}
		case "flush":
			s.in.Flush()
			s.stored = map[key]tbl.PathSpec{}
		case "unregister":
			if s.registered {
				if spec.P.Rewrites() && len(s.stored) > 0 {
					st.unregAfterRewrite++
				}
				s.in.Unregister(lr)
				s.registered = false
			}
		case "register":
			if !s.registered {
				s.in.Register(lr)
				s.registered = true
			}
		}
		// compare
		dump := lr.Dump()
		obs := map[uint32]map[string][]tbl.Proj{} // source -> prefix -> projs
		for _, rt := range dump {
			for _, p := range rt.Paths() {
				if p.BGPPath == nil || p.BGPPath.BGPPathA == nil || p.BGPPath.BGPPathA.Source == nil {
					continue
				}
				src := p.BGPPath.BGPPathA.Source.ToUint32()
				if obs[src] == nil {
					obs[src] = map[string][]tbl.Proj{}
				}
				obs[src][rt.Prefix().String()] = append(obs[src][rt.Prefix().String()], tbl.ProjOfPath(p))
			}
		}
		for si, s2 := range ss {
			sp := h.Sessions[si]
			want := map[string][]tbl.Proj{}
			lpOpen := map[uint32]bool{}
			if s2.registered {
				for k, ps := range s2.stored {
					if tbl.Ineligible(ps, sp.S, localASNs, localCIDs) != "" {
						continue
					}
					rej, rw := sp.P.Apply(pfxs[k.pfx].String(), ps)
					if rej {
						continue
					}
					if !sp.S.IBGP && ps.LP == 0 && sp.P.SetLP == nil {
						lpOpen[ps.ID] = true // eBGP default LOCAL_PREF: 0 or the configured default, the statement does not say
					}
					want[pfxs[k.pfx].String()] = append(want[pfxs[k.pfx].String()], tbl.ProjOfSpec(rw))
				}
			}
			for _, p := range pfxs {
				ps := p.String()
				var w, g []string
				for _, x := range want[ps] {
					if lpOpen[x.ID] {
						x.LP = 0
					}
					w = append(w, projKey(x))
				}
				for _, x := range obs[sp.S.PeerIP][ps] {
					if lpOpen[x.ID] && (x.LP == 100 || x.LP == 0) {
						x.LP = 0
					}
					g = append(g, projKey(x))
				}
				sort.Strings(w)
				sort.Strings(g)
				evals++
				if fmt.Sprint(w) != fmt.Sprint(g) {
					kind := "ebgp"
					if sp.S.IBGP {
						kind = "ibgp"
					}
					rel := "missing-or-different"
					if len(g) > len(w) {
						rel = "stale-or-extra"
					}
					viol("locrib-contribution-mismatch", vf.F("after", o.K, "session", kind, "addpath_rx", sp.S.AddPathRX, "policy_rewrites", sp.P.Rewrites(), "policy_rejects", len(sp.P.Reject) > 0, "relation", rel),
						fmt.Sprintf("step %d (%s on session %d): session %d contributes %v to %s in the Loc-RIB, model says %v", i, o.K, o.Sess, si, g, ps, w))
					return evals // later mismatches of this history are consequences of this one
				}
			}
		}
	}
	return evals
}

func main() {
	vf.Main("C05", "exploration", func(r *vf.Run) {
		r.Rule("PRNG histories of ~60 operations (announce/withdraw/flush/unregister/register) on 2-3 Adj-RIB-Ins (iBGP/eBGP x add-path receive on/off x import policy in {accept-all, reject-some, set LOCAL_PREF, prepend, set MED+next hop, reject+rewrite}) feeding one Loc-RIB over 5 prefixes, with a share of ineligible announcements; after EVERY operation the Loc-RIB's paths per source session are compared with the model. distinct_nontrivial = histories containing an implicit replacement, an ineligible announcement and an unregister of a session whose policy rewrites")
		r.Assume("eBGP announcements without LOCAL_PREF may appear with LOCAL_PREF 0 or the session default", "contributing ASN/cluster id are registered with the VRF by the harness (the FSM does that in the daemon)")
		mk := func(h hist) func(string, map[string]string, string) {
			return func(clause string, f map[string]string, detail string) {
				r.Violate(vf.Violation{Clause: clause, Features: f, Detail: detail, Case: h})
			}
		}
		if raw, ok := r.Replaying(); ok {
			var h hist
			vf.Decode(raw, &h)
			run(h, &stats{byKind: map[string]int{}}, mk(h))
			return
		}
		n := r.N(4000, 150000)
		agg := map[string]int{}
		ch := make(chan *stats, 64)
		done := make(chan struct{})
		go func() {
			for st := range ch {
				for k, v := range st.byKind {
					agg[k] += v
				}
				agg["implicit_replacements"] += st.implicit
				agg["unregister_after_rewrite"] += st.unregAfterRewrite
				agg["ineligible_announcements"] += st.ineligible
			}
			close(done)
		}()
		vf.Parallel(n, runtime.NumCPU(), func(i int) {
			rng := r.RandN("c05", i)
			h := genHist(rng, 50+rng.IntN(21))
			st := &stats{byKind: map[string]int{}}
			r.Eval(run(h, st, mk(h)))
			if st.implicit > 0 && st.ineligible > 0 && st.unregAfterRewrite > 0 {
				r.Nontrivial(fmt.Sprint(i))
			}
			ch <- st
			if i < 2 {
				r.Sample(map[string]any{"sessions": h.Sessions, "first_ops": h.Ops[:6], "n_ops": len(h.Ops)})
			}
		})
		close(ch)
		<-done
		r.Set("ops_and_events", agg)
		r.Count("histories", n)
	})
}
