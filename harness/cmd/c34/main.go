// C34: API route conversion preserves what the API carries.
// Oracle: Route.ToProto -> proto.Marshal -> proto.Unmarshal -> RouteFromProtoRoute; the result is compared
// field by field with the generated specification (not with the input object, which could have been
// damaged) for every field the statement lists, nil and empty lists being equivalent; and a path whose
// HiddenReason is not 0 must not carry HiddenReasonNone in the API message (before and after the wire).
package main

import (
	"bytes"
	"fmt"
	"math/rand/v2"
	"runtime"
	"sync"

	bnet "github.com/bio-routing/bio-rd/net"
	"github.com/bio-routing/bio-rd/protocols/bgp/types"
	"github.com/bio-routing/bio-rd/route"
	"github.com/bio-routing/bio-rd/route/api"
	"google.golang.org/protobuf/proto"

	"verifharness/internal/vf"
)

type ipSpec struct {
	V4 bool   `json:"v4"`
	Hi uint64 `json:"hi"`
	Lo uint64 `json:"lo"` // v4: address in the low 32 bits
}

func (s ipSpec) ip() bnet.IP {
	if s.V4 {
		return bnet.IPv4(uint32(s.Lo))
	}
	return bnet.IPv6(s.Hi, s.Lo)
}

func (s ipSpec) String() string { return s.ip().String() }

func specOfIP(ip *bnet.IP) (ipSpec, bool) {
	if ip == nil {
		return ipSpec{}, false
	}
	if ip.IsIPv4() {
		return ipSpec{V4: true, Lo: uint64(ip.ToUint32())}, true
	}
	return ipSpec{Hi: ip.Higher(), Lo: ip.Lower()}, true
}

type segSpec struct {
	Seq  bool     `json:"seq"`
	ASNs []uint32 `json:"asns"`
}

type unkSpec struct {
	Optional   bool   `json:"o"`
	Transitive bool   `json:"t"`
	Partial    bool   `json:"p"`
	TypeCode   uint8  `json:"code"`
	Value      []byte `json:"value"`
	ValueNil   bool   `json:"value_nil,omitempty"`
}

// list presence: "nil" (nil pointer / nil slice), "empty" (non-nil, zero entries), "set"
type pathSpec struct {
	BGP    bool   `json:"bgp"`
	Hidden uint8  `json:"hidden"`
	LTime  uint32 `json:"ltime"`
	NH     ipSpec `json:"nh"`
	// BGP only
	Source     ipSpec      `json:"source"`
	LocalPref  uint32      `json:"local_pref"`
	MED        uint32      `json:"med"`
	Origin     uint8       `json:"origin"`
	EBGP       bool        `json:"ebgp"`
	BGPID      uint32      `json:"bgp_id"`
	Originator uint32      `json:"originator_id"`
	OTC        uint32      `json:"otc"`
	PathID     uint32      `json:"path_id"`
	PostPolicy bool        `json:"post_policy"`
	ASPathNil  bool        `json:"as_path_nil,omitempty"`
	ASPath     []segSpec   `json:"as_path"`
	ClusterNil bool        `json:"cluster_nil,omitempty"`
	Cluster    []uint32    `json:"cluster"`
	CommNil    bool        `json:"comm_nil,omitempty"`
	Comm       []uint32    `json:"comm"`
	LCommNil   bool        `json:"lcomm_nil,omitempty"`
	LComm      [][3]uint32 `json:"lcomm"`
	UnkNil     bool        `json:"unk_nil,omitempty"`
	Unk        []unkSpec   `json:"unk"`
	// BGP path that was redistributed from a static path (what an Adj-RIB-Out holds for an exported static route): type
	// BGP, RedistributedFrom static, the static part kept next to the fresh BGP part -> the API message carries both payloads
	Redist   bool   `json:"redist,omitempty"`
	StaticNH ipSpec `json:"static_nh,omitempty"`
}

type rcase struct {
	PfxAddr ipSpec     `json:"pfx_addr"`
	PfxLen  uint8      `json:"pfx_len"`
	Paths   []pathSpec `json:"paths"`
	Dedup   bool       `json:"dedup"`
}

var hiddenNames = map[uint8]string{
	route.HiddenReasonNone: "None", route.HiddenReasonNextHopUnreachable: "NextHopUnreachable", route.HiddenReasonFilteredByPolicy: "FilteredByPolicy",
	route.HiddenReasonASLoop: "ASLoop", route.HiddenReasonOurOriginatorID: "OurOriginatorID", route.HiddenReasonClusterLoop: "ClusterLoop",
	route.HiddenReasonOTCMismatch: "OTCMismatch", route.HiddenReasonEmptyASPath: "EmptyASPath",
}

func hiddenName(h uint8) string {
	if n, ok := hiddenNames[h]; ok {
		return n
	}
	return fmt.Sprintf("undefined(%d)", h)
}

func u32(rng *rand.Rand) uint32 {
	switch rng.IntN(6) {
	case 0:
		return 0
	case 1:
		return 0xffffffff
	case 2:
		return uint32(rng.IntN(300))
	case 3:
		return 1 << uint(rng.IntN(32))
	}
	return rng.Uint32()
}

func genIP(rng *rand.Rand) ipSpec {
	switch rng.IntN(8) {
	case 0:
		return ipSpec{V4: true} // 0.0.0.0
	case 1:
		return ipSpec{} // ::
	case 2:
		return ipSpec{Hi: 0, Lo: 0xffff<<32 | uint64(rng.Uint32())} // v4-mapped IPv6
	case 3, 4:
		return ipSpec{Hi: rng.Uint64(), Lo: rng.Uint64()}
	case 5:
		return ipSpec{Hi: ^uint64(0), Lo: ^uint64(0)}
	}
	return ipSpec{V4: true, Lo: uint64(rng.Uint32())}
}

// presence: 0 nil, 1 empty, 2.. set
func presence(rng *rand.Rand) int { return rng.IntN(5) }

func genPath(rng *rand.Rand) pathSpec {
	p := pathSpec{BGP: rng.IntN(4) != 0, LTime: u32(rng), NH: genIP(rng)}
	if rng.IntN(2) == 0 {
		p.Hidden = uint8(rng.IntN(8)) // every defined hidden reason, 0 = visible
	}
	if !p.BGP {
		return p
	}
	p.Source = genIP(rng)
	p.LocalPref, p.MED, p.BGPID, p.Originator, p.OTC, p.PathID = u32(rng), u32(rng), u32(rng), u32(rng), u32(rng), u32(rng)
	p.Origin = uint8(rng.IntN(3))
	if rng.IntN(8) == 0 {
		p.Origin = uint8(rng.IntN(256))
	}
	p.EBGP = rng.IntN(2) == 0
	p.PostPolicy = rng.IntN(2) == 0
	switch k := presence(rng); k {
	case 0:
		p.ASPathNil = true
	case 1:
	default:
		for i, n := 0, 1+rng.IntN(3); i < n; i++ {
			s := segSpec{Seq: rng.IntN(3) != 0, ASNs: []uint32{}}
			for j, m := 0, rng.IntN(5); j < m; j++ {
				s.ASNs = append(s.ASNs, u32(rng))
			}
			p.ASPath = append(p.ASPath, s)
		}
	}
	list := func(isNil *bool, out *[]uint32) {
		switch presence(rng) {
		case 0:
			*isNil = true
		case 1:
		default:
			for i, n := 0, 1+rng.IntN(4); i < n; i++ {
				*out = append(*out, u32(rng))
			}
		}
	}
	list(&p.ClusterNil, &p.Cluster)
	list(&p.CommNil, &p.Comm)
	switch presence(rng) {
	case 0:
		p.LCommNil = true
	case 1:
	default:
		for i, n := 0, 1+rng.IntN(3); i < n; i++ {
			p.LComm = append(p.LComm, [3]uint32{u32(rng), u32(rng), u32(rng)})
		}
	}
	switch presence(rng) {
	case 0:
		p.UnkNil = true
	case 1:
	default:
		for i, n := 0, 1+rng.IntN(3); i < n; i++ {
			u := unkSpec{Optional: rng.IntN(2) == 0, Transitive: rng.IntN(2) == 0, Partial: rng.IntN(2) == 0, TypeCode: uint8(rng.IntN(256))}
			switch rng.IntN(4) {
			case 0:
				u.ValueNil = true
			case 1:
				u.Value = []byte{}
			default:
				u.Value = make([]byte, 1+rng.IntN(300))
				for k := range u.Value {
					u.Value[k] = byte(rng.IntN(256))
				}
			}
			p.Unk = append(p.Unk, u)
		}
	}
	if rng.IntN(5) == 0 {
		// redistributed static route: the BGP next hop is derived from the static one unless export rewrote it
		p.Redist, p.StaticNH = true, p.NH
		if rng.IntN(2) == 0 {
			p.StaticNH = genIP(rng)
		}
	}
	return p
}

func genCase(rng *rand.Rand) rcase {
	c := rcase{PfxAddr: genIP(rng), Dedup: rng.IntN(2) == 0}
	w := 128
	if c.PfxAddr.V4 {
		w = 32
	}
	c.PfxLen = uint8(rng.IntN(w + 1))
	if rng.IntN(4) == 0 {
		c.PfxLen = uint8([]int{0, w, w - 1, 1}[rng.IntN(4)])
	}
	n := 1
	switch rng.IntN(10) {
	case 0:
		n = 0
	case 1, 2:
		n = 2 + rng.IntN(2)
	}
	for i := 0; i < n; i++ {
		c.Paths = append(c.Paths, genPath(rng))
	}
	// add-path siblings: a further path of the route that differs from the first one only in next hop, source and
	// path identifier (two paths of one prefix learned from the same route reflector / route server)
	if n >= 2 && c.Paths[0].BGP && rng.IntN(2) == 0 {
		t := c.Paths[0]
		switch rng.IntN(3) {
		case 0:
			t.NH = genIP(rng)
		case 1:
			t.Source = genIP(rng)
		default:
			t.NH, t.Source = genIP(rng), genIP(rng)
		}
		t.PathID = c.Paths[0].PathID + 1
		c.Paths[n-1] = t
	}
	return c
}

// build constructs fresh bio-rd objects from the specification.
func build(c rcase) *route.Route {
	paths := make([]*route.Path, 0, len(c.Paths))
	for _, s := range c.Paths {
		p := &route.Path{HiddenReason: s.Hidden, LTime: s.LTime}
		if !s.BGP {
			p.Type = route.StaticPathType
			p.StaticPath = &route.StaticPath{NextHop: s.NH.ip().Ptr()}
			paths = append(paths, p)
			continue
		}
		p.Type = route.BGPPathType
		if s.Redist {
			st := &route.Path{Type: route.StaticPathType, HiddenReason: s.Hidden, LTime: s.LTime, StaticPath: &route.StaticPath{NextHop: s.StaticNH.ip().Ptr()}}
			if q, ok := st.CheckRedistribute(route.BGPPathType); ok {
				p = q // type BGP, RedistributedFrom static, static part kept (as in AdjRIBOut.AddPath); the BGP part follows
			}
		}
		b := &route.BGPPath{
			BGPPathA: &route.BGPPathA{NextHop: s.NH.ip().Ptr(), Source: s.Source.ip().Ptr(), LocalPref: s.LocalPref, MED: s.MED,
				BGPIdentifier: s.BGPID, OriginatorID: s.Originator, EBGP: s.EBGP, Origin: s.Origin, OnlyToCustomer: s.OTC},
			PathIdentifier: s.PathID, BMPPostPolicy: s.PostPolicy,
		}
		if !s.ASPathNil {
			ap := make(types.ASPath, 0, len(s.ASPath))
			for _, seg := range s.ASPath {
				t := uint8(types.ASSet)
				if seg.Seq {
					t = types.ASSequence
				}
				ap = append(ap, types.ASPathSegment{Type: t, ASNs: append([]uint32{}, seg.ASNs...)})
			}
			b.ASPath = &ap
			b.ASPathLen = ap.Length()
		}
		if !s.ClusterNil {
			cl := types.ClusterList(append([]uint32{}, s.Cluster...))
			b.ClusterList = &cl
		}
		if !s.CommNil {
			cm := types.Communities(append([]uint32{}, s.Comm...))
			b.Communities = &cm
		}
		if !s.LCommNil {
			lc := make(types.LargeCommunities, 0, len(s.LComm))
			for _, x := range s.LComm {
				lc = append(lc, types.LargeCommunity{GlobalAdministrator: x[0], DataPart1: x[1], DataPart2: x[2]})
			}
			b.LargeCommunities = &lc
		}
		if !s.UnkNil {
			b.UnknownAttributes = make([]types.UnknownPathAttribute, 0, len(s.Unk))
			for _, u := range s.Unk {
				a := types.UnknownPathAttribute{Optional: u.Optional, Transitive: u.Transitive, Partial: u.Partial, TypeCode: u.TypeCode}
				if !u.ValueNil {
					a.Value = append([]byte{}, u.Value...)
				}
				b.UnknownAttributes = append(b.UnknownAttributes, a)
			}
		}
		p.BGPPath = b
		paths = append(paths, p)
	}
	pfx := bnet.NewPfx(c.PfxAddr.ip(), c.PfxLen)
	return route.NewRouteAddPath(pfx.Ptr(), paths)
}

func eqU32(a, b []uint32) bool {
	if len(a) != len(b) {
		return false
	}
	for i := range a {
		if a[i] != b[i] {
			return false
		}
	}
	return true
}

type fieldStats struct {
	mu      sync.Mutex
	checked map[string]int // field -> comparisons with a non-default expected value
	hidden  map[string]int
	lists   map[string]int
	both    int // BGP paths whose API message carried a static payload too
}

func (fs *fieldStats) add(field string, nondefault bool) {
	if nondefault {
		fs.checked[field]++
	}
}

// check runs one case through the oracle; returns the number of field comparisons.
func check(c rcase, fs *fieldStats, viol func(clause string, f map[string]string, detail string)) (n int, richLists int, wire []byte) {
	defer func() {
		if p := recover(); p != nil {
			buf := make([]byte, 1500)
			buf = buf[:runtime.Stack(buf, false)]
			viol("panic", vf.F(), fmt.Sprintf("conversion panicked: %v\n%s", p, buf))
		}
	}()
	r := build(c)
	pr := r.ToProto()
	// hidden clause on the API message as produced
	for i, s := range c.Paths {
		if i < len(pr.Paths) && s.Hidden != 0 && pr.Paths[i].HiddenReason == api.Path_HiddenReasonNone {
			viol("hidden-reported-visible", vf.F("reason", hiddenName(s.Hidden), "stage", "toproto"), fmt.Sprintf("path %d has HiddenReason %d (%s) but ToProto() reports HiddenReasonNone", i, s.Hidden, hiddenName(s.Hidden)))
		}
		n++
	}
	raw, err := proto.Marshal(pr)
	if err != nil {
		viol("marshal", vf.F(), fmt.Sprintf("proto.Marshal: %v", err))
		return
	}
	wire = raw
	var back api.Route
	if err := proto.Unmarshal(raw, &back); err != nil {
		viol("marshal", vf.F(), fmt.Sprintf("proto.Unmarshal: %v", err))
		return
	}
	for i, s := range c.Paths {
		if i < len(back.Paths) && s.Hidden != 0 && back.Paths[i].HiddenReason == api.Path_HiddenReasonNone {
			viol("hidden-reported-visible", vf.F("reason", hiddenName(s.Hidden), "stage", "wire"), fmt.Sprintf("path %d has HiddenReason %d (%s) but the decoded API message reports HiddenReasonNone", i, s.Hidden, hiddenName(s.Hidden)))
		}
		n++
	}
	got := route.RouteFromProtoRoute(&back, c.Dedup)
	mism := func(ptype, field string, i int, want, have any) {
		f, what := vf.F("field", field, "path_type", ptype), ""
		if i >= 0 && i < len(c.Paths) && c.Paths[i].Redist {
			f["redistributed_from"], what = "static", " (BGP path redistributed from static, the API message carries both payloads)"
		}
		viol("field", f, fmt.Sprintf("path %d%s: %s after the round trip = %v, generated %v", i, what, field, have, want))
	}
	// measured on the decoded API message: paths that really carry both a static and a BGP payload
	for i, s := range c.Paths {
		if i < len(back.Paths) && s.Redist && back.Paths[i].StaticPath != nil && back.Paths[i].BgpPath != nil && back.Paths[i].Type == api.Path_BGP {
			fs.mu.Lock()
			fs.both++
			fs.mu.Unlock()
		}
	}
	// prefix
	n++
	if gp := got.Prefix(); gp == nil {
		mism("-", "prefix", -1, "non-nil", "nil")
	} else {
		ga := gp.Addr()
		gs, _ := specOfIP(&ga)
		if gs != c.PfxAddr || gp.Len() != c.PfxLen {
			mism("-", "prefix", -1, fmt.Sprintf("%s/%d", c.PfxAddr, c.PfxLen), gp.String())
		}
	}
	gpaths := got.Paths()
	n++
	if len(gpaths) != len(c.Paths) {
		mism("-", "path_count", -1, len(c.Paths), len(gpaths))
		return
	}
	for i, s := range c.Paths {
		g := gpaths[i]
		fs.mu.Lock()
		fs.hidden[hiddenName(s.Hidden)]++
		fs.mu.Unlock()
		if !s.BGP {
			n += 2
			if g.Type != route.StaticPathType {
				mism("static", "path_type", i, route.StaticPathType, g.Type)
				continue
			}
			if g.StaticPath == nil {
				mism("static", "static_path", i, "non-nil", "nil")
				continue
			}
			if nh, ok := specOfIP(g.StaticPath.NextHop); !ok || nh != s.NH {
				mism("static", "next_hop", i, s.NH, nh)
			}
			continue
		}
		n++
		if g.Type != route.BGPPathType {
			mism("bgp", "path_type", i, route.BGPPathType, g.Type)
			continue
		}
		b := g.BGPPath
		if b == nil || b.BGPPathA == nil {
			mism("bgp", "bgp_path", i, "non-nil", "nil")
			continue
		}
		a := b.BGPPathA
		fs.mu.Lock()
		cmpU := func(field string, want, have uint32) {
			n++
			fs.add(field, want != 0)
			if want != have {
				fs.mu.Unlock()
				mism("bgp", field, i, want, have)
				fs.mu.Lock()
			}
		}
		cmpB := func(field string, want, have bool) {
			n++
			fs.add(field, want)
			if want != have {
				fs.mu.Unlock()
				mism("bgp", field, i, want, have)
				fs.mu.Lock()
			}
		}
		cmpIP := func(field string, want ipSpec, have *bnet.IP) {
			n++
			fs.add(field, want != ipSpec{V4: true})
			if hs, ok := specOfIP(have); !ok || hs != want {
				fs.mu.Unlock()
				mism("bgp", field, i, want, hs)
				fs.mu.Lock()
			}
		}
		cmpIP("next_hop", s.NH, a.NextHop)
		cmpIP("source", s.Source, a.Source)
		cmpU("local_pref", s.LocalPref, a.LocalPref)
		cmpU("med", s.MED, a.MED)
		cmpU("origin", uint32(s.Origin), uint32(a.Origin))
		cmpB("ebgp", s.EBGP, a.EBGP)
		cmpU("bgp_identifier", s.BGPID, a.BGPIdentifier)
		cmpU("originator_id", s.Originator, a.OriginatorID)
		cmpU("only_to_customer", s.OTC, a.OnlyToCustomer)
		cmpU("path_identifier", s.PathID, b.PathIdentifier)
		cmpB("bmp_post_policy", s.PostPolicy, b.BMPPostPolicy)
		pres := func(field string, isNil bool, l int) {
			k := "set"
			if isNil {
				k = "nil"
			} else if l == 0 {
				k = "empty"
			}
			fs.lists[field+":"+k]++
		}
		pres("as_path", s.ASPathNil, len(s.ASPath))
		pres("cluster_list", s.ClusterNil, len(s.Cluster))
		pres("communities", s.CommNil, len(s.Comm))
		pres("large_communities", s.LCommNil, len(s.LComm))
		pres("unknown_attributes", s.UnkNil, len(s.Unk))
		fs.mu.Unlock()

		// AS_PATH (nil == empty)
		n++
		var gotSegs []segSpec
		if b.ASPath != nil {
			for _, seg := range *b.ASPath {
				gotSegs = append(gotSegs, segSpec{Seq: seg.Type == types.ASSequence, ASNs: seg.ASNs})
			}
		}
		okAP := len(gotSegs) == len(s.ASPath)
		for k := 0; okAP && k < len(gotSegs); k++ {
			if gotSegs[k].Seq != s.ASPath[k].Seq || !eqU32(gotSegs[k].ASNs, s.ASPath[k].ASNs) {
				okAP = false
			}
			if b.ASPath != nil {
				if t := (*b.ASPath)[k].Type; t != types.ASSequence && t != types.ASSet {
					okAP = false
				}
			}
		}
		if !okAP {
			mism("bgp", "as_path", i, s.ASPath, gotSegs)
		}
		n++
		var gcl []uint32
		if b.ClusterList != nil {
			gcl = *b.ClusterList
		}
		if !eqU32(gcl, s.Cluster) {
			mism("bgp", "cluster_list", i, s.Cluster, gcl)
		}
		n++
		var gcm []uint32
		if b.Communities != nil {
			gcm = *b.Communities
		}
		if !eqU32(gcm, s.Comm) {
			mism("bgp", "communities", i, s.Comm, gcm)
		}
		n++
		var glc [][3]uint32
		if b.LargeCommunities != nil {
			for _, x := range *b.LargeCommunities {
				glc = append(glc, [3]uint32{x.GlobalAdministrator, x.DataPart1, x.DataPart2})
			}
		}
		okLC := len(glc) == len(s.LComm)
		for k := 0; okLC && k < len(glc); k++ {
			okLC = glc[k] == s.LComm[k]
		}
		if !okLC {
			mism("bgp", "large_communities", i, s.LComm, glc)
		}
		n++
		okU := len(b.UnknownAttributes) == len(s.Unk)
		for k := 0; okU && k < len(s.Unk); k++ {
			u, w := b.UnknownAttributes[k], s.Unk[k]
			okU = u.Optional == w.Optional && u.Transitive == w.Transitive && u.Partial == w.Partial && u.TypeCode == w.TypeCode && bytes.Equal(u.Value, w.Value)
		}
		if !okU {
			mism("bgp", "unknown_attributes", i, fmt.Sprintf("%+v", s.Unk), fmt.Sprintf("%+v", b.UnknownAttributes))
		}
		nl := 0
		for _, l := range []int{len(s.Cluster), len(s.Comm), len(s.LComm), len(s.Unk)} {
			if l > 0 {
				nl++
			}
		}
		if len(s.ASPath) >= 2 {
			nl++
		}
		if nl >= 3 {
			richLists++
		}
	}
	return
}

func main() {
	vf.Main("C34", "exploration", func(r *vf.Run) {
		r.Rule("PRNG routes: IPv4/IPv6 prefix of any length (incl. 0.0.0.0, ::, v4-mapped, all-ones), 0-3 paths, 3/4 BGP and 1/4 static; every scalar from {0, max, small, power of two, random}; AS_PATH 0-3 segments (sequence/set, 0-4 ASNs), CLUSTER_LIST, communities, large communities, unknown attributes each nil / empty / 1-4 entries (unknown attribute values nil / empty / 1-300 bytes); hidden reason 0..7 (half of the paths visible); one BGP path in five is a static path redistributed into BGP with Path.CheckRedistribute (type BGP, static part kept with the same or another next hop, so the API message carries both payloads; it must come back as a BGP path with every BGP attribute); half of the multi-path routes hold a sibling of the first path that differs only in next hop / source / path identifier; dedup flag both ways. Converted with Route.ToProto, proto.Marshal, proto.Unmarshal, RouteFromProtoRoute and compared with the generated specification. distinct_nontrivial = distinct routes that contain a BGP path with at least three of {AS_PATH of >=2 segments, CLUSTER_LIST, communities, large communities, unknown attributes} non-empty")
		r.Assume("nil and empty lists are the same value (the API cannot tell them apart)", "only BGP and static paths (the API's Type enum has no other value); next hop and source pointers are non-nil; AS_PATH segment types are sequence and set (the API carries one bool)", "'a hidden path is never reported as visible' is judged on the API message (Path.hidden_reason != HiddenReasonNone), before and after the wire; RouteFromProtoRoute does not read hidden_reason back at all, which the statement does not list among the preserved fields")
		mk := func(c rcase) func(string, map[string]string, string) {
			return func(clause string, f map[string]string, detail string) {
				r.Violate(vf.Violation{Clause: clause, Features: f, Detail: detail, Case: c})
			}
		}
		fs := &fieldStats{checked: map[string]int{}, hidden: map[string]int{}, lists: map[string]int{}}
		if raw, ok := r.Replaying(); ok {
			var c rcase
			vf.Decode(raw, &c)
			check(c, fs, mk(c))
			return
		}
		n := r.N(100000, 5000000)
		vf.Parallel(n, 8, func(i int) {
			rng := r.RandN("c34", i)
			c := genCase(rng)
			cnt, rich, wire := check(c, fs, mk(c))
			r.Eval(cnt)
			if rich > 0 {
				r.NontrivialBytes(wire)
			}
			if i < 2 {
				r.Sample(c)
			}
		})
		r.Count("routes", n)
		r.Set("nondefault_values_compared_by_field", fs.checked)
		r.Set("paths_by_hidden_reason", fs.hidden)
		r.Set("list_presence", fs.lists)
		r.Count("cluster_list_nonempty", fs.lists["cluster_list:set"])
		r.Require("cluster_list_nonempty", 100)
		r.Count("bgp_paths_carrying_static_payload_too", fs.both)
		r.Require("bgp_paths_carrying_static_payload_too", 100)
	})
}
