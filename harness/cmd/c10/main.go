// C10: the peer's view equals the Adj-RIB-Out under any timing.
// Monitor: a real Adj-RIB-Out with the real update sender (hook-built, capture writer) registered as
// its client. Deterministic explorer: the sender is never started; histories of Adj-RIB-Out
// operations are run under EVERY placement of aggregation rounds between the operations (a round is the
// sender's own EndOfRIB()). Real-timer explorer: the sender runs on its ticker and operations are
// issued with PRNG delays. Oracle: replaying the decoded UPDATE stream (announce = insert/replace
// keyed by (prefix, path id), withdraw = delete) must give exactly AdjRIBOut.Dump() after the final drain.
package main

import (
	"fmt"
	"math/rand/v2"
	"os"
	"os/exec"
	"runtime"
	"sort"
	"strings"
	"sync"
	"sync/atomic"
	"time"

	bnet "github.com/bio-routing/bio-rd/net"
	"github.com/bio-routing/bio-rd/protocols/bgp/server"
	"github.com/bio-routing/bio-rd/route"
	"github.com/bio-routing/bio-rd/routingtable"
	"github.com/bio-routing/bio-rd/routingtable/adjRIBOut"
	"github.com/bio-routing/bio-rd/routingtable/filter"

	"verifharness/internal/bgpx"
	"verifharness/internal/gen"
	"verifharness/internal/vf"
	"verifharness/internal/wire"
)

type op struct {
	Add  bool `json:"add"`
	Pfx  int  `json:"pfx"`  // 0,1
	Path int  `json:"path"` // 0,1,2
	// real-timer explorer: microseconds to wait before the operation
	DelayUs int `json:"delay_us,omitempty"`
}

type c10case struct {
	Sess   bgpx.Sess `json:"sess"`
	EBGP   bool      `json:"ebgp_session"`
	Ops    []op      `json:"ops"`
	Rounds uint32    `json:"rounds"` // bit i set: an aggregation round after operation i (deterministic explorer)
	Timer  bool      `json:"timer,omitempty"`
	// HashTwin (sessions without add-path): path 2 differs from path 0 only in how the AS_PATH is cut into segments
	// ([a b] vs [a][b]) instead of in ATOMIC_AGGREGATE - the two have the same path hash but are different paths
	HashTwin bool `json:"hash_twin,omitempty"`
	Gated    bool `json:"gated,omitempty"` // gated-writer explorer: the last op(s) are issued while the sender is held inside the write of the round that carries the queued announcement(s)
	// Held (gated explorer) is the number of trailing operations issued while the sender is held (0 = 1). HoldPath, when
	// not 0, is 1 + the index of the path whose UPDATE the gate waits for (0: the first write of the round).
	Held     int `json:"held,omitempty"`
	HoldPath int `json:"hold_path,omitempty"`
	// RxIDs: which paths carry a path identifier of their own, i.e. were learned from a neighbour that sends add-path
	// (0 none, 1 path 1 carries identifier 7, 2 paths 0 and its twin carry 5 and path 1 carries 7). An Adj-RIB-Out with
	// add-path TX overwrites it with its own; one without keeps it, and it must not leak into the peer's view.
	RxIDs int `json:"rx_ids,omitempty"`
}

const localASN = 64999

// the three paths of the universe. Path 2 is, on sessions without add-path, a twin of path 0 that
// differs only in ATOMIC_AGGREGATE; with add-path it is a third independent path.
func pathSpec(c *c10case, i int) bgpx.PathSpec {
	s := c.Sess
	p := bgpx.PathSpec{Origin: 0, V6: s.V6, LocalPref: 100, EBGP: true, Source: 0x0a0a0a00 + uint32(i), ASPath: []bgpx.Seg{{T: 2, A: []uint32{65101 + uint32(i), 65200}}}}
	id := i
	if i == 2 && !s.AddPath {
		id = 0
		p.Atomic = true
		p.Source = 0x0a0a0a00
		p.ASPath = []bgpx.Seg{{T: 2, A: []uint32{65101, 65200}}}
		if c.HashTwin {
			p.Atomic = false
			p.ASPath = []bgpx.Seg{{T: 2, A: []uint32{65101}}, {T: 2, A: []uint32{65200}}}
		}
	}
	switch {
	case c.RxIDs >= 1 && id == 1:
		p.PathID = 7
	case c.RxIDs == 2 && id == 0:
		p.PathID = 5
	}
	p.Comms = []uint32{0x00640000 + uint32(id)}
	if s.V6 {
		p.NextHop = [2]uint64{0x20010db800000000, uint64(1 + id)}
	} else {
		p.NextHop = [2]uint64{0, uint64(0x0a000001 + uint32(id))}
	}
	return p
}

// the histories of the deterministic and real-timer explorers use prefixes 0 and 1; the third one is for the gated
// explorer (a further prefix for a path that is already queued for two)
func universe(v6 bool) [3]gen.P {
	if v6 {
		return [3]gen.P{{Hi: 0x20010db800010000, Len: 48}, {Hi: 0x20010db800010000, Lo: 0, Len: 64}, {Hi: 0x20010db800020000, Len: 47}}
	}
	return [3]gen.P{{V4: true, Hi: 0xc0a80000 << 32, Len: 16}, {V4: true, Hi: 0xc0a80100 << 32, Len: 24}, {V4: true, Hi: 0xc0a80200 << 32, Len: 23}}
}

// proj is the projection compared: the unique id (community) and the ATOMIC_AGGREGATE flag.
func projWire(pa *wire.PathAttrs) string {
	id := uint32(0)
	if len(pa.Communities) > 0 {
		id = pa.Communities[0]
	}
	return fmt.Sprintf("id=%x atomic=%v segments=%d", id, pa.AtomicAggregate, len(pa.ASPath))
}

func projBio(p *route.Path) string {
	id := uint32(0)
	if p.BGPPath.Communities != nil && len(*p.BGPPath.Communities) > 0 {
		id = (*p.BGPPath.Communities)[0]
	}
	nseg := 0
	if p.BGPPath.ASPath != nil {
		nseg = len(*p.BGPPath.ASPath)
	}
	return fmt.Sprintf("id=%x atomic=%v segments=%d", id, p.BGPPath.BGPPathA.AtomicAggregate, nseg)
}

type rig struct {
	c   *c10case
	rib *adjRIBOut.AdjRIBOut
	u   *server.UpdateSender
	cap *bgpx.Capture
	uni [3]gen.P
}

func newRig(c *c10case) *rig {
	s := c.Sess
	g := &rig{c: c, uni: universe(s.V6)}
	g.u, g.cap = bgpx.NewSender(s)
	// Only session kinds in which the Adj-RIB-Out stores the path it was given unmodified: plain iBGP
	// (eBGP-learned paths) and eBGP towards a route-server client. On sessions that rewrite (eBGP prepend,
	// RR client) AdjRIBOut.RemovePath does not find the stored path (C08's finding), which would both
	// mask and confound what this check is about.
	sa := routingtable.SessionAttrs{RouterID: 1, PeerIP: bnet.IPv4(0x0a0000fe).Ptr(), LocalIP: bnet.IPv4(0x0a0000fd).Ptr(), Type: route.BGPPathType,
		LocalASN: localASN, PeerASN: localASN, IBGP: true, AddPathTX: s.AddPath}
	if c.EBGP {
		sa.IBGP, sa.RouteServerClient, sa.PeerASN = false, true, localASN+1
	}
	if s.V6 {
		sa.PeerIP, sa.LocalIP = bnet.IPv6(0x20010db8ffff0000, 0xfe).Ptr(), bnet.IPv6(0x20010db8ffff0000, 0xfd).Ptr()
	}
	g.rib = adjRIBOut.New(nil, sa, filter.NewAcceptAllFilterChain())
	g.rib.Register(g.u)
	return g
}

// apply runs one operation and reports whether it withdrew something while an announcement of the same prefix was queued.
func (g *rig) apply(o op) (hitQueued bool) {
	pfx := g.uni[o.Pfx].Bio()
	spec := pathSpec(g.c, o.Path)
	queued := g.u.VerifPendingFor(pfx) > 0
	before := g.cap.Writes()
	if o.Add {
		g.rib.AddPath(pfx, spec.Bio())
	} else {
		g.rib.RemovePath(pfx, spec.Bio())
	}
	// a withdrawal was written by this very call (withdrawals are written synchronously)
	return queued && g.cap.Writes() > before
}

type view map[string]string

func key(s bgpx.Sess, p gen.P, id uint32) string {
	if !s.AddPath {
		id = 0
	}
	return fmt.Sprintf("%s#%d", p.String(), id)
}

func (g *rig) peerView() (view, string) {
	s := g.c.Sess
	v := view{}
	for _, w := range g.cap.Take() {
		typ, body, bad := bgpx.CheckFrame(w)
		if bad != "" || typ != wire.TypeUpdate {
			return nil, "bad frame: " + bad
		}
		up, err := wire.DecodeUpdate(body, s.WireOpts())
		if err != nil {
			return nil, "undecodable UPDATE: " + err.Error()
		}
		for _, wd := range up.Withdrawals() {
			delete(v, key(s, bgpx.NLRIToP(wd.NLRI), wd.NLRI.PathID))
		}
		for _, an := range up.Announced() {
			v[key(s, bgpx.NLRIToP(an.NLRI), an.NLRI.PathID)] = projWire(up.PA)
		}
	}
	return v, ""
}

func (g *rig) ribView() view {
	v := view{}
	for _, r := range g.rib.Dump() {
		for _, p := range r.Paths() {
			v[key(g.c.Sess, gen.FromBio(r.Prefix()), p.BGPPath.PathIdentifier)] = projBio(p)
		}
	}
	return v
}

func (v view) String() string {
	var ks []string
	for k, x := range v {
		ks = append(ks, k+"{"+x+"}")
	}
	sort.Strings(ks)
	return "[" + strings.Join(ks, " ") + "]"
}

type outcome struct {
	hits     int // withdrawals that hit a queued announcement
	mismatch bool
}

// judge compares the two views and reports the differences.
func judge(c *c10case, peer, rib view, clause string, hits int, rep func(clause string, f map[string]string, detail string)) bool {
	bad := false
	how := fmt.Sprintf("rounds=%b timer=%v", c.Rounds, c.Timer)
	if c.Gated {
		how = fmt.Sprintf("gated: the last %d operation(s) issued while the sender was inside the write of %s", max(c.Held, 1), map[bool]string{true: "the round's first UPDATE", false: fmt.Sprintf("the UPDATE carrying path %d", c.HoldPath-1)}[c.HoldPath == 0])
	}
	ctx := fmt.Sprintf("%s ebgp=%v rx_ids=%d ops=%s %s: peer view %s, Adj-RIB-Out %s", c.Sess, c.EBGP, c.RxIDs, opsString(c.Ops), how, peer, rib)
	for k, pv := range peer {
		rv, ok := rib[k]
		switch {
		case !ok:
			bad = true
			rep(clause, vf.F("diff", "peer-has-route-the-rib-lacks", "addpath", c.Sess.AddPath, "withdraw_hit_queued_announcement", hits > 0), ctx)
		case rv != pv:
			bad = true
			twin := strings.SplitN(rv, " ", 2)[0] == strings.SplitN(pv, " ", 2)[0]
			rep(clause, vf.F("diff", "attributes-differ", "addpath", c.Sess.AddPath, "same_id_other_attributes", twin), ctx)
		}
	}
	for k := range rib {
		if _, ok := peer[k]; !ok {
			bad = true
			rep(clause, vf.F("diff", "rib-has-route-the-peer-lacks", "addpath", c.Sess.AddPath), ctx)
		}
	}
	return bad
}

func opsString(ops []op) string {
	var s []string
	for _, o := range ops {
		k := "-"
		if o.Add {
			k = "+"
		}
		s = append(s, fmt.Sprintf("%sp%d/%d", k, o.Pfx, o.Path))
	}
	return strings.Join(s, ",")
}

// runDet executes one (history, placement) pair of the deterministic explorer.
func runDet(c *c10case, rep func(clause string, f map[string]string, detail string)) (out outcome) {
	defer func() {
		if p := recover(); p != nil {
			stk := make([]byte, 2500)
			stk = stk[:runtime.Stack(stk, false)]
			rep("panic", vf.F("where", bgpx.PanicSite(stk)), fmt.Sprintf("%s ops=%s: panic: %v\n%s", c.Sess, opsString(c.Ops), p, stk))
		}
	}()
	g := newRig(c)
	for i, o := range c.Ops {
		if g.apply(o) {
			out.hits++
		}
		if c.Rounds>>uint(i)&1 == 1 {
			g.u.EndOfRIB()
		}
	}
	g.u.EndOfRIB() // final drain
	peer, bad := g.peerView()
	if bad != "" {
		rep("undecodable", vf.F(), bad)
		return
	}
	out.mismatch = judge(c, peer, g.ribView(), "view-mismatch", out.hits, rep)
	return
}

// runTimer executes one history of the real-timer explorer.
func runTimer(c *c10case, r *vf.Run, rep func(clause string, f map[string]string, detail string)) (out outcome) {
	defer func() {
		if p := recover(); p != nil {
			stk := make([]byte, 2500)
			stk = stk[:runtime.Stack(stk, false)]
			rep("panic", vf.F("where", bgpx.PanicSite(stk)), fmt.Sprintf("%s ops=%s: panic: %v\n%s", c.Sess, opsString(c.Ops), p, stk))
		}
	}()
	g := newRig(c)
	g.u.Start(5 * time.Millisecond)
	for _, o := range c.Ops {
		if o.DelayUs > 0 {
			time.Sleep(time.Duration(o.DelayUs) * time.Microsecond)
		}
		if g.apply(o) {
			out.hits++
		}
	}
	deadline := time.Now().Add(20 * time.Second)
	for g.u.VerifPending() != 0 {
		if time.Now().After(deadline) {
			r.Inconclusive("real-timer explorer: the queue did not drain within 20 s")
			break
		}
		time.Sleep(500 * time.Microsecond)
	}
	g.u.Destroy() // taken by the sender goroutine at the top of its loop: the round that emptied the queue has been written
	peer, bad := g.peerView()
	if bad != "" {
		rep("undecodable", vf.F(), bad)
		return
	}
	out.mismatch = judge(c, peer, g.ribView(), "view-mismatch-realtime", out.hits, rep)
	return
}

// runGated holds the sender's ticker goroutine inside a connection write of the round that carries the queued
// announcement(s) - the first write, or the write of the UPDATE that carries path HoldPath-1 - and issues the history's
// last Held operations meanwhile: the removal of a queued path, or the addition of a path that is already queued (for
// other prefixes) and is just being written. A sender that keeps its queue lock while it writes makes them wait; one
// that released the lock lets a withdrawal overtake the announcement, or lets an addition join a queue entry whose
// prefixes were packed already. The 50 ms grace only gives the operations time to run; the verdict is the final
// view comparison.
func runGated(c *c10case, r *vf.Run, rep func(clause string, f map[string]string, detail string)) (out outcome) {
	defer func() {
		if p := recover(); p != nil {
			stk := make([]byte, 2500)
			stk = stk[:runtime.Stack(stk, false)]
			rep("panic", vf.F("where", bgpx.PanicSite(stk)), fmt.Sprintf("%s ops=%s: panic: %v\n%s", c.Sess, opsString(c.Ops), p, stk))
		}
	}()
	g := newRig(c)
	held := c.Held
	if held == 0 {
		held = 1
	}
	n := len(c.Ops) - held
	for _, o := range c.Ops[:n] {
		g.apply(o)
	}
	clause := "view-mismatch-gated"
	if c.HoldPath == 0 {
		if g.u.VerifPendingFor(g.uni[c.Ops[n].Pfx].Bio()) == 0 {
			return // nothing queued for that prefix: not a case of this explorer
		}
	} else {
		clause = "view-mismatch-added-during-write"
		if g.u.VerifPending() == 0 {
			return
		}
	}
	out.hits = 1
	target := ""
	if c.HoldPath != 0 {
		sp := pathSpec(c, c.HoldPath-1)
		target = projBio(sp.Bio())
	}
	var armed atomic.Bool
	entered := make(chan struct{}, 1)
	release := make(chan struct{})
	armed.Store(true)
	g.cap.Gate = func(b []byte) {
		if !armed.Load() {
			return
		}
		if target != "" {
			_, body, bad := bgpx.CheckFrame(b)
			if bad != "" {
				return
			}
			up, err := wire.DecodeUpdate(body, c.Sess.WireOpts())
			if err != nil || len(up.Announced()) == 0 || projWire(up.PA) != target {
				return
			}
		}
		if armed.CompareAndSwap(true, false) {
			entered <- struct{}{}
			<-release
		}
	}
	g.u.Start(time.Millisecond)
	select {
	case <-entered:
	case <-time.After(10 * time.Second):
		armed.Store(false)
		close(release)
		g.u.Destroy()
		r.Inconclusive("gated explorer: the sender never wrote the queued announcement")
		return
	}
	done := make(chan struct{})
	go func() {
		for _, o := range c.Ops[n:] {
			g.apply(o)
		}
		close(done)
	}()
	select {
	case <-done:
	case <-time.After(50 * time.Millisecond):
	}
	close(release)
	<-done
	deadline := time.Now().Add(20 * time.Second)
	for g.u.VerifPending() != 0 && time.Now().Before(deadline) {
		time.Sleep(500 * time.Microsecond)
	}
	g.u.Destroy()
	peer, bad := g.peerView()
	if bad != "" {
		rep("undecodable", vf.F(), bad)
		return
	}
	out.mismatch = judge(c, peer, g.ribView(), clause, out.hits, rep)
	return
}

// Histories are well-formed the way a Loc-RIB drives a client: a path is removed only while it is
// advertised, and added only while it is not. Without add-path the Adj-RIB-Out holds one path per prefix
// and adding another one replaces it (the "best-only replacement" of adj_rib_out.go).
type state [2]uint8 // per prefix: add-path: bit set of present paths; otherwise 0 = none, 1+i = path i

func (st state) next(addPath bool) []op {
	var out []op
	for pf := 0; pf < 2; pf++ {
		for pa := 0; pa < 3; pa++ {
			var present bool
			if addPath {
				present = st[pf]>>uint(pa)&1 == 1
			} else {
				present = st[pf] == uint8(1+pa)
			}
			out = append(out, op{Add: !present, Pfx: pf, Path: pa})
			if present && !addPath {
				// re-announcement of the unchanged path (an implicit replacement by itself)
				out = append(out, op{Add: true, Pfx: pf, Path: pa})
			}
		}
	}
	return out
}

func (st state) apply(o op, addPath bool) state {
	switch {
	case addPath && o.Add:
		st[o.Pfx] |= 1 << uint(o.Path)
	case addPath:
		st[o.Pfx] &^= 1 << uint(o.Path)
	case o.Add:
		st[o.Pfx] = uint8(1 + o.Path)
	default:
		st[o.Pfx] = 0
	}
	return st
}

// enumerate calls f for every well-formed history of exactly n operations.
func enumerate(addPath bool, n int, f func([]op)) {
	var rec func(st state, ops []op)
	rec = func(st state, ops []op) {
		if len(ops) == n {
			f(append([]op(nil), ops...))
			return
		}
		for _, o := range st.next(addPath) {
			rec(st.apply(o, addPath), append(ops, o))
		}
	}
	rec(state{}, nil)
}

func randHist(rng *rand.Rand, addPath bool, n int) []op {
	ops := make([]op, 0, n)
	var st state
	for i := 0; i < n; i++ {
		nx := st.next(addPath)
		o := nx[rng.IntN(len(nx))]
		// bias towards "withdraw or replace right after the addition"
		if i > 0 && ops[i-1].Add && rng.IntN(2) == 0 {
			if rng.IntN(2) == 0 || addPath {
				o = op{Add: false, Pfx: ops[i-1].Pfx, Path: ops[i-1].Path}
			} else {
				o = op{Add: true, Pfx: ops[i-1].Pfx, Path: (ops[i-1].Path + 1 + rng.IntN(2)) % 3}
			}
		}
		st = st.apply(o, addPath)
		ops = append(ops, o)
	}
	return ops
}

func kinds(all bool) []c10case {
	var out []c10case
	for _, v6 := range []bool{false, true} {
		if v6 && !all {
			continue
		}
		for _, ap := range []bool{false, true} {
			for _, ebgp := range []bool{false, true} {
				out = append(out, c10case{Sess: bgpx.Sess{V6: v6, MP: v6, AddPath: ap, IBGP: !ebgp, AS4: true}, EBGP: ebgp, RxIDs: 1})
			}
		}
	}
	return out
}

func main() {
	vf.Main("C10", "exploration", func(r *vf.Run) {
		bgpx.Quiet()
		r.Rule("universe: 2 prefixes x 3 paths (unique community as id; without add-path the third path is a twin of the first differing only in ATOMIC_AGGREGATE or, in the hash-twin variant, only in how the AS_PATH is cut into segments, so that both have the same path hash), operations AddPath/RemovePath on a real Adj-RIB-Out whose client is the real update sender; session kinds {IPv4, IPv6-MP} x add-path on/off x {plain iBGP, eBGP to a route-server client} (the kinds in which the Adj-RIB-Out stores paths unmodified). Histories are well-formed (a path is removed only while advertised and added only while not; without add-path an addition replaces the prefix's path). Deterministic explorer: ALL well-formed histories of length 1..4 (quick; 1..5 thorough; IPv4 kinds) and PRNG histories of length 5..7 (all kinds), each under EVERY placement of aggregation rounds between operations (2^len placements, round = EndOfRIB()), final drain, then replay(UPDATE stream) == AdjRIBOut.Dump(). Gated-writer explorer: the sender's ticker goroutine is held inside the connection write of a queued UPDATE (capture gate) while (a) a queued path is removed, (b) a path that is queued for one or two prefixes and is just being written is added for a further prefix (one or two additions, or an addition plus the removal of the first prefix); then released and drained. In every explorer path 1 carries a path identifier it was received with (7; in half of the PRNG/gated/real-timer cases paths 0 and 2 carry 5 as well), which an Adj-RIB-Out without add-path TX keeps. Real-timer explorer: sender started with its 5 ms ticker, PRNG histories with delays of 0..8 ms, drained by VerifPending()==0 + Destroy(). distinct_nontrivial = (history, placement) pairs in which a withdrawal was written while an announcement of the same prefix was still queued (measured through the queue hook at the moment of the operation)")
		r.Assume("the projection compared per (prefix, path id) is the unique community plus the ATOMIC_AGGREGATE flag", "End-of-RIB markers and UPDATEs without NLRI change nothing in the replayed view", "a withdrawal of a route the peer does not hold is ignored by the replay")
		r.NonDeterministic("view-mismatch-realtime")
		var vmu sync.Mutex
		mk := func(c c10case) func(string, map[string]string, string) {
			return func(clause string, f map[string]string, detail string) {
				vmu.Lock()
				defer vmu.Unlock()
				r.Violate(vf.Violation{Clause: clause, Features: f, Detail: detail, Case: c})
			}
		}
		if raw, ok := r.Replaying(); ok {
			var c c10case
			vf.Decode(raw, &c)
			// the order in which one round sends its queue entries is a map iteration order: repeat
			for i := 0; i < 40; i++ {
				var o outcome
				if c.Gated {
					o = runGated(&c, r, mk(c))
				} else if c.Timer {
					o = runTimer(&c, r, mk(c))
				} else {
					o = runDet(&c, mk(c))
				}
				if o.mismatch {
					break
				}
			}
			return
		}
		if os.Getenv("C10_RACE_CHILD") != "" {
			// second build (-race): only the real-timer explorer, for its different scheduling
			timerExplorer(r, mk, r.N(120, 4000), "c10-race")
			return
		}
		var pairs, hitPairs int64
		var mu sync.Mutex
		runAll := func(base c10case, ops []op, idx string) {
			n := len(ops)
			for pl := uint32(0); pl < 1<<uint(n); pl++ {
				c := base
				c.Ops, c.Rounds = ops, pl
				o := runDet(&c, mk(c))
				mu.Lock()
				pairs++
				if o.hits > 0 {
					hitPairs++
				}
				mu.Unlock()
				if o.hits > 0 {
					r.Nontrivial(fmt.Sprintf("%s/%v/%s/%d", c.Sess, c.EBGP, idx, pl))
				}
			}
		}
		// exhaustive part: every well-formed history of length 1..L
		maxLen := r.N(4, 5)
		var jobs []func()
		for _, k := range kinds(false) {
			k := k
			for l := 1; l <= maxLen; l++ {
				l := l
				h := 0
				enumerate(k.Sess.AddPath, l, func(ops []op) {
					h++
					idx := fmt.Sprintf("e%d/%d", l, h)
					jobs = append(jobs, func() { runAll(k, ops, idx) })
					if !k.Sess.AddPath {
						kt := k
						kt.HashTwin = true
						jobs = append(jobs, func() { runAll(kt, ops, idx+"/hash-twin") })
					}
				})
			}
		}
		r.Count("exhaustive_histories", len(jobs))
		nrand := r.N(300, 16000)
		ks := kinds(true)
		for i := 0; i < nrand; i++ {
			i := i
			jobs = append(jobs, func() {
				rng := r.RandN("c10-det", i)
				k := ks[i%len(ks)]
				k.HashTwin = !k.Sess.AddPath && (i/len(ks))%2 == 1
				k.RxIDs = 1 + (i/(2*len(ks)))%2
				runAll(k, randHist(rng, k.Sess.AddPath, 5+rng.IntN(3)), fmt.Sprintf("r%d", i))
			})
		}
		vf.Parallel(len(jobs), 8, func(i int) { jobs[i]() })
		r.Eval(int(pairs))
		r.Count("deterministic_pairs", int(pairs))
		r.Count("pairs_with_withdrawal_hitting_queued_announcement", int(hitPairs))
		r.Set("exhaustive_history_lengths", fmt.Sprintf("1..%d, all well-formed histories x 4 IPv4 session kinds x all round placements", maxLen))
		// gated-writer explorer: add [, add ...], then - while the round is being written - the removal of a queued path
		// and/or the addition of an already queued path for a further prefix
		var gcases []c10case
		for rep := 0; rep < r.N(2, 40); rep++ {
			for _, k := range ks {
				k.RxIDs = 1 + rep%2
				for pf := 0; pf < 2; pf++ {
					for pa := 0; pa < 3; pa++ {
						c := k
						c.Gated = true
						if pa > 0 && k.Sess.AddPath {
							c.Ops = append(c.Ops, op{Add: true, Pfx: pf, Path: 0})
						}
						pre := append([]op(nil), c.Ops...)
						c.Ops = append(c.Ops, op{Add: true, Pfx: 1 - pf, Path: pa}, op{Add: true, Pfx: pf, Path: pa}, op{Add: false, Pfx: pf, Path: pa})
						gcases = append(gcases, c)
						heldCase := func(held int, ops ...op) {
							d := k
							d.Gated, d.Held, d.HoldPath = true, held, 1+pa
							d.Ops = append(append([]op(nil), pre...), ops...)
							gcases = append(gcases, d)
						}
						// the path is queued for one prefix and being written: a second prefix gets the same path
						heldCase(1, op{Add: true, Pfx: pf, Path: pa}, op{Add: true, Pfx: 1 - pf, Path: pa})
						// queued for two prefixes: a third one gets it
						heldCase(1, op{Add: true, Pfx: pf, Path: pa}, op{Add: true, Pfx: 1 - pf, Path: pa}, op{Add: true, Pfx: 2, Path: pa})
						// a second prefix gets the path and the first one loses it
						heldCase(2, op{Add: true, Pfx: pf, Path: pa}, op{Add: true, Pfx: 1 - pf, Path: pa}, op{Add: false, Pfx: pf, Path: pa})
						// two further prefixes get it
						heldCase(2, op{Add: true, Pfx: pf, Path: pa}, op{Add: true, Pfx: 2, Path: pa}, op{Add: true, Pfx: 1 - pf, Path: pa})
					}
				}
			}
		}
		var ng, ngAdd int64
		vf.Parallel(len(gcases), 6, func(i int) {
			c := gcases[i]
			o := runGated(&c, r, mk(c))
			atomic.AddInt64(&ng, int64(o.hits))
			if c.HoldPath != 0 {
				atomic.AddInt64(&ngAdd, int64(o.hits))
			}
			r.Eval(1)
			if o.hits > 0 {
				r.Nontrivial(fmt.Sprintf("g/%s/%v/%d/%s/%d/%d", c.Sess, c.EBGP, c.RxIDs, opsString(c.Ops), c.Held, c.HoldPath))
			}
		})
		r.Count("gated_writer_cases_adding_a_queued_path_during_its_write", int(ngAdd))
		r.Require("gated_writer_cases_adding_a_queued_path_during_its_write", 150)
		r.Count("gated_writer_cases", int(ng))
		r.Require("gated_writer_cases", 40)
		// real-timer explorer
		timerExplorer(r, mk, r.N(400, 20000), "c10-timer")
		if bin := os.Getenv("VERIF_RACE_BIN"); bin != "" {
			cmd := exec.Command(bin, "--tier", r.Tier)
			cmd.Env = append(os.Environ(), "C10_RACE_CHILD=1", "VERIF_ROOT="+os.TempDir()+"/verif-c10-race", "GORACE=halt_on_error=0")
			outb, err := cmd.CombinedOutput()
			os.RemoveAll(os.TempDir() + "/verif-c10-race")
			s := string(outb)
			r.Count("race_build_histories", strings.Count(s, "RESULT property=C10"))
			if strings.Contains(s, "VIOLATION property=C10") || strings.Contains(s, "KNOWN-FINDING") {
				r.Count("race_build_mismatches_seen", 1)
			}
			if err != nil && !strings.Contains(s, "RESULT property=C10") {
				r.Inconclusive("race build child failed: " + err.Error())
			}
			r.Count("race_build_data_race_reports", strings.Count(s, "WARNING: DATA RACE"))
		}
		r.Require("pairs_with_withdrawal_hitting_queued_announcement", 1000)
		r.Require("realtime_histories_with_withdrawal_hitting_queued_announcement", 20)
	})
}

func timerExplorer(r *vf.Run, mk func(c10case) func(string, map[string]string, string), n int, stream string) {
	ks := kinds(true)
	vf.Parallel(n, 8, func(i int) {
		rng := r.RandN(stream, i)
		c := ks[i%len(ks)]
		c.Timer = true
		c.RxIDs = 1 + (i/len(ks))%2
		c.Ops = randHist(rng, c.Sess.AddPath, 3+rng.IntN(5))
		for j := range c.Ops {
			c.Ops[j].DelayUs = rng.IntN(8000)
			if rng.IntN(3) == 0 {
				c.Ops[j].DelayUs = rng.IntN(300) // well inside one aggregation interval
			}
		}
		o := runTimer(&c, r, mk(c))
		r.Eval(1)
		r.Count("realtime_histories", 1)
		if o.hits > 0 {
			r.Count("realtime_histories_with_withdrawal_hitting_queued_announcement", 1)
			r.Nontrivial(fmt.Sprintf("t/%s/%d", stream, i))
		}
		if i < 2 {
			r.Sample(map[string]any{"explorer": "real-timer", "session": c.Sess.String(), "ebgp": c.EBGP, "ops": opsString(c.Ops), "withdrawals_hitting_queue": o.hits})
		}
	})
}
