// C13: tables are isolated - advertising, refreshing, filtering or rewriting a route for one session never changes
// the route as stored in the Loc-RIB, in any Adj-RIB-In or in another session's Adj-RIB-Out.
// Oracle: deep snapshots (canonical bytes of every field reachable from a dump) of the Loc-RIB, every Adj-RIB-In and
// every Adj-RIB-Out before and after each operation. For a pure export-side operation (registering an Adj-RIB-Out =
// initial dump, replacing an export policy = refresh, unregistering) every table but the acting Adj-RIB-Out must be
// byte-identical. For a route change (through an Adj-RIB-In or directly in the Loc-RIB) only the changed prefix may
// differ, paths of that prefix that stay must keep their bytes, and the path the Loc-RIB stores must equal the
// content handed in.
package main

import (
	"bytes"
	"fmt"
	"math/rand/v2"
	"sort"
	"strings"
	"sync"

	bnet "github.com/bio-routing/bio-rd/net"

	"verifharness/internal/gen"
	"verifharness/internal/rig"
	"verifharness/internal/vf"
)

type op struct {
	K      string      `json:"k"` // in-add | in-remove | loc-add | loc-remove | attach | replace | detach
	In     int         `json:"in,omitempty"`
	Out    int         `json:"out,omitempty"`
	Pfx    int         `json:"pfx,omitempty"`
	ID     uint32      `json:"id,omitempty"`
	Policy *rig.Policy `json:"policy,omitempty"`
}

type outCfg struct {
	Sess   rig.Sess   `json:"sess"`
	Policy rig.Policy `json:"policy"`
	Late   bool       `json:"late,omitempty"`
}

type hist struct {
	V4       bool                `json:"v4"`
	Universe []gen.P             `json:"universe"`
	Ins      []int               `json:"ins"` // indexes into rig.Sources
	Outs     []outCfg            `json:"outs"`
	Paths    map[uint32]rig.Attr `json:"paths"`
	Ops      []op                `json:"ops"`
}

func rewritingPolicy(rng *rand.Rand, uni []gen.P) rig.Policy {
	switch rng.IntN(4) {
	case 0:
		return rig.AcceptAll()
	case 1:
		return rig.Policy{Filters: []rig.Filter{{Terms: []rig.Term{{Then: []rig.Act{{Kind: "prepend", V: 64900, Times: uint16(1 + rng.IntN(2))}}}}}}}
	case 2:
		return rig.Policy{Filters: []rig.Filter{{Terms: []rig.Term{{Then: []rig.Act{{Kind: "nexthop", V: 0xC0000201 + uint32(rng.IntN(2))}, {Kind: "med", V: 20}}}}}}}
	}
	return rig.GenPolicy(rng, uni, rig.GenOpts{})
}

// aggregate gives a path the AS_SET of an aggregate route: 2-4 members in the order the aggregating router happened to
// send them (RFC 4271 section 4.3: the set is unordered, so any order arrives, ascending only by chance), after the
// sequence, or as the whole path of a locally aggregated iBGP route.
func aggregate(rng *rand.Rand, a *rig.Attr) {
	n := 2 + rng.IntN(3)
	var m []uint32
	for len(m) < n {
		x := 64740 + uint32(rng.IntN(20))
		dup := false
		for _, y := range m {
			dup = dup || x == y
		}
		if !dup {
			m = append(m, x)
		}
	}
	var segs []rig.Seg
	for _, sg := range a.ASPath {
		if !sg.Set {
			segs = append(segs, sg)
		}
	}
	a.ASPath = append(segs, rig.Seg{Set: true, ASNs: m})
	if !a.AtomicAgg && rng.IntN(2) == 0 {
		a.AtomicAgg = true
	}
}

// unorderedSet: the path has an AS_SET whose members are not in ascending order.
func unorderedSet(a rig.Attr) bool {
	for _, sg := range a.ASPath {
		if sg.Set && !sort.SliceIsSorted(sg.ASNs, func(i, j int) bool { return sg.ASNs[i] < sg.ASNs[j] }) {
			return true
		}
	}
	return false
}

func genHist(rng *rand.Rand, nops int) hist {
	h := hist{V4: rng.IntN(3) != 0, Paths: map[uint32]rig.Attr{}, Ins: []int{0, 2, 3}}
	h.Universe = gen.Universe(rng, h.V4, 6)
	for _, s := range rig.GenSessions(rng, 2+rng.IntN(3), []uint{0, 0, 0, 2, 4}) {
		h.Outs = append(h.Outs, outCfg{Sess: s, Policy: rewritingPolicy(rng, h.Universe), Late: rng.IntN(3) == 0})
	}
	next := uint32(1)
	inHas := map[[2]int]uint32{} // (in, pfx) -> id
	locHas := map[int][]uint32{} // pfx -> ids put into the Loc-RIB directly
	staticPfx := map[int]bool{len(h.Universe) - 1: true}
	attached := map[int]bool{}
	for i, o := range h.Outs {
		attached[i] = !o.Late
	}
	for len(h.Ops) < nops {
		x := rng.IntN(100)
		pi := rng.IntN(len(h.Universe) - 1)
		switch {
		case x < 40: // a neighbour announces (or re-announces) a prefix
			in := rng.IntN(len(h.Ins))
			a := rig.GenPath(rng, next, rig.Sources[h.Ins[in]], rig.PathOpts{Dedup: true, Unknown: true, RRAttrs: true})
			if rng.IntN(4) == 0 {
				aggregate(rng, &a)
			}
			h.Paths[next] = a
			h.Ops = append(h.Ops, op{K: "in-add", In: in, Pfx: pi, ID: next})
			inHas[[2]int{in, pi}] = next
			next++
		case x < 52:
			for k, id := range inHas {
				h.Ops = append(h.Ops, op{K: "in-remove", In: k[0], Pfx: k[1], ID: id})
				delete(inHas, k)
				break
			}
		case x < 62: // a path put into the Loc-RIB directly: static routes and BGP paths with deduplicated attribute blocks
			if rng.IntN(2) == 0 {
				sp := len(h.Universe) - 1
				h.Paths[next] = rig.Attr{ID: next, Static: true}
				h.Ops = append(h.Ops, op{K: "loc-add", Pfx: sp, ID: next})
				locHas[sp] = append(locHas[sp], next)
			} else {
				a := rig.GenPath(rng, next, rig.Sources[1], rig.PathOpts{Unknown: true})
				if rng.IntN(4) == 0 {
					aggregate(rng, &a)
				}
				a.Dedup = true
				h.Paths[next] = a
				h.Ops = append(h.Ops, op{K: "loc-add", Pfx: pi, ID: next})
				locHas[pi] = append(locHas[pi], next)
			}
			next++
		case x < 68:
			for p, ids := range locHas {
				if len(ids) > 0 {
					h.Ops = append(h.Ops, op{K: "loc-remove", Pfx: p, ID: ids[0]})
					locHas[p] = ids[1:]
					break
				}
			}
		case x < 88:
			o := rng.IntN(len(h.Outs))
			if !attached[o] {
				h.Ops = append(h.Ops, op{K: "attach", Out: o})
				attached[o] = true
				continue
			}
			p := rewritingPolicy(rng, h.Universe)
			h.Ops = append(h.Ops, op{K: "replace", Out: o, Policy: &p})
		default:
			o := rng.IntN(len(h.Outs))
			if attached[o] && rng.IntN(3) == 0 {
				h.Ops = append(h.Ops, op{K: "detach", Out: o})
				attached[o] = false
			}
		}
	}
	_ = staticPfx
	return h
}

type stats struct {
	ops, snapshots, bytes, rewritingOps, exportOps int
	unorderedSetPaths, exportOpsUnorderedSet       int // paths handed in with a non-ascending AS_SET; export-side operations while the Loc-RIB stored one
	sawRewriteRefresh, sawShared, sawStatic        bool
	byOp                                           map[string]int
}

type result struct {
	viol []vf.Violation
	st   stats
}

type tableRef struct {
	name string // locrib | adjribin | adjribout
	idx  int
	dump func() *rig.TableSnap
}

var hg *rig.HangGuard

func runHist(h hist) (res result) {
	st := &res.st
	st.byOp = map[string]int{}
	seen := map[string]bool{}
	viol := func(clause string, f map[string]string, detail string) {
		v := vf.Violation{Clause: clause, Features: f, Detail: detail, Case: h}
		if sig := v.Signature(); !seen[sig] {
			seen[sig] = true
			res.viol = append(res.viol, v)
		}
	}
	l := rig.DefaultLocal
	rg := rig.New(l, h.V4)
	var ins []*rig.In
	for _, si := range h.Ins {
		src := rig.Sources[si]
		ins = append(ins, rg.AddIn(rig.Sess{Kind: src.Kind, Peer: src.IP, PeerASN: src.ASN}, rig.AcceptAll()))
	}
	var outs []*rig.Out
	for _, oc := range h.Outs {
		o := rg.NewOut(oc.Sess, oc.Policy)
		if !oc.Late {
			rg.Attach(o)
		}
		outs = append(outs, o)
	}
	var tables []tableRef
	tables = append(tables, tableRef{"locrib", 0, func() *rig.TableSnap { return rig.Snap(rg.Loc.Dump(), true) }})
	for i, in := range ins {
		in := in
		tables = append(tables, tableRef{"adjribin", i, func() *rig.TableSnap { return rig.Snap(in.Table.Dump(), true) }})
	}
	for i, o := range outs {
		o := o
		tables = append(tables, tableRef{"adjribout", i, func() *rig.TableSnap { return rig.Snap(o.Table.Dump(), true) }})
	}
	bio := make([]*bnet.Prefix, len(h.Universe))
	for i, p := range h.Universe {
		bio[i] = p.Bio()
	}
	snapAll := func() []*rig.TableSnap {
		out := make([]*rig.TableSnap, len(tables))
		for i, t := range tables {
			out[i] = t.dump()
			st.snapshots++
			st.bytes += out[i].NByte
		}
		return out
	}
	before := snapAll()
	for i, o := range h.Ops {
		actor := "-"
		actorAP := false
		key := o.K
		if o.K == "attach" || o.K == "replace" || o.K == "detach" {
			actor = outs[o.Out].Sess.Kind
			actorAP = outs[o.Out].Sess.AddPath > 0
			key = fmt.Sprintf("%s/%s/%v", o.K, actor, actorAP)
		}
		var handed []byte
		g, hung, stk := rig.WaitGuarded(hg, key, func() {
			switch o.K {
			case "in-add":
				p := h.Paths[o.ID].Build(rg.Pool)
				handed = rig.PathBytes(p, true)
				ins[o.In].Table.AddPath(bio[o.Pfx], p)
			case "in-remove":
				ins[o.In].Table.RemovePath(bio[o.Pfx], h.Paths[o.ID].Build(rg.Pool))
			case "loc-add":
				p := h.Paths[o.ID].Build(rg.Pool)
				handed = rig.PathBytes(p, true)
				rg.Loc.AddPath(bio[o.Pfx], p)
			case "loc-remove":
				rg.Loc.RemovePath(bio[o.Pfx], h.Paths[o.ID].Build(rg.Pool))
			case "attach":
				rg.Attach(outs[o.Out])
			case "replace":
				rg.ReplaceExport(outs[o.Out], *o.Policy)
			case "detach":
				rg.Detach(outs[o.Out])
			}
		})
		if hung {
			viol("hang", vf.F("op", o.K, "addpath", actorAP), fmt.Sprintf("op %d %s on %s never returned; blocked in:\n%s", i, o.K, actor, stk))
			return
		}
		if g != "" {
			staticPresent := false
			for _, a := range before[0].Attrs {
				for _, x := range a {
					staticPresent = staticPresent || x.Static
				}
			}
			viol("panic", vf.F("op", o.K, "session", actor, "site", rig.PanicSite(g), "static_route_present", staticPresent), fmt.Sprintf("op %d %+v: panic: %s", i, o, g))
			return
		}
		st.ops++
		st.byOp[o.K]++
		after := snapAll()
		exportOnly := o.K == "attach" || o.K == "replace" || o.K == "detach"
		if (o.K == "in-add" || o.K == "loc-add") && unorderedSet(h.Paths[o.ID]) {
			st.unorderedSetPaths++
		}
		if exportOnly {
			st.exportOps++
			stored := false
			for _, as := range before[0].Attrs {
				for _, x := range as {
					stored = stored || unorderedSet(x)
				}
			}
			if stored {
				st.exportOpsUnorderedSet++
			}
			if outs[o.Out].Sess.Rewrites() || (o.Policy != nil && o.Policy.Modifies()) || h.Outs[o.Out].Policy.Modifies() {
				st.rewritingOps++
				if o.K == "replace" {
					st.sawRewriteRefresh = true
				}
			}
		}
		damaged := false
		var changedKey string
		if !exportOnly {
			changedKey = h.Universe[o.Pfx].Key()
		}
		for ti, t := range tables {
			b, a := before[ti], after[ti]
			if exportOnly && t.name == "adjribout" && t.idx == o.Out {
				continue // the acting table
			}
			skip := map[string]bool{}
			if !exportOnly {
				// the changed prefix may differ in the Loc-RIB, the acting Adj-RIB-In and every Adj-RIB-Out
				if t.name == "locrib" || t.name == "adjribout" || (t.name == "adjribin" && strings.HasPrefix(o.K, "in-") && t.idx == o.In) {
					skip[changedKey] = true
				}
			}
			tname := t.name
			if t.name == "adjribout" {
				tname = "other-adjribout"
			}
			for _, d := range b.Diff(a, skip) {
				damaged = true
				for _, c := range changedPaths(b.Attrs[d.Key], a.Attrs[d.Key], h) {
					viol("changed:"+tname, vf.F("op", o.K, "actor", actor, "fields", c.fields, "shared_block", c.shared, "static", c.static),
						fmt.Sprintf("op %d %s (actor %s, policy %s): %s #%d changed at %s (%s): before %v after %v", i, o.K, actorDesc(h, o, outs), polDesc(o), t.name, t.idx, d.Pfx, c.what, d.Before, d.After))
				}
			}
			// on the changed prefix: paths that stay keep their bytes (add-path identifiers aside)
			// (every registered Adj-RIB-Out exports the changed prefix for itself: each is an acting table there)
			if !exportOnly && skip[changedKey] && t.name == "locrib" {
				bb, aa := byID(b, changedKey), byID(a, changedKey)
				var ids []uint32
				for id := range bb {
					ids = append(ids, id)
				}
				sort.Slice(ids, func(x, y int) bool { return ids[x] < ids[y] })
				for _, id := range ids {
					if id == o.ID {
						continue
					}
					x, ok := aa[id]
					if !ok {
						continue
					}
					y := bb[id]
					x.PathID, y.PathID = 0, 0
					if d := y.DiffFields(x, rig.AllFields); len(d) > 0 {
						damaged = true
						viol("changed:"+tname, vf.F("op", o.K, "actor", actor, "fields", strings.Join(d, "+"), "shared_block", h.Paths[id].Dedup, "static", h.Paths[id].Static),
							fmt.Sprintf("op %d %s %s path %d: in %s #%d path %d (not the one operated on) changed: before %s after %s", i, o.K, h.Universe[o.Pfx], o.ID, t.name, t.idx, id, y.Short(), x.Short()))
					}
				}
			}
		}
		// the Loc-RIB stores what was handed in
		if o.K == "in-add" || o.K == "loc-add" {
			loc := after[0]
			found := false
			for _, pb := range loc.Paths[changedKey] {
				if bytes.Equal(pb, handed) {
					found = true
				}
			}
			if !found && !hiddenAtImport(h.Paths[o.ID]) {
				viol("stored-differs", vf.F("op", o.K), fmt.Sprintf("op %d %s %s: the Loc-RIB does not hold the content handed in for path %d: %v", i, o.K, h.Universe[o.Pfx], o.ID, loc.Desc[changedKey]))
			}
		}
		if h.Paths[o.ID].Dedup {
			st.sawShared = true
		}
		if h.Paths[o.ID].Static {
			st.sawStatic = true
		}
		if damaged {
			return res // the tables are corrupted from here on: later differences would only be consequences
		}
		before = after
	}
	return res
}

// hiddenAtImport: the Adj-RIB-In keeps such paths to itself (own ASN in the path), nothing reaches the Loc-RIB.
func hiddenAtImport(a rig.Attr) bool {
	for _, s := range a.ASPath {
		for _, x := range s.ASNs {
			if x == rig.DefaultLocal.ASN {
				return true
			}
		}
	}
	return false
}

func byID(s *rig.TableSnap, key string) map[uint32]rig.Attr {
	m := map[uint32]rig.Attr{}
	for _, a := range s.Attrs[key] {
		m[a.ID] = a
	}
	return m
}

type pathChange struct {
	fields, what   string
	shared, static bool
}

// changedPaths lists, per path id present in both snapshots of a prefix, the attribute fields that differ; a changed
// set of paths is reported as fields "path_set".
func changedPaths(b, a []rig.Attr, h hist) []pathChange {
	var out []pathChange
	diff := func(x, y rig.Attr) {
		fs := x.DiffFields(y, rig.AllFields)
		if x.PathID != y.PathID {
			fs = append(fs, "path_id")
		}
		if len(fs) > 0 {
			out = append(out, pathChange{fields: strings.Join(fs, "+"), what: fmt.Sprintf("path %d: %s", x.ID, strings.Join(fs, ", ")), shared: h.Paths[x.ID].Dedup, static: h.Paths[x.ID].Static})
		}
	}
	matched := 0
	sameIDs := len(a) == len(b)
	for i := 0; sameIDs && i < len(a); i++ {
		sameIDs = a[i].ID == b[i].ID
	}
	if sameIDs {
		// same paths in the same stored order (a table may hold a path id twice): compare position by position
		for i := range b {
			diff(b[i], a[i])
		}
		matched = len(b)
	} else {
		am := map[uint32]rig.Attr{}
		for _, x := range a {
			am[x.ID] = x
		}
		for _, x := range b {
			if y, ok := am[x.ID]; ok {
				matched++
				diff(x, y)
			}
		}
	}
	if len(b) != len(a) || matched != len(b) {
		out = append(out, pathChange{fields: "path_set", what: "the set of stored paths changed"})
	}
	if len(out) == 0 {
		out = append(out, pathChange{fields: "other", what: "bytes differ outside the projection"})
	}
	return out
}

func actorDesc(h hist, o op, outs []*rig.Out) string {
	if o.K == "attach" || o.K == "replace" || o.K == "detach" {
		return outs[o.Out].Sess.String()
	}
	return "-"
}

func polDesc(o op) string {
	if o.Policy == nil {
		return "-"
	}
	return o.Policy.String()
}

func main() {
	vf.Main("C13", "exploration", func(r *vf.Run) {
		r.Rule("PRNG histories (50 operations) on one Loc-RIB with three Adj-RIB-Ins (eBGP, iBGP, RR client; accept-all import) and 2-4 Adj-RIB-Outs from {eBGP, eBGP RS client, iBGP, iBGP RR client} x {best only, add-path 2/4} with rewriting export chains (prepend, set next hop, set MED, generated chains), eBGP sessions sometimes with RFC 9234 roles: neighbours announce / withdraw (one path in four is an aggregate: AS_SET of 2-4 members in arbitrary, mostly non-ascending order after the sequence, often with ATOMIC_AGGREGATE), static routes and BGP paths with deduplicated attribute blocks are put into the Loc-RIB directly, Adj-RIB-Outs are registered late (initial dump), get their export chain replaced (refresh) and are unregistered. Deep snapshots of all tables before and after every operation. distinct_nontrivial = histories with a policy replacement on a rewriting session while the Loc-RIB held a path with a shared (deduplicated) attribute block and a static route")
		r.Assume("import chains accept everything (what the Loc-RIB stores is then the content handed to the Adj-RIB-In)", "nil and empty attribute containers are the same content")
		_, replay := r.Replaying()
		hg = rig.NewHangGuard(replay)
		var mu sync.Mutex
		byOp := map[string]int{}
		report := func(h hist, i int) {
			var res result
			if p := rig.Guard(func() { res = runHist(h) }); p != "" {
				r.Violate(vf.Violation{Clause: "harness-panic", Features: vf.F(), Detail: p, Case: h})
				return
			}
			for _, v := range res.viol {
				r.Violate(v)
			}
			st := res.st
			r.Eval(st.snapshots)
			r.Count("operations", st.ops)
			r.Count("histories", 1)
			r.Count("snapshots_taken", st.snapshots)
			r.Count("bytes_compared", st.bytes)
			r.Count("export_side_operations", st.exportOps)
			r.Count("rewriting_operations_between_snapshots", st.rewritingOps)
			r.Count("paths_with_unordered_as_set", st.unorderedSetPaths)
			r.Count("export_side_operations_with_unordered_as_set_stored", st.exportOpsUnorderedSet)
			mu.Lock()
			for k, v := range st.byOp {
				byOp[k] += v
			}
			mu.Unlock()
			if st.sawRewriteRefresh && st.sawShared && st.sawStatic {
				r.Nontrivial(fmt.Sprint(i))
			}
			if i < 2 {
				var ss []string
				for _, o := range h.Outs {
					ss = append(ss, o.Sess.String()+" "+o.Policy.String())
				}
				r.Sample(map[string]any{"v4": h.V4, "outs": ss, "n_ops": len(h.Ops), "first_ops": h.Ops[:min(8, len(h.Ops))]})
			}
		}
		if raw, ok := r.Replaying(); ok {
			var h hist
			vf.Decode(raw, &h)
			report(h, 0)
			return
		}
		n := r.N(2000, 20000)
		vf.Parallel(n, 8, func(i int) {
			report(genHist(r.RandN("c13", i), 50), i)
		})
		r.Set("operations_by_kind", byOp)
		r.Require("export_side_operations", 5000)
		r.Require("rewriting_operations_between_snapshots", 2000)
		r.Require("paths_with_unordered_as_set", 2000)
		r.Require("export_side_operations_with_unordered_as_set_stored", 2000)
	})
}
