// C31: IS-IS point-to-point adjacencies follow the three-way handshake and the hold timer.
// Real server (Start called, all goroutines running) on the mock clock; hellos are handed to the
// receive function synchronously; monitors run after every hello and after every second of mock time.
package main

import (
	"encoding/json"
	"os"
	"path/filepath"

	"verifharness/internal/isish"
	"verifharness/internal/vf"
)

func runCase(c isish.Case, out *isish.Outcome) {
	var ac isish.AdjCase
	if err := json.Unmarshal(c.Raw, &ac); err != nil {
		out.Inconclusive = "bad case: " + err.Error()
		return
	}
	isish.RunAdj(ac, out, nil)
}

func main() {
	if isish.IsChild() {
		isish.ChildMain(runCase)
	}
	vf.Main("C31", "exploration", func(r *vf.Run) {
		r.Rule("PRNG histories of 10-25 events for 1 or 2 neighbors (on two interfaces, or both on one): valid point-to-point hellos with holding time 1..30 s and a three-way TLV that is absent / state Down without neighbor / state Init, Up or Down naming this system and circuit / naming another system / naming this system with a wrong circuit id / one octet long (state only), interleaved with mock clock advances of 1..35 s taken in 1 s steps, optionally followed by silence of holding time + 3 s or + 126 s. Monitors after every hello and every 1 s step: (up-without-listing) Up only if a hello since the last non-Up state listed this system and circuit; (down-on-not-listed) a hello carrying a three-way TLV that does not list us, received while Up, leaves the adjacency not Up; (hold-expiry) no hello for the holding time of the last hello + 2 s => not Up, also when that hello lowered the holding time; (disappear) no hello for the last hello's holding time + 125 s => absent from GetAdjacencies, whatever state it was in; (lsp-up-set) whenever the local LSP's sequence number increased, its extended IS reachability TLV lists exactly the Up adjacencies (for a regeneration that raced with timers: a set between the Up sets before and after the step). Levels and areas: in half of the histories the interfaces are configured for level 1 in addition to level 2; the neighbor's hellos are level-2-only (circuit type 2) from our area (30 %), level 1+2 (circuit type 3) from another area throughout (20 %), circuit type 3 with the neighbor moved into or out of our area at a random point of the history (30 %), or circuit type and area drawn per hello (20 %); the level 2 adjacency (what GetAdjacencies reports) must not depend on either. Further monitors: (hello-ignored) after a well-formed hello with a three-way TLV the neighbor is listed by GetAdjacencies in some state; (not-up-after-listing) a hello that lists this system and circuit, from a neighbor that was listed before it, leaves the adjacency Up; (down-without-cause) an adjacency leaves Up only after a hello whose three-way TLV does not list us or when the holding time of the last accepted hello has passed. distinct_nontrivial = histories in which an adjacency reached Up and left it again")
		r.Assume("after every hello and every 1 s clock step the harness yields until no adjacency-check tick or LSP refresh request is pending and adjacency table + local LSP sequence number are unchanged over three reads (real-time cap 20 s => inconclusive)",
			"hellos without three-way TLV are rejected by bio-rd; the oracles make no demand on them")
		opts := isish.Opts{Workers: 12, Scratch: filepath.Join(os.TempDir(), "isis")}
		if raw, ok := r.Replaying(); ok {
			c := isish.ReplayCase(raw)
			outs := isish.RunBatch([]isish.Case{c}, opts)
			isish.Apply(r, []isish.Case{c}, outs, nil)
			return
		}
		n := r.N(1000, 15000)
		cases := make([]isish.Case, n)
		for i := range cases {
			ac := isish.GenAdjCase(r.RandN("c31", i))
			cases[i] = isish.Case{Kind: "adj", Raw: isish.MustJSON(ac)}
			if i < 2 {
				r.Sample(ac)
			}
		}
		outs := isish.RunBatch(cases, opts)
		isish.Apply(r, cases, outs, nil)
		r.Require("up_observations", 1000)
		r.Require("hold_expiry_checks", 100)
		r.Require("disappear_checks", 50)
		r.Require("lsp_regenerations_checked", 500)
		r.Require("not_listed_while_up", 50)
		r.Require("hellos_lowering_hold", 500)
		r.Require("valid_hellos_ct3/area-other", 1000)
		r.Require("valid_hellos_ct3/area-same", 500)
		r.Require("valid_hellos_ct2/area-other", 100)
		r.Require("listing_hellos_to_known_neighbor_ct3/area-other", 300)
		r.Require("up_to_notup_transitions", 300)
		r.Require("kept_up_within_hold_checks", 1000)
	})
}
