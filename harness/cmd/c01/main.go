// C01: routing table lookups agree with a prefix-map model (IPv4 and IPv6).
// Monitor: after every operation of a generated history the real RoutingTable (and a LocRIB fed
// the same history) is queried for every universe prefix and some absent queries and compared with
// a map from prefix to list of path ids.
package main

import (
	"fmt"
	"math/rand/v2"
	"runtime"
	"sort"
	"strings"

	bnet "github.com/bio-routing/bio-rd/net"
	"github.com/bio-routing/bio-rd/route"
	"github.com/bio-routing/bio-rd/routingtable"
	"github.com/bio-routing/bio-rd/routingtable/locRIB"

	"verifharness/internal/gen"
	"verifharness/internal/vf"
)

type op struct {
	K   string `json:"k"` // add | remove | replace | removepfx
	Pfx int    `json:"pfx"`
	ID  uint32 `json:"id"`
	Old uint32 `json:"old,omitempty"` // locrib replace: the id to replace
}

type hist struct {
	V4       bool    `json:"v4"`
	Universe []gen.P `json:"universe"`
	Queries  []gen.P `json:"queries"` // extra (absent) queries
	Ops      []op    `json:"ops"`
	Long     bool    `json:"long,omitempty"`
}

func mkPath(id uint32) *route.Path {
	return &route.Path{Type: route.StaticPathType, StaticPath: &route.StaticPath{NextHop: bnet.IPv4(id).Ptr()}}
}

func pathID(p *route.Path) uint32 {
	if p == nil || p.StaticPath == nil || p.StaticPath.NextHop == nil {
		return 0
	}
	return p.StaticPath.NextHop.ToUint32()
}

func genHist(rng *rand.Rand, v4 bool, nops int, usize int) hist {
	h := hist{V4: v4, Universe: gen.Universe(rng, v4, usize)}
	// absent queries: parents / random prefixes not in the universe
	in := map[string]bool{}
	for _, p := range h.Universe {
		in[p.Key()] = true
	}
	for i := 0; len(h.Queries) < 12 && i < 200; i++ {
		p := h.Universe[rng.IntN(len(h.Universe))]
		switch rng.IntN(3) {
		case 0:
			if p.Len > 0 {
				p.Len = uint8(rng.IntN(int(p.Len)))
			}
		case 1:
			p.Hi, p.Lo = rng.Uint64(), rng.Uint64()
		case 2:
			if int(p.Len) < p.Width() {
				p.Len++
			}
		}
		p = p.Canon()
		if !in[p.Key()] {
			in[p.Key()] = true
			h.Queries = append(h.Queries, p)
		}
	}
	next := uint32(1)
	stored := map[int][]uint32{}
	for i := 0; i < nops; i++ {
		pi := rng.IntN(len(h.Universe))
		// bias to a working subset so that removals hit
		if rng.IntN(3) != 0 {
			pi = rng.IntN(1 + len(h.Universe)/2)
		}
		x := rng.IntN(100)
		switch {
		case x < 45:
			h.Ops = append(h.Ops, op{K: "add", Pfx: pi, ID: next})
			stored[pi] = append(stored[pi], next)
			next++
		case x < 75:
			ids := stored[pi]
			if len(ids) > 0 && rng.IntN(8) != 0 {
				j := rng.IntN(len(ids))
				h.Ops = append(h.Ops, op{K: "remove", Pfx: pi, ID: ids[j]})
				stored[pi] = append(append([]uint32{}, ids[:j]...), ids[j+1:]...)
			} else {
				h.Ops = append(h.Ops, op{K: "remove", Pfx: pi, ID: 0xfffffff0}) // absent path
			}
		case x < 88:
			o := op{K: "replace", Pfx: pi, ID: next}
			if ids := stored[pi]; len(ids) > 0 {
				o.Old = ids[rng.IntN(len(ids))]
			}
			h.Ops = append(h.Ops, o)
			stored[pi] = []uint32{next}
			next++
		default:
			h.Ops = append(h.Ops, op{K: "removepfx", Pfx: pi})
			delete(stored, pi)
		}
	}
	return h
}

type model struct {
	m map[string][]uint32
	p map[string]gen.P
}

func (m *model) add(p gen.P, id uint32) { m.m[p.Key()] = append(m.m[p.Key()], id); m.p[p.Key()] = p }
func (m *model) remove(p gen.P, id uint32) {
	ids := m.m[p.Key()]
	for i, x := range ids {
		if x == id {
			ids = append(append([]uint32{}, ids[:i]...), ids[i+1:]...)
			break
		}
	}
	if len(ids) == 0 {
		delete(m.m, p.Key())
	} else {
		m.m[p.Key()] = ids
	}
}
func (m *model) removePfx(p gen.P) { delete(m.m, p.Key()) }

func idsOf(r *route.Route) []uint32 {
	if r == nil {
		return nil
	}
	var out []uint32
	for _, p := range r.Paths() {
		out = append(out, pathID(p))
	}
	sort.Slice(out, func(i, j int) bool { return out[i] < out[j] })
	return out
}

func sortedCopy(a []uint32) []uint32 {
	b := append([]uint32{}, a...)
	sort.Slice(b, func(i, j int) bool { return b[i] < b[j] })
	return b
}

func eqIDs(a, b []uint32) bool {
	if len(a) != len(b) {
		return false
	}
	for i := range a {
		if a[i] != b[i] {
			return false
		}
	}
	return true
}

func pfxSet(rs []*route.Route) (map[string]int, string) {
	out := map[string]int{}
	var names []string
	for _, r := range rs {
		k := gen.FromBio(r.Prefix()).Key()
		out[k]++
		names = append(names, r.Prefix().String())
	}
	sort.Strings(names)
	return out, strings.Join(names, ",")
}

type table interface {
	Get(*bnet.Prefix) *route.Route
	LPM(*bnet.Prefix) []*route.Route
	GetLonger(*bnet.Prefix) []*route.Route
	Dump() []*route.Route
}

type stats struct {
	ops, queries                             int
	dummy, reinsert, absentLonger, longV6    bool
	perOp                                    map[string]int
	perBand                                  map[string]int
	shapes                                   map[uint64]struct{}
}

// runHist executes a history against kind ("rt" or "locrib") and reports violations through viol.
func runHist(h hist, kind string, st *stats, viol func(clause string, f map[string]string, detail string)) {
	fam := "ipv6"
	if h.V4 {
		fam = "ipv4"
	}
	step := -1
	defer func() {
		if p := recover(); p != nil {
			buf := make([]byte, 2048)
			buf = buf[:runtime.Stack(buf, false)]
			viol("panic", vf.F("table", kind, "family", fam), fmt.Sprintf("panic at op %d: %v\n%s", step, p, buf))
		}
	}()
	var rt *routingtable.RoutingTable
	var lr *locRIB.LocRIB
	var tb table
	if kind == "rt" {
		rt = routingtable.NewRoutingTable()
		tb = rt
	} else {
		lr = locRIB.New("c01")
		tb = lr
	}
	m := &model{m: map[string][]uint32{}, p: map[string]gen.P{}}
	everStored := map[string]bool{}
	all := append(append([]gen.P{}, h.Universe...), h.Queries...)
	bio := make([]*bnet.Prefix, len(all))
	for i, p := range all {
		bio[i] = p.Bio()
	}
	for i, o := range h.Ops {
		step = i
		p := h.Universe[o.Pfx]
		bp := bio[o.Pfx]
		switch o.K {
		case "add":
			if everStored[p.Key()] && len(m.m[p.Key()]) == 0 {
				st.reinsert = true
			}
			if rt != nil {
				rt.AddPath(bp, mkPath(o.ID))
			} else {
				lr.AddPath(bp, mkPath(o.ID))
			}
			m.add(p, o.ID)
			everStored[p.Key()] = true
		case "remove":
			if rt != nil {
				rt.RemovePath(bp, mkPath(o.ID))
			} else {
				lr.RemovePath(bp, mkPath(o.ID))
			}
			m.remove(p, o.ID)
		case "replace":
			if rt != nil {
				rt.ReplacePath(bp, mkPath(o.ID))
				m.removePfx(p)
				m.add(p, o.ID)
			} else {
				// LocRIB.ReplacePath replaces one stored path by another; it is defined only when old is stored
				if o.Old != 0 {
					lr.ReplacePath(bp, mkPath(o.Old), mkPath(o.ID))
					m.remove(p, o.Old)
					m.add(p, o.ID)
				} else {
					lr.AddPath(bp, mkPath(o.ID))
					m.add(p, o.ID)
				}
			}
			everStored[p.Key()] = true
		case "removepfx":
			if rt != nil {
				rt.RemovePfx(bp)
				m.removePfx(p)
			} else {
				// no such operation on the Loc-RIB: remove path by path
				for _, id := range append([]uint32{}, m.m[p.Key()]...) {
					lr.RemovePath(bp, mkPath(id))
					m.remove(p, id)
				}
			}
		}
		st.ops++
		st.perOp[o.K]++
		// queries
		for qi, q := range all {
			bq := bio[qi]
			_, qStored := m.m[q.Key()]
			// exact
			got := idsOf(tb.Get(bq))
			want := sortedCopy(m.m[q.Key()])
			if !eqIDs(got, want) {
				viol("get", vf.F("table", kind, "family", fam, "after", o.K), fmt.Sprintf("op %d (%s %s): Get(%s) ids=%v model=%v", i, o.K, p, q, got, want))
			}
			// covering
			wantSet := map[string]int{}
			var wantNames []string
			for k, sp := range m.p {
				if _, ok := m.m[k]; ok && sp.Covers(q) {
					wantSet[k] = 1
					wantNames = append(wantNames, sp.String())
				}
			}
			gotSet, gotNames := pfxSet(tb.LPM(bq))
			if !sameSet(gotSet, wantSet) {
				sort.Strings(wantNames)
				viol("lpm", vf.F("table", kind, "family", fam, "query_stored", qStored), fmt.Sprintf("op %d (%s %s): LPM(%s)=[%s] model=[%s]", i, o.K, p, q, gotNames, strings.Join(wantNames, ",")))
			}
			// more specifics
			wantSet = map[string]int{}
			wantNames = nil
			for k, sp := range m.p {
				if _, ok := m.m[k]; ok && q.Covers(sp) {
					wantSet[k] = 1
					wantNames = append(wantNames, sp.String())
				}
			}
			if !qStored && len(wantSet) > 0 {
				st.absentLonger = true
			}
			gotSet, gotNames = pfxSet(tb.GetLonger(bq))
			if !sameSet(gotSet, wantSet) {
				sort.Strings(wantNames)
				viol("getlonger", vf.F("table", kind, "family", fam, "query_stored", qStored), fmt.Sprintf("op %d (%s %s): GetLonger(%s)=[%s] model=[%s]", i, o.K, p, q, gotNames, strings.Join(wantNames, ",")))
			}
			st.queries += 3
			st.perBand[gen.LenBand(q.V4, q.Len)] += 3
		}
		// dump + count
		wantSet := map[string]int{}
		var keys []string
		for k := range m.m {
			wantSet[k] = 1
			keys = append(keys, k)
		}
		d := tb.Dump()
		gotSet, gotNames := pfxSet(d)
		if !sameSet(gotSet, wantSet) {
			viol("dump", vf.F("table", kind, "family", fam, "after", o.K), fmt.Sprintf("op %d (%s %s): Dump=[%s] but model stores %d prefixes", i, o.K, p, gotNames, len(wantSet)))
		}
		var cnt int64
		if rt != nil {
			cnt = rt.GetRouteCount()
		} else {
			cnt = int64(lr.Count())
		}
		if cnt != int64(len(wantSet)) {
			viol("count", vf.F("table", kind, "family", fam, "after", o.K), fmt.Sprintf("op %d (%s %s): route count=%d model=%d", i, o.K, p, cnt, len(wantSet)))
		}
		st.queries += 2
		// non-triviality bookkeeping
		if len(d) > 0 {
			// a dummy supernet exists when two stored prefixes have no stored common ancestor between them; approximated by:
			// stored siblings without their parent stored
			for _, k := range keys {
				sp := m.p[k]
				if sp.Len > 0 {
					par := sp
					par.Len--
					par = par.Canon()
					if _, ok := m.m[par.Key()]; !ok {
						sib := sp
						if sp.Len <= 64 {
							sib.Hi ^= 1 << (64 - uint(sp.Len))
						} else {
							sib.Lo ^= 1 << (128 - uint(sp.Len))
						}
						if _, ok := m.m[sib.Key()]; ok {
							st.dummy = true
						}
					}
				}
				if !sp.V4 && sp.Len > 64 {
					st.longV6 = true
				}
			}
		}
		sort.Strings(keys)
		hsh := uint64(14695981039346656037)
		for _, k := range keys {
			for j := 0; j < len(k); j++ {
				hsh = (hsh ^ uint64(k[j])) * 1099511628211
			}
		}
		st.shapes[hsh] = struct{}{}
	}
}

func sameSet(a, b map[string]int) bool {
	if len(a) != len(b) {
		return false
	}
	for k, v := range a {
		if b[k] != v {
			return false
		}
	}
	return true
}

func main() {
	vf.Main("C01", "exploration", func(r *vf.Run) {
		r.Rule("PRNG histories of add/remove/replace/remove-prefix over a 40-prefix adversarial universe of one family (shared stems, siblings, parents, children, default and host routes, lengths around 32/64/96/128); after EVERY operation Get, LPM and GetLonger are compared with a prefix map for every universe prefix and 12 absent queries, plus Dump and the route count; each history runs against RoutingTable and LocRIB. distinct_nontrivial = histories (counted once per table kind) that contain a sibling pair stored without its parent (forces a dummy supernet node), a re-insertion after removal, and an absent more-specifics query with a non-empty expected answer (IPv6: also a stored prefix longer than /64)")
		r.Assume("prefixes are canonical (no host bits)", "paths are static paths with unique next hops so that a lookup identifies the insertion it observed")
		mk := func(kind string, h hist) func(string, map[string]string, string) {
			return func(clause string, f map[string]string, detail string) {
				r.Violate(vf.Violation{Clause: clause, Features: f, Detail: detail, Case: map[string]any{"kind": kind, "hist": h}})
			}
		}
		if raw, ok := r.Replaying(); ok {
			var c struct {
				Kind string `json:"kind"`
				Hist hist   `json:"hist"`
			}
			vf.Decode(raw, &c)
			st := &stats{perOp: map[string]int{}, perBand: map[string]int{}, shapes: map[uint64]struct{}{}}
			runHist(c.Hist, c.Kind, st, mk(c.Kind, c.Hist))
			return
		}
		n := r.N(160, 6000)
		nlong := r.N(2, 30)
		total := 2*n + nlong
		perOp := map[string]int{}
		perBand := map[string]int{}
		shapes := map[uint64]struct{}{}
		var mu = make(chan struct{}, 1)
		mu <- struct{}{}
		vf.Parallel(total, runtime.NumCPU(), func(i int) {
			rng := r.RandN("c01", i)
			var h hist
			if i < 2*n {
				h = genHist(rng, i%2 == 0, 150+rng.IntN(151), 40)
			} else {
				h = genHist(rng, i%2 == 0, r.N(3000, 20000), 64)
				h.Long = true
			}
			for _, kind := range []string{"rt", "locrib"} {
				st := &stats{perOp: map[string]int{}, perBand: map[string]int{}, shapes: map[uint64]struct{}{}}
				runHist(h, kind, st, mk(kind, h))
				<-mu
				r.Eval(st.queries)
				r.Count("operations", st.ops)
				r.Count("histories", 1)
				for k, v := range st.perOp {
					perOp[k] += v
				}
				for k, v := range st.perBand {
					perBand[k] += v
				}
				for k := range st.shapes {
					shapes[k] = struct{}{}
				}
				mu <- struct{}{}
				if st.dummy && st.reinsert && st.absentLonger && (h.V4 || st.longV6) {
					r.Nontrivial(fmt.Sprintf("%s/%d", kind, i))
				}
			}
			if i < 2 {
				r.Sample(map[string]any{"family_v4": h.V4, "universe": strs(h.Universe[:8]), "first_ops": h.Ops[:10], "n_ops": len(h.Ops)})
			}
		})
		r.Set("ops_by_kind", perOp)
		r.Set("queries_by_length_band", perBand)
		r.Set("distinct_stored_sets", len(shapes))
		r.Require("operations", 1000)
	})
}

func strs(ps []gen.P) []string {
	var out []string
	for _, p := range ps {
		out = append(out, p.String())
	}
	return out
}
