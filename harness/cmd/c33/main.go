// C33: IS-IS survives any sequence of interface state changes.
// Exhaustive: every link up/down sequence of length 1..6 x {active, passive} x mock clock advance
// 0/6/11 s after each event, each scenario against a fresh server (New, Start, AddInterface, device
// events through device.MockServer, as the daemon does), in child processes so that a panic in a
// bio-rd goroutine is attributed to its scenario.
package main

import (
	"encoding/json"
	"os"
	"path/filepath"

	"verifharness/internal/isish"
	"verifharness/internal/vf"
)

func runCase(c isish.Case, out *isish.Outcome) {
	var ic isish.IfaceCase
	if err := json.Unmarshal(c.Raw, &ic); err != nil {
		out.Inconclusive = "bad case: " + err.Error()
		return
	}
	isish.RunIface(ic, out, nil)
}

func crashFeatures(c isish.Case) map[string]string {
	var ic isish.IfaceCase
	json.Unmarshal(c.Raw, &ic)
	f := map[string]string{"passive": "false"}
	if ic.Passive {
		f["passive"] = "true"
	}
	if ic.Ghost {
		f["_prefix"] = "iface-without-device:"
	}
	return f
}

func main() {
	if isish.IsChild() {
		isish.ChildMain(runCase)
	}
	vf.Main("C33", "exploration", func(r *vf.Run) {
		r.Rule("every sequence of link up / link down device events of length 1..6 on one IS-IS interface (126 sequences) x {active, passive} x {0, 6, 11} s of mock time after every event (so that the hello, PSNP and CSNP tickers fire in every interface state) = 756 scenarios, each on a fresh server built in the daemon's order (New, Start, AddInterface, device events via device.MockServer), executed in child processes. Oracles: no panic (recovered in the event call, or process death attributed through the batch protocol); GetAdjacencies/GetLSDB return after every event; after a final link up on an active interface a hello is sent on the ethernet handle the server currently holds within 2 hello intervals of mock time, and a neighbor sending valid hellos on that handle (real receive path) reaches Up. distinct_nontrivial = scenarios containing at least one up->down or down->up change. Clause prefix iface-without-device: = same with a second configured interface that never receives a device event (sample; reported separately because the statement speaks of event sequences)")
		r.Assume("mock clock advanced in 1 s steps; after each step the harness yields until no tick is pending in a bio-rd goroutine and the adjacency table and the number of sent frames are unchanged over three reads",
			"device events are delivered synchronously through device.MockServer (interface index 0)")
		opts := isish.Opts{Workers: 8, Scratch: filepath.Join(os.TempDir(), "isis")}
		if raw, ok := r.Replaying(); ok {
			c := isish.ReplayCase(raw)
			outs := isish.RunBatch([]isish.Case{c}, opts)
			isish.Apply(r, []isish.Case{c}, outs, crashFeatures)
			return
		}
		var cases []isish.Case
		// thorough: additionally every sequence of length 7 and 8
		for _, ic := range isish.IfaceCases(r.N(6, 8), []int{0, 6, 11}) {
			cases = append(cases, isish.Case{Kind: "iface", Raw: isish.MustJSON(ic)})
		}
		nExh := len(cases)
		// configured-but-absent second interface: a sample in the quick tier, all in the thorough tier
		ghosts := isish.IfaceCases(r.N(3, 6), []int{0, 6, 11})
		for _, ic := range ghosts {
			ic.Ghost = true
			cases = append(cases, isish.Case{Kind: "iface", Raw: isish.MustJSON(ic)})
		}
		for i := 0; i < len(cases) && i < 200; i += 67 {
			r.Sample(map[string]any{"kind": cases[i].Kind, "scenario": json.RawMessage(cases[i].Raw)})
		}
		outs := isish.RunBatch(cases, opts)
		isish.Apply(r, cases, outs, crashFeatures)
		r.Exhaustive(true)
		r.Set("exhaustive_scenarios", nExh)
		r.Set("ghost_scenarios", len(ghosts))
		r.Require("scenarios", int64(nExh/2))
	})
}
