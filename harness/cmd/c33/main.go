// C33: IS-IS survives any sequence of interface state changes.
// Exhaustive: every link up/down sequence of length 1..6 x {active, passive} x mock clock advance
// 0/6/11 s after each event, each scenario against a fresh server (New, Start, AddInterface, device
// events through device.MockServer, as the daemon does), in child processes so that a panic in a
// bio-rd goroutine is attributed to its scenario. Also: link loss reported through every operational
// state the device layer knows, and device events that race with PDUs being received.
package main

import (
	"encoding/json"
	"os"
	"path/filepath"

	"verifharness/internal/isish"
	"verifharness/internal/vf"
)

func runCase(c isish.Case, out *isish.Outcome) {
	var ic isish.IfaceCase
	if err := json.Unmarshal(c.Raw, &ic); err != nil {
		out.Inconclusive = "bad case: " + err.Error()
		return
	}
	isish.RunIface(ic, out, nil)
}

func crashFeatures(c isish.Case) map[string]string {
	var ic isish.IfaceCase
	json.Unmarshal(c.Raw, &ic)
	f := map[string]string{"passive": "false"}
	if ic.Passive {
		f["passive"] = "true"
	}
	if ic.Ghost {
		f["_prefix"] = "iface-without-device:"
	}
	if len(ic.States) > 0 {
		f["events"] = "oper-states"
	}
	if ic.Inflight != nil {
		f["events"] = "raced-with-pdus"
	}
	if len(ic.Faults) > 0 {
		f["events"] = "with-transient-send-errors"
	}
	return f
}

func main() {
	if isish.IsChild() {
		isish.ChildMain(runCase)
	}
	vf.Main("C33", "exploration", func(r *vf.Run) {
		r.Rule("every sequence of link up / link down device events of length 1..6 on one IS-IS interface (126 sequences) x {active, passive} x {0, 6, 11} s of mock time after every event (so that the hello, PSNP and CSNP tickers fire in every interface state) = 756 scenarios, each on a fresh server built in the daemon's order (New, Start, AddInterface, device events via device.MockServer), executed in child processes. Oracles: no panic (recovered in the event call, or process death attributed through the batch protocol); GetAdjacencies/GetLSDB return after every event; after a final link up on an active interface a hello is sent on the ethernet handle the server currently holds within 2 hello intervals of mock time, and a neighbor sending valid hellos on that handle (real receive path) reaches Up. distinct_nontrivial = scenarios containing at least one up->down or down->up change. Clause prefix iface-without-device: = same with a second configured interface that never receives a device event (sample; reported separately because the statement speaks of event sequences). Link loss as the device layer reports it (RFC 2863 operational states; only IfOperUp is a usable link, delivered through a device.Updater of the harness): every sequence over {unknown, notPresent, down, lowerLayerDown, testing, dormant, up} of length 1..3 on an active interface (399; thorough 1..4) and 1..2 on a passive one (56; thorough 1..3) plus random sequences of length 4..8 (40; thorough 1500), same oracles, feature loss = the state that reported the most recent link loss. Device events racing with received PDUs (16 scenarios; thorough 200): 150 rounds of link up, 1..4 PDUs of a neighbor (hellos in the three adjacency states, LSP, CSNP, PSNP) put into the socket, then either the harness spins until the receiver goroutine has taken the first PDU or yields 0..30 times, link loss (down or another non-up state) reported without waiting for the receiver; every device event must return (clause event-hang: watchdog of 10 s on a call that takes microseconds, confirmed by replays in fresh processes; detail lists the goroutines inside the IS-IS server), then link up with the hello and adjacency oracles; coverage counts in how many rounds a PDU was being processed / still queued when the loss was reported. Transient transmission failures (fault injection in the harness' ethernet handle: chosen SendPacket calls return an error while the socket stays open, as sendto() does with ENETDOWN/ENOBUFS around a link change): every up/down sequence of length 1..4 (thorough 1..6) ending in link up on an active interface x {0, 6} s x {1st, 1st+2nd, 2nd, 3rd..5th transmission on every handle; 1st transmission on the handle of the last link up} plus random longer scenarios with 1..3 failure windows (20; thorough 1000); same oracles, and after the last injected failure has happened (one hello interval per transmission up to it) a hello must be sent within 2 hello intervals (clause no-hello-after-transient-send-error) and the adjacency must form")
		r.Assume("mock clock advanced in 1 s steps; after each step the harness yields until no tick is pending in a bio-rd goroutine and the adjacency table and the number of sent frames are unchanged over three reads",
			"device events are delivered synchronously through device.MockServer (interface index 0)")
		r.Watchdog("event-hang")
		opts := isish.Opts{Workers: 8, Scratch: filepath.Join(os.TempDir(), "isis")}
		if raw, ok := r.Replaying(); ok {
			c := isish.ReplayCase(raw)
			outs := isish.RunBatch([]isish.Case{c}, opts)
			isish.Apply(r, []isish.Case{c}, outs, crashFeatures)
			return
		}
		var cases []isish.Case
		// thorough: additionally every sequence of length 7 and 8
		for _, ic := range isish.IfaceCases(r.N(6, 8), []int{0, 6, 11}) {
			cases = append(cases, isish.Case{Kind: "iface", Raw: isish.MustJSON(ic)})
		}
		nExh := len(cases)
		// configured-but-absent second interface: a sample in the quick tier, all in the thorough tier
		ghosts := isish.IfaceCases(r.N(3, 6), []int{0, 6, 11})
		for _, ic := range ghosts {
			ic.Ghost = true
			cases = append(cases, isish.Case{Kind: "iface", Raw: isish.MustJSON(ic)})
		}
		// link loss reported through other operational states
		stateCases := isish.IfaceStateCases(r.N(3, 4), false, 0)
		stateCases = append(stateCases, isish.IfaceStateCases(r.N(2, 3), true, 0)...)
		for i := 0; i < r.N(40, 1500); i++ {
			stateCases = append(stateCases, isish.GenIfaceStateCase(r.RandN("c33-states", i)))
		}
		for _, ic := range stateCases {
			cases = append(cases, isish.Case{Kind: "iface", Raw: isish.MustJSON(ic)})
		}
		r.Sample(map[string]any{"kind": "iface", "scenario": stateCases[len(stateCases)-1]})
		// transient transmission failures
		faultCases := isish.IfaceFaultCases(r.N(4, 6), []int{0, 6})
		for i := 0; i < r.N(20, 1000); i++ {
			faultCases = append(faultCases, isish.GenIfaceFaultCase(r.RandN("c33-txfault", i)))
		}
		for _, ic := range faultCases {
			cases = append(cases, isish.Case{Kind: "iface", Raw: isish.MustJSON(ic)})
		}
		r.Sample(map[string]any{"kind": "iface", "scenario": faultCases[7]})
		// device events racing with PDUs being received
		// (spread over the case list, hence over the child processes: a stuck one costs its watchdog)
		nRace := r.N(16, 200)
		stride := len(cases) / nRace
		for i := 0; i < nRace; i++ {
			ic := isish.GenInflightCase(r.RandN("c33-inflight", i), 150)
			if i == 0 {
				r.Sample(map[string]any{"kind": "iface", "scenario": ic})
			}
			at := i * (stride + 1)
			cases = append(cases, isish.Case{})
			copy(cases[at+1:], cases[at:])
			cases[at] = isish.Case{Kind: "iface", Raw: isish.MustJSON(ic)}
		}
		for i := 0; i < len(cases) && i < 200; i += 67 {
			r.Sample(map[string]any{"kind": cases[i].Kind, "scenario": json.RawMessage(cases[i].Raw)})
		}
		outs := isish.RunBatch(cases, opts)
		isish.Apply(r, cases, outs, crashFeatures)
		r.Exhaustive(true)
		r.Set("exhaustive_scenarios", nExh)
		r.Set("ghost_scenarios", len(ghosts))
		r.Set("oper_state_scenarios", len(stateCases))
		r.Set("raced_scenarios", nRace)
		r.Set("send_fault_scenarios", len(faultCases))
		r.Require("transient_send_errors_injected", int64(len(faultCases)))
		r.Require("final_up_after_transient_send_error", int64(len(faultCases)/2))
		r.Require("final_up_send_errors_all_consumed", int64(len(faultCases)/2))
		r.Require("scenarios", int64(nExh/2))
		r.Require("events_oper_lowerLayerDown", 100)
		r.Require("events_oper_dormant", 100)
		r.Require("events_oper_notPresent", 100)
		r.Require("events_oper_unknown", 100)
		r.Require("final_up_after_loss_lowerLayerDown", 10)
		r.Require("inflight_rounds", int64(nRace*150/2))
		r.Require("loss_events_with_pdu_being_processed", int64(nRace*3))
	})
}
