package main

import (
	"encoding/binary"
	"encoding/hex"
	"fmt"
	"math/rand/v2"

	"verifharness/internal/sess2"
	"verifharness/internal/sessgen"
	"verifharness/internal/speaker"
	"verifharness/internal/vf"
	"verifharness/internal/wire"
	"verifharness/internal/wiregen"
)

// expect describes the single defect of a stream and the NOTIFICATIONs RFC 4271 §6 allows for it.
type expect struct {
	Family  string   `json:"family"`  // header | open | update
	Class   string   `json:"class"`   // the defect class
	Allowed [][2]int `json:"allowed"` // (code, subcode); subcode -1: any
}

type ccase struct {
	Gen    string      `json:"gen"`              // generator
	Cut    string      `json:"cut"`              // opensent | openconfirm | established
	Cfg    sessgen.Cfg `json:"cfg"`              // the attacked session
	Prefix []string    `json:"prefix,omitempty"` // hex: valid messages sent first (Established only)
	Tail   string      `json:"tail"`             // hex: the hostile tail
	Chunks []int       `json:"chunks,omitempty"` // the tail is delivered in pieces cut at these offsets
	Expect *expect     `json:"expect,omitempty"` // nil: several / unknown defects, judged on survival and collateral only
	Tags   []string    `json:"tags,omitempty"`   // coverage labels computed by the generator (counted as streams_with_<tag>)
	Desc   string      `json:"desc"`
}

func cfgOpts(c sessgen.Cfg) wire.Options {
	return wire.Options{AS4: c.PeerAS4 || c.BigPeer, AddPathIPv4: c.AddPathV4(), AddPathIPv6: c.AddPathV6()}
}

// expectedTypes: message types the RFC 4271 FSM takes in a state without an FSM error.
func expectedType(cut string, typ uint8) bool {
	switch cut {
	case sess2.CutOpenSent:
		return typ == wire.TypeOpen || typ == wire.TypeNotification
	case sess2.CutOpenConfirm:
		return typ == wire.TypeKeepalive || typ == wire.TypeNotification
	}
	return typ == wire.TypeUpdate || typ == wire.TypeKeepalive || typ == wire.TypeNotification
}

// allow builds the allowed set: the §6 code/subcodes of the class; code 5 (FSM error) in addition where
// §8.2.2 reads that way (Established answers events 20-22 with an FSM error; a message of a type the
// state does not take is an FSM error whatever else is wrong with it).
func allow(cut string, typ uint8, typed bool, code int, subs ...int) [][2]int {
	var out [][2]int
	for _, s := range subs {
		out = append(out, [2]int{code, s})
	}
	if cut == sess2.CutEstablished && code != 3 {
		out = append(out, [2]int{5, -1})
	} else if typed && !expectedType(cut, typ) {
		out = append(out, [2]int{5, -1})
	}
	return out
}

func rawHeader(typ uint8, length int, body []byte) []byte {
	b := make([]byte, 19, 19+len(body))
	for i := 0; i < 16; i++ {
		b[i] = 0xff
	}
	binary.BigEndian.PutUint16(b[16:], uint16(length))
	b[18] = typ
	return append(b, body...)
}

// ---------------------------------------------------------------------------------------------
// valid material

type genCtx struct {
	rng    *rand.Rand
	nh     uint32
	corpus []wiregen.Item
}

func (g *genCtx) nextNH() uint32 { g.nh++; return 0x100 + g.nh%0x3000 }

// simpleCfgs are the session configurations of the attacked peer.
var simpleCfgs = []sessgen.Cfg{
	{V4: true, PeerAS4: true},
	{EBGP: true, V4: true, PeerAS4: true},
	{EBGP: true, V4: true},
	{V4: true, V6: true, PeerAS4: true},
	{EBGP: true, V4: true, V6: true, V4MP: true, PeerAS4: true, RecvV4: true, OfferV4: true},
	{EBGP: true, V4: true, V6: true, PeerAS4: true, BigPeer: true, RecvV6: true, OfferV6: true},
}

func (g *genCtx) cfg() sessgen.Cfg { return simpleCfgs[g.rng.IntN(len(simpleCfgs))] }

func (g *genCtx) prefixes(c sessgen.Cfg, n int) []sessgen.NL {
	var out []sessgen.NL
	for i := 0; i < n; i++ {
		p := wire.V4(100, 64+byte(g.rng.IntN(32)), byte(g.rng.IntN(256)), 0, 24)
		x := sessgen.NL{P: speaker.NLRIToP(p)}
		if c.AddPathV4() {
			x.ID = uint32(1 + g.rng.IntN(9))
		}
		out = append(out, x)
	}
	return out
}

// validUpdate draws a valid classic IPv4 UPDATE for session c (all of ORIGIN, AS_PATH, NEXT_HOP, MED and COMMUNITIES present).
func (g *genCtx) validUpdate(c sessgen.Cfg) sessgen.UpdSpec {
	u := sessgen.UpdSpec{Ann: g.prefixes(c, 1+g.rng.IntN(3)), Attr: sessgen.RandAttrs(g.rng, c, g.nextNH())}
	if u.Attr.MED == nil {
		v := uint32(g.rng.IntN(1000))
		u.Attr.MED = &v
	}
	if len(u.Attr.Seq) == 0 {
		u.Attr.Seq = []uint32{64600}
		if c.EBGP {
			u.Attr.Seq = []uint32{c.PeerAS()}
		}
	}
	u.Attr.Set, u.Attr.Unknown = nil, nil
	return u
}

func (g *genCtx) validUpdateBytes(c sessgen.Cfg) []byte {
	w, _ := g.validUpdate(c).Build(cfgOpts(c))
	b, _ := w.Encode(cfgOpts(c))
	return b
}

// validOf returns a valid message of the given type for session c.
func (g *genCtx) validOf(c sessgen.Cfg, typ uint8) []byte {
	switch typ {
	case wire.TypeOpen:
		return c.Open().Encode()
	case wire.TypeUpdate:
		return g.validUpdateBytes(c)
	case wire.TypeNotification:
		return (&wire.Notification{Code: 6, Subcode: 0}).Encode()
	}
	return wire.Keepalive()
}

func (g *genCtx) prefixMsgs(c sessgen.Cfg, cut string) []string {
	if cut != sess2.CutEstablished {
		return nil
	}
	var out []string
	for k := g.rng.IntN(3); k > 0; k-- {
		if g.rng.IntN(3) == 0 {
			out = append(out, hex.EncodeToString(wire.Keepalive()))
		} else {
			out = append(out, hex.EncodeToString(g.validUpdateBytes(c)))
		}
	}
	return out
}

func (g *genCtx) chunks(n int) []int {
	if n < 2 || g.rng.IntN(3) != 0 {
		return nil
	}
	var out []int
	for k := 1 + g.rng.IntN(3); k > 0; k-- {
		out = append(out, 1+g.rng.IntN(n-1))
	}
	return out
}

func (g *genCtx) mk(gen, cut string, c sessgen.Cfg, tail []byte, e *expect, desc string) ccase {
	return ccase{Gen: gen, Cut: cut, Cfg: c, Prefix: g.prefixMsgs(c, cut), Tail: hex.EncodeToString(tail), Chunks: g.chunks(len(tail)), Expect: e, Desc: desc}
}

// ---------------------------------------------------------------------------------------------
// header defects

var bigLengths = []int{4097, 4098, 4099, 4100, 5000, 8191, 8192, 16383, 16384, 32767, 32768, 40000, 65534, 65535}

func (g *genCtx) headerCases(thorough bool) []ccase {
	var out []ccase
	types := []uint8{wire.TypeOpen, wire.TypeUpdate, wire.TypeNotification, wire.TypeKeepalive}
	// every length 0…18 and the 4097…65535 boundaries, for every message type, at every cut
	var lens []int
	for l := 0; l <= 18; l++ {
		lens = append(lens, l)
	}
	lens = append(lens, bigLengths...)
	if thorough {
		for k := 0; k < 200; k++ {
			lens = append(lens, 4097+g.rng.IntN(65535-4097+1))
		}
	}
	for _, cut := range sess2.Cuts {
		for ti, typ := range types {
			for li, l := range lens {
				if !thorough && li%len(types) != ti {
					continue // quick: every length at every cut, the message type rotates
				}
				c := g.cfg()
				m := append([]byte(nil), g.validOf(c, typ)...)
				binary.BigEndian.PutUint16(m[16:], uint16(l))
				if g.rng.IntN(2) == 0 {
					m = m[:19] // header only
				}
				e := &expect{Family: "header", Class: "length-out-of-range", Allowed: allow(cut, typ, false, 1, 2)}
				out = append(out, g.mk("hdr-length", cut, c, m, e, fmt.Sprintf("type %d with header length %d", typ, l)))
			}
		}
	}
	// lengths inside 19…4096 that the message type rules out (RFC 4271 §6.1)
	type tl struct {
		typ uint8
		l   int
	}
	var tls []tl
	for _, l := range []int{20, 21, 23, 29, 100, 4096} {
		tls = append(tls, tl{wire.TypeKeepalive, l})
	}
	for l := 19; l < 29; l++ {
		tls = append(tls, tl{wire.TypeOpen, l})
	}
	for l := 19; l < 23; l++ {
		tls = append(tls, tl{wire.TypeUpdate, l})
	}
	for l := 19; l < 21; l++ {
		tls = append(tls, tl{wire.TypeNotification, l})
	}
	for _, cut := range sess2.Cuts {
		for _, x := range tls {
			c := g.cfg()
			v := g.validOf(c, x.typ)
			body := make([]byte, x.l-19)
			copy(body, v[19:])
			e := &expect{Family: "header", Class: "length-for-type", Allowed: allow(cut, x.typ, true, 1, 2)}
			out = append(out, g.mk("hdr-length-for-type", cut, c, rawHeader(x.typ, x.l, body), e, fmt.Sprintf("type %d with header length %d", x.typ, x.l)))
		}
	}
	// marker
	for _, cut := range sess2.Cuts {
		for pos := 0; pos < 16; pos++ {
			c := g.cfg()
			typ := types[g.rng.IntN(len(types))]
			m := append([]byte(nil), g.validOf(c, typ)...)
			m[pos] = []byte{0, 0x7f, 0xfe, byte(g.rng.IntN(255))}[g.rng.IntN(4)]
			e := &expect{Family: "header", Class: "marker", Allowed: allow(cut, typ, false, 1, 1)}
			out = append(out, g.mk("hdr-marker", cut, c, m, e, fmt.Sprintf("type %d, marker byte %d = %#x", typ, pos, m[pos])))
		}
		// plain garbage of at least one header's size
		for k := 0; k < 8; k++ {
			c := g.cfg()
			m := make([]byte, 19+g.rng.IntN(80))
			for i := range m {
				m[i] = byte(g.rng.IntN(256))
			}
			m[g.rng.IntN(16)] = byte(g.rng.IntN(255))
			// the length field frames exactly these bytes: bio-rd reads a whole "message" before it looks at the marker
			binary.BigEndian.PutUint16(m[16:], uint16(len(m)))
			e := &expect{Family: "header", Class: "marker", Allowed: allow(cut, 0, false, 1, 1)}
			out = append(out, g.mk("garbage", cut, c, m, e, fmt.Sprintf("%d random bytes", len(m))))
		}
	}
	// type
	for _, cut := range sess2.Cuts {
		for _, typ := range []uint8{0, 6, 7, 100, 255} {
			c := g.cfg()
			e := &expect{Family: "header", Class: "type", Allowed: allow(cut, typ, false, 1, 3)}
			out = append(out, g.mk("hdr-type", cut, c, rawHeader(typ, 19, nil), e, fmt.Sprintf("message type %d", typ)))
		}
		// ROUTE-REFRESH although the capability was not advertised: not judged on the NOTIFICATION
		c := g.cfg()
		out = append(out, g.mk("route-refresh", cut, c, wire.Frame(wire.TypeRouteRefresh, []byte{0, 1, 0, 1}), nil, "ROUTE-REFRESH"))
	}
	return out
}

// ---------------------------------------------------------------------------------------------
// OPEN defects

func (g *genCtx) openCases() []ccase {
	var out []ccase
	for _, cut := range sess2.Cuts {
		add := func(class string, sub int, desc string, f func(o *wire.Open, c sessgen.Cfg)) {
			c := g.cfg()
			o := c.Open()
			f(o, c)
			e := &expect{Family: "open", Class: class, Allowed: allow(cut, wire.TypeOpen, true, 2, sub)}
			out = append(out, g.mk("open-"+class, cut, c, o.Encode(), e, desc))
		}
		for _, v := range []uint8{0, 1, 3, 5, 255} {
			v := v
			add("version", 1, fmt.Sprintf("OPEN version %d", v), func(o *wire.Open, c sessgen.Cfg) { o.Version = v })
		}
		for k := 0; k < 3; k++ {
			add("identifier-zero", 3, "OPEN identifier 0", func(o *wire.Open, c sessgen.Cfg) { o.ID = 0 })
		}
		for _, h := range []uint16{1, 2} {
			h := h
			add("hold-time", 6, fmt.Sprintf("OPEN hold time %d", h), func(o *wire.Open, c sessgen.Cfg) { o.HoldTime = h })
		}
		for k := 0; k < 2; k++ {
			add("peer-as", 2, "OPEN with AS 64999", func(o *wire.Open, c sessgen.Cfg) {
				o.AS = 64999
				for i := range o.Caps {
					if o.Caps[i].Code == wire.CapCodeAS4 {
						o.Caps[i] = wire.CapAS4(64999)
					}
				}
			})
		}
	}
	return out
}

// openTwoFaultCases: OPEN messages that are wrong in TWO places at once: a fixed field the decoder itself validates
// (unsupported version, identifier 0) AND optional parameters that cannot be decoded (a parameter type other than
// Capabilities, e.g. the Authentication Information of RFC 1771 speakers; a known capability whose value size its
// definition rules out; a 4-octet AS capability of two bytes at the end of the message). Whatever fault the speaker names,
// the message is malformed: an OPEN Message Error NOTIFICATION (any subcode) and a closed connection are due.
func (g *genCtx) openTwoFaultCases() []ccase {
	var out []ccase
	type fixed struct {
		name string
		f    func(o *wire.Open)
	}
	var fixeds []fixed
	for _, v := range []uint8{0, 3, 5, 255} {
		v := v
		fixeds = append(fixeds, fixed{fmt.Sprintf("version %d", v), func(o *wire.Open) { o.Version = v }})
	}
	fixeds = append(fixeds, fixed{"identifier 0", func(o *wire.Open) { o.ID = 0 }})
	type opt struct {
		name string
		f    func(o *wire.Open)
	}
	badSize := func(code uint8, n int) opt {
		return opt{fmt.Sprintf("capability %d with a value of %d bytes", code, n), func(o *wire.Open) {
			o.Caps = append(without(o.Caps, code), wire.Capability{Code: code, Value: make([]byte, n)})
		}}
	}
	opts := []opt{
		{"optional parameter type 1 (authentication information)", func(o *wire.Open) {
			o.OtherParams = append(o.OtherParams, wire.OptParam{Type: 1, Value: []byte{0, 1, 2, 3}})
		}},
		{"the only optional parameter has type 1", func(o *wire.Open) {
			o.Caps, o.OtherParams = nil, []wire.OptParam{{Type: 1, Value: []byte{0}}}
		}},
		{"optional parameter type 255", func(o *wire.Open) { o.OtherParams = append(o.OtherParams, wire.OptParam{Type: 255}) }},
		badSize(wire.CapCodeAddPath, 3), badSize(wire.CapCodeAddPath, 5), badSize(wire.CapCodeExtNextHop, 5),
		{"4-octet AS capability with a value of 2 bytes as the last capability", func(o *wire.Open) {
			o.Caps = append(o.Caps, wire.Capability{Code: wire.CapCodeAS4, Value: []byte{0, 0}}) // two of the four bytes
		}},
	}
	for _, cut := range sess2.Cuts {
		for _, fx := range fixeds {
			for _, op := range opts {
				c := g.cfg()
				o := c.Open()
				fx.f(o)
				op.f(o)
				if g.rng.IntN(4) == 0 {
					o.CapsPerParam = true
				}
				e := &expect{Family: "open", Class: "two-faults", Allowed: allow(cut, wire.TypeOpen, true, 2, -1)}
				cc := g.mk("open-two-faults", cut, c, o.Encode(), e, "OPEN with "+fx.name+" and "+op.name)
				cc.Tags = []string{"open_two_faults"}
				out = append(out, cc)
			}
		}
	}
	return out
}

// ---------------------------------------------------------------------------------------------
// OPEN capability space (judged on survival, collateral and reconnect only: RFC 5492 lets a speaker
// ignore capabilities it does not know or has not configured)

// singleFamilyCfgs / dualFamilyCfgs partition simpleCfgs by the number of address families configured
// on the attacked peer.
func splitCfgs() (single, dual []sessgen.Cfg) {
	for _, c := range simpleCfgs {
		if c.V4 && c.V6 {
			dual = append(dual, c)
		} else {
			single = append(single, c)
		}
	}
	return
}

func configured(c sessgen.Cfg, f wire.Family) bool {
	return (f == wire.IPv4Unicast && c.V4) || (f == wire.IPv6Unicast && c.V6)
}

// openWith is the peer's own valid OPEN with its capabilities replaced by what edit returns.
func openWith(c sessgen.Cfg, edit func(caps []wire.Capability) []wire.Capability) *wire.Open {
	o := c.Open()
	o.Caps = edit(o.Caps)
	return o
}

func without(caps []wire.Capability, code uint8) []wire.Capability {
	var out []wire.Capability
	for _, x := range caps {
		if x.Code != code {
			out = append(out, x)
		}
	}
	return out
}

// openCapCases: OPEN messages that are valid in every fixed field (version, AS, hold time, identifier) and
// differ in their capabilities, delivered to a session in OpenSent. A part of them is followed by the
// KEEPALIVE and a classic UPDATE of a peer that believes the session came up (what was negotiated from the
// capabilities is then used in OpenConfirm / Established).
func (g *genCtx) openCapCases(thorough bool) []ccase {
	var out []ccase
	single, dual := splitCfgs()
	emit := func(gen string, c sessgen.Cfg, o *wire.Open, tags []string, desc string) {
		if g.rng.IntN(4) == 0 {
			o.CapsPerParam = !o.CapsPerParam
		}
		tail := o.Encode()
		if _, err := wire.DecodeOpen(tail[wire.HeaderLen:]); err != nil || len(tail)-wire.HeaderLen-10 > 255 {
			return // the optional parameters do not fit their one-octet length
		}
		if g.rng.IntN(2) == 0 {
			// the conversation goes on: KEEPALIVE, then an UPDATE encoded the way the peer's own OPEN implies
			c2 := c
			for _, t := range o.AddPath() {
				if t.Family == wire.IPv4Unicast {
					c2.OfferV4 = t.Mode == 2 || t.Mode == 3
				}
			}
			tail = append(tail, wire.Keepalive()...)
			tail = append(tail, g.validUpdateBytes(c2)...)
			desc += ", then KEEPALIVE and a classic UPDATE"
			tags = append(tags, "open_caps_followed_by_keepalive_update")
		}
		cc := g.mk(gen, sess2.CutOpenSent, c, tail, nil, desc)
		cc.Tags = append([]string{"open_caps"}, tags...)
		out = append(out, cc)
	}
	// every peer kind: one single-family peer and one dual-family peer per point (thorough: every configuration)
	peers := func() []sessgen.Cfg {
		if thorough {
			return simpleCfgs
		}
		return []sessgen.Cfg{single[g.rng.IntN(len(single))], dual[g.rng.IntN(len(dual))]}
	}
	afis := []uint16{1, 2, 0, 3, 25, 16388, 65535}
	safis := []uint8{1, 2, 4, 128, 0, 255}
	modes := []uint8{0, 1, 2, 3, 4, 255}
	if !thorough {
		afis, safis, modes = []uint16{1, 2, 0, 25, 65535}, []uint8{1, 2, 128}, []uint8{0, 1, 2, 3, 4}
	}
	famTags := func(prefix string, c sessgen.Cfg, f wire.Family) []string {
		known := f == wire.IPv4Unicast || f == wire.IPv6Unicast
		var t []string
		switch {
		case configured(c, f):
			t = append(t, prefix+"_configured_family")
		case known:
			t = append(t, prefix+"_unconfigured_family")
		case f.SAFI == 1:
			t = append(t, prefix+"_unknown_afi_unicast")
		default:
			t = append(t, prefix+"_other_safi")
		}
		if !(c.V4 && c.V6) && !configured(c, f) && f.SAFI == 1 {
			t = append(t, prefix+"_unicast_family_absent_on_single_family_peer")
		}
		return t
	}
	// (1) ADD-PATH (capability 69): one tuple over AFI × SAFI × send/receive
	for _, afi := range afis {
		for _, safi := range safis {
			for _, mode := range modes {
				for _, c := range peers() {
					f := wire.Family{AFI: afi, SAFI: safi}
					tp := wire.AddPathTuple{Family: f, Mode: mode}
					var o *wire.Open
					how := "alone"
					switch g.rng.IntN(3) {
					case 0: // the only ADD-PATH tuple
						o = openWith(c, func(caps []wire.Capability) []wire.Capability {
							return append(without(caps, wire.CapCodeAddPath), wire.CapAddPath(tp))
						})
					case 1: // behind / in front of the tuples of the configured families
						how = "next to the tuples of the peer's own families"
						o = openWith(c, func(caps []wire.Capability) []wire.Capability {
							ts := []wire.AddPathTuple{{Family: wire.IPv4Unicast, Mode: 3}, tp}
							if c.V6 {
								ts = append(ts, wire.AddPathTuple{Family: wire.IPv6Unicast, Mode: uint8(1 + g.rng.IntN(3))})
							}
							g.rng.Shuffle(len(ts), func(i, j int) { ts[i], ts[j] = ts[j], ts[i] })
							return append(without(caps, wire.CapCodeAddPath), wire.CapAddPath(ts...))
						})
					default: // with the multiprotocol capability of the same family in front
						how = "with the multiprotocol capability of that family"
						o = openWith(c, func(caps []wire.Capability) []wire.Capability {
							return append(append(without(caps, wire.CapCodeAddPath), wire.CapMP(f)), wire.CapAddPath(tp))
						})
					}
					emit("open-caps-addpath", c, o, famTags("open_addpath_tuple", c, f),
						fmt.Sprintf("valid OPEN whose ADD-PATH capability has the tuple afi %d safi %d send/receive %d %s (peer families: v4=%v v6=%v)", afi, safi, mode, how, c.V4, c.V6))
				}
			}
		}
	}
	// (2) multiprotocol (capability 1) and extended next hop (capability 5) over AFI × SAFI
	for _, afi := range afis {
		for _, safi := range safis {
			for _, c := range peers() {
				f := wire.Family{AFI: afi, SAFI: safi}
				o := openWith(c, func(caps []wire.Capability) []wire.Capability { return append(caps, wire.CapMP(f)) })
				if g.rng.IntN(3) == 0 { // the only multiprotocol capability
					o = openWith(c, func(caps []wire.Capability) []wire.Capability {
						return append(without(caps, wire.CapCodeMP), wire.CapMP(f))
					})
				}
				emit("open-caps-mp", c, o, famTags("open_mp_capability", c, f), fmt.Sprintf("valid OPEN with the multiprotocol capability afi %d safi %d (peer families: v4=%v v6=%v)", afi, safi, c.V4, c.V6))
				nhafi := []uint16{1, 2, 0, 25}[g.rng.IntN(4)]
				o = openWith(c, func(caps []wire.Capability) []wire.Capability {
					return append(caps, wire.CapExtNextHop(wire.ExtNextHopTuple{AFI: afi, SAFI: uint16(safi), NextHopAFI: nhafi}))
				})
				emit("open-caps-extnh", c, o, famTags("open_extnh_tuple", c, f), fmt.Sprintf("valid OPEN with the extended next hop tuple afi %d safi %d next hop afi %d (peer families: v4=%v v6=%v)", afi, safi, nhafi, c.V4, c.V6))
			}
		}
	}
	// (3) the other capabilities: roles, 4-octet AS numbers, route refresh, unknown codes, repetitions, none at all
	for _, c := range simpleCfgs {
		for _, role := range []uint8{0, 1, 2, 3, 4, 5, 255} {
			role := role
			emit("open-caps-other", c, openWith(c, func(caps []wire.Capability) []wire.Capability { return append(caps, wire.CapRole(role)) }), []string{"open_role_capability"}, fmt.Sprintf("valid OPEN with role capability %d", role))
		}
		emit("open-caps-other", c, openWith(c, func(caps []wire.Capability) []wire.Capability { return append(caps, wire.CapRole(0), wire.CapRole(3)) }), []string{"open_capability_twice"}, "valid OPEN with two different role capabilities")
		emit("open-caps-other", c, openWith(c, func(caps []wire.Capability) []wire.Capability { return nil }), []string{"open_no_capabilities"}, "valid OPEN without any capability")
		emit("open-caps-other", c, openWith(c, func(caps []wire.Capability) []wire.Capability { return append(caps, caps...) }), []string{"open_capability_twice"}, "valid OPEN with every capability twice")
		emit("open-caps-other", c, openWith(c, func(caps []wire.Capability) []wire.Capability {
			return append(caps, wire.CapAddPath(wire.AddPathTuple{Family: wire.IPv4Unicast, Mode: 1}), wire.CapAddPath(wire.AddPathTuple{Family: wire.IPv4Unicast, Mode: 2}), wire.CapAddPath())
		}), []string{"open_capability_twice"}, "valid OPEN with three more ADD-PATH capabilities (receive, send, empty)")
		emit("open-caps-other", c, openWith(c, func(caps []wire.Capability) []wire.Capability {
			return append(without(caps, wire.CapCodeAS4), wire.CapAS4(c.PeerAS()), wire.CapAS4(c.PeerAS()))
		}), []string{"open_capability_twice"}, "valid OPEN with the 4-octet AS capability twice")
		emit("open-caps-other", c, openWith(c, func(caps []wire.Capability) []wire.Capability {
			return append(caps, wire.CapRouteRefresh(), wire.Capability{Code: 70}, wire.Capability{Code: 128})
		}), []string{"open_unknown_capability"}, "valid OPEN with route refresh capabilities (2, 70, 128)")
		for k := 0; k < 4; k++ {
			code := uint8(g.rng.IntN(256))
			for code == wire.CapCodeMP || code == wire.CapCodeAS4 || code == wire.CapCodeAddPath || code == wire.CapCodeRole || code == wire.CapCodeExtNextHop {
				code = uint8(g.rng.IntN(256))
			}
			v := make([]byte, g.rng.IntN(12))
			for i := range v {
				v[i] = byte(g.rng.IntN(256))
			}
			front := g.rng.IntN(2) == 0
			emit("open-caps-other", c, openWith(c, func(caps []wire.Capability) []wire.Capability {
				if front {
					return append([]wire.Capability{{Code: code, Value: v}}, caps...)
				}
				return append(caps, wire.Capability{Code: code, Value: v})
			}), []string{"open_unknown_capability"}, fmt.Sprintf("valid OPEN with the unknown capability %d of %d bytes", code, len(v)))
		}
		// a capability bio-rd knows, with a value size its definition rules out (the TLV itself is consistent)
		for _, x := range []struct {
			code uint8
			lens []int
		}{{wire.CapCodeMP, []int{0, 3, 5, 8}}, {wire.CapCodeAS4, []int{0, 2, 5, 8}}, {wire.CapCodeAddPath, []int{1, 3, 5, 7}}, {wire.CapCodeRole, []int{0, 2}}, {wire.CapCodeExtNextHop, []int{1, 5, 7}}} {
			for _, l := range x.lens {
				v := make([]byte, l)
				for i := range v {
					v[i] = []byte{0, 1, 2, 3}[g.rng.IntN(4)]
				}
				code, last := x.code, g.rng.IntN(2) == 0
				emit("open-caps-size", c, openWith(c, func(caps []wire.Capability) []wire.Capability {
					if last {
						return append(without(caps, code), wire.Capability{Code: code, Value: v})
					}
					return append([]wire.Capability{{Code: code, Value: v}}, without(caps, code)...)
				}), []string{"open_capability_with_wrong_value_size"}, fmt.Sprintf("OPEN whose capability %d has a value of %d bytes (last capability: %v)", code, l, last))
			}
		}
	}
	return out
}

// ---------------------------------------------------------------------------------------------
// UPDATE defects (exactly one each; classic IPv4 fields only: RFC 4760 §7 lets a speaker ignore a
// damaged multiprotocol attribute without a NOTIFICATION)

type ub struct {
	opts  wire.Options
	wd    []wire.NLRI
	attrs []wire.Attr
	nlri  []wire.NLRI
	post  func(body []byte) []byte
}

func (b *ub) body() []byte {
	u := &wire.Update{Withdrawn: b.wd, Attrs: b.attrs, NLRI: b.nlri}
	out := u.EncodeBody(b.opts)
	if b.post != nil {
		out = b.post(out)
	}
	return out
}

func (b *ub) attr(t uint8) *wire.Attr {
	for i := range b.attrs {
		if b.attrs[i].Type == t {
			return &b.attrs[i]
		}
	}
	return nil
}

func (b *ub) drop(t uint8) {
	var out []wire.Attr
	for _, a := range b.attrs {
		if a.Type != t {
			out = append(out, a)
		}
	}
	b.attrs = out
}

type updDefect struct {
	name  string
	class wire.Class // "" = not a class of the classifier (checked by hand below)
	subs  []int
	ok    func(b *ub) bool
	do    func(b *ub, rng *rand.Rand)
}

func resizeTo(t uint8, n int) func(b *ub, rng *rand.Rand) {
	return func(b *ub, rng *rand.Rand) {
		a := b.attr(t)
		v := append([]byte(nil), a.Value...)
		for len(v) < n {
			v = append(v, byte(1+rng.IntN(200)))
		}
		a.Value = v[:n]
	}
}

func has(t uint8) func(b *ub) bool { return func(b *ub) bool { return b.attr(t) != nil } }

func updDefects() []updDefect {
	always := func(*ub) bool { return true }
	return []updDefect{
		{"withdrawn-length-overrun", wire.ClassLengthSum, []int{1}, always, func(b *ub, rng *rand.Rand) {
			b.post = func(body []byte) []byte {
				binary.BigEndian.PutUint16(body, uint16(len(body)-1+rng.IntN(40)))
				return body
			}
		}},
		{"attribute-length-overrun", wire.ClassLengthSum, []int{1}, always, func(b *ub, rng *rand.Rand) {
			b.post = func(body []byte) []byte {
				wl := int(binary.BigEndian.Uint16(body))
				binary.BigEndian.PutUint16(body[2+wl:], uint16(len(body)-4-wl+1+rng.IntN(40)))
				return body
			}
		}},
		{"origin-length-2", wire.ClassAttrLength, []int{5}, has(wire.AttrOrigin), resizeTo(wire.AttrOrigin, 2)},
		{"origin-length-0", wire.ClassAttrLength, []int{5}, has(wire.AttrOrigin), resizeTo(wire.AttrOrigin, 0)},
		{"next-hop-length-5", wire.ClassAttrLength, []int{5}, has(wire.AttrNextHop), resizeTo(wire.AttrNextHop, 5)},
		{"next-hop-length-3", wire.ClassAttrLength, []int{5}, has(wire.AttrNextHop), resizeTo(wire.AttrNextHop, 3)},
		{"next-hop-length-16", wire.ClassAttrLength, []int{5}, has(wire.AttrNextHop), resizeTo(wire.AttrNextHop, 16)},
		{"med-length-3", wire.ClassAttrLength, []int{5, 9}, has(wire.AttrMED), resizeTo(wire.AttrMED, 3)},
		{"med-length-5", wire.ClassAttrLength, []int{5, 9}, has(wire.AttrMED), resizeTo(wire.AttrMED, 5)},
		{"local-pref-length-3", wire.ClassAttrLength, []int{5}, has(wire.AttrLocalPref), resizeTo(wire.AttrLocalPref, 3)},
		{"local-pref-length-8", wire.ClassAttrLength, []int{5}, has(wire.AttrLocalPref), resizeTo(wire.AttrLocalPref, 8)},
		{"atomic-aggregate-length-1", wire.ClassAttrLength, []int{5}, has(wire.AttrAtomicAggregate), resizeTo(wire.AttrAtomicAggregate, 1)},
		{"originator-id-length-3", wire.ClassAttrLength, []int{5, 9}, has(wire.AttrOriginatorID), resizeTo(wire.AttrOriginatorID, 3)},
		{"communities-length-5", wire.ClassAttrLength, []int{5, 9}, has(wire.AttrCommunities), resizeTo(wire.AttrCommunities, 5)},
		{"as-path-count-beyond-value", wire.ClassAttrLength, []int{11, 5}, func(b *ub) bool { a := b.attr(wire.AttrASPath); return a != nil && len(a.Value) >= 2 },
			func(b *ub, rng *rand.Rand) {
				a := b.attr(wire.AttrASPath)
				v := append([]byte(nil), a.Value...)
				v[1] += byte(1 + rng.IntN(3))
				a.Value = v
			}},
		{"nlri-prefix-length-33", wire.ClassPrefixLen, []int{10}, always, func(b *ub, rng *rand.Rand) {
			i := rng.IntN(len(b.nlri))
			n := b.nlri[i]
			l := []int{33, 40, 64, 128, 255}[rng.IntN(5)]
			addr := make([]byte, (l+7)/8)
			copy(addr, n.Addr)
			n.Len, n.Addr = uint8(l), addr
			b.nlri[i] = n
		}},
		{"nlri-truncated", wire.ClassNLRITiling, []int{10, 1}, always, func(b *ub, rng *rand.Rand) {
			n := &b.nlri[len(b.nlri)-1]
			n.Addr = n.Addr[:len(n.Addr)-1]
		}},
		{"missing-origin", wire.ClassMissingMandatory, []int{3}, always, func(b *ub, rng *rand.Rand) { b.drop(wire.AttrOrigin) }},
		{"missing-as-path", wire.ClassMissingMandatory, []int{3}, always, func(b *ub, rng *rand.Rand) { b.drop(wire.AttrASPath) }},
		{"missing-next-hop", wire.ClassMissingMandatory, []int{3}, always, func(b *ub, rng *rand.Rand) { b.drop(wire.AttrNextHop) }},
		// §6.3 defects outside the classifier's five classes
		{"origin-value-3", "", []int{6}, always, func(b *ub, rng *rand.Rand) { b.attr(wire.AttrOrigin).Value = []byte{byte(3 + rng.IntN(250))} }},
		{"as-path-segment-type", "", []int{11}, func(b *ub) bool { a := b.attr(wire.AttrASPath); return a != nil && len(a.Value) >= 2 },
			func(b *ub, rng *rand.Rand) {
				a := b.attr(wire.AttrASPath)
				v := append([]byte(nil), a.Value...)
				v[0] = []byte{0, 5, 9, 255}[rng.IntN(4)]
				a.Value = v
			}},
		{"well-known-attribute-flagged-optional", "", []int{4}, always, func(b *ub, rng *rand.Rand) {
			t := []uint8{wire.AttrOrigin, wire.AttrASPath, wire.AttrNextHop}[rng.IntN(3)]
			b.attr(t).Flags = wire.FlagOptional | wire.FlagTransitive
		}},
		{"well-known-attribute-not-transitive", "", []int{4}, always, func(b *ub, rng *rand.Rand) {
			t := []uint8{wire.AttrOrigin, wire.AttrASPath, wire.AttrNextHop}[rng.IntN(3)]
			b.attr(t).Flags = 0
		}},
		{"unrecognized-well-known-attribute", "", []int{2}, always, func(b *ub, rng *rand.Rand) {
			b.attrs = append(b.attrs, wire.Attr{Flags: wire.FlagTransitive, Type: uint8(70 + rng.IntN(20)), Value: []byte{1, 2}})
		}},
		{"attribute-twice", "", []int{1}, always, func(b *ub, rng *rand.Rand) {
			t := []uint8{wire.AttrOrigin, wire.AttrNextHop, wire.AttrMED}[rng.IntN(3)]
			b.attrs = append(b.attrs, *b.attr(t))
		}},
	}
}

func sameClasses(got []wire.Class, want wire.Class) bool {
	if want == "" {
		return len(got) == 0
	}
	return len(got) == 1 && got[0] == want
}

func (g *genCtx) updateCases(perDefect int) []ccase {
	var out []ccase
	for _, d := range updDefects() {
		made := 0
		for try := 0; made < perDefect && try < perDefect*40; try++ {
			c := g.cfg()
			opts := cfgOpts(c)
			spec := g.validUpdate(c)
			if d.name == "atomic-aggregate-length-1" {
				spec.Attr.Atomic = true
			}
			if d.name == "originator-id-length-3" && !c.EBGP {
				o := uint32(0x0a0a0a07)
				spec.Attr.OrigID, spec.Attr.Cluster = &o, []uint32{0x01010101}
			}
			full, _ := spec.Typed()
			b := &ub{opts: opts, attrs: full.Build(opts), nlri: sessgen.NLRIs(spec.Ann)}
			// the unmutated message must be clean
			if cl := wire.ClassifyUpdate(b.body(), opts); len(cl) != 0 {
				continue
			}
			if _, err := wire.DecodeUpdate(b.body(), opts); err != nil {
				continue
			}
			if !d.ok(b) {
				continue
			}
			d.do(b, g.rng)
			body := b.body()
			if !sameClasses(wire.ClassifyUpdate(body, opts), d.class) || 19+len(body) > wire.MaxLen {
				continue
			}
			// mostly Established; every fifth case in an earlier state (where an FSM error is an answer too)
			cut := sess2.CutEstablished
			if made%5 == 4 {
				cut = []string{sess2.CutOpenSent, sess2.CutOpenConfirm}[g.rng.IntN(2)]
			}
			class := string(d.class)
			if class == "" {
				class = d.name
			}
			e := &expect{Family: "update", Class: class, Allowed: allow(cut, wire.TypeUpdate, true, 3, d.subs...)}
			if cut != sess2.CutEstablished {
				// before Established an UPDATE is out of place whatever its content, and nothing is negotiated yet
				// (AS number width): any UPDATE Message Error or an FSM Error is an answer
				e.Allowed = [][2]int{{3, -1}, {5, -1}}
			}
			out = append(out, g.mk("upd:"+d.name, cut, c, wire.Frame(wire.TypeUpdate, body), e, "valid "+spec.Describe()+" with "+d.name))
			made++
		}
	}
	return out
}

// ---------------------------------------------------------------------------------------------
// sweeps (several or unknown defects: survival and collateral only)

func (g *genCtx) baseAttrs(c sessgen.Cfg) []wire.Attr {
	spec := g.validUpdate(c)
	full, _ := spec.Typed()
	return full.Build(cfgOpts(c))
}

// attrSweep: a valid UPDATE plus one more attribute with type t, a flag nibble and a declared length 0…8.
func (g *genCtx) attrSweep(flagsPer int) []ccase {
	var out []ccase
	for t := 0; t < 256; t++ {
		for l := 0; l <= 8; l++ {
			perm := g.rng.Perm(16)
			for _, fn := range perm[:flagsPer] {
				c := g.cfg()
				opts := cfgOpts(c)
				v := make([]byte, l)
				for i := range v {
					v[i] = byte(g.rng.IntN(256))
				}
				attrs := g.baseAttrs(c)
				extra := wire.Attr{Flags: uint8(fn << 4), Type: uint8(t), Value: v}
				switch g.rng.IntN(3) {
				case 0:
					attrs = append([]wire.Attr{extra}, attrs...)
				case 1:
					attrs = append(attrs, extra)
				default:
					// replaces the genuine attribute of that type, if any
					var keep []wire.Attr
					for _, a := range attrs {
						if a.Type != uint8(t) {
							keep = append(keep, a)
						}
					}
					attrs = append(keep, extra)
				}
				u := &wire.Update{Attrs: attrs}
				if g.rng.IntN(4) != 0 {
					u.NLRI = sessgen.NLRIs(g.prefixes(c, 1))
				}
				cut := sess2.CutEstablished
				if g.rng.IntN(12) == 0 {
					cut = sess2.CutOpenConfirm
				}
				out = append(out, g.mk("attr-sweep", cut, c, wire.Frame(wire.TypeUpdate, u.EncodeBody(opts)), nil,
					fmt.Sprintf("attribute type %d flags %#x length %d", t, fn<<4, l)))
			}
		}
	}
	return out
}

// mpEmpty: MP_REACH_NLRI / MP_UNREACH_NLRI without NLRI, over AFI/SAFI/next-hop-length combinations.
func (g *genCtx) mpEmpty() []ccase {
	var out []ccase
	afis := []uint16{1, 2, 0, 3, 65535}
	safis := []uint8{1, 2, 4, 128, 0}
	nhls := []int{0, 4, 16, 32, 5}
	for _, afi := range afis {
		for _, safi := range safis {
			for _, nhl := range nhls {
				for variant := 0; variant < 4; variant++ {
					c := g.cfg()
					opts := cfgOpts(c)
					var attrs []wire.Attr
					if variant&1 != 0 {
						attrs = g.baseAttrs(c)
					}
					reach := []byte{byte(afi >> 8), byte(afi), safi, byte(nhl)}
					for i := 0; i < nhl; i++ {
						reach = append(reach, byte(0x20+i))
					}
					reach = append(reach, 0)
					attrs = append(attrs, wire.Attr{Flags: wire.FlagOptional, Type: wire.AttrMPReach, Value: reach})
					if g.rng.IntN(3) == 0 {
						attrs = append(attrs, wire.Attr{Flags: wire.FlagOptional, Type: wire.AttrMPUnreach, Value: []byte{byte(afi >> 8), byte(afi), safi}})
					}
					u := &wire.Update{Attrs: attrs}
					if variant&2 != 0 {
						u.NLRI = sessgen.NLRIs(g.prefixes(c, 1))
					}
					out = append(out, g.mk("mp-empty", sess2.CutEstablished, c, wire.Frame(wire.TypeUpdate, u.EncodeBody(opts)), nil,
						fmt.Sprintf("MP_REACH_NLRI afi %d safi %d next hop of %d bytes without NLRI (base attributes: %v, classic NLRI: %v)", afi, safi, nhl, variant&1 != 0, variant&2 != 0)))
				}
			}
		}
		// MP_UNREACH_NLRI alone
		for _, safi := range safis {
			c := g.cfg()
			u := &wire.Update{Attrs: []wire.Attr{{Flags: wire.FlagOptional, Type: wire.AttrMPUnreach, Value: []byte{byte(afi >> 8), byte(afi), safi}}}}
			out = append(out, g.mk("mp-empty", sess2.CutEstablished, c, wire.Frame(wire.TypeUpdate, u.EncodeBody(cfgOpts(c))), nil,
				fmt.Sprintf("MP_UNREACH_NLRI afi %d safi %d without NLRI", afi, safi)))
		}
	}
	// MP_REACH_NLRI with a complete header (IPv4 and IPv6, every next hop length bio-rd accepts, one NLRI) cut at
	// EVERY value length: the attribute's own length stays consistent, its content ends early at each byte
	for _, fam := range []struct {
		afi  uint16
		nhls []int
	}{{1, []int{4}}, {2, []int{16, 32}}} {
		for _, nhl := range fam.nhls {
			full := []byte{byte(fam.afi >> 8), byte(fam.afi), 1, byte(nhl)}
			for i := 0; i < nhl; i++ {
				full = append(full, byte(0x20+i))
			}
			full = append(full, 0, 24, 10, 1, 2) // reserved octet, one /24
			for l := 0; l < len(full); l++ {
				c := g.cfg()
				u := &wire.Update{Attrs: append(g.baseAttrs(c), wire.Attr{Flags: wire.FlagOptional, Type: wire.AttrMPReach, Value: full[:l]})}
				out = append(out, g.mk("mp-empty", sess2.CutEstablished, c, wire.Frame(wire.TypeUpdate, u.EncodeBody(cfgOpts(c))), nil,
					fmt.Sprintf("MP_REACH_NLRI afi %d announcing a next hop of %d bytes, attribute value cut after %d of %d bytes", fam.afi, nhl, l, len(full))))
			}
		}
	}
	// truncated MP attributes
	for l := 0; l < 5; l++ {
		for _, t := range []uint8{wire.AttrMPReach, wire.AttrMPUnreach} {
			c := g.cfg()
			v := []byte{0, 2, 1, 16, 0}[:l]
			u := &wire.Update{Attrs: append(g.baseAttrs(c), wire.Attr{Flags: wire.FlagOptional, Type: t, Value: v})}
			out = append(out, g.mk("mp-empty", sess2.CutEstablished, c, wire.Frame(wire.TypeUpdate, u.EncodeBody(cfgOpts(c))), nil,
				fmt.Sprintf("attribute %d of %d bytes", t, l)))
		}
	}
	return out
}

// hostBits: valid UPDATEs whose NLRI carry bits beyond the prefix length, and unusual but legal shapes.
func (g *genCtx) oddValid(n int) []ccase {
	var out []ccase
	for k := 0; k < n; k++ {
		c := g.cfg()
		opts := cfgOpts(c)
		attrs := g.baseAttrs(c)
		var ns []wire.NLRI
		for i := 0; i < 1+g.rng.IntN(3); i++ {
			l := uint8(g.rng.IntN(33))
			addr := make([]byte, (int(l)+7)/8)
			for j := range addr {
				addr[j] = byte(g.rng.IntN(256)) | 1
			}
			x := wire.NLRI{AFI: wire.AFIIPv4, Len: l, Addr: addr}
			if c.AddPathV4() {
				x.PathID = uint32(g.rng.IntN(5))
			}
			ns = append(ns, x)
		}
		u := &wire.Update{Attrs: attrs, NLRI: ns}
		if g.rng.IntN(3) == 0 {
			u.Withdrawn = ns
		}
		out = append(out, g.mk("host-bits", sess2.CutEstablished, c, wire.Frame(wire.TypeUpdate, u.EncodeBody(opts)), nil, fmt.Sprintf("NLRI with host bits set: %v", ns)))
	}
	return out
}

// splices: 1–3 mutated corpus messages.
func (g *genCtx) splices(n int) []ccase {
	var out []ccase
	for k := 0; k < n; k++ {
		c := g.cfg()
		var tail []byte
		var kinds []string
		for m := 1 + g.rng.IntN(3); m > 0; m-- {
			a := g.corpus[g.rng.IntN(len(g.corpus))]
			b := g.corpus[g.rng.IntN(len(g.corpus))]
			raw, kind := wiregen.Mutate(g.rng, a.Raw, b.Raw)
			tail = append(tail, raw...)
			kinds = append(kinds, a.Name+"/"+kind)
		}
		cut := sess2.CutEstablished
		switch g.rng.IntN(5) {
		case 0:
			cut = sess2.CutOpenSent
		case 1:
			cut = sess2.CutOpenConfirm
		}
		out = append(out, g.mk("splice", cut, c, tail, nil, fmt.Sprintf("mutated corpus messages %v", kinds)))
	}
	return out
}

// valid: control streams without any defect.
func (g *genCtx) valid(n int) []ccase {
	var out []ccase
	for k := 0; k < n; k++ {
		c := g.cfg()
		var tail []byte
		for m := 1 + g.rng.IntN(3); m > 0; m-- {
			if g.rng.IntN(3) == 0 {
				tail = append(tail, wire.Keepalive()...)
			} else {
				tail = append(tail, g.validUpdateBytes(c)...)
			}
		}
		out = append(out, g.mk("valid", sess2.CutEstablished, c, tail, nil, "valid UPDATE / KEEPALIVE messages"))
	}
	return out
}

func genCases(r *vf.Run) []ccase {
	g := &genCtx{rng: r.Rand("c21")}
	g.corpus = wiregen.Corpus(r.Rand("c21-corpus"))
	thorough := !r.Quick()
	var out []ccase
	out = append(out, g.headerCases(thorough)...)
	out = append(out, g.openCases()...)
	out = append(out, g.openTwoFaultCases()...)
	out = append(out, g.openCapCases(thorough)...)
	out = append(out, g.updateCases(r.N(20, 400))...)
	out = append(out, g.attrSweep(r.N(2, 16))...)
	out = append(out, g.mpEmpty()...)
	out = append(out, g.oddValid(r.N(100, 3000))...)
	out = append(out, g.splices(r.N(1500, 90000))...)
	out = append(out, g.valid(r.N(100, 1000))...)
	// spread the generators over the batches (a process-fatal stream costs its batch a restart)
	r.Rand("c21-order").Shuffle(len(out), func(i, j int) { out[i], out[j] = out[j], out[i] })
	return out
}
