// C21: peer input cannot crash the speaker; errors are reported with NOTIFICATION.
//
// Every case is one byte stream delivered to a session of a fresh bio-rd server that was driven
// with valid messages up to OpenSent, OpenConfirm or Established (gen.go builds the streams). A
// second peer of the same server, the canary, is Established and holds routes before the stream is
// sent. The cases run in child processes (internal/batch): the batch is on disk before the child
// starts and the child notes the index of the case it is about to run, so a process-fatal event is
// attributed to its stream and the rest of the batch continues behind it.
//
// Oracle clauses:
//
//	crash / hang     the process hosting the server died (panic in any bio-rd goroutine) or stopped
//	                 making progress while the stream was processed                        — survival
//	wedged           the attacked FSM neither finished the stream nor takes an administrative stop
//	canary-lost      the canary session is no longer Established                           ┐
//	canary-wedged    a KEEPALIVE / UPDATE on the canary session is not processed           │ collateral
//	canary-routes    the canary's routes vanished / its next UPDATE is not in the Loc-RIB  ┘
//	reconnect        a new connection of the offending peer cannot reach Established
//	notification     streams with exactly ONE defect that RFC 4271 §6 maps to a code: bio-rd did not
//	                 write a NOTIFICATION with that code and an allowed subcode, or did not close
//	                 the connection. Streams with several / unclassified defects are judged on
//	                 the other clauses only.
package main

import (
	"encoding/hex"
	"encoding/json"
	"errors"
	"flag"
	"fmt"
	"os"
	"regexp"
	"sort"
	"strconv"
	"strings"
	"time"

	"github.com/bio-routing/bio-rd/protocols/bgp/server"

	"verifharness/internal/batch"
	"verifharness/internal/sess2"
	"verifharness/internal/sessgen"
	"verifharness/internal/speaker"
	"verifharness/internal/vf"
	"verifharness/internal/wire"
)

func allowedText(a [][2]int) string {
	var out []string
	for _, x := range a {
		if x[1] < 0 {
			out = append(out, fmt.Sprintf("%d/*", x[0]))
		} else {
			out = append(out, fmt.Sprintf("%d/%d", x[0], x[1]))
		}
	}
	return strings.Join(out, " or ")
}

func isAllowed(n *wire.Notification, a [][2]int) bool {
	for _, x := range a {
		if int(n.Code) == x[0] && (x[1] < 0 || int(n.Subcode) == x[1]) {
			return true
		}
	}
	return false
}

func runCase(idx int, raw json.RawMessage) batch.Result {
	var c ccase
	if err := json.Unmarshal(raw, &c); err != nil {
		return batch.Result{Inconcl: "case does not decode: " + err.Error()}
	}
	tail, err := hex.DecodeString(c.Tail)
	if err != nil {
		return batch.Result{Inconcl: "bad hex"}
	}
	var res batch.Result
	for attempt := 0; attempt < 4; attempt++ {
		var again bool
		res, again = runOnce(c, tail, attempt)
		if !again {
			return res
		}
	}
	return batch.Result{Inconcl: "bio-rd's OpenSent/OpenConfirm timer fired before the stream was processed in 4 attempts (machine too slow)"}
}

func runOnce(c ccase, tail []byte, attempt int) (res batch.Result, again bool) {
	srv := speaker.NewServer(speaker.ServerConfig{})
	can, err := sess2.NewCanary(srv)
	if err != nil {
		if errors.Is(err, sess2.ErrStalled) {
			return res, true
		}
		res.Inconcl = err.Error()
		return
	}
	defer sess2.Teardown(can.S)
	vp, err := srv.AddPeer(c.Cfg.PeerConfig())
	if err != nil {
		res.Inconcl = "AddPeer: " + err.Error()
		return
	}
	s, err := sess2.CutAt(vp, c.Cfg.Open(), c.Cut)
	if err != nil {
		if errors.Is(err, sess2.ErrStalled) {
			return res, true
		}
		res.Inconcl = err.Error()
		return
	}
	feat := func(kv ...any) map[string]string { return vf.F(kv...) }
	where := fmt.Sprintf("stream %q (%s) at %s, session %s", c.Gen, c.Desc, c.Cut, c.Cfg.Kind())

	// valid conversation before the hostile tail
	for _, h := range c.Prefix {
		b, _ := hex.DecodeString(h)
		s.Send(b)
	}
	if len(c.Prefix) > 0 {
		if r := s.Sync(); !r.OK() || !s.Established() {
			res.Inconcl = fmt.Sprintf("the valid messages before the hostile tail ended the session (%v, NOTIFICATIONs %s)", r, sess2.NotifText(s))
			return
		}
	}
	// the hostile tail, in pieces
	cuts := append([]int(nil), c.Chunks...)
	sort.Ints(cuts)
	prev := 0
	for _, k := range append(cuts, len(tail)) {
		if k > len(tail) {
			k = len(tail)
		}
		if k > prev {
			s.Send(tail[prev:k])
			prev = k
		}
	}
	r := s.Sync()
	if !r.Idle && !r.Closed {
		// neither consumed nor closed within the watchdog: repeat once, then report
		if attempt == 0 {
			return res, true
		}
		res.Add("wedged", feat("gen", c.Gen, "cut", c.Cut), "%s: %d of %d bytes are not consumed and the connection is not closed after %v (state %s)", where, s.Conn.Pending(), len(tail), speaker.StepTimeout, s.State())
		return res, false
	}
	notifs := s.Notifications()
	closed := s.Conn.IsClosed()
	if c.Expect != nil && c.Cut != sess2.CutEstablished && sess2.HoldTimerFired(s) {
		return res, true // the one second OpenSent timer beat the stream
	}
	res.Count("streams", 1)
	res.Count("streams_at_"+c.Cut, 1)
	if c.Expect != nil && len(c.Tail) < 200 && (len(c.Tail)+len(c.Desc))%97 == 0 {
		res.Sample = map[string]any{"stream": c, "bio_rd_notifications": sess2.NotifText(s), "closed": closed}
	}
	outcome := "open"
	if closed {
		outcome = "closed:" + sess2.NotifText(s)
	}
	res.Nontrivial = append(res.Nontrivial, c.Gen+"|"+c.Cut+"|"+outcome)
	res.Seen("generators", c.Gen)
	for _, t := range c.Tags {
		res.Count("streams_with_"+t, 1)
		if t == "open_caps" {
			switch {
			case s.Established():
				res.Count("open_caps_streams_left_established", 1)
			case !closed && s.State() == "openConfirm":
				res.Count("open_caps_streams_left_openconfirm", 1)
			}
		}
	}
	if c.Gen == "valid" && s.Established() {
		res.Count("valid_streams_left_established", 1)
	}

	// (c) the NOTIFICATION of a single-defect stream
	if e := c.Expect; e != nil {
		res.Count("single_defect_streams", 1)
		res.Count("single_defect_"+e.Family, 1)
		res.Seen("single_defect_classes", e.Family+":"+e.Class)
		right := false
		for _, n := range notifs {
			if isAllowed(n, e.Allowed) {
				right = true
			}
		}
		var got string
		switch {
		case right && closed:
			res.Count("notifications_right", 1)
		case right:
			got = "right-notification-but-connection-open"
		case len(notifs) > 0:
			got = "other-notification"
		case closed:
			got = "closed-without-notification"
		default:
			got = "accepted-silently"
		}
		if got != "" {
			f := feat("family", e.Family, "class", e.Class, "got", got)
			if e.Family == "update" {
				f = feat("family", e.Family, "class", e.Class) // what bio-rd did instead is in the detail
			}
			res.Add("notification", f,
				"%s: the defect is %s/%s, RFC 4271 §6 asks for NOTIFICATION %s and a closed connection; bio-rd wrote NOTIFICATIONs [%s], connection closed: %v, state afterwards %s; stream %s",
				where, e.Family, e.Class, allowedText(e.Allowed), sess2.NotifText(s), closed, s.State(), c.Tail)
		}
	}

	// (b) collateral: the canary
	if clause, detail := can.Check(); clause != "" {
		res.Add(clause, feat("overlong_prefix_in_ipv4_loc_rib", can.OverlongInLocRIB()), "%s: %s", where, detail)
		return
	}
	res.Count("canary_checks_passed", 1)

	// (b) not wedged: the attacked FSM still takes an administrative stop, or is gone with its connection closed
	if !s.Conn.IsClosed() {
		err := s.Event(server.ManualStop, 5*time.Second)
		if !s.Conn.WaitClosed(10 * time.Second) {
			res.Add("wedged", feat("gen", c.Gen, "cut", c.Cut), "%s: after the stream the FSM (state %s) does not close its connection on ManualStop (event accepted: %v)", where, s.State(), err == nil)
			return
		}
	}
	// (b) the offending peer can come back
	s2, err := sessgen.Establish(vp, c.Cfg)
	for try := 0; err != nil && try < 3 && strings.Contains(err.Error(), "NOTIFICATION 6/"); try++ {
		// Cease: the new connection collided with the old FSM, which closes its connection before it publishes
		// its new state. That is a legitimate transient answer (RFC 4271 section 6.8); a peer retries.
		res.Count("reconnect_retries_after_cease", 1)
		time.Sleep(100 * time.Millisecond)
		s2, err = sessgen.Establish(vp, c.Cfg)
	}
	if err != nil {
		res.Add("reconnect", feat("gen", c.Gen, "cut", c.Cut), "%s: a new connection of the same peer does not reach Established afterwards: %v", where, err)
		return
	}
	res.Count("reconnects", 1)
	sess2.Teardown(s2)
	return
}

// replayOne runs one recorded stream. Which goroutine of bio-rd panics first on a stream of several
// messages depends on the schedule (receiver goroutine on the next header, FSM goroutine on the previous
// UPDATE, update sender of the canary), so a process-fatal event is reported under the site recorded in the
// replay file: the claim that is reproduced is "this stream kills the process".
func replayOne(r *vf.Run, cfg batch.Config, raw json.RawMessage) {
	recorded := ""
	if fl := flag.Lookup("replay"); fl != nil {
		if b, err := os.ReadFile(fl.Value.String()); err == nil {
			var f struct {
				Clause   string            `json:"clause"`
				Features map[string]string `json:"features"`
			}
			if json.Unmarshal(b, &f) == nil && (f.Clause == "crash" || f.Clause == "hang") {
				recorded = f.Features["where"]
			}
		}
	}
	out := batch.Run(cfg, []json.RawMessage{raw})
	for _, res := range out.Results {
		for _, f := range res.Findings {
			r.Violate(vf.Violation{Clause: f.Clause, Features: f.Features, Detail: f.Detail, Case: raw})
		}
	}
	for _, f := range out.Fatals {
		where := f.Where
		if recorded != "" {
			where = recorded
		}
		r.Violate(vf.Violation{Clause: f.Kind, Features: vf.F("where", where), Detail: fmt.Sprintf("%s (at %s in this run)\n%s", f.Panic, f.Where, f.Log), Case: raw})
	}
}

var reAt = regexp.MustCompile(` at ([^ )]+)\)$`)

// drive is batch.Drive with one difference. On a stream of several messages bio-rd's receiver goroutine
// may panic on the next header a moment after the FSM closed the connection because of the previous
// message; under load that moment can fall behind the end of the case, and the batch then reports a
// process-fatal event that none of the cases in flight reproduces. Such an event is a finding without a
// witness: it is counted, and it makes the run inconclusive only if its site is not one that this run
// also attributed to a stream (and so reports with a replayable witness anyway).
func drive(r *vf.Run, cfg batch.Config, cases []any) {
	raws := make([]json.RawMessage, len(cases))
	for i, c := range cases {
		b, err := json.Marshal(c)
		if err != nil {
			panic(err)
		}
		raws[i] = b
	}
	out := batch.Run(cfg, raws)
	sets := map[string]map[string]bool{}
	idx := make([]int, 0, len(out.Results))
	for i := range out.Results {
		idx = append(idx, i)
	}
	sort.Ints(idx)
	for _, i := range idx {
		res := out.Results[i]
		for _, f := range res.Findings {
			r.Violate(vf.Violation{Clause: f.Clause, Features: f.Features, Detail: f.Detail, Case: raws[i]})
		}
		for k, v := range res.Counts {
			r.Count(k, v)
		}
		for _, k := range res.Nontrivial {
			r.Nontrivial(k)
		}
		for k, vs := range res.Sets {
			if sets[k] == nil {
				sets[k] = map[string]bool{}
			}
			for _, v := range vs {
				sets[k][v] = true
			}
		}
		if res.Sample != nil {
			r.Sample(res.Sample)
		}
		if res.Inconcl != "" {
			r.Inconclusive(fmt.Sprintf("case %d: %s", i, res.Inconcl))
		}
	}
	// The framework keeps the first witness of a signature and replays it. Streams of a single message
	// delivered in one piece die synchronously and deterministically; with several messages the moment (and
	// under load even the case a late panic is charged to) depends on the schedule. So the single-message
	// witnesses are reported first.
	sites := map[string]bool{}
	simple := func(i int) bool {
		var c ccase
		return json.Unmarshal(raws[i], &c) == nil && c.Gen != "splice" && len(c.Prefix) == 0 && len(c.Chunks) == 0
	}
	for pass := 0; pass < 2; pass++ {
		for _, f := range out.Fatals {
			if simple(f.Index) != (pass == 0) {
				continue
			}
			sites[f.Where] = true
			r.Violate(vf.Violation{Clause: f.Kind, Features: vf.F("where", f.Where), Detail: fmt.Sprintf("%s\n%s", f.Panic, f.Log), Case: raws[f.Index]})
			r.Count("process_fatal_events", 1)
		}
	}
	for _, s := range out.Inconclusive {
		if m := reAt.FindStringSubmatch(s); m != nil && sites[m[1]] && strings.Contains(s, "crashed") {
			r.Count("process_fatal_events_without_witness", 1)
			continue
		}
		r.Inconclusive(s)
	}
	for k, m := range sets {
		var l []string
		for v := range m {
			l = append(l, v)
		}
		sort.Strings(l)
		r.Set(k, l)
	}
	r.Count("child_processes", out.Children)
}

func main() {
	if batch.IsChild() {
		batch.ChildMain(runCase)
		return
	}
	vf.Main("C21", "exploration", func(r *vf.Run) {
		r.Watchdog("wedged")
		r.Watchdog("reconnect")
		r.Rule("byte streams delivered to a session cut at OpenSent / OpenConfirm / Established (Established: after 0–2 more valid UPDATE/KEEPALIVE; a third of the streams arrives in 2–4 pieces). Single-defect streams: every header length 0…18 and the 4097…65535 boundaries × 4 message types × 3 cuts, lengths 19…4096 the type rules out, every marker byte, unknown types, random garbage; OPEN with version ≠ 4, identifier 0, hold time 1/2, wrong AS; OPEN wrong in two places at once (version 0/3/5/255 or identifier 0 x optional parameters that cannot be decoded: parameter type 1 or 255, ADD-PATH / extended-next-hop capability of a size that is no multiple of the tuple, a 2-byte 4-octet-AS capability at the end of the message; any OPEN Message Error NOTIFICATION is accepted); valid classic UPDATEs with exactly one RFC 4271 §6.3 defect (length sums, fixed attribute sizes, AS_PATH/COMMUNITIES sizes, prefix length 33+, short NLRI, missing ORIGIN/AS_PATH/NEXT_HOP, ORIGIN value, segment type, attribute flags, unrecognised well-known attribute, attribute twice) confirmed by the independent classifier. OPEN capability space at OpenSent (survival, collateral and reconnect only; half of the OPENs are followed by KEEPALIVE + a classic UPDATE so that what was negotiated is used): the peer's own valid OPEN with one ADD-PATH tuple over AFI {1,2,0,25,65535,…} × SAFI {1,2,128,…} × send/receive {0…4,…} — alone, next to the tuples of the configured families, or behind the multiprotocol capability of that family — on a single-family (IPv4 only) and on a dual-family peer, so tuples for configured, known-but-unconfigured and unknown families all occur on both; multiprotocol and extended-next-hop capabilities over the same AFI × SAFI grid; role values, no capability at all, every capability twice, several ADD-PATH / 4-octet-AS capabilities, unknown capability codes, capabilities bio-rd knows with a value size their definition rules out; one optional parameter for all or one per capability. Multi-defect streams: attribute type sweep 0…255 × declared length 0…8 × flag nibbles, MP_REACH/MP_UNREACH without NLRI over AFI/SAFI/next-hop-length, NLRI with host bits, 1–3 spliced mutants of the valid corpus, valid control streams. distinct_nontrivial = distinct (generator, cut, what bio-rd did: closed with which NOTIFICATIONs / stayed open)")
		r.Assume("a fresh server per stream: victim peer and canary peer share one bgpServer, VRF and Loc-RIB",
			"a damaged multiprotocol attribute is not judged on the NOTIFICATION (RFC 4760 §7 allows ignoring it)",
			"where RFC 4271 §8.2.2 reads as FSM error (code 5) for a message the state does not take, or for header/OPEN errors in Established, code 5 is accepted next to the §6 code",
			"an incomplete message at the end of a stream is not a defect (bio-rd may wait for the rest)")
		var cases []any
		if raw, ok := r.Replaying(); ok {
			cases = []any{raw}
		} else {
			cs := genCases(r)
			if v, err := strconv.Atoi(os.Getenv("VERIF_C21_N")); err == nil && v > 0 && v < len(cs) {
				// development aid: a deterministic sample
				step := len(cs) / v
				var sub []ccase
				for i := 0; i < len(cs); i += step {
					sub = append(sub, cs[i])
				}
				cs = sub
			}
			byGen := map[string]int{}
			for _, c := range cs {
				cases = append(cases, c)
				byGen[c.Gen]++
			}
			r.Eval(len(cs))
			r.Set("streams_by_generator", byGen)
		}
		cfg := batch.Config{Name: "c21", PerChild: 150, Workers: 1, Lanes: 8}
		if _, ok := r.Replaying(); ok {
			replayOne(r, cfg, cases[0].(json.RawMessage))
		} else {
			drive(r, cfg, cases)
		}
		if _, ok := r.Replaying(); !ok {
			r.Require("streams", int64(r.N(3000, 50000)))
			r.Require("single_defect_streams", 300)
			r.Require("canary_checks_passed", int64(r.N(2500, 40000)))
			r.Require("valid_streams_left_established", 50)
			r.Require("streams_with_open_caps", 300)
		r.Require("streams_with_open_two_faults", 90)
			r.Require("streams_with_open_addpath_tuple_unicast_family_absent_on_single_family_peer", 15)
			r.Require("streams_with_open_addpath_tuple_unconfigured_family", 3)
			r.Require("streams_with_open_addpath_tuple_unknown_afi_unicast", 10)
			r.Require("open_caps_streams_left_established", 50)
			r.Require("open_caps_streams_left_openconfirm", 50)
		}
	})
}
