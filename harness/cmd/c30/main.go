// C30: IS-IS PDU decoding is total and encoding round-trips.
// (1) totality: valid PDUs of every type mutated (length edits, truncation, splices, TLV insertion,
// type changes) and handed to packet.Decode under recover, in child processes; (2) round trip of
// PDUs built through bio-rd's own constructors the way the server builds them, against an
// independent ISO 10589 encoder and through Decode/Serialize; (3) round trip of every PDU the
// running server emits in samples of the C31, C32 and C33 workloads.
package main

import (
	"encoding/hex"
	"encoding/json"
	"fmt"
	"os"
	"path/filepath"
	"sync"
	"time"

	"verifharness/internal/gofuzz"
	"verifharness/internal/isish"
	"verifharness/internal/vf"
)

type decCase struct {
	Inputs []string `json:"inputs"`
	Muts   []string `json:"muts"`
}

type wlCase struct {
	K   string          `json:"k"`
	Raw json.RawMessage `json:"raw"`
}

func runCase(c isish.Case, out *isish.Outcome) {
	switch c.Kind {
	case "dec":
		var d decCase
		if err := json.Unmarshal(c.Raw, &d); err != nil {
			out.Inconclusive = "bad case: " + err.Error()
			return
		}
		for i, h := range d.Inputs {
			b, _ := hex.DecodeString(h)
			m := "?"
			if i < len(d.Muts) {
				m = d.Muts[i]
			}
			isish.DecodeInput(b, m, out)
		}
	case "specs":
		var d struct {
			Specs []isish.PDUSpec `json:"specs"`
		}
		if err := json.Unmarshal(c.Raw, &d); err != nil {
			out.Inconclusive = "bad case: " + err.Error()
			return
		}
		for _, s := range d.Specs {
			isish.RunSpec(s, out)
		}
	case "spec":
		var s isish.PDUSpec
		if err := json.Unmarshal(c.Raw, &s); err != nil {
			out.Inconclusive = "bad case: " + err.Error()
			return
		}
		isish.RunSpec(s, out)
	case "raw":
		var d struct {
			Hex string `json:"hex"`
			Src string `json:"src"`
		}
		json.Unmarshal(c.Raw, &d)
		b, _ := hex.DecodeString(d.Hex)
		if d.Src == "" {
			d.Src = "emitted"
		}
		isish.RoundTripWire(b, d.Src, out)
	case "wires":
		var d decCase
		if err := json.Unmarshal(c.Raw, &d); err != nil {
			out.Inconclusive = "bad case: " + err.Error()
			return
		}
		for _, h := range d.Inputs {
			b, _ := hex.DecodeString(h)
			isish.RoundTripWire(b, "wire", out)
			out.Nontrivial = append(out.Nontrivial, "wire:"+h)
		}
	case "wl":
		var w wlCase
		if err := json.Unmarshal(c.Raw, &w); err != nil {
			out.Inconclusive = "bad case: " + err.Error()
			return
		}
		var mu sync.Mutex
		seen := map[string]bool{}
		var raws [][]byte
		emit := func(s isish.Sent) {
			mu.Lock()
			if !seen[string(s.Raw)] {
				seen[string(s.Raw)] = true
				raws = append(raws, s.Raw)
			}
			mu.Unlock()
		}
		var scratch isish.Outcome // the workload's own oracles belong to C31-C33
		switch w.K {
		case "adj":
			var ac isish.AdjCase
			json.Unmarshal(w.Raw, &ac)
			isish.RunAdj(ac, &scratch, emit)
		case "lsdb":
			var lc isish.LSDBCase
			json.Unmarshal(w.Raw, &lc)
			isish.RunLSDB(lc, &scratch, emit)
		case "iface":
			var ic isish.IfaceCase
			json.Unmarshal(w.Raw, &ic)
			isish.RunIface(ic, &scratch, emit)
		case "biglsp":
			var bc isish.BigLSPCase
			json.Unmarshal(w.Raw, &bc)
			isish.RunBigLSP(bc, emit)
		}
		mu.Lock()
		rs := raws
		mu.Unlock()
		out.Count("workloads_"+w.K, 1)
		for _, b := range rs {
			isish.RoundTripEmitted(b, out)
			out.Nontrivial = append(out.Nontrivial, "emitted:"+hex.EncodeToString(b))
		}
	}
}

// fuzzBudget is the execution count of the coverage-guided stage (thorough tier only).
const fuzzBudget = 1000000

// fuzzStage runs the native Go fuzz target FuzzISISDecode (verifharness/fuzz, seeded with valid hellos, LSPs, CSNPs and
// PSNPs) as a child `go test -fuzz` for a fixed number of executions. The engine only searches: an input it saves as
// failing becomes a one-input "dec" case and is judged by DecodeInput in a child like every mutated input, so that the
// violation carries the usual clause and features and is reconfirmed from its replay file without go test.
func fuzzStage(r *vf.Run, opts isish.Opts) {
	res := gofuzz.Run(gofuzz.Opts{Name: "FuzzISISDecode", Execs: fuzzBudget, Workers: 8, Watchdog: 20 * time.Minute})
	gofuzz.Record(r, res, "FuzzISISDecode", fuzzBudget)
	if !res.Found || res.Crasher == nil {
		return
	}
	var in []byte
	ok := len(res.Crasher) == 1
	if ok {
		in, ok = res.Crasher[0].([]byte)
	}
	if !ok {
		r.Inconclusive(fmt.Sprintf("native fuzzing: crasher %s does not have the shape ([]byte)", res.CrasherFile))
		return
	}
	h := hex.EncodeToString(in)
	r.Set("fuzz_failing_input", map[string]any{"input": h, "engine_report": res.FailureText[:min(len(res.FailureText), 600)]})
	cs := []isish.Case{{Kind: "dec", Raw: isish.MustJSON(decCase{Inputs: []string{h}, Muts: []string{"go-fuzz"}})}}
	outs := isish.RunBatch(cs, isish.Opts{Workers: 1, Scratch: opts.Scratch, BatchSize: 1})
	isish.Apply(r, cs, outs, func(isish.Case) map[string]string { return map[string]string{"decoder": "Decode"} })
	if len(outs[0].V) == 0 && outs[0].Crash == nil {
		r.Inconclusive(fmt.Sprintf("native fuzzing: the engine saved a failing input that this check's oracle accepts (input %s): %s", h, res.FailureText[:min(len(res.FailureText), 400)]))
	}
}

func main() {
	if isish.IsChild() {
		isish.ChildMain(runCase)
	}
	vf.Main("C30", "exploration", func(r *vf.Run) {
		rule := "(decode-panic) 150 000 byte strings derived from valid PDUs of every type code (P2P/LAN hellos, L1/L2 LSP, CSNP, PSNP; every TLV type bio-rd knows plus unknown ones) by 1-3 mutations out of: bit flip, boundary byte, truncation (anywhere / inside a TLV), appended octets, TLV length edit, TLV type edit, PDU type edit, inserted TLV of a known type with a short or long value, duplicated TLV, splice of two PDUs, fixed-header field edit; each handed to packet.Decode (and packet.DecodeL2Hello for LAN hellos) under recover, in child processes with a watchdog. (encoding, roundtrip, snp-set, panic) 30 000 PDUs built through bio-rd's constructors in the shape the server builds them: P2P hellos (three-way TLV with and without neighbor, protocols supported, 0..70 IP interface addresses, 0..12 area addresses, padding, checksum, IS neighbors TLV), LSPs (area, protocols, IP interface addresses, extended IP reachability with 0..40 prefixes of length 0..32, in half of the LSPs a third of them with the up/down bit and in one LSP of eight a third of them with the sub-TLV bit in the control octet, extended IS reachability with 0..12 neighbors and their sub-TLVs, hostname 0..255 octets, TE router id, unknown TLV; UpdateLength + SetChecksum), CSNPs and PSNPs from NewCSNPs/NewPSNPs with 0..200 entries and several maximum PDU lengths; in a third of the hellos and LSPs the IP interface addresses TLV is built from 1..40 interface prefixes of lengths 8..32 drawn with replacement from a small address pool, so that the same address occurs several times (the same address as /24 and /32, unnumbered interfaces): serialised octets equal an independent ISO 10589 encoder's (specs whose content does not fit a single TLV are skipped and counted; a repeated interface address may be announced every time or once; LSPs with the sub-TLV bit have no reference encoding because bio-rd writes no sub-TLV length octet: they are judged by the round trip alone and counted), Decode succeeds, decoded fields equal (typed TLVs field by field, unknown TLVs octet by octet), Serialize(Decode(x)) == x, the SNPs together carry all entries. (roundtrip src=wire) 12 000 well-formed PDUs built by the independent encoder in layouts Decode accepts but the server may never emit (three-way TLV in all four RFC 5303 layouts 1/5/11/15, TLVs shuffled and repeated, empty TLVs, unknown TLVs, several LSP Entries TLVs of 0..15 entries per SNP, IS reachability, TE router id, sub-TLVs): Decode succeeds, sees the same content as the independent parser (three-way fields compared one by one) and Serialize(Decode(x)) == x. (emitted-malformed, roundtrip) every distinct PDU emitted by the running server in samples of the adjacency, LSDB and interface workloads and by servers with 1..40 interfaces, up to 70 addresses per interface (up to 31 on interfaces with an adjacency), 0..30 addresses per interface configured twice (/31 or /24 and /32) and 0..12 Up adjacencies: well-formed for the independent parser, decodes, re-serialises to the same octets, same content for both decoders. distinct_nontrivial = distinct mutated inputs that got past the fixed header into the TLV loop + distinct generated PDU shapes + distinct emitted PDUs"
		r.Rule(rule)
		r.Assume("PDUs are serialised the way the server does it: ISISHeader with the length indicator of the PDU type followed by the body's Serialize; Decode is given the 3 LLC octets in front, as on the receive path",
			"the LSP checksum is not part of the equality (counted separately): the statement speaks of content")
		opts := isish.Opts{Workers: 8, Scratch: filepath.Join(os.TempDir(), "isis"), BatchSize: 12}
		if raw, ok := r.Replaying(); ok {
			c := isish.ReplayCase(raw)
			outs := isish.RunBatch([]isish.Case{c}, opts)
			isish.Apply(r, []isish.Case{c}, outs, nil)
			return
		}
		if !r.Quick() {
			r.Rule(rule + fmt.Sprintf(". Thorough tier only: afterwards the coverage-guided native Go fuzzing engine runs FuzzISISDecode (LLC + PDU of at most 4096 octets, seeded with the valid PDU corpus of the decode-panic workload and 64 well-formed PDUs of the independent encoder; packet.Decode and, for LAN hello type codes, packet.DecodeL2Hello) for %d executions on 8 workers; an input it reports as failing is judged by the same decode-panic/decode-nil oracle in a child", fuzzBudget))
			if os.Getenv("C30_ONLY_FUZZ") != "" { // development aid: the fuzzing stage alone
				fuzzStage(r, opts)
				return
			}
		}
		var cases []isish.Case
		corpus := isish.Corpus()
		// 1. totality
		nDec, chunk := r.N(150000, 3000000), 500
		for ci := 0; ci*chunk < nDec; ci++ {
			rng := r.RandN("c30-dec", ci)
			var d decCase
			for k := 0; k < chunk && ci*chunk+k < nDec; k++ {
				b, m := isish.Mutate(rng, corpus)
				d.Inputs = append(d.Inputs, hex.EncodeToString(b))
				d.Muts = append(d.Muts, m)
			}
			cases = append(cases, isish.Case{Kind: "dec", Raw: isish.MustJSON(d)})
		}
		nDecCases := len(cases)
		// 2. generated PDUs
		nSpec, schunk := r.N(30000, 600000), 250
		for ci := 0; ci*schunk < nSpec; ci++ {
			rng := r.RandN("c30-spec", ci)
			var specs []isish.PDUSpec
			for k := 0; k < schunk && ci*schunk+k < nSpec; k++ {
				specs = append(specs, isish.GenPDUSpec(rng, ci*schunk+k))
			}
			if ci == 0 {
				r.Sample(specs[0])
				r.Sample(specs[1])
			}
			cases = append(cases, isish.Case{Kind: "specs", Raw: isish.MustJSON(map[string]any{"specs": specs})})
		}
		// 2b. well-formed PDUs in layouts Decode accepts, incl. those the server never emits itself
		nWire, wchunk := r.N(12000, 400000), 400
		for ci := 0; ci*wchunk < nWire; ci++ {
			rng := r.RandN("c30-wire", ci)
			var d decCase
			for k := 0; k < wchunk && ci*wchunk+k < nWire; k++ {
				d.Inputs = append(d.Inputs, hex.EncodeToString(isish.GenWirePDU(rng, ci*wchunk+k)))
			}
			cases = append(cases, isish.Case{Kind: "wires", Raw: isish.MustJSON(d)})
		}
		// 3. PDUs emitted by the running server
		wl := func(k string, v any) {
			cases = append(cases, isish.Case{Kind: "wl", Raw: isish.MustJSON(wlCase{K: k, Raw: isish.MustJSON(v)})})
		}
		for i := 0; i < r.N(40, 2000); i++ {
			wl("adj", isish.GenAdjCase(r.RandN("c30-adj", i)))
		}
		for i := 0; i < r.N(80, 4000); i++ {
			wl("lsdb", isish.GenLSDBCase(r.RandN("c30-lsdb", i), 40))
		}
		wl("lsdb", isish.GenLSDBBulk(16))
		wl("lsdb", isish.GenLSDBBulk(40))
		for _, adv := range []int{6, 11} {
			for _, seq := range [][]bool{{true}, {true, false}, {true, true}, {true, false, true}} {
				wl("iface", isish.IfaceCase{Seq: seq, Adv: adv})
				wl("iface", isish.IfaceCase{Seq: seq, Adv: adv, Passive: true})
			}
		}
		// servers with many interfaces, addresses and adjacencies: the local LSP and hellos they emit
		for _, bc := range [][3]int{{1, 0, 1}, {3, 2, 3}, {7, 0, 7}, {8, 0, 8}, {12, 0, 12}, {10, 1, 2}, {30, 0, 2}, {2, 30, 1}, {1, 70, 0}, {40, 1, 0}, {20, 3, 4}} {
			wl("biglsp", isish.BigLSPCase{Ifaces: bc[0], Extra: bc[1], Up: bc[2]})
		}
		// the same address configured more than once on an interface (as /31 or /24 and as /32)
		for _, bc := range [][4]int{{1, 0, 1, 1}, {2, 3, 1, 2}, {3, 1, 3, 1}, {1, 40, 0, 30}} {
			wl("biglsp", isish.BigLSPCase{Ifaces: bc[0], Extra: bc[1], Up: bc[2], Dup: bc[3]})
		}
		outs := isish.RunBatch(cases, opts)
		// a chunk of inputs that killed its child is re-run input by input to find the culprit
		var single []isish.Case
		for i := 0; i < nDecCases; i++ {
			if outs[i].Crash != nil {
				var d decCase
				json.Unmarshal(cases[i].Raw, &d)
				for k := range d.Inputs {
					single = append(single, isish.Case{Kind: "dec", Raw: isish.MustJSON(decCase{Inputs: d.Inputs[k : k+1], Muts: d.Muts[k : k+1]})})
				}
				outs[i] = isish.Outcome{Idx: i}
				r.Count("chunks_rerun_singly", 1)
			}
		}
		// workloads that die do so for reasons C31-C33 report; C30 only loses their PDUs
		for i := range cases {
			if cases[i].Kind == "wl" && outs[i].Crash != nil {
				outs[i] = isish.Outcome{Idx: i}
				r.Count("workloads_died", 1)
			}
		}
		isish.Apply(r, cases, outs, nil)
		if len(single) > 0 {
			o2 := isish.RunBatch(single, isish.Opts{Workers: 8, Scratch: opts.Scratch, BatchSize: 50})
			isish.Apply(r, single, o2, func(isish.Case) map[string]string { return map[string]string{"decoder": "Decode"} })
		}
		if !r.Quick() {
			fuzzStage(r, opts)
		}
		r.Require("decode_errors", 10000)
		r.Require("decode_ok", 10000)
		r.Require("roundtrips_hello", 1000)
		r.Require("roundtrips_lsp", 1000)
		r.Require("ext_ip_entries_updown_bit", 1000)
		r.Require("ext_ip_entries_subtlv_bit", 100)
		r.Require("hellos_with_repeated_if_addr", 300)
		r.Require("lsps_with_repeated_if_addr", 300)
		r.Require("workloads_biglsp", 15)
		r.Require("wire_hello", 1000)
		r.Require("wire_lsp", 1000)
		r.Require("wire_psnp", 500)
		r.Require("emitted_hello", 20)
		r.Require("emitted_lsp", 20)
		r.Require("emitted_csnp", 20)
		r.Require("emitted_psnp", 20)
	})
}
