// C27: a monitored router cannot crash or exhaust the BMP receiver.
//
// Every case is one byte stream delivered to a real router session (hook-built Router, the real
// serve loop on an in-memory connection). Streams run in child processes (address-space limit
// `ulimit -v` 3.5 GiB, soft Go memory limit) so that process-fatal events are attributed to their input: the
// batch is on disk before the child starts and the child appends the index of the stream it is
// about to run to a side file.
//
// Oracles per stream:
//
//	crash  the serve goroutine panics (it has no recover in production: the receiver dies) or
//	       the child dies (fatal error, out of memory under the 3.5 GiB limit);
//	alloc  cumulative heap allocation (runtime TotalAlloc) while the stream is served exceeds
//	       1 MiB + 512 x bytes sent + 8 KiB x complete frames sent;
//	wedge  after the stream the serve loop neither returned nor is blocked reading at the end of
//	       the input, or does not return after end-of-stream;
//	fresh  a fresh router does not accept a fixed valid conversation afterwards (checked after
//	       every 4th stream, after every stream with another alarm, and always in replays).
package main

import (
	"bufio"
	"bytes"
	"encoding/json"
	"fmt"
	"hash/fnv"
	"net"
	"os"
	"os/exec"
	"path/filepath"
	"regexp"
	"runtime"
	"runtime/debug"
	"sort"
	"strconv"
	"strings"
	"sync"
	"syscall"
	"time"

	bnet "github.com/bio-routing/bio-rd/net"
	"github.com/bio-routing/bio-rd/protocols/bgp/server"

	"verifharness/internal/bmpconn"
	m "verifharness/internal/bmpmsg"
	"verifharness/internal/bmprig"
	"verifharness/internal/vf"
)

const (
	allocBase     = 1 << 20
	allocPerByte  = 512
	allocPerFrame = 8 << 10
	streamWatch   = 60 * time.Second // watchdog for one synchronisation point inside a child
)

// finding is one oracle alarm of the child for a stream.
type finding struct {
	Clause   string            `json:"clause"`
	Features map[string]string `json:"features"`
	Detail   string            `json:"detail"`
}

// result is what the child reports per stream.
type result struct {
	Idx       int       `json:"idx"`
	Findings  []finding `json:"findings,omitempty"`
	Sent      int       `json:"sent"`
	Frames    int       `json:"frames"`
	Alloc     uint64    `json:"alloc"`
	Consumed  int64     `json:"consumed"`
	End       string    `json:"end"` // how the session ended: returned | closed_by_router | eof | reset
	Neighbors int       `json:"neighbors"`
	Fatal     bool      `json:"fatal,omitempty"` // the child cannot continue after this stream
	Millis    int64     `json:"ms"`
	// AllocNoise: the bound was exceeded once but neither in the frame by frame pass nor in a repetition
	AllocNoise int `json:"alloc_noise,omitempty"`
}

var secondPass bool // serveStream is running as the repetition of a stream (children serve one stream at a time)

// freshAlways: run the fresh-router check after every stream (replay), else after every 4th
// stream and after every stream with an alarm.
var freshAlways = os.Getenv("C27_FRESH_ALWAYS") != ""

func totalAlloc() uint64 {
	var ms runtime.MemStats
	runtime.ReadMemStats(&ms)
	return ms.TotalAlloc
}

// freshConversation is the fixed valid conversation a fresh router must accept after every stream.
func freshCheck() string {
	r := bmprig.NewRouter(net.IP{10, 9, 9, 9}, server.RouterConfig{})
	s := bmprig.Serve(r)
	ph := m.PeerHdr{Addr: m.V4(10, 9, 0, 2), AS: 65101, BGPID: 0x0a090002, TS: 1700000000}
	sent := m.OpenFor(65100, 0x0a090001, true).Bytes()
	recv := m.OpenFor(65101, 0x0a090002, true).Bytes()
	nh := make([]byte, 16)
	nh[0], nh[1], nh[15] = 0x20, 0x01, 1
	v6 := make([]byte, 16)
	v6[0], v6[1], v6[2], v6[3] = 0x20, 0x01, 0x0d, 0xb8
	data := bytes.Join([][]byte{
		m.Initiation(m.TLV{Type: 2, Value: []byte("fresh")}),
		m.PeerUp(ph, m.V4(10, 9, 0, 1), 179, 40000, sent, recv, nil),
		m.RouteMonitoring(ph, m.Update(nil, bytes.Join([][]byte{m.AttrOrigin(0), m.AttrASPath(true, []uint32{65101, 64999}), m.AttrNextHop([4]byte{192, 0, 2, 1})}, nil),
			[]m.NLRI{{Len: 24, Addr: []byte{198, 51, 100, 0}}})),
		m.RouteMonitoring(ph, m.Update(nil, bytes.Join([][]byte{m.AttrOrigin(0), m.AttrASPath(true, []uint32{65101}), m.AttrMPReach(2, 1, nh, []m.NLRI{{Len: 32, Addr: v6}})}, nil), nil)),
	}, nil)
	s.Conn.Feed(data)
	if st := s.Conn.WaitQuiescent(streamWatch); st != bmpconn.Blocked {
		return "fresh router did not consume a valid conversation: connection " + st.String()
	}
	v := r.GetVRF(0)
	if v == nil {
		return "fresh router has no VRF 0:0 after a valid peer up"
	}
	if rt := v.IPv4UnicastRIB().Get(bnet.NewPfx(bnet.IPv4FromOctets(198, 51, 100, 0), 24).Ptr()); rt == nil || len(rt.Paths()) != 1 {
		return "fresh router did not install the announced IPv4 route"
	}
	if n := v.IPv6UnicastRIB().RouteCount(); n != 1 {
		return fmt.Sprintf("fresh router holds %d IPv6 routes after one announcement", n)
	}
	s.Conn.Feed(m.TerminationReason(0, "done"))
	o, ok := s.Returned(streamWatch)
	if !ok {
		return "fresh router: serve loop did not return after a termination message"
	}
	if o.Panicked {
		return "fresh router panicked: " + o.Panic
	}
	if len(r.GetVRFs()) != 0 {
		return "fresh router still lists VRFs after termination"
	}
	return ""
}

// runStream serves one stream on a new router and applies the oracles.
func runStream(idx int, s stream) result { return serveStream(idx, s, false) }

// serveStream is runStream; attribute = measure allocation after every frame (second pass of a
// stream that broke the allocation bound, to name the frame that did it).
func serveStream(idx int, s stream, attribute bool) (res result) {
	res.Idx = idx
	add := func(clause string, f map[string]string, detail string) {
		res.Findings = append(res.Findings, finding{clause, f, detail})
	}
	frames := m.Split(s.Data)
	complete := 0
	for _, f := range frames {
		if f.Complete {
			complete++
		}
	}
	res.Frames = complete

	a0 := totalAlloc()
	r := bmprig.NewRouter(net.IP{10, 0, 0, 1}, server.RouterConfig{})
	sess := bmprig.Serve(r)

	// feeding plan
	type chunk struct {
		b     []byte
		frame int
	}
	var chunks []chunk
	switch {
	case s.Feed == 1:
		chunks = []chunk{{s.Data, -1}}
	case s.Feed > 1:
		for off := 0; off < len(s.Data); off += s.Feed {
			end := off + s.Feed
			if end > len(s.Data) {
				end = len(s.Data)
			}
			chunks = append(chunks, chunk{s.Data[off:end], -1})
		}
	default:
		for i, f := range frames {
			chunks = append(chunks, chunk{s.Data[f.Off : f.Off+f.Len], i})
		}
	}
	if attribute {
		chunks = chunks[:0]
		for i, f := range frames {
			chunks = append(chunks, chunk{s.Data[f.Off : f.Off+f.Len], i})
		}
	}
	worst, worstFrame := uint64(0), -1
	state := bmpconn.Blocked
	prev := a0
	for _, c := range chunks {
		sess.Conn.Feed(c.b)
		res.Sent += len(c.b)
		state = sess.Conn.WaitQuiescent(streamWatch)
		if attribute {
			now := totalAlloc()
			if d := now - prev; d > worst {
				worst, worstFrame = d, c.frame
			}
			prev = now
		}
		if state != bmpconn.Blocked {
			break
		}
	}
	res.Neighbors = -1
	wedged := false
	switch state {
	case bmpconn.Timeout:
		if _, ok := sess.Returned(0); !ok {
			fed, consumed, _ := sess.Conn.Stats()
			add("wedge", vf.F("state", "busy_or_stuck"), fmt.Sprintf("stream %q: %d of %d bytes consumed, reader not blocked, serve loop not returned after %v\n%s", s.Label, consumed, fed, streamWatch, goroutines()))
			wedged = true
		}
	case bmpconn.Blocked:
		res.Neighbors = r.VerifNeighborCount()
		// end of the stream
		if s.Reset {
			sess.Conn.Reset()
			res.End = "reset"
		} else {
			sess.Conn.CloseWrite()
			res.End = "eof"
		}
	case bmpconn.Closed:
		res.End = "closed_by_router"
	}
	if !wedged {
		o, ok := sess.Returned(streamWatch)
		switch {
		case !ok:
			add("wedge", vf.F("state", "no_return_after_"+res.End), fmt.Sprintf("stream %q: serve loop did not return within %v after the connection ended (%s)\n%s", s.Label, streamWatch, res.End, goroutines()))
			wedged = true
		case o.Panicked:
			where, via := bmprig.TopFrames(o.Stack)
			add("crash", vf.F("kind", "panic", "where", where, "via", via, "what", bmprig.PanicClass(o.Panic)),
				fmt.Sprintf("stream %q: serve goroutine panicked: %s\n%s", s.Label, o.Panic, trimStack(o.Stack)))
		}
	}
	_, res.Consumed, _ = sess.Conn.Stats()
	res.Alloc = totalAlloc() - a0
	res.Fatal = wedged
	bound := uint64(allocBase + allocPerByte*res.Sent + allocPerFrame*complete)
	if res.Alloc > bound {
		if !attribute && !wedged && !secondPass {
			// name the frame: serve the same stream once more, measuring after every frame
			if res.Alloc > 8<<20 {
				runtime.GC()
				debug.FreeOSMemory()
			}
			found := false
			for _, f := range serveStream(idx, s, true).Findings {
				if f.Clause == "alloc" {
					add(f.Clause, f.Features, f.Detail+fmt.Sprintf(" [first pass, feed mode %d: %d bytes allocated]", s.Feed, res.Alloc))
					found = true
					break
				}
			}
			if !found && !secondPass {
				// TotalAlloc is process wide (timers, goroutines of earlier streams): a small excess that the frame
				// by frame pass does not show is measured once more in the same feed mode and only reported if it
				// shows again
				secondPass = true
				again := serveStream(idx, s, false)
				secondPass = false
				if again.Alloc > bound {
					add("alloc", vf.F("frame_type", "?", "phase", "?"), fmt.Sprintf("stream %q: %d bytes sent in %d complete frames, %d and then %d bytes allocated in two passes (bound %d); not reproduced in the attribution pass", s.Label, res.Sent, complete, res.Alloc, again.Alloc, bound))
				} else {
					res.AllocNoise = 1
				}
			}
		} else if worstFrame >= 0 {
			f := frames[worstFrame]
			ft, phase := strconv.Itoa(f.Type), "decode"
			if !f.Complete {
				ft, phase = "any", "framing"
			}
			add("alloc", vf.F("frame_type", ft, "phase", phase), fmt.Sprintf("stream %q: %d bytes sent in %d complete frames, %d bytes allocated (bound %d); largest step %d bytes at frame %d (type %d, declared length %d, %d bytes present)",
				s.Label, res.Sent, complete, res.Alloc, bound, worst, worstFrame, f.Type, f.Declared, f.Len))
		}
	}
	if res.Alloc > 8<<20 {
		runtime.GC()
		debug.FreeOSMemory()
	}
	if !wedged && !attribute && (idx%4 == 0 || len(res.Findings) > 0 || freshAlways) {
		if msg := freshCheck(); msg != "" {
			add("fresh", vf.F("after", "stream"), fmt.Sprintf("after stream %q: %s", s.Label, msg))
		}
	}
	return res
}

func trimStack(s string) string {
	if len(s) > 3000 {
		s = s[:3000] + "\n…"
	}
	return s
}

func goroutines() string {
	buf := make([]byte, 1<<16)
	buf = buf[:runtime.Stack(buf, true)]
	var keep []string
	for _, g := range strings.Split(string(buf), "\n\n") {
		if strings.Contains(g, "bio-routing/bio-rd") {
			keep = append(keep, g)
		}
	}
	return trimStack(strings.Join(keep, "\n\n"))
}

// ---------------------------------------------------------------------------------------------
// child

func childMain() {
	bmprig.Quiet()
	debug.SetMemoryLimit(1 << 30)
	batch := os.Getenv("C27_CHILD")
	start, _ := strconv.Atoi(os.Getenv("C27_START"))
	raw, err := os.ReadFile(batch)
	if err != nil {
		fmt.Fprintln(os.Stderr, "child:", err)
		os.Exit(3)
	}
	var streams []stream
	if err := json.Unmarshal(raw, &streams); err != nil {
		fmt.Fprintln(os.Stderr, "child:", err)
		os.Exit(3)
	}
	side, err := os.OpenFile(batch+".side", os.O_APPEND|os.O_CREATE|os.O_WRONLY, 0o644)
	if err != nil {
		fmt.Fprintln(os.Stderr, "child:", err)
		os.Exit(3)
	}
	out, err := os.OpenFile(batch+".out", os.O_APPEND|os.O_CREATE|os.O_WRONLY, 0o644)
	if err != nil {
		fmt.Fprintln(os.Stderr, "child:", err)
		os.Exit(3)
	}
	for i := start; i < len(streams); i++ {
		fmt.Fprintf(side, "%d\n", i)
		t0 := time.Now()
		res := runStream(i, streams[i])
		res.Millis = time.Since(t0).Milliseconds()
		b, _ := json.Marshal(res)
		out.Write(append(b, '\n'))
		if res.Fatal {
			os.Exit(4) // a stuck serve goroutine is left behind: continue in a new process
		}
	}
	os.Exit(0)
}

// ---------------------------------------------------------------------------------------------
// parent

type batchOutcome struct {
	results []result
	note    []string // infrastructure trouble (-> inconclusive)
}

var fatalRe = regexp.MustCompile(`(?m)^(fatal error: .*|panic: .*|runtime: out of memory.*|runtime: cannot allocate memory.*|SIGSEGV.*|signal: killed)$`)

var infraRe = regexp.MustCompile(`pthread_create failed|failed to create new OS thread|failed to reserve page summary|cannot allocate memory for`)

func lastSide(path string) int {
	raw, err := os.ReadFile(path)
	if err != nil {
		return -1
	}
	lines := strings.Fields(string(raw))
	if len(lines) == 0 {
		return -1
	}
	n, err := strconv.Atoi(lines[len(lines)-1])
	if err != nil {
		return -1
	}
	return n
}

func readResults(path string) []result {
	f, err := os.Open(path)
	if err != nil {
		return nil
	}
	defer f.Close()
	var out []result
	sc := bufio.NewScanner(f)
	sc.Buffer(make([]byte, 1<<20), 64<<20)
	for sc.Scan() {
		var r result
		if json.Unmarshal(sc.Bytes(), &r) == nil {
			out = append(out, r)
		}
	}
	return out
}

// startChild runs the batch from index start and reports how the child ended.
func startChild(batch string, start int, watchdog time.Duration) (exit int, stderr string, timedOut bool) {
	exe, _ := os.Executable()
	errPath := fmt.Sprintf("%s.stderr.%d", batch, start)
	if os.Getenv("C27_DEV_KEEP") == "" {
		defer os.Remove(errPath)
	}
	ef, _ := os.Create(errPath)
	cmd := exec.Command("bash", "-c", `ulimit -s 1024; ulimit -v 3670016; exec "$0"`, exe)
	cmd.Env = append(os.Environ(), "C27_CHILD="+batch, "C27_START="+strconv.Itoa(start), "GOTRACEBACK=all", "GOMAXPROCS=2")
	cmd.Stdout, cmd.Stderr = ef, ef
	cmd.SysProcAttr = &syscall.SysProcAttr{Pdeathsig: syscall.SIGKILL}
	if err := cmd.Start(); err != nil {
		return -1, err.Error(), false
	}
	done := make(chan error, 1)
	go func() { done <- cmd.Wait() }()
	var werr error
	select {
	case werr = <-done:
	case <-time.After(watchdog):
		cmd.Process.Kill()
		<-done
		timedOut = true
	}
	ef.Close()
	raw, _ := os.ReadFile(errPath)
	if len(raw) > 1<<20 {
		raw = raw[:1<<20]
	}
	if werr != nil {
		if ee, ok := werr.(*exec.ExitError); ok {
			exit = ee.ExitCode()
		} else {
			exit = -1
		}
	}
	return exit, string(raw), timedOut
}

// runBatch runs all streams of a batch, restarting the child behind every process-fatal stream.
func runBatch(dir, name string, streams []stream, watchdog time.Duration) batchOutcome {
	var bo batchOutcome
	batch := filepath.Join(dir, name+".json")
	raw, _ := json.Marshal(streams)
	if err := os.WriteFile(batch, raw, 0o644); err != nil {
		bo.note = append(bo.note, "cannot write batch file: "+err.Error())
		return bo
	}
	defer func() {
		if os.Getenv("C27_DEV_KEEP") != "" {
			return
		}
		for _, sfx := range []string{"", ".side", ".out"} {
			os.Remove(batch + sfx)
		}
	}()
	start := 0
	restarts := 0
	infra := 0
	for start < len(streams) {
		exit, stderr, timedOut := startChild(batch, start, watchdog)
		if exit == 0 && !timedOut {
			break
		}
		last := lastSide(batch + ".side")
		if infraRe.MatchString(stderr) && infra < 20 {
			// the address-space limit hit the Go runtime itself (thread or runtime metadata), not the receiver: same stream again
			infra++
			if last >= start {
				start = last
			}
			continue
		}
		if last < start {
			bo.note = append(bo.note, fmt.Sprintf("child of batch %s ended (exit %d) before running a stream: %.300s", name, exit, stderr))
			break
		}
		switch {
		case exit == 4: // the child reported a wedge itself and asked for a new process
		case timedOut:
			// the batch watchdog fired: decide by running the suspected stream alone
			single := filepath.Join(dir, name+".single.json")
			sraw, _ := json.Marshal(streams[last : last+1])
			os.WriteFile(single, sraw, 0o644)
			_, serr, again := startChild(single, 0, 4*streamWatch)
			rs := readResults(single + ".out")
			for _, sfx := range []string{"", ".side", ".out"} {
				os.Remove(single + sfx)
			}
			if again {
				bo.results = append(bo.results, result{Idx: last, Fatal: true, Findings: []finding{{"wedge", vf.F("state", "process_hang"),
					fmt.Sprintf("stream %q: child did not finish it within the batch watchdog nor alone within %v\n%.2000s", streams[last].Label, 4*streamWatch, serr)}}})
			} else if len(rs) == 0 {
				bo.note = append(bo.note, fmt.Sprintf("batch %s: watchdog fired at stream %d; alone it neither hung nor completed", name, last))
			} else {
				bo.note = append(bo.note, fmt.Sprintf("batch %s: watchdog fired at stream %d but the stream completes alone (machine load?)", name, last))
			}
		default:
			// the process died while serving stream `last`
			what := fatalRe.FindString(stderr)
			if what == "" {
				what = fmt.Sprintf("child exit code %d", exit)
			}
			kind := "fatal"
			if strings.HasPrefix(what, "panic:") {
				kind = "panic"
			}
			stack := stderr
			if i := strings.Index(stack, "goroutine "); i >= 0 {
				stack = stack[i:]
			}
			// prefer the running goroutine
			if i := strings.Index(stderr, " [running]:"); i >= 0 {
				j := strings.LastIndex(stderr[:i], "goroutine ")
				if j >= 0 {
					stack = stderr[j:]
				}
			}
			where, via := bmprig.TopFrames(stack)
			bo.results = append(bo.results, result{Idx: last, Sent: len(streams[last].Data), Fatal: true, Findings: []finding{{"crash",
				vf.F("kind", kind, "where", where, "via", via, "what", bmprig.PanicClass(what)),
				fmt.Sprintf("stream %q: the receiver process died: %s\n%s", streams[last].Label, what, trimStack(stack))}}})
		}
		start = last + 1
		restarts++
		if restarts > len(streams)+5 {
			bo.note = append(bo.note, "too many child restarts in batch "+name)
			break
		}
	}
	seen := map[int]bool{}
	for _, r := range bo.results {
		seen[r.Idx] = true
	}
	for _, r := range readResults(batch + ".out") {
		if !seen[r.Idx] {
			seen[r.Idx] = true
			bo.results = append(bo.results, r)
		}
	}
	sort.Slice(bo.results, func(i, j int) bool { return bo.results[i].Idx < bo.results[j].Idx })
	return bo
}

func scratchDir() string {
	d := filepath.Join(os.TempDir(), "bmp", fmt.Sprintf("c27-%d", os.Getpid()))
	os.MkdirAll(d, 0o755)
	return d
}

func hashOf(b []byte) string {
	h := fnv.New64a()
	h.Write(b)
	return strconv.FormatUint(h.Sum64(), 16)
}

func main() {
	if os.Getenv("C27_CHILD") != "" {
		childMain()
		return
	}
	vf.Main("C27", "exploration", func(r *vf.Run) {
		r.Watchdog("wedge")
		r.Rule("valid BMP conversations (initiation, 1-3 peer ups with real OPEN pairs incl. 4-octet AS and add-path, route monitoring pre/post policy with IPv4/IPv6 announcements, withdrawals, End-of-RIB, statistics, route mirroring, peer down, termination; every 20th with full-size UPDATEs) and one typed mutation each of: " + strings.Join(mutClasses, ", ") +
			"; fed frame by frame (7/8: allocation measured per frame), at once or in small chunks; ended by EOF or reset. distinct_nontrivial = distinct hostile streams (by content) whose mutated message was reached, i.e. the serve loop consumed bytes at or behind the mutation offset")
		r.Assume("a panic recovered in the harness goroutine that runs the real serve loop is a crash of the receiver (BMPReceiver.handleConnection has no recover)",
			"allocation is measured as runtime.MemStats.TotalAlloc growth of the child process while one stream is served, harness allocations (a copy of the stream) included",
			"bio-rd's logger is replaced by a discarding one")
		dir := scratchDir()
		if os.Getenv("C27_DEV_KEEP") == "" {
			defer os.RemoveAll(dir)
		}

		record := func(s stream, res result) {
			for _, f := range res.Findings {
				r.Violate(vf.Violation{Clause: f.Clause, Features: f.Features, Detail: f.Detail, Case: s})
			}
		}
		if raw, ok := r.Replaying(); ok {
			var s stream
			vf.Decode(raw, &s)
			os.Setenv("C27_FRESH_ALWAYS", "1")
			bo := runBatch(dir, "replay", []stream{s}, 3*time.Minute)
			for _, res := range bo.results {
				record(s, res)
			}
			for _, n := range bo.note {
				fmt.Println("note:", n)
			}
			return
		}

		total := r.N(6000, 240000)
		if v, err := strconv.Atoi(os.Getenv("C27_DEV_LIMIT")); err == nil && v > 0 {
			total = v // development aid only: never set by ./check
			r.Inconclusive("C27_DEV_LIMIT set: reduced workload")
		}
		per := 250
		nb := (total + per - 1) / per
		var mu sync.Mutex
		byLabel := map[string]int{}
		byEnd := map[string]int{}
		var validMaxX100, hostileMaxX100 int64
		validSeen, validAccepted := 0, 0
		vf.Parallel(nb, 8, func(b int) {
			lo, hi := b*per, (b+1)*per
			if hi > total {
				hi = total
			}
			streams := make([]stream, 0, hi-lo)
			for i := lo; i < hi; i++ {
				streams = append(streams, genStream(r.RandN("c27", i), i))
			}
			bo := runBatch(dir, fmt.Sprintf("b%d", b), streams, 10*time.Minute)
			mu.Lock()
			defer mu.Unlock()
			for _, n := range bo.note {
				r.Inconclusive(n)
			}
			if len(bo.results) != len(streams) {
				r.Inconclusive(fmt.Sprintf("batch %d: %d of %d streams have a result", b, len(bo.results), len(streams)))
			}
			for _, res := range bo.results {
				s := streams[res.Idx]
				record(s, res)
				r.Eval(1)
				r.Count("bytes_sent", res.Sent)
				r.Count("complete_frames_sent", res.Frames)
				r.Count("alloc_bound_exceeded_once_but_not_on_repetition", res.AllocNoise)
				byLabel[s.Label]++
				byEnd[res.End]++
				if res.Sent > 0 {
					x := int64(res.Alloc) * 100 / int64(res.Sent)
					if s.Label == "valid" {
						if x > validMaxX100 {
							validMaxX100 = x
						}
					} else if len(res.Findings) == 0 && x > hostileMaxX100 {
						hostileMaxX100 = x
					}
				}
				if s.Label == "valid" {
					validSeen++
					if res.Neighbors > 0 || res.End == "closed_by_router" {
						validAccepted++
					}
					r.Max("valid_max_alloc_bytes", int64(res.Alloc))
				} else if res.Consumed >= int64(s.MutAt) || res.Fatal && res.Consumed == 0 {
					r.Nontrivial(hashOf(s.Data))
				}
				if lo+res.Idx < 3 || (s.Label != "valid" && r.WantSample() && (lo+res.Idx)%1000 == 7) {
					r.Sample(map[string]any{"label": s.Label, "bytes": len(s.Data), "first_bytes": fmt.Sprintf("%x", s.Data[:min(len(s.Data), 48)]), "end": res.End, "alloc": res.Alloc, "findings": len(res.Findings)})
				}
			}
		})
		r.Set("streams_by_class", byLabel)
		r.Set("session_end", byEnd)
		r.Set("valid_max_alloc_per_byte", float64(validMaxX100)/100)
		r.Set("hostile_clean_max_alloc_per_byte", float64(hostileMaxX100)/100)
		r.Set("alloc_bound", fmt.Sprintf("%d + %d x bytes + %d x complete frames", allocBase, allocPerByte, allocPerFrame))
		r.Count("valid_conversations", validSeen)
		r.Count("valid_conversations_accepted", validAccepted)
		r.Require("valid_conversations_accepted", int64(validSeen*3/4)) // the rest ended with their only peer down
		r.Require("complete_frames_sent", 1000)
	})
}
