package main

// Workload of C27: valid BMP conversations and typed mutations of them.

import (
	"encoding/binary"
	"math/rand/v2"

	m "verifharness/internal/bmpmsg"
)

// stream is one generated case: the bytes a monitored router sends on one BMP connection.
type stream struct {
	Data  []byte `json:"data"`
	Label string `json:"label"`           // mutation class ("valid" for unmutated conversations)
	MutAt int    `json:"mut_at"`          // byte offset of the first mutated message (-1: none)
	Feed  int    `json:"feed,omitempty"`  // 0: frame by frame; 1: whole stream at once; n>1: n-byte chunks
	Reset bool   `json:"reset,omitempty"` // end the stream with a connection reset instead of EOF
}

type peerInfo struct {
	hdr     m.PeerHdr
	local   [16]byte
	as4path bool // AS_PATH encoded with 4-byte ASNs (A flag clear)
	addpath bool
	ibgp    bool
}

type conv struct {
	msgs     [][]byte
	kinds    []int // BMP message type per message
	peers    []peerInfo
	localAS  uint32
	routerID uint32
}

func (c *conv) add(kind int, b []byte) { c.msgs = append(c.msgs, b); c.kinds = append(c.kinds, kind) }

func (c *conv) bytes() []byte {
	var out []byte
	for _, b := range c.msgs {
		out = append(out, b...)
	}
	return out
}

func (c *conv) offset(i int) int {
	n := 0
	for j := 0; j < i; j++ {
		n += len(c.msgs[j])
	}
	return n
}

func pick[T any](rng *rand.Rand, xs ...T) T { return xs[rng.IntN(len(xs))] }

func v4nlri(rng *rand.Rand, addpath bool) m.NLRI {
	l := pick(rng, 8, 16, 22, 24, 24, 24, 32, 0, 1, 31)
	a := []byte{byte(10 + rng.IntN(200)), byte(rng.IntN(256)), byte(rng.IntN(256)), byte(rng.IntN(256))}
	mask(a, l)
	return m.NLRI{PathID: uint32(1 + rng.IntN(3)), AddPath: addpath, Len: uint8(l), Addr: a}
}

func v6nlri(rng *rand.Rand, addpath bool) m.NLRI {
	l := pick(rng, 32, 48, 48, 56, 64, 64, 128, 0, 127, 65)
	a := make([]byte, 16)
	a[0], a[1] = 0x20, 0x01
	for i := 2; i < 16; i++ {
		a[i] = byte(rng.IntN(256))
	}
	mask(a, l)
	return m.NLRI{PathID: uint32(1 + rng.IntN(3)), AddPath: addpath, Len: uint8(l), Addr: a}
}

func mask(a []byte, l int) {
	for i := range a {
		switch {
		case l >= 8*(i+1):
		case l <= 8*i:
			a[i] = 0
		default:
			a[i] &= byte(0xff << (8 - uint(l-8*i)))
		}
	}
}

func (c *conv) attrs(rng *rand.Rand, p peerInfo, nexthop bool) []byte {
	var out []byte
	out = append(out, m.AttrOrigin(uint8(rng.IntN(3)))...)
	var path []uint32
	if !p.ibgp {
		path = append(path, p.hdr.AS)
	}
	for i := rng.IntN(4); i > 0; i-- {
		if p.as4path {
			path = append(path, pick(rng, uint32(64600+rng.IntN(100)), uint32(4200000000+rng.IntN(1000))))
		} else {
			path = append(path, uint32(64600+rng.IntN(100)))
		}
	}
	out = append(out, m.AttrASPath(p.as4path, path)...)
	if nexthop {
		out = append(out, m.AttrNextHop([4]byte{192, 0, 2, byte(1 + rng.IntN(250))})...)
	}
	if rng.IntN(2) == 0 {
		out = append(out, m.AttrMED(uint32(rng.IntN(1000)))...)
	}
	if p.ibgp || rng.IntN(4) == 0 {
		out = append(out, m.AttrLocalPref(uint32(50+rng.IntN(200)))...)
	}
	if rng.IntN(2) == 0 {
		out = append(out, m.AttrCommunities(uint32(65000<<16|rng.IntN(1000)), uint32(rng.Uint32()))...)
	}
	return out
}

func (c *conv) update(rng *rand.Rand, p peerInfo, big bool) []byte {
	switch x := rng.IntN(10); {
	case x < 5: // IPv4 announcement
		n := 1 + rng.IntN(4)
		if big {
			n = 200 + rng.IntN(500)
		}
		var ns []m.NLRI
		for i := 0; i < n; i++ {
			ns = append(ns, v4nlri(rng, p.addpath))
		}
		return m.Update(nil, c.attrs(rng, p, true), ns)
	case x < 7: // IPv6 announcement
		n := 1 + rng.IntN(3)
		if big {
			n = 100 + rng.IntN(100)
		}
		var ns []m.NLRI
		for i := 0; i < n; i++ {
			ns = append(ns, v6nlri(rng, p.addpath))
		}
		nh := make([]byte, 16)
		nh[0], nh[1], nh[15] = 0x20, 0x01, byte(1+rng.IntN(250))
		return m.Update(nil, append(c.attrs(rng, p, false), m.AttrMPReach(2, 1, nh, ns)...), nil)
	case x < 8: // IPv4 withdraw
		return m.Update([]m.NLRI{v4nlri(rng, p.addpath), v4nlri(rng, p.addpath)}, nil, nil)
	case x < 9: // IPv6 withdraw
		return m.Update(nil, m.AttrMPUnreach(2, 1, []m.NLRI{v6nlri(rng, p.addpath)}), nil)
	default: // End-of-RIB
		if rng.IntN(2) == 0 {
			return m.Update(nil, nil, nil)
		}
		return m.Update(nil, m.AttrMPUnreach(2, 1, nil), nil)
	}
}

func (c *conv) opens(rng *rand.Rand, p peerInfo) (sent, recv []byte) {
	var sx, rx []m.Cap
	if p.addpath {
		sx = append(sx, m.CapAddPath([3]uint16{1, 1, pick[uint16](rng, 1, 3)}, [3]uint16{2, 1, pick[uint16](rng, 1, 3)}))
		rx = append(rx, m.CapAddPath([3]uint16{1, 1, pick[uint16](rng, 2, 3)}, [3]uint16{2, 1, pick[uint16](rng, 2, 3)}))
	}
	s := m.OpenFor(c.localAS, c.routerID, true, sx...)
	r := m.OpenFor(p.hdr.AS, p.hdr.BGPID, true, rx...)
	return s.Bytes(), r.Bytes()
}

func (c *conv) peerUp(rng *rand.Rand, p peerInfo) []byte {
	s, r := c.opens(rng, p)
	var info []byte
	if rng.IntN(3) == 0 {
		info = m.TLV{Type: 0, Value: []byte("session up")}.Bytes()
	}
	return m.PeerUp(p.hdr, p.local, 179, uint16(30000+rng.IntN(20000)), s, r, info)
}

func (c *conv) newPeer(rng *rand.Rand, i int) peerInfo {
	p := peerInfo{as4path: rng.IntN(5) != 0, addpath: rng.IntN(3) == 0}
	p.hdr.RD = pick[uint64](rng, 0, 0, uint64(65000)<<32|100, uint64(65000)<<32|200)
	p.hdr.Type = 0
	if p.hdr.RD != 0 {
		p.hdr.Type = 1
	}
	if rng.IntN(4) == 0 {
		p.hdr.Flags |= m.FlagV
		p.hdr.Addr = [16]byte{0x20, 0x01, 0xd, 0xb8, 15: byte(10 + i)}
		p.local = [16]byte{0x20, 0x01, 0xd, 0xb8, 15: 1}
	} else {
		p.hdr.Addr = m.V4(10, 0, byte(i), byte(2+rng.IntN(200)))
		p.local = m.V4(10, 0, byte(i), 1)
	}
	if !p.as4path {
		p.hdr.Flags |= m.FlagA
	}
	switch rng.IntN(4) {
	case 0:
		p.hdr.AS, p.ibgp = c.localAS, true
	case 1:
		p.hdr.AS = uint32(4200000100 + i)
	default:
		p.hdr.AS = uint32(65001 + i)
	}
	p.hdr.BGPID = uint32(0x0a000000 + 256*i + 2)
	p.hdr.TS = uint32(1700000000 + rng.IntN(1000000))
	p.hdr.TSus = uint32(rng.IntN(1000000))
	return p
}

func withL(p peerInfo, post bool) m.PeerHdr {
	h := p.hdr
	if post {
		h.Flags |= m.FlagL
	}
	return h
}

// genConv builds a valid conversation. big adds full-size UPDATEs.
func genConv(rng *rand.Rand, big bool) *conv {
	c := &conv{localAS: pick[uint32](rng, 65000, 65000, 4200000001), routerID: 0x0a000001}
	c.add(m.TypeInitiation, m.Initiation(m.TLV{Type: 2, Value: []byte("router-" + string(rune('a'+rng.IntN(26))))},
		m.TLV{Type: 1, Value: []byte("bio-rd verification harness BMP speaker")}, m.TLV{Type: 0, Value: []byte("hello")}))
	np := 1 + rng.IntN(3)
	for i := 0; i < np; i++ {
		p := c.newPeer(rng, i)
		c.peers = append(c.peers, p)
		c.add(m.TypePeerUp, c.peerUp(rng, p))
	}
	nrm := 3 + rng.IntN(8)
	for i := 0; i < nrm; i++ {
		p := c.peers[rng.IntN(len(c.peers))]
		switch rng.IntN(12) {
		case 0:
			c.add(m.TypeStats, m.Stats(p.hdr, [2]uint32{0, uint32(rng.IntN(100))}, [2]uint32{1, uint32(rng.IntN(100))}, [2]uint32{7, uint32(rng.IntN(100000))}))
		case 1:
			c.add(m.TypeRouteMirroring, m.RouteMirroring(p.hdr, m.TLV{Type: 0, Value: c.update(rng, p, false)}))
		default:
			c.add(m.TypeRouteMonitoring, m.RouteMonitoring(withL(p, rng.IntN(3) == 0), c.update(rng, p, big && rng.IntN(2) == 0)))
		}
	}
	if rng.IntN(2) == 0 {
		p := c.peers[rng.IntN(len(c.peers))]
		switch rng.IntN(4) {
		case 0:
			c.add(m.TypePeerDown, m.PeerDown(p.hdr, 1, m.Notification(6, 2)))
		case 1:
			c.add(m.TypePeerDown, m.PeerDown(p.hdr, 2, []byte{0, 2}))
		case 2:
			c.add(m.TypePeerDown, m.PeerDown(p.hdr, 3, m.Notification(6, 4)))
		default:
			c.add(m.TypePeerDown, m.PeerDown(p.hdr, 4, nil))
		}
	}
	if rng.IntN(2) == 0 {
		c.add(m.TypeTermination, m.TerminationReason(uint16(rng.IntN(5)), pick(rng, "", "bye")))
	}
	return c
}

func setLen(msg []byte, l uint32) []byte {
	out := append([]byte(nil), msg...)
	binary.BigEndian.PutUint32(out[1:5], l)
	return out
}

func randBytes(rng *rand.Rand, n int) []byte {
	b := make([]byte, n)
	for i := range b {
		b[i] = byte(rng.IntN(256))
	}
	return b
}

func (c *conv) firstOf(kind int) int {
	for i, k := range c.kinds {
		if k == kind {
			return i
		}
	}
	return -1
}

// insertAfterPeerUps returns the index just behind the last peer up.
func (c *conv) afterPeerUps() int {
	i := 0
	for j, k := range c.kinds {
		if k == m.TypePeerUp {
			i = j + 1
		}
	}
	return i
}

func (c *conv) insert(i int, kind int, b []byte) {
	c.msgs = append(c.msgs[:i], append([][]byte{b}, c.msgs[i:]...)...)
	c.kinds = append(c.kinds[:i], append([]int{kind}, c.kinds[i:]...)...)
}

var hugeLens = []uint32{4097, 65535, 65536, 1 << 20, 1 << 22, 1 << 22, 1 << 23, 0xc0000000, 0xe0000000, 0xfffffffe, 0xffffffff}
var statCounts = []uint32{0, 1, 4, 255, 65535, 1 << 16, 1 << 19, 1 << 20, 1 << 29, 1 << 30, 0xffffffff}

var mutClasses = []string{
	"hdrlen_small", "hdrlen_mid", "hdrlen_minus", "hdrlen_plus", "hdrlen_huge", "version", "msgtype",
	"tlv_len_zero", "tlv_truncated", "tlv_len_over", "term_reason", "stats_count", "stats_tlv",
	"peerup_as_mismatch", "peerup_astrans", "peerup_id0", "peerup_short_open", "peerup_open_garbage", "peerup_dup", "peerup_caps_foreign",
	"rm_unknown_peer", "rm_after_down", "rm_bgp_random", "rm_bgp_hdrlen", "rm_bgp_type", "rm_update_trunc",
	"rm_update_attr", "rm_update_nlri", "peerdown_variants", "truncate", "bitflip", "random", "splice", "tiny_flood",
}

// mutate applies one mutation of class cls to a fresh valid conversation and returns the stream.
func mutate(rng *rand.Rand, cls string) stream {
	c := genConv(rng, false)
	i := rng.IntN(len(c.msgs))
	mutAt := func(i int) int { return c.offset(i) }
	done := func(i int) stream { return stream{Data: c.bytes(), Label: cls, MutAt: mutAt(i)} }
	p := c.peers[rng.IntN(len(c.peers))]
	switch cls {
	case "hdrlen_small":
		c.msgs[i] = setLen(c.msgs[i], uint32(rng.IntN(6)))
		return done(i)
	case "hdrlen_mid":
		c.msgs[i] = setLen(c.msgs[i], uint32(6+rng.IntN(42)))
		return done(i)
	case "hdrlen_minus":
		l := len(c.msgs[i])
		d := 1 + rng.IntN(8)
		if rng.IntN(3) == 0 {
			d = 1 + rng.IntN(l-6+1)
		}
		if d > l-6 {
			d = l - 6
		}
		c.msgs[i] = setLen(c.msgs[i], uint32(l-d))
		return done(i)
	case "hdrlen_plus":
		c.msgs[i] = setLen(c.msgs[i], uint32(len(c.msgs[i])+1+rng.IntN(64)))
		return done(i)
	case "hdrlen_huge":
		c.msgs[i] = setLen(c.msgs[i], pick(rng, hugeLens...))
		return done(i)
	case "version":
		c.msgs[i] = append([]byte(nil), c.msgs[i]...)
		c.msgs[i][0] = pick[byte](rng, 0, 1, 2, 4, 255)
		return done(i)
	case "msgtype":
		c.msgs[i] = append([]byte(nil), c.msgs[i]...)
		c.msgs[i][5] = pick(rng, byte(7), byte(8), byte(255), byte(rng.IntN(7)))
		return done(i)
	case "tlv_len_zero", "tlv_truncated", "tlv_len_over":
		var body []byte
		switch cls {
		case "tlv_len_zero":
			for n := 1 + rng.IntN(4); n > 0; n-- {
				body = append(body, m.TLVRaw(uint16(rng.IntN(4)), 0, nil)...)
			}
			if rng.IntN(2) == 0 {
				body = append(body, m.TLVRaw(uint16(rng.IntN(3)), 0, []byte("xyz"))...) // value present, length 0
			}
		case "tlv_truncated":
			body = m.TLV{Type: 2, Value: []byte("name")}.Bytes()
			t := m.TLV{Type: uint16(rng.IntN(3)), Value: []byte("truncated-value")}.Bytes()
			body = append(body, t[:1+rng.IntN(len(t)-1)]...)
		case "tlv_len_over":
			body = m.TLVRaw(uint16(rng.IntN(3)), pick[uint16](rng, 4, 100, 4096, 65535), []byte("abc"))
		}
		var msg []byte
		var kind int
		switch rng.IntN(4) {
		case 0:
			kind, msg = m.TypeInitiation, m.Common(m.TypeInitiation, body)
			i = 0
			c.msgs[0], c.kinds[0] = msg, kind
			return done(0)
		case 1:
			kind, msg = m.TypeTermination, m.Common(m.TypeTermination, body)
			c.add(kind, msg)
			return done(len(c.msgs) - 1)
		case 2:
			kind, msg = m.TypeRouteMirroring, m.Common(m.TypeRouteMirroring, append(p.hdr.Bytes(), body...))
		default: // information TLVs of a peer up
			s, r := c.opens(rng, p)
			q := c.newPeer(rng, 7)
			kind, msg = m.TypePeerUp, m.PeerUp(q.hdr, q.local, 179, 1234, s, m.OpenFor(q.hdr.AS, q.hdr.BGPID, true).Bytes(), body)
			_ = r
		}
		j := c.afterPeerUps()
		c.insert(j, kind, msg)
		return done(j)
	case "term_reason":
		var body []byte
		switch rng.IntN(4) {
		case 0:
			body = m.TLVRaw(1, 0, nil) // empty reason
		case 1:
			body = m.TLVRaw(1, 1, []byte{byte(rng.IntN(5))})
		case 2:
			body = append(m.TLV{Type: 0, Value: []byte("bye")}.Bytes(), m.TLVRaw(1, 0, nil)...)
		default:
			body = m.TLVRaw(1, 2, []byte{0xff, 0xff})
		}
		j := len(c.msgs)
		if c.kinds[j-1] == m.TypeTermination {
			j--
			c.msgs[j] = m.Common(m.TypeTermination, body)
		} else {
			c.add(m.TypeTermination, m.Common(m.TypeTermination, body))
		}
		return done(j)
	case "stats_count", "stats_tlv":
		body := m.TLV{Type: 0, Value: []byte{0, 0, 0, 9}}.Bytes()
		body = append(body, m.TLV{Type: 7, Value: []byte{0, 0, 0, 0, 0, 0, 1, 0}}.Bytes()...)
		count := uint32(2)
		if cls == "stats_count" {
			count = pick(rng, statCounts...)
		} else {
			switch rng.IntN(3) {
			case 0:
				body = append(body, m.TLVRaw(3, 0, nil)...)
				count = 3
			case 1:
				body = append(body, m.TLVRaw(3, pick[uint16](rng, 8, 4096, 65535), []byte{1, 2})...)
				count = 3
			default:
				body = body[:len(body)-1-rng.IntN(6)]
			}
		}
		j := c.afterPeerUps()
		c.insert(j, m.TypeStats, m.StatsRaw(p.hdr, count, body))
		return done(j)
	case "peerup_as_mismatch", "peerup_astrans", "peerup_id0", "peerup_short_open", "peerup_open_garbage", "peerup_dup", "peerup_caps_foreign":
		q := c.newPeer(rng, 9)
		sent := m.OpenFor(c.localAS, c.routerID, true)
		recv := m.OpenFor(q.hdr.AS, q.hdr.BGPID, true)
		sb, rb := sent.Bytes(), recv.Bytes()
		switch cls {
		case "peerup_as_mismatch":
			switch rng.IntN(3) {
			case 0:
				q.hdr.AS++ // per-peer header disagrees with the received OPEN
			case 1:
				recv = m.OpenFor(uint32(64512+rng.IntN(100)), q.hdr.BGPID, rng.IntN(2) == 0)
				rb = recv.Bytes()
			default:
				q.hdr.AS = 0
			}
		case "peerup_astrans":
			switch rng.IntN(3) {
			case 0: // AS_TRANS without the 4-octet capability, header carries the real AS
				q.hdr.AS = 4200000777
				rb = m.Open{AS2: m.ASTrans, Hold: 90, ID: q.hdr.BGPID, Caps: []m.Cap{m.CapMP(1, 1)}}.Bytes()
			case 1: // capability disagrees with the header
				q.hdr.AS = 4200000777
				rb = m.Open{AS2: m.ASTrans, Hold: 90, ID: q.hdr.BGPID, Caps: []m.Cap{m.CapAS4(4200000778)}}.Bytes()
			default: // header says AS_TRANS
				q.hdr.AS = m.ASTrans
				rb = m.Open{AS2: m.ASTrans, Hold: 90, ID: q.hdr.BGPID, Caps: []m.Cap{m.CapAS4(4200000777)}}.Bytes()
			}
		case "peerup_id0":
			if rng.IntN(2) == 0 {
				recv.ID = 0
				rb = recv.Bytes()
			} else {
				sent.ID = 0
				sb = sent.Bytes()
			}
			if rng.IntN(3) == 0 {
				q.hdr.BGPID = 0
			}
		case "peerup_short_open":
			switch rng.IntN(5) {
			case 0: // optional parameter length larger than what follows
				rb = append([]byte(nil), rb...)
				rb[28] = byte(len(rb) - 29 + 1 + rng.IntN(100))
			case 1: // received OPEN cut short, message ends there
				rb = rb[:rng.IntN(29)]
			case 2: // sent OPEN cut short
				sb = sb[:rng.IntN(29)]
			case 3: // both minimal, no parameters
				sb = m.Open{AS2: uint16(c.localAS), Hold: 90, ID: c.routerID}.Bytes()
				rb = m.Open{AS2: uint16(q.hdr.AS), Hold: 90, ID: q.hdr.BGPID}.Bytes()
			default: // no OPENs at all
				sb, rb = nil, nil
			}
		case "peerup_open_garbage":
			switch rng.IntN(5) {
			case 0: // unknown optional parameter type
				body := []byte{4, 0xfd, 0xe9, 0, 90, 10, 0, 0, 9, 4, 7, 2, 1, 1}
				rb = m.BGP(m.BGPOpen, body)
			case 1: // add-path capability whose length is not a multiple of 4
				recv.Caps = append(recv.Caps, m.Cap{Code: 69, Value: []byte{0, 1, 1}})
				rb = recv.Bytes()
			case 2: // capability length beyond the parameter
				body := []byte{4, 0xfd, 0xe9, 0, 90, 10, 0, 0, 9, 4, 2, 2, 65, 200}
				rb = m.BGP(m.BGPOpen, body)
			case 3: // random optional parameters
				g := randBytes(rng, 1+rng.IntN(40))
				body := append([]byte{4, 0xfd, 0xe9, 0, 90, 10, 0, 0, 9, byte(len(g))}, g...)
				rb = m.BGP(m.BGPOpen, body)
			default: // hold time 1, version 3
				body := []byte{pick[byte](rng, 3, 4, 5), 0xfd, 0xe9, 0, pick[byte](rng, 0, 1, 2), 10, 0, 0, 9, 0}
				rb = m.BGP(m.BGPOpen, body)
			}
		case "peerup_dup":
			q = p
			sb, rb = c.opens(rng, p)
		case "peerup_caps_foreign":
			// well-formed OPENs that advertise address families the receiver has no tables for: multiprotocol and
			// add-path tuples for an unassigned AFI with SAFI unicast, VPNv4, labelled unicast, BGP-LS
			fams := [][2]uint16{{25, 1}, {1, 128}, {2, 4}, {16388, 71}, {3, 1}, {0, 1}}
			var tuples [][3]uint16
			var extra []m.Cap
			for k := 1 + rng.IntN(3); k > 0; k-- {
				f := fams[rng.IntN(len(fams))]
				tuples = append(tuples, [3]uint16{f[0], f[1], uint16(1 + rng.IntN(3))})
				if rng.IntN(2) == 0 {
					extra = append(extra, m.CapMP(f[0], uint8(f[1])))
				}
			}
			extra = append(extra, m.CapAddPath(tuples...))
			switch rng.IntN(3) {
			case 0:
				sent.Caps = append(sent.Caps, extra...)
			case 1:
				recv.Caps = append(recv.Caps, extra...)
			default:
				sent.Caps = append(sent.Caps, extra...)
				recv.Caps = append(recv.Caps, extra...)
			}
			sb, rb = sent.Bytes(), recv.Bytes()
		}
		j := c.afterPeerUps()
		c.insert(j, m.TypePeerUp, m.PeerUp(q.hdr, q.local, 179, 4321, sb, rb, nil))
		if cls == "peerup_dup" && rng.IntN(2) == 0 {
			// after the repeated peer up the router reports another, new peer and its routes
			n := c.newPeer(rng, 12)
			nsb, nrb := c.opens(rng, n)
			c.insert(j+1, m.TypePeerUp, m.PeerUp(n.hdr, n.local, 179, 4321, nsb, nrb, nil))
			c.insert(j+2, m.TypeRouteMonitoring, m.RouteMonitoring(n.hdr, c.update(rng, n, false)))
			return done(j)
		}
		// traffic for the peer whose peer up was hostile
		c.insert(j+1, m.TypeRouteMonitoring, m.RouteMonitoring(q.hdr, c.update(rng, q, false)))
		if rng.IntN(2) == 0 {
			c.insert(j+2, m.TypePeerDown, m.PeerDown(q.hdr, 4, nil))
		}
		return done(j)
	case "rm_unknown_peer":
		q := c.newPeer(rng, 11)
		if rng.IntN(3) == 0 { // known address, other distinguisher
			q = p
			q.hdr.RD ^= 1 << 20
		}
		j := 1 + rng.IntN(len(c.msgs))
		if c.kinds[len(c.kinds)-1] == m.TypeTermination && j == len(c.msgs) {
			j--
		}
		c.insert(j, m.TypeRouteMonitoring, m.RouteMonitoring(q.hdr, c.update(rng, q, false)))
		return done(j)
	case "rm_after_down":
		j := c.afterPeerUps()
		c.insert(j, m.TypePeerDown, m.PeerDown(p.hdr, 4, nil))
		c.insert(j+1, m.TypeRouteMonitoring, m.RouteMonitoring(p.hdr, c.update(rng, p, false)))
		c.insert(j+2, m.TypePeerDown, m.PeerDown(p.hdr, 4, nil))
		return done(j)
	case "rm_bgp_random", "rm_bgp_hdrlen", "rm_bgp_type", "rm_update_trunc", "rm_update_attr", "rm_update_nlri":
		var bgp []byte
		switch cls {
		case "rm_bgp_random":
			bgp = randBytes(rng, pick(rng, 0, 1, 18, 19, 23, 64, 300))
			if rng.IntN(2) == 0 && len(bgp) >= 19 {
				for k := 0; k < 16; k++ {
					bgp[k] = 0xff
				}
			}
		case "rm_bgp_hdrlen":
			u := c.update(rng, p, false)
			bgp = append([]byte(nil), u...)
			binary.BigEndian.PutUint16(bgp[16:18], pick(rng, uint16(rng.IntN(19)), 19, 20, 22, uint16(len(u)-1), uint16(len(u)+1), 4096, 4097, 65535))
		case "rm_bgp_type":
			switch rng.IntN(6) {
			case 0:
				bgp = m.OpenFor(p.hdr.AS, p.hdr.BGPID, true).Bytes()
			case 1:
				bgp = m.Notification(6, 2)
			case 2:
				bgp = m.Notification(byte(rng.IntN(9)), byte(rng.IntN(12)))
			case 3:
				bgp = m.Keepalive()
			case 4:
				bgp = m.BGP(5, []byte{0, 1, 0, 1}) // ROUTE-REFRESH
			default:
				bgp = m.BGP(pick[byte](rng, 0, 6, 255), randBytes(rng, rng.IntN(8)))
			}
		case "rm_update_trunc":
			u := c.update(rng, p, false)
			cut := 19 + rng.IntN(len(u)-19+1)
			bgp = append([]byte(nil), u[:cut]...)
			if rng.IntN(2) == 0 {
				binary.BigEndian.PutUint16(bgp[16:18], uint16(cut))
			}
		case "rm_update_attr":
			var attrs []byte
			switch rng.IntN(10) {
			case 0: // attribute length beyond the attribute block
				attrs = []byte{0x40, 1, 200, 0}
			case 1: // MP_REACH without NLRI
				nh := make([]byte, 16)
				attrs = append(c.attrs(rng, p, false), m.AttrMPReach(2, 1, nh, nil)...)
			case 2: // MP_REACH with a next hop length beyond the attribute
				attrs = m.Attr(0x80, 14, []byte{0, 2, 1, 200, 1, 2, 3})
			case 3: // AS4_AGGREGATOR / AS4_PATH / AGGREGATOR
				attrs = append(c.attrs(rng, p, true), m.Attr(0xc0, 18, []byte{0, 0, 0xfd, 0xe8, 10, 0, 0, 1})...)
				attrs = append(attrs, m.Attr(0xc0, 17, []byte{2, 1, 0, 0, 0xfd, 0xe8})...)
				attrs = append(attrs, m.Attr(0xc0, 7, []byte{0xfd, 0xe8, 10, 0, 0, 1})...)
			case 4: // AS_PATH with segment count beyond the value
				attrs = m.Attr(0x40, 2, []byte{2, 200, 0, 1})
			case 5: // zero-length well-known attributes
				attrs = append(m.Attr(0x40, 1, nil), m.Attr(0x40, 3, nil)...)
			case 6: // unknown transitive and non-transitive attributes, extended length
				attrs = append(c.attrs(rng, p, true), m.Attr(0xc0, 99, randBytes(rng, 300))...)
				attrs = append(attrs, m.Attr(0x80, 98, randBytes(rng, 3))...)
			case 7: // MP_UNREACH with unknown AFI / truncated
				attrs = m.Attr(0x80, 15, pick(rng, []byte{0, 9, 1, 24, 1, 2, 3}, []byte{0, 2}, []byte{0, 2, 1, 129, 1}))
			case 8: // communities / large communities / cluster list with odd lengths
				attrs = append(m.Attr(0xc0, 8, []byte{1, 2, 3}), m.Attr(0xc0, 32, []byte{1, 2, 3, 4, 5})...)
				attrs = append(attrs, m.Attr(0x80, 10, []byte{1, 2, 3})...)
			default: // duplicate attributes, origin out of range
				attrs = append(m.AttrOrigin(9), m.AttrOrigin(0)...)
			}
			var ns []m.NLRI
			if rng.IntN(2) == 0 {
				ns = append(ns, v4nlri(rng, p.addpath))
			}
			bgp = m.Update(nil, attrs, ns)
		case "rm_update_nlri":
			ns := []m.NLRI{{Len: pick[uint8](rng, 33, 64, 129, 255), Addr: []byte{10, 1, 2, 3}}}
			switch rng.IntN(4) {
			case 0:
				bgp = m.Update(ns, nil, nil)
			case 1:
				bgp = m.Update(nil, c.attrs(rng, p, true), ns)
			case 2: // add-path mismatch: path id present where not negotiated or the reverse
				bgp = m.Update(nil, c.attrs(rng, p, true), []m.NLRI{v4nlri(rng, !p.addpath)})
			default: // withdrawn routes length beyond the message
				u := m.Update([]m.NLRI{v4nlri(rng, p.addpath)}, nil, nil)
				bgp = append([]byte(nil), u...)
				binary.BigEndian.PutUint16(bgp[19:21], pick[uint16](rng, 200, 65535))
			}
		}
		j := c.afterPeerUps()
		c.insert(j, m.TypeRouteMonitoring, m.RouteMonitoring(withL(p, rng.IntN(2) == 0), bgp))
		return done(j)
	case "peerdown_variants":
		var msg []byte
		switch rng.IntN(6) {
		case 0:
			msg = m.PeerDown(p.hdr, pick[uint8](rng, 0, 5, 6, 255), randBytes(rng, rng.IntN(8)))
		case 1:
			msg = m.PeerDown(p.hdr, pick[uint8](rng, 1, 2, 3), nil)
		case 2: // no reason byte
			msg = m.Common(m.TypePeerDown, p.hdr.Bytes())
		case 3: // unknown peer
			q := c.newPeer(rng, 12)
			msg = m.PeerDown(q.hdr, 4, nil)
		case 4: // twice
			msg = append(m.PeerDown(p.hdr, 4, nil), m.PeerDown(p.hdr, 4, nil)...)
		default:
			msg = m.PeerDown(p.hdr, 1, randBytes(rng, 30))
		}
		j := c.afterPeerUps()
		c.insert(j, m.TypePeerDown, msg)
		return done(j)
	case "truncate":
		d := c.bytes()
		cut := rng.IntN(len(d))
		return stream{Data: d[:cut], Label: cls, MutAt: cut, Reset: rng.IntN(2) == 0}
	case "bitflip":
		d := append([]byte(nil), c.bytes()...)
		first := len(d)
		for n := 1 + rng.IntN(4); n > 0; n-- {
			k := rng.IntN(len(d))
			d[k] ^= 1 << uint(rng.IntN(8))
			if k < first {
				first = k
			}
		}
		return stream{Data: d, Label: cls, MutAt: first}
	case "random":
		d := randBytes(rng, 1+rng.IntN(200))
		if rng.IntN(2) == 0 { // plausible header in front
			d = append([]byte{3, 0, 0, 0, byte(6 + rng.IntN(100)), byte(rng.IntN(7))}, d...)
		}
		return stream{Data: d, Label: cls, MutAt: 0}
	case "splice":
		d := c.msgs[i]
		o := genConv(rng, false)
		om := o.msgs[rng.IntN(len(o.msgs))]
		cut := rng.IntN(len(d) + 1)
		c.msgs[i] = append(append(append([]byte(nil), d[:cut]...), om...), d[cut:]...)
		return done(i)
	case "tiny_flood":
		// many minimal messages: per-message overheads must stay proportionate too
		var d []byte
		n := 100 + rng.IntN(400)
		k := rng.IntN(4)
		for j := 0; j < n; j++ {
			switch k {
			case 0:
				d = append(d, m.Initiation()...)
			case 1:
				d = append(d, m.Common(uint8(7+rng.IntN(200)), nil)...)
			case 2:
				d = append(d, m.Common(m.TypeInitiation, m.TLVRaw(0, 65535, nil))...)
			default:
				d = append(d, m.Common(m.TypeStats, append(p.hdr.Bytes(), 0, 0, 0, 0))...)
			}
		}
		j := c.afterPeerUps()
		c.insert(j, -1, d)
		return done(j)
	}
	panic("unknown mutation class " + cls)
}

// genStream is the case generator: case i of the run.
func genStream(rng *rand.Rand, i int) stream {
	var s stream
	switch {
	case i%10 == 0:
		c := genConv(rng, i%20 == 0)
		s = stream{Data: c.bytes(), Label: "valid", MutAt: -1}
	default:
		s = mutate(rng, mutClasses[rng.IntN(len(mutClasses))])
	}
	shape(&s)
	switch rng.IntN(8) {
	case 0:
		s.Feed = 1
	case 1:
		s.Feed = 2 + rng.IntN(40)
	}
	return s
}

// shape keeps the workload affordable on the verification machine, where committing memory costs
// about 40 ms per MiB: a declared frame length in [8 MiB, 3 GiB) is moved to [3 GiB, 4 GiB), where
// the child's address-space limit makes an allocation of that size fail at once instead of being
// zero-filled. The receiver handles both ranges with the same code (one allocation of the declared
// size), so no class of input is lost.
func shape(s *stream) {
	for n := 0; n < 64; n++ {
		changed := false
		for _, f := range m.Split(s.Data) {
			if f.Declared >= 8<<20 && uint32(f.Declared) < 0xc0000000 && f.Len >= 6 {
				binary.BigEndian.PutUint32(s.Data[f.Off+1:f.Off+5], 0xc0000000|uint32(f.Declared)&0x0fffffff)
				changed = true
				break
			}
		}
		if !changed {
			return
		}
	}
}
