// C18: UPDATE packing is lossless and respects the message size limit.
// Monitor: N distinct prefixes with identical attributes are queued on the real update sender
// (hook-built, capture writer), flushed by the sender's own EndOfRIB() or by its 5 ms ticker; the
// captured writes are decoded with the independent codec and compared with the queue: every
// (prefix, path id) announced exactly once, nothing else announced, every UPDATE carries the queued
// attributes, every message at most 4096 bytes with a correct header.
package main

import (
	"encoding/hex"
	"fmt"
	"math/rand/v2"
	"runtime"
	"sync"
	"sync/atomic"
	"time"

	"verifharness/internal/bgpx"
	"verifharness/internal/gen"
	"verifharness/internal/vf"
	"verifharness/internal/wire"
)

type c18case struct {
	Sess    bgpx.Sess     `json:"sess"`
	Path    bgpx.PathSpec `json:"path"`
	N       int           `json:"n"`
	PfxMode string        `json:"pfx_mode"`
	PfxSeed uint64        `json:"pfx_seed"`
	Flush   string        `json:"flush"` // eor | ticker | ticker-held
	// ticker-held: the ticker goroutine is held inside its HoldAt-th connection write (a peer that reads slowly) while
	// Late further prefixes are queued with the same attributes
	Late   int `json:"late,omitempty"`
	HoldAt int `json:"hold_at,omitempty"`
	Block   string        `json:"block"` // how the attribute block was chosen
	Target  int           `json:"target,omitempty"`
}

func asns(rng *rand.Rand, as4 bool, n int) []uint32 {
	out := make([]uint32, n)
	for i := range out {
		if as4 && rng.IntN(2) == 0 {
			out[i] = 65536 + rng.Uint32N(1<<31)
		} else {
			out[i] = 1 + rng.Uint32N(64000)
		}
	}
	return out
}

func comm(rng *rand.Rand) uint32 {
	for {
		if c := rng.Uint32(); c>>16 != 0xffff {
			return c
		}
	}
}

// estBudget is what the sender believes it may spend on NLRI for this path (the sender's own getBudget, through the hook).
func estBudget(c *c18case) int {
	u, _ := bgpx.NewSender(c.Sess)
	return u.VerifBudget(c.Path.Bio())
}

// genCase draws a configuration. Attribute blocks stay inside what C17 established as serialisable
// (segments <= 255 ASNs, CLUSTER_LIST <= 63, unknown attributes <= 255 bytes) so that C18 judges packing only.
func genCase(rng *rand.Rand, i int) c18case {
	c := c18case{}
	fam := i % 3
	c.Sess = bgpx.Sess{V6: fam == 2, MP: fam != 0, AddPath: (i/3)%2 == 0, AS4: rng.IntN(4) != 0}
	switch (i / 6) % 3 {
	case 1:
		c.Sess.IBGP = true
	case 2:
		c.Sess.IBGP, c.Sess.RR = true, true
	}
	s := c.Sess
	p := bgpx.PathSpec{Origin: uint8(rng.IntN(3)), V6: s.V6, LocalPref: rng.Uint32(), Source: 0x0a0a0a0a}
	if s.V6 {
		p.NextHop = [2]uint64{0x20010db800000000, uint64(i + 1)}
	} else {
		p.NextHop = [2]uint64{0, uint64(0x0a000000 | uint32(i+1)&0xffffff)}
	}
	if s.AddPath {
		p.PathID = 1 + rng.Uint32N(1<<31)
	}
	p.ASPath = []bgpx.Seg{{T: 2, A: asns(rng, s.AS4, 1+rng.IntN(6))}}
	if s.RR {
		p.OrigID = 1 + rng.Uint32N(1<<31)
		p.Cluster = []uint32{rng.Uint32()}
	}
	blocks := []string{"small", "small", "combo", "combo", "threshold", "big", "big", "tiny-budget"}
	c.Block = blocks[rng.IntN(len(blocks))]
	combo := func() {
		if rng.IntN(2) == 0 {
			p.MED = 1 + rng.Uint32N(1<<31)
		}
		if rng.IntN(2) == 0 {
			p.Aggr = &[2]uint32{1 + rng.Uint32N(65000), rng.Uint32()}
		}
		p.Atomic = rng.IntN(2) == 0
		if rng.IntN(2) == 0 && s.RR {
			p.Cluster = make([]uint32, 1+rng.IntN(63))
		}
		if rng.IntN(3) == 0 {
			v := make([]byte, rng.IntN(256))
			p.Unknown = []bgpx.Unk{{Type: uint8(100 + rng.IntN(100)), Optional: true, Value: hex.EncodeToString(v)}}
		}
		if rng.IntN(3) == 0 {
			p.OTC = 1 + rng.Uint32N(64000) // ONLY_TO_CUSTOMER (RFC 9234)
		}
	}
	fill := func(n int) []uint32 {
		out := make([]uint32, n)
		for k := range out {
			out[k] = comm(rng)
		}
		return out
	}
	switch c.Block {
	case "small":
		if rng.IntN(2) == 0 {
			p.MED = rng.Uint32()
		}
		p.Comms = fill(rng.IntN(4))
	case "combo":
		combo()
		p.Comms = fill(rng.IntN(70))
		for k, n := 0, rng.IntN(25); k < n; k++ {
			p.LComms = append(p.LComms, [3]uint32{rng.Uint32(), rng.Uint32(), rng.Uint32()})
		}
		for k, n := 0, rng.IntN(3); k < n; k++ {
			p.ASPath = append(p.ASPath, bgpx.Seg{T: uint8(1 + rng.IntN(2)), A: asns(rng, s.AS4, 1+rng.IntN(80))})
		}
	case "threshold":
		// around the 255-byte boundaries of COMMUNITIES (63/64), LARGE_COMMUNITIES (21/22) and AS_PATH
		combo()
		switch rng.IntN(3) {
		case 0:
			p.Comms = fill(60 + rng.IntN(8))
		case 1:
			for k, n := 0, 19+rng.IntN(6); k < n; k++ {
				p.LComms = append(p.LComms, [3]uint32{rng.Uint32(), rng.Uint32(), rng.Uint32()})
			}
		case 2:
			w := 2
			if s.AS4 {
				w = 4
			}
			p.ASPath = []bgpx.Seg{{T: 2, A: asns(rng, s.AS4, (253/w)-2+rng.IntN(5))}}
		}
	case "big", "tiny-budget":
		combo()
		p.ASPath = []bgpx.Seg{{T: 2, A: asns(rng, s.AS4, 1+rng.IntN(250))}}
		// binary search (on the number of communities) for an attribute block whose estimated budget is the target
		c.Target = 40 + rng.IntN(900)
		if c.Block == "tiny-budget" {
			// room for a handful of NLRI per message, down to estimates that say "not even one fits" while the real
			// UPDATE still does (the estimate reserves room for attributes the path may not carry)
			c.Target = -12 + rng.IntN(97)
		}
		c.Path = p
		lo, hi := 0, 1000
		for lo < hi {
			mid := (lo + hi) / 2
			c.Path.Comms = make([]uint32, mid)
			if estBudget(&c) > c.Target {
				lo = mid + 1
			} else {
				hi = mid
			}
		}
		p.Comms = fill(lo)
	}
	if len(p.Comms) == 0 {
		p.Comms = nil
	}
	c.Path = p
	// prefix count: mostly enough to fill several messages
	switch x := rng.IntN(20); {
	case x < 4:
		c.N = 1 + rng.IntN(20)
	case x < 14:
		c.N = 20 + rng.IntN(600)
	case x < 19:
		c.N = 600 + rng.IntN(1500)
	default:
		c.N = 2000 + rng.IntN(3001)
	}
	if c.Block == "tiny-budget" && c.N > 400 {
		c.N = 1 + rng.IntN(400)
	}
	if c.Block == "big" && c.N > 1200 {
		c.N = 100 + rng.IntN(1100) // hashing a large attribute block per queued prefix is what costs time
	}
	c.PfxMode = []string{"mixed", "mixed", "short", "host"}[rng.IntN(4)]
	c.PfxSeed = rng.Uint64()
	c.Flush = "eor"
	if i%8 == 7 {
		c.Flush = "ticker"
	}
	if i%8 == 3 {
		c.Flush = "ticker-held"
		c.HoldAt = rng.IntN(3)
		c.Late = 1 + rng.IntN(40)
		if rng.IntN(4) == 0 {
			c.Late = 40 + rng.IntN(400)
		}
	}
	return c
}

type cstat struct {
	msgs, announced, maxLen, empty, unsendable int
	heldLate                                   int // prefixes queued while the sender was held inside a write
	multi                          bool // more than one announcement message: the budget decided a cut
	hung                           bool
}

func runCase(c c18case, rep func(clause string, f map[string]string, detail string)) (st cstat) {
	s := c.Sess
	feat := func(kv ...any) map[string]string { return vf.F(kv...) }
	defer func() {
		if p := recover(); p != nil {
			stk := make([]byte, 2500)
			stk = stk[:runtime.Stack(stk, false)]
			rep("panic", vf.F("where", bgpx.PanicSite(stk)), fmt.Sprintf("%s: panic: %v\n%s", s, p, stk))
		}
	}()
	pfxs := bgpx.Pfxs(!s.V6, c.N+c.Late, c.PfxMode, c.PfxSeed)
	late := pfxs[c.N:]
	u, cap := bgpx.NewSender(s)
	for _, p := range pfxs[:c.N] {
		u.AddPath(p.Bio(), c.Path.Bio())
	}
	drain := func() {
		deadline := time.Now().Add(30 * time.Second)
		for u.VerifPending() != 0 {
			if time.Now().After(deadline) {
				st.hung = true
				break
			}
			time.Sleep(time.Millisecond)
		}
		u.Destroy() // rendezvous with the sender goroutine at the top of its loop: the round that emptied the queue has been written
	}
	if c.Flush == "ticker-held" {
		var nw atomic.Int32
		entered, release, drained := make(chan struct{}, 1), make(chan struct{}), make(chan struct{})
		cap.Gate = func([]byte) {
			if int(nw.Add(1))-1 == c.HoldAt {
				entered <- struct{}{}
				<-release
			}
		}
		u.Start(5 * time.Millisecond)
		go func() { // the queue may drain in fewer than HoldAt+1 writes: then nothing is held
			deadline := time.Now().Add(30 * time.Second)
			for u.VerifPending() != 0 && time.Now().Before(deadline) {
				time.Sleep(time.Millisecond)
			}
			close(drained)
		}()
		addLate := func() {
			for _, p := range late {
				u.AddPath(p.Bio(), c.Path.Bio())
			}
		}
		select {
		case <-entered:
			// the sender is inside con.Write: queue the late prefixes from another goroutine (a sender that keeps its
			// queue locked while writing makes them wait until the round is over), give them 30 ms to run, release
			st.heldLate = len(late)
			done := make(chan struct{})
			go func() { addLate(); close(done) }()
			select {
			case <-done:
			case <-time.After(30 * time.Millisecond):
			}
			close(release)
			<-done
		case <-drained:
			close(release)
			addLate()
		}
		<-drained
		drain()
	} else if c.Flush == "ticker" {
		// started after queueing so that the first tick sees the whole queue (which prefixes share a round
		// would otherwise depend on the scheduler and the case would not replay)
		u.Start(5 * time.Millisecond)
		drain()
	} else {
		u.EndOfRIB()
	}
	writes := cap.Take()
	if c.Flush == "eor" && len(writes) > 0 {
		writes = writes[:len(writes)-1] // the End-of-RIB marker (judged by C17)
	}
	// reference size of the attribute block
	ref := bgpx.ReferenceAttrs(&c.Path, s)
	trueAttr := bgpx.AttrBytes(ref.Build(s.WireOpts()))
	if s.MP {
		trueAttr++ // MP_REACH_NLRI needs the extended-length header as soon as it carries more than ~230 bytes of NLRI
	}
	est := 4096 - 19 - 4 - estBudget(&c) // estimated attribute bytes incl. MP overhead
	under := trueAttr > est
	want := map[string]int{}
	for _, p := range pfxs {
		want[p.Key()]++
	}
	got := map[string]int{}
	exp := bgpx.Expect{Sess: s}
	opts := s.WireOpts()
	for _, w := range writes {
		st.msgs++
		if len(w) > st.maxLen {
			st.maxLen = len(w)
		}
		typ, body, bad := bgpx.CheckFrame(w)
		if bad != "" || typ != wire.TypeUpdate {
			rep("framing", feat(), fmt.Sprintf("%s: %s (type %d)", s, bad, typ))
			continue
		}
		up, err := decodeLenient(body, opts)
		if err != nil {
			rep("undecodable", feat(), fmt.Sprintf("%s: %v", s, err))
			continue
		}
		if ds := bgpx.Compare(&c.Path, exp, up.PA); len(ds) > 0 {
			for _, d := range ds {
				if d.Attr == "unknown-attribute-flags" {
					continue // C17's finding, not a packing matter
				}
				rep("attributes", feat("attr", d.Attr), fmt.Sprintf("%s: %s", s, d.Detail))
			}
		}
		an := up.Announced()
		if len(an) == 0 {
			st.empty++
		}
		for _, a := range an {
			wantFam := wire.IPv4Unicast
			if s.V6 {
				wantFam = wire.IPv6Unicast
			}
			id := a.NLRI.PathID
			if !s.AddPath {
				id = 0
			}
			if a.Family != wantFam || id != c.Path.PathID {
				rep("spurious", feat(), fmt.Sprintf("%s: announced %s of family %s with path id %d, queued id %d", s, a.NLRI, a.Family, id, c.Path.PathID))
				continue
			}
			got[bgpx.NLRIToP(a.NLRI).Key()]++
			st.announced++
		}
		if len(up.Withdrawals()) != 0 {
			rep("spurious", feat(), fmt.Sprintf("%s: announcement carries %d withdrawals", s, len(up.Withdrawals())))
		}
	}
	st.multi = st.msgs > 1
	lost, lostLate, dup, extra := 0, 0, 0, 0
	var firstLost gen.P
	for pi, p := range pfxs {
		switch n := got[p.Key()]; {
		case n == 0:
			// a prefix that does not fit into an UPDATE of 4096 bytes even on its own (attribute block + this one
			// NLRI) cannot be announced by any sender: outside what the property can ask for (2 bytes of slack
			// for the extended-length header of MP_REACH_NLRI)
			nl := 1 + (int(p.Len)+7)/8
			if s.AddPath {
				nl += 4
			}
			if 19+4+trueAttr+nl > 4096-2 {
				st.unsendable++
				continue
			}
			if lost == 0 {
				firstLost = p
			}
			lost++
			if pi >= c.N {
				lostLate++
			}
		case n > 1:
			dup++
		}
	}
	for k := range got {
		if want[k] == 0 {
			extra++
		}
	}
	if c.Flush == "ticker-held" {
		how := "the queue drained before that write"
		if st.heldLate > 0 {
			how = "queued while the sender was inside that write"
		}
		c.Flush = fmt.Sprintf("%s[hold at write %d, %d late prefixes %s]", c.Flush, c.HoldAt, c.Late, how) // c is this function's copy
	}
	ctx := fmt.Sprintf("%s, %d prefixes (%s), block %s, flush %s: %d messages, attribute block truly %d bytes, estimated %d (budget %d)", s, c.N, c.PfxMode, c.Block, c.Flush, st.msgs, trueAttr, est, estBudget(&c))
	if st.hung {
		rep("hang", feat(), ctx+": the ticker did not drain the queue within 30 s")
	}
	if lost > 0 {
		// the queue is cut into consecutive runs: was the run that starts the queue among the lost ones?
		firstRunLost := got[pfxs[0].Key()] == 0
		if st.heldLate > 0 && lostLate == lost {
			rep("lost-queued-during-write", feat("attribute_length_underestimated", under), fmt.Sprintf("%s: %d of the %d prefixes that were queued while the sender was writing an UPDATE with the same attributes were never announced (first: %s)", ctx, lost, c.Late, firstLost))
		} else {
			rep("lost", feat("first_update_lost", firstRunLost, "attribute_length_underestimated", under), fmt.Sprintf("%s: %d of %d queued prefixes never announced (first: %s)", ctx, lost, c.N+c.Late, firstLost))
		}
	}
	if dup > 0 {
		rep("duplicate", feat(), fmt.Sprintf("%s: %d prefixes announced more than once", ctx, dup))
	}
	if extra > 0 {
		rep("spurious", feat(), fmt.Sprintf("%s: %d announced prefixes were never queued", ctx, extra))
	}
	return st
}

// decodeLenient is wire.DecodeUpdate except that a 6-byte AGGREGATOR on a 4-octet-AS session (C17's
// finding) is widened instead of rejected, so that C18 keeps judging the packing.
func decodeLenient(body []byte, o wire.Options) (*wire.Update, error) {
	u, err := wire.DecodeUpdate(body, o)
	if err == nil || !o.AS4 || len(body) < 4 {
		return u, err
	}
	wl := int(body[0])<<8 | int(body[1])
	if 4+wl > len(body) {
		return nil, err
	}
	al := int(body[2+wl])<<8 | int(body[3+wl])
	if 4+wl+al > len(body) {
		return nil, err
	}
	attrs, e := wire.SplitAttrs(body[4+wl : 4+wl+al])
	if e != nil {
		return nil, err
	}
	for i, a := range attrs {
		if a.Type == wire.AttrAggregator && len(a.Value) == 6 {
			attrs[i].Value = append([]byte{0, 0}, a.Value...)
		}
	}
	u = &wire.Update{Attrs: attrs}
	if u.Withdrawn, e = wire.DecodeNLRIs(body[2:2+wl], wire.IPv4Unicast, o.AddPathIPv4); e != nil {
		return nil, e
	}
	if u.NLRI, e = wire.DecodeNLRIs(body[4+wl+al:], wire.IPv4Unicast, o.AddPathIPv4); e != nil {
		return nil, e
	}
	if u.PA, e = wire.ParseAttrs(attrs, o); e != nil {
		return nil, e
	}
	return u, nil
}

func main() {
	vf.Main("C18", "exploration", func(r *vf.Run) {
		bgpx.Quiet()
		r.Rule("configurations = {IPv4, IPv4-MP, IPv6-MP} x add-path on/off x {eBGP, iBGP, RR client} (all 18 combinations cycled) x 2/4-octet AS x attribute block {small; combination of MED, AGGREGATOR, ATOMIC_AGGREGATE, ORIGINATOR_ID/CLUSTER_LIST, ONLY_TO_CUSTOMER, unknown attribute, several AS_PATH segments, communities, large communities; blocks at the 255-byte extended-length thresholds; big blocks whose sender-estimated NLRI budget is binary-searched at run time to a target of 40..940 bytes; tiny budgets of -12..84 bytes, i.e. including estimates below one NLRI} x N in 1..5000 distinct prefixes with mixed / short / host lengths (NLRI of 1-5 resp. 1-17 bytes) x flush by EndOfRIB() (6 of 8), by the 5 ms ticker (1 of 8), or by the ticker with a slow peer (1 of 8): the ticker goroutine is held inside its 1st, 2nd or 3rd connection write (capture gate) while 1..440 further prefixes with the same attributes are queued from another goroutine, then released and drained - all N + late prefixes must be announced exactly once. distinct_nontrivial = configurations in which the sender cut the queue into more than one UPDATE (the budget decided), keyed by (session, block, N, prefix mode)")
		r.Assume("attribute blocks stay within what serialises correctly (C17 owns one-byte length overflows): segments <= 255 ASNs, CLUSTER_LIST <= 63, unknown attributes <= 255 bytes",
			"every attribute block leaves room for at least a few NLRI according to a correct size computation",
			"an UPDATE that announces nothing is not judged", "a 6-byte AGGREGATOR on a 4-octet-AS session and a cleared Partial bit are C17 findings and tolerated here")
		r.NonDeterministic("hang")
		var vmu sync.Mutex
		mk := func(c c18case) func(string, map[string]string, string) {
			return func(clause string, f map[string]string, detail string) {
				vmu.Lock()
				defer vmu.Unlock()
				r.Violate(vf.Violation{Clause: clause, Features: f, Detail: detail, Case: c})
			}
		}
		if raw, ok := r.Replaying(); ok {
			var c c18case
			vf.Decode(raw, &c)
			runCase(c, mk(c))
			return
		}
		n := r.N(2400, 60000)
		perBlock := map[string]int{}
		perSess := map[string]int{}
		var mu sync.Mutex
		vf.Parallel(n, 8, func(i int) {
			rng := r.RandN("c18", i)
			c := genCase(rng, i)
			st := runCase(c, mk(c))
			r.Eval(st.announced + st.msgs)
			r.Count("configurations", 1)
			r.Count("prefixes_queued", c.N+c.Late)
			r.Count("prefixes_announced", st.announced)
			r.Count("updates_captured", st.msgs)
			r.Count("updates_without_nlri", st.empty)
			r.Count("prefixes_that_fit_no_update_not_judged", st.unsendable)
			r.Max("max_message_bytes", int64(st.maxLen))
			if st.multi {
				r.Nontrivial(fmt.Sprintf("%s/%s/%d/%s", c.Sess, c.Block, c.N, c.PfxMode))
				r.Count("configurations_with_several_updates", 1)
			}
			if c.Flush == "ticker" {
				r.Count("flushed_by_ticker", 1)
			}
			if st.heldLate > 0 {
				r.Count("configurations_with_prefixes_queued_during_a_write", 1)
				r.Count("prefixes_queued_during_a_write", st.heldLate)
			}
			mu.Lock()
			perBlock[c.Block]++
			perSess[c.Sess.Family()+"/"+c.Sess.Kind()+fmt.Sprintf("/addpath=%v", c.Sess.AddPath)]++
			mu.Unlock()
			if i < 4 {
				r.Sample(map[string]any{"session": c.Sess.String(), "block": c.Block, "n": c.N, "prefix_mode": c.PfxMode, "flush": c.Flush, "estimated_budget": estBudget(&c), "updates": st.msgs})
			}
		})
		r.Set("configurations_by_block", perBlock)
		r.Set("configurations_by_session", perSess)
		r.Require("configurations_with_several_updates", int64(n/4))
		r.Require("flushed_by_ticker", int64(n/16))
		r.Require("configurations_with_prefixes_queued_during_a_write", int64(n/24))
	})
}
