// C14: policy evaluation agrees with a reference interpreter; chains that compare equal behave equally.
// Oracle 1: an independent interpreter over the generated chain specification (filters and terms in order; a
// term applies when it has no conditions or ANY condition matches; a condition = AND of its parts, each part
// = OR of its entries; the first accept/reject ends evaluation with the path as modified so far; default
// accept), matchers decided by bit-level containment (gen.P.Covers). Compared: reject flag and a deep
// projection of the returned path. Oracle 2: for a chain c and a copy d with exactly one leaf mutated, if
// c.Equal(d) is true both must produce identical outcomes on the whole probe corpus.
package main

import (
	"encoding/json"
	"fmt"
	"math/rand/v2"
	"runtime"
	"strings"
	"sync"

	bnet "github.com/bio-routing/bio-rd/net"
	"github.com/bio-routing/bio-rd/protocols/bgp/types"
	"github.com/bio-routing/bio-rd/route"
	"github.com/bio-routing/bio-rd/routingtable/filter"
	"github.com/bio-routing/bio-rd/routingtable/filter/actions"

	"verifharness/internal/gen"
	"verifharness/internal/vf"
)

// ---------- specification types (JSON-serialisable; the real objects are built from them) ----------

type rfSpec struct {
	Pat gen.P  `json:"pat"`
	M   string `json:"m"` // exact | orlonger | longer | range
	Min uint8  `json:"min,omitempty"`
	Max uint8  `json:"max,omitempty"`
}

type condSpec struct {
	Ctor   string    `json:"ctor"` // both | rf | pl | proto  (which exported constructor builds it)
	PLs    [][]gen.P `json:"pls,omitempty"`
	RFs    []rfSpec  `json:"rfs,omitempty"`
	Protos []uint8   `json:"protos,omitempty"`
}

type actSpec struct {
	K     string `json:"k"` // accept | reject | lp | med | nh | prepend
	V     uint32 `json:"v,omitempty"`
	Times uint16 `json:"times,omitempty"`
	NH    gen.P  `json:"nh,omitempty"` // host prefix used as an address
}

type termSpec struct {
	From []condSpec `json:"from"`
	Then []actSpec  `json:"then"`
}

type filterSpec struct {
	Terms []termSpec `json:"terms"`
}

type chainSpec struct {
	Filters []filterSpec `json:"filters"`
}

type segSpec struct {
	Seq  bool     `json:"seq"`
	ASNs []uint32 `json:"asns"`
}

type pathSpec struct {
	BGP    bool      `json:"bgp"`
	NH     gen.P     `json:"nh"`
	LP     uint32    `json:"lp,omitempty"`
	MED    uint32    `json:"med,omitempty"`
	ASPath []segSpec `json:"as_path,omitempty"`
	Comm   []uint32  `json:"comm,omitempty"`
	ID     uint32    `json:"id"` // unique per probe: BGP identifier / nothing for static
}

type probe struct {
	Pfx  gen.P    `json:"pfx"`
	Path pathSpec `json:"path"`
}

type ccase struct {
	Chain   chainSpec  `json:"chain"`
	Mut     *chainSpec `json:"mut,omitempty"`
	MutKind string     `json:"mut_kind,omitempty"`
	Probes  []probe    `json:"probes"`
	Family  string     `json:"family"` // family of the chain's own patterns
	Mixed   bool       `json:"mixed"`  // the chain also holds patterns of the other family
}

func ipOf(p gen.P) bnet.IP { return p.Bio().Addr() }

// ---------- building the real objects ----------

type builder struct {
	pfx map[string]*bnet.Prefix // identical pattern values share one pointer (RouteFilter.equal compares pointers)
}

func (b *builder) prefix(p gen.P) *bnet.Prefix {
	k := p.Key()
	if x, ok := b.pfx[k]; ok {
		return x
	}
	x := p.Bio()
	b.pfx[k] = x
	return x
}

func (b *builder) chain(c chainSpec) filter.Chain {
	var out filter.Chain
	for fi, f := range c.Filters {
		var terms []*filter.Term
		for ti, t := range f.Terms {
			var from []*filter.TermCondition
			for _, cd := range t.From {
				var pls []*filter.PrefixList
				for _, pl := range cd.PLs {
					var ps []*bnet.Prefix
					for _, p := range pl {
						ps = append(ps, b.prefix(p))
					}
					pls = append(pls, filter.NewPrefixList(ps...))
				}
				var rfs []*filter.RouteFilter
				for _, rf := range cd.RFs {
					var m filter.PrefixMatcher
					switch rf.M {
					case "exact":
						m = filter.NewExactMatcher()
					case "orlonger":
						m = filter.NewOrLongerMatcher()
					case "longer":
						m = filter.NewLongerMatcher()
					default:
						m = filter.NewInRangeMatcher(rf.Min, rf.Max)
					}
					rfs = append(rfs, filter.NewRouteFilter(b.prefix(rf.Pat), m))
				}
				switch cd.Ctor {
				case "both":
					from = append(from, filter.NewTermCondition(pls, rfs))
				case "rf":
					from = append(from, filter.NewTermConditionWithRouteFilters(rfs...))
				case "pl":
					from = append(from, filter.NewTermConditionWithPrefixLists(pls...))
				default:
					from = append(from, filter.NewTermConditionWithProtocols(cd.Protos...))
				}
			}
			var then []actions.Action
			for _, a := range t.Then {
				switch a.K {
				case "accept":
					then = append(then, actions.NewAcceptAction())
				case "reject":
					then = append(then, actions.NewRejectAction())
				case "lp":
					then = append(then, actions.NewSetLocalPrefAction(a.V))
				case "med":
					then = append(then, actions.NewSetMEDAction(a.V))
				case "nh":
					ip := ipOf(a.NH)
					then = append(then, actions.NewSetNextHopAction(&ip))
				case "prepend":
					then = append(then, actions.NewASPathPrependAction(a.V, a.Times))
				}
			}
			terms = append(terms, filter.NewTerm(fmt.Sprintf("t%d", ti), from, then))
		}
		out = append(out, filter.NewFilter(fmt.Sprintf("f%d", fi), terms))
	}
	return out
}

func buildPath(s pathSpec) *route.Path {
	nh := ipOf(s.NH)
	if !s.BGP {
		return &route.Path{Type: route.StaticPathType, StaticPath: &route.StaticPath{NextHop: &nh}}
	}
	b := route.NewBGPPath()
	src := bnet.IPv4(s.ID)
	b.BGPPathA.NextHop = &nh
	b.BGPPathA.Source = &src
	b.BGPPathA.LocalPref = s.LP
	b.BGPPathA.MED = s.MED
	b.BGPPathA.BGPIdentifier = s.ID
	b.BGPPathA.OriginatorID = s.ID ^ 0x5a5a
	b.BGPPathA.Origin = uint8(s.ID % 3)
	b.BGPPathA.EBGP = s.ID%2 == 0
	b.PathIdentifier = s.ID + 7
	ap := make(types.ASPath, 0, len(s.ASPath))
	for _, sg := range s.ASPath {
		t := uint8(types.ASSet)
		if sg.Seq {
			t = types.ASSequence
		}
		ap = append(ap, types.ASPathSegment{Type: t, ASNs: append([]uint32{}, sg.ASNs...)})
	}
	b.ASPath = &ap
	b.ASPathLen = ap.Length()
	if s.Comm != nil {
		c := types.Communities(append([]uint32{}, s.Comm...))
		b.Communities = &c
	}
	cl := types.ClusterList{s.ID, 9}
	b.ClusterList = &cl
	return &route.Path{Type: route.BGPPathType, BGPPath: b}
}

// ---------- projection of a path (what "the rewritten path" is compared on) ----------

func flatAS(segs []segSpec) (string, int) {
	var b strings.Builder
	n := 0
	for _, s := range segs {
		if s.Seq {
			for _, a := range s.ASNs {
				fmt.Fprintf(&b, "%d ", a)
				n++
			}
		} else {
			b.WriteString("{")
			for _, a := range s.ASNs {
				fmt.Fprintf(&b, "%d,", a)
			}
			b.WriteString("} ")
			n++
		}
	}
	return b.String(), n
}

func projSpec(s pathSpec) string {
	if !s.BGP {
		return fmt.Sprintf("static nh=%s", ipOf(s.NH).String())
	}
	as, n := flatAS(s.ASPath)
	return fmt.Sprintf("bgp nh=%s lp=%d med=%d as=[%s] aslen=%d comm=%v id=%d src=%s orig=%d origin=%d ebgp=%v pathid=%d cl=%v hidden=0",
		ipOf(s.NH).String(), s.LP, s.MED, as, n, s.Comm, s.ID, bnet.IPv4(s.ID).String(), s.ID^0x5a5a, s.ID%3, s.ID%2 == 0, s.ID+7, []uint32{s.ID, 9})
}

func projReal(p *route.Path) string {
	if p == nil {
		return "nil"
	}
	switch p.Type {
	case route.StaticPathType:
		if p.StaticPath == nil || p.StaticPath.NextHop == nil {
			return "static nh=nil"
		}
		return fmt.Sprintf("static nh=%s", p.StaticPath.NextHop.String())
	case route.BGPPathType:
		b := p.BGPPath
		if b == nil || b.BGPPathA == nil {
			return "bgp nil"
		}
		a := b.BGPPathA
		var segs []segSpec
		if b.ASPath != nil {
			for _, s := range *b.ASPath {
				segs = append(segs, segSpec{Seq: s.Type == types.ASSequence, ASNs: s.ASNs})
			}
		}
		as, _ := flatAS(segs)
		var comm []uint32
		if b.Communities != nil {
			comm = *b.Communities
		}
		var cl []uint32
		if b.ClusterList != nil {
			cl = *b.ClusterList
		}
		nh, src := "nil", "nil"
		if a.NextHop != nil {
			nh = a.NextHop.String()
		}
		if a.Source != nil {
			src = a.Source.String()
		}
		return fmt.Sprintf("bgp nh=%s lp=%d med=%d as=[%s] aslen=%d comm=%v id=%d src=%s orig=%d origin=%d ebgp=%v pathid=%d cl=%v hidden=%d",
			nh, a.LocalPref, a.MED, as, b.ASPathLen, comm, a.BGPIdentifier, src, a.OriginatorID, a.Origin, a.EBGP, b.PathIdentifier, cl, p.HiddenReason)
	}
	return fmt.Sprintf("type=%d", p.Type)
}

// ---------- reference interpreter ----------

func rfMatches(rf rfSpec, q gen.P) bool {
	switch rf.M {
	case "exact":
		return rf.Pat.V4 == q.V4 && rf.Pat.Len == q.Len && rf.Pat.Covers(q)
	case "orlonger":
		return rf.Pat.Covers(q)
	case "longer":
		return rf.Pat.Covers(q) && q.Len > rf.Pat.Len
	}
	return rf.Pat.Covers(q) && q.Len >= rf.Min && q.Len <= rf.Max
}

func condMatches(c condSpec, q gen.P, ps pathSpec, tr *trace) bool {
	if len(c.PLs) > 0 {
		ok := false
		for _, pl := range c.PLs {
			for _, p := range pl {
				if p.V4 == q.V4 && p.Len == q.Len && p.Covers(q) {
					ok = true
				}
			}
		}
		tr.part("prefix_list", ok)
		if !ok {
			return false
		}
	}
	if len(c.RFs) > 0 {
		ok := false
		for _, rf := range c.RFs {
			m := rfMatches(rf, q)
			tr.matcher(rf.M, m)
			if m {
				ok = true
			}
		}
		tr.part("route_filter", ok)
		if !ok {
			return false
		}
	}
	if len(c.Protos) > 0 {
		t := uint8(route.StaticPathType)
		if ps.BGP {
			t = route.BGPPathType
		}
		ok := false
		for _, p := range c.Protos {
			if p == t {
				ok = true
			}
		}
		tr.part("protocol", ok)
		if !ok {
			return false
		}
	}
	return true
}

type trace struct {
	parts    map[string]int
	matchers map[string]int
	acts     map[string]int
	end      string // accept | reject | default
	modified bool
	skipped  bool // at least one term with conditions did not apply before the deciding one
	decidedAt int
}

func sfx(k string, ok bool) string {
	if ok {
		return k + ":true"
	}
	return k + ":false"
}
func (t *trace) part(k string, ok bool)    { t.parts[sfx(k, ok)]++ }
func (t *trace) matcher(k string, ok bool) { t.matchers[sfx(k, ok)]++ }

func refEval(c chainSpec, q gen.P, ps pathSpec, tr *trace) (bool, pathSpec) {
	ps.ASPath = append([]segSpec{}, ps.ASPath...)
	idx := 0
	for _, f := range c.Filters {
		for _, t := range f.Terms {
			idx++
			applies := len(t.From) == 0
			for _, cd := range t.From {
				if condMatches(cd, q, ps, tr) {
					applies = true
					break
				}
			}
			if !applies {
				tr.skipped = true
				continue
			}
			for _, a := range t.Then {
				tr.acts[a.K]++
				switch a.K {
				case "accept":
					tr.end, tr.decidedAt = "accept", idx
					return false, ps
				case "reject":
					tr.end, tr.decidedAt = "reject", idx
					return true, ps
				case "lp":
					if ps.BGP {
						ps.LP = a.V
						tr.modified = true
					}
				case "med":
					if ps.BGP {
						ps.MED = a.V
						tr.modified = true
					}
				case "nh":
					// bio-rd's SetNextHop action rewrites the next hop of BGP and of static paths; the statement is silent, the choice is accepted
					ps.NH = a.NH
					tr.modified = true
				case "prepend":
					if ps.BGP && a.Times > 0 {
						pre := make([]uint32, a.Times)
						for i := range pre {
							pre[i] = a.V
						}
						ps.ASPath = append([]segSpec{{Seq: true, ASNs: pre}}, ps.ASPath...)
						tr.modified = true
					}
				}
			}
		}
	}
	tr.end = "default"
	return false, ps
}

// ---------- generators ----------

func genIP(rng *rand.Rand, v4 bool) gen.P {
	p := gen.P{V4: v4, Hi: rng.Uint64(), Lo: rng.Uint64(), Len: 128}
	if v4 {
		p.Len = 32
	}
	return p.Canon()
}

func genRF(rng *rand.Rand, pats []gen.P) rfSpec {
	p := pats[rng.IntN(len(pats))]
	rf := rfSpec{Pat: p, M: []string{"exact", "orlonger", "longer", "range"}[rng.IntN(4)]}
	if rf.M == "range" {
		w := p.Width()
		lo := int(p.Len) - 1 + rng.IntN(5)
		if lo < 0 {
			lo = 0
		}
		if lo > w {
			lo = w
		}
		hi := lo - 1 + rng.IntN(w-lo+2)
		if rng.IntN(3) == 0 {
			hi = lo + rng.IntN(4)
		}
		if hi < 0 {
			hi = 0
		}
		if hi > w {
			hi = w
		}
		rf.Min, rf.Max = uint8(lo), uint8(hi)
	}
	return rf
}

func genCond(rng *rand.Rand, pats []gen.P) condSpec {
	nrf := func() []rfSpec {
		var out []rfSpec
		for i, n := 0, 1+rng.IntN(3); i < n; i++ {
			out = append(out, genRF(rng, pats))
		}
		return out
	}
	npl := func() [][]gen.P {
		var out [][]gen.P
		for i, n := 0, 1+rng.IntN(2); i < n; i++ {
			pl := []gen.P{}
			for j, m := 0, rng.IntN(4); j < m; j++ {
				pl = append(pl, pats[rng.IntN(len(pats))])
			}
			out = append(out, pl)
		}
		return out
	}
	switch x := rng.IntN(10); {
	case x < 4:
		return condSpec{Ctor: "rf", RFs: nrf()}
	case x < 6:
		return condSpec{Ctor: "pl", PLs: npl()}
	case x < 8:
		c := condSpec{Ctor: "both"}
		if rng.IntN(5) != 0 {
			c.PLs = npl()
		}
		if rng.IntN(5) != 0 {
			c.RFs = nrf()
		}
		return c
	}
	c := condSpec{Ctor: "proto"}
	for i, n := 0, rng.IntN(3); i < n; i++ {
		c.Protos = append(c.Protos, []uint8{route.StaticPathType, route.BGPPathType, route.FIBPathType, 0}[rng.IntN(4)])
	}
	return c
}

func genAct(rng *rand.Rand, v4 bool) actSpec {
	switch x := rng.IntN(100); {
	case x < 15:
		return actSpec{K: "accept"}
	case x < 30:
		return actSpec{K: "reject"}
	case x < 48:
		return actSpec{K: "lp", V: []uint32{0, 100, 200, 0xffffffff, rng.Uint32()}[rng.IntN(5)]}
	case x < 64:
		return actSpec{K: "med", V: []uint32{0, 1, 50, 0xffffffff, rng.Uint32()}[rng.IntN(5)]}
	case x < 82:
		return actSpec{K: "nh", NH: genIP(rng, v4 != (rng.IntN(6) == 0))}
	}
	return actSpec{K: "prepend", V: 64500 + uint32(rng.IntN(20)), Times: uint16(rng.IntN(5))}
}

func genChain(rng *rand.Rand, pats []gen.P, v4 bool) chainSpec {
	var c chainSpec
	for i, nf := 0, 1+rng.IntN(3); i < nf; i++ {
		var f filterSpec
		for j, nt := 0, 1+rng.IntN(3); j < nt; j++ {
			t := termSpec{From: []condSpec{}, Then: []actSpec{}}
			nc := rng.IntN(3)
			if rng.IntN(3) == 0 {
				nc = 1
			}
			for k := 0; k < nc; k++ {
				t.From = append(t.From, genCond(rng, pats))
			}
			for k, na := 0, rng.IntN(4); k < na; k++ {
				t.Then = append(t.Then, genAct(rng, v4))
			}
			f.Terms = append(f.Terms, t)
		}
		c.Filters = append(c.Filters, f)
	}
	return c
}

func genPathSpec(rng *rand.Rand, v4 bool, id uint32, bgp bool) pathSpec {
	p := pathSpec{BGP: bgp, NH: genIP(rng, v4), ID: id}
	if !bgp {
		return p
	}
	p.LP = []uint32{0, 100, 150, rng.Uint32()}[rng.IntN(4)]
	p.MED = []uint32{0, 10, rng.Uint32()}[rng.IntN(3)]
	for i, n := 0, rng.IntN(3); i < n; i++ {
		s := segSpec{Seq: rng.IntN(3) != 0, ASNs: []uint32{}}
		for j, m := 0, 1+rng.IntN(3); j < m; j++ {
			s.ASNs = append(s.ASNs, 65000+uint32(rng.IntN(50)))
		}
		p.ASPath = append(p.ASPath, s)
	}
	if rng.IntN(2) == 0 {
		p.Comm = []uint32{id, 65000<<16 | 1}
	}
	return p
}

func allPatterns(c chainSpec) []gen.P {
	var out []gen.P
	for _, f := range c.Filters {
		for _, t := range f.Terms {
			for _, cd := range t.From {
				for _, rf := range cd.RFs {
					out = append(out, rf.Pat)
				}
				for _, pl := range cd.PLs {
					out = append(out, pl...)
				}
			}
		}
	}
	return out
}

func flipBit(p gen.P, k int) gen.P {
	if k <= 64 {
		p.Hi ^= 1 << (64 - uint(k))
	} else {
		p.Lo ^= 1 << (128 - uint(k))
	}
	return p
}

func genCase(rng *rand.Rand) ccase {
	v4 := rng.IntN(2) == 0
	own := gen.Universe(rng, v4, 24)
	other := gen.Universe(rng, !v4, 8)
	// the other family's default route is the pattern most likely to be written into a policy used for both families
	other = append(other, gen.P{V4: !v4})
	pats := own
	c := ccase{Family: "ipv6"}
	if v4 {
		c.Family = "ipv4"
	}
	if rng.IntN(10) < 3 {
		c.Mixed = true
		pats = append(append([]gen.P{}, own...), other...)
	}
	c.Chain = genChain(rng, pats, v4)
	// probes: the whole universe of both families plus prefixes derived from the chain's own patterns
	var qs []gen.P
	qs = append(qs, own...)
	qs = append(qs, other...)
	ap := allPatterns(c.Chain)
	for i := 0; i < 8 && len(ap) > 0; i++ {
		p := ap[rng.IntN(len(ap))]
		w := p.Width()
		switch rng.IntN(5) {
		case 0: // child, random next bits
			if int(p.Len) < w {
				l := int(p.Len) + 1 + rng.IntN(min(3, w-int(p.Len)))
				q := gen.P{V4: p.V4, Hi: p.Hi | rng.Uint64()>>uint(min(int(p.Len), 63)), Lo: p.Lo, Len: uint8(l)}
				if p.Len >= 64 {
					q.Hi, q.Lo = p.Hi, p.Lo|rng.Uint64()>>uint(int(p.Len)-64)
				}
				p = q
			}
		case 1: // parent
			if p.Len > 0 {
				p.Len--
			}
		case 2: // sibling
			if p.Len > 0 {
				p = flipBit(p, int(p.Len))
			}
		case 3: // same length, one bit inside the pattern differs
			if p.Len > 1 {
				p = flipBit(p, 1+rng.IntN(int(p.Len)))
			}
		case 4: // host route below
			q := genIP(rng, p.V4)
			mh, ml := gen.Mask(p.Hi, p.Lo, int(p.Len))
			qh, ql := gen.Mask(q.Hi, q.Lo, int(p.Len))
			q.Hi, q.Lo = mh|(q.Hi^qh), ml|(q.Lo^ql)
			p = q
		}
		qs = append(qs, p.Canon())
	}
	for i, q := range qs {
		c.Probes = append(c.Probes, probe{Pfx: q, Path: genPathSpec(rng, q.V4, uint32(i+1), i%3 != 0)})
	}
	return c
}

// ---------- mutation of one leaf ----------

func cloneChain(c chainSpec) chainSpec {
	raw, _ := json.Marshal(c)
	var d chainSpec
	json.Unmarshal(raw, &d)
	return d
}

func mutate(rng *rand.Rand, c chainSpec, pats []gen.P, v4 bool) (chainSpec, string) {
	d := cloneChain(c)
	type site struct {
		kind string
		do   func()
	}
	var sites []site
	other := func(v uint32) uint32 {
		if v == 100 {
			return 200
		}
		return 100
	}
	for fi := range d.Filters {
		for ti := range d.Filters[fi].Terms {
			t := &d.Filters[fi].Terms[ti]
			for ai := range t.Then {
				a := &t.Then[ai]
				switch a.K {
				case "lp":
					sites = append(sites, site{"action_value:set_local_pref", func() { a.V = other(a.V) }})
				case "med":
					sites = append(sites, site{"action_value:set_med", func() { a.V = other(a.V) }})
				case "nh":
					sites = append(sites, site{"action_value:set_next_hop", func() { a.NH = genIP(rng, a.NH.V4) }})
				case "prepend":
					sites = append(sites, site{"action_value:prepend_asn", func() { a.V++ }})
					sites = append(sites, site{"action_value:prepend_times", func() { a.Times++ }})
				case "accept":
					sites = append(sites, site{"action_kind:accept_to_reject", func() { a.K = "reject" }})
				case "reject":
					sites = append(sites, site{"action_kind:reject_to_accept", func() { a.K = "accept" }})
				}
			}
			for ci := range t.From {
				cd := &t.From[ci]
				for ri := range cd.RFs {
					rf := &cd.RFs[ri]
					if rf.M == "range" {
						sites = append(sites, site{"route_filter:range_bound", func() {
							if rng.IntN(2) == 0 && int(rf.Max) < rf.Pat.Width() {
								rf.Max++
							} else if rf.Min > 0 {
								rf.Min--
							} else {
								rf.Min++
							}
						}})
					}
					sites = append(sites, site{"route_filter:matcher", func() {
						for {
							m := []string{"exact", "orlonger", "longer"}[rng.IntN(3)]
							if m != rf.M {
								rf.M = m
								return
							}
						}
					}})
					sites = append(sites, site{"route_filter:pattern", func() {
						for i := 0; i < 20; i++ {
							p := pats[rng.IntN(len(pats))]
							if p != rf.Pat {
								rf.Pat = p
								return
							}
						}
					}})
				}
				for li := range cd.PLs {
					li := li
					if len(cd.PLs[li]) > 0 {
						sites = append(sites, site{"prefix_list:entry_replaced", func() {
							for i := 0; i < 20; i++ {
								p := pats[rng.IntN(len(pats))]
								if p != cd.PLs[li][0] {
									cd.PLs[li][0] = p
									return
								}
							}
						}})
						sites = append(sites, site{"prefix_list:entry_removed", func() { cd.PLs[li] = cd.PLs[li][1:] }})
					}
					sites = append(sites, site{"prefix_list:entry_added", func() { cd.PLs[li] = append(cd.PLs[li], pats[rng.IntN(len(pats))]) }})
				}
				if cd.Ctor == "pl" || (cd.Ctor == "both" && len(cd.PLs) > 0) {
					sites = append(sites, site{"prefix_list:list_added", func() { cd.PLs = append(cd.PLs, []gen.P{pats[rng.IntN(len(pats))]}) }})
				}
				if cd.Ctor == "proto" {
					if len(cd.Protos) > 0 {
						sites = append(sites, site{"protocol:value", func() {
							if cd.Protos[0] == route.BGPPathType {
								cd.Protos[0] = route.StaticPathType
							} else {
								cd.Protos[0] = route.BGPPathType
							}
						}})
					}
					sites = append(sites, site{"protocol:added", func() { cd.Protos = append(cd.Protos, []uint8{route.StaticPathType, route.BGPPathType}[rng.IntN(2)]) }})
				}
			}
		}
	}
	if len(sites) == 0 {
		return d, ""
	}
	s := sites[rng.IntN(len(sites))]
	s.do()
	return d, s.kind
}

// ---------- oracle ----------

type stats struct {
	mu        sync.Mutex
	parts     map[string]int
	matchers  map[string]int
	acts      map[string]int
	ends      map[string]int
	equalBy   map[string]int
	probesFam map[string]int
}

func newStats() *stats {
	return &stats{parts: map[string]int{}, matchers: map[string]int{}, acts: map[string]int{}, ends: map[string]int{}, equalBy: map[string]int{}, probesFam: map[string]int{}}
}

func (s *stats) merge(t *trace) {
	for k, v := range t.parts {
		s.parts[k] += v
	}
	for k, v := range t.matchers {
		s.matchers[k] += v
	}
	for k, v := range t.acts {
		s.acts[k] += v
	}
}

type caseResult struct {
	evals      int
	nontrivial bool
}

func safeProcess(ch filter.Chain, pfx *bnet.Prefix, pa *route.Path) (out *route.Path, reject bool, panicked string) {
	defer func() {
		if p := recover(); p != nil {
			buf := make([]byte, 1200)
			buf = buf[:runtime.Stack(buf, false)]
			panicked = fmt.Sprintf("%v\n%s", p, buf)
		}
	}()
	out, reject = ch.Process(pfx, pa)
	return
}

func check(c ccase, st *stats, viol func(clause string, f map[string]string, detail string)) (res caseResult) {
	b := &builder{pfx: map[string]*bnet.Prefix{}}
	real := b.chain(c.Chain)
	outcomes := map[string]bool{}
	type obs struct {
		reject bool
		proj   string
	}
	first := make([]obs, len(c.Probes))
	var rfPats []gen.P
	for _, f := range c.Chain.Filters {
		for _, t := range f.Terms {
			for _, cd := range t.From {
				for _, rf := range cd.RFs {
					rfPats = append(rfPats, rf.Pat)
				}
			}
		}
	}
	tr := &trace{parts: map[string]int{}, matchers: map[string]int{}, acts: map[string]int{}}
	ends := map[string]int{}
	fam := map[string]int{}
	defer func() {
		st.mu.Lock()
		st.merge(tr)
		for k, v := range ends {
			st.ends[k] += v
		}
		for k, v := range fam {
			st.probesFam[k] += v
		}
		st.mu.Unlock()
	}()
	for i, pr := range c.Probes {
		tr.end, tr.modified, tr.skipped, tr.decidedAt = "", false, false, 0
		wantRej, wantPath := refEval(c.Chain, pr.Pfx, pr.Path, tr)
		wantProj := projSpec(wantPath)
		cross := false // the probe meets a route-filter pattern of the other family somewhere in the chain
		for _, rp := range rfPats {
			if rp.V4 != pr.Pfx.V4 {
				cross = true
			}
		}
		ptype := "static"
		if pr.Path.BGP {
			ptype = "bgp"
		}
		got, gotRej, pan := safeProcess(real, pr.Pfx.Bio(), buildPath(pr.Path))
		res.evals++
		if pan != "" {
			viol("panic", vf.F("path_type", ptype), fmt.Sprintf("Chain.Process(%s) panicked: %s", pr.Pfx, pan))
			continue
		}
		gotProj := projReal(got)
		first[i] = obs{gotRej, gotProj}
		if gotRej != wantRej {
			viol("decision", vf.F("cross_family", cross, "reference", tr.end),
				fmt.Sprintf("probe %d %s (%s path): chain returned reject=%v, reference %s (reject=%v) decided at term #%d", i, pr.Pfx, ptype, gotRej, tr.end, wantRej, tr.decidedAt))
		} else if gotProj != wantProj {
			viol("path", vf.F("cross_family", cross, "path_type", ptype, "rejected", wantRej),
				fmt.Sprintf("probe %d %s: returned path\n  got  %s\n  want %s", i, pr.Pfx, gotProj, wantProj))
		}
		ends[tr.end]++
		if cross {
			fam["cross_family"]++
		} else {
			fam[c.Family]++
		}
		cls := tr.end
		if tr.modified {
			cls += "+modified"
		}
		outcomes[cls] = true
		if tr.skipped && tr.end != "default" {
			outcomes["skipped-then-decided"] = true
		}
	}
	res.nontrivial = len(outcomes) >= 3
	// equality clause
	if c.Mut != nil {
		mut := b.chain(*c.Mut)
		eq := real.Equal(mut)
		st.mu.Lock()
		st.equalBy[fmt.Sprintf("%s:equal=%v", c.MutKind, eq)]++
		st.mu.Unlock()
		if eq {
			for i, pr := range c.Probes {
				got, gotRej, pan := safeProcess(mut, pr.Pfx.Bio(), buildPath(pr.Path))
				res.evals++
				if pan != "" {
					continue
				}
				if o := (obs{gotRej, projReal(got)}); o != first[i] && first[i].proj != "" {
					viol("equal-chains-differ", vf.F("mutated_part", strings.SplitN(c.MutKind, ":", 2)[0], "mutation", c.MutKind),
						fmt.Sprintf("Chain.Equal is true for two chains that differ in one leaf (%s) but on probe %d %s they return\n  c: reject=%v %s\n  d: reject=%v %s", c.MutKind, i, pr.Pfx, first[i].reject, first[i].proj, o.reject, o.proj))
					break
				}
			}
		}
	}
	return
}

func main() {
	vf.Main("C14", "exploration", func(r *vf.Run) {
		r.Rule("PRNG chains from the grammar of the exported constructors: 1-3 filters x 1-3 terms; 0-2 conditions per term built with NewTermCondition (prefix lists AND route filters), ...WithRouteFilters, ...WithPrefixLists or ...WithProtocols; route filters exact/orlonger/longer/range (bounds around the pattern length, incl. empty ranges) over patterns from a 24-prefix adversarial universe of one family (30% of the chains also use patterns of the other family, incl. its default route); exact prefix lists of 0-3 entries; 0-3 actions per term from accept, reject, set LOCAL_PREF, set MED, set next hop, AS-path prepend 0-4. Every chain is probed with the whole universe of both families plus 8 prefixes derived from its own patterns (child, parent, sibling, one inner bit flipped, host route below), 2/3 BGP and 1/3 static paths, each with a unique id. Second clause: a copy of the chain with one leaf mutated (action value or kind, route-filter bound/matcher/pattern, prefix-list entry, protocol) is compared with Chain.Equal; when true both chains are run on the whole corpus. distinct_nontrivial = distinct chains whose probe corpus produces at least three different reference outcome classes (accept/reject/default x modified/unmodified, or a skipped term followed by a deciding one)")
		r.Assume("patterns and probes are canonical prefixes", "BGP paths have a non-nil AS path (as every constructor in bio-rd produces); AS paths are compared flattened (consecutive sequence segments merged) together with the AS-path length", "the set-next-hop action rewrites static paths too (bio-rd's documented choice; the statement is silent); the other set-actions are no-ops on non-BGP paths", "community and large-community conditions and the add-community actions are unreachable through the exported API (no constructor / the action types do not implement actions.Action) and are not covered", "NewPrefixListWithMatcher is excluded (the statement does not define it)")
		mk := func(c ccase) func(string, map[string]string, string) {
			return func(clause string, f map[string]string, detail string) {
				r.Violate(vf.Violation{Clause: clause, Features: f, Detail: detail, Case: c})
			}
		}
		st := newStats()
		if raw, ok := r.Replaying(); ok {
			var c ccase
			vf.Decode(raw, &c)
			check(c, st, mk(c))
			return
		}
		n := r.N(20000, 1000000)
		vf.Parallel(n, 8, func(i int) {
			rng := r.RandN("c14", i)
			c := genCase(rng)
			pats := allPatterns(c.Chain)
			if len(pats) == 0 {
				pats = []gen.P{c.Probes[0].Pfx}
			}
			// mutate using the probe universe as the source of replacement patterns
			var uni []gen.P
			for _, p := range c.Probes[:min(24, len(c.Probes))] {
				uni = append(uni, p.Pfx)
			}
			d, kind := mutate(rng, c.Chain, uni, c.Family == "ipv4")
			if kind != "" {
				c.Mut, c.MutKind = &d, kind
			}
			res := check(c, st, mk(c))
			r.Eval(res.evals)
			if res.nontrivial {
				raw, _ := json.Marshal(c.Chain)
				r.NontrivialBytes(raw)
			}
			if i < 2 {
				r.Sample(map[string]any{"family": c.Family, "mixed": c.Mixed, "chain": c.Chain, "mutation": c.MutKind, "first_probes": c.Probes[:3]})
			}
		})
		r.Count("chains", n)
		r.Set("condition_parts_evaluated", st.parts)
		r.Set("matchers_evaluated", st.matchers)
		r.Set("actions_executed", st.acts)
		r.Set("reference_outcomes", st.ends)
		r.Set("mutation_pairs_by_kind_and_equal", st.equalBy)
		r.Set("probes_by_family", st.probesFam)
		eqTrue := 0
		for k, v := range st.equalBy {
			if strings.HasSuffix(k, "equal=true") {
				eqTrue += v
			}
		}
		r.Count("pairs_comparing_equal", eqTrue)
	})
}
