package main

import (
	"fmt"

	"verifharness/internal/gen"
	"verifharness/internal/rig"
)

func main() {
	l := rig.DefaultLocal
	rg := rig.New(l, true)
	pfx := gen.P{V4: true, Hi: 0xC6336400 << 32, Len: 24}
	a4 := rig.Attr{ID: 4, Source: 0x0A000201, BGPID: 1, NextHop: 0x0A000201, LocalPref: 100, MED: 10, ASPath: []rig.Seg{{ASNs: []uint32{64718}}}, Comms: []uint32{0xFFFFFF02}}
	a6 := rig.Attr{ID: 6, Source: 0x0A000101, EBGP: true, BGPID: 2, NextHop: 0x0A000101, LocalPref: 100, MED: 10, ASPath: []rig.Seg{{ASNs: []uint32{65101}}}, PathID: 1}
	rg.Loc.AddPath(pfx.Bio(), a4.Build(rg.Pool))
	rg.Loc.AddPath(pfx.Bio(), a6.Build(rg.Pool))
	for _, p := range rg.Loc.Get(pfx.Bio()).Paths() {
		fmt.Println("loc:", rig.FromPath(p).Short())
	}
	o := rg.AddOut(rig.Sess{Kind: rig.IBGP, AddPath: 4, Peer: 0x0A000201, PeerASN: 65000}, rig.AcceptAll())
	for _, e := range o.Rec.Events() {
		fmt.Println("ev:", e.Kind, e.ID, e.PathID)
	}
	for _, r := range o.Table.Dump() {
		for _, p := range r.Paths() {
			fmt.Println("out:", rig.FromPath(p).Short())
		}
	}
}
