// C16: BGP message decoding is total and bounded.
// Monitor: packet.Decode is called on mutated valid messages under all 16 decode option
// combinations inside child processes (batch protocol: the batch is on disk, the child publishes the
// (input, option) pair it is about to decode through a shared memory-mapped side file, so that a
// process-fatal event or a hang is attributed to its input). Per call: recover() for panics, exactly
// one of (message, error) non-nil, allocation meter (heap bytes allocated by the call).
package main

import (
	"bufio"
	"bytes"
	"encoding/binary"
	"encoding/hex"
	"encoding/json"
	"fmt"
	"io"
	"os"
	"os/exec"
	"path/filepath"
	"regexp"
	"runtime"
	"runtime/metrics"
	"strings"
	"sync"
	"syscall"
	"time"

	"github.com/bio-routing/bio-rd/protocols/bgp/packet"

	"verifharness/internal/gofuzz"
	"verifharness/internal/vf"
	"verifharness/internal/wire"
	"verifharness/internal/wiregen"
)

const (
	allocBase    = 256 << 10
	allocPerByte = 256
	nCombos      = 16
)

func combo(i int) packet.DecodeOptions {
	return packet.DecodeOptions{AddPathIPv4Unicast: i&1 != 0, AddPathIPv6Unicast: i&2 != 0, Use32BitASN: i&4 != 0, ExtendedNextHop: i&8 != 0}
}

func comboName(i int) string {
	o := combo(i)
	return fmt.Sprintf("addpath4=%v,addpath6=%v,asn4=%v,extnh=%v", o.AddPathIPv4Unicast, o.AddPathIPv6Unicast, o.Use32BitASN, o.ExtendedNextHop)
}

type c16case struct {
	Input string `json:"input"` // hex
	Combo int    `json:"combo"`
	Kind  string `json:"kind,omitempty"`
	From  string `json:"from,omitempty"`
}

// ---------------------------------------------------------------------------------------
// child side

type childViol struct {
	Idx    int    `json:"idx"`
	Combo  int    `json:"combo"`
	Clause string `json:"clause"`
	Where  string `json:"where,omitempty"`
	Detail string `json:"detail"`
}

type childStats struct {
	Done      bool     `json:"done"`
	Decodes   int64    `json:"decodes"`
	Accepted  int64    `json:"accepted"`
	MaxAlloc  int64    `json:"max_alloc"`
	MaxNanos  int64    `json:"max_nanos"`
	AccByType [6]int64 `json:"acc_by_type"`
}

var numRe = regexp.MustCompile(`[0-9]+`)

// panicSite names the innermost non-runtime function on the panicking stack.
func panicSite() string {
	pcs := make([]uintptr, 64)
	n := runtime.Callers(2, pcs)
	frames := runtime.CallersFrames(pcs[:n])
	past := false
	for {
		f, more := frames.Next()
		if strings.HasPrefix(f.Function, "runtime.") {
			if strings.Contains(f.Function, "anic") {
				past = true
			}
		} else if past && f.Function != "" {
			fn := f.Function
			if i := strings.LastIndex(fn, "/"); i >= 0 {
				fn = fn[i+1:]
			}
			return fn
		}
		if !more {
			return "?"
		}
	}
}

var allocSample = []metrics.Sample{{Name: "/gc/heap/allocs:bytes"}}

func heapAllocs() uint64 {
	metrics.Read(allocSample)
	return allocSample[0].Value.Uint64()
}

func preciseAlloc(in []byte, o packet.DecodeOptions) int64 {
	var a, b runtime.MemStats
	runtime.ReadMemStats(&a)
	func() {
		defer func() { recover() }()
		packet.Decode(bytes.NewBuffer(in), &o)
	}()
	runtime.ReadMemStats(&b)
	return int64(b.TotalAlloc - a.TotalAlloc)
}

// decodeOne runs one monitored decode.
func decodeOne(in []byte, ci int, st *childStats, report func(clause, where, detail string)) {
	o := combo(ci)
	buf := bytes.NewBuffer(in) // Decode only reads; the input slice is not modified
	var msg *packet.BGPMessage
	var err error
	panicked := false
	a0 := heapAllocs()
	t0 := time.Now()
	func() {
		defer func() {
			if p := recover(); p != nil {
				panicked = true
				site := panicSite()
				stk := make([]byte, 3000)
				stk = stk[:runtime.Stack(stk, false)]
				report("panic", site, fmt.Sprintf("panic in packet.Decode (%s): %v\n%s", comboName(ci), numRe.ReplaceAllString(fmt.Sprint(p), "N"), stk))
			}
		}()
		msg, err = packet.Decode(buf, &o)
	}()
	dt := time.Since(t0).Nanoseconds()
	alloc := int64(heapAllocs() - a0)
	st.Decodes++
	if dt > st.MaxNanos {
		st.MaxNanos = dt
	}
	bound := int64(allocBase + allocPerByte*len(in))
	if alloc > bound/2 {
		// the cheap meter lags by up to a few spans; confirm with the precise one (decode is a pure function)
		alloc = preciseAlloc(in, o)
		if alloc > bound {
			report("alloc-bound", msgTypeName(in), fmt.Sprintf("decoding %d bytes (%s) allocated %d bytes, bound %d", len(in), comboName(ci), alloc, bound))
		}
	}
	if alloc > st.MaxAlloc {
		st.MaxAlloc = alloc
	}
	if panicked {
		return
	}
	if (msg == nil) == (err == nil) {
		report("msg-xor-err", msgTypeName(in), fmt.Sprintf("Decode returned msg=%v err=%v (%s)", msg != nil, err, comboName(ci)))
	}
	if err == nil && msg != nil {
		st.Accepted++
		if msg.Header != nil && msg.Header.Type < 6 {
			st.AccByType[msg.Header.Type]++
		}
	}
}

func msgTypeName(in []byte) string {
	if len(in) < wire.HeaderLen {
		return "short"
	}
	switch in[18] {
	case 1:
		return "open"
	case 2:
		return "update"
	case 3:
		return "notification"
	case 4:
		return "keepalive"
	}
	return "other"
}

func readBatch(path string) ([][]byte, error) {
	raw, err := os.ReadFile(path)
	if err != nil {
		return nil, err
	}
	var out [][]byte
	for len(raw) >= 2 {
		l := int(binary.BigEndian.Uint16(raw))
		if len(raw) < 2+l {
			return nil, fmt.Errorf("batch file truncated")
		}
		out = append(out, raw[2:2+l:2+l])
		raw = raw[2+l:]
	}
	return out, nil
}

func writeBatch(path string, inputs [][]byte) error {
	var b bytes.Buffer
	for _, in := range inputs {
		b.Write([]byte{byte(len(in) >> 8), byte(len(in))})
		b.Write(in)
	}
	return os.WriteFile(path, b.Bytes(), 0o644)
}

func childMain() {
	batch, side, out := os.Getenv("C16_BATCH"), os.Getenv("C16_SIDE"), os.Getenv("C16_OUT")
	var start, onlyCombo int
	fmt.Sscan(os.Getenv("C16_START"), &start)
	onlyCombo = -1
	if s := os.Getenv("C16_COMBO"); s != "" {
		fmt.Sscan(s, &onlyCombo)
	}
	// a runaway allocation must kill this process, not the machine
	syscall.Setrlimit(syscall.RLIMIT_AS, &syscall.Rlimit{Cur: 16 << 30, Max: 16 << 30})
	inputs, err := readBatch(batch)
	if err != nil {
		fmt.Fprintln(os.Stderr, err)
		os.Exit(3)
	}
	sf, err := os.OpenFile(side, os.O_RDWR, 0)
	if err != nil {
		fmt.Fprintln(os.Stderr, err)
		os.Exit(3)
	}
	mem, err := syscall.Mmap(int(sf.Fd()), 0, 16, syscall.PROT_READ|syscall.PROT_WRITE, syscall.MAP_SHARED)
	if err != nil {
		fmt.Fprintln(os.Stderr, "mmap:", err)
		os.Exit(3)
	}
	of, err := os.OpenFile(out, os.O_WRONLY|os.O_APPEND|os.O_CREATE, 0o644)
	if err != nil {
		fmt.Fprintln(os.Stderr, err)
		os.Exit(3)
	}
	w := bufio.NewWriter(of)
	st := &childStats{}
	selftest := os.Getenv("C16_SELFTEST")
	for i := start; i < len(inputs); i++ {
		for c := 0; c < nCombos; c++ {
			if onlyCombo >= 0 && c != onlyCombo {
				continue
			}
			binary.LittleEndian.PutUint32(mem[0:], uint32(i))
			binary.LittleEndian.PutUint32(mem[4:], uint32(c))
			binary.LittleEndian.PutUint32(mem[8:], 1) // valid
			if selftest != "" && fmt.Sprintf("crash@%d/%d", i, c) == selftest {
				// harness self-test of the batch protocol: die the way a panic in a foreign goroutine would
				done := make(chan struct{})
				go func() { panic("c16 self-test crash") }()
				<-done
			}
			if selftest != "" && fmt.Sprintf("hang@%d/%d", i, c) == selftest {
				select {}
			}
			decodeOne(inputs[i], c, st, func(clause, where, detail string) {
				j, _ := json.Marshal(childViol{Idx: i, Combo: c, Clause: clause, Where: where, Detail: detail})
				w.Write(append(j, '\n'))
				w.Flush()
			})
		}
	}
	st.Done = true
	j, _ := json.Marshal(st)
	w.Write(append(j, '\n'))
	w.Flush()
	of.Close()
	os.Exit(0)
}

// ---------------------------------------------------------------------------------------
// parent side

type batchResult struct {
	viols   []childViol
	stats   childStats
	evalDec int64 // decodes known to have completed
	inconcl []string
}

// runBatch runs inputs through children, restarting behind every crash / hang.
func runBatch(dir string, id int, inputs [][]byte, onlyCombo int, watchdog time.Duration) batchResult {
	var res batchResult
	batch := filepath.Join(dir, fmt.Sprintf("batch-%d.bin", id))
	side := filepath.Join(dir, fmt.Sprintf("side-%d.bin", id))
	out := filepath.Join(dir, fmt.Sprintf("out-%d.jsonl", id))
	if err := writeBatch(batch, inputs); err != nil {
		res.inconcl = append(res.inconcl, err.Error())
		return res
	}
	os.Remove(out)
	exe, _ := os.Executable()
	perInput := int64(nCombos)
	if onlyCombo >= 0 {
		perInput = 1
	}
	start := 0
	for attempt := 0; start < len(inputs); attempt++ {
		if attempt > 200 {
			res.inconcl = append(res.inconcl, "more than 200 child restarts in one batch")
			break
		}
		os.WriteFile(side, make([]byte, 16), 0o644)
		cmd := exec.Command(exe)
		cmd.Env = append(os.Environ(), "C16_BATCH="+batch, "C16_SIDE="+side, "C16_OUT="+out, fmt.Sprintf("C16_START=%d", start))
		if onlyCombo >= 0 {
			cmd.Env = append(cmd.Env, fmt.Sprintf("C16_COMBO=%d", onlyCombo))
		}
		var stderr bytes.Buffer
		cmd.Stderr = &stderr
		if err := cmd.Start(); err != nil {
			res.inconcl = append(res.inconcl, "child start: "+err.Error())
			break
		}
		done := make(chan error, 1)
		go func() { done <- cmd.Wait() }()
		hung := false
		var werr error
		select {
		case werr = <-done:
		case <-time.After(watchdog):
			hung = true
			cmd.Process.Signal(syscall.SIGQUIT)
			select {
			case <-done:
			case <-time.After(5 * time.Second):
				cmd.Process.Kill()
				<-done
			}
		}
		if werr == nil && !hung {
			break // finished the batch
		}
		sb, _ := os.ReadFile(side)
		if len(sb) < 12 || binary.LittleEndian.Uint32(sb[8:]) != 1 {
			res.inconcl = append(res.inconcl, fmt.Sprintf("child died before its first decode: %v: %s", werr, tail(stderr.Bytes(), 600)))
			break
		}
		idx, ci := int(binary.LittleEndian.Uint32(sb)), int(binary.LittleEndian.Uint32(sb[4:]))
		res.evalDec += int64(idx-start)*perInput + int64(ci)
		if hung {
			// a watchdog firing is a violation only if the single case alone hangs again
			if again := runSingle(dir, id, inputs[idx], ci, 20*time.Second); again == "hang" {
				res.viols = append(res.viols, childViol{Idx: idx, Combo: ci, Clause: "hang", Where: msgTypeName(inputs[idx]), Detail: fmt.Sprintf("packet.Decode (%s) did not return within 20 s, twice", comboName(ci))})
			} else {
				res.inconcl = append(res.inconcl, fmt.Sprintf("batch watchdog fired at input %d but the case alone finished (%s)", idx, again))
			}
		} else {
			site := fatalSite(stderr.String())
			res.viols = append(res.viols, childViol{Idx: idx, Combo: ci, Clause: "crash", Where: site, Detail: fmt.Sprintf("child process died (%v) while decoding (%s):\n%s", werr, comboName(ci), tail(stderr.Bytes(), 1500))})
		}
		start = idx + 1
	}
	// collect
	if f, err := os.Open(out); err == nil {
		sc := bufio.NewScanner(f)
		sc.Buffer(make([]byte, 1<<20), 1<<20)
		for sc.Scan() {
			line := sc.Bytes()
			if bytes.Contains(line, []byte(`"done":true`)) {
				var st childStats
				if json.Unmarshal(line, &st) == nil {
					res.stats.Decodes += st.Decodes
					res.stats.Accepted += st.Accepted
					if st.MaxAlloc > res.stats.MaxAlloc {
						res.stats.MaxAlloc = st.MaxAlloc
					}
					if st.MaxNanos > res.stats.MaxNanos {
						res.stats.MaxNanos = st.MaxNanos
					}
					for i := range st.AccByType {
						res.stats.AccByType[i] += st.AccByType[i]
					}
					res.stats.Done = true
				}
				continue
			}
			var v childViol
			if json.Unmarshal(line, &v) == nil && v.Clause != "" {
				res.viols = append(res.viols, v)
			}
		}
		f.Close()
	}
	// completed children report their own decode counts; crashed ones were counted from the side file
	res.evalDec += res.stats.Decodes
	os.Remove(batch)
	os.Remove(side)
	os.Remove(out)
	return res
}

// runSingle runs one (input, combo) alone: "ok", "hang" or "died".
func runSingle(dir string, id int, in []byte, ci int, wd time.Duration) string {
	batch := filepath.Join(dir, fmt.Sprintf("single-%d.bin", id))
	side := filepath.Join(dir, fmt.Sprintf("single-side-%d.bin", id))
	out := filepath.Join(dir, fmt.Sprintf("single-out-%d.jsonl", id))
	defer os.Remove(batch)
	defer os.Remove(side)
	defer os.Remove(out)
	writeBatch(batch, [][]byte{in})
	os.WriteFile(side, make([]byte, 16), 0o644)
	exe, _ := os.Executable()
	cmd := exec.Command(exe)
	cmd.Env = append(os.Environ(), "C16_BATCH="+batch, "C16_SIDE="+side, "C16_OUT="+out, "C16_START=0", fmt.Sprintf("C16_COMBO=%d", ci))
	cmd.Stderr = io.Discard
	if cmd.Start() != nil {
		return "died"
	}
	done := make(chan error, 1)
	go func() { done <- cmd.Wait() }()
	select {
	case err := <-done:
		if err != nil {
			return "died"
		}
		return "ok"
	case <-time.After(wd):
		cmd.Process.Kill()
		<-done
		return "hang"
	}
}

func tail(b []byte, n int) string {
	if len(b) > n {
		b = b[:n]
	}
	return string(b)
}

var goroutineFn = regexp.MustCompile(`(?m)^(github\.com/bio-routing/bio-rd/[^\s(]+)\(`)

func fatalSite(stderr string) string {
	first := strings.SplitN(stderr, "\n", 2)[0]
	first = numRe.ReplaceAllString(first, "N")
	if m := goroutineFn.FindStringSubmatch(stderr); m != nil {
		fn := m[1]
		if i := strings.LastIndex(fn, "/"); i >= 0 {
			fn = fn[i+1:]
		}
		return fn
	}
	if len(first) > 60 {
		first = first[:60]
	}
	return first
}

// fuzzBudget is the execution count of the coverage-guided stage (thorough tier only).
const fuzzBudget = 2000000

// fuzzStage runs the native Go fuzz target FuzzBGPDecode (verifharness/fuzz, seeded with the wiregen corpus) as a child
// `go test -fuzz` for a fixed number of executions. The engine only searches: an input it saves as failing is run
// through this check's own monitored decode in a child, exactly as a replay is, and reported with the same clause and
// features, so the framework reconfirms it from the replay file without go test.
func fuzzStage(r *vf.Run, dir string, report func(v childViol, in []byte, kind, from string)) {
	res := gofuzz.Run(gofuzz.Opts{Name: "FuzzBGPDecode", Execs: fuzzBudget, Workers: 8, Watchdog: 20 * time.Minute})
	gofuzz.Record(r, res, "FuzzBGPDecode", fuzzBudget)
	if !res.Found || res.Crasher == nil {
		return
	}
	var opt byte
	var in []byte
	ok := len(res.Crasher) == 2
	if ok {
		var ok1, ok2 bool
		opt, ok1 = res.Crasher[0].(byte)
		in, ok2 = res.Crasher[1].([]byte)
		ok = ok1 && ok2 && len(in) <= 0xffff
	}
	if !ok {
		r.Inconclusive(fmt.Sprintf("native fuzzing: crasher %s does not have the shape (byte, []byte)", res.CrasherFile))
		return
	}
	ci := int(opt & 15)
	r.Set("fuzz_failing_input", map[string]any{"combo": ci, "input": hex.EncodeToString(in), "engine_report": tail([]byte(res.FailureText), 600)})
	br := runBatch(dir, 98, [][]byte{in}, ci, 60*time.Second)
	for _, s := range br.inconcl {
		r.Inconclusive(s)
	}
	for _, v := range br.viols {
		report(v, in, "go-fuzz", "fuzz corpus")
	}
	if len(br.viols) == 0 {
		r.Inconclusive(fmt.Sprintf("native fuzzing: the engine saved a failing input that this check's oracle accepts (%s, input %s): %s", comboName(ci), hex.EncodeToString(in), tail([]byte(res.FailureText), 400)))
	}
}

func main() {
	if os.Getenv("C16_BATCH") != "" {
		childMain()
		return
	}
	vf.Main("C16", "exploration", func(r *vf.Run) {
		rule := "corpus of valid OPEN/UPDATE/NOTIFICATION/KEEPALIVE messages built by the independent codec (every capability; classic, MP IPv4/IPv6 and labeled-unicast UPDATEs under all add-path/4-octet-AS encodings; every attribute; End-of-RIB; near-maximum attribute sets), each mutated by one or two typed mutations (header length, truncation, bit flips, any length/count field set to boundary values, attribute flag flips, NLRI prefix length boundaries, type/AFI/SAFI substitution, splice of two messages, random tail, insertion, padding to 4096); every input is decoded by packet.Decode under all 16 option combinations in a child process. distinct_nontrivial = distinct inputs that differ from every corpus message and whose header passes (marker, 19<=length<=4096, type 1..4), i.e. the body decoder ran"
		r.Rule(rule)
		r.Assume("inputs are at most 4096 bytes (what recvMsg can hand to Decode)", fmt.Sprintf("allocation bound per call: %d + %d x len(input) bytes of heap allocation (cheap runtime/metrics meter, re-measured with ReadMemStats when above half the bound)", allocBase, allocPerByte),
			"time bound: a call must return before the batch watchdog; a hang is a violation only if the single case hangs again alone")
		dir, err := os.MkdirTemp("", "verif-c16-")
		if err != nil {
			r.Inconclusive(err.Error())
			return
		}
		defer os.RemoveAll(dir)

		report := func(v childViol, in []byte, kind, from string) {
			feat := vf.F("msgtype", msgTypeName(in), "where", v.Where)
			r.Violate(vf.Violation{Clause: v.Clause, Features: feat, Detail: v.Detail, Case: c16case{Input: hex.EncodeToString(in), Combo: v.Combo, Kind: kind, From: from}})
		}
		if raw, ok := r.Replaying(); ok {
			var c c16case
			vf.Decode(raw, &c)
			in, err := hex.DecodeString(c.Input)
			if err != nil {
				r.Inconclusive("replay input is not hex")
				return
			}
			res := runBatch(dir, 0, [][]byte{in}, c.Combo, 60*time.Second)
			for _, v := range res.viols {
				report(v, in, c.Kind, c.From)
			}
			return
		}

		if !r.Quick() {
			r.Rule(rule + fmt.Sprintf("; thorough tier only: afterwards the coverage-guided native Go fuzzing engine runs FuzzBGPDecode (input = option-combination byte + message of at most 4096 bytes, seeded with the corpus under the options each message was encoded for, with and without extended next hop) for %d executions on 8 workers; an input it reports as failing is judged by the same monitored decode in a child", fuzzBudget))
			if os.Getenv("C16_ONLY_FUZZ") != "" { // development aid: the fuzzing stage alone
				fuzzStage(r, dir, report)
				return
			}
		}
		n := r.N(150000, 5000000)
		workers := 8
		per := (n + workers - 1) / workers
		corpusRng := r.Rand("c16-corpus")
		corpus := wiregen.Corpus(corpusRng)
		corpusSet := map[string]bool{}
		for _, it := range corpus {
			corpusSet[string(it.Raw)] = true
		}
		r.Set("corpus_messages", len(corpus))
		var mu sync.Mutex
		kinds := map[string]int{}
		types := map[string]int{}
		var wg sync.WaitGroup
		for w := 0; w < workers; w++ {
			wg.Add(1)
			go func(w int) {
				defer wg.Done()
				// chunks keep batch files and restart costs small
				const chunk = 20000
				for off := 0; off < per; off += chunk {
					cnt := chunk
					if off+cnt > per {
						cnt = per - off
					}
					inputs := make([][]byte, cnt)
					meta := make([][2]string, cnt)
					lk, lt := map[string]int{}, map[string]int{}
					for i := 0; i < cnt; i++ {
						rng := r.RandN("c16-input", w*per+off+i)
						it := corpus[rng.IntN(len(corpus))]
						ot := corpus[rng.IntN(len(corpus))]
						b, kind := wiregen.Mutate(rng, it.Raw, ot.Raw)
						if rng.IntN(4) == 0 {
							var k2 string
							b, k2 = wiregen.Mutate(rng, b, ot.Raw)
							kind += "+" + k2
						}
						inputs[i], meta[i] = b, [2]string{kind, it.Name}
						for _, k := range strings.Split(kind, "+") {
							lk[k]++
						}
						lt[msgTypeName(b)]++
						if !corpusSet[string(b)] {
							if l, t, e := wire.ParseHeader(b); e == nil && t >= 1 && t <= 4 && l >= wire.HeaderLen {
								r.NontrivialBytes(b)
							}
						}
					}
					res := runBatch(dir, w, inputs, -1, 10*time.Minute)
					mu.Lock()
					for k, v := range lk {
						kinds[k] += v
					}
					for k, v := range lt {
						types[k] += v
					}
					mu.Unlock()
					r.Eval(int(res.evalDec))
					r.Count("inputs", cnt)
					r.Count("decodes_accepted", int(res.stats.Accepted))
					r.Count("accepted_open", int(res.stats.AccByType[1]))
					r.Count("accepted_update", int(res.stats.AccByType[2]))
					r.Count("accepted_notification", int(res.stats.AccByType[3]))
					r.Count("accepted_keepalive", int(res.stats.AccByType[4]))
					r.Max("max_alloc_bytes_per_decode", res.stats.MaxAlloc)
					r.Max("max_micros_per_decode", res.stats.MaxNanos/1000)
					for _, s := range res.inconcl {
						r.Inconclusive(s)
					}
					for _, v := range res.viols {
						if v.Idx >= 0 && v.Idx < cnt {
							report(v, inputs[v.Idx], meta[v.Idx][0], meta[v.Idx][1])
						}
					}
					if w == 0 && off == 0 {
						for i := 0; i < 4 && i < cnt; i++ {
							r.Sample(map[string]any{"from": meta[i][1], "mutation": meta[i][0], "input_hex_prefix": hex.EncodeToString(inputs[i][:min(len(inputs[i]), 48)]), "len": len(inputs[i])})
						}
					}
				}
			}(w)
		}
		wg.Wait()
		// the unmutated corpus must be accepted under the options it was encoded for (sanity of the generator)
		var cin [][]byte
		for _, it := range corpus {
			cin = append(cin, it.Raw)
		}
		res := runBatch(dir, 99, cin, -1, 5*time.Minute)
		r.Eval(int(res.evalDec))
		r.Count("corpus_decodes_accepted", int(res.stats.Accepted))
		for _, v := range res.viols {
			report(v, cin[v.Idx], "none", corpus[v.Idx].Name)
		}
		r.Set("inputs_by_mutation", kinds)
		r.Set("inputs_by_message_type", types)
		if !r.Quick() {
			fuzzStage(r, dir, report)
		}
		r.Require("decodes_accepted", int64(n/20))
		r.Require("accepted_update", int64(n/50))
		r.Require("accepted_open", int64(n/500))
		r.Require("corpus_decodes_accepted", int64(len(corpus)))
	})
}
