// C36, server phase: what the REAL BGP server does with the in-place policy replacement a reload performs.
//
// The first phase (main.go) drives cmd/bio-rd's loadConfig against a recording fake BGPServer, so it ends where
// reconfigureModifiedSession calls BGPServer.ReplaceImportFilterChain / ReplaceExportFilterChain. This phase
// picks up there with a real server (internal/speaker, in-memory connections, the harness plays the neighbour):
//
//	server X ("reloaded"): static routes in both families, one passive neighbour with IPv4 and IPv6 configured
//	    with import policy A and export policy A; optionally a first session (established and fed, or
//	    established, fed and gone again) before the reload; then the Replace*FilterChain calls of
//	    reconfigureModifiedSession with the policies B; then
//	      (a) a session that exists is observed again (existing FSM), and ended from the neighbour's side,
//	      (b) a NEW incoming connection of the neighbour is established (bio-rd creates a new FSM for it),
//	          fed with the same announcements and observed (new FSM).
//	server Y ("fresh"): the same server whose neighbour is configured with the policies B from the start, one
//	    session, same announcements.
//
// An observation is, per address family, what the neighbour was sent (net effect of the UPDATEs on the wire:
// prefix -> attributes) and what the neighbour's announcements became in the Loc-RIB (prefix -> attributes).
// Every observation of X after the reload must equal Y's.
package main

import (
	"encoding/json"
	"fmt"
	"math/rand/v2"
	"sort"
	"strings"
	"time"

	bnet "github.com/bio-routing/bio-rd/net"
	"github.com/bio-routing/bio-rd/protocols/bgp/server"
	"github.com/bio-routing/bio-rd/route"
	"github.com/bio-routing/bio-rd/routingtable"
	"github.com/bio-routing/bio-rd/routingtable/filter"
	"github.com/bio-routing/bio-rd/routingtable/filter/actions"

	"verifharness/internal/batch"
	"verifharness/internal/gen"
	"verifharness/internal/sessgen"
	"verifharness/internal/speaker"
	"verifharness/internal/vf"
	"verifharness/internal/wire"
)

// ---------------------------------------------------------------------------------------------------------
// case model

// srvPol is one policy (what `import:` / `export:` of a neighbour resolve to): a filter chain over a universe of six
// prefixes (indices 0-2 IPv4, 3-5 IPv6):
//
//	term 1: the prefixes in Reject            -> reject
//	term 2: the prefixes in Mark              -> [set LOCAL_PREF LP] [set MED MED] accept
//	term 3: everything else                   -> accept | reject (DefaultReject)
//
// Split puts term 1 into a policy statement of its own (a chain of two filters, like `import: [P1, P2]`).
// Empty is the neighbour without any policy of that direction: an empty filter.Chain.
type srvPol struct {
	Empty         bool   `json:"empty,omitempty"`
	Reject        []int  `json:"reject,omitempty"`
	Mark          []int  `json:"mark,omitempty"`
	LP            uint32 `json:"lp,omitempty"`  // 0: LOCAL_PREF not set
	MED           uint32 `json:"med,omitempty"` // 0: MED not set
	DefaultReject bool   `json:"default_reject,omitempty"`
	Split         bool   `json:"split,omitempty"`
}

type srvCase struct {
	Kind  string `json:"kind"` // "server"
	EBGP  bool   `json:"ebgp"`
	Sess1 string `json:"sess1"` // none: no session before the reload | up: established and fed at reload time | down: established, fed and ended before the reload
	// CallUnchanged: Replace*FilterChain is also called for a direction whose policy did not change, with an equal chain
	// built anew (this is what reconfigureModifiedSession does: it always calls both); false: only changed directions
	CallUnchanged bool   `json:"call_unchanged"`
	ImpA          srvPol `json:"import_a"`
	ImpB          srvPol `json:"import_b"`
	ExpA          srvPol `json:"export_a"`
	ExpB          srvPol `json:"export_b"`
}

func isServerCase(raw json.RawMessage) bool {
	var k struct {
		Kind string `json:"kind"`
	}
	return json.Unmarshal(raw, &k) == nil && k.Kind == "server"
}

const (
	srvLocalAS = 65000
	srvPeerAS  = 65001
	srvNPerFam = 3
)

var srvPeerAddr = bnet.IPv4FromOctets(127, 0, 9, 1)

func mustPfx(s string) gen.P {
	p, err := bnet.PrefixFromString(s)
	if err != nil {
		panic(err)
	}
	return gen.FromBio(p)
}

// the universes: what bio-rd has to export (static routes) and what the neighbour announces
var (
	srvExportUni = []gen.P{mustPfx("10.0.1.0/24"), mustPfx("10.0.2.0/24"), mustPfx("10.0.3.0/24"), mustPfx("2001:db8:1::/48"), mustPfx("2001:db8:2::/48"), mustPfx("2001:db8:3::/48")}
	srvImportUni = []gen.P{mustPfx("172.16.1.0/24"), mustPfx("172.16.2.0/24"), mustPfx("172.16.3.0/24"), mustPfx("2001:db8:a1::/48"), mustPfx("2001:db8:a2::/48"), mustPfx("2001:db8:a3::/48")}
)

func srvUni(dir string) []gen.P {
	if dir == "import" {
		return srvImportUni
	}
	return srvExportUni
}

func has(l []int, x int) bool {
	for _, y := range l {
		if y == x {
			return true
		}
	}
	return false
}

// outcome is what the policy does with universe prefix i, by its definition.
func (p srvPol) outcome(i int) string {
	switch {
	case p.Empty:
		return "no policy"
	case has(p.Reject, i):
		return "reject"
	case has(p.Mark, i):
		return fmt.Sprintf("accept lp=%d med=%d", p.LP, p.MED)
	case p.DefaultReject:
		return "reject"
	}
	return "accept"
}

// differs: do a and b treat some prefix of the family differently?
func polDiffers(a, b srvPol, v4 bool) bool {
	lo := 0
	if !v4 {
		lo = srvNPerFam
	}
	for i := lo; i < lo+srvNPerFam; i++ {
		if a.outcome(i) != b.outcome(i) {
			return true
		}
	}
	return false
}

func (p srvPol) text(uni []gen.P) string {
	if p.Empty {
		return "<no policy: empty chain>"
	}
	names := func(l []int) string {
		var s []string
		for _, i := range l {
			s = append(s, uni[i].String())
		}
		return strings.Join(s, " ")
	}
	var b strings.Builder
	if len(p.Reject) > 0 {
		fmt.Fprintf(&b, "{%s} reject; ", names(p.Reject))
		if p.Split {
			b.WriteString("| ")
		}
	}
	if len(p.Mark) > 0 {
		fmt.Fprintf(&b, "{%s}", names(p.Mark))
		if p.LP != 0 {
			fmt.Fprintf(&b, " set LOCAL_PREF %d", p.LP)
		}
		if p.MED != 0 {
			fmt.Fprintf(&b, " set MED %d", p.MED)
		}
		b.WriteString(" accept; ")
	}
	if p.DefaultReject {
		b.WriteString("rest reject")
	} else {
		b.WriteString("rest accept")
	}
	return b.String()
}

// chain builds a fresh filter.Chain (never share objects between servers or calls).
func (p srvPol) chain(uni []gen.P) filter.Chain {
	if p.Empty {
		return filter.Chain{}
	}
	cond := func(l []int) []*filter.TermCondition {
		var rfs []*filter.RouteFilter
		for _, i := range l {
			rfs = append(rfs, filter.NewRouteFilter(uni[i].Bio(), filter.NewExactMatcher()))
		}
		return []*filter.TermCondition{filter.NewTermConditionWithRouteFilters(rfs...)}
	}
	var first, second []*filter.Term
	if len(p.Reject) > 0 {
		first = append(first, filter.NewTerm("reject-some", cond(p.Reject), []actions.Action{actions.NewRejectAction()}))
	}
	if len(p.Mark) > 0 {
		var then []actions.Action
		if p.LP != 0 {
			then = append(then, actions.NewSetLocalPrefAction(p.LP))
		}
		if p.MED != 0 {
			then = append(then, actions.NewSetMEDAction(p.MED))
		}
		second = append(second, filter.NewTerm("mark-some", cond(p.Mark), append(then, actions.NewAcceptAction())))
	}
	var last actions.Action = actions.NewAcceptAction()
	if p.DefaultReject {
		last = actions.NewRejectAction()
	}
	second = append(second, filter.NewTerm("rest", nil, []actions.Action{last}))
	if p.Split && len(first) > 0 {
		return filter.Chain{filter.NewFilter("P1", first), filter.NewFilter("P2", second)}
	}
	return filter.Chain{filter.NewFilter("P", append(first, second...))}
}

// ---------------------------------------------------------------------------------------------------------
// generation

func subset(rng *rand.Rand, pEach int) []int {
	var l []int
	for i := 0; i < 2*srvNPerFam; i++ {
		if rng.IntN(100) < pEach {
			l = append(l, i)
		}
	}
	return l
}

func genPol(rng *rand.Rand) srvPol {
	p := srvPol{Reject: subset(rng, 30), Mark: subset(rng, 40), DefaultReject: rng.IntN(5) == 0, Split: rng.IntN(3) == 0}
	if rng.IntN(3) != 0 {
		p.LP = []uint32{50, 200, 300}[rng.IntN(3)]
	}
	if p.LP == 0 || rng.IntN(2) == 0 {
		p.MED = []uint32{10, 20, 30}[rng.IntN(3)]
	}
	return p
}

func toggle(l []int, x int) []int {
	var out []int
	found := false
	for _, y := range l {
		if y == x {
			found = true
			continue
		}
		out = append(out, y)
	}
	if !found {
		out = append(out, x)
		sort.Ints(out)
	}
	return out
}

// mutatePol returns a policy that differs from a in what it does for IPv4 prefixes (scope 0), IPv6 prefixes (1) or both (2).
func mutatePol(rng *rand.Rand, a srvPol, scope int) srvPol {
	for try := 0; try < 200; try++ {
		b := a
		b.Reject, b.Mark = append([]int(nil), a.Reject...), append([]int(nil), a.Mark...)
		idx := func(v4 bool) int {
			if v4 {
				return rng.IntN(srvNPerFam)
			}
			return srvNPerFam + rng.IntN(srvNPerFam)
		}
		one := func(v4 bool) {
			if rng.IntN(2) == 0 {
				b.Reject = toggle(b.Reject, idx(v4))
			} else {
				b.Mark = toggle(b.Mark, idx(v4))
			}
		}
		switch scope {
		case 0:
			one(true)
		case 1:
			one(false)
		default:
			switch rng.IntN(4) {
			case 0:
				b.DefaultReject = !b.DefaultReject
			case 1: // other values for the marked prefixes
				b.LP = []uint32{0, 50, 200, 300}[rng.IntN(4)]
				b.MED = []uint32{10, 20, 30}[rng.IntN(3)]
			case 2: // an unrelated policy
				b = genPol(rng)
			default:
				one(true)
				one(false)
			}
		}
		d4, d6 := polDiffers(a, b, true), polDiffers(a, b, false)
		if (scope == 0 && d4 && !d6) || (scope == 1 && !d4 && d6) || (scope == 2 && d4 && d6) {
			return b
		}
	}
	// give up on the scope: anything different
	b := genPol(rng)
	b.DefaultReject = !a.DefaultReject
	return b
}

func genServerCase(rng *rand.Rand, i int) srvCase {
	c := srvCase{Kind: "server", Sess1: []string{"up", "none", "up", "down"}[i%4], EBGP: (i/4)%2 == 1}
	c.CallUnchanged = rng.IntN(4) != 0
	c.ImpA, c.ExpA = genPol(rng), genPol(rng)
	c.ImpB, c.ExpB = c.ImpA, c.ExpA
	dirs := rng.IntN(20) // which directions change
	if dirs < 7 || dirs >= 14 && dirs < 19 {
		c.ImpB = mutatePol(rng, c.ImpA, rng.IntN(3))
	}
	if dirs >= 7 && dirs < 19 {
		c.ExpB = mutatePol(rng, c.ExpA, rng.IntN(3))
	}
	// dirs == 19: nothing changes (the reload touches another neighbour); with CallUnchanged both calls are made with equal chains
	// the neighbour without a policy: before the reload, after it
	if rng.IntN(14) == 0 {
		c.ImpA = srvPol{Empty: true}
	} else if rng.IntN(14) == 0 {
		c.ImpB = srvPol{Empty: true}
	}
	if rng.IntN(14) == 0 {
		c.ExpA = srvPol{Empty: true}
	} else if rng.IntN(14) == 0 {
		c.ExpB = srvPol{Empty: true}
	}
	return c
}

func polEqual(a, b srvPol) bool {
	x, _ := json.Marshal(a)
	y, _ := json.Marshal(b)
	return string(x) == string(y)
}

// ---------------------------------------------------------------------------------------------------------
// one system

type srvInconclusive string

func (e srvInconclusive) Error() string { return string(e) }

type srvSys struct {
	c   *srvCase
	srv *speaker.Server
	p   *speaker.Peer
}

// newSrvSys builds a server with the static routes and the neighbour configured with the given policies. The peer is
// added through the public API directly (speaker.AddPeer would replace an empty chain by accept-all).
func newSrvSys(c *srvCase, imp, exp srvPol) (*srvSys, error) {
	x := &srvSys{c: c, srv: speaker.NewServer(speaker.ServerConfig{})}
	for i, p := range srvExportUni {
		if p.V4 {
			x.srv.AddStatic(p.Bio(), bnet.IPv4FromOctets(192, 0, 2, byte(1+i)))
		} else {
			x.srv.AddStatic(p.Bio(), bnet.IPv6FromBlocks(0x2001, 0xdb8, 0xffff, 0, 0, 0, 0, uint16(1+i)))
		}
	}
	peerAS := uint32(srvLocalAS)
	if c.EBGP {
		peerAS = srvPeerAS
	}
	pa, la := srvPeerAddr, bnet.IPv4FromOctets(127, 0, 0, 1)
	cfg := speaker.PeerConfig{LocalAS: srvLocalAS, PeerAS: peerAS, PeerAddr: pa.Ptr(), LocalAddr: la.Ptr(), HoldTime: 90 * time.Second, IPv4: &speaker.Family{}, IPv6: &speaker.Family{}}
	// like newAFIConfig of cmd/bio-rd: both families get the neighbour's chains
	fam := func() *server.AddressFamilyConfig {
		return &server.AddressFamilyConfig{
			ImportFilterChain: imp.chain(srvImportUni),
			ExportFilterChain: exp.chain(srvExportUni),
			AddPathSend:       routingtable.ClientOptions{BestOnly: true},
		}
	}
	bc := server.PeerConfig{
		AdminEnabled: true,
		KeepAlive:    cfg.HoldTime / 3,
		HoldTime:     cfg.HoldTime,
		LocalAddress: cfg.LocalAddr,
		PeerAddress:  cfg.PeerAddr,
		LocalAS:      cfg.LocalAS,
		PeerAS:       cfg.PeerAS,
		Passive:      true,
		RouterID:     x.srv.RouterID,
		IPv4:         fam(),
		IPv6:         fam(),
		VRF:          x.srv.VRF,
	}
	if err := x.srv.B.AddPeer(bc); err != nil {
		return x, srvInconclusive("AddPeer: " + err.Error())
	}
	x.p = &speaker.Peer{S: x.srv, Cfg: cfg, Addr: cfg.PeerAddr.Dedup(), Bio: bc}
	return x, nil
}

// bringUp establishes a session over a new incoming connection (bio-rd creates a new FSM for it).
func (x *srvSys) bringUp() (*speaker.Session, error) {
	var last error
	for attempt := 0; attempt < 5; attempt++ {
		// a previous FSM of the peer may not have published its new state yet (a legitimate transient collision
		// answer), or bio-rd's 1 s OpenSent timer fired on a stalled machine
		time.Sleep(time.Duration(attempt*attempt) * 25 * time.Millisecond)
		s, err := x.p.Connect()
		if err == nil {
			err = s.Establish(x.p.DefaultOpen())
		}
		if err == nil {
			return s, nil
		}
		last = err
		if s != nil && s.Conn != nil && !s.Conn.IsClosed() {
			s.SendNotification(6, 0)
			s.Conn.WaitClosed(2 * time.Second)
		}
	}
	return nil, srvInconclusive("cannot establish a session: " + last.Error())
}

// announce: the neighbour announces the import universe, one UPDATE per prefix (IPv4 classic NLRI, IPv6 MP_REACH_NLRI).
func (x *srvSys) announce(s *speaker.Session) error {
	for i, p := range srvImportUni {
		a := sessgen.AttrSpec{Origin: 0, Seq: []uint32{64600}, NH: uint32(1 + i), MED: wire.U32(5)}
		if x.c.EBGP {
			a.Seq = []uint32{srvPeerAS, 64600}
		} else {
			a.LP = wire.U32(100)
		}
		u := sessgen.UpdSpec{Attr: a}
		if p.V4 {
			u.Ann = []sessgen.NL{{P: p}}
		} else {
			u.MPR = []sessgen.NL{{P: p}}
		}
		w, _ := u.Build(s.Neg.SendOpts())
		if err := s.SendUpdate(w); err != nil {
			return srvInconclusive("announce " + p.String() + ": " + err.Error())
		}
	}
	if r := s.Sync(); !r.OK() || !s.Established() {
		return srvInconclusive(fmt.Sprintf("valid UPDATEs ended the session (%v, state %s, notifications %v)", r, s.State(), s.Notifications()))
	}
	return nil
}

// down: the neighbour ends the session with a NOTIFICATION (bio-rd does not react to a connection that the neighbour
// merely closes: no FSM state listens for read errors, the session stays Established until the hold timer expires);
// returns when the FSM has cleaned up.
func (x *srvSys) down(s *speaker.Session) error {
	s.SendNotification(6, 2)
	deadline := time.Now().Add(speaker.StepTimeout)
	for s.Established() {
		if time.Now().After(deadline) {
			return srvInconclusive("session still established after the neighbour's NOTIFICATION")
		}
		time.Sleep(speaker.PollEvery)
	}
	if !s.Barrier(2*time.Second) && !s.Conn.IsClosed() {
		s.Conn.WaitClosed(2 * time.Second)
	}
	if in, ok := s.RIBIn(true); ok && len(in) > 0 {
		return srvInconclusive(fmt.Sprintf("the FSM of the ended session still has an Adj-RIB-In with %d routes", len(in)))
	}
	return nil
}

func (x *srvSys) close(ss ...*speaker.Session) {
	for _, s := range ss {
		if s != nil && s.Conn != nil && !s.Conn.IsClosed() {
			s.SendNotification(6, 0)
			s.Conn.WaitClosed(2 * time.Second)
		}
	}
}

// replace makes the calls reconfigureModifiedSession makes (import first, then export), with freshly built chains.
func (x *srvSys) replace() (calls []string, err error) {
	c := x.c
	if c.CallUnchanged || !polEqual(c.ImpA, c.ImpB) {
		calls = append(calls, "ReplaceImportFilterChain")
		if err := x.srv.B.ReplaceImportFilterChain(x.srv.VRF, x.p.Addr, c.ImpB.chain(srvImportUni)); err != nil {
			return calls, fmt.Errorf("ReplaceImportFilterChain: %w", err)
		}
	}
	if c.CallUnchanged || !polEqual(c.ExpA, c.ExpB) {
		calls = append(calls, "ReplaceExportFilterChain")
		if err := x.srv.B.ReplaceExportFilterChain(x.srv.VRF, x.p.Addr, c.ExpB.chain(srvExportUni)); err != nil {
			return calls, fmt.Errorf("ReplaceExportFilterChain: %w", err)
		}
	}
	return calls, nil
}

// ---------------------------------------------------------------------------------------------------------
// observation

// srvObs: direction -> family -> prefix -> what was observed for it
type srvObs map[string]map[string]map[string]string

var srvFams = []string{"ipv4", "ipv6"}

func famOf(v4 bool) string {
	if v4 {
		return "ipv4"
	}
	return "ipv6"
}

// wireNet is the net effect of the UPDATEs in msgs: family -> prefix -> attributes of the last announcement not withdrawn since.
func wireNet(msgs []wire.Message, o wire.Options) (map[string]map[string]string, error) {
	m := map[string]map[string]string{"ipv4": {}, "ipv6": {}}
	for i, x := range msgs {
		if x.Type != wire.TypeUpdate {
			continue
		}
		u, err := wire.DecodeUpdate(x.Body, o)
		if err != nil {
			return nil, fmt.Errorf("message %d of bio-rd (an UPDATE) does not decode: %v", i, err)
		}
		for _, w := range u.Withdrawals() {
			delete(m[famOf(w.Family == wire.IPv4Unicast)], speaker.NLRIToP(w.NLRI).String())
		}
		for _, a := range u.Announced() {
			var nh []byte
			if u.PA.MPReach != nil && len(u.NLRI) == 0 {
				nh = u.PA.MPReach.NextHop
			}
			m[famOf(a.Family == wire.IPv4Unicast)][speaker.NLRIToP(a.NLRI).String()] = speaker.FieldsOfWire(u.PA, nh).Text()
		}
	}
	return m, nil
}

func sameKeys(a map[string]string, b map[string]bool) bool {
	if len(a) != len(b) {
		return false
	}
	for k := range a {
		if !b[k] {
			return false
		}
	}
	return true
}

// observe is called at a synchronisation point (Sync returned OK, or Replace*FilterChain returned): the tables are final.
// The update sender writes announcements on its own 5 ms ticker (withdrawals, also the one that precedes every changed
// announcement, are written synchronously), so the wire is read once every prefix of the session's Adj-RIB-Outs stands
// announced on it and nothing else does; running into the step timeout there is inconclusive.
func (x *srvSys) observe(s *speaker.Session) (srvObs, error) {
	o := srvObs{"import": {}, "export": {}}
	want := map[string]map[string]bool{}
	for _, v4 := range []bool{true, false} {
		out, ok := s.RIBOut(v4)
		if !ok {
			return nil, srvInconclusive("the established session has no " + famOf(v4) + " Adj-RIB-Out")
		}
		w := map[string]bool{}
		for _, rt := range out {
			w[rt.Prefix().String()] = true
		}
		want[famOf(v4)] = w
	}
	opts := s.Neg.RecvOpts()
	var net map[string]map[string]string
	var derr error
	flushed := s.Conn.WaitOut(speaker.StepTimeout, func(out []byte) bool {
		msgs, _, _ := wire.Split(out)
		net, derr = wireNet(msgs, opts)
		if derr != nil {
			return true
		}
		return sameKeys(net["ipv4"], want["ipv4"]) && sameKeys(net["ipv6"], want["ipv6"])
	})
	if derr != nil {
		return nil, srvInconclusive(derr.Error())
	}
	if !flushed {
		return nil, srvInconclusive(fmt.Sprintf("the UPDATEs on the wire never matched the session's Adj-RIB-Outs (closed=%v): wire %v, Adj-RIB-Out %v", s.Conn.IsClosed(), net, want))
	}
	if !s.Established() {
		return nil, srvInconclusive("the session ended while it was observed")
	}
	o["export"] = net
	for _, v4 := range []bool{true, false} {
		m := map[string]string{}
		for _, v := range speaker.FromSource(speaker.Views(x.srv.Dump(v4)), x.p.Addr) {
			m[v.PfxS] = fmt.Sprintf("hidden=%d {%s}", v.Hidden, v.Attrs)
		}
		o["import"][famOf(v4)] = m
	}
	return o, nil
}

func fmtSet(m map[string]string) string {
	var ks []string
	for k := range m {
		ks = append(ks, k)
	}
	sort.Strings(ks)
	var b strings.Builder
	b.WriteString("{")
	for i, k := range ks {
		if i > 0 {
			b.WriteString("; ")
		}
		b.WriteString(k + " " + shortAttrs(m[k]))
	}
	b.WriteString("}")
	return b.String()
}

// shortAttrs keeps what a policy of this check can change (and the hidden reason) for the messages.
func shortAttrs(s string) string {
	var keep []string
	for _, f := range strings.Fields(s) {
		f = strings.Trim(f, "{}")
		if strings.HasPrefix(f, "med=") || strings.HasPrefix(f, "lp=") || strings.HasPrefix(f, "hidden=") {
			keep = append(keep, f)
		}
	}
	return strings.Join(keep, " ")
}

func firstDiff(a, b map[string]string) (pfx, av, bv string, differ bool) {
	keys := map[string]bool{}
	for k := range a {
		keys[k] = true
	}
	for k := range b {
		keys[k] = true
	}
	var ks []string
	for k := range keys {
		ks = append(ks, k)
	}
	sort.Strings(ks)
	for _, k := range ks {
		if a[k] != b[k] {
			return k, a[k], b[k], true
		}
	}
	return "", "", "", false
}

func obsEqual(a, b srvObs) bool {
	for _, d := range []string{"import", "export"} {
		for _, f := range srvFams {
			if _, _, _, df := firstDiff(a[d][f], b[d][f]); df {
				return false
			}
		}
	}
	return true
}

// ---------------------------------------------------------------------------------------------------------
// the case

func runServerCase(idx int, raw json.RawMessage) (res batch.Result) {
	var c srvCase
	if err := json.Unmarshal(raw, &c); err != nil {
		res.Inconcl = "case does not decode: " + err.Error()
		return
	}
	kind := "ibgp"
	if c.EBGP {
		kind = "ebgp"
	}
	pols := func(d string) (a, b srvPol) {
		if d == "import" {
			return c.ImpA, c.ImpB
		}
		return c.ExpA, c.ExpB
	}
	res.Count("server_cases", 1)
	undecided := func(err error) {
		res.Count("server_cases_inconclusive", 1)
		msg := err.Error()
		if len(msg) > 160 {
			msg = msg[:160]
		}
		res.Seen("server_inconclusive_reasons", msg)
	}

	// ---- X: start with A, reload to B
	x, err := newSrvSys(&c, c.ImpA, c.ExpA)
	if err != nil {
		undecided(err)
		return
	}
	var s1, s2, sy *speaker.Session
	defer func() { x.close(s1, s2) }()
	var before srvObs
	switch c.Sess1 {
	case "up", "down":
		if s1, err = x.bringUp(); err == nil {
			err = x.announce(s1)
		}
		if err == nil && c.Sess1 == "up" {
			before, err = x.observe(s1)
		}
		if err == nil && c.Sess1 == "down" {
			err = x.down(s1)
		}
		if err != nil {
			undecided(err)
			return
		}
	}
	calls, err := x.replace()
	if err != nil {
		res.Add("server-replace-error", vf.F("session", kind), "a neighbour that is configured (%s, first session: %s): %v", kind, c.Sess1, err)
		return
	}
	for _, cl := range calls {
		res.Count("server_calls_"+cl, 1)
	}
	var existing, fresh, newFSM srvObs
	if c.Sess1 == "up" {
		if r := s1.Sync(); !r.OK() || !s1.Established() {
			undecided(srvInconclusive(fmt.Sprintf("the established session did not survive the replacement (%v, state %s, notifications %v)", r, s1.State(), s1.Notifications())))
			return
		}
		if existing, err = x.observe(s1); err == nil {
			err = x.down(s1)
		}
		if err != nil {
			undecided(err)
			return
		}
	}
	if s2, err = x.bringUp(); err == nil {
		err = x.announce(s2)
	}
	if err == nil {
		newFSM, err = x.observe(s2)
	}
	if err != nil {
		undecided(err)
		return
	}
	fsmIsNew := s1 == nil || s2.FSMIndex != s1.FSMIndex

	// ---- Y: start with B
	y, err := newSrvSys(&c, c.ImpB, c.ExpB)
	if err != nil {
		undecided(err)
		return
	}
	defer func() { y.close(sy) }()
	if sy, err = y.bringUp(); err == nil {
		err = y.announce(sy)
	}
	if err == nil {
		fresh, err = y.observe(sy)
	}
	if err != nil {
		undecided(err)
		return
	}

	// ---- judge
	res.Count("server_cases_compared", 1)
	res.Seen("server_session_kinds", kind+"/first-session-"+c.Sess1)
	setup := fmt.Sprintf("%s neighbour with IPv4+IPv6 started with import [%s] export [%s]; first session: %s; reload = %s with import [%s] export [%s]",
		kind, c.ImpA.text(srvImportUni), c.ExpA.text(srvExportUni),
		map[string]string{"none": "none before the reload", "up": "established and fed when the reload happens", "down": "established, fed and ended before the reload"}[c.Sess1],
		strings.Join(calls, " + "), c.ImpB.text(srvImportUni), c.ExpB.text(srvExportUni))
	if len(calls) == 0 {
		setup = strings.Replace(setup, "reload =  with", "reload = no call (nothing changed), policies stay", 1)
	}
	judge := func(fsm string, s *speaker.Session, got srvObs) {
		res.Count("server_"+fsm+"_fsm_sessions_compared", 1)
		for _, d := range []string{"import", "export"} {
			a, b := pols(d)
			for _, f := range srvFams {
				res.Count("server_comparisons", 1)
				res.Count("server_cmp_"+d+"_"+f, 1)
				if polDiffers(a, b, f == "ipv4") {
					res.Count("server_cmp_"+d+"_"+f+"_where_the_reload_changes_the_policy_for_that_family", 1)
				}
				pfx, xv, yv, differ := firstDiff(got[d][f], fresh[d][f])
				if !differ {
					continue
				}
				newChain := "policy"
				if b.Empty {
					newChain = "empty"
				}
				whatIs := map[string]string{"import": "Loc-RIB paths learned from the neighbour", "export": "net effect of the UPDATEs sent to the neighbour"}[d]
				show := func(v string) string {
					if v == "" {
						return "absent"
					}
					return "present (" + shortAttrs(v) + ")"
				}
				res.Add("server-policy", vf.F("direction", d, "family", f, "fsm", fsm, "session", kind, "new_chain", newChain),
					"%s. Session on the %s FSM (index %d) after the reload, %s, %s: %s is %s, but %s on a server started fresh with the new policies. %s after reload: %s; fresh: %s. New %s policy by definition: %s",
					setup, fsm, s.FSMIndex, d, f, pfx, show(xv), show(yv), whatIs, fmtSet(got[d][f]), fmtSet(fresh[d][f]), d, b.text(srvUni(d)))
			}
		}
	}
	if existing != nil {
		judge("existing", s1, existing)
		if !obsEqual(before, existing) {
			res.Count("server_existing_fsm_sessions_whose_observation_changed_with_the_reload", 1)
		}
	}
	if fsmIsNew {
		judge("new", s2, newFSM)
	} else {
		res.Count("server_second_session_reused_the_fsm", 1)
		judge("existing", s2, newFSM)
	}
	changed := !polEqual(c.ImpA, c.ImpB) || !polEqual(c.ExpA, c.ExpB)
	if changed {
		res.Nontrivial = append(res.Nontrivial, fmt.Sprintf("server/%d", idx))
		res.Count("server_cases_where_the_reload_changes_a_policy", 1)
	}
	for _, d := range []string{"import", "export"} {
		if a, b := pols(d); a.Empty || b.Empty {
			res.Count("server_cases_with_an_empty_"+d+"_chain", 1)
		}
	}
	if idx%60 == 0 {
		res.Sample = map[string]any{"kind": "server", "setup": setup, "fresh_import_ipv4": fmtSet(fresh["import"]["ipv4"]), "fresh_import_ipv6": fmtSet(fresh["import"]["ipv6"]),
			"fresh_export_ipv4": fmtSet(fresh["export"]["ipv4"]), "fresh_export_ipv6": fmtSet(fresh["export"]["ipv6"])}
	}
	return
}

// ---------------------------------------------------------------------------------------------------------
// driver

const srvRule = " Server phase (server.go): PRNG cases against the REAL BGP server over in-memory sessions: six static routes (3 IPv4, 3 IPv6) to export, one passive neighbour {iBGP, eBGP} with IPv4 and IPv6 unicast (add-path off) that announces 3 IPv4 (classic NLRI) and 3 IPv6 (MP_REACH_NLRI) prefixes; import and export policies A are chains over those prefixes (reject a subset, set LOCAL_PREF / MED on a subset, accept or reject the rest, one or two policy statements; 1 in 14 an absent policy = empty chain); the reload replaces import and/or export by B, which differs from A for IPv4 only, IPv6 only or both (5% nothing changes), through ReplaceImportFilterChain / ReplaceExportFilterChain as reconfigureModifiedSession calls them (75% both calls like the configurator, 25% only the changed directions); first session {established and fed at reload time, none, established/fed/ended before the reload}; afterwards an existing session is observed again and ended by the neighbour (NOTIFICATION), and a new incoming connection (new FSM) is established, fed and observed. Oracle: per direction and family, the UPDATEs sent (net effect, with attributes) and the neighbour's paths in the Loc-RIB (with attributes) equal those of a server started fresh with B. A server case is non-trivial when B differs from A in some direction"

func genServerCases(r *vf.Run) []any {
	n := r.N(240, 4800)
	out := make([]any, 0, n)
	for i := 0; i < n; i++ {
		out = append(out, genServerCase(r.RandN("c36-server", i), i))
	}
	return out
}

func driveServer(r *vf.Run, cases []any) {
	_, replay := r.Replaying()
	out := batch.Drive(r, batch.Config{Name: "c36", PerChild: 40, Workers: 4, Lanes: 2, ChildBudget: 5 * time.Minute}, cases, func(i int, f batch.Fatal) map[string]string {
		var c srvCase
		if b, err := json.Marshal(cases[i]); err == nil {
			json.Unmarshal(b, &c)
		}
		kind := "ibgp"
		if c.EBGP {
			kind = "ebgp"
		}
		return map[string]string{"phase": "server", "session": kind}
	})
	n := 0
	for _, res := range out.Results {
		n += res.Counts["server_comparisons"]
	}
	r.Eval(n)
	if !replay {
		r.Require("server_cases_compared", int64(len(cases)*8/10))
		r.Require("server_new_fsm_sessions_compared", int64(len(cases)*8/10))
		r.Require("server_existing_fsm_sessions_compared", int64(len(cases)*3/10))
	}
}

var _ = route.BGPPathType
