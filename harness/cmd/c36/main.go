// C36: configuration reload converges to the new configuration.
// The real config.GetConfig, loadConfig and bgpConfigurator of /repo/cmd/bio-rd (package main) are driven by a
// test file injected with `go test -overlay` (kept in /verif/overlay/cmd_bio-rd, nothing is written to /repo)
// against a recording fake BGPServer. Differential oracle: server A sees cfg1..cfgn one after the other (as
// configReloader would apply them), a fresh server B sees cfgn alone; the peer sets, every session-affecting
// setting of every peer and the effective import/export policies (names and behaviour on a probe corpus) must
// be equal. Generator and oracle live here; the injected test is a dumb driver run as a child per batch.
package main

import (
	"bufio"
	"bytes"
	"encoding/json"
	"fmt"
	"math/rand/v2"
	"os"
	"os/exec"
	"path/filepath"
	"sort"
	"strings"
	"sync"
	"time"

	"verifharness/internal/batch"
	"verifharness/internal/vf"
)

// ---------- configuration model ----------

type sendSpec struct {
	Multipath bool  `json:"multipath"`
	PathCount uint8 `json:"path_count"`
}

type addPathSpec struct {
	Receive bool      `json:"receive"`
	Send    *sendSpec `json:"send,omitempty"`
}

type afSpec struct {
	AddPath         *addPathSpec `json:"add_path,omitempty"`
	NextHopExtended bool         `json:"next_hop_extended,omitempty"`
}

// settings that exist at group and at neighbour level
type common struct {
	LocalAddress string   `json:"local_address,omitempty"`
	TTL          uint8    `json:"ttl,omitempty"`
	Auth         string   `json:"authentication_key,omitempty"`
	PeerAS       uint32   `json:"peer_as,omitempty"`
	LocalAS      uint32   `json:"local_as,omitempty"`
	HoldTime     uint16   `json:"hold_time,omitempty"`
	Import       []string `json:"import,omitempty"`
	Export       []string `json:"export,omitempty"`
	RSClient     *bool    `json:"route_server_client,omitempty"`
	RRClient     *bool    `json:"route_reflector_client,omitempty"`
	Passive      *bool    `json:"passive,omitempty"`
	ClusterID    string   `json:"cluster_id,omitempty"`
	IPv4         *afSpec  `json:"ipv4,omitempty"`
	IPv6         *afSpec  `json:"ipv6,omitempty"`
	RI           string   `json:"routing_instance,omitempty"`
}

type neighSpec struct {
	common
	Addr     string `json:"peer_address"`
	Disabled bool   `json:"disabled,omitempty"`
	AdvMP    bool   `json:"advertise_ipv4_multiprotocol,omitempty"`
}

type groupSpec struct {
	common
	Name      string      `json:"name"`
	Neighbors []neighSpec `json:"neighbors"`
}

type rfSpec struct {
	Prefix  string `json:"prefix"`
	Matcher string `json:"matcher"`
	Min     uint8  `json:"len_min,omitempty"`
	Max     uint8  `json:"len_max,omitempty"`
}

type termSpec struct {
	RFs       []rfSpec `json:"route_filters,omitempty"`
	Accept    bool     `json:"accept,omitempty"`
	Reject    bool     `json:"reject,omitempty"`
	LocalPref *uint32  `json:"local_pref,omitempty"`
	MED       *uint32  `json:"med,omitempty"`
	Prepend   *[2]uint `json:"prepend,omitempty"` // asn, count
	NextHop   string   `json:"next_hop,omitempty"`
}

type policySpec struct {
	Name  string     `json:"name"`
	Terms []termSpec `json:"terms"`
}

type riSpec struct {
	Name string `json:"name"`
	RD   string `json:"rd"`
}

type cfgSpec struct {
	AS       uint32       `json:"autonomous_system"`
	Policies []policySpec `json:"policies"`
	Groups   []groupSpec  `json:"groups"`
	// "groups" (normal) | "no_protocols" (no protocols key) | "empty_protocols" (protocols: {}) | "empty_bgp" (bgp: {})
	Form string   `json:"form"`
	RIs  []riSpec `json:"routing_instances,omitempty"`
}

// ---------- YAML rendering ----------

func yb(b *strings.Builder, ind int, format string, a ...any) {
	b.WriteString(strings.Repeat(" ", ind))
	fmt.Fprintf(b, format, a...)
	b.WriteByte('\n')
}

func strList(l []string) string {
	q := make([]string, len(l))
	for i, s := range l {
		q[i] = fmt.Sprintf("%q", s)
	}
	return "[" + strings.Join(q, ", ") + "]"
}

func renderAF(b *strings.Builder, ind int, key string, a *afSpec) {
	if a == nil {
		return
	}
	if a.AddPath == nil && !a.NextHopExtended {
		yb(b, ind, "%s: {}", key)
		return
	}
	yb(b, ind, "%s:", key)
	if a.NextHopExtended {
		yb(b, ind+2, "next_hop_extended: true")
	}
	if a.AddPath != nil {
		yb(b, ind+2, "add_path:")
		yb(b, ind+4, "receive: %v", a.AddPath.Receive)
		if a.AddPath.Send != nil {
			yb(b, ind+4, "send:")
			yb(b, ind+6, "multipath: %v", a.AddPath.Send.Multipath)
			yb(b, ind+6, "path_count: %d", a.AddPath.Send.PathCount)
		}
	}
}

func renderCommon(b *strings.Builder, ind int, c common) {
	if c.LocalAddress != "" {
		yb(b, ind, "local_address: %q", c.LocalAddress)
	}
	if c.TTL != 0 {
		yb(b, ind, "ttl: %d", c.TTL)
	}
	if c.Auth != "" {
		yb(b, ind, "authentication_key: %q", c.Auth)
	}
	if c.PeerAS != 0 {
		yb(b, ind, "peer_as: %d", c.PeerAS)
	}
	if c.LocalAS != 0 {
		yb(b, ind, "local_as: %d", c.LocalAS)
	}
	if c.HoldTime != 0 {
		yb(b, ind, "hold_time: %d", c.HoldTime)
	}
	if len(c.Import) > 0 {
		yb(b, ind, "import: %s", strList(c.Import))
	}
	if len(c.Export) > 0 {
		yb(b, ind, "export: %s", strList(c.Export))
	}
	if c.RSClient != nil {
		yb(b, ind, "route_server_client: %v", *c.RSClient)
	}
	if c.RRClient != nil {
		yb(b, ind, "route_reflector_client: %v", *c.RRClient)
	}
	if c.Passive != nil {
		yb(b, ind, "passive: %v", *c.Passive)
	}
	if c.ClusterID != "" {
		yb(b, ind, "cluster_id: %q", c.ClusterID)
	}
	renderAF(b, ind, "ipv4", c.IPv4)
	renderAF(b, ind, "ipv6", c.IPv6)
	if c.RI != "" {
		yb(b, ind, "routing_instance: %q", c.RI)
	}
}

func (c cfgSpec) yaml() string {
	var b strings.Builder
	yb(&b, 0, "routing_options:")
	yb(&b, 2, "autonomous_system: %d", c.AS)
	yb(&b, 2, "router_id: 192.0.2.255")
	yb(&b, 0, "policy_options:")
	yb(&b, 2, "policy_statements:")
	for _, p := range c.Policies {
		yb(&b, 4, "- name: %q", p.Name)
		yb(&b, 6, "terms:")
		for ti, t := range p.Terms {
			yb(&b, 8, "- name: \"t%d\"", ti)
			if len(t.RFs) > 0 {
				yb(&b, 10, "from:")
				yb(&b, 12, "route_filters:")
				for _, rf := range t.RFs {
					yb(&b, 14, "- prefix: %q", rf.Prefix)
					yb(&b, 16, "matcher: %q", rf.Matcher)
					if rf.Matcher == "range" {
						yb(&b, 16, "len_min: %d", rf.Min)
						yb(&b, 16, "len_max: %d", rf.Max)
					}
				}
			}
			yb(&b, 10, "then:")
			if t.LocalPref != nil {
				yb(&b, 12, "local_pref: %d", *t.LocalPref)
			}
			if t.MED != nil {
				yb(&b, 12, "med: %d", *t.MED)
			}
			if t.Prepend != nil {
				yb(&b, 12, "as_path_prepend:")
				yb(&b, 14, "asn: %d", t.Prepend[0])
				yb(&b, 14, "count: %d", t.Prepend[1])
			}
			if t.NextHop != "" {
				yb(&b, 12, "next_hop:")
				yb(&b, 14, "address: %q", t.NextHop)
			}
			yb(&b, 12, "accept: %v", t.Accept)
			yb(&b, 12, "reject: %v", t.Reject)
		}
	}
	if len(c.RIs) > 0 {
		yb(&b, 0, "routing_instances:")
		for _, ri := range c.RIs {
			yb(&b, 2, "- name: %q", ri.Name)
			yb(&b, 4, "route_distinguisher: %q", ri.RD)
		}
	}
	switch c.Form {
	case "no_protocols":
		return b.String()
	case "empty_protocols":
		yb(&b, 0, "protocols: {}")
		return b.String()
	case "empty_bgp":
		yb(&b, 0, "protocols:")
		yb(&b, 2, "bgp: {}")
		return b.String()
	}
	yb(&b, 0, "protocols:")
	yb(&b, 2, "bgp:")
	if len(c.Groups) == 0 {
		yb(&b, 4, "groups: []")
		return b.String()
	}
	yb(&b, 4, "groups:")
	for _, g := range c.Groups {
		yb(&b, 6, "- name: %q", g.Name)
		renderCommon(&b, 8, g.common)
		if len(g.Neighbors) == 0 {
			yb(&b, 8, "neighbors: []")
			continue
		}
		yb(&b, 8, "neighbors:")
		for _, n := range g.Neighbors {
			yb(&b, 10, "- peer_address: %q", n.Addr)
			if n.Disabled {
				yb(&b, 12, "disabled: true")
			}
			if n.AdvMP {
				yb(&b, 12, "advertise_ipv4_multiprotocol: true")
			}
			renderCommon(&b, 12, n.common)
		}
	}
	return b.String()
}

// ---------- generator ----------

var (
	peerPool   = []string{"192.0.2.1", "192.0.2.2", "192.0.2.3", "192.0.2.4", "2001:db8::1", "2001:db8::2"}
	localPool  = []string{"192.0.2.100", "192.0.2.101", "2001:db8::100"}
	policyPool = []string{"P1", "P2", "P3", "ACCEPT_ALL", "REJECT_ALL"}
	patterns   = []string{"10.0.0.0/8", "10.1.0.0/16", "192.0.2.0/24", "198.51.100.0/24", "2001:db8::/32", "2001:db8:1::/48"}
)

func pick[T any](rng *rand.Rand, l []T) T { return l[rng.IntN(len(l))] }

func optBool(rng *rand.Rand) *bool {
	switch rng.IntN(4) {
	case 0:
		t := true
		return &t
	case 1:
		f := false
		return &f
	}
	return nil
}

func genAF(rng *rand.Rand) *afSpec {
	if rng.IntN(2) == 0 {
		return nil
	}
	a := &afSpec{NextHopExtended: rng.IntN(4) == 0}
	if rng.IntN(2) == 0 {
		a.AddPath = &addPathSpec{Receive: rng.IntN(2) == 0}
		if rng.IntN(2) == 0 {
			a.AddPath.Send = &sendSpec{Multipath: rng.IntN(2) == 0, PathCount: uint8(rng.IntN(4))}
		}
	}
	return a
}

func genPolicyList(rng *rand.Rand) []string {
	switch rng.IntN(4) {
	case 0:
		return nil
	case 1:
		return []string{pick(rng, policyPool), pick(rng, policyPool)}
	}
	return []string{pick(rng, policyPool)}
}

// sparse: most optional settings absent, so that group/neighbour inheritance matters
func genCommon(rng *rand.Rand, group bool) common {
	var c common
	if group || rng.IntN(4) == 0 {
		c.LocalAddress = pick(rng, localPool)
	}
	if rng.IntN(3) == 0 {
		c.TTL = pick(rng, []uint8{1, 64, 255})
	}
	if rng.IntN(4) == 0 {
		c.Auth = pick(rng, []string{"k1", "k2"})
	}
	if group || rng.IntN(2) == 0 {
		c.PeerAS = pick(rng, []uint32{65001, 65002, 65100})
	}
	if rng.IntN(4) == 0 {
		c.LocalAS = pick(rng, []uint32{65100, 65200})
	}
	if rng.IntN(3) == 0 {
		c.HoldTime = pick(rng, []uint16{30, 90, 180})
	}
	c.Import, c.Export = genPolicyList(rng), genPolicyList(rng)
	c.RSClient, c.RRClient, c.Passive = optBool(rng), optBool(rng), optBool(rng)
	if rng.IntN(4) == 0 {
		c.ClusterID = pick(rng, []string{"1.1.1.1", "2.2.2.2"})
	}
	c.IPv4, c.IPv6 = genAF(rng), genAF(rng)
	return c
}

func genTerm(rng *rand.Rand, last bool) termSpec {
	var t termSpec
	if !last || rng.IntN(2) == 0 {
		for i, n := 0, 1+rng.IntN(2); i < n; i++ {
			rf := rfSpec{Prefix: pick(rng, patterns), Matcher: pick(rng, []string{"exact", "orlonger", "longer", "range"})}
			if rf.Matcher == "range" {
				rf.Min, rf.Max = uint8(8+rng.IntN(17)), uint8(24+rng.IntN(9))
			}
			t.RFs = append(t.RFs, rf)
		}
	}
	if rng.IntN(3) == 0 {
		v := pick(rng, []uint32{50, 100, 200})
		t.LocalPref = &v
	}
	if rng.IntN(4) == 0 {
		v := pick(rng, []uint32{0, 10, 1337})
		t.MED = &v
	}
	if rng.IntN(5) == 0 {
		t.Prepend = &[2]uint{65100, uint(1 + rng.IntN(3))}
	}
	if rng.IntN(6) == 0 {
		t.NextHop = pick(rng, []string{"192.0.2.77", "2001:db8::77"})
	}
	switch rng.IntN(3) {
	case 0:
		t.Accept = true
	case 1:
		t.Reject = true
	}
	return t
}

func genPolicy(rng *rand.Rand, name string) policySpec {
	p := policySpec{Name: name}
	switch name {
	case "ACCEPT_ALL":
		p.Terms = []termSpec{{Accept: true}}
	case "REJECT_ALL":
		p.Terms = []termSpec{{Reject: true}}
	default:
		n := 1 + rng.IntN(3)
		for i := 0; i < n; i++ {
			p.Terms = append(p.Terms, genTerm(rng, i == n-1))
		}
	}
	return p
}

func usedAddrs(c *cfgSpec) map[string]bool {
	m := map[string]bool{}
	for _, g := range c.Groups {
		for _, n := range g.Neighbors {
			m[n.Addr] = true
		}
	}
	return m
}

func genNeighbor(rng *rand.Rand, c *cfgSpec) (neighSpec, bool) {
	used := usedAddrs(c)
	var free []string
	for _, a := range peerPool {
		if !used[a] {
			free = append(free, a)
		}
	}
	if len(free) == 0 {
		return neighSpec{}, false
	}
	n := neighSpec{common: genCommon(rng, false), Addr: pick(rng, free), Disabled: rng.IntN(8) == 0, AdvMP: rng.IntN(6) == 0}
	return n, true
}

func genConfig(rng *rand.Rand) cfgSpec {
	c := cfgSpec{AS: pick(rng, []uint32{65100, 65200}), Form: "groups"}
	for _, name := range policyPool {
		c.Policies = append(c.Policies, genPolicy(rng, name))
	}
	for gi, ng := 0, 1+rng.IntN(3); gi < ng; gi++ {
		g := groupSpec{common: genCommon(rng, true), Name: fmt.Sprintf("g%d", gi)}
		c.Groups = append(c.Groups, g)
		for ni, nn := 0, rng.IntN(4); ni < nn; ni++ {
			if n, ok := genNeighbor(rng, &c); ok {
				c.Groups[gi].Neighbors = append(c.Groups[gi].Neighbors, n)
			}
		}
	}
	switch x := rng.IntN(100); {
	case x < 3:
		c.Form = "no_protocols"
	case x < 5:
		c.Form = "empty_protocols"
	case x < 8:
		c.Form = "empty_bgp"
	case x < 10:
		c.Groups = nil
	case x < 12:
		c.RIs = []riSpec{{Name: "red", RD: "65100:1"}}
		if len(c.Groups) > 0 && rng.IntN(2) == 0 {
			c.Groups[0].RI = "red"
		}
	}
	return c
}

func clone(c cfgSpec) cfgSpec {
	raw, _ := json.Marshal(c)
	var d cfgSpec
	json.Unmarshal(raw, &d)
	return d
}

// edit applies one random edit and names it.
func edit(rng *rand.Rand, c *cfgSpec) string {
	type nref struct{ g, n int }
	var ns []nref
	for gi := range c.Groups {
		for ni := range c.Groups[gi].Neighbors {
			ns = append(ns, nref{gi, ni})
		}
	}
	editCommon := func(cm *common, level string) string {
		switch rng.IntN(13) {
		case 0:
			cm.TTL = pick(rng, []uint8{0, 1, 64, 255})
			return level + ".ttl"
		case 1:
			cm.Auth = pick(rng, []string{"", "k1", "k2"})
			return level + ".authentication_key"
		case 2:
			if level == "group" {
				cm.PeerAS = pick(rng, []uint32{65001, 65002, 65100})
			} else {
				cm.PeerAS = pick(rng, []uint32{0, 65001, 65002, 65100})
			}
			return level + ".peer_as"
		case 3:
			cm.LocalAS = pick(rng, []uint32{0, 65100, 65200})
			return level + ".local_as"
		case 4:
			cm.HoldTime = pick(rng, []uint16{0, 30, 90, 180})
			return level + ".hold_time"
		case 5:
			cm.Import = genPolicyList(rng)
			return level + ".import"
		case 6:
			cm.Export = genPolicyList(rng)
			return level + ".export"
		case 7:
			cm.RSClient = optBool(rng)
			return level + ".route_server_client"
		case 8:
			cm.RRClient = optBool(rng)
			return level + ".route_reflector_client"
		case 9:
			cm.Passive = optBool(rng)
			return level + ".passive"
		case 10:
			cm.ClusterID = pick(rng, []string{"", "1.1.1.1", "2.2.2.2"})
			return level + ".cluster_id"
		case 11:
			if rng.IntN(2) == 0 {
				cm.IPv4 = genAF(rng)
				return level + ".ipv4"
			}
			cm.IPv6 = genAF(rng)
			return level + ".ipv6"
		}
		if level == "group" {
			cm.LocalAddress = pick(rng, localPool)
		} else {
			cm.LocalAddress = pick(rng, append([]string{""}, localPool...))
		}
		return level + ".local_address"
	}
	for try := 0; try < 10; try++ {
		switch x := rng.IntN(100); {
		case x < 35 && len(ns) > 0:
			r := pick(rng, ns)
			n := &c.Groups[r.g].Neighbors[r.n]
			switch rng.IntN(8) {
			case 0:
				n.Disabled = !n.Disabled
				return "neighbor.disabled"
			case 1:
				n.AdvMP = !n.AdvMP
				return "neighbor.advertise_ipv4_multiprotocol"
			}
			return editCommon(&n.common, "neighbor")
		case x < 60 && len(c.Groups) > 0:
			g := &c.Groups[rng.IntN(len(c.Groups))]
			return editCommon(&g.common, "group")
		case x < 68 && len(c.Groups) > 0:
			gi := rng.IntN(len(c.Groups))
			if n, ok := genNeighbor(rng, c); ok {
				c.Groups[gi].Neighbors = append(c.Groups[gi].Neighbors, n)
				return "neighbor.added"
			}
		case x < 76 && len(ns) > 0:
			r := pick(rng, ns)
			g := &c.Groups[r.g]
			g.Neighbors = append(g.Neighbors[:r.n:r.n], g.Neighbors[r.n+1:]...)
			return "neighbor.removed"
		case x < 80 && len(ns) > 0 && len(c.Groups) > 1:
			r := pick(rng, ns)
			to := rng.IntN(len(c.Groups))
			if to != r.g {
				n := c.Groups[r.g].Neighbors[r.n]
				c.Groups[r.g].Neighbors = append(c.Groups[r.g].Neighbors[:r.n:r.n], c.Groups[r.g].Neighbors[r.n+1:]...)
				c.Groups[to].Neighbors = append(c.Groups[to].Neighbors, n)
				return "neighbor.moved_to_other_group"
			}
		case x < 83 && len(c.Groups) > 1:
			gi := rng.IntN(len(c.Groups))
			c.Groups = append(c.Groups[:gi:gi], c.Groups[gi+1:]...)
			return "group.removed"
		case x < 86 && len(c.Groups) < 3:
			g := groupSpec{common: genCommon(rng, true), Name: fmt.Sprintf("g%d", 10+rng.IntN(90))}
			c.Groups = append(c.Groups, g)
			if n, ok := genNeighbor(rng, c); ok {
				c.Groups[len(c.Groups)-1].Neighbors = append(c.Groups[len(c.Groups)-1].Neighbors, n)
			}
			return "group.added"
		case x < 93:
			pi := rng.IntN(3) // P1..P3: same name, new content
			c.Policies[pi] = genPolicy(rng, c.Policies[pi].Name)
			return "policy.content"
		case x < 96:
			c.AS = pick(rng, []uint32{65100, 65200})
			return "routing_options.autonomous_system"
		case x < 97:
			c.Form = "no_protocols"
			return "form.no_protocols"
		case x < 98:
			c.Form = "empty_bgp"
			return "form.empty_bgp"
		case x < 99:
			c.Groups = nil
			c.Form = "groups"
			return "form.no_groups"
		default:
			c.Form = "empty_protocols"
			return "form.empty_protocols"
		}
	}
	return "none"
}

type ccase struct {
	Specs []cfgSpec `json:"specs"`
	Edits []string  `json:"edits"` // what changed from spec i to spec i+1
}

func genCase(rng *rand.Rand, n int) ccase {
	var c ccase
	cur := genConfig(rng)
	c.Specs = append(c.Specs, cur)
	for i := 1; i < n; i++ {
		if rng.IntN(8) == 0 {
			cur = genConfig(rng)
			c.Edits = append(c.Edits, "unrelated_config")
		} else {
			cur = clone(cur)
			if cur.Form != "groups" && rng.IntN(2) == 0 {
				cur.Form = "groups"
			}
			var names []string
			for k, m := 0, 1+rng.IntN(3); k < m; k++ {
				names = append(names, edit(rng, &cur))
			}
			c.Edits = append(c.Edits, strings.Join(names, "+"))
		}
		c.Specs = append(c.Specs, cur)
	}
	return c
}

// ---------- driver ----------

type afOut struct {
	AddPathRecv     bool `json:"add_path_recv"`
	AddPathBestOnly bool `json:"add_path_send_best_only"`
	AddPathMaxPaths uint `json:"add_path_send_max_paths"`
	NextHopExtended bool `json:"next_hop_extended"`
}

type chainOut struct {
	Names     []string `json:"names"`
	Behaviour string   `json:"behaviour"`
}

type peerOut struct {
	VRF      string            `json:"vrf"`
	Addr     string            `json:"addr"`
	Settings map[string]string `json:"settings"`
	IPv4     *afOut            `json:"ipv4"`
	IPv6     *afOut            `json:"ipv6"`
	Import   chainOut          `json:"import"`
	Export   chainOut          `json:"export"`
}

type stepOut struct {
	ConfigErr string `json:"config_err,omitempty"`
	LoadErr   string `json:"load_err,omitempty"`
	Panic     string `json:"panic,omitempty"`
	PanicIn   string `json:"panic_in,omitempty"`
}

type result struct {
	ID      string    `json:"id"`
	Steps   []stepOut `json:"steps"`
	Peers   []peerOut `json:"peers"`
	Calls   []string  `json:"calls"`
	Anomaly []string  `json:"anomaly,omitempty"`
}

type job struct {
	ID      string   `json:"id"`
	Configs []string `json:"configs"`
}

func repoDir() string {
	if d := os.Getenv("VERIF_REPO_DIR"); d != "" {
		return d
	}
	return "/repo"
}

// buildDriver compiles the injected test of /repo/cmd/bio-rd into a binary (once per run).
func buildDriver() (string, error) {
	if p := os.Getenv("C36_DRIVER"); p != "" {
		if _, err := os.Stat(p); err == nil {
			return p, nil
		}
	}
	repo := repoDir()
	ov := map[string]map[string]string{"Replace": {
		filepath.Join(repo, "cmd/bio-rd/c36_driver_test.go"):                  filepath.Join(vf.Root, "overlay/cmd_bio-rd/c36_driver_test.go"),
		filepath.Join(repo, "protocols/bgp/server/zz_c36_peerkey_overlay.go"): filepath.Join(vf.Root, "overlay/cmd_bio-rd/server_c36_peerkey.go"),
	}}
	raw, _ := json.Marshal(ov)
	tag := "main"
	if repo != "/repo" {
		tag = "alt"
	}
	ovPath := filepath.Join(vf.Root, "bin", "c36overlay."+tag+".json")
	os.MkdirAll(filepath.Dir(ovPath), 0o755)
	if err := os.WriteFile(ovPath, raw, 0o644); err != nil {
		return "", err
	}
	out := filepath.Join(vf.Root, "bin", "c36driver."+tag)
	cmd := exec.Command("go", "test", "-overlay", ovPath, "-vet=off", "-tags", "verif", "-c", "-o", out, "./cmd/bio-rd")
	cmd.Dir = repo
	cmd.Env = append(os.Environ(), "GOFLAGS=-mod=mod", "GOPROXY=off", "GOSUMDB=off", "GOTOOLCHAIN=local")
	if b, err := cmd.CombinedOutput(); err != nil {
		return "", fmt.Errorf("building the C36 driver failed: %v\n%s", err, b)
	}
	os.Setenv("C36_DRIVER", out)
	return out, nil
}

var scratchSeq struct {
	sync.Mutex
	n int
}

// runJobs runs one driver child over jobs; on a child failure it falls back to one child per job.
func runJobs(driver string, jobs []job, depth int) (map[string]result, []string) {
	scratchSeq.Lock()
	scratchSeq.n++
	id := scratchSeq.n
	scratchSeq.Unlock()
	dir := filepath.Join(os.TempDir(), "misc-c36")
	os.MkdirAll(dir, 0o755)
	in := filepath.Join(dir, fmt.Sprintf("jobs-%d-%d.json", os.Getpid(), id))
	out := filepath.Join(dir, fmt.Sprintf("out-%d-%d.jsonl", os.Getpid(), id))
	defer os.Remove(in)
	defer os.Remove(out)
	raw, _ := json.Marshal(jobs)
	os.WriteFile(in, raw, 0o644)
	cmd := exec.Command(driver, "-test.run", "^TestC36Driver$", "-test.timeout", "10m")
	cmd.Env = append(os.Environ(), "C36_JOBS="+in, "C36_OUT="+out, "TMPDIR="+dir)
	var buf bytes.Buffer
	cmd.Stdout, cmd.Stderr = &buf, &buf
	err := cmd.Run()
	res := map[string]result{}
	if f, e := os.Open(out); e == nil {
		sc := bufio.NewScanner(f)
		sc.Buffer(make([]byte, 1<<20), 64<<20)
		for sc.Scan() {
			var r result
			if json.Unmarshal(sc.Bytes(), &r) == nil {
				res[r.ID] = r
			}
		}
		f.Close()
	}
	var crashed []string
	if err != nil || len(res) != len(jobs) {
		if len(jobs) == 1 || depth > 0 {
			for _, j := range jobs {
				if _, ok := res[j.ID]; !ok {
					tail := buf.String()
					if len(tail) > 3000 {
						tail = tail[len(tail)-3000:]
					}
					crashed = append(crashed, j.ID+"\x00"+tail)
				}
			}
			return res, crashed
		}
		// attribute: one child per job that has no result
		for _, j := range jobs {
			if _, ok := res[j.ID]; ok {
				continue
			}
			r1, c1 := runJobs(driver, []job{j}, depth+1)
			for k, v := range r1 {
				res[k] = v
			}
			crashed = append(crashed, c1...)
		}
	}
	return res, crashed
}

// ---------- oracle ----------

func shape(c cfgSpec) string {
	s := c.Form
	if s == "groups" && len(c.Groups) == 0 {
		s = "no_groups"
	}
	if len(c.RIs) > 0 {
		s += "+routing_instances"
	}
	return s
}

type covStats struct {
	mu         sync.Mutex
	edits      map[string]int
	shapes     map[string]int
	calls      map[string]int
	peersFinal int
	settings   int
}

func firstLine(s string) string {
	if i := strings.IndexByte(s, '\n'); i >= 0 {
		return s[:i]
	}
	return s
}

func panicSite(s string) string {
	// first frame inside bio-rd after the panic
	lines := strings.Split(s, "\n")
	for i, l := range lines {
		if strings.Contains(l, "panic(") {
			for _, m := range lines[i+1:] {
				if strings.HasPrefix(m, "github.com/bio-routing/bio-rd/") || strings.HasPrefix(m, "main.") {
					if j := strings.LastIndex(m, "("); j > 0 {
						m = m[:j]
					}
					return strings.TrimPrefix(m, "github.com/bio-routing/bio-rd/")
				}
			}
		}
	}
	return "unknown"
}

func judge(c ccase, a, b result, cov *covStats, viol func(clause string, f map[string]string, detail string)) (evals int, reconfigured bool) {
	last := c.Specs[len(c.Specs)-1]
	lastShape := shape(last)
	// panics: the daemon would have died
	for _, side := range []struct {
		name string
		r    result
	}{{"reload", a}, {"fresh", b}} {
		for i, st := range side.r.Steps {
			if st.Panic != "" {
				idx := i
				if side.name == "fresh" {
					idx = len(c.Specs) - 1
				}
				viol("panic", vf.F("stage", st.PanicIn, "site", panicSite(st.Panic), "config_shape", shape(c.Specs[idx])),
					fmt.Sprintf("%s path: step %d (config shape %s) panicked in %s: %s", side.name, i, shape(c.Specs[idx]), st.PanicIn, st.Panic))
				return 1, false
			}
		}
	}
	if len(b.Steps) == 0 || b.Steps[0].ConfigErr != "" {
		cov.mu.Lock()
		cov.shapes["invalid_last_config"]++
		cov.mu.Unlock()
		return 0, false
	}
	am, bm := map[string]peerOut{}, map[string]peerOut{}
	for _, p := range a.Peers {
		am[p.VRF+"/"+p.Addr] = p
	}
	for _, p := range b.Peers {
		bm[p.VRF+"/"+p.Addr] = p
	}
	hist := strings.Join(c.Edits, " ; ")
	for k := range bm {
		evals++
		if _, ok := am[k]; !ok {
			viol("peer-set", vf.F("kind", "missing", "last_config", lastShape), fmt.Sprintf("peer %s is configured by a fresh start with the last configuration but absent after the reload sequence (edits: %s)", k, hist))
		}
	}
	for k := range am {
		evals++
		if _, ok := bm[k]; !ok {
			viol("peer-set", vf.F("kind", "stale", "last_config", lastShape), fmt.Sprintf("peer %s survives the reload sequence but a fresh start with the last configuration does not configure it (last config: %s; edits: %s)", k, lastShape, hist))
		}
	}
	for k, pb := range bm {
		pa, ok := am[k]
		if !ok {
			continue
		}
		var names []string
		for f := range pb.Settings {
			names = append(names, f)
		}
		sort.Strings(names)
		for _, f := range names {
			if f == "admin_enabled" {
				continue // the BGP server never reads PeerConfig.AdminEnabled: it cannot affect a session
			}
			evals++
			if pa.Settings[f] != pb.Settings[f] {
				grp := "session"
				if strings.HasSuffix(f, "_enabled") {
					grp = "address_family"
				}
				viol("setting", vf.F("field", f, "field_group", grp), fmt.Sprintf("peer %s: %s is %q after the reload sequence, %q after a fresh start with the last configuration (edits: %s)", k, f, pa.Settings[f], pb.Settings[f], hist))
			}
		}
		for _, fam := range []struct {
			name string
			x, y *afOut
		}{{"ipv4", pa.IPv4, pb.IPv4}, {"ipv6", pa.IPv6, pb.IPv6}} {
			if fam.x == nil || fam.y == nil {
				continue // presence is compared through ipv4_enabled / ipv6_enabled
			}
			cmp := func(field string, x, y any) {
				evals++
				if x != y {
					viol("setting", vf.F("field", fam.name+"."+field, "field_group", "address_family"), fmt.Sprintf("peer %s: %s.%s is %v after the reload sequence, %v after a fresh start (edits: %s)", k, fam.name, field, x, y, hist))
				}
			}
			cmp("add_path_recv", fam.x.AddPathRecv, fam.y.AddPathRecv)
			cmp("add_path_send_best_only", fam.x.AddPathBestOnly, fam.y.AddPathBestOnly)
			cmp("add_path_send_max_paths", fam.x.AddPathMaxPaths, fam.y.AddPathMaxPaths)
			cmp("next_hop_extended", fam.x.NextHopExtended, fam.y.NextHopExtended)
		}
		for _, d := range []struct {
			name string
			x, y chainOut
		}{{"import", pa.Import, pb.Import}, {"export", pa.Export, pb.Export}} {
			evals += 2
			if strings.Join(d.x.Names, ",") != strings.Join(d.y.Names, ",") {
				viol("policy", vf.F("direction", d.name, "what", "names"), fmt.Sprintf("peer %s: effective %s policies are %v after the reload sequence, %v after a fresh start (edits: %s)", k, d.name, d.x.Names, d.y.Names, hist))
			} else if d.x.Behaviour != d.y.Behaviour {
				viol("policy", vf.F("direction", d.name, "what", "behaviour"), fmt.Sprintf("peer %s: effective %s policies %v behave differently on the probe corpus after the reload sequence (%s) and after a fresh start (%s) (edits: %s)", k, d.name, d.x.Names, d.x.Behaviour, d.y.Behaviour, hist))
			}
		}
	}
	cov.mu.Lock()
	cov.peersFinal += len(bm)
	for _, cl := range a.Calls {
		cov.calls[strings.Fields(cl)[0]]++
		if strings.HasPrefix(cl, "Replace") || strings.HasPrefix(cl, "Dispose") {
			reconfigured = true
		}
	}
	cov.mu.Unlock()
	return evals, reconfigured
}

func main() {
	if batch.IsChild() { // server phase (server.go): its cases run in child processes
		batch.ChildMain(runServerCase)
		return
	}
	vf.Main("C36", "exploration", func(r *vf.Run) {
		r.Rule("PRNG configuration sequences: a start configuration (1-3 groups, 0-3 neighbours each from a pool of 4 IPv4 and 2 IPv6 peer addresses, every inheritable setting present or absent at group and neighbour level: local address, TTL, MD5 key, peer/local AS, hold time, import/export policy lists, route-server / route-reflector client, passive, cluster id, ipv4/ipv6 blocks with add-path receive/send and extended next hop; neighbour-only: disabled, advertise_ipv4_multiprotocol; 5 named policy statements with generated terms; a few percent degenerate forms: no protocols key, `protocols: {}`, `bgp: {}`, no groups, a routing instance) followed by 1 (pairs) or 2 (triples) successors obtained by 1-3 edits (change a setting at either level, add/remove/move a neighbour, add/remove a group, new content for a policy of the same name, change the global AS, switch to a degenerate form) or, 1 in 8, an unrelated configuration. Each YAML file goes through the real config.GetConfig and loadConfig. distinct_nontrivial = distinct cases whose reload path made the configurator dispose a peer or replace a filter chain (i.e. the last configuration met already configured peers)." + srvRule)
		r.Assume("the BGP server is a recording fake implementing the exported BGPServer interface (GetPeerConfig returns what AddPeer stored, Replace*FilterChain set the effective chains of the peer, as the real peer does); that the real server obeys is C07/C12's business", "router_id is constant (the daemon creates the server once from the start configuration)", "a peer address occurs at most once per configuration; every group has a local_address and a peer_as", "a panic inside config.GetConfig/loadConfig is recovered by the driver and reported (the daemon would have died)", "`disabled` (PeerConfig.AdminEnabled) is not compared: the BGP server never reads it, so it cannot affect a session")
		r.Assume("effective policies are compared by the list of policy names and by a digest of the chain's outcomes (reject flag, LOCAL_PREF, MED, next hop, AS path) on 11 probe prefixes covering every pattern of the policy grammar")
		r.Assume("server phase: the real BGP server is driven through its public API over in-memory connections (internal/speaker); synchronisation = speaker.Session.Sync after the neighbour's UPDATEs, the return of Replace*FilterChain, and for the update sender (own 5 ms ticker) the moment every prefix of the session's Adj-RIB-Outs stands announced on the wire; a session that cannot be established or observed within the step timeouts makes the case inconclusive (counted), never a violation")
		if raw, ok := r.Replaying(); ok && isServerCase(raw) {
			driveServer(r, []any{raw})
			return
		}
		if os.Getenv("C36_PHASE") == "server" { // development aid: only the server phase
			driveServer(r, genServerCases(r))
			return
		}
		driver, err := buildDriver()
		if err != nil {
			fmt.Fprintln(os.Stderr, err)
			r.Inconclusive("the driver (go test -overlay -c ./cmd/bio-rd) does not build against the current tree")
			return
		}
		cov := &covStats{edits: map[string]int{}, shapes: map[string]int{}, calls: map[string]int{}}
		mk := func(c ccase) func(string, map[string]string, string) {
			return func(clause string, f map[string]string, detail string) {
				r.Violate(vf.Violation{Clause: clause, Features: f, Detail: detail, Case: c})
			}
		}
		runCases := func(cases []ccase, base int) {
			var jobs []job
			for i, c := range cases {
				var ys []string
				for _, s := range c.Specs {
					ys = append(ys, s.yaml())
				}
				jobs = append(jobs, job{ID: fmt.Sprintf("%d/A", base+i), Configs: ys}, job{ID: fmt.Sprintf("%d/B", base+i), Configs: ys[len(ys)-1:]})
			}
			res, crashed := runJobs(driver, jobs, 0)
			for _, cr := range crashed {
				parts := strings.SplitN(cr, "\x00", 2)
				var idx int
				fmt.Sscanf(parts[0], "%d/", &idx)
				c := cases[idx-base]
				mk(c)("crash", vf.F("config_shape", shape(c.Specs[len(c.Specs)-1])), "the driver process died while running job "+parts[0]+": "+parts[1])
			}
			for i, c := range cases {
				a, okA := res[fmt.Sprintf("%d/A", base+i)]
				b, okB := res[fmt.Sprintf("%d/B", base+i)]
				if !okA || !okB {
					continue
				}
				n, reconf := judge(c, a, b, cov, mk(c))
				r.Eval(n)
				cov.mu.Lock()
				for _, e := range c.Edits {
					for _, x := range strings.Split(e, "+") {
						cov.edits[x]++
					}
				}
				cov.shapes[shape(c.Specs[len(c.Specs)-1])]++
				cov.mu.Unlock()
				if reconf {
					raw, _ := json.Marshal(c)
					r.NontrivialBytes(raw)
				}
				if base+i < 2 {
					r.Sample(map[string]any{"edits": c.Edits, "last_config_yaml": c.Specs[len(c.Specs)-1].yaml(), "reload_calls": a.Calls, "fresh_calls": b.Calls})
				}
			}
		}
		if raw, ok := r.Replaying(); ok {
			var c ccase
			vf.Decode(raw, &c)
			runCases([]ccase{c}, 0)
			return
		}
		npairs, ntriples := r.N(3000, 80000), r.N(500, 20000)
		total := npairs + ntriples
		const batch = 250
		nb := (total + batch - 1) / batch
		start := time.Now()
		vf.Parallel(nb, 6, func(bi int) {
			var cases []ccase
			for i := bi * batch; i < (bi+1)*batch && i < total; i++ {
				n := 2
				if i >= npairs {
					n = 3
				}
				cases = append(cases, genCase(r.RandN("c36", i), n))
			}
			runCases(cases, bi*batch)
		})
		_ = start
		r.Count("pairs", npairs)
		r.Count("triples", ntriples)
		r.Count("peers_compared", cov.peersFinal)
		r.Set("edits_applied", cov.edits)
		r.Set("last_config_shapes", cov.shapes)
		r.Set("configurator_calls_on_reload_path", cov.calls)
		r.Require("peers_compared", 1000)
		driveServer(r, genServerCases(r))
	})
}
