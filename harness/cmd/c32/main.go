// C32: the IS-IS LSDB follows the ISO 10589 update process.
// The server is not started; the harness runs the bodies of the LSDB goroutines through the verif
// hooks one at a time (a legal schedule of the real goroutines), feeds LSPs/CSNPs/PSNPs from two Up
// neighbors synchronously and compares LSDB contents, SRM/SSN flags and transmitted PDUs with the
// rules of ISO 10589 7.3.15-7.3.17 as far as the property statement names them.
package main

import (
	"encoding/json"
	"os"
	"path/filepath"

	"verifharness/internal/isish"
	"verifharness/internal/vf"
)

func runCase(c isish.Case, out *isish.Outcome) {
	if c.Kind == "ownrace" {
		var oc isish.OwnRaceCase
		if err := json.Unmarshal(c.Raw, &oc); err != nil {
			out.Inconclusive = "bad case: " + err.Error()
			return
		}
		isish.RunOwnRace(oc, out)
		return
	}
	var lc isish.LSDBCase
	if err := json.Unmarshal(c.Raw, &lc); err != nil {
		out.Inconclusive = "bad case: " + err.Error()
		return
	}
	isish.RunLSDB(lc, out, nil)
}

func main() {
	if isish.IsChild() {
		isish.ChildMain(runCase)
	}
	vf.Main("C32", "exploration", func(r *vf.Run) {
		r.Rule("PRNG histories of 40 steps against a server with three interfaces (eth0, eth1 with an Up neighbor each; eth2 with no or an Init neighbor): reception of an LSP (local LSP ID or one of 4 foreign IDs incl. a second fragment and a pseudonode, sequence number 0..5, remaining lifetime 0/1/2/300/1200) from either neighbor, reception of a CSNP (full or partial range, entries for a random subset of the IDs) or PSNP (1-3 entries), 1/2/10/300/1500 aging ticks, and LSP / PSNP / CSNP transmission rounds; plus bulk histories with 16/20/92/100 LSPs. After every step: (lsdb-seq, aging) the LSDB holds for every LSP ID the highest sequence number accepted so far with a lifetime that decreases by one per tick until it ages out; (flags-lsp, flags-csnp, flags-psnp, flags-frame) SRM/SSN flags on the circuits with an Up adjacency follow ISO 10589 7.3.15.1/7.3.15.2 (newer/same/older LSP; SNP entry same/older/newer/unknown; LSPs in a CSNP's range it does not list; nothing else changes); (send-lsp/psnp/csnp) what a transmission round puts on the wire is exactly what the flags / the LSDB call for, parsed with an independent codec; (own-refresh) the local LSP is present with lifetime > 0 after every tick once the regeneration the server requested has run; (own-seq) copies of the local LSP (sequence numbers 1..12, in any order, half of them arriving before the updater has run the regeneration the previous one triggered) : once the requested regeneration has run, and at every later regeneration, the local LSP's sequence number exceeds every copy received so far. Copies received DURING a regeneration (150 histories of 3..8 rounds; thorough 3000; started server, real updater goroutine): a regeneration is requested by an event (a newer copy of the local LSP received while idle, or a neighbor's hello that stops listing us), and while the updater goroutine is building the new LSP (sequence number drawn, LSP not yet stored: the moment it asks for the hostname) 1..2 copies of the local LSP with sequence number own+1..own+7 are received through the interface's receive function; once no regeneration is pending the local LSP in the LSDB must exceed every copy received (own-seq, when=received-during-regeneration). distinct_nontrivial = histories containing at least 8 of the 9 step classes (newer, same, older LSP, CSNP, PSNP, tick, three kinds of transmission round)")
		r.Assume("Server.Start is not called: aging, transmission and regeneration run synchronously through the verif hooks, serialised by the harness",
			"LSPs with sequence number 0 or remaining lifetime 0 and SNP entries with such values are fed but only 'sequence numbers never decrease' is judged for them (the statement is silent about purges)",
			"bio-rd's CSNP range test ignores the LSP number; LSPs just outside a partial range are not judged")
		opts := isish.Opts{Workers: 8, Scratch: filepath.Join(os.TempDir(), "isis")}
		if raw, ok := r.Replaying(); ok {
			c := isish.ReplayCase(raw)
			outs := isish.RunBatch([]isish.Case{c}, opts)
			isish.Apply(r, []isish.Case{c}, outs, nil)
			return
		}
		n := r.N(3000, 60000)
		var cases []isish.Case
		for i := 0; i < n; i++ {
			lc := isish.GenLSDBCase(r.RandN("c32", i), 40)
			cases = append(cases, isish.Case{Kind: "lsdb", Raw: isish.MustJSON(lc)})
			if i < 1 {
				r.Sample(lc)
			}
		}
		for _, b := range []int{16, 20, 92, 100} {
			for k := 0; k < r.N(2, 20); k++ {
				cases = append(cases, isish.Case{Kind: "lsdb", Raw: isish.MustJSON(isish.GenLSDBBulk(b + k))})
			}
		}
		nOwn := r.N(150, 3000)
		for i := 0; i < nOwn; i++ {
			oc := isish.GenOwnRaceCase(r.RandN("c32-ownrace", i))
			cases = append(cases, isish.Case{Kind: "ownrace", Raw: isish.MustJSON(oc)})
			if i < 1 {
				r.Sample(oc)
			}
		}
		outs := isish.RunBatch(cases, opts)
		isish.Apply(r, cases, outs, nil)
		r.Require("own_seq_checks_after_concurrent_copy", int64(nOwn*2))
		r.Require("ownrace_rounds_adj-down-up", int64(nOwn))
		r.Require("ownrace_rounds_own-copy", int64(nOwn))
		r.Require("flag_checks", 10000)
		r.Require("ticks", 10000)
		r.Require("lsp_rounds", 1000)
		r.Require("psnp_rounds", 1000)
		r.Require("csnp_rounds", 1000)
		r.Require("own_newer_copies", 100)
		r.Require("own_copies_deferred", 500)
	})
}
