// C35: the shortest-path-tree computation (util/dijkstra) is correct on every graph.
// Oracle: Bellman-Ford over the generated edge list. Per (graph, source): no panic; every node is in the
// result; a reachable node carries the minimal distance and an edge list that is a real path of existing
// edges from the source whose weights sum to that distance; an unreachable node carries the API's
// "unreachable" mark (distance -1, no edges).
package main

import (
	"fmt"
	"math/rand/v2"
	"runtime"
	"strings"
	"sync"
	"sync/atomic"

	"github.com/bio-routing/bio-rd/util/dijkstra"

	"verifharness/internal/vf"
)

type gcase struct {
	N     int      `json:"n"`
	Edges [][3]int `json:"edges"` // from, to, weight
	Src   int      `json:"src"`
	// Prior: sources for which SPT was called on the same Topology object before (a topology is built once and
	// asked for several trees); the tree for Src must not depend on them
	Prior []int `json:"prior,omitempty"`
}

func (c gcase) key() string {
	var b strings.Builder
	fmt.Fprintf(&b, "%d/%d/%v", c.N, c.Src, c.Prior)
	for _, e := range c.Edges {
		fmt.Fprintf(&b, "|%d>%d:%d", e[0], e[1], e[2])
	}
	return b.String()
}

const inf = int64(1) << 60

// reference: Bellman-Ford
func bellmanFord(c gcase) []int64 {
	d := make([]int64, c.N)
	for i := range d {
		d[i] = inf
	}
	d[c.Src] = 0
	for round := 0; round < c.N; round++ {
		changed := false
		for _, e := range c.Edges {
			if d[e[0]] != inf && d[e[0]]+int64(e[2]) < d[e[1]] {
				d[e[1]] = d[e[0]] + int64(e[2])
				changed = true
			}
		}
		if !changed {
			break
		}
	}
	return d
}

var names = func() []dijkstra.Node {
	out := make([]dijkstra.Node, 64)
	for i := range out {
		out[i] = dijkstra.Node{Name: fmt.Sprintf("n%d", i)}
	}
	return out
}()

var panics atomic.Int64

type result struct {
	nontrivial  bool
	unreachable int
	multihop    int
}

func check(c gcase, viol func(clause string, f map[string]string, detail string)) (res result) {
	ref := bellmanFord(c)
	nUnreach := 0
	for _, x := range ref {
		if x == inf {
			nUnreach++
		}
	}
	res.unreachable = nUnreach
	hasUnreach := nUnreach > 0
	defer func() {
		if p := recover(); p != nil {
			var buf []byte
			if panics.Add(1) <= 64 { // stacks are expensive; the first few identify the site
				buf = make([]byte, 1500)
				buf = buf[:runtime.Stack(buf, false)]
			}
			viol("panic", vf.F("unreachable_node", hasUnreach), fmt.Sprintf("SPT(%s) panicked: %v (nodes=%d edges=%v; %d node(s) unreachable)\n%s", names[c.Src].Name, p, c.N, c.Edges, nUnreach, buf))
		}
	}()
	nodes := make([]dijkstra.Node, c.N)
	copy(nodes, names[:c.N])
	edges := make([]dijkstra.Edge, len(c.Edges))
	w := map[[2]int]int64{}
	for i, e := range c.Edges {
		edges[i] = dijkstra.Edge{NodeA: names[e[0]], NodeB: names[e[1]], Distance: int64(e[2])}
		w[[2]int{e[0], e[1]}] = int64(e[2])
	}
	idx := map[dijkstra.Node]int{}
	for i, n := range nodes {
		idx[n] = i
	}
	t := dijkstra.NewTopology(nodes, edges)
	for _, q := range c.Prior {
		t.SPT(names[q])
	}
	spt := t.SPT(names[c.Src])
	if len(spt) != c.N {
		viol("node-set", vf.F(), fmt.Sprintf("tree has %d entries for %d nodes", len(spt), c.N))
	}
	for i := 0; i < c.N; i++ {
		p, ok := spt[names[i]]
		if !ok {
			viol("node-set", vf.F(), fmt.Sprintf("node %s missing from the tree", names[i].Name))
			continue
		}
		if ref[i] == inf {
			if p.Distance != -1 || len(p.Edges) != 0 {
				viol("unreachable-mark", vf.F(), fmt.Sprintf("node %s is unreachable from %s but carries distance %d and %d edges (edges=%v)", names[i].Name, names[c.Src].Name, p.Distance, len(p.Edges), c.Edges))
			}
			continue
		}
		if p.Distance != ref[i] {
			viol("distance", vf.F("zero_weight_edges", hasZero(c), "got_unreachable", p.Distance == -1), fmt.Sprintf("node %s: distance %d, minimal is %d (src %s, edges=%v)", names[i].Name, p.Distance, ref[i], names[c.Src].Name, c.Edges))
		}
		// the edge list must be a real path from the source to the node summing to the reported distance
		cur := c.Src
		var sum int64
		bad := ""
		for k, e := range p.Edges {
			a, okA := idx[e.NodeA]
			b, okB := idx[e.NodeB]
			if !okA || !okB {
				bad = fmt.Sprintf("edge %d names an unknown node", k)
				break
			}
			if a != cur {
				bad = fmt.Sprintf("edge %d starts at %s, previous hop ended at %s", k, e.NodeA.Name, names[cur].Name)
				break
			}
			wt, exists := w[[2]int{a, b}]
			if !exists || wt != e.Distance {
				bad = fmt.Sprintf("edge %d %s>%s:%d is not an edge of the graph", k, e.NodeA.Name, e.NodeB.Name, e.Distance)
				break
			}
			sum += e.Distance
			cur = b
		}
		if bad == "" && cur != i {
			bad = fmt.Sprintf("edge list ends at %s", names[cur].Name)
		}
		if bad == "" && sum != p.Distance {
			bad = fmt.Sprintf("edge weights sum to %d, reported distance %d", sum, p.Distance)
		}
		if bad != "" {
			viol("path", vf.F(), fmt.Sprintf("node %s: %s (path=%v src %s edges=%v)", names[i].Name, bad, p.Edges, names[c.Src].Name, c.Edges))
		}
		if len(p.Edges) >= 2 {
			res.multihop++
			if d, direct := w[[2]int{c.Src, i}]; !direct || d > ref[i] {
				res.nontrivial = true
			}
		}
	}
	if hasUnreach && c.N > 1 {
		res.nontrivial = true
	}
	return res
}

func hasZero(c gcase) bool {
	for _, e := range c.Edges {
		if e[2] == 0 {
			return true
		}
	}
	return false
}

type agg struct {
	mu                                  sync.Mutex
	evals, unreach, multihop, nontriv   int
	bySize                              map[int]int
}

// enumerate all simple directed graphs (no self loops) on n nodes whose ordered pairs each take a value from
// weights or are absent, with at most maxEdges edges; fn is called for every graph.
func enumerate(n int, weights []int, maxEdges int, workers int, fn func(edges [][3]int)) {
	var pairs [][2]int
	for a := 0; a < n; a++ {
		for b := 0; b < n; b++ {
			if a != b {
				pairs = append(pairs, [2]int{a, b})
			}
		}
	}
	if len(pairs) == 0 {
		fn(nil)
		return
	}
	// split on the assignment of the first two pairs
	type seed struct{ edges [][3]int }
	var seeds []seed
	split := 2
	if len(pairs) < split {
		split = len(pairs)
	}
	var mk func(i int, cur [][3]int)
	mk = func(i int, cur [][3]int) {
		if i == split {
			seeds = append(seeds, seed{append([][3]int{}, cur...)})
			return
		}
		mk(i+1, cur)
		if len(cur) < maxEdges {
			for _, w := range weights {
				mk(i+1, append(cur, [3]int{pairs[i][0], pairs[i][1], w}))
			}
		}
	}
	mk(0, nil)
	vf.Parallel(len(seeds), workers, func(si int) {
		cur := append(make([][3]int, 0, len(pairs)), seeds[si].edges...)
		var rec func(i int)
		rec = func(i int) {
			if i == len(pairs) {
				fn(cur)
				return
			}
			rec(i + 1)
			if len(cur) < maxEdges {
				for _, w := range weights {
					cur = append(cur, [3]int{pairs[i][0], pairs[i][1], w})
					rec(i + 1)
					cur = cur[:len(cur)-1]
				}
			}
		}
		rec(split)
	})
}

func genRandom(rng *rand.Rand) gcase {
	n := 1 + rng.IntN(40)
	if rng.IntN(4) == 0 {
		n = 1 + rng.IntN(8)
	}
	c := gcase{N: n, Src: rng.IntN(n)}
	// density: sparse (several components) .. dense
	var p float64
	switch rng.IntN(4) {
	case 0:
		p = 0.5 / float64(n)
	case 1:
		p = 1.5 / float64(n)
	case 2:
		p = 3.0 / float64(n)
	default:
		p = rng.Float64()
	}
	maxW := []int{1, 3, 10, 1000, 1 << 30}[rng.IntN(5)]
	selfLoops := rng.IntN(4) == 0
	for a := 0; a < n; a++ {
		for b := 0; b < n; b++ {
			if a == b && !selfLoops {
				continue
			}
			if rng.Float64() < p {
				c.Edges = append(c.Edges, [3]int{a, b, rng.IntN(maxW + 1)})
			}
		}
	}
	rng.Shuffle(len(c.Edges), func(i, j int) { c.Edges[i], c.Edges[j] = c.Edges[j], c.Edges[i] })
	if n > 1 && rng.IntN(2) == 0 {
		for k := 1 + rng.IntN(2); k > 0; k-- {
			c.Prior = append(c.Prior, rng.IntN(n))
		}
	}
	return c
}

func main() {
	vf.Main("C35", "exploration", func(r *vf.Run) {
		r.Rule("exhaustive: every simple directed graph on 1..3 nodes with each ordered pair in {absent,0,1,2,3}, every source (thorough: also 4 nodes with {absent,0,1,3}, every source, and 5 nodes from source n0 with <=6 edges over {0,1,3} and <=8 edges over {1,2}); plus PRNG graphs with 1..40 nodes, densities from 0.5/n to 1, weight ranges up to 2^30, optional self loops, random source; half of the PRNG cases and a second copy of every exhaustive 2-3 node case ask the same Topology object for the trees of other sources first. Reference = Bellman-Ford. distinct_nontrivial = distinct (graph, source) cases in which some node is unreachable from the source, or some node's shortest path has >= 2 edges and is strictly shorter than the direct edge (or there is no direct edge)")
		r.Assume("graphs are simple (at most one edge per ordered pair), all edge endpoints and the source are listed nodes, weights are non-negative and sums stay below 2^62", "the API's mark for an unreachable node is distance -1 with an empty edge list (what newSPT initialises)")
		mkViol := func(c gcase) func(string, map[string]string, string) {
			return func(clause string, f map[string]string, detail string) {
				cc := c
				cc.Edges = append([][3]int{}, c.Edges...)
				r.Violate(vf.Violation{Clause: clause, Features: f, Detail: detail, Case: cc})
			}
		}
		if raw, ok := r.Replaying(); ok {
			var c gcase
			vf.Decode(raw, &c)
			check(c, mkViol(c))
			return
		}
		a := &agg{bySize: map[int]int{}}
		record := func(c gcase, res result) {
			a.mu.Lock()
			a.evals++
			a.bySize[c.N]++
			if res.unreachable > 0 {
				a.unreach++
			}
			a.multihop += res.multihop
			a.mu.Unlock()
			if res.nontrivial {
				r.Nontrivial(c.key())
			}
		}
		workers := 8
		runEnum := func(n int, weights []int, maxEdges int, srcs []int) {
			enumerate(n, weights, maxEdges, workers, func(edges [][3]int) {
				for _, s := range srcs {
					c := gcase{N: n, Edges: edges, Src: s}
					res := check(c, mkViol(c))
					record(c, res)
					if n > 1 && n <= 3 {
						// the same tree once more, asked for after the tree of the next node
						c2 := gcase{N: n, Edges: edges, Src: s, Prior: []int{(s + 1) % n}}
						record(c2, check(c2, mkViol(c2)))
					}
				}
			})
		}
		runEnum(1, []int{0, 1, 2, 3}, 99, []int{0})
		runEnum(2, []int{0, 1, 2, 3}, 99, []int{0, 1})
		runEnum(3, []int{0, 1, 2, 3}, 99, []int{0, 1, 2})
		if !r.Quick() {
			runEnum(4, []int{0, 1, 3}, 99, []int{0, 1, 2, 3})
			runEnum(5, []int{0, 1, 3}, 6, []int{0})
			runEnum(5, []int{1, 2}, 8, []int{0})
		}
		r.Count("enumerated_cases", a.evals)
		r.Exhaustive(true)
		nr := r.N(20000, 2000000)
		vf.Parallel(nr, workers, func(i int) {
			rng := r.RandN("c35", i)
			c := genRandom(rng)
			res := check(c, mkViol(c))
			record(c, res)
			if i < 3 {
				r.Sample(map[string]any{"n": c.N, "src": c.Src, "n_edges": len(c.Edges), "first_edges": c.Edges[:min(6, len(c.Edges))], "unreachable_nodes": res.unreachable})
			}
		})
		r.Count("random_graphs", nr)
		r.Eval(a.evals)
		r.Count("cases_with_unreachable_node", a.unreach)
		r.Count("multi_hop_paths_checked", a.multihop)
		r.Set("cases_by_node_count", a.bySize)
		r.Require("cases_with_unreachable_node", 100)
		r.Require("multi_hop_paths_checked", 1000)
	})
}
