// C02: best-path and ECMP selection do not depend on arrival order; the preference relation is a total preorder.
// Monitors: order-theoretic laws on route.Path.Select over exhaustive and sampled path domains, and Loc-RIB
// selections compared across all insertion permutations (and single-removal follow-ups) of candidate sets.
package main

import (
	"fmt"
	"math/rand/v2"
	"runtime"
	"sort"
	"strings"

	bnet "github.com/bio-routing/bio-rd/net"
	"github.com/bio-routing/bio-rd/routingtable/locRIB"

	"verifharness/internal/tbl"
	"verifharness/internal/vf"
)

type kase struct {
	Kind  string         `json:"kind"` // laws | perm
	Specs []tbl.PathSpec `json:"specs"`
}

func sign(x int8) int {
	switch {
	case x > 0:
		return 1
	case x < 0:
		return -1
	}
	return 0
}

func union(specs []tbl.PathSpec) string {
	set := map[string]bool{}
	for i := range specs {
		for j := i + 1; j < len(specs); j++ {
			for _, d := range tbl.Diff(specs[i], specs[j]) {
				set[d] = true
			}
		}
	}
	var out []string
	for k := range set {
		out = append(out, k)
	}
	sort.Strings(out)
	return strings.Join(out, "+")
}

func describe(specs []tbl.PathSpec) string {
	var out []string
	for _, s := range specs {
		out = append(out, fmt.Sprintf("#%d{%s}", s.ID, s.Describe()))
	}
	return strings.Join(out, " ")
}

// selMatrix computes Select for every ordered pair (a panic is reported and returns nil).
func selMatrix(r *vf.Run, specs []tbl.PathSpec) [][]int {
	n := len(specs)
	m := make([][]int, n)
	for i := range m {
		m[i] = make([]int, n)
		for j := range m[i] {
			func() {
				defer func() {
					if p := recover(); p != nil {
						pair := []tbl.PathSpec{specs[i], specs[j]}
						r.Violate(vf.Violation{Clause: "panic-select", Features: vf.F("attrs", union(pair)), Detail: fmt.Sprintf("Select panicked: %v on %s", p, describe(pair)), Case: kase{Kind: "laws", Specs: pair}})
						m[i][j] = 99
					}
				}()
				m[i][j] = sign(specs[i].Build().Select(specs[j].Build()))
			}()
		}
	}
	return m
}

// laws checks antisymmetry, ties-only-between-indistinguishable and transitivity on all pairs/triples of specs.
func laws(r *vf.Run, specs []tbl.PathSpec, countNT bool) {
	m := selMatrix(r, specs)
	n := len(specs)
	for i := 0; i < n; i++ {
		for j := 0; j < n; j++ {
			if m[i][j] == 99 || m[j][i] == 99 {
				continue
			}
			if m[i][j] != -m[j][i] {
				pair := []tbl.PathSpec{specs[i], specs[j]}
				r.Violate(vf.Violation{Clause: "antisymmetry", Features: vf.F("attrs", union(pair)), Detail: fmt.Sprintf("a.Select(b)=%d but b.Select(a)=%d for %s", m[i][j], m[j][i], describe(pair)), Case: kase{Kind: "laws", Specs: pair}})
			}
			if i != j && m[i][j] == 0 && specs[i].RFCKey() != specs[j].RFCKey() {
				pair := []tbl.PathSpec{specs[i], specs[j]}
				r.Violate(vf.Violation{Clause: "tie-between-distinguishable", Features: vf.F("attrs", union(pair)), Detail: fmt.Sprintf("Select reports a tie between paths whose decision attributes differ: %s", describe(pair)), Case: kase{Kind: "laws", Specs: pair}})
			}
		}
	}
	r.Eval(n * n)
	for i := 0; i < n; i++ {
		for j := 0; j < n; j++ {
			if m[i][j] < 0 || m[i][j] == 99 {
				continue
			}
			for k := 0; k < n; k++ {
				if m[j][k] < 0 || m[j][k] == 99 || m[i][k] == 99 {
					continue
				}
				// i >= j and j >= k must give i >= k, strictly if one of the premises is strict
				bad := m[i][k] < 0 || ((m[i][j] > 0 || m[j][k] > 0) && m[i][k] == 0)
				if bad {
					tr := []tbl.PathSpec{specs[i], specs[j], specs[k]}
					r.Violate(vf.Violation{Clause: "transitivity", Features: vf.F("attrs", union(tr)), Detail: fmt.Sprintf("Select(a,b)=%d, Select(b,c)=%d but Select(a,c)=%d for %s", m[i][j], m[j][k], m[i][k], describe(tr)), Case: kase{Kind: "laws", Specs: tr}})
				}
			}
		}
	}
	r.Eval(n * n * n)
	if countNT {
		for i := 0; i < n; i++ {
			r.Nontrivial("key/" + specs[i].FullKey())
		}
	}
}

var pfx = bnet.NewPfx(bnet.IPv4(0x0a000000), 8).Ptr()

type outcome struct {
	best string
	ecmp string
}

func observe(lr *locRIB.LocRIB, byID map[uint32]tbl.PathSpec) outcome {
	rt := lr.Get(pfx)
	if rt == nil {
		return outcome{best: "<none>"}
	}
	o := outcome{best: "<none>"}
	if bp := rt.BestPath(); bp != nil {
		o.best = byID[tbl.IDOf(bp)].FullKey()
	}
	var ks []string
	for _, p := range rt.ECMPPaths() {
		ks = append(ks, byID[tbl.IDOf(p)].FullKey())
	}
	sort.Strings(ks)
	o.ecmp = strings.Join(ks, " | ")
	return o
}

func permutations(n int) [][]int {
	var out [][]int
	var rec func(cur []int, used int)
	rec = func(cur []int, used int) {
		if len(cur) == n {
			out = append(out, append([]int{}, cur...))
			return
		}
		for i := 0; i < n; i++ {
			if used&(1<<i) == 0 {
				rec(append(cur, i), used|1<<i)
			}
		}
	}
	rec(nil, 0)
	return out
}

// perm inserts the candidate set in every order and compares the Loc-RIB's selection, then every single removal.
func perm(r *vf.Run, specs []tbl.PathSpec) {
	byID := map[uint32]tbl.PathSpec{}
	mix := "bgp"
	nst := 0
	for _, s := range specs {
		byID[s.ID] = s
		if s.Static {
			nst++
		}
	}
	if nst == len(specs) {
		mix = "static"
	} else if nst > 0 {
		mix = "bgp+static"
	}
	k := kase{Kind: "perm", Specs: specs}
	var first *outcome
	firstRem := make([]*outcome, len(specs))
	var firstOrder []int
	replacements := 0
	for _, order := range permutations(len(specs)) {
		var pan any
		func() {
			defer func() { pan = recover() }()
			lr := locRIB.New("c02")
			for _, i := range order {
				lr.AddPath(pfx, specs[i].Build())
			}
			o := observe(lr, byID)
			r.Eval(1)
			if first == nil {
				first, firstOrder = &o, order
			} else if o != *first {
				r.Violate(vf.Violation{Clause: "order-dependence", Features: vf.F("mix", mix, "attrs", union(specs), "phase", "insert"), Detail: fmt.Sprintf("insertion order %v selects best={%s} ecmp={%s}; order %v selects best={%s} ecmp={%s}; candidates %s", firstOrder, first.best, first.ecmp, order, o.best, o.ecmp, describe(specs)), Case: k})
			}
			// single removals, each from a fresh table in this insertion order
			for j := range specs {
				lr2 := locRIB.New("c02")
				for _, i := range order {
					lr2.AddPath(pfx, specs[i].Build())
				}
				lr2.RemovePath(pfx, specs[j].Build())
				o2 := observe(lr2, byID)
				r.Eval(1)
				if firstRem[j] == nil {
					// reference: a table that only ever saw the remaining candidates (the selection must be a function
					// of the current candidate set, not of the history that led to it)
					lr3 := locRIB.New("c02")
					for i := range specs {
						if i != j {
							lr3.AddPath(pfx, specs[i].Build())
						}
					}
					oc := observe(lr3, byID)
					firstRem[j] = &oc
				}
				if o2 != *firstRem[j] {
					r.Violate(vf.Violation{Clause: "order-dependence", Features: vf.F("mix", mix, "attrs", union(specs), "phase", "remove"), Detail: fmt.Sprintf("after removing #%d: insertion order %v gives best={%s} ecmp={%s}, a table that only ever held the remaining candidates gives best={%s} ecmp={%s}; candidates %s", specs[j].ID, order, o2.best, o2.ecmp, firstRem[j].best, firstRem[j].ecmp, describe(specs)), Case: k})
				}
			}
			// in-place replacements (what an Adj-RIB-In issues when its import policy is replaced): the table holds
			// everything but candidate m, then candidate j is replaced by m; the result is the set without j
			for j := range specs {
				for m := range specs {
					if m == j || specs[j].Static || specs[m].Static {
						continue
					}
					lr4 := locRIB.New("c02")
					for _, i := range order {
						if i != m {
							lr4.AddPath(pfx, specs[i].Build())
						}
					}
					lr4.ReplacePath(pfx, specs[j].Build(), specs[m].Build())
					o4 := observe(lr4, byID)
					r.Eval(1)
					replacements++
					if o4 != *firstRem[j] {
						r.Violate(vf.Violation{Clause: "order-dependence", Features: vf.F("mix", mix, "attrs", union(specs), "phase", "replace"), Detail: fmt.Sprintf("insertion order %v without #%d, then #%d replaced by #%d gives best={%s} ecmp={%s}; a table that only ever held the resulting candidates gives best={%s} ecmp={%s}; candidates %s", order, specs[m].ID, specs[j].ID, specs[m].ID, o4.best, o4.ecmp, firstRem[j].best, firstRem[j].ecmp, describe(specs)), Case: k})
					}
				}
			}
		}()
		if pan != nil {
			r.Violate(vf.Violation{Clause: "panic-locrib", Features: vf.F("mix", mix), Detail: fmt.Sprintf("Loc-RIB panicked with insertion order %v: %v; candidates %s", order, pan, describe(specs)), Case: k})
			return
		}
	}
	r.Count("candidate_sets", 1)
	r.Count("in_place_replacements", replacements)
	r.Count("permutations", len(permutations(len(specs))))
	r.Nontrivial("set/" + describe(specs))
}

// siblings: paths that are identical in every attribute (no id community either) except the peer they were learned
// from. Inserted in every order; then each one is removed: the survivors must be exactly the others (identified by
// their peer address) and the best one the lowest peer address, whatever the order was.
func siblings(r *vf.Run, specs []tbl.PathSpec) {
	k := kase{Kind: "siblings", Specs: specs}
	srcs := func(lr *locRIB.LocRIB) (string, string) {
		rt := lr.Get(pfx)
		if rt == nil {
			return "", ""
		}
		var all []string
		for _, p := range rt.Paths() {
			all = append(all, fmt.Sprintf("%08x", p.BGPPath.BGPPathA.Source.ToUint32()))
		}
		sort.Strings(all)
		best := ""
		if bp := rt.BestPath(); bp != nil {
			best = fmt.Sprintf("%08x", bp.BGPPath.BGPPathA.Source.ToUint32())
		}
		return strings.Join(all, ","), best
	}
	for _, order := range permutations(len(specs)) {
		for j := range specs {
			var pan any
			func() {
				defer func() { pan = recover() }()
				lr := locRIB.New("c02")
				for _, i := range order {
					lr.AddPath(pfx, specs[i].Build())
				}
				lr.RemovePath(pfx, specs[j].Build())
				var want []string
				for i := range specs {
					if i != j {
						want = append(want, fmt.Sprintf("%08x", specs[i].Source))
					}
				}
				sort.Strings(want)
				got, best := srcs(lr)
				r.Eval(1)
				if got != strings.Join(want, ",") || best != want[0] {
					r.Violate(vf.Violation{Clause: "order-dependence", Features: vf.F("mix", "bgp", "attrs", "peer_address-only", "phase", "remove-sibling"), Detail: fmt.Sprintf("paths from peers %s differing in nothing else, inserted in order %v, then the one from %08x removed: the Loc-RIB holds the paths from {%s} with best %s, want {%s} with best %s", describe(specs), order, specs[j].Source, got, best, strings.Join(want, ","), want[0]), Case: k})
				}
			}()
			if pan != nil {
				r.Violate(vf.Violation{Clause: "panic-locrib", Features: vf.F("mix", "siblings"), Detail: fmt.Sprintf("Loc-RIB panicked: %v", pan), Case: k})
				return
			}
		}
	}
	r.Count("sibling_sets", 1)
}

func tieDomain() []tbl.PathSpec {
	var out []tbl.PathSpec
	id := uint32(1)
	cls := []*[]uint32{nil, {}, {7}, {7, 8}}
	for _, bid := range []uint32{1, 2} {
		for _, oid := range []uint32{0, 1, 2} {
			for _, cl := range cls {
				for _, src := range []uint32{0x0a000001, 0x0a000002, 0x0a000003} {
					for _, nh := range []uint32{0x0b000001, 0x0b000002} {
						out = append(out, tbl.PathSpec{ID: id, LP: 100, ASPath: []tbl.Seg{{ASNs: []uint32{65001}}}, BGPID: bid, OrigID: oid, Cluster: cl, Source: src, NextHop: nh})
						id++
					}
				}
			}
		}
	}
	return out
}

func randSpec(rng *rand.Rand, id uint32, allowStatic bool) tbl.PathSpec {
	if allowStatic && rng.IntN(6) == 0 {
		return tbl.PathSpec{Static: true, ID: id}
	}
	s := tbl.PathSpec{ID: id, LP: []uint32{100, 100, 200}[rng.IntN(3)], Origin: uint8(rng.IntN(3)), MED: []uint32{0, 0, 10}[rng.IntN(3)], EBGP: rng.IntN(2) == 0,
		BGPID: uint32(1 + rng.IntN(2)), Source: 0x0a000001 + uint32(rng.IntN(3)), NextHop: 0x0b000001 + uint32(rng.IntN(2))}
	switch rng.IntN(4) {
	case 0:
		s.ASPath = []tbl.Seg{{ASNs: []uint32{65001}}}
	case 1:
		s.ASPath = []tbl.Seg{{ASNs: []uint32{65001, 65002}}}
	case 2:
		s.ASPath = []tbl.Seg{{ASNs: []uint32{65001}}, {Set: true, ASNs: []uint32{65003, 65004}}}
	case 3:
		s.ASPath = []tbl.Seg{{ASNs: []uint32{65001, 65002, 65003}}}
	}
	if !s.EBGP {
		s.OrigID = uint32(rng.IntN(3))
		s.Cluster = []*[]uint32{nil, nil, {}, {7}, {7, 8}}[rng.IntN(5)]
	}
	return s
}

func main() {
	vf.Main("C02", "exploration", func(r *vf.Run) {
		r.Rule("(1) exhaustive pairs and triples of the 144-path tie-break sub-domain (identifier{1,2} x ORIGINATOR_ID{0,1,2} x CLUSTER_LIST{absent,empty,1,2} x peer address{3} x next hop{2}); (2) PRNG groups of 10 paths over the full bounded domain (LOCAL_PREF, AS-path length with sequence and set segments, ORIGIN, MED, eBGP flag, static paths), all pairs and triples per group; laws: antisymmetry, transitivity of 'at least as good', ties only between paths with equal decision attributes; (3) candidate sets of 2-4 paths, ALL insertion permutations into a fresh Loc-RIB, all single removals and all in-place replacements of one candidate by another (LocRIB.ReplacePath), best path and ECMP set compared by attribute key; plus sibling sets (2-3 paths identical in everything but the peer address, no id marker): every order, every single removal, survivors identified by peer address. distinct_nontrivial = distinct path attribute keys exercised by the laws + distinct candidate sets permuted")
		r.Assume("results are compared by attribute key, so paths that are identical in every attribute the decision can read may swap", "no RFC direction is assumed here (C03 does that)")
		if raw, ok := r.Replaying(); ok {
			var k kase
			vf.Decode(raw, &k)
			if k.Kind == "perm" {
				perm(r, k.Specs)
			} else if k.Kind == "siblings" {
				siblings(r, k.Specs)
			} else {
				laws(r, k.Specs, false)
			}
			return
		}
		td := tieDomain()
		laws(r, td, true)
		r.Count("tie_domain_paths", len(td))
		ng := r.N(20000, 400000)
		vf.Parallel(ng, runtime.NumCPU(), func(i int) {
			rng := r.RandN("laws", i)
			specs := make([]tbl.PathSpec, 10)
			for j := range specs {
				specs[j] = randSpec(rng, uint32(j+1), true)
			}
			laws(r, specs, true)
			if i == 0 {
				r.Sample(map[string]any{"kind": "law-group", "paths": describe(specs)})
			}
		})
		r.Count("sampled_groups", ng)
		ns := r.N(30000, 600000)
		vf.Parallel(ns, runtime.NumCPU(), func(i int) {
			rng := r.RandN("perm", i)
			n := 2 + rng.IntN(3)
			specs := make([]tbl.PathSpec, n)
			for j := range specs {
				if i%2 == 0 {
					specs[j] = td[rng.IntN(len(td))]
					specs[j].ID = uint32(j + 1)
				} else {
					specs[j] = randSpec(rng, uint32(j+1), i%4 == 1)
				}
			}
			perm(r, specs)
			if i%8 == 0 {
				// the same session attributes over 2-3 parallel sessions: nothing but the peer address differs
				base := randSpec(rng, 1, false)
				base.NoIDComm = true
				sib := make([]tbl.PathSpec, 2+rng.IntN(2))
				for j := range sib {
					sib[j] = base
					sib[j].ID = uint32(j + 1)
					sib[j].Source = 0x0a000001 + uint32(j)*uint32(1+rng.IntN(3)) + uint32(rng.IntN(2))<<8
				}
				if sib[0].Source != sib[1].Source && (len(sib) < 3 || (sib[2].Source != sib[0].Source && sib[2].Source != sib[1].Source)) {
					siblings(r, sib)
				}
			}
			if i < 2 {
				r.Sample(map[string]any{"kind": "candidate-set", "paths": describe(specs)})
			}
		})
		r.Exhaustive(false)
		r.Require("permutations", 1000)
	})
}
