// C06: ineligible paths never reach the Loc-RIB.
// Monitor: every path an Adj-RIB-In hands to any client (AddPath, AddPathInitialDump, ReplacePath's new side) and every
// path in the Loc-RIB dump is looked up by its unique id and judged by a reference eligibility predicate (literal
// reading of the statement), across histories that mix eligible/ineligible announcements with import policy
// replacements (reject <-> accept <-> rewrite) and late registrations, for every peer role combination.
package main

import (
	"fmt"
	"math/rand/v2"
	"runtime"

	bnet "github.com/bio-routing/bio-rd/net"
	"github.com/bio-routing/bio-rd/routingtable/adjRIBIn"
	"github.com/bio-routing/bio-rd/routingtable/locRIB"
	"github.com/bio-routing/bio-rd/routingtable/vrf"

	"verifharness/internal/batch"
	"verifharness/internal/tbl"
	"verifharness/internal/vf"
)

const localASN = 65000
const localASN2 = 65010 // a second contributing ASN of the VRF (another session's local AS)
const localASN3 = 65020
const localASN4 = 65030
const clusterID = 0x0a0a0a0a
const clusterID2 = 0x0b0b0b0b
const clusterID3 = 0x0c0c0c0c

type op struct {
	K    string          `json:"k"` // announce | withdraw | policy | register-locrib | unregister-locrib | register-observer
	Pfx  int             `json:"pfx,omitempty"`
	Path tbl.PathSpec    `json:"path,omitempty"`
	Pol  *tbl.PolicySpec `json:"pol,omitempty"`
	Val  uint32          `json:"val,omitempty"` // asn-add/asn-remove/cid-add/cid-remove: the ASN / cluster id another session of the VRF contributes or withdraws
}

type hist struct {
	S       tbl.SessionSpec `json:"s"`
	Initial tbl.PolicySpec  `json:"initial"`
	Ops     []op            `json:"ops"`
}

var pfxs = func() []*bnet.Prefix {
	var out []*bnet.Prefix
	for i := 0; i < 5; i++ {
		out = append(out, bnet.NewPfx(bnet.IPv4(0x0a000000+uint32(i)<<16), 16).Ptr())
	}
	return out
}()

func u(x uint32) *uint32 { return &x }

func genPolicy(rng *rand.Rand) tbl.PolicySpec {
	switch rng.IntN(5) {
	case 0:
		return tbl.PolicySpec{}
	case 1:
		return tbl.PolicySpec{RejectAll: true}
	case 2:
		return tbl.PolicySpec{Reject: []string{pfxs[rng.IntN(len(pfxs))].String(), pfxs[rng.IntN(len(pfxs))].String()}}
	case 3:
		return tbl.PolicySpec{SetLP: u(200 + uint32(rng.IntN(2))*100)}
	}
	return tbl.PolicySpec{Prepend: &[2]uint32{64999, 1}, SetMED: u(9)}
}

func genPath(rng *rand.Rand, s tbl.SessionSpec, id uint32) (tbl.PathSpec, string) {
	p := tbl.PathSpec{ID: id, Source: s.PeerIP, NextHop: 0x0b000001, BGPID: 0x02020202, EBGP: !s.IBGP, LP: 100}
	if s.IBGP {
		p.ASPath = [][]tbl.Seg{nil, {{ASNs: []uint32{65200}}}}[rng.IntN(2)]
	} else {
		p.ASPath = []tbl.Seg{{ASNs: []uint32{s.PeerASN, 65201}}}
	}
	if s.AddPathRX {
		p.PathID = uint32(1 + rng.IntN(3))
	}
	kind := "eligible"
	switch rng.IntN(12) {
	case 0:
		p.ASPath = append(p.ASPath, tbl.Seg{ASNs: []uint32{65300, localASN}})
		kind = "as-loop"
	case 1:
		p.ASPath = append(p.ASPath, tbl.Seg{Set: true, ASNs: []uint32{[]uint32{localASN2, localASN3, localASN4}[rng.IntN(3)], 65301}})
		kind = "as-loop"
	case 2:
		// (reflection attributes also on eBGP sessions: the decoder accepts them on any session and the statement
		// does not restrict the rule to internal peers)
		p.OrigID = s.RouterID
		kind = "originator-id"
	case 3:
		p.OrigID = 0x09090909
		p.Cluster = &[]uint32{5, []uint32{clusterID, clusterID2, clusterID3}[rng.IntN(3)], 6}
		kind = "cluster-loop"
	case 4:
		if !s.IBGP {
			p.ASPath = nil
			kind = "empty-as-path-ebgp"
		}
	case 5, 6:
		p.OTC = []uint32{s.PeerASN, 65444}[rng.IntN(2)]
		kind = "otc-present"
	case 7:
		if s.IBGP { // eligible look-alikes
			p.OrigID = 0x09090909
			p.Cluster = &[]uint32{5, 6}
		}
	}
	return p, kind
}

func genHist(rng *rand.Rand, i int) hist {
	var h hist
	h.S = tbl.SessionSpec{LocalASN: localASN, RouterID: 0x01010101, ClusterID: clusterID, PeerIP: 0x0a0a0001, AddPathRX: rng.IntN(3) == 0}
	if rng.IntN(3) == 0 {
		h.S.IBGP, h.S.PeerASN = true, localASN
	} else {
		h.S.PeerASN = 65100
	}
	// all 5x5 role pairs + roles off, cycling with the history index
	rc := i % 27
	if rc < 25 {
		h.S.RoleEnabled, h.S.RoleAdv = true, true
		h.S.RoleLocal, h.S.RoleRemote = uint8(rc/5), uint8(rc%5)
	} else if rc == 25 {
		h.S.RoleEnabled = true // peer did not advertise a role
	}
	h.Initial = genPolicy(rng)
	id := uint32(1)
	n := 40 + rng.IntN(21)
	last := map[int]tbl.PathSpec{}
	for j := 0; j < n; j++ {
		x := rng.IntN(100)
		switch {
		case x < 50:
			pi := rng.IntN(len(pfxs))
			if lp, ok := last[pi]; ok && rng.IntN(4) == 0 {
				// the peer repeats its last announcement for the prefix unchanged (duplicate UPDATE, route refresh),
				// once or twice
				for k := 0; k <= rng.IntN(2); k++ {
					h.Ops = append(h.Ops, op{K: "announce", Pfx: pi, Path: lp})
				}
				continue
			}
			p, _ := genPath(rng, h.S, id)
			id++
			last[pi] = p
			h.Ops = append(h.Ops, op{K: "announce", Pfx: pi, Path: p})
		case x < 60:
			o := op{K: "withdraw", Pfx: rng.IntN(len(pfxs))}
			if h.S.AddPathRX {
				o.Path.PathID = uint32(1 + rng.IntN(3))
			}
			h.Ops = append(h.Ops, o)
		case x < 80:
			p := genPolicy(rng)
			h.Ops = append(h.Ops, op{K: "policy", Pol: &p})
		case x < 84:
			// other sessions of the same VRF (with their own local ASN / cluster id) come and go
			k := []string{"asn-add", "asn-remove", "cid-add", "cid-remove"}[rng.IntN(4)]
			v := []uint32{localASN2, localASN3, localASN4}[rng.IntN(3)]
			if k[0] == 'c' {
				v = []uint32{clusterID2, clusterID3}[rng.IntN(2)]
			}
			h.Ops = append(h.Ops, op{K: k, Val: v})
		case x < 87:
			h.Ops = append(h.Ops, op{K: "unregister-locrib"})
		case x < 94:
			h.Ops = append(h.Ops, op{K: "register-locrib"})
		default:
			h.Ops = append(h.Ops, op{K: "register-observer"})
		}
	}
	return h
}

type stats struct {
	byReason  map[string]int
	handouts  int
	policyOps int
	lateRegs  int
	vrfOps    int
}

func run(h hist, st *stats, viol func(string, map[string]string, string)) int {
	evals := 0
	step := -1
	defer func() {
		if p := recover(); p != nil {
			buf := make([]byte, 3000)
			buf = buf[:runtime.Stack(buf, false)]
			viol("panic", vf.F(), fmt.Sprintf("panic at step %d: %v\n%s", step, p, buf))
		}
	}()
	v := vrf.NewUntrackedVRF("c06", 0)
	v.AddContributingASN(localASN)
	v.AddContributingASN(localASN2)
	v.AddContributingClusterID(clusterID)
	localASNs := map[uint32]bool{localASN: true, localASN2: true}
	localCIDs := map[uint32]bool{clusterID: true}
	asnRef := map[uint32]int{localASN: 1, localASN2: 1}
	cidRef := map[uint32]int{clusterID: 1}
	// eligibility is judged against the ASNs / cluster ids that were local when the path was announced
	reasonAtAnnounce := map[uint32]string{}
	lr := locRIB.New("inet.0")
	in := adjRIBIn.New(h.Initial.Chain(), v, h.S.Attrs())
	in.Register(lr)
	lrRegistered := true
	byID := map[uint32]tbl.PathSpec{}
	observers := []*tbl.Recorder{tbl.NewRecorder("obs0")}
	in.Register(observers[0])
	seen := make([]int, 1)
	sessKind := "ebgp"
	if h.S.IBGP {
		sessKind = "ibgp"
	}
	judge := func(id uint32, where, after string) {
		spec, ok := byID[id]
		if !ok {
			return
		}
		evals++
		st.handouts++
		_ = spec
		if why := reasonAtAnnounce[id]; why != "" {
			viol("ineligible-handed-out", vf.F("reason", why, "where", where, "after", after, "session", sessKind), fmt.Sprintf("step %d (%s): path #%d (%s: %+v) is ineligible (%s) but was %s", step, after, id, sessKind, spec, why, where))
		}
	}
	for i, o := range h.Ops {
		step = i
		switch o.K {
		case "announce":
			byID[o.Path.ID] = o.Path
			if why := tbl.Ineligible(o.Path, h.S, localASNs, localCIDs); why != "" {
				st.byReason[why]++
				reasonAtAnnounce[o.Path.ID] = why
			} else {
				st.byReason["eligible"]++
				delete(reasonAtAnnounce, o.Path.ID) // a repeat is judged afresh
			}
			in.AddPath(pfxs[o.Pfx], o.Path.Build())
		case "asn-add":
			v.AddContributingASN(o.Val)
			asnRef[o.Val]++
			localASNs[o.Val] = true
			st.vrfOps++
		case "asn-remove":
			if asnRef[o.Val] > 0 { // a session only withdraws what it contributed
				v.RemoveContributingASN(o.Val)
				asnRef[o.Val]--
				localASNs[o.Val] = asnRef[o.Val] > 0
				st.vrfOps++
			}
		case "cid-add":
			v.AddContributingClusterID(o.Val)
			cidRef[o.Val]++
			localCIDs[o.Val] = true
			st.vrfOps++
		case "cid-remove":
			if cidRef[o.Val] > 0 {
				v.RemoveContributingClusterID(o.Val)
				cidRef[o.Val]--
				localCIDs[o.Val] = cidRef[o.Val] > 0
				st.vrfOps++
			}
		case "withdraw":
			in.RemovePath(pfxs[o.Pfx], tbl.PathSpec{ID: 0, PathID: o.Path.PathID, NoIDComm: true}.Build())
		case "policy":
			st.policyOps++
			in.ReplaceFilterChain(o.Pol.Chain())
		case "unregister-locrib":
			if lrRegistered {
				in.Unregister(lr)
				lrRegistered = false
			}
		case "register-locrib":
			if !lrRegistered {
				st.lateRegs++
				in.Register(lr)
				lrRegistered = true
			}
		case "register-observer":
			st.lateRegs++
			r := tbl.NewRecorder(fmt.Sprintf("obs%d", len(observers)))
			observers = append(observers, r)
			seen = append(seen, 0)
			in.Register(r)
		}
		for oi, ob := range observers {
			evs := ob.Events(seen[oi])
			seen[oi] += len(evs)
			for _, e := range evs {
				switch e.Kind {
				case "add":
					judge(e.ID, "handed to a client (AddPath)", o.K)
				case "initial":
					judge(e.ID, "handed to a client (initial dump)", o.K)
				case "replace":
					judge(e.ID, "handed to a client (ReplacePath)", o.K)
				}
			}
		}
		for _, rt := range lr.Dump() {
			for _, p := range rt.Paths() {
				judge(tbl.IDOf(p), "present in the Loc-RIB", o.K)
			}
		}
	}
	return evals
}

func main() {
	if batch.IsChild() { // session half: cases run in child processes (session.go)
		batch.ChildMain(runSessCase)
		return
	}
	vf.Main("C06", "exploration", func(r *vf.Run) {
		r.Rule("table half: PRNG histories of 40-60 operations on one Adj-RIB-In (iBGP/eBGP, add-path receive on/off, all 25 role pairs + roles off + peer without role, cycled) feeding a Loc-RIB and recording observers: announcements (a quarter of them unchanged repeats of the prefix's previous announcement; about a third ineligible: AS loop via sequence or set incl. a second local ASN, own ORIGINATOR_ID, local cluster id inside CLUSTER_LIST, OTC present, empty eBGP AS_PATH), withdrawals, import policy replacement (accept-all / reject-all / reject-some / set LOCAL_PREF / prepend+MED), Loc-RIB unregister/register, late observer registration, other sessions of the VRF adding/withdrawing their local ASN / cluster id (reference counted); every hand-out and every Loc-RIB path is judged by the reference predicate. distinct_nontrivial = histories with an ineligible announcement, a policy replacement and a late registration" + sessionRule)
		sessionAssumptions(r)
		r.Assume("router id != 0", "the predicate judges the path as announced (before import policy), against the ASNs and cluster ids that were local at that moment")
		mk := func(h hist) func(string, map[string]string, string) {
			return func(clause string, f map[string]string, detail string) {
				r.Violate(vf.Violation{Clause: clause, Features: f, Detail: detail, Case: h})
			}
		}
		if raw, ok := r.Replaying(); ok {
			if isSessionCase(raw) {
				runSessions(r, raw)
				return
			}
			var h hist
			vf.Decode(raw, &h)
			run(h, &stats{byReason: map[string]int{}}, mk(h))
			return
		}
		n := r.N(3000, 100000)
		agg := map[string]int{}
		ch := make(chan *stats, 64)
		done := make(chan struct{})
		go func() {
			for st := range ch {
				for k, v := range st.byReason {
					agg["announced_"+k] += v
				}
				agg["handouts_inspected"] += st.handouts
				agg["policy_replacements"] += st.policyOps
				agg["late_registrations"] += st.lateRegs
				agg["other_sessions_asn_or_cluster_id_changes"] += st.vrfOps
			}
			close(done)
		}()
		vf.Parallel(n, runtime.NumCPU(), func(i int) {
			rng := r.RandN("c06", i)
			h := genHist(rng, i)
			st := &stats{byReason: map[string]int{}}
			r.Eval(run(h, st, mk(h)))
			inel := 0
			for k, v := range st.byReason {
				if k != "eligible" {
					inel += v
				}
			}
			if inel > 0 && st.policyOps > 0 && st.lateRegs > 0 {
				r.Nontrivial(fmt.Sprint(i))
			}
			r.Count("handouts", st.handouts)
			ch <- st
			if i < 2 {
				r.Sample(map[string]any{"session": h.S, "initial_policy": h.Initial, "first_ops": h.Ops[:6], "n_ops": len(h.Ops)})
			}
		})
		close(ch)
		<-done
		r.Set("events", agg)
		r.Count("histories", n)
		r.Require("handouts", 1000)
		runSessions(r, nil)
	})
}
