// C06, session-level half: the same claim judged on a real bio-rd BGP server.
//
// The table-level half (main.go) registers the local ASNs / cluster ids with the VRF itself. Here the
// real FSM does it (fsm_address_family.init -> vrf.AddContributingASN / AddContributingClusterID,
// dispose -> Remove…) and the ineligible paths arrive as real UPDATEs over in-memory connections.
//
// One case = one server (router id R) with 2-5 peers of mixed kinds (iBGP, iBGP route reflector
// client with a cluster id, eBGP under local AS L, eBGP under a DIFFERENT local AS L2, RFC 9234 roles)
// and a script: establish, announce, withdraw, replace the import policy (reject <-> accept <-> set
// LOCAL_PREF), take a peer down and up again, establish a peer late. Every announcement carries a
// unique id community. At the moment an UPDATE is sent the reference predicate (tbl.Ineligible) judges
// it against the ASNs / cluster ids that are local THEN according to the configuration of the sessions
// the harness holds Established (never by reading the VRF). After every synchronisation point:
//
//	session-ineligible-installed    an id judged ineligible is in a Loc-RIB dump
//	session-ineligible-advertised   … is in the Adj-RIB-Out of any session, or in an UPDATE bio-rd wrote
//
// Eligible control paths are counted where they are seen; the run is inconclusive without enough of them.
package main

import (
	"encoding/json"
	"fmt"
	"math/rand/v2"
	"sort"
	"strings"
	"time"

	"github.com/bio-routing/bio-rd/protocols/bgp/server"
	"github.com/bio-routing/bio-rd/routingtable/filter"

	"verifharness/internal/batch"
	"verifharness/internal/speaker"
	"verifharness/internal/tbl"
	"verifharness/internal/vf"
	"verifharness/internal/wire"
)

const sessionKind = "session"

// ---------------------------------------------------------------------------------------------
// case description

type sPeer struct {
	Kind      string `json:"kind"` // ibgp | rr-client | ebgp
	LocalAS   uint32 `json:"local_as"`
	PeerAS    uint32 `json:"peer_as"`
	ClusterID uint32 `json:"cluster_id,omitempty"` // rr-client: configured cluster id; 0 = bio-rd takes the router id
	Role      uint8  `json:"role,omitempty"`       // server.PeerConfigRole*; 0 = off
	Strict    bool   `json:"strict,omitempty"`
	AdvRole   int    `json:"adv_role"` // RFC 9234 capability value the remote side advertises; -1 none
	V6        bool   `json:"v6,omitempty"`
	Import    string `json:"import"`          // initial import policy: accept | reject | set-lp
	Probe     bool   `json:"probe,omitempty"` // role pair RFC 9234 forbids: bio-rd is expected to refuse the session
}

type sAnn struct {
	V6   bool         `json:"v6,omitempty"`
	Slot []int        `json:"slot"` // prefixes 10.<peer+1>.<slot>.0/24 or 2001:db8:<peer+1>:<slot>::/64
	Path tbl.PathSpec `json:"path"` // ID = unique id of the announcement
	Want string       `json:"want"` // what the generator meant (label only, the oracle decides by the predicate)
}

type sStep struct {
	K    string `json:"k"` // establish | announce | withdraw | policy | down
	Peer int    `json:"peer"`
	Ann  *sAnn  `json:"ann,omitempty"`
	V6   bool   `json:"v6,omitempty"`   // withdraw
	Slot int    `json:"slot,omitempty"` // withdraw
	Pol  string `json:"pol,omitempty"`  // policy: accept | reject | set-lp
	Tag  string `json:"tag,omitempty"`  // establish: first | late | again
	// establish: a SECOND connection of the same neighbour arrives between the OPEN exchange and the KEEPALIVE of the
	// connection that becomes the session (0 none; 1 it sits in OpenSent and the neighbour closes it afterwards;
	// 2 it sends its OPEN while the first one is in OpenConfirm and loses the collision; 3 it sends its OPEN
	// after the first one is Established and is refused)
	Second int `json:"second,omitempty"`
}

type sessCase struct {
	Kind     string  `json:"kind"`
	RouterID uint32  `json:"router_id"`
	Peers    []sPeer `json:"peers"`
	Steps    []sStep `json:"steps"`
}

func isSessionCase(raw json.RawMessage) bool {
	var k struct {
		Kind string `json:"kind"`
	}
	return json.Unmarshal(raw, &k) == nil && k.Kind == sessionKind
}

// ---------------------------------------------------------------------------------------------
// RFC 9234 helpers

var cfgRoleOfWire = map[int]uint8{
	tbl.RoleProvider: server.PeerConfigRoleProvider, tbl.RoleRS: server.PeerConfigRoleRS, tbl.RoleRSClient: server.PeerConfigRoleRSClient,
	tbl.RoleCustomer: server.PeerConfigRoleCustomer, tbl.RolePeer: server.PeerConfigRolePeer,
}

func counterRole(r int) int {
	switch r {
	case tbl.RoleProvider:
		return tbl.RoleCustomer
	case tbl.RoleCustomer:
		return tbl.RoleProvider
	case tbl.RoleRS:
		return tbl.RoleRSClient
	case tbl.RoleRSClient:
		return tbl.RoleRS
	}
	return tbl.RolePeer
}

var roleNames = []string{"provider", "rs", "rs-client", "customer", "peer"}

func rolePairName(p sPeer) string {
	l, r := "off", "none"
	if w, ok := speaker.ConfigRoleToWire(p.Role); ok {
		l = roleNames[w]
	}
	if p.AdvRole >= 0 && p.AdvRole < len(roleNames) {
		r = roleNames[p.AdvRole]
	}
	return l + "/" + r
}

// roleMenu(k): the role configurations that can establish: 5 complementary pairs, 5 × "peer sends no role",
// roles off locally with and without a role from the peer.
func roleMenu(k int) (cfg uint8, adv int) {
	k %= 16
	switch {
	case k < 5:
		return cfgRoleOfWire[k], counterRole(k)
	case k < 10:
		return cfgRoleOfWire[k-5], -1
	case k == 10:
		return 0, -1
	case k == 11:
		return 0, tbl.RoleCustomer
	}
	// the three pairs under which an OTC attribute can make a path ineligible, once more
	l := []int{tbl.RoleProvider, tbl.RoleRS, tbl.RolePeer, tbl.RolePeer}[k-12]
	return cfgRoleOfWire[l], counterRole(l)
}

// forbiddenPair(k): the 20 role pairs of the 5×5 table that RFC 9234 §4.2 does not allow.
func forbiddenPair(k int) (cfg uint8, adv int) {
	var pairs [][2]int
	for l := 0; l < 5; l++ {
		for r := 0; r < 5; r++ {
			if counterRole(l) != r {
				pairs = append(pairs, [2]int{l, r})
			}
		}
	}
	p := pairs[k%len(pairs)]
	return cfgRoleOfWire[p[0]], p[1]
}

// ---------------------------------------------------------------------------------------------
// generation

type genState struct {
	rng    *rand.Rand
	c      *sessCase
	up     []bool
	nextID uint32
	slots  [][2]int          // per peer next fresh slot (v4, v6)
	have   []map[[2]int]bool // per peer (v6?1:0, slot) announced and not withdrawn
}

func (g *genState) localASNs() []uint32 {
	m := map[uint32]bool{}
	for i, p := range g.c.Peers {
		if g.up[i] {
			m[p.LocalAS] = true
		}
	}
	return sortedKeys(m)
}

func (g *genState) effCID(p sPeer) uint32 {
	if p.ClusterID != 0 {
		return p.ClusterID
	}
	return g.c.RouterID
}

func (g *genState) localCIDs() []uint32 {
	m := map[uint32]bool{}
	for i, p := range g.c.Peers {
		if g.up[i] && p.Kind == "rr-client" {
			m[g.effCID(p)] = true
		}
	}
	return sortedKeys(m)
}

// notLocalNow: ASNs / cluster ids that are configured on some peer but not local at this moment (look-alikes).
func (g *genState) dormantASNs() []uint32 {
	loc := map[uint32]bool{}
	for _, a := range g.localASNs() {
		loc[a] = true
	}
	m := map[uint32]bool{}
	for _, p := range g.c.Peers {
		if !loc[p.LocalAS] {
			m[p.LocalAS] = true
		}
	}
	return sortedKeys(m)
}

func (g *genState) dormantCIDs() []uint32 {
	loc := map[uint32]bool{}
	for _, a := range g.localCIDs() {
		loc[a] = true
	}
	m := map[uint32]bool{}
	for _, p := range g.c.Peers {
		if p.Kind == "rr-client" && !loc[g.effCID(p)] {
			m[g.effCID(p)] = true
		}
	}
	return sortedKeys(m)
}

func sortedKeys(m map[uint32]bool) []uint32 {
	var out []uint32
	for k := range m {
		out = append(out, k)
	}
	sort.Slice(out, func(i, j int) bool { return out[i] < out[j] })
	return out
}

func pick(rng *rand.Rand, xs []uint32) (uint32, bool) {
	if len(xs) == 0 {
		return 0, false
	}
	return xs[rng.IntN(len(xs))], true
}

func (g *genState) establish(pi int, tag string) {
	g.c.Steps = append(g.c.Steps, sStep{K: "establish", Peer: pi, Tag: tag})
	if !g.c.Peers[pi].Probe {
		g.up[pi] = true
	}
}

func (g *genState) down(pi int) {
	g.c.Steps = append(g.c.Steps, sStep{K: "down", Peer: pi})
	g.up[pi] = false
	g.have[pi] = map[[2]int]bool{}
}

func (g *genState) policy(pi int, pol string) {
	g.c.Steps = append(g.c.Steps, sStep{K: "policy", Peer: pi, Pol: pol})
}

func (g *genState) announce(pi int) {
	rng, p := g.rng, g.c.Peers[pi]
	a := &sAnn{V6: p.V6 && rng.IntN(3) == 0}
	fam := 0
	if a.V6 {
		fam = 1
	}
	n := 1
	if rng.IntN(5) == 0 {
		n = 2
	}
	for k := 0; k < n; k++ {
		s := g.slots[pi][fam]
		if s > 0 && rng.IntN(4) == 0 {
			s = rng.IntN(s) // implicit replacement of an earlier announcement
		} else if s < 250 {
			g.slots[pi][fam]++
		}
		dup := false
		for _, x := range a.Slot {
			dup = dup || x == s
		}
		if !dup {
			a.Slot = append(a.Slot, s)
			g.have[pi][[2]int{fam, s}] = true
		}
	}
	g.nextID++
	sp := tbl.PathSpec{ID: g.nextID, Origin: uint8(rng.IntN(3)), NextHop: 0xc6120000 | g.nextID&0xffff}
	ibgp := p.Kind != "ebgp"
	filler := 64600 + uint32(rng.IntN(90))
	if ibgp {
		sp.LP = 100 + uint32(rng.IntN(100))
		if rng.IntN(2) == 0 {
			sp.ASPath = []tbl.Seg{{ASNs: []uint32{filler, filler + 100}}}
		}
	} else {
		sp.EBGP = true
		sp.ASPath = []tbl.Seg{{ASNs: []uint32{p.PeerAS, filler}}}
	}
	a.Want = "eligible"
	x := rng.IntN(10)
	if !ibgp && p.Role != 0 && (p.AdvRole == tbl.RoleCustomer || p.AdvRole == tbl.RoleRSClient || p.AdvRole == tbl.RolePeer) && x >= 8 {
		x = 3 // the role pair can fail the OTC check: more OTC attributes
	}
	switch x {
	case 0: // local ASN inside an AS_SEQUENCE
		if x, ok := pick(rng, g.localASNs()); ok {
			if len(sp.ASPath) == 0 {
				sp.ASPath = []tbl.Seg{{ASNs: []uint32{filler, x}}}
			} else {
				sp.ASPath[0].ASNs = append(sp.ASPath[0].ASNs, x, filler+200)
			}
			a.Want = "as-loop"
		}
	case 1: // local ASN inside an AS_SET
		if x, ok := pick(rng, g.localASNs()); ok {
			if len(sp.ASPath) == 0 {
				sp.ASPath = []tbl.Seg{{ASNs: []uint32{filler}}}
			}
			sp.ASPath = append(sp.ASPath, tbl.Seg{Set: true, ASNs: []uint32{filler + 300, x}})
			a.Want = "as-loop"
		}
	case 2:
		if ibgp {
			sp.OrigID = g.c.RouterID
			sp.Cluster = &[]uint32{0x05050505}
			a.Want = "originator-id"
		} else {
			sp.ASPath = nil
			a.Want = "empty-as-path-ebgp"
		}
	case 3:
		if ibgp {
			if x, ok := pick(rng, g.localCIDs()); ok {
				sp.OrigID = 0x09090909
				sp.Cluster = &[]uint32{0x05050505, x, 0x06060606}
				a.Want = "cluster-loop"
			}
		} else {
			sp.OTC = []uint32{p.PeerAS, 64999}[rng.IntN(2)]
			a.Want = "otc?" // depends on the role pair
		}
	case 4: // look-alikes that must stay eligible
		switch rng.IntN(3) {
		case 0: // an ASN of a session that is not up now
			x, ok := pick(rng, g.dormantASNs())
			if !ok {
				x = 65055
			}
			if len(sp.ASPath) == 0 {
				sp.ASPath = []tbl.Seg{{ASNs: []uint32{filler, x}}}
			} else {
				sp.ASPath = append(sp.ASPath, tbl.Seg{Set: true, ASNs: []uint32{x}})
			}
			a.Want = "eligible(dormant-asn)"
		case 1:
			if ibgp {
				x, ok := pick(rng, g.dormantCIDs())
				if !ok {
					x = 0x07070707
				}
				sp.OrigID = g.c.RouterID ^ 1
				sp.Cluster = &[]uint32{x, 0x05050505}
				a.Want = "eligible(foreign-cluster)"
			} else {
				sp.OTC = p.PeerAS
				a.Want = "otc?"
			}
		case 2:
			if !ibgp {
				sp.OTC = 64999
				a.Want = "otc?"
			}
		}
	}
	a.Path = sp
	g.c.Steps = append(g.c.Steps, sStep{K: "announce", Peer: pi, Ann: a})
}

func (g *genState) withdraw(pi int) {
	var ks [][2]int
	for k := range g.have[pi] {
		ks = append(ks, k)
	}
	if len(ks) == 0 {
		return
	}
	sort.Slice(ks, func(i, j int) bool { return ks[i][0]*1000+ks[i][1] < ks[j][0]*1000+ks[j][1] })
	k := ks[g.rng.IntN(len(ks))]
	delete(g.have[pi], k)
	g.c.Steps = append(g.c.Steps, sStep{K: "withdraw", Peer: pi, V6: k[0] == 1, Slot: k[1]})
}

func (g *genState) round(min, max int) {
	var ups []int
	for i := range g.c.Peers {
		if g.up[i] {
			ups = append(ups, i)
		}
	}
	if len(ups) == 0 {
		return
	}
	total := 0
	for range ups {
		total += min + g.rng.IntN(max-min+1)
	}
	for k := 0; k < total; k++ {
		pi := ups[g.rng.IntN(len(ups))]
		if g.rng.IntN(12) == 0 {
			g.withdraw(pi)
		} else {
			g.announce(pi)
		}
	}
}

// policyBurst replaces the import policy of a peer several times with announcements in between; it always contains a
// reject -> accept (or reject -> set-lp) transition, the one that re-announces stored paths.
func (g *genState) policyBurst(pi int) {
	if !g.up[pi] {
		return
	}
	seqs := [][]string{
		{"reject", "accept"}, {"reject", "set-lp"}, {"set-lp", "reject", "accept"}, {"reject", "reject", "accept", "set-lp"},
		{"accept", "reject", "accept", "reject", "set-lp"}, {"set-lp", "accept"},
	}
	for _, pol := range seqs[g.rng.IntN(len(seqs))] {
		g.policy(pi, pol)
		for k := g.rng.IntN(3); k > 0; k-- {
			g.announce(pi)
		}
	}
}

func genSessCase(rng *rand.Rand, i int) sessCase {
	c := sessCase{Kind: sessionKind, RouterID: 0x0a000100 + uint32(1+rng.IntN(200))}
	L := 65000 + uint32(rng.IntN(5))
	L2 := 65010 + uint32(rng.IntN(5))
	if rng.IntN(4) == 0 {
		L2 = 4200000010 // 4-octet local AS
	}
	imp := func() string { return []string{"accept", "accept", "accept", "reject", "set-lp"}[rng.IntN(5)] }
	// peer 0: internal
	p0 := sPeer{Kind: "ibgp", LocalAS: L, PeerAS: L, AdvRole: -1, Import: imp(), V6: rng.IntN(3) == 0}
	if rng.IntN(3) != 0 {
		p0.Kind = "rr-client"
		if rng.IntN(3) != 0 {
			p0.ClusterID = 0x0b0b0b00 + uint32(rng.IntN(9))
		}
	}
	c.Peers = append(c.Peers, p0)
	// peer 1: external under L
	p1 := sPeer{Kind: "ebgp", LocalAS: L, PeerAS: 65101, Import: imp(), V6: rng.IntN(3) == 0}
	p1.Role, p1.AdvRole = roleMenu(i)
	c.Peers = append(c.Peers, p1)
	flap := 1
	// peer 2: external under a different local AS
	if rng.IntN(4) != 0 {
		p2 := sPeer{Kind: "ebgp", LocalAS: L2, PeerAS: 65102, Import: imp(), V6: rng.IntN(3) == 0}
		if rng.IntN(5) == 0 {
			p2.PeerAS = 4200000102
		}
		p2.Role, p2.AdvRole = roleMenu(i/16 + 5*i + 3)
		c.Peers = append(c.Peers, p2)
		flap = 2
	} else if rng.IntN(2) == 0 {
		flap = 0
	}
	// optional second internal peer with its own cluster id
	sameCID := -1
	if rng.IntN(3) == 0 {
		p3 := sPeer{Kind: []string{"rr-client", "ibgp"}[rng.IntN(2)], LocalAS: L, PeerAS: L, AdvRole: -1, Import: imp()}
		if p3.Kind == "rr-client" {
			p3.ClusterID = 0x0c0c0c00 + uint32(rng.IntN(9))
		} else if p0.Kind == "rr-client" && rng.IntN(2) == 0 {
			// a group level cluster id: the non-client carries the client's cluster id in its configuration, but
			// only the client's session makes it local; the non-client is the one that goes down and comes back
			p3.ClusterID = p0.ClusterID
			if p3.ClusterID == 0 {
				p3.ClusterID = c.RouterID
			}
			sameCID = len(c.Peers)
		}
		c.Peers = append(c.Peers, p3)
	}
	nReal := len(c.Peers)
	// every fourth case: an external peer whose role pair must be refused
	if i%4 == 3 {
		pp := sPeer{Kind: "ebgp", LocalAS: L, PeerAS: 65109, Import: "accept", Probe: true}
		pp.Role, pp.AdvRole = forbiddenPair(i / 4)
		if (i/4)%7 == 6 {
			pp.Strict, pp.AdvRole = true, -1 // strict mode and no role from the peer
		}
		c.Peers = append(c.Peers, pp)
	}
	// who goes down and comes back: the peer under L2 / every peer under L (L2 stays local alone, the ASN registered
	// first loses its last reference) / one peer
	flapSet := []int{flap}
	if flap == 2 && rng.IntN(5) < 2 {
		flapSet = nil
		for pi := 0; pi < nReal; pi++ {
			if c.Peers[pi].LocalAS == L {
				flapSet = append(flapSet, pi)
			}
		}
	} else if flap == 2 && rng.IntN(4) == 0 {
		flapSet = []int{rng.IntN(2)}
	}
	if sameCID >= 0 {
		flapSet = []int{sameCID}
	}
	inFlap := func(pi int) bool {
		for _, x := range flapSet {
			if x == pi {
				return true
			}
		}
		return false
	}
	late := rng.IntN(nReal)
	if nReal > len(flapSet) {
		for inFlap(late) {
			late = rng.IntN(nReal)
		}
	}

	g := &genState{rng: rng, c: &c, up: make([]bool, len(c.Peers)), slots: make([][2]int, len(c.Peers)), nextID: uint32(i%1000) * 1000}
	for range c.Peers {
		g.have = append(g.have, map[[2]int]bool{})
	}
	order := rng.Perm(len(c.Peers))
	for _, pi := range order {
		if pi != late {
			g.establish(pi, "first")
		}
	}
	g.round(3, 4)
	// event blocks in a random order; "up again" always after "down"
	blocks := []string{"policy", "down", "late", "policy2"}
	rng.Shuffle(len(blocks), func(a, b int) { blocks[a], blocks[b] = blocks[b], blocks[a] })
	var downed []int
	again := func() {
		for _, pi := range downed {
			g.establish(pi, "again")
		}
		downed = nil
	}
	for _, b := range blocks {
		switch b {
		case "policy", "policy2":
			pi := rng.IntN(nReal)
			for try := 0; try < 4 && !g.up[pi]; try++ {
				pi = rng.IntN(nReal)
			}
			g.policyBurst(pi)
		case "down":
			for _, pi := range flapSet {
				if g.up[pi] {
					g.down(pi)
					downed = append(downed, pi)
				}
			}
		case "late":
			g.establish(late, "late")
			for k := 0; k < 3; k++ {
				g.announce(late)
			}
		}
		g.round(1, 2)
		if len(downed) > 0 && rng.IntN(2) == 0 {
			again()
			g.round(1, 3)
		}
	}
	if len(downed) > 0 {
		again()
		g.round(2, 3)
	}
	// a last replacement on a peer that is up, ending in an accepting policy
	for pi := range c.Peers {
		if g.up[pi] && rng.IntN(2) == 0 {
			g.policy(pi, "reject")
			g.policy(pi, []string{"accept", "set-lp"}[rng.IntN(2)])
		}
	}
	g.round(1, 1)
	// second connections (drawn last, so that the rest of the case does not depend on them): two of three establishments
	// of a peer that is expected to come up
	for si := range c.Steps {
		if st := &c.Steps[si]; st.K == "establish" && !c.Peers[st.Peer].Probe {
			if x := rng.IntN(9); x < 6 {
				st.Second = 1 + x%3
			}
		}
	}
	return c
}

// ---------------------------------------------------------------------------------------------
// execution and oracle

type annInfo struct {
	peer   int
	reason string // "" = eligible at announcement
	spec   tbl.PathSpec
	want   string
	unsure bool // OTC on a session where the statement's "RFC 9234 check" can be read both ways: not judged
}

type livePeer struct {
	cfg     sPeer
	p       *speaker.Peer
	s       *speaker.Session
	spec    tbl.SessionSpec
	policy  string
	stored  map[string]uint32 // prefix -> id of the announcement it currently belongs to
	wireCur int
	onWire  map[uint32]bool // ids announced on this session's wire
	lost    bool            // the session ended on its own (never re-used)
}

func nlriOf(peer int, v6 bool, slot int) wire.NLRI {
	if v6 {
		return wire.V6(0x20010db800000000|uint64(peer+1)<<16|uint64(slot), 0, 64)
	}
	return wire.V4(10, byte(peer+1), byte(slot), 0, 24)
}

func buildUpdate(pi int, a *sAnn, o wire.Options) *wire.Update {
	sp := a.Path
	pa := &wire.PathAttrs{Origin: wire.U8(sp.Origin), HasASPath: true}
	for _, sg := range sp.ASPath {
		t := uint8(wire.SegSequence)
		if sg.Set {
			t = wire.SegSet
		}
		pa.ASPath = append(pa.ASPath, wire.Segment{Type: t, ASNs: append([]uint32(nil), sg.ASNs...)})
	}
	if !sp.EBGP {
		pa.LocalPref = wire.U32(sp.LP)
	}
	pa.Communities = []uint32{0xfde80000 | uint32(pi), 0xFFF00000 | sp.ID&0xFFFFF}
	if sp.OrigID != 0 {
		pa.OriginatorID = wire.U32(sp.OrigID)
	}
	if sp.Cluster != nil {
		pa.ClusterList = append([]uint32(nil), (*sp.Cluster)...)
	}
	if sp.OTC != 0 {
		pa.OTC = wire.U32(sp.OTC)
	}
	var ns []wire.NLRI
	for _, s := range a.Slot {
		ns = append(ns, nlriOf(pi, a.V6, s))
	}
	u := &wire.Update{}
	if a.V6 {
		nh := make([]byte, 16)
		copy(nh, []byte{0x20, 0x01, 0x0d, 0xb8, 0xff, 0xff})
		nh[14], nh[15] = byte(sp.ID>>8), byte(sp.ID)
		pa.MPReach = &wire.MPReach{Family: wire.IPv6Unicast, NextHop: nh, NLRI: ns}
	} else {
		pa.NextHop = []byte{byte(sp.NextHop >> 24), byte(sp.NextHop >> 16), byte(sp.NextHop >> 8), byte(sp.NextHop)}
		u.NLRI = ns
	}
	u.Attrs = pa.Build(o)
	return u
}

func buildWithdraw(pi int, v6 bool, slot int, o wire.Options) *wire.Update {
	n := nlriOf(pi, v6, slot)
	if v6 {
		pa := &wire.PathAttrs{MPUnreach: &wire.MPUnreach{Family: wire.IPv6Unicast, NLRI: []wire.NLRI{n}}}
		return &wire.Update{Attrs: pa.Build(o)}
	}
	return &wire.Update{Withdrawn: []wire.NLRI{n}}
}

func idOfComms(cs []uint32) uint32 {
	for i := len(cs) - 1; i >= 0; i-- {
		if cs[i]&0xFFF00000 == 0xFFF00000 {
			return cs[i] & 0xFFFFF
		}
	}
	return 0
}

// openFor is the OPEN the remote side sends: everything matching the peer's configuration, and the role the case says.
func openFor(p *speaker.Peer, cfg sPeer) *wire.Open {
	o := p.DefaultOpen()
	var caps []wire.Capability
	for _, c := range o.Caps {
		if c.Code != wire.CapCodeRole {
			caps = append(caps, c)
		}
	}
	if cfg.AdvRole >= 0 {
		caps = append(caps, wire.CapRole(uint8(cfg.AdvRole)))
	}
	o.Caps = caps
	return o
}

// establishPeer connects and establishes; refused = bio-rd answered our OPEN with an OPEN Message Error.
// second != 0: a second connection of the same neighbour is opened between the OPEN exchange and the KEEPALIVE (see
// sStep.Second); withSecond reports that the choreography ran completely (the second connection was in OpenSent
// while the first one was in OpenConfirm, and the first one became the session).
func establishPeer(p *speaker.Peer, cfg sPeer, second int) (s *speaker.Session, refused, withSecond bool, err error) {
	for attempt := 0; attempt < 5; attempt++ {
		time.Sleep(time.Duration(attempt*attempt) * 25 * time.Millisecond)
		s, err = p.Connect()
		if err == nil {
			if second == 0 {
				err = s.Establish(openFor(p, cfg))
			} else {
				withSecond, err = establishWithSecond(p, cfg, s, second)
			}
		}
		if err == nil {
			return s, false, withSecond, nil
		}
		if s != nil {
			for _, n := range s.Notifications() {
				if n.Code == 2 {
					return s, true, false, err
				}
			}
			if !s.Conn.IsClosed() {
				s.Conn.PeerClose()
			}
		}
	}
	return s, false, false, err
}

// establishWithSecond is Session.Establish with a second incoming connection of the same neighbour in the window
// between "OPENs exchanged" (first connection in OpenConfirm) and the KEEPALIVE that makes it Established. Both
// connections are incoming, so RFC 4271 section 6.8 as bio-rd implements it always keeps the one that is further along.
func establishWithSecond(p *speaker.Peer, cfg sPeer, a *speaker.Session, second int) (bool, error) {
	if _, err := a.WaitSUTOpen(); err != nil {
		return false, err
	}
	if !a.SendOpen(openFor(p, cfg)) {
		return false, fmt.Errorf("connection closed before our OPEN")
	}
	if _, ok := a.WaitState(speaker.StepTimeout, func(i server.VerifFSMInfo) bool { return i.State == "openConfirm" || a.Conn.IsClosed() }); !ok || a.Conn.IsClosed() {
		return false, fmt.Errorf("no OpenConfirm after our OPEN (state %s, closed=%v, notifications=%v)", a.State(), a.Conn.IsClosed(), a.Notifications())
	}
	// the second connection: Connect returns once its FSM published OpenSent (bio-rd sent its OPEN on it)
	b, err := p.Connect()
	if err != nil {
		return false, fmt.Errorf("second connection: %v", err)
	}
	defer func() {
		if !b.Conn.IsClosed() {
			b.Conn.PeerClose()
		}
	}()
	if _, err := b.WaitSUTOpen(); err != nil {
		return false, fmt.Errorf("second connection: %v", err)
	}
	if st := b.State(); st != "openSent" {
		return false, fmt.Errorf("second connection: state %q, want openSent", st)
	}
	if st := a.State(); st != "openConfirm" {
		return false, fmt.Errorf("first connection left OpenConfirm (%q) when the second one came in", st)
	}
	loses := func() error {
		// the second connection's OPEN: bio-rd has to close it (collision with a connection that is further along)
		if !b.SendOpen(openFor(p, cfg)) || !b.Conn.WaitClosed(speaker.StepTimeout) {
			return fmt.Errorf("second connection: bio-rd did not close it after its OPEN (state %s)", b.State())
		}
		return nil
	}
	if second == 2 {
		if err := loses(); err != nil {
			return false, err
		}
	}
	if _, ok := a.WaitMessage(speaker.StepTimeout, func(m wire.Message) bool { return m.Type == wire.TypeKeepalive }); !ok {
		return false, fmt.Errorf("no KEEPALIVE from bio-rd after our OPEN")
	}
	if !a.SendKeepalive() {
		return false, fmt.Errorf("first connection closed before our KEEPALIVE (notifications=%v)", a.Notifications())
	}
	if r := a.Sync(); !r.OK() {
		return false, fmt.Errorf("no synchronisation after KEEPALIVE (%v)", r)
	}
	if !a.Established() {
		return false, fmt.Errorf("not established (state %s, closed=%v, notifications=%v)", a.State(), a.Conn.IsClosed(), a.Notifications())
	}
	switch second {
	case 3:
		if err := loses(); err != nil {
			return false, err
		}
	default:
		if !b.Conn.IsClosed() {
			b.Conn.PeerClose()
		}
	}
	// the losing connection's FSM leaves OpenSent on its own goroutine; the session must not care
	if r := a.Sync(); !r.OK() || !a.Established() {
		return false, fmt.Errorf("session did not survive the end of the second connection (%v, state %s)", r, a.State())
	}
	return true, nil
}

func runSessCase(idx int, raw json.RawMessage) (res batch.Result) {
	var c sessCase
	if err := json.Unmarshal(raw, &c); err != nil {
		res.Inconcl = "case does not decode: " + err.Error()
		return
	}
	srv := speaker.NewServer(speaker.ServerConfig{RouterID: c.RouterID})
	peers := make([]*livePeer, len(c.Peers))
	chain := func(pol string) filter.Chain {
		switch pol {
		case "reject":
			return speaker.Reject()
		case "set-lp":
			return speaker.SetLocalPref(333)
		}
		return speaker.Accept()
	}
	for i, pc := range c.Peers {
		cfg := speaker.PeerConfig{LocalAS: pc.LocalAS, PeerAS: pc.PeerAS, RRClient: pc.Kind == "rr-client", ClusterID: pc.ClusterID,
			Role: pc.Role, RoleStrict: pc.Strict, IPv4: &speaker.Family{Import: chain(pc.Import)}}
		if pc.V6 {
			cfg.IPv6 = &speaker.Family{Import: chain(pc.Import)}
		}
		p, err := srv.AddPeer(cfg)
		if err != nil {
			res.Inconcl = "AddPeer: " + err.Error()
			return
		}
		peers[i] = &livePeer{cfg: pc, p: p, policy: pc.Import, stored: map[string]uint32{}}
	}
	defer func() {
		for _, lp := range peers {
			if lp != nil && lp.s != nil && !lp.s.Conn.IsClosed() {
				if lp.s.SendNotification(6, 0) {
					lp.s.Conn.WaitClosed(2 * time.Second)
				}
			}
		}
	}()

	anns := map[uint32]*annInfo{}
	reported := map[string]bool{}
	firstInTables := map[uint32]string{} // id -> label of the step after which it was first seen in a table dump (deterministic)
	seenLoc, seenOut, seenWire := map[uint32]bool{}, map[uint32]bool{}, map[uint32]bool{}
	reasonsAnnounced := map[string]bool{}
	events := map[string]bool{}
	judged := 0
	stepNo := -1

	localSets := func() (map[uint32]bool, map[uint32]bool) {
		as, cs := map[uint32]bool{}, map[uint32]bool{}
		for _, lp := range peers {
			if lp.s == nil {
				continue
			}
			as[lp.cfg.LocalAS] = true
			if lp.cfg.Kind == "rr-client" {
				cid := lp.cfg.ClusterID
				if cid == 0 {
					cid = c.RouterID
				}
				cs[cid] = true
			}
		}
		return as, cs
	}
	describe := func(id uint32) string {
		a := anns[id]
		lp := peers[a.peer]
		return fmt.Sprintf("announcement #%d from peer %d (%s, local AS %d, peer AS %d, roles %s): %s [%s]", id, a.peer, lp.cfg.Kind, lp.cfg.LocalAS, lp.cfg.PeerAS, rolePairName(lp.cfg), pathText(a.spec), a.reason)
	}
	flag := func(id uint32, where, whereDetail, after string) {
		a := anns[id]
		if a == nil {
			return
		}
		judged++
		if a.reason == "" || a.unsure {
			return
		}
		if where != "wire" {
			if _, ok := firstInTables[id]; !ok {
				firstInTables[id] = after
			}
		} else {
			// the update sender writes on its own ticker: name the step by the synchronous observation, not by when the bytes showed up
			if l, ok := firstInTables[id]; ok {
				after = l
			} else {
				after = "not-seen-in-a-table-dump"
			}
		}
		k := fmt.Sprintf("%d|%s", id, where)
		if reported[k] {
			return
		}
		reported[k] = true
		clause := "session-ineligible-advertised"
		if where == "loc-rib" {
			clause = "session-ineligible-installed"
		}
		as, cs := localSets()
		res.Add(clause, vf.F("reason", a.reason, "where", where, "after", after),
			"step %d (%s): %s is %s; router id %#x, local ASNs now %v, local cluster ids now %v", stepNo, after, describe(id), whereDetail, c.RouterID, keysU32(as), hexKeys(cs))
	}
	observe := func(after string) {
		for _, v4 := range []bool{true, false} {
			for _, rt := range srv.Dump(v4) {
				for _, p := range rt.Paths() {
					if id := tbl.IDOf(p); id != 0 {
						if a := anns[id]; a != nil && a.reason == "" {
							seenLoc[id] = true
						}
						flag(id, "loc-rib", "present in the Loc-RIB ("+rt.Prefix().String()+")", after)
					}
				}
			}
		}
		for pi, lp := range peers {
			if lp.s == nil {
				continue
			}
			for _, v4 := range []bool{true, false} {
				if !v4 && !lp.cfg.V6 {
					continue
				}
				out, ok := lp.s.RIBOut(v4)
				if !ok {
					continue
				}
				for _, rt := range out {
					for _, p := range rt.Paths() {
						if id := tbl.IDOf(p); id != 0 {
							if a := anns[id]; a != nil && a.reason == "" {
								seenOut[id] = true
							}
							flag(id, "adj-rib-out", fmt.Sprintf("in the Adj-RIB-Out of the session to peer %d (%s)", pi, lp.cfg.Kind), after)
						}
					}
				}
			}
		}
	}
	observeWire := func(after string) {
		for pi, lp := range peers {
			if lp.s == nil {
				continue
			}
			ups := lp.s.Updates()
			for _, du := range ups[min(lp.wireCur, len(ups)):] {
				if du.Err != nil || du.U == nil || du.U.PA == nil || len(du.U.Announced()) == 0 {
					continue
				}
				if id := idOfComms(du.U.PA.Communities); id != 0 {
					lp.onWire[id] = true
					if a := anns[id]; a != nil && a.reason == "" {
						seenWire[id] = true
					}
					flag(id, "wire", fmt.Sprintf("announced in an UPDATE bio-rd sent to peer %d (%s)", pi, lp.cfg.Kind), after)
				}
			}
			lp.wireCur = len(ups)
		}
	}
	sessionGone := func(lp *livePeer) {
		// bio-rd ended the session on its own: every exit handler disposes the families before it closes
		lp.s, lp.lost = nil, true
		lp.stored = map[string]uint32{}
	}

	refusedProbes, establishedProbes := 0, 0
	for si, st := range c.Steps {
		stepNo = si
		lp := peers[st.Peer]
		after := st.K
		switch st.K {
		case "establish":
			after = map[string]string{"first": "peer-up", "late": "late-peer-up", "again": "peer-up-again"}[st.Tag]
			if lp.s != nil || lp.lost {
				continue
			}
			s, refused, withSecond, err := establishPeer(lp.p, lp.cfg, st.Second)
			if refused {
				res.Seen("session_role_pairs_refused", rolePairName(lp.cfg))
				refusedProbes++
				lp.lost = true
				continue
			}
			if err != nil {
				res.Inconcl = fmt.Sprintf("step %d: cannot establish peer %d (%s, roles %s): %v", si, st.Peer, lp.cfg.Kind, rolePairName(lp.cfg), err)
				return
			}
			if lp.cfg.Probe {
				establishedProbes++
			}
			lp.s, lp.wireCur, lp.onWire = s, 0, map[uint32]bool{}
			lp.stored = map[string]uint32{}
			lp.spec = tbl.SessionSpec{IBGP: lp.cfg.Kind != "ebgp", LocalASN: lp.cfg.LocalAS, PeerASN: lp.cfg.PeerAS, RouterID: c.RouterID}
			if w, ok := speaker.ConfigRoleToWire(lp.cfg.Role); ok && !lp.spec.IBGP {
				lp.spec.RoleEnabled, lp.spec.RoleLocal = true, w
				if lp.cfg.AdvRole >= 0 {
					lp.spec.RoleAdv, lp.spec.RoleRemote = true, uint8(lp.cfg.AdvRole)
				}
			}
			res.Seen("session_role_pairs_established", rolePairName(lp.cfg))
			res.Seen("session_peer_kinds", lp.cfg.Kind+fmt.Sprintf("/localAS%d", indexOfAS(c, lp.cfg.LocalAS)))
			res.Count("session_establishments", 1)
			if withSecond {
				res.Count("session_establishments_with_second_connection", 1)
				res.Seen("session_second_connection_kinds", []string{"", "waits-in-opensent", "open-before-keepalive", "open-after-established"}[st.Second])
				if lp.spec.RoleAdv {
					res.Count("session_role_sessions_with_second_connection", 1)
				}
			} else if st.Second != 0 {
				res.Inconcl = fmt.Sprintf("step %d: peer %d came up, but not through the second-connection choreography", si, st.Peer)
				return
			}
			events[after] = true
		case "down":
			if lp.s == nil {
				continue
			}
			after = "peer-down"
			s := lp.s
			s.SendNotification(6, 2)
			deadline := time.Now().Add(5 * time.Second)
			for s.Established() {
				if time.Now().After(deadline) {
					res.Inconcl = fmt.Sprintf("step %d: session of peer %d still established 5 s after our NOTIFICATION", si, st.Peer)
					return
				}
				time.Sleep(time.Millisecond)
			}
			if !s.Barrier(speaker.CeaseGrace) && !s.Conn.IsClosed() {
				s.Conn.WaitClosed(2 * time.Second)
			}
			lp.s = nil
			lp.stored = map[string]uint32{}
			events[after] = true
			res.Count("session_peer_downs", 1)
		case "policy":
			after = "policy-" + lp.policy + "->" + st.Pol
			if err := srv.B.ReplaceImportFilterChain(srv.VRF, lp.p.Addr, chain(st.Pol)); err != nil {
				res.Inconcl = "ReplaceImportFilterChain: " + err.Error()
				return
			}
			if lp.s != nil {
				held := 0
				for _, id := range lp.stored {
					if a := anns[id]; a != nil && a.reason != "" && !a.unsure {
						held++
					}
				}
				if held > 0 {
					res.Count("session_policy_replacements_over_ineligible_paths", 1)
					events["policy-over-ineligible"] = true
				}
			}
			lp.policy = st.Pol
			res.Count("session_policy_replacements", 1)
		case "announce":
			if lp.s == nil {
				continue
			}
			as, cs := localSets()
			a := st.Ann
			info := &annInfo{peer: st.Peer, spec: a.Path, want: a.Want}
			info.reason = tbl.Ineligible(a.Path, lp.spec, as, cs)
			if a.Path.OTC != 0 && info.reason == "" && lp.spec.RoleEnabled && !lp.spec.RoleAdv &&
				(lp.spec.RoleLocal == tbl.RoleProvider || lp.spec.RoleLocal == tbl.RoleRS || lp.spec.RoleLocal == tbl.RolePeer) {
				// locally the neighbour is a customer / RS client / peer but sent no role capability: whether the
				// OTC procedure applies is a matter of reading; neither presence nor absence is demanded
				info.unsure = true
			}
			anns[a.Path.ID] = info
			switch {
			case info.unsure:
				res.Count("session_announced_otc_not_judged", 1)
			case info.reason == "":
				res.Count("session_announced_eligible", 1)
			default:
				res.Count("session_announced_"+info.reason, 1)
				reasonsAnnounced[info.reason] = true
				if len(as) > 1 && info.reason == "as-loop" {
					res.Count("session_as_loop_with_two_local_asns", 1)
				}
			}
			if err := lp.s.SendUpdate(buildUpdate(st.Peer, a, lp.s.Neg.SendOpts())); err != nil {
				res.Inconcl = fmt.Sprintf("step %d: %v", si, err)
				return
			}
			r := lp.s.Sync()
			if !r.OK() || r.Closed || !lp.s.Established() {
				if info.reason == "empty-as-path-ebgp" {
					res.Count("session_empty_as_path_ended_the_session", 1)
					sessionGone(lp)
				} else {
					res.Inconcl = fmt.Sprintf("step %d: a valid UPDATE ended the session of peer %d (%v, state %s, %v): %s", si, st.Peer, r, lp.s.State(), lp.s.Notifications(), pathText(a.Path))
					return
				}
			} else {
				for _, s := range a.Slot {
					lp.stored[nlriOf(st.Peer, a.V6, s).Key()] = a.Path.ID
				}
			}
			res.Count("session_updates", 1)
		case "withdraw":
			if lp.s == nil {
				continue
			}
			if err := lp.s.SendUpdate(buildWithdraw(st.Peer, st.V6, st.Slot, lp.s.Neg.SendOpts())); err != nil {
				res.Inconcl = fmt.Sprintf("step %d: %v", si, err)
				return
			}
			if r := lp.s.Sync(); !r.OK() || r.Closed || !lp.s.Established() {
				res.Inconcl = fmt.Sprintf("step %d: a withdrawal ended the session of peer %d (%v)", si, st.Peer, r)
				return
			}
			delete(lp.stored, nlriOf(st.Peer, st.V6, st.Slot).Key())
			res.Count("session_updates", 1)
		}
		observe(after)
		observeWire(after)
		// non-vacuity: eligible paths that the model expects in the Loc-RIB right now
		if st.K == "announce" || st.K == "policy" || st.K == "establish" {
			want, got := 0, 0
			inLoc := map[uint32]bool{}
			for _, v4 := range []bool{true, false} {
				for _, rt := range srv.Dump(v4) {
					for _, p := range rt.Paths() {
						inLoc[tbl.IDOf(p)] = true
					}
				}
			}
			for _, q := range peers {
				if q.s == nil || q.policy == "reject" {
					continue
				}
				for _, id := range q.stored {
					if a := anns[id]; a != nil && a.reason == "" && !a.unsure {
						want++
						if inLoc[id] {
							got++
						}
					}
				}
			}
			res.Count("session_eligible_expected_in_locrib", want)
			res.Count("session_eligible_expected_and_present", got)
		}
	}
	// the update senders run on a 5 ms ticker: give them a moment, then read the wire once more
	stepNo = len(c.Steps)
	observe("end")
	for deadline := time.Now().Add(time.Second); ; {
		time.Sleep(10 * time.Millisecond)
		observeWire("end")
		flushed := true
		for _, lp := range peers {
			if lp.s == nil {
				continue
			}
			for _, v4 := range []bool{true, false} {
				out, _ := lp.s.RIBOut(v4 || !lp.cfg.V6)
				for _, rt := range out {
					for _, p := range rt.Paths() {
						if id := tbl.IDOf(p); id != 0 && !lp.onWire[id] {
							flushed = false
						}
					}
				}
			}
		}
		if flushed || time.Now().After(deadline) {
			break
		}
	}

	res.Count("session_cases", 1)
	res.Count("session_judged", judged)
	res.Count("session_eligible_seen_in_locrib", len(seenLoc))
	res.Count("session_eligible_seen_in_adj_rib_out", len(seenOut))
	res.Count("session_eligible_seen_on_wire", len(seenWire))
	res.Count("session_probe_peers_refused", refusedProbes)
	res.Count("session_probe_peers_established", establishedProbes)
	for k := range reasonsAnnounced {
		res.Seen("session_reasons", k)
	}
	if len(reasonsAnnounced) >= 2 && events["policy-over-ineligible"] && (events["late-peer-up"] || events["peer-up-again"]) && len(seenLoc) > 0 {
		res.Nontrivial = append(res.Nontrivial, fmt.Sprintf("session-%d", idx))
	}
	if idx%37 == 0 {
		var kinds []string
		for _, p := range c.Peers {
			kinds = append(kinds, fmt.Sprintf("%s(localAS %d, roles %s)", p.Kind, p.LocalAS, rolePairName(p)))
		}
		res.Sample = map[string]any{"kind": "session", "router_id": fmt.Sprintf("%#x", c.RouterID), "peers": kinds, "steps": len(c.Steps),
			"ineligible_reasons_announced": keysS(reasonsAnnounced), "eligible_seen_in_locrib": len(seenLoc), "eligible_seen_in_adj_rib_out": len(seenOut), "eligible_seen_on_wire": len(seenWire)}
	}
	return
}

func indexOfAS(c sessCase, as uint32) int {
	var seen []uint32
	for _, p := range c.Peers {
		found := false
		for _, x := range seen {
			found = found || x == p.LocalAS
		}
		if !found {
			seen = append(seen, p.LocalAS)
		}
	}
	for i, x := range seen {
		if x == as {
			return i + 1
		}
	}
	return 0
}

func pathText(sp tbl.PathSpec) string {
	var b strings.Builder
	b.WriteString("AS_PATH ")
	if len(sp.ASPath) == 0 {
		b.WriteString("empty")
	}
	for _, sg := range sp.ASPath {
		if sg.Set {
			fmt.Fprintf(&b, "{%v}", sg.ASNs)
		} else {
			fmt.Fprintf(&b, "%v", sg.ASNs)
		}
	}
	if sp.OrigID != 0 {
		fmt.Fprintf(&b, " ORIGINATOR_ID %#x", sp.OrigID)
	}
	if sp.Cluster != nil {
		b.WriteString(" CLUSTER_LIST [")
		for i, x := range *sp.Cluster {
			if i > 0 {
				b.WriteByte(' ')
			}
			fmt.Fprintf(&b, "%#x", x)
		}
		b.WriteByte(']')
	}
	if sp.OTC != 0 {
		fmt.Fprintf(&b, " OTC %d", sp.OTC)
	}
	return b.String()
}

func keysU32(m map[uint32]bool) []uint32 { return sortedKeys(m) }

func hexKeys(m map[uint32]bool) []string {
	var out []string
	for _, k := range sortedKeys(m) {
		out = append(out, fmt.Sprintf("%#x", k))
	}
	return out
}

func keysS(m map[string]bool) []string {
	var out []string
	for k := range m {
		out = append(out, k)
	}
	sort.Strings(out)
	return out
}

// ---------------------------------------------------------------------------------------------
// driver (called from main)

const sessionRule = " || session half: one real bio-rd BGP server per case (random router id, local AS L) with 2-5 passive peers over in-memory connections — iBGP or route reflector client (own cluster id, or none = router id), eBGP under L, mostly a second eBGP peer under a DIFFERENT local AS L2 (2- or 4-octet), sometimes a second internal peer with another cluster id or a non-client configured with the client's cluster id (which then is the peer that flaps), every fourth case an eBGP peer with one of the 20 forbidden RFC 9234 role pairs (or strict mode without a role) that bio-rd must refuse; the established eBGP peers cycle through the 5 complementary role pairs, 5 × 'no role from the peer', roles off; IPv4 and (a third of the peers) IPv6. Script of 40-70 steps: establish, announce (1-2 NLRI per UPDATE, unique id community; about a third ineligible by one reason: a currently local ASN in an AS_SEQUENCE or AS_SET, ORIGINATOR_ID = router id, a currently local cluster id in CLUSTER_LIST, OTC from a customer / RS client / from a peer with a foreign AS, empty AS_PATH over eBGP; look-alikes that are eligible: the ASN / cluster id of a session that is down, foreign ORIGINATOR_ID, OTC the role pair allows), withdraw, import policy replaced through BGPServer.ReplaceImportFilterChain in bursts containing reject->accept, a peer taken down by NOTIFICATION and established again, one peer established late; two of three establishments run with a SECOND incoming connection of the same neighbour opened while the first one is in OpenConfirm (OPENs exchanged, KEEPALIVE not yet sent): it waits in OpenSent and is closed by the neighbour after the first one is Established, or sends its OPEN before the first one's KEEPALIVE (loses the collision), or sends its OPEN after the first one is Established (refused) — the session that comes up must judge paths exactly like one that came up alone. After every step (Session.Sync for UPDATEs) both Loc-RIB dumps, the Adj-RIB-Out dumps of every established session and the UPDATEs bio-rd wrote are searched for ids judged ineligible when they were sent. distinct_nontrivial (keys session-N) = cases with >= 2 different ineligibility reasons, a policy replacement on a peer holding ineligible paths, a late or repeated establishment, and eligible paths seen in the Loc-RIB"

func sessionAssumptions(r *vf.Run) {
	r.Assume("session half: a path is judged against the local ASNs / cluster ids derived from the CONFIGURATION of the sessions the harness holds Established at the moment the UPDATE is sent (never from the VRF's own state)",
		"session half: OTC on a session whose peer sent no role capability although the local role makes it a customer / RS client / peer is not judged either way",
		"session half: synchronisation = speaker.Session.Sync after every UPDATE (table updates run on the FSM goroutine), return of ReplaceImportFilterChain, Established / closed connection + barrier for session events; the update sender runs on a 5 ms ticker, so after the last step the wire is read until every path of every Adj-RIB-Out has been seen in an UPDATE (at most 1 s)")
}

func runSessions(r *vf.Run, replay json.RawMessage) {
	var cases []any
	if replay != nil {
		cases = []any{replay}
	} else {
		n := r.N(100, 3000)
		for i := 0; i < n; i++ {
			cases = append(cases, genSessCase(r.RandN("c06-session", i), i))
		}
	}
	batch.Drive(r, batch.Config{Name: "c06", PerChild: 100, Workers: 8, Lanes: 1, ChildBudget: 6 * time.Minute}, cases, nil)
	r.Eval(int(r.Counter("session_judged")))
	if replay == nil {
		n := int64(len(cases))
		r.Require("session_cases", n*9/10)
		r.Require("session_eligible_seen_in_locrib", n*8)
		r.Require("session_eligible_seen_in_adj_rib_out", n*4)
		r.Require("session_eligible_seen_on_wire", n*4)
		for _, k := range []string{"as-loop", "originator-id", "cluster-loop", "otc", "empty-as-path-ebgp"} {
			r.Require("session_announced_"+k, n/4)
		}
		r.Require("session_as_loop_with_two_local_asns", n/8)
		r.Require("session_policy_replacements_over_ineligible_paths", n)
		r.Require("session_peer_downs", n/2)
		r.Require("session_establishments_with_second_connection", n*2)
		r.Require("session_role_sessions_with_second_connection", n/3)
	}
}
