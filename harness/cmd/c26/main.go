// C26: the RIB pipeline and session layer are free of data races.
//
// Oracle: the Go race detector. The plain binary (this file, parent mode) starts the -race build of the same program
// ($VERIF_RACE_BIN, child mode) once per (workload, repetition) with GORACE="halt_on_error=0 log_path=…", parses the
// logs, discards reports whose two stacks never enter bio-rd (harness races: there must be none), and de-duplicates the
// rest by (outermost bio-rd entry-point pair, innermost bio-rd function pair). Every distinct innermost pair is a
// violation (clause data-race) unless listed as a known finding.
package main

import (
	"encoding/json"
	"fmt"
	"os"
	"os/exec"
	"path/filepath"
	"sort"
	"strings"
	"sync"
	"time"

	"verifharness/internal/conc"
	"verifharness/internal/vf"
)

// Job is what one race child runs.
type Job struct {
	Workload string `json:"workload"`
	Rep      int    `json:"rep"`
	Rounds   int    `json:"rounds"`
	Procs    int    `json:"procs"`
	Seed     uint64 `json:"seed"`
}

// Stats is what a race child reports.
type Stats struct {
	Job        Job              `json:"job"`
	RoundsDone int              `json:"rounds_done"`
	Goroutines int64            `json:"goroutines"`
	Ops        map[string]int64 `json:"ops"`
	Abandoned  string           `json:"abandoned,omitempty"` // a round wedged (known C25 deadlocks): the child stopped there
	Panics     []conc.PanicRec  `json:"panics,omitempty"`
	Notes      map[string]int64 `json:"notes,omitempty"`
	MaxInfl    int64            `json:"max_inflight"`
}

func main() {
	if f := os.Getenv("C26_CHILD"); f != "" {
		childMain(f, os.Getenv("C26_STATS"))
		return
	}
	vf.Main("C26", "exploration", parent)
}

type pairInfo struct {
	a, b      string
	readEntry string
	writer    string
	reader    string
	count     int
	entries   map[string]int
	workloads map[string]int
	first     conc.RaceReport
	job       Job
}

func parent(r *vf.Run) {
	r.Rule("9 concurrent workloads built from the goroutines bio-rd itself runs (FSM goroutines feeding Adj-RIB-Ins, Loc-RIB writers, RIS observers registering/unregistering, configuration reload replacing import/export policies, sessions coming up and going down with started update senders, LocRIB.Dispose with late registration, API/metrics readers using Dump/Get/LPM/GetLonger/RouteCount/ToProto; several connections of one peer arriving together (collision detection next to the incoming connection worker); live servers with established sessions read through Metrics and GetRIBIn/GetRIBOut().Dump()) run under the race detector, each workload x repetitions with different seeds. distinct_nontrivial = (workload, repetition, round) triples that completed with at least two operations in flight at the same time")
	r.Assume("a race report is attributed to bio-rd when at least one of its two stacks enters bio-rd code; a stack that never does belongs to a client callback / API consumer doing what bio-rd's own clients do (ToProto on what it was handed)",
		"known C25 deadlocks can wedge a round: the child abandons it (counted), reports collected so far stay valid",
		"static routes are not offered to route-reflector-client sessions with a started update sender (the sender goroutine crashes in the CLUSTER_LIST serializer, a C09 finding, and would take the child down)")
	r.NonDeterministic("data-race")
	raceBin := os.Getenv("VERIF_RACE_BIN")
	if raceBin == "" {
		r.Inconclusive("VERIF_RACE_BIN is not set (run through ./check so that the -race build exists)")
		return
	}
	base := filepath.Join(vf.Root, "bin", "c26logs")
	if es, err := os.ReadDir(base); err == nil {
		for _, e := range es {
			if fi, err := e.Info(); err == nil && time.Since(fi.ModTime()) > 30*time.Minute {
				os.RemoveAll(filepath.Join(base, e.Name()))
			}
		}
	}
	dir := filepath.Join(base, fmt.Sprintf("seed%d-%s-%d", r.Seed, r.Tier, os.Getpid()))
	os.MkdirAll(dir, 0o755)

	var jobs []Job
	if raw, ok := r.Replaying(); ok {
		var j Job
		vf.Decode(raw, &j)
		for rep := 0; rep < 5; rep++ {
			j.Rep = rep
			jobs = append(jobs, j)
		}
	} else {
		reps := r.N(3, 40)
		for _, w := range workloadNames() {
			for rep := 0; rep < reps; rep++ {
				procs := 4
				if !r.Quick() {
					procs = []int{2, 4, 16}[rep%3]
				}
				rounds := 6
				if strings.HasPrefix(w, "server-") {
					rounds = 3
				}
				jobs = append(jobs, Job{Workload: w, Rep: rep, Rounds: rounds, Procs: procs, Seed: uint64(r.Seed)*7919 + uint64(rep)})
			}
		}
	}

	for i := 0; i < len(jobs) && i < 24; i += 7 {
		r.Sample(jobs[i])
	}
	var mu sync.Mutex
	pairs := map[string]*pairInfo{}
	harnessOnly, hookReports := 0, 0
	var harnessSample string
	totalReports := 0
	ops := map[string]int64{}
	abandoned := map[string]int{}
	readerPanics := map[string]int{}
	vf.Parallel(len(jobs), 4, func(i int) {
		j := jobs[i]
		prefix := filepath.Join(dir, fmt.Sprintf("%s-%d.race", j.Workload, j.Rep))
		statsf := filepath.Join(dir, fmt.Sprintf("%s-%d.stats.json", j.Workload, j.Rep))
		jobf := filepath.Join(dir, fmt.Sprintf("%s-%d.job.json", j.Workload, j.Rep))
		b, _ := json.Marshal(j)
		os.WriteFile(jobf, b, 0o644)
		cmd := exec.Command(raceBin)
		cmd.Env = append(os.Environ(), "C26_CHILD="+jobf, "C26_STATS="+statsf, "GORACE=halt_on_error=0 log_path="+prefix, fmt.Sprintf("GOMAXPROCS=%d", j.Procs))
		logf, _ := os.Create(filepath.Join(dir, fmt.Sprintf("%s-%d.out", j.Workload, j.Rep)))
		cmd.Stdout, cmd.Stderr = logf, logf
		err := cmd.Start()
		if err == nil {
			done := make(chan error, 1)
			go func() { done <- cmd.Wait() }()
			select {
			case err = <-done:
			case <-time.After(time.Duration(r.N(120, 600)) * time.Second):
				cmd.Process.Kill()
				<-done
				err = fmt.Errorf("killed by the wall-clock watchdog")
			}
		}
		logf.Close()
		var st Stats
		raw, rerr := os.ReadFile(statsf)
		if rerr != nil || json.Unmarshal(raw, &st) != nil {
			tail, _ := os.ReadFile(logf.Name())
			if len(tail) > 2500 {
				tail = tail[len(tail)-2500:]
			}
			r.Inconclusive(fmt.Sprintf("workload %s rep %d: race child gave no statistics (%v)\n%s", j.Workload, j.Rep, err, tail))
		}
		reports, _ := conc.ReadRaceLogs(prefix)
		mu.Lock()
		defer mu.Unlock()
		r.Count("race_children", 1)
		r.Count("goroutines_started", int(st.Goroutines))
		var n int64
		for k, v := range st.Ops {
			ops[k] += v
			n += v
		}
		r.Count("operations", int(n))
		r.Count("rounds_completed", st.RoundsDone)
		r.Eval(st.RoundsDone)
		if st.MaxInfl >= 2 {
			for k := 0; k < st.RoundsDone; k++ {
				r.Nontrivial(fmt.Sprintf("%s/%d/%d", j.Workload, j.Rep, k))
			}
		}
		if st.Abandoned != "" {
			abandoned[j.Workload]++
		}
		for _, p := range st.Panics {
			readerPanics[p.Kind+" @ "+p.Site] += p.Count
		}
		for k, v := range st.Notes {
			r.Count(k, int(v))
		}
		totalReports += len(reports)
		for _, rep := range reports {
			if rep.HarnessOnly {
				harnessOnly++
				if harnessSample == "" {
					harnessSample = rep.Text
				}
				continue
			}
			if rep.Hook {
				hookReports++
				continue
			}
			a, b := rep.InnerPair()
			ea, eb := rep.EntryPair()
			k := a + " | " + b + " | " + rep.ReadEntry() + " | " + rep.Reader() + " | " + rep.Writer()
			pi := pairs[k]
			if pi == nil {
				pi = &pairInfo{a: a, b: b, readEntry: rep.ReadEntry(), reader: rep.Reader(), writer: rep.Writer(), entries: map[string]int{}, workloads: map[string]int{}, first: rep, job: j}
				pairs[k] = pi
			}
			pi.count++
			pi.entries[ea+" || "+eb]++
			pi.workloads[j.Workload]++
		}
	})

	r.Count("race_reports", totalReports)
	r.Set("operations_by_kind", ops)
	if len(abandoned) > 0 {
		r.Set("children_abandoned_on_a_wedged_round_(C25_findings)", abandoned)
	}
	if len(readerPanics) > 0 {
		r.Set("operations_that_panicked", readerPanics)
	}
	r.Set("harness_only_reports", harnessOnly)
	r.Set("reports_with_a_verification_hook_on_one_side_(discarded)", hookReports)
	if harnessOnly > 0 {
		r.Inconclusive(fmt.Sprintf("%d race report(s) lie entirely in the harness: the harness itself must be race free\n%s", harnessOnly, harnessSample))
	}
	keys := make([]string, 0, len(pairs))
	for k := range pairs {
		keys = append(keys, k)
	}
	sort.Strings(keys)
	var listed []map[string]any
	distinctEntry := 0
	for _, k := range keys {
		pi := pairs[k]
		distinctEntry += len(pi.entries)
		var es []string
		for e, n := range pi.entries {
			es = append(es, fmt.Sprintf("%s x%d", e, n))
		}
		sort.Strings(es)
		var ws []string
		for w := range pi.workloads {
			ws = append(ws, w)
		}
		sort.Strings(ws)
		listed = append(listed, map[string]any{"a": pi.a, "b": pi.b, "read_entry": pi.readEntry, "reader": pi.reader, "writer": pi.writer, "reports": pi.count, "entry_point_pairs": es, "workloads": ws,
			"first": []string{pi.first.A.Header, first(pi.first.A.Frames), first(pi.first.A.Lines), pi.first.B.Header, first(pi.first.B.Frames), first(pi.first.B.Lines)}})
		for i := 0; i < pi.count; i++ {
			r.Violate(vf.Violation{Clause: "data-race", Features: vf.F("a", pi.a, "b", pi.b, "read_entry", pi.readEntry, "reader", pi.reader, "writer", pi.writer), Case: pi.job,
				Detail: fmt.Sprintf("race detector: %s / %s\nentry points: %s\nworkloads: %s\n%s", pi.a, pi.b, strings.Join(es, "; "), strings.Join(ws, ", "), pi.first.Text)})
		}
	}
	r.Set("distinct_innermost_pairs", len(pairs))
	r.Set("distinct_entry_point_and_innermost_pairs", distinctEntry)
	r.Set("report_pairs", listed)
	r.Require("operations", int64(r.N(20000, 400000)))
	r.Require("goroutines_started", 100)
}

func first(s []string) string {
	if len(s) == 0 {
		return ""
	}
	return s[0]
}
