package main

import (
	"encoding/json"
	"fmt"
	"math/rand/v2"
	"os"
	"runtime"
	"sync"
	"time"

	"github.com/bio-routing/bio-rd/routingtable/filter"

	"verifharness/internal/conc"
	"verifharness/internal/speaker"
	"verifharness/internal/tbl"
	"verifharness/internal/wire"
)

func workloadNames() []string {
	return []string{"locrib-clients", "adjribin-pipeline", "adjribout-pipeline", "session-churn", "update-sender", "dispose-late-register", "server-live-readers", "server-session-events", "server-collisions"}
}

var (
	ebgpTap  = conc.SessionKind{}
	rrTap    = conc.SessionKind{IBGP: true, RRClient: true}
	ebgpSend = conc.SessionKind{Sender: true}
	rrAPSend = conc.SessionKind{IBGP: true, RRClient: true, AddPath: true, Sender: true}
	ebgpAP   = conc.SessionKind{AddPath: true}
)

type wl struct {
	rig     *conc.Rig
	prog    *conc.Progress
	workers []conc.Worker
	after   func()
	notes   map[string]int64
	mu      sync.Mutex
}

func (w *wl) note(k string, n int64) {
	w.mu.Lock()
	w.notes[k] += n
	w.mu.Unlock()
}

func childMain(jobf, statsf string) {
	raw, err := os.ReadFile(jobf)
	if err != nil {
		fmt.Println(err)
		os.Exit(3)
	}
	var j Job
	if err := json.Unmarshal(raw, &j); err != nil {
		fmt.Println(err)
		os.Exit(3)
	}
	speaker.QuietLogs()
	speaker.StepTimeout = 5 * time.Second
	st := &Stats{Job: j, Ops: map[string]int64{}, Notes: map[string]int64{}}
	write := func() {
		b, _ := json.MarshalIndent(st, "", " ")
		os.WriteFile(statsf+".tmp", b, 0o644)
		os.Rename(statsf+".tmp", statsf)
	}
	for round := 0; round < j.Rounds; round++ {
		w := build(j, round)
		done := make(chan struct{})
		go func() {
			defer close(done)
			w.rig.Run(w.workers, j.Seed*1000+uint64(round))
			if w.after != nil {
				w.after()
			}
		}()
		v := conc.Watch(w.prog, done, 2*time.Second, 3)
		for k, n := range w.rig.Ops() {
			st.Ops[k] += n
		}
		st.Goroutines += w.rig.Goroutines.Load()
		if m := w.rig.MaxInfl.Load(); m > st.MaxInfl {
			st.MaxInfl = m
		}
		for _, p := range w.rig.PanicList() {
			p.Text = ""
			merged := false
			for i := range st.Panics {
				if st.Panics[i].Kind == p.Kind && st.Panics[i].Site == p.Site {
					st.Panics[i].Count += p.Count
					merged = true
				}
			}
			if !merged {
				st.Panics = append(st.Panics, p)
			}
		}
		w.mu.Lock()
		for k, n := range w.notes {
			st.Notes[k] += n
		}
		w.mu.Unlock()
		if v.Kind != "" {
			st.Abandoned = fmt.Sprintf("round %d: %s %s %v", round, v.Kind, v.Analysis.Kind, v.Analysis.Locks)
			write()
			os.Exit(0)
		}
		st.RoundsDone++
	}
	write()
}

func build(j Job, round int) *wl {
	w := &wl{rig: conc.NewRig(fmt.Sprintf("%s-%d-%d", j.Workload, j.Rep, round)), prog: &conc.Progress{}, notes: map[string]int64{}}
	rg, p := w.rig, w.prog
	sess := func(ks ...conc.SessionKind) {
		for i, k := range ks {
			rg.Sessions = append(rg.Sessions, rg.AddSession(i, k))
		}
	}
	const nops = 80
	switch j.Workload {
	case "locrib-clients": // C04's concurrent variant: mutators next to a registrar on one Loc-RIB, plus readers
		w.workers = []conc.Worker{rg.LocMutator(p, nops), rg.LocMutator(p, nops), rg.LocMutator(p, nops), rg.LocMutator(p, nops), rg.Registrar(p, nops/2, nil), rg.Reader(p, nops)}
	case "adjribin-pipeline":
		sess(ebgpTap, rrTap)
		w.workers = []conc.Worker{rg.Announcer(rg.Sessions[0], p, nops), rg.Announcer(rg.Sessions[1], p, nops), rg.InReplacer(p, nops/3), rg.AdjRegistrar(p, nops/3), rg.Reader(p, nops), rg.Reader(p, nops)}
	case "adjribout-pipeline":
		sess(ebgpTap, rrTap, ebgpAP)
		rg.NoStatic = true // a static route makes RefreshRoute panic (C13 finding) before anything is refreshed
		w.workers = []conc.Worker{rg.Announcer(rg.Sessions[0], p, nops), rg.Announcer(rg.Sessions[1], p, nops), rg.LocMutator(p, nops), rg.OutReplacer(p, nops/4), rg.Reader(p, nops), rg.Registrar(p, nops/4, nil)}
	case "session-churn":
		rg.NoStatic = true
		sess(ebgpSend)
		w.workers = []conc.Worker{rg.Announcer(rg.Sessions[0], p, nops), rg.LocMutator(p, nops), rg.Churn(1, rrAPSend, p, 5), rg.Churn(4, ebgpTap, p, 8), rg.Registrar(p, nops/3, nil), rg.Reader(p, nops/2)}
		w.after = func() { rg.DisposeSession(rg.Sessions[0]) }
	case "update-sender": // C10's real-timer explorer: started senders (5 ms rounds) fed through their Adj-RIB-Outs, then destroyed
		rg.NoStatic = true
		sess(ebgpSend, rrAPSend)
		w.workers = []conc.Worker{rg.LocMutator(p, nops), rg.LocMutator(p, nops), rg.Announcer(rg.Sessions[0], p, nops), rg.Announcer(rg.Sessions[1], p, nops),
			{Name: "pending", Fn: func(rng *rand.Rand) {
				for i := 0; i < 30; i++ {
					for _, s := range rg.Sessions {
						s := s
						rg.Op(p, "updateSender.VerifPending", func() { s.Sender.VerifPending() })
					}
					time.Sleep(time.Duration(rng.IntN(2000)) * time.Microsecond)
				}
			}}}
		w.after = func() {
			for _, s := range rg.Sessions {
				rg.DisposeSession(s)
			}
		}
	case "dispose-late-register":
		sess(ebgpTap)
		w.workers = []conc.Worker{rg.LocMutator(p, nops), rg.LocMutator(p, nops), rg.Announcer(rg.Sessions[0], p, nops), rg.Registrar(p, nops/2, nil), rg.Registrar(p, nops/2, nil), rg.Disposer(p, 3), rg.Reader(p, nops/2)}
	case "server-live-readers":
		buildServerLive(w, j, round)
	case "server-session-events":
		buildServerEvents(w, j, round)
	case "server-collisions":
		buildServerCollisions(w, j, round)
	default:
		panic("unknown workload " + j.Workload)
	}
	return w
}

func sendRoute(s *speaker.Session, rng *rand.Rand, i int) error {
	n := wire.V4(10, byte(rng.IntN(6)), 0, 0, 16)
	if rng.IntN(3) == 0 {
		return s.SendUpdate(&wire.Update{Withdrawn: []wire.NLRI{n}})
	}
	pa := &wire.PathAttrs{Origin: wire.U8(0), HasASPath: true, NextHop: []byte{192, 0, 2, byte(1 + i%200)}, MED: wire.U32(uint32(i))}
	if s.P.IBGP() {
		pa.LocalPref = wire.U32(100 + uint32(rng.IntN(2))*100)
		pa.ASPath = []wire.Segment{{Type: wire.SegSequence, ASNs: []uint32{64900 + uint32(rng.IntN(3))}}}
	} else {
		pa.ASPath = []wire.Segment{{Type: wire.SegSequence, ASNs: []uint32{s.P.Cfg.PeerAS, 64900 + uint32(rng.IntN(3))}}}
	}
	return s.SendUpdate(&wire.Update{Attrs: pa.Build(s.Neg.SendOpts()), NLRI: []wire.NLRI{n}})
}

func srvPolicy(i int) filter.Chain {
	switch i % 3 {
	case 0:
		return speaker.Accept()
	case 1:
		return tbl.PolicySpec{Reject: []string{conc.Pfxs[i%6].String()}}.Chain()
	}
	return tbl.PolicySpec{Reject: []string{conc.Pfxs[i%6].String(), conc.Pfxs[(i+2)%6].String()}, SetMED: wire.U32(uint32(i))}.Chain()
}

// readers of a live server: what the metrics exporter and the BGP API server do.
func serverReaders(w *wl, srv *speaker.Server, peers []*speaker.Peer, n int) []conc.Worker {
	rg, p := w.rig, w.prog
	return []conc.Worker{
		{Name: "metrics", Fn: func(rng *rand.Rand) {
			for i := 0; i < n; i++ {
				rg.Op(p, "server.Metrics", func() { srv.B.Metrics() })
				runtime.Gosched()
			}
		}},
		{Name: "bgp-api", Fn: func(rng *rand.Rand) {
			for i := 0; i < n; i++ {
				pr := peers[rng.IntN(len(peers))]
				rg.Op(p, "server.GetRIBIn.Dump", func() {
					if in := srv.B.GetRIBIn(srv.VRF, pr.Addr, 1, 1); in != nil {
						for _, rt := range in.Dump() {
							_ = rt.ToProto()
						}
					}
				})
				rg.Op(p, "server.GetRIBOut.Dump", func() {
					if out := srv.B.GetRIBOut(srv.VRF, pr.Addr, 1, 1); out != nil {
						for _, rt := range out.Dump() {
							_ = rt.ToProto()
						}
					}
				})
				rg.Op(p, "server.GetPeers/GetPeerConfig", func() {
					for _, k := range srv.B.GetPeers() {
						_ = srv.B.GetPeerConfig(k.VRF(), k.Addr())
					}
				})
				runtime.Gosched()
			}
		}},
		{Name: "ris", Fn: func(rng *rand.Rand) {
			for i := 0; i < n; i++ {
				rg.Op(p, "locRIB.Dump", func() {
					for _, rt := range srv.Dump(true) {
						_ = rt.ToProto()
					}
				})
				runtime.Gosched()
			}
		}},
	}
}

func buildServerLive(w *wl, j Job, round int) {
	rg, p := w.rig, w.prog
	srv := speaker.NewServer(speaker.ServerConfig{})
	var peers []*speaker.Peer
	var sess []*speaker.Session
	for _, c := range []speaker.PeerConfig{
		{LocalAS: 65000, PeerAS: 65001, IPv4: &speaker.Family{}},
		{LocalAS: 65000, PeerAS: 65000, RRClient: true, IPv4: &speaker.Family{}},
		{LocalAS: 65000, PeerAS: 65002, IPv4: &speaker.Family{AddPathSend: true, MaxPaths: 4}},
	} {
		pr, err := srv.AddPeer(c)
		if err != nil {
			panic(err)
		}
		s, err := pr.EstablishDefault()
		if err != nil {
			w.note("establish_failed", 1)
		} else {
			w.note("sessions_established", 1)
		}
		peers, sess = append(peers, pr), append(sess, s)
	}
	for _, s := range sess {
		s := s
		w.workers = append(w.workers, conc.Worker{Name: "peer-updates", Fn: func(rng *rand.Rand) {
			for i := 0; i < 40; i++ {
				rg.Op(p, "session.SendUpdate", func() { sendRoute(s, rng, i) })
				if i%8 == 7 {
					rg.Op(p, "session.SendKeepalive", func() { s.SendKeepalive() })
				}
			}
			rg.Op(p, "session.Sync", func() { s.Sync() })
		}})
	}
	w.workers = append(w.workers, serverReaders(w, srv, peers, 40)...)
	w.workers = append(w.workers, conc.Worker{Name: "import-reload", Fn: func(rng *rand.Rand) {
		for i := 0; i < 12; i++ {
			pr := peers[rng.IntN(len(peers))]
			c := srvPolicy(rng.IntN(30))
			rg.Op(p, "server.ReplaceImportFilterChain", func() { srv.B.ReplaceImportFilterChain(srv.VRF, pr.Addr, c) })
			time.Sleep(time.Duration(rng.IntN(500)) * time.Microsecond)
		}
	}})
	w.after = func() {
		for _, pr := range peers {
			srv.B.DisposePeer(srv.VRF, pr.Addr)
		}
	}
}

func buildServerEvents(w *wl, j Job, round int) {
	rg, p := w.rig, w.prog
	srv := speaker.NewServer(speaker.ServerConfig{})
	var peers []*speaker.Peer
	for i := 0; i < 3; i++ {
		pr, err := srv.AddPeer(speaker.PeerConfig{LocalAS: 65000, PeerAS: 65001 + uint32(i), IPv4: &speaker.Family{}})
		if err != nil {
			panic(err)
		}
		peers = append(peers, pr)
	}
	for i, pr := range peers {
		i, pr := i, pr
		w.workers = append(w.workers, conc.Worker{Name: "session-events", Fn: func(rng *rand.Rand) {
			cur := pr
			for k := 0; k < 4; k++ {
				var s *speaker.Session
				rg.Op(p, "session establishes", func() {
					var err error
					if s, err = cur.EstablishDefault(); err != nil {
						w.note("establish_failed", 1)
					} else {
						w.note("sessions_established", 1)
					}
				})
				for n := 0; n < 6; n++ {
					rg.Op(p, "session.SendUpdate", func() { sendRoute(s, rng, n) })
				}
				switch (k + i) % 3 {
				case 0:
					rg.Op(p, "peer sends NOTIFICATION", func() { s.SendNotification(6, 0); s.Sync() })
				case 1:
					rg.Op(p, "server.DisposePeer + AddPeer", func() {
						srv.B.DisposePeer(srv.VRF, cur.Addr)
						np, err := srv.AddPeer(speaker.PeerConfig{LocalAS: 65000, PeerAS: cur.Cfg.PeerAS, PeerAddr: cur.Addr, IPv4: &speaker.Family{}})
						if err == nil {
							cur = np
						}
					})
				case 2:
					rg.Op(p, "peer closes the connection", func() { s.Conn.PeerClose(); time.Sleep(time.Millisecond) })
					rg.Op(p, "server.DisposePeer + AddPeer", func() {
						srv.B.DisposePeer(srv.VRF, cur.Addr)
						np, err := srv.AddPeer(speaker.PeerConfig{LocalAS: 65000, PeerAS: cur.Cfg.PeerAS, PeerAddr: cur.Addr, IPv4: &speaker.Family{}})
						if err == nil {
							cur = np
						}
					})
				}
			}
		}})
	}
	w.workers = append(w.workers, serverReaders(w, srv, peers, 60)...)
}

// several connections of one peer arrive at the same time: every OPEN makes its FSM look at the peer's other FSMs
// (collision detection) while the incoming connection worker is still setting up further ones.
func buildServerCollisions(w *wl, j Job, round int) {
	rg, p := w.rig, w.prog
	srv := speaker.NewServer(speaker.ServerConfig{})
	pr, err := srv.AddPeer(speaker.PeerConfig{LocalAS: 65000, PeerAS: 65000, IPv4: &speaker.Family{}})
	if err != nil {
		panic(err)
	}
	for g := 0; g < 4; g++ {
		w.workers = append(w.workers, conc.Worker{Name: "incoming-connection", Fn: func(rng *rand.Rand) {
			for k := 0; k < 8; k++ {
				var s *speaker.Session
				var err error
				rg.Op(p, "peer connects", func() { s, err = pr.Connect() })
				if err != nil {
					w.note("connect_failed", 1)
					continue
				}
				w.note("incoming_connections", 1)
				rg.Op(p, "peer sends OPEN", func() { s.SendOpen(pr.DefaultOpen()) })
				time.Sleep(time.Duration(rng.IntN(800)) * time.Microsecond)
				if rng.IntN(2) == 0 {
					rg.Op(p, "session.SendKeepalive", func() { s.SendKeepalive() })
				}
				rg.Op(p, "peer closes the connection", func() { s.Conn.PeerClose() })
			}
		}})
	}
	w.workers = append(w.workers, serverReaders(w, srv, []*speaker.Peer{pr}, 30)...)
	w.after = func() { srv.B.DisposePeer(srv.VRF, pr.Addr) }
}
