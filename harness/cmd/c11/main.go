// C11: add-path identifiers are unique per prefix, a withdrawal carries the identifier its path was announced with,
// and identifier allocation never fails while fewer than 2^32-1 identifiers are in use.
// Monitors on an add-path Adj-RIB-Out that is driven with the calls the Loc-RIB makes (AddPath / RemovePath with the
// Loc-RIB's path): (1) after every operation, in the dump, two stored paths of one prefix with different content have
// different identifiers; (2) every withdrawal seen by the recording client carries the identifier the same
// (prefix, path content) was announced with; (3) AddPath never returns an error (the histories never have more than
// a few dozen identifiers in use).
package main

import (
	"bytes"
	"fmt"
	"math/rand/v2"
	"strings"
	"sync"
	"time"

	bnet "github.com/bio-routing/bio-rd/net"

	"verifharness/internal/gen"
	"verifharness/internal/rig"
	"verifharness/internal/vf"
)

type op struct {
	K     string `json:"k"` // add | remove | cursor (verif hook: the allocation cursor jumps to Cur)
	Cur   uint32 `json:"cur,omitempty"`
	Pfx   int    `json:"pfx"`
	Shape int    `json:"shape"`
}

type hist struct {
	Sess     rig.Sess   `json:"sess"`
	Universe []gen.P    `json:"universe"`
	Shapes   []rig.Attr `json:"shapes"`
	Ops      []op       `json:"ops"`
	// Cursor != 0: the identifier allocation cursor starts here (verif hook), a few steps before the 32 bit wrap
	Cursor uint32 `json:"cursor,omitempty"`
}

// shapes: index 0 is the base; 1..3 differ from it only in attributes the identifier hash does not cover;
// 4.. differ in hashed attributes. None carries a per-path id, so the same shape on two prefixes is attribute-identical.
func genShapes(rng *rand.Rand) ([]rig.Attr, []string) {
	src := rig.Sources[rng.IntN(2)] // an eBGP neighbour: exported unchanged on iBGP and RS-client sessions
	base := rig.Attr{NoID: true, Source: src.IP, EBGP: true, BGPID: src.BGPID, NextHop: src.IP, LocalPref: 100, MED: uint32(rng.IntN(2)) * 10,
		ASPath: []rig.Seg{{ASNs: []uint32{src.ASN, 64700 + uint32(rng.IntN(5))}}}}
	if rng.IntN(2) == 0 {
		base.Comms = []uint32{65000<<16 | 5}
	}
	var out []rig.Attr
	var names []string
	add := func(n string, f func(a *rig.Attr)) {
		a := base.Clone()
		f(&a)
		out = append(out, a)
		names = append(names, n)
	}
	add("base", func(a *rig.Attr) {})
	add("otc", func(a *rig.Attr) { a.OTC = 64666 })
	add("unknown-attr", func(a *rig.Attr) {
		a.Unknown = []rig.Unk{{Optional: true, Transitive: true, Type: 222, Value: []byte{1, 2, 3}}}
	})
	add("atomic-aggregate", func(a *rig.Attr) { a.AtomicAgg = true; a.Aggregator = &[2]uint32{0x0A090909, 64999} })
	// three of the shapes were themselves learned with add-path: they arrive with a path identifier of the
	// upstream's numbering (two of them with the same one), which must not show up on the way out
	add("med", func(a *rig.Attr) { a.MED += 7; a.PathID = 1 })
	add("nexthop", func(a *rig.Attr) { a.NextHop = 0xC6336409; a.PathID = 7 })
	add("communities", func(a *rig.Attr) { a.Comms = append(a.Comms, 65000<<16|6); a.PathID = 1 })
	add("large-communities", func(a *rig.Attr) { a.LComms = [][3]uint32{{64999, 1, 2}} })
	add("no-advertise", func(a *rig.Attr) { a.Comms = append(append([]uint32{}, a.Comms...), 0xFFFFFF02); a.MED += 3 })
	add("other-neighbour", func(a *rig.Attr) {
		o := rig.Sources[1-indexOf(src)]
		a.Source, a.BGPID, a.NextHop = o.IP, o.BGPID, o.IP
		a.ASPath = []rig.Seg{{ASNs: []uint32{o.ASN, 64710}}}
	})
	return out, names
}

func indexOf(s rig.Src) int {
	for i, x := range rig.Sources {
		if x.IP == s.IP {
			return i
		}
	}
	return 0
}

var shapeNames []string

const noAdvertiseShape = 8

func genHist(rng *rand.Rand, nops int) hist {
	h := hist{Universe: gen.Universe(rng, rng.IntN(3) != 0, 6)}
	h.Shapes, _ = genShapes(rng)
	kind := rig.IBGP
	switch rng.IntN(10) {
	case 0:
		kind = rig.EBGPRS
	case 1:
		kind = rig.EBGP
	case 2:
		kind = rig.IBGPRR
	}
	h.Sess = rig.Sess{Kind: kind, AddPath: 8, Peer: 0x0A000909, PeerASN: 65209}
	if h.Sess.IBGP() {
		h.Sess.PeerASN = rig.DefaultLocal.ASN
	}
	if rng.IntN(3) == 0 {
		h.Cursor = ^uint32(0) - uint32(rng.IntN(4))
	}
	present := map[[2]int]bool{}
	// bias towards few shapes so that identifiers are shared between prefixes and released in every order
	hot := []int{0, 0, 0, 1, 2, 3, 4, 5, 6, 7, 8, 9}
	jumpAt := -1
	if h.Cursor == 0 && rng.IntN(3) == 0 {
		jumpAt = 10 + rng.IntN(nops/2) // identifiers 1.. are in use by then
	}
	for len(h.Ops) < nops {
		if len(h.Ops) == jumpAt {
			h.Ops = append(h.Ops, op{K: "cursor", Cur: ^uint32(0) - uint32(rng.IntN(3))})
			continue
		}
		pi := rng.IntN(len(h.Universe))
		sh := hot[rng.IntN(len(hot))]
		k := [2]int{pi, sh}
		if present[k] {
			if rng.IntN(3) != 0 {
				h.Ops = append(h.Ops, op{K: "remove", Pfx: pi, Shape: sh})
				delete(present, k)
			}
			continue
		}
		// sometimes remove something else first so that removals are frequent
		if len(present) > 6 && rng.IntN(2) == 0 {
			for q := range present {
				h.Ops = append(h.Ops, op{K: "remove", Pfx: q[0], Shape: q[1]})
				delete(present, q)
				break
			}
			continue
		}
		h.Ops = append(h.Ops, op{K: "add", Pfx: pi, Shape: sh})
		present[k] = true
		if sh == noAdvertiseShape {
			for q := range present {
				if q[0] == pi {
					delete(present, q)
				}
			}
		}
	}
	return h
}

type stats struct {
	ops, dumps, pairs, withdrawals, opWithdrawals, sharedReleases, maxInUse, stateChecks int
	sharedID, unhashedPair, wrapped                                         bool
}

type result struct {
	viol []vf.Violation
	st   stats
}

func differ(a, b rig.Attr) string {
	var d []string
	if a.OTC != b.OTC {
		d = append(d, "otc")
	}
	if fmt.Sprint(a.Unknown) != fmt.Sprint(b.Unknown) {
		d = append(d, "unknown-attr")
	}
	if a.AtomicAgg != b.AtomicAgg || (a.Aggregator == nil) != (b.Aggregator == nil) {
		d = append(d, "atomic-aggregate")
	}
	x, y := a, b
	x.OTC, y.OTC, x.Unknown, y.Unknown, x.AtomicAgg, y.AtomicAgg, x.Aggregator, y.Aggregator, x.PathID, y.PathID = 0, 0, nil, nil, false, false, nil, nil, 0, 0
	if len(x.DiffFields(y, rig.AllFields)) > 0 {
		d = append(d, "hashed-attrs")
	}
	return strings.Join(d, "+")
}

func runHist(h hist) (res result) {
	st := &res.st
	seen := map[string]bool{}
	viol := func(clause string, f map[string]string, detail string) {
		f["session"] = h.Sess.Kind
		v := vf.Violation{Clause: clause, Features: f, Detail: detail, Case: h}
		if sig := v.Signature(); !seen[sig] {
			seen[sig] = true
			res.viol = append(res.viol, v)
		}
	}
	rg := rig.New(rig.DefaultLocal, h.Universe[0].V4)
	out := rg.NewOut(h.Sess, rig.AcceptAll())
	if h.Cursor != 0 {
		out.Table.VerifSetPathIDCursor(h.Cursor)
		st.wrapped = true
	}
	bio := make([]*bnet.Prefix, len(h.Universe))
	for i, p := range h.Universe {
		bio[i] = p.Bio()
	}
	type ann struct {
		id uint32
	}
	opAnn := map[[2]int]uint32{}       // (prefix index, shape) -> identifier its announcement carried
	announced := map[string][]uint32{} // (prefix, content) -> identifiers of outstanding announcements
	recSeen := 0
	idUsers := map[uint32]int{} // model: identifier -> number of stored (prefix, path) using it, from the dump
	for i, o := range h.Ops {
		var err error
		if o.K == "cursor" {
			out.Table.VerifSetPathIDCursor(o.Cur)
			st.wrapped = true
			continue
		}
		g := rig.Guard(func() {
			p := h.Shapes[o.Shape].Build(rg.Pool)
			if o.K == "add" {
				err = out.Table.AddPath(bio[o.Pfx], p)
			} else {
				out.Table.RemovePath(bio[o.Pfx], p)
			}
		})
		if g != "" {
			viol("panic", vf.F("site", rig.PanicSite(g)), fmt.Sprintf("op %d %+v: panic: %s", i, o, g))
			return
		}
		st.ops++
		// monitor 3
		if err != nil {
			viol("exhausted", vf.F("after", o.K), fmt.Sprintf("op %d add %s shape %d: AddPath returned %q with %d identifiers in use", i, h.Universe[o.Pfx], o.Shape, err, len(idUsers)))
		}
		// monitor 2: the client's view
		evs := out.Rec.Since(recSeen)
		// 2b: the withdrawal that RemovePath(prefix, path X) causes carries the identifier X itself was announced with
		// (not that of another stored path of the prefix that merely ties with X in best path selection)
		opKey := [2]int{o.Pfx, o.Shape}
		if o.K == "add" && o.Shape == noAdvertiseShape {
			// never exported; the Adj-RIB-Out gives up what it had advertised for the prefix
			for k := range opAnn {
				if k[0] == o.Pfx {
					delete(opAnn, k)
				}
			}
		} else if o.K == "add" {
			if len(evs) == 1 && evs[0].Kind == "add" {
				opAnn[opKey] = evs[0].PathID
			}
		} else if want, ok := opAnn[opKey]; ok {
			delete(opAnn, opKey)
			for _, e := range evs {
				if e.Kind == "remove" {
					st.opWithdrawals++
					if e.PathID != want {
						viol("withdraw-id", vf.F("of", "another-path"), fmt.Sprintf("op %d %+v: the withdrawal caused by removing %s shape %d carries identifier %d (%s); that path was announced with identifier %d", i, o, h.Universe[o.Pfx], o.Shape, e.PathID, e.Attr.Short(), want))
					}
				}
			}
		}
		for _, e := range evs {
			recSeen++
			key := fmt.Sprintf("%s|%x", e.Pfx.Key(), e.Hash0)
			switch e.Kind {
			case "add":
				announced[key] = append(announced[key], e.PathID)
			case "remove":
				st.withdrawals++
				ids := announced[key]
				if len(ids) == 0 {
					break // a withdrawal of something never announced carries no announced identifier to compare with
				}
				found := -1
				for j, id := range ids {
					if id == e.PathID {
						found = j
					}
				}
				if found < 0 {
					viol("withdraw-id", vf.F(), fmt.Sprintf("op %d %+v: withdrawal of %s %s carries identifier %d, it was announced with %v", i, o, e.Pfx, e.Attr.Short(), e.PathID, ids))
				} else {
					announced[key] = append(append([]uint32{}, ids[:found]...), ids[found+1:]...)
				}
			}
		}
		// monitor 1: the dump
		idUsers = map[uint32]int{}
		for _, rt := range out.Table.Dump() {
			paths := rt.Paths()
			st.dumps++
			enc := make([][]byte, len(paths))
			attrs := make([]rig.Attr, len(paths))
			for a := range paths {
				enc[a] = rig.PathBytes(paths[a], false)
				attrs[a] = rig.FromPath(paths[a])
			}
			for a := 0; a < len(paths); a++ {
				pa := attrs[a]
				idUsers[pa.PathID]++
				for b := a + 1; b < len(paths); b++ {
					st.pairs++
					if bytes.Equal(enc[a], enc[b]) {
						continue
					}
					pb := attrs[b]
					d := differ(pa, pb)
					hashedEqual := !strings.Contains(d, "hashed-attrs")
					if hashedEqual {
						st.unhashedPair = true
					}
					if pa.PathID == pb.PathID {
						viol("same-id", vf.F("hashed_attrs_equal", hashedEqual), fmt.Sprintf("op %d %+v: prefix %s holds two different paths with identifier %d: %s and %s (they differ in %s)", i, o, gen.FromBio(rt.Prefix()), pa.PathID, pa.Short(), pb.Short(), d))
					}
				}
			}
		}
		// monitor 4: the identifier manager's own books agree with what is stored (an identifier that is never given
		// back is how "allocation fails although few identifiers are in use" begins)
		if alloc, used := out.Table.VerifPathIDState(); alloc != len(idUsers) || int(used) != len(idUsers) {
			viol("allocation-state", vf.F("after", o.K, "direction", map[bool]string{true: "leaked", false: "lost"}[alloc > len(idUsers) || int(used) > len(idUsers)]), fmt.Sprintf("op %d %+v: the stored paths use %d distinct identifiers, the identifier manager holds %d as allocated and counts %d in use", i, o, len(idUsers), alloc, used))
		}
		st.stateChecks++
		for _, n := range idUsers {
			if n >= 2 {
				st.sharedID = true
				if o.K == "remove" {
					st.sharedReleases++
				}
			}
		}
		if len(idUsers) > st.maxInUse {
			st.maxInUse = len(idUsers)
		}
	}
	return res
}

func validOps(h hist) bool {
	present := map[[2]int]bool{}
	for _, o := range h.Ops {
		if o.K == "cursor" {
			continue
		}
		k := [2]int{o.Pfx, o.Shape}
		if (o.K == "add") == present[k] {
			return false
		}
		present[k] = o.K == "add"
		if o.K == "add" && o.Shape == noAdvertiseShape {
			for q := range present {
				if q[0] == o.Pfx {
					delete(present, q)
				}
			}
		}
	}
	return true
}

// shrink deletes operations greedily while the same violation signature still fires.
func shrink(h hist, sig string) (vf.Violation, bool) {
	fires := func(x hist) (vf.Violation, bool) {
		var res result
		if rig.Guard(func() { res = runHist(x) }) != "" {
			return vf.Violation{}, false
		}
		for _, v := range res.viol {
			if v.Signature() == sig {
				return v, true
			}
		}
		return vf.Violation{}, false
	}
	best, ok := fires(h)
	if !ok {
		return best, false
	}
	cur := h
	for changed := true; changed; {
		changed = false
		for i := len(cur.Ops) - 1; i >= 0; i-- {
			try := cur
			try.Ops = append(append([]op{}, cur.Ops[:i]...), cur.Ops[i+1:]...)
			if !validOps(try) {
				// removing an add requires removing its remove as well: try the pair
				if cur.Ops[i].K != "add" {
					continue
				}
				j := -1
				for k := i + 1; k < len(cur.Ops); k++ {
					if cur.Ops[k].K == "remove" && cur.Ops[k].Pfx == cur.Ops[i].Pfx && cur.Ops[k].Shape == cur.Ops[i].Shape {
						j = k
						break
					}
				}
				if j < 0 {
					continue
				}
				try.Ops = append(append(append([]op{}, cur.Ops[:i]...), cur.Ops[i+1:j]...), cur.Ops[j+1:]...)
				if !validOps(try) {
					continue
				}
			}
			if v, ok := fires(try); ok {
				cur, best, changed = try, v, true
				if i > len(cur.Ops) {
					i = len(cur.Ops)
				}
			}
		}
	}
	return best, true
}

var (
	shrinkMu sync.Mutex
	shrunk   = map[string]chan struct{}{}
)

func main() {
	vf.Main("C11", "exploration", func(r *vf.Run) {
		r.Rule("PRNG add/remove histories (80 operations) on one add-path Adj-RIB-Out over 6 prefixes with 10 path shapes learned from eBGP neighbours: a base shape, three that differ from it only in attributes the identifier hash does not cover (OTC, an unknown attribute, ATOMIC_AGGREGATE/AGGREGATOR), six that differ in hashed attributes (MED, next hop, communities, large communities, other neighbour, and one carrying NO_ADVERTISE, which is never exported: adding it makes the Adj-RIB-Out drop what it had advertised for the prefix), three of which arrive with a path identifier of their upstream's numbering (two with the same one); in a third of the histories the allocation cursor starts 0-3 steps before the 32 bit wrap-around, in another third it jumps there in mid-history while low identifiers are in use (verif hook); no per-path marker, so one shape on several prefixes is attribute-identical and shares its identifier, and shared identifiers are released in every order; 70% iBGP sessions (paths exported unchanged), the rest eBGP, RS-client and RR-client sessions. distinct_nontrivial = histories in which an identifier was shared by several prefixes while a path was withdrawn and a prefix held two paths that differ only in un-hashed attributes")
		r.Assume("the Adj-RIB-Out is driven with the calls the Loc-RIB makes (AddPath/RemovePath with the Loc-RIB's own path object content)", "a (prefix, path) pair is added at most once before it is removed")
		_, replay := r.Replaying()
		hg := rig.NewHangGuard(replay)
		hg.Short, hg.Long = 0, 60*time.Second
		var mu sync.Mutex
		maxInUse := 0
		report := func(h hist, i int) {
			res, p, hung, stk := rig.RunGuarded(hg, "hist", func() result { return runHist(h) })
			if hung {
				r.Violate(vf.Violation{Clause: "hang", Features: vf.F(), Detail: "a table call never returned; blocked in:\n" + stk, Case: h})
				return
			}
			if p != "" {
				r.Violate(vf.Violation{Clause: "harness-panic", Features: vf.F(), Detail: p, Case: h})
				return
			}
			for _, v := range res.viol {
				sig := v.Signature()
				shrinkMu.Lock()
				done, seen := shrunk[sig]
				if !seen {
					done = make(chan struct{})
					shrunk[sig] = done
				}
				shrinkMu.Unlock()
				if seen {
					<-done
				} else {
					if !replay {
						if sv, ok := shrink(h, sig); ok {
							v = sv
						}
					}
					r.Violate(v)
					close(done)
					continue
				}
				r.Violate(v)
			}
			st := res.st
			r.Eval(st.pairs + st.withdrawals + st.ops)
			r.Count("operations", st.ops)
			r.Count("histories", 1)
			r.Count("path_pairs_compared", st.pairs)
			r.Count("withdrawals_checked", st.withdrawals)
			r.Count("withdrawals_matched_to_the_removed_path", st.opWithdrawals)
			r.Count("withdrawals_while_identifier_shared", st.sharedReleases)
			r.Count("allocation_state_checks", st.stateChecks)
			if st.wrapped {
				r.Count("histories_crossing_the_identifier_wrap_around", 1)
			}
			mu.Lock()
			if st.maxInUse > maxInUse {
				maxInUse = st.maxInUse
			}
			mu.Unlock()
			if st.sharedID && st.sharedReleases > 0 && st.unhashedPair {
				r.Nontrivial(fmt.Sprint(i))
			}
			if i < 2 {
				r.Sample(map[string]any{"session": h.Sess.String(), "n_ops": len(h.Ops), "first_ops": h.Ops[:min(10, len(h.Ops))], "base_shape": h.Shapes[0].Short()})
			}
		}
		if raw, ok := r.Replaying(); ok {
			var h hist
			vf.Decode(raw, &h)
			report(h, 0)
			return
		}
		n := r.N(3000, 120000)
		vf.Parallel(n, 8, func(i int) {
			report(genHist(r.RandN("c11", i), 80), i)
		})
		r.Set("max_identifiers_in_use", maxInUse)
		r.Require("withdrawals_checked", 10000)
		r.Require("withdrawals_while_identifier_shared", 1000)
		r.Require("path_pairs_compared", 10000)
	})
}
