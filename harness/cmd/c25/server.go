package main

import (
	"fmt"
	"math/rand/v2"
	"runtime"
	"sync"
	"time"

	bnet "github.com/bio-routing/bio-rd/net"
	"github.com/bio-routing/bio-rd/protocols/bgp/server"
	"github.com/bio-routing/bio-rd/routingtable/filter"

	"verifharness/internal/conc"
	"verifharness/internal/speaker"
	"verifharness/internal/tbl"
	"verifharness/internal/wire"
)

func serverNames() []string {
	return []string{"server-import-reload-metrics", "server-export-reload", "server-dispose-established", "server-dispose-connect", "server-reconnect-collision", "server-stop-partial-sessions"}
}

func init() { speaker.StepTimeout = 3 * time.Second }

// announce / withdraw one of the workload prefixes on a session as the remote speaker.
func sendRoute(s *speaker.Session, rng *rand.Rand, i int) error {
	n := wire.V4(10, byte(rng.IntN(6)), 0, 0, 16)
	if rng.IntN(3) == 0 {
		return s.SendUpdate(&wire.Update{Withdrawn: []wire.NLRI{n}})
	}
	pa := &wire.PathAttrs{Origin: wire.U8(0), HasASPath: true, NextHop: []byte{192, 0, 2, byte(1 + i%200)}, MED: wire.U32(uint32(i))}
	if s.P.IBGP() {
		pa.LocalPref = wire.U32(100 + uint32(rng.IntN(2))*100)
		pa.ASPath = []wire.Segment{{Type: wire.SegSequence, ASNs: []uint32{64900 + uint32(rng.IntN(3))}}}
	} else {
		pa.ASPath = []wire.Segment{{Type: wire.SegSequence, ASNs: []uint32{s.P.Cfg.PeerAS, 64900 + uint32(rng.IntN(3))}}}
	}
	return s.SendUpdate(&wire.Update{Attrs: pa.Build(s.Neg.SendOpts()), NLRI: []wire.NLRI{n}})
}

// distinct chains (Chain.Equal is not trusted to tell rewrites apart, so they differ in structure)
func srvPolicy(i int) filter.Chain {
	switch i % 4 {
	case 0:
		return speaker.Accept()
	case 1:
		return tbl.PolicySpec{Reject: []string{conc.Pfxs[i%6].String()}}.Chain()
	case 2:
		return tbl.PolicySpec{Reject: []string{conc.Pfxs[i%6].String(), conc.Pfxs[(i+2)%6].String()}, SetMED: wire.U32(uint32(i))}.Chain()
	}
	return append(speaker.SetLocalPref(uint32(100+i)), speaker.Accept()...)
}

// buildServerScenario builds the server-level scenarios (speaker harness); false if the name is unknown.
func buildServerScenario(r *round) bool {
	rg, p := r.rig, r.prog
	switch r.sc.Name {
	case "server-import-reload-metrics", "server-export-reload", "server-dispose-established":
		// live server: three established sessions; updates from the peers, Loc-RIB writes, and
		//   import-reload-metrics: configuration reload of import policies, metrics scrapes, API dumps, one more incoming connection
		//   export-reload:         configuration reload of export policies
		//   dispose-established:   DisposePeer of established peers (and AddPeer again), metrics scrapes
		variant := r.sc.Name
		srv := speaker.NewServer(speaker.ServerConfig{})
		var peers []*speaker.Peer
		var sess []*speaker.Session
		for i, c := range []speaker.PeerConfig{
			{LocalAS: 65000, PeerAS: 65001, IPv4: &speaker.Family{}},
			{LocalAS: 65000, PeerAS: 65000, RRClient: true, IPv4: &speaker.Family{}},
			{LocalAS: 65000, PeerAS: 65002, IPv4: &speaker.Family{AddPathSend: true, MaxPaths: 4}},
		} {
			pr, err := srv.AddPeer(c)
			if err != nil {
				panic(err)
			}
			s, err := pr.EstablishDefault()
			if err != nil {
				r.note("establish_failed", 1)
				fmt.Printf("round %d: establish peer %d: %v\n", r.n, i, err)
			}
			peers, sess = append(peers, pr), append(sess, s)
		}
		r.note("sessions_established", int64(len(sess)))
		feed := func(s *speaker.Session) conc.Worker {
			return conc.Worker{Name: "peer-updates", Fn: func(rng *rand.Rand) {
				for i := 0; i < 30; i++ {
					rg.Op(p, "session.SendUpdate", func() {
						if err := sendRoute(s, rng, i); err != nil {
							r.note("send_failed", 1)
						}
					})
					if i%5 == 0 {
						runtime.Gosched()
					}
				}
				rg.Op(p, "session.Sync", func() {
					if !s.Sync().OK() {
						r.note("sync_failed", 1)
					}
				})
			}}
		}
		loc := srv.RIB(true)
		r.workers = []conc.Worker{feed(sess[0]), feed(sess[1]), feed(sess[2]),
			{Name: "loc-writer", Fn: func(rng *rand.Rand) {
				for i := 0; i < 40; i++ {
					ps := tbl.PathSpec{ID: uint32(1000 + i), LP: 100, ASPath: []tbl.Seg{{ASNs: []uint32{64800}}}, Source: 0x0a0a0001, NextHop: 0x0b000001, EBGP: true, BGPID: 1}
					pfx := conc.Pfxs[rng.IntN(6)]
					rg.Op(p, "locRIB.AddPath", func() { loc.AddPath(pfx, ps.Build()) })
					if rng.IntN(2) == 0 {
						rg.Op(p, "locRIB.RemovePath", func() { loc.RemovePath(pfx, ps.Build()) })
					}
				}
			}},
		}
		reload := func(imp bool) conc.Worker {
			return conc.Worker{Name: "config-reload", Fn: func(rng *rand.Rand) {
				for i := 0; i < 24; i++ {
					pr := peers[rng.IntN(len(peers))]
					c := srvPolicy(rng.IntN(40))
					if imp {
						rg.Op(p, "server.ReplaceImportFilterChain", func() { srv.B.ReplaceImportFilterChain(srv.VRF, pr.Addr, c) })
					} else {
						rg.Op(p, "server.ReplaceExportFilterChain", func() { srv.B.ReplaceExportFilterChain(srv.VRF, pr.Addr, c) })
					}
					runtime.Gosched()
				}
			}}
		}
		metrics := conc.Worker{Name: "metrics", Fn: func(rng *rand.Rand) {
			for i := 0; i < 40; i++ {
				rg.Op(p, "server.Metrics", func() { srv.B.Metrics() })
				pr := peers[rng.IntN(len(peers))]
				rg.Op(p, "server.GetRIBIn/Out.Dump", func() {
					if in := srv.B.GetRIBIn(srv.VRF, pr.Addr, 1, 1); in != nil {
						for _, rt := range in.Dump() {
							_ = rt.ToProto()
						}
					}
					if out := srv.B.GetRIBOut(srv.VRF, pr.Addr, 1, 1); out != nil {
						for _, rt := range out.Dump() {
							_ = rt.ToProto()
						}
					}
				})
				runtime.Gosched()
			}
		}}
		incoming := conc.Worker{Name: "incoming-connection", Fn: func(rng *rand.Rand) {
			for i := 0; i < 2; i++ {
				rg.Op(p, "incoming connection", func() {
					s, err := peers[0].Connect()
					if err != nil {
						r.note("connect_failed", 1)
						return
					}
					s.WaitSUTOpen()
					s.SendOpen(peers[0].DefaultOpen())
				})
			}
		}}
		switch variant {
		case "server-import-reload-metrics":
			r.workers = append(r.workers, reload(true), metrics, incoming)
		case "server-export-reload":
			r.workers = append(r.workers, reload(false))
		case "server-dispose-established":
			r.workers = append(r.workers, metrics, conc.Worker{Name: "disposer", Fn: func(rng *rand.Rand) {
				for _, i := range []int{2, 1} {
					pr := peers[i]
					for k := 0; k < rng.IntN(30); k++ {
						runtime.Gosched()
					}
					if rng.IntN(2) == 0 && sess[i] != nil {
						// the peer went away first: the writes of its connection fail while announcements are queued for it
						c := sess[i].Conn
						rg.Op(p, "peer connection breaks (writes fail)", func() {
							c.FailWrites(nil, rng.IntN(3))
							if c.WaitFailedWrite(300*time.Millisecond, 1) {
								r.note("sender_write_failures", int64(c.FailedWrites()))
								r.note("teardowns_after_failed_writes", 1)
							}
						})
					}
					rg.Op(p, "server.DisposePeer", func() { srv.B.DisposePeer(srv.VRF, pr.Addr) })
					rg.Op(p, "server.AddPeer + establish", func() {
						np, err := srv.AddPeer(speaker.PeerConfig{LocalAS: 65000, PeerAS: pr.Cfg.PeerAS, PeerAddr: pr.Addr, RRClient: pr.Cfg.RRClient, IPv4: &speaker.Family{}})
						if err != nil {
							r.note("re-add_failed", 1)
							return
						}
						if _, err := np.EstablishDefault(); err != nil {
							r.note("re-establish_failed", 1)
						} else {
							r.note("re-established", 1)
						}
					})
				}
			}})
		}
		r.after = func() {
			for _, pr := range peers {
				pr := pr
				rg.Op(p, "server.DisposePeer", func() { srv.B.DisposePeer(srv.VRF, pr.Addr) })
			}
		}
		serverProbes(r, srv)
		return true

	case "seq-server-reload-peer-down":
		// configuration reload (changed import and export policy) for a peer whose session went down, then removal of the peer
		srv := speaker.NewServer(speaker.ServerConfig{})
		var pr *speaker.Peer
		var s *speaker.Session
		add := func(name string, fn func()) { r.steps = append(r.steps, step{name, fn}) }
		add("AddPeer + establish", func() {
			var err error
			if pr, err = srv.AddPeer(speaker.PeerConfig{LocalAS: 65000, PeerAS: 65001, IPv4: &speaker.Family{}}); err != nil {
				panic(err)
			}
			if s, err = pr.EstablishDefault(); err != nil {
				r.note("establish_failed", 1)
			}
		})
		add("reload while established: ReplaceImportFilterChain", func() { srv.B.ReplaceImportFilterChain(srv.VRF, pr.Addr, srvPolicy(1)) })
		add("reload while established: ReplaceExportFilterChain", func() { srv.B.ReplaceExportFilterChain(srv.VRF, pr.Addr, srvPolicy(1)) })
		add("peer sends NOTIFICATION (session down)", func() {
			s.SendNotification(6, 0)
			if !s.Sync().Barrier {
				r.note("sync_failed", 1)
			}
		})
		add("reload while down: ReplaceImportFilterChain", func() { srv.B.ReplaceImportFilterChain(srv.VRF, pr.Addr, srvPolicy(2)) })
		add("reload while down: ReplaceExportFilterChain", func() { srv.B.ReplaceExportFilterChain(srv.VRF, pr.Addr, srvPolicy(2)) })
		add("Metrics while down", func() { srv.B.Metrics() })
		add("DisposePeer while down", func() { srv.B.DisposePeer(srv.VRF, pr.Addr) })
		add("AddPeer + establish again", func() {
			np, err := srv.AddPeer(speaker.PeerConfig{LocalAS: 65000, PeerAS: 65001, PeerAddr: pr.Addr, IPv4: &speaker.Family{}})
			if err != nil {
				r.note("re-add_failed", 1)
				return
			}
			if _, err := np.EstablishDefault(); err != nil {
				r.note("re-establish_failed", 1)
			} else {
				r.note("re-established", 1)
			}
		})
		add("DisposePeer while established", func() { srv.B.DisposePeer(srv.VRF, pr.Addr) })
		serverProbes(r, srv)
		return true

	case "seq-server-write-failure-teardown":
		// the connection of an established session breaks (every write fails, nothing arrives any more) while a route is
		// to be announced on it; then the session leaves Established in each of the ways the FSM offers (the peer's
		// NOTIFICATION, the operator's DisposePeer with the connection dead in both directions or only for writes); the peer is removed, configured again and must establish
		srv := speaker.NewServer(speaker.ServerConfig{})
		loc := srv.RIB(true)
		add := func(name string, fn func()) { r.steps = append(r.steps, step{name, fn}) }
		for i, way := range []string{"NOTIFICATION", "dead connection", "DisposePeer"} {
			i, way := i, way
			var pr *speaker.Peer
			var s *speaker.Session
			ps := tbl.PathSpec{ID: uint32(2000 + i), LP: 100, ASPath: []tbl.Seg{{ASNs: []uint32{64800}}}, Source: 0x0a0a0001, NextHop: 0x0b000001, EBGP: true, BGPID: 1}
			add("AddPeer + establish", func() {
				var err error
				if pr, err = srv.AddPeer(speaker.PeerConfig{LocalAS: 65000, PeerAS: 65001 + uint32(i), IPv4: &speaker.Family{AddPathSend: i == 1, MaxPaths: 4}}); err != nil {
					panic(err)
				}
				if s, err = pr.EstablishDefault(); err != nil {
					r.note("establish_failed", 1)
				}
			})
			add("connection breaks (writes fail)", func() { s.Conn.FailWrites(nil, 0) })
			add("locRIB.AddPath (announcement queued)", func() { loc.AddPath(conc.Pfxs[i], ps.Build()) })
			add("aggregation round runs into the failed write", func() {
				if s.Conn.WaitFailedWrite(2*time.Second, 1) {
					r.note("sender_write_failures", int64(s.Conn.FailedWrites()))
					r.note("teardowns_after_failed_writes", 1)
				}
			})
			add("locRIB.RemovePath (withdrawal fails)", func() { loc.RemovePath(conc.Pfxs[i], ps.Build()) })
			add("locRIB.AddPath (queued after the failure)", func() { loc.AddPath(conc.Pfxs[i+3], ps.Build()) })
			switch way {
			case "NOTIFICATION":
				add("peer sends NOTIFICATION (session down)", func() {
					s.SendNotification(6, 0)
					if !s.Sync().Barrier {
						r.note("sync_failed", 1)
					}
				})
			case "dead connection":
				// bio-rd does not act on a read error in Established (the hold timer ends such a session): the peer is removed
				// while the connection neither delivers nor accepts anything
				add("reads on the connection fail too", func() {
					s.Conn.FailReads(nil)
					if !s.Barrier(speaker.StepTimeout) {
						r.note("sync_failed", 1)
					}
				})
			}
			add("Metrics", func() { srv.B.Metrics() })
			add("DisposePeer after "+way, func() { srv.B.DisposePeer(srv.VRF, pr.Addr) })
			add("AddPeer + establish again", func() {
				np, err := srv.AddPeer(speaker.PeerConfig{LocalAS: 65000, PeerAS: pr.Cfg.PeerAS, PeerAddr: pr.Addr, IPv4: &speaker.Family{}})
				if err != nil {
					r.note("re-add_failed", 1)
					return
				}
				if _, err := np.EstablishDefault(); err != nil {
					r.note("re-establish_failed", 1)
				} else {
					r.note("re-established", 1)
				}
			})
			add("DisposePeer while established", func() { srv.B.DisposePeer(srv.VRF, pr.Addr) })
		}
		serverProbes(r, srv)
		return true

	case "seq-server-dispose-after-collision":
		// two connections of one peer complete the OPEN exchange (connection collision), then the peer is removed
		srv := speaker.NewServer(speaker.ServerConfig{})
		var pr *speaker.Peer
		var s1, s2 *speaker.Session
		add := func(name string, fn func()) { r.steps = append(r.steps, step{name, fn}) }
		add("AddPeer + establish", func() {
			var err error
			if pr, err = srv.AddPeer(speaker.PeerConfig{LocalAS: 65000, PeerAS: 65001, IPv4: &speaker.Family{}}); err != nil {
				panic(err)
			}
			if s1, err = pr.EstablishDefault(); err != nil {
				r.note("establish_failed", 1)
			}
		})
		add("second connection completes OPEN", func() {
			var err error
			if s2, err = pr.Connect(); err != nil {
				r.note("connect_failed", 1)
				return
			}
			s2.WaitSUTOpen()
			s2.SendOpen(pr.DefaultOpen())
			s2.SendKeepalive()
			s2.Conn.WaitReaderIdle(time.Second)
			time.Sleep(20 * time.Millisecond)
			for _, f := range pr.FSMs() {
				r.note("fsm_state_"+f.State, 1)
			}
		})
		add("Metrics", func() { srv.B.Metrics() })
		add("DisposePeer", func() { srv.B.DisposePeer(srv.VRF, pr.Addr) })
		add("AddPeer + establish again", func() {
			np, err := srv.AddPeer(speaker.PeerConfig{LocalAS: 65000, PeerAS: 65001, PeerAddr: pr.Addr, IPv4: &speaker.Family{}})
			if err != nil {
				r.note("re-add_failed", 1)
				return
			}
			if _, err := np.EstablishDefault(); err != nil {
				r.note("re-establish_failed", 1)
			} else {
				r.note("re-established", 1)
			}
		})
		_ = s1
		serverProbes(r, srv)
		return true

	case "server-reconnect-collision":
		// Connection collisions of peers bio-rd connects to itself (active peers: one long-lived outgoing FSM). The outgoing
		// FSM had 0..2 earlier sessions (ended by the peer's NOTIFICATION, an automatic stop or an operator stop) and is
		// in OpenSent again on a new connection; the peer has connected to bio-rd as well; the OPENs of both connections
		// arrive together, next to a configuration reload of the peers' import policies and metrics scrapes. Router ids on
		// both sides of the peers' identifiers (either connection may be the one to keep). Afterwards the peers are removed,
		// configured again (passive) and must establish.
		hi := r.n%2 == 1
		cfg := speaker.ServerConfig{}
		if hi {
			cfg.RouterID = 0x0aff0001 // higher than every peer's identifier (10.9.x.y)
		}
		srv := speaker.NewServer(cfg)
		const npeers = 3
		type pair struct {
			pr      *speaker.Peer
			out, in *speaker.Session
			hist    int
		}
		var pairs []*pair
		outgoing := func(pr *speaker.Peer) (*speaker.Session, error) {
			if err := server.VerifFSMEvent(srv.B, srv.VRF, pr.Addr, 0, server.ManualStart, speaker.StepTimeout); err != nil {
				return nil, err
			}
			return pr.DeliverOutgoing()
		}
		idle := func(s *speaker.Session) bool {
			_, ok := s.WaitState(speaker.StepTimeout, func(i server.VerifFSMInfo) bool { return i.State == "idle" })
			return ok
		}
		for i := 0; i < npeers; i++ {
			pc := speaker.PeerConfig{LocalAS: 65000, PeerAS: 65020 + uint32(i), Active: true, IPv4: &speaker.Family{}}
			if i == 1 {
				pc.PeerAS = 65000
			}
			pr, err := srv.AddPeer(pc)
			if err != nil {
				panic(err)
			}
			pp := &pair{pr: pr, hist: (r.n/2 + i) % 3}
			ok := true
			for h := 0; h < pp.hist && ok; h++ {
				s, err := outgoing(pr)
				if err == nil {
					err = s.Establish(pr.DefaultOpen())
				}
				if err != nil {
					r.note("establish_failed", 1)
					fmt.Printf("round %d: earlier session of peer %d: %v\n", r.n, i, err)
					ok = false
					break
				}
				switch r.rng.IntN(3) {
				case 0:
					s.SendNotification(6, 0)
				case 1:
					s.Event(server.AutomaticStop, speaker.StepTimeout)
				case 2:
					s.Event(server.ManualStop, speaker.StepTimeout)
				}
				if !idle(s) {
					r.note("not_idle_after_session_end", 1)
					ok = false
				}
			}
			if !ok {
				continue
			}
			if pp.out, err = outgoing(pr); err == nil {
				_, err = pp.out.WaitSUTOpen()
			}
			if err != nil {
				r.note("connect_failed", 1)
				fmt.Printf("round %d: outgoing connection of peer %d: %v\n", r.n, i, err)
				continue
			}
			if pp.in, err = pr.Connect(); err == nil {
				_, err = pp.in.WaitSUTOpen()
			}
			if err != nil {
				r.note("connect_failed", 1)
				fmt.Printf("round %d: incoming connection of peer %d: %v\n", r.n, i, err)
				continue
			}
			pairs = append(pairs, pp)
			r.note(fmt.Sprintf("collisions_out_fsm_with_%d_earlier_sessions", pp.hist), 1)
			if pp.hist > 0 {
				r.note("reconnect_collisions", 1)
				if !hi {
					r.note("reconnect_collisions_peer_id_higher", 1)
				}
			}
		}
		var ws []conc.Worker
		for _, pp := range pairs {
			pp := pp
			for _, s := range []*speaker.Session{pp.out, pp.in} {
				s := s
				ws = append(ws, conc.Worker{Name: "open-sender", Fn: func(rng *rand.Rand) {
					for k := rng.IntN(3); k > 0; k-- {
						runtime.Gosched()
					}
					rg.Op(p, "peer sends OPEN", func() { s.SendOpen(pp.pr.DefaultOpen()) })
					rg.Op(p, "peer sends KEEPALIVE", func() { s.SendKeepalive() })
					rg.Op(p, "session.Sync", func() { s.Conn.WaitReaderIdle(300 * time.Millisecond) })
				}})
			}
		}
		ws = append(ws, conc.Worker{Name: "config-reload", Fn: func(rng *rand.Rand) {
			for i := 0; i < 40 && len(pairs) > 0; i++ {
				pr := pairs[rng.IntN(len(pairs))].pr
				c := srvPolicy(rng.IntN(40))
				rg.Op(p, "server.ReplaceImportFilterChain", func() { srv.B.ReplaceImportFilterChain(srv.VRF, pr.Addr, c) })
				runtime.Gosched()
			}
		}}, conc.Worker{Name: "metrics", Fn: func(rng *rand.Rand) {
			for i := 0; i < 20; i++ {
				rg.Op(p, "server.Metrics", func() { srv.B.Metrics() })
				runtime.Gosched()
			}
		}})
		r.workers = ws
		r.after = func() {
			for _, pp := range pairs {
				pp := pp
				for _, s := range []*speaker.Session{pp.out, pp.in} {
					if !s.Conn.IsClosed() {
						r.note("collision_connections_kept", 1)
					} else {
						r.note("collision_connections_closed", 1)
					}
				}
				rg.Op(p, "server.DisposePeer", func() { srv.B.DisposePeer(srv.VRF, pp.pr.Addr) })
			}
		}
		r.probes = append(r.probes, step{"AddPeer again + establish", func() {
			for _, pp := range pairs {
				np, err := srv.AddPeer(speaker.PeerConfig{LocalAS: 65000, PeerAS: pp.pr.Cfg.PeerAS, PeerAddr: pp.pr.Addr, IPv4: &speaker.Family{}})
				if err != nil {
					r.note("re-add_failed", 1)
					continue
				}
				if _, err := np.EstablishDefault(); err != nil {
					r.note("re-establish_failed", 1)
				} else {
					r.note("re-established", 1)
				}
			}
		}})
		serverProbes(r, srv)
		return true

	case "server-stop-partial-sessions":
		// Sessions that are not (or not completely) up are ended and their peers removed: peers configured with IPv4 and
		// IPv6 unicast whose neighbor's OPEN leaves out one of the multiprotocol capabilities (Established with a configured
		// family that was not negotiated), a completely negotiated dual-family peer, passive peers whose connection is in
		// OpenSent (bio-rd's OPEN sent, the neighbor silent) and an active peer in OpenSent. Every session is ended by an
		// operator stop, an automatic stop or the neighbor's NOTIFICATION / by nothing, then the peer is disposed (which
		// hands a stop event to the FSM again: it blocks if the FSM never left the handler of the first one), next to
		// metrics scrapes; afterwards the peers are configured again and must establish.
		srv := speaker.NewServer(speaker.ServerConfig{})
		type target struct {
			pr    *speaker.Peer
			s     *speaker.Session
			estab bool
		}
		var tg []*target
		without := func(o *wire.Open, f wire.Family) *wire.Open {
			drop := wire.CapMP(f)
			var caps []wire.Capability
			for _, c := range o.Caps {
				if c.Code == drop.Code && string(c.Value) == string(drop.Value) {
					continue
				}
				caps = append(caps, c)
			}
			o.Caps = caps
			return o
		}
		for i := 0; i < 3; i++ {
			pc := speaker.PeerConfig{LocalAS: 65000, PeerAS: 65030 + uint32(i), IPv4: &speaker.Family{}, IPv6: &speaker.Family{}}
			if i == 1 {
				pc.PeerAS = 65000
			}
			pr, err := srv.AddPeer(pc)
			if err != nil {
				panic(err)
			}
			s, err := pr.Connect()
			if err == nil {
				o := pr.DefaultOpen()
				if i < 2 {
					o = without(o, wire.IPv6Unicast)
				}
				err = s.Establish(o)
			}
			if err != nil {
				r.note("establish_failed", 1)
				fmt.Printf("round %d: establish dual-family peer %d: %v\n", r.n, i, err)
				continue
			}
			if i < 2 {
				r.note("established_with_unnegotiated_family", 1)
			}
			tg = append(tg, &target{pr, s, true})
		}
		for i := 0; i < 3; i++ {
			pr, err := srv.AddPeer(speaker.PeerConfig{LocalAS: 65000, PeerAS: 65040 + uint32(i), IPv4: &speaker.Family{}})
			if err != nil {
				panic(err)
			}
			s, err := pr.Connect()
			if err == nil {
				_, err = s.WaitSUTOpen()
			}
			if err != nil {
				r.note("connect_failed", 1)
				continue
			}
			r.note("sessions_in_opensent", 1)
			tg = append(tg, &target{pr, s, false})
		}
		if pr, err := srv.AddPeer(speaker.PeerConfig{LocalAS: 65000, PeerAS: 65049, Active: true, IPv4: &speaker.Family{}}); err == nil {
			err = server.VerifFSMEvent(srv.B, srv.VRF, pr.Addr, 0, server.ManualStart, speaker.StepTimeout)
			var s *speaker.Session
			if err == nil {
				s, err = pr.DeliverOutgoing()
			}
			if err == nil {
				_, err = s.WaitSUTOpen()
			}
			if err != nil {
				r.note("connect_failed", 1)
			} else {
				r.note("sessions_in_opensent", 1)
				tg = append(tg, &target{pr, s, false})
			}
		}
		var ws []conc.Worker
		for _, t := range tg {
			t := t
			ws = append(ws, conc.Worker{Name: "stopper", Fn: func(rng *rand.Rand) {
				how := rng.IntN(4)
				for k := 0; k < rng.IntN(20); k++ {
					runtime.Gosched()
				}
				switch {
				case how == 0:
					rg.Op(p, "session ManualStop", func() { t.s.Event(server.ManualStop, speaker.StepTimeout) })
				case how == 1:
					rg.Op(p, "session AutomaticStop", func() { t.s.Event(server.AutomaticStop, speaker.StepTimeout) })
				case how == 2 && t.estab:
					rg.Op(p, "peer sends NOTIFICATION", func() { t.s.SendNotification(6, 2) })
				}
				if t.estab {
					r.note("established_sessions_ended", 1)
				} else {
					r.note("opensent_sessions_ended", 1)
				}
				rg.Op(p, "server.DisposePeer", func() { srv.B.DisposePeer(srv.VRF, t.pr.Addr) })
			}})
		}
		ws = append(ws, conc.Worker{Name: "metrics", Fn: func(rng *rand.Rand) {
			for i := 0; i < 30; i++ {
				rg.Op(p, "server.Metrics", func() { srv.B.Metrics() })
				runtime.Gosched()
			}
		}})
		r.workers = ws
		r.probes = append(r.probes, step{"sessions ended: connections closed", func() {
			// a session whose peer was disposed is over when bio-rd has closed its connection
			deadline := time.Now().Add(speaker.StepTimeout)
			for _, t := range tg {
				for !t.s.Conn.IsClosed() && time.Now().Before(deadline) {
					time.Sleep(time.Millisecond)
				}
				if t.s.Conn.IsClosed() {
					r.note("connections_closed_after_dispose", 1)
				} else {
					r.note("connections_left_open_after_dispose", 1)
				}
			}
		}})
		r.probes = append(r.probes, step{"AddPeer again + establish", func() {
			for _, t := range tg {
				cfg := t.pr.Cfg
				cfg.PeerAddr, cfg.Active = t.pr.Addr, false
				np, err := srv.AddPeer(cfg)
				if err != nil {
					r.note("re-add_failed", 1)
					continue
				}
				if _, err := np.EstablishDefault(); err != nil {
					r.note("re-establish_failed", 1)
				} else {
					r.note("re-established", 1)
				}
			}
		}})
		serverProbes(r, srv)
		return true
	case "server-dispose-connect":
		// DisposePeer while connections of the same peer are at every stage of the handshake and their OPENs arrive,
		// next to metrics scrapes; afterwards the peer is configured again and must establish.
		srv := speaker.NewServer(speaker.ServerConfig{})
		const npeers, nconn = 3, 5
		var peers []*speaker.Peer
		conns := make([][]*speaker.Session, npeers)
		for i := 0; i < npeers; i++ {
			pr, err := srv.AddPeer(speaker.PeerConfig{LocalAS: 65000, PeerAS: 65010 + uint32(i), IPv4: &speaker.Family{}})
			if err != nil {
				panic(err)
			}
			peers = append(peers, pr)
			if i == 0 {
				if _, err := pr.EstablishDefault(); err != nil {
					r.note("establish_failed", 1)
				}
			}
			for j := 0; j < nconn; j++ {
				s, err := pr.Connect()
				if err != nil {
					r.note("connect_failed", 1)
					continue
				}
				s.WaitSUTOpen()
				conns[i] = append(conns[i], s)
			}
		}
		var ws []conc.Worker
		for i := range peers {
			i := i
			ws = append(ws, conc.Worker{Name: "open-sender", Fn: func(rng *rand.Rand) {
				for _, s := range conns[i] {
					s := s
					rg.Op(p, "peer sends OPEN", func() { s.SendOpen(peers[i].DefaultOpen()) })
				}
				for _, s := range conns[i] {
					s := s
					rg.Op(p, "peer sends KEEPALIVE", func() { s.SendKeepalive() })
				}
			}})
			ws = append(ws, conc.Worker{Name: "disposer", Fn: func(rng *rand.Rand) {
				for k := 0; k < rng.IntN(40); k++ {
					runtime.Gosched()
				}
				rg.Op(p, "server.DisposePeer", func() { srv.B.DisposePeer(srv.VRF, peers[i].Addr) })
			}})
		}
		ws = append(ws, conc.Worker{Name: "metrics", Fn: func(rng *rand.Rand) {
			for i := 0; i < 30; i++ {
				rg.Op(p, "server.Metrics", func() { srv.B.Metrics() })
				runtime.Gosched()
			}
		}})
		r.workers = ws
		var mu sync.Mutex
		r.probes = append(r.probes, step{"AddPeer again + establish", func() {
			for _, pr := range peers {
				np, err := srv.AddPeer(speaker.PeerConfig{LocalAS: 65000, PeerAS: pr.Cfg.PeerAS, PeerAddr: pr.Addr, IPv4: &speaker.Family{}})
				if err != nil {
					r.note("re-add_failed", 1)
					continue
				}
				if _, err := np.EstablishDefault(); err != nil {
					mu.Lock()
					r.note("re-establish_failed", 1)
					mu.Unlock()
				} else {
					r.note("re-established", 1)
				}
			}
		}})
		serverProbes(r, srv)
		return true
	}
	return false
}

func serverProbes(r *round, srv *speaker.Server) {
	loc := srv.RIB(true)
	pfx := bnet.NewPfx(bnet.IPv4(0x0afe0000), 24).Ptr()
	add := func(name string, fn func()) { r.probes = append(r.probes, step{name, fn}) }
	add("locRIB.Dump", func() { loc.Dump() })
	add("locRIB.AddPath", func() { loc.AddPath(pfx, tbl.PathSpec{ID: 0xfffe, LP: 100, ASPath: []tbl.Seg{{ASNs: []uint32{64800}}}, Source: 0x0a0a0001, NextHop: 0x0b000001, EBGP: true}.Build()) })
	add("locRIB.Register", func() { c := conc.NewClient("probe"); loc.Register(c); loc.Unregister(c) })
	add("server.Metrics", func() { srv.B.Metrics() })
	add("server.GetPeers", func() { srv.B.GetPeers() })
}
