// C25: table operations and session control never deadlock.
//
// Oracle (no-progress, not a deadline): every scenario counts completed operations; a watchdog samples the counter and
// takes a dump of all goroutines at every sample. Counter unchanged over three samples 2 s apart AND a worker goroutine
// parked in sync.(*Mutex).Lock / RWMutex.(R)Lock / a channel operation directly below a bio-rd frame in all three dumps
// => deadlock (the witness is the parked goroutines with their bio-rd frames). Unchanged counter without such a
// goroutine => inconclusive. Every scenario runs in a child process (this binary re-executed with C25_CHILD set), so a
// wedged scenario is killed and the next one still runs. After every round a probe (Dump, AddPath, Register on each
// table) checks under the same watchdog that no table was left unusable.
package main

import (
	"encoding/json"
	"fmt"
	"os"
	"os/exec"
	"path/filepath"
	"runtime"
	"sort"
	"strings"
	"sync"
	"time"

	"verifharness/internal/conc"
	"verifharness/internal/vf"
)

// Scenario is what a child runs (written to disk before the child starts).
type Scenario struct {
	Name       string `json:"name"`
	Sequential bool   `json:"sequential,omitempty"`
	Procs      int    `json:"procs"`
	Rounds     int    `json:"rounds"`
	Start      int    `json:"start,omitempty"` // first round to run
	Seed       uint64 `json:"seed"`
	SampleMS   int    `json:"sample_ms"` // watchdog sampling interval
}

// Result is what a child reports.
type Result struct {
	Scenario   Scenario         `json:"scenario"`
	RoundsDone int              `json:"rounds_done"`
	Round      int              `json:"round"` // round in which the verdict fell
	Phase      string           `json:"phase"` // workload | probe
	Step       string           `json:"step,omitempty"`
	Verdict    conc.Verdict     `json:"verdict"`
	Ops        map[string]int64 `json:"ops"`
	Goroutines int64            `json:"goroutines"`
	Contended  int              `json:"contended_rounds"` // rounds in which >= 2 operations were inside bio-rd at the same time
	MaxInfl    int64            `json:"max_inflight"`
	Probes     int              `json:"probes"`
	Panics     []conc.PanicRec  `json:"panics,omitempty"`
	Notes      map[string]int64 `json:"notes,omitempty"`
	Leaks      []Leak           `json:"leaks,omitempty"`
}

// Leak is a set of bio-rd goroutines (not workers) that stayed parked at the same send / lock site after the scenario
// had ended, in three dumps 2 s apart.
type Leak struct {
	Site    string `json:"site"`
	Count   int    `json:"count"`
	Example string `json:"example"`
}

func main() {
	if f := os.Getenv("C25_CHILD"); f != "" {
		childMain(f, os.Getenv("C25_RESULT"))
		return
	}
	vf.Main("C25", "exploration", parent)
}

// ---------------------------------------------------------------------------------------------------------------
// parent

type job struct {
	sc  Scenario
	res *Result
	err string // infrastructure problem (child killed by the wall-clock watchdog, no result)
	out string
	// the child process died of a panic / fatal error in a bio-rd goroutine
	crashSite  string
	crashText  string
	crashRound int
}

func workDir(r *vf.Run) string {
	base := filepath.Join(vf.Root, "bin", "c25work")
	if es, err := os.ReadDir(base); err == nil {
		for _, e := range es { // keep the work directories of recent runs only
			if fi, err := e.Info(); err == nil && time.Since(fi.ModTime()) > 30*time.Minute {
				os.RemoveAll(filepath.Join(base, e.Name()))
			}
		}
	}
	d := filepath.Join(base, fmt.Sprintf("seed%d-%s-%d", r.Seed, r.Tier, os.Getpid()))
	os.MkdirAll(d, 0o755)
	return d
}

func runChild(dir string, idx int, sc Scenario, wall time.Duration) job {
	j := job{sc: sc}
	scf := filepath.Join(dir, fmt.Sprintf("%03d-%s-p%d-r%d.scenario.json", idx, sc.Name, sc.Procs, sc.Start))
	resf := strings.TrimSuffix(scf, ".scenario.json") + ".result.json"
	b, _ := json.MarshalIndent(sc, "", " ")
	if err := os.WriteFile(scf, b, 0o644); err != nil {
		j.err = err.Error()
		return j
	}
	exe, _ := os.Executable()
	cmd := exec.Command(exe)
	cmd.Env = append(os.Environ(), "C25_CHILD="+scf, "C25_RESULT="+resf)
	logf, _ := os.Create(strings.TrimSuffix(scf, ".scenario.json") + ".log")
	cmd.Stdout, cmd.Stderr = logf, logf
	if err := cmd.Start(); err != nil {
		j.err = err.Error()
		return j
	}
	done := make(chan error, 1)
	go func() { done <- cmd.Wait() }()
	select {
	case err := <-done:
		if err != nil {
			j.err = "child exited: " + err.Error()
		}
	case <-time.After(wall):
		cmd.Process.Signal(os.Interrupt)
		cmd.Process.Kill()
		<-done
		j.err = fmt.Sprintf("child killed by the wall-clock watchdog after %v", wall)
	}
	logf.Close()
	raw, err := os.ReadFile(resf)
	if err == nil {
		var res Result
		if json.Unmarshal(raw, &res) == nil {
			j.res = &res
			if j.err != "" && res.Verdict.Kind != "" {
				j.err = "" // the child reported before it was stopped
			}
		}
	}
	if j.res == nil && j.err == "" {
		j.err = "child wrote no result"
	}
	if j.err != "" {
		if lb, e := os.ReadFile(logf.Name()); e == nil {
			txt := string(lb)
			if i := strings.Index(txt, "panic: "); i >= 0 || strings.Contains(txt, "fatal error: ") {
				if i < 0 {
					i = strings.Index(txt, "fatal error: ")
				}
				j.crashText = txt[i:]
				if len(j.crashText) > 4000 {
					j.crashText = j.crashText[:4000]
				}
				j.crashSite = panicSite(j.crashText)
				if rb, e := os.ReadFile(strings.TrimSuffix(scf, ".scenario.json") + ".rounds"); e == nil {
					f := strings.Fields(string(rb))
					if len(f) > 0 {
						fmt.Sscan(f[len(f)-1], &j.crashRound)
					}
				}
			}
			if len(lb) > 3000 {
				lb = lb[len(lb)-3000:]
			}
			j.out = string(lb)
		}
	}
	return j
}

func parent(r *vf.Run) {
	r.Rule("every scenario = fresh tables per round, workers standing for the goroutines bio-rd itself runs concurrently (FSM goroutines feeding Adj-RIB-Ins, static/other-protocol writers of the Loc-RIB, configuration reload replacing import/export policies, RIS observers registering/unregistering/refreshing, sessions coming up and going down with started update senders, API/metrics readers, LocRIB.Dispose with late registration, a peer that stops reading (writes block) or goes away (writes fail) while announcements are queued, followed by session teardown / DisposePeer, connection collisions of active peers whose long-lived outgoing FSM had 0-2 earlier sessions and is in OpenSent again while the peer's own connection delivers its OPEN at the same time, router id above and below the peers' identifiers; sessions that are not completely up being ended: dual-family peers Established with IPv6 unicast configured but left out of the neighbor's OPEN, passive and active peers in OpenSent with a silent neighbor, each ended by an operator stop / automatic stop / the neighbor's NOTIFICATION / nothing and then DisposePeer, which must return, bio-rd must close the connection within 3 s (clause session-stop-incomplete, reconfirmed by replays) and the peers must establish again) with PRNG operation lists, run at GOMAXPROCS 1,2,4,16 in a child process under the no-progress watchdog; after every round a probe (Dump, AddPath, Register+Unregister on every table). Before that a single-goroutine pre-pass runs each lock-then-call-out sequence in order. distinct_nontrivial = (scenario, GOMAXPROCS, round) triples in which at least two operations were inside bio-rd at the same time (in-flight gauge) and the round and its probe completed")
	r.Assume("a goroutine counts as parked in bio-rd when its wait reason is a mutex/rwmutex/channel operation and its innermost non-runtime frame is bio-rd code",
		"lock owners are taken from the receiver types of the frames (classification of the witness only; the verdict needs none of it)",
		"a peer connection may block writes for a while but accepts them again (a connection that blocks for ever is outside the statement); a connection may also fail every write",
		"active peers: a goroutine parked in FSM.tcpConnect waits for the TCP connector, which holds a failed dial for 30 s and then takes it; the after-scenario check for goroutines blocked for ever is therefore not applied to server-reconnect-collision (the no-progress oracle is)",
		"a listed operation that panics instead of returning has not completed: judged (clause panic) in the deterministic pre-pass; panics that only show under concurrency, and panics of readers, are consequences of unsynchronised accesses, counted here and judged by C26",
		"static routes are not offered to route-reflector-client sessions with a started update sender (the sender goroutine crashes in the CLUSTER_LIST serializer, a C09 finding, and would take the child down every round)")
	r.NonDeterministic("deadlock")
	r.NonDeterministic("table-unusable")
	r.NonDeterministic("crash")
	r.NonDeterministic("goroutine-blocked-forever")

	sample := 2000
	dir := workDir(r)
	defer func() {
		if r.Violations() == 0 {
			os.RemoveAll(dir)
		}
	}()

	if raw, ok := r.Replaying(); ok {
		var sc Scenario
		vf.Decode(raw, &sc)
		sc.Start = 0
		if !sc.Sequential {
			sc.Rounds *= 5
		}
		j := runChild(dir, 0, sc, 3*time.Minute)
		judge(r, j)
		return
	}

	var scs []Scenario
	for _, n := range seqNames() {
		scs = append(scs, Scenario{Name: n, Sequential: true, Procs: 2, Rounds: 1, Seed: uint64(r.Seed), SampleMS: sample})
	}
	rounds := r.N(40, 3000)
	for _, n := range append(concNames(), serverNames()...) {
		for _, p := range []int{1, 2, 4, 16} {
			rn := rounds
			if strings.HasPrefix(n, "server-") { // real handshakes: ~0.2 s per round
				rn = r.N(8, 600)
			}
			if n == "server-reconnect-collision" { // ~40 ms per round, three collisions each
				rn = r.N(40, 1500)
			}
			scs = append(scs, Scenario{Name: n, Procs: p, Rounds: rn, Seed: uint64(r.Seed)*1000003 + uint64(p), SampleMS: sample})
		}
	}
	restarts := r.N(1, 5)
	wall := time.Duration(r.N(60, 900)) * time.Second

	var mu sync.Mutex
	var jobs []job
	vf.Parallel(len(scs), 8, func(i int) {
		sc := scs[i]
		for attempt := 0; ; attempt++ {
			j := runChild(dir, i, sc, wall)
			mu.Lock()
			jobs = append(jobs, j)
			mu.Unlock()
			// continue behind a wedged / crashed round
			next := -1
			if j.res != nil && j.res.Verdict.Kind == "deadlock" {
				next = j.res.Round + 1
			} else if j.res == nil && j.crashSite != "" {
				next = j.crashRound + 1
			}
			if next < 0 || sc.Sequential || attempt >= restarts || next >= sc.Rounds {
				break
			}
			sc.Start = next
		}
	})
	sort.Slice(jobs, func(a, b int) bool {
		x, y := jobs[a].sc, jobs[b].sc
		if x.Name != y.Name {
			return x.Name < y.Name
		}
		if x.Procs != y.Procs {
			return x.Procs < y.Procs
		}
		return x.Start < y.Start
	})
	ops := map[string]int64{}
	verdicts := map[string]int{}
	procsSeen := map[int]bool{}
	for _, j := range jobs {
		judge(r, j)
		if j.res != nil {
			for k, v := range j.res.Ops {
				if strings.HasPrefix(k, "seq.") {
					k = "sequential pre-pass steps"
				}
				ops[k] += v
			}
			k := j.res.Verdict.Kind
			if k == "" {
				k = "completed"
			}
			verdicts[k]++
			procsSeen[j.sc.Procs] = true
		}
	}
	var cp []string
	concPanics.Range(func(k, _ any) bool { cp = append(cp, k.(string)); return true })
	sort.Strings(cp)
	if len(cp) > 0 {
		r.Set("panic_sites_under_concurrency", cp)
	}
	r.Set("operations_by_kind", ops)
	r.Set("children_by_verdict", verdicts)
	var pl []int
	for p := range procsSeen {
		pl = append(pl, p)
	}
	sort.Ints(pl)
	r.Set("gomaxprocs", pl)
	r.Set("scenarios", append(append(seqNames(), concNames()...), serverNames()...))
	r.Require("operations", int64(r.N(50000, 2000000)))
	r.Require("probes_completed", int64(r.N(400, 20000)))
	// the fault-then-teardown and reconnect-collision cases must really have happened
	r.Require("sender_write_failures", int64(r.N(50, 1000)))
	r.Require("teardowns_after_failed_writes", int64(r.N(20, 400)))
	r.Require("reconnect_collisions_peer_id_higher", int64(r.N(60, 2000)))
	r.Require("established_with_unnegotiated_family", int64(r.N(40, 3000)))
	r.Require("opensent_sessions_ended", int64(r.N(80, 6000)))
	r.Require("connections_closed_after_dispose", int64(r.N(150, 10000)))
	r.Watchdog("session-stop-incomplete")
}

// judge turns a child's report into evidence and violations.
func judge(r *vf.Run, j job) {
	if j.res == nil && j.crashSite != "" {
		cs := j.sc
		cs.Start = 0
		r.Count("children", 1)
		r.Violate(vf.Violation{Clause: "crash", Features: vf.F("where", j.crashSite), Case: cs,
			Detail: fmt.Sprintf("scenario %s GOMAXPROCS=%d round %d: the process died in a bio-rd goroutine:\n%s", j.sc.Name, j.sc.Procs, j.crashRound, j.crashText)})
		return
	}
	if j.res == nil {
		r.Inconclusive(fmt.Sprintf("scenario %s procs=%d: %s\n%s", j.sc.Name, j.sc.Procs, j.err, j.out))
		return
	}
	res := j.res
	var total int64
	for _, v := range res.Ops {
		total += v
	}
	r.Count("operations", int(total))
	r.Count("rounds_completed", res.RoundsDone)
	r.Count("probes_completed", res.Probes)
	r.Count("goroutines_started", int(res.Goroutines))
	r.Count("children", 1)
	r.Max("max_operations_in_flight", res.MaxInfl)
	r.Eval(res.RoundsDone + res.Probes)
	for i := 0; i < res.Contended; i++ {
		r.Nontrivial(fmt.Sprintf("%s/%d/%d/%d", res.Scenario.Name, res.Scenario.Procs, res.Scenario.Start, i))
	}
	for k, v := range res.Notes {
		r.Count(k, int(v))
	}
	if r.WantSample() && res.Verdict.Kind == "" && !res.Scenario.Sequential {
		r.Sample(map[string]any{"scenario": res.Scenario, "rounds_done": res.RoundsDone, "ops": res.Ops, "contended_rounds": res.Contended})
	}
	cs := res.Scenario
	cs.Start = 0
	if n := res.Notes["connections_left_open_after_dispose"]; n > 0 {
		r.Violate(vf.Violation{Clause: "session-stop-incomplete", Features: vf.F("scenario", res.Scenario.Name), Case: cs,
			Detail: fmt.Sprintf("scenario %s GOMAXPROCS=%d: %d session(s) were stopped (operator stop / automatic stop / NOTIFICATION, then DisposePeer returned) but bio-rd had not closed their connection %v later: the FSM never finished handling the stop", res.Scenario.Name, res.Scenario.Procs, n, speakerStepTimeout)})
	}
	for _, p := range res.Panics {
		if readerKinds[p.Kind] {
			// readers are not among the operations the statement lists; their crashes are consequences of unsynchronised
			// reads (C26) and are only counted here
			r.Count("reader_panics_(C26)", p.Count)
			continue
		}
		op := strings.TrimPrefix(p.Kind, "seq.")
		if !res.Scenario.Sequential {
			// a panic that only shows under concurrency is the consequence of an unsynchronised access (C26 judges
			// those); the deterministic ones are found, and judged, in the sequential pre-pass
			r.Count("panics_under_concurrency_(not_judged_here)", p.Count)
			concPanics.Store(p.Kind+" @ "+p.Site, true)
			continue
		}
		op = res.Scenario.Name + ": " + op
		for i := 0; i < p.Count; i++ {
			r.Violate(vf.Violation{Clause: "panic", Features: vf.F("where", p.Site), Detail: fmt.Sprintf("scenario %s, operation %s panicked instead of completing (bio-rd does not recover: the process would have died): %s", res.Scenario.Name, op, p.Text), Case: cs})
		}
	}
	for _, l := range res.Leaks {
		r.Count("goroutines_left_blocked", l.Count)
		r.Violate(vf.Violation{Clause: "goroutine-blocked-forever", Features: vf.F("at", l.Site), Case: cs,
			Detail: fmt.Sprintf("scenario %s GOMAXPROCS=%d: after the scenario ended %d bio-rd goroutine(s) stayed parked at %s in three dumps %d ms apart (nothing is left that could wake them): %s",
				res.Scenario.Name, res.Scenario.Procs, l.Count, l.Site, res.Scenario.SampleMS, l.Example)})
	}
	switch res.Verdict.Kind {
	case "":
	case "deadlock":
		a := res.Verdict.Analysis
		clause := "deadlock"
		if res.Phase == "probe" {
			clause = "table-unusable"
		}
		f := vf.F("kind", a.Kind, "locks", strings.Join(a.Locks, ","))
		if a.Inverting != "" {
			f["inverting_call"] = a.Inverting
		}
		if res.Scenario.Sequential {
			clause = "sequential-wedge"
			f = vf.F("sequence", res.Scenario.Name, "step", res.Step, "locks", strings.Join(a.Locks, ","))
		}
		r.Violate(vf.Violation{Clause: clause, Features: f, Case: cs,
			Detail: fmt.Sprintf("scenario %s GOMAXPROCS=%d round %d phase %s%s: progress counter unchanged at %d operations over 3 samples %d ms apart with workers parked inside bio-rd in all 3 dumps.\nwaiting sites: %s\ncalls: %s\n%s",
				res.Scenario.Name, res.Scenario.Procs, res.Round, res.Phase, stepText(res.Step), res.Verdict.Ops, res.Scenario.SampleMS, strings.Join(a.Sites, "; "), strings.Join(a.Edges, "; "), res.Verdict.Witness)})
	default:
		r.Inconclusive(fmt.Sprintf("scenario %s procs=%d round %d: no progress but no worker parked inside bio-rd (%s)", res.Scenario.Name, res.Scenario.Procs, res.Round, res.Verdict.Kind))
	}
}

func stepText(s string) string {
	if s == "" {
		return ""
	}
	return " step " + s
}

var concPanics sync.Map

const speakerStepTimeout = 3 * time.Second // = speaker.StepTimeout set in server.go

var readerKinds = map[string]bool{"locRIB.Dump": true, "locRIB.LPM": true, "locRIB.Get": true, "locRIB.GetLonger": true, "adjRIBIn.Dump": true, "adjRIBOut.Dump": true,
	"server.Metrics": true, "server.GetRIBIn/Out.Dump": true, "counts": true, "adjRIBIn.Get/LPM": true, "adjRIBOut.Get/LPM": true, "locRIB.ContainsPfxPath": true}

// panicSite is the innermost bio-rd function of a panic's stack.
func panicSite(p string) string {
	for _, l := range strings.Split(p, "\n") {
		if strings.HasPrefix(l, "github.com/bio-routing/bio-rd/") {
			if i := strings.LastIndex(l, "("); i > 0 {
				l = l[:i]
			}
			return conc.ShortFunc(l)
		}
	}
	return "?"
}

// ---------------------------------------------------------------------------------------------------------------
// child

func childMain(scf, resf string) {
	raw, err := os.ReadFile(scf)
	if err != nil {
		fmt.Println(err)
		os.Exit(3)
	}
	var sc Scenario
	if err := json.Unmarshal(raw, &sc); err != nil {
		fmt.Println(err)
		os.Exit(3)
	}
	runtime.GOMAXPROCS(sc.Procs)
	quiet()
	res := &Result{Scenario: sc, Ops: map[string]int64{}, Notes: map[string]int64{}}
	write := func() {
		b, _ := json.MarshalIndent(res, "", " ")
		os.WriteFile(resf+".tmp", b, 0o644)
		os.Rename(resf+".tmp", resf)
	}
	interval := time.Duration(sc.SampleMS) * time.Millisecond
	side, _ := os.OpenFile(strings.TrimSuffix(scf, ".scenario.json")+".rounds", os.O_CREATE|os.O_WRONLY|os.O_APPEND, 0o644)
	for round := sc.Start; round < sc.Rounds; round++ {
		fmt.Fprintf(side, "%d\n", round)
		t0 := time.Now()
		rd := newRound(sc, round)
		if os.Getenv("C25_TIMING") != "" {
			defer func(round int) { fmt.Printf("round %d: setup %v\n", round, time.Since(t0)) }(round)
			fmt.Printf("round %d setup took %v\n", round, time.Since(t0))
		}
		for _, phase := range []string{"workload", "probe"} {
			done := make(chan struct{})
			go func() {
				defer close(done)
				if phase == "workload" {
					rd.workload()
				} else {
					rd.probe()
				}
			}()
			v := conc.Watch(rd.prog, done, interval, 3)
			if os.Getenv("C25_TIMING") != "" {
				fmt.Printf("round %d phase %s done at %v\n", round, phase, time.Since(t0))
			}
			if v.Kind != "" {
				res.Round, res.Phase, res.Verdict, res.Step = round, phase, v, rd.step()
				os.WriteFile(strings.TrimSuffix(resf, ".result.json")+".dump.txt", []byte(v.Dump), 0o644)
				res.Verdict.Dump = ""
				rd.account(res)
				write()
				os.Exit(0) // wedged goroutines cannot be cleaned up: the child ends here
			}
		}
		rd.account(res)
		res.RoundsDone++
		res.Probes++
		if rd.maxInflight() >= 2 {
			res.Contended++
		}
	}
	if leakChecked(sc.Name) {
		res.Leaks = leakCheck(interval)
	}
	write()
}

func leakChecked(name string) bool {
	if name == "server-reconnect-collision" {
		// active peers: every start event of an outgoing FSM leaves a goroutine in FSM.tcpConnect that waits for the TCP
		// connector, which sits on a failed dial for 30 s (nobody reads conErrCh) and then takes it: parked, but not for ever
		return false
	}
	return strings.HasPrefix(name, "server-") || name == "session-churn" || name == "sender-blocked-writes" || name == "seq-session-init-dispose"
}

// leakCheck: after the scenario ended nothing is in flight any more; a bio-rd goroutine that waits to send on a channel
// or for a mutex now, and is still the same goroutine at the same place 2 and 4 s later, waits for ever.
func leakCheck(interval time.Duration) []Leak {
	type key struct{ g, site string }
	var sets []map[key]conc.Parked
	for i := 0; i < 3; i++ {
		if i > 0 {
			time.Sleep(interval)
		}
		m := map[key]conc.Parked{}
		for _, p := range conc.ParkedInBio(conc.Parse(conc.Dump())) {
			if p.Worker || !(p.State == "chan send" || strings.HasPrefix(p.State, "sync.Mutex") || strings.HasPrefix(p.State, "sync.RWMutex")) {
				continue
			}
			m[key{p.G, p.Site()}] = p
		}
		sets = append(sets, m)
	}
	bySite := map[string]*Leak{}
	for k, p := range sets[0] {
		if _, ok := sets[1][k]; !ok {
			continue
		}
		if _, ok := sets[2][k]; !ok {
			continue
		}
		l := bySite[k.site]
		if l == nil {
			l = &Leak{Site: k.site, Example: strings.Join(p.BioStack, " <- ")}
			bySite[k.site] = l
		}
		l.Count++
	}
	var out []Leak
	for _, l := range bySite {
		out = append(out, *l)
	}
	sort.Slice(out, func(i, j int) bool { return out[i].Site < out[j].Site })
	return out
}
