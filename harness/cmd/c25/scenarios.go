package main

import (
	"fmt"
	"math/rand/v2"
	"sync"
	"sync/atomic"
	"time"

	bnet "github.com/bio-routing/bio-rd/net"
	"github.com/bio-routing/bio-rd/route"
	"github.com/bio-routing/bio-rd/routingtable"
	"github.com/bio-routing/bio-rd/routingtable/filter"

	"verifharness/internal/conc"
	"verifharness/internal/speaker"
	"verifharness/internal/tbl"
)

func quiet() { speaker.QuietLogs() }

type step struct {
	name string
	fn   func()
}

// round is one execution of a scenario on fresh tables.
type round struct {
	sc    Scenario
	n     int
	prog  *conc.Progress
	rig   *conc.Rig
	cur   atomic.Value // name of the sequential step / probe step in progress
	rng   *rand.Rand
	notes map[string]int64
	mu    sync.Mutex

	steps   []step        // sequential scenarios
	workers []conc.Worker // concurrent scenarios
	after   func()        // clean-up after the workers returned (part of the workload phase)
	probes  []step
}

func (r *round) step() string {
	if s, ok := r.cur.Load().(string); ok {
		return s
	}
	return ""
}

func (r *round) note(k string, n int64) {
	r.mu.Lock()
	r.notes[k] += n
	r.mu.Unlock()
}

func (r *round) maxInflight() int64 { return r.rig.MaxInfl.Load() }

func (r *round) account(res *Result) {
	for k, v := range r.rig.Ops() {
		res.Ops[k] += v
	}
	res.Goroutines += r.rig.Goroutines.Load()
	if m := r.rig.MaxInfl.Load(); m > res.MaxInfl {
		res.MaxInfl = m
	}
	for _, pr := range r.rig.PanicList() {
		merged := false
		for i := range res.Panics {
			if res.Panics[i].Kind == pr.Kind && res.Panics[i].Site == pr.Site {
				res.Panics[i].Count += pr.Count
				merged = true
			}
		}
		if !merged {
			res.Panics = append(res.Panics, pr)
		}
	}
	r.mu.Lock()
	for k, v := range r.notes {
		res.Notes[k] += v
	}
	r.mu.Unlock()
}

func (r *round) workload() {
	if r.sc.Sequential {
		r.rig.Goroutines.Add(1)
		for _, s := range r.steps {
			r.cur.Store(s.name)
			r.rig.Op(r.prog, "seq."+s.name, s.fn)
		}
		r.cur.Store("")
		return
	}
	r.rig.Run(r.workers, r.sc.Seed^uint64(r.n)*0x9e3779b97f4a7c15)
	if r.after != nil {
		r.after()
	}
}

func (r *round) probe() {
	r.rig.Goroutines.Add(1)
	for _, s := range r.probes {
		r.cur.Store(s.name)
		r.rig.Op(r.prog, "probe", s.fn)
	}
	r.cur.Store("")
}

// tableProbes: Dump, AddPath, Register(+Unregister) on each table of the rig.
func (r *round) tableProbes() {
	rg := r.rig
	pfx := bnet.NewPfx(bnet.IPv4(0x0afe0000), 24).Ptr()
	add := func(name string, fn func()) { r.probes = append(r.probes, step{name, fn}) }
	add("locRIB.Dump", func() { rg.Loc.Dump() })
	add("locRIB.AddPath", func() { rg.Loc.AddPath(pfx, tbl.PathSpec{Static: true, ID: 0xfffe}.Build()) })
	add("locRIB.Register", func() { c := conc.NewClient("probe"); rg.Loc.Register(c); rg.Loc.Unregister(c) })
	add("locRIB.RemovePath", func() { rg.Loc.RemovePath(pfx, tbl.PathSpec{Static: true, ID: 0xfffe}.Build()) })
	for i, s := range rg.Sessions {
		s := s
		add(fmt.Sprintf("adjRIBIn[%d].Dump", i), func() { s.In.Dump() })
		add(fmt.Sprintf("adjRIBIn[%d].AddPath", i), func() { s.In.AddPath(pfx, rg.LearnedPath(s, r.rng)) })
		add(fmt.Sprintf("adjRIBIn[%d].Register", i), func() { c := conc.NewClient("probe"); s.In.Register(c); s.In.Unregister(c) })
		add(fmt.Sprintf("adjRIBIn[%d].RemovePath", i), func() { s.In.RemovePath(pfx, &route.Path{Type: route.BGPPathType, BGPPath: &route.BGPPath{}}) })
		add(fmt.Sprintf("adjRIBOut[%d].Dump", i), func() { s.Out.Dump() })
		add(fmt.Sprintf("adjRIBOut[%d].AddPath", i), func() { s.Out.AddPath(pfx, rg.LocalPath(0xfffd, r.rng).Build()) })
		add(fmt.Sprintf("adjRIBOut[%d].Register", i), func() { c := conc.NewClient("probe"); s.Out.Register(c); s.Out.Unregister(c) })
		add(fmt.Sprintf("adjRIBOut[%d].ReplaceFilterChain", i), func() { s.Out.ReplaceFilterChain(filter.NewAcceptAllFilterChain()) })
		add(fmt.Sprintf("adjRIBIn[%d].ReplaceFilterChain", i), func() { s.In.ReplaceFilterChain(filter.NewAcceptAllFilterChain()) })
	}
}

func seqNames() []string {
	return []string{"seq-clientmanager-dispose-register", "seq-locrib-dispose-late-register", "seq-adjribin-chain", "seq-adjribout-chain", "seq-adjribout-addpath-own-path", "seq-session-init-dispose", "seq-sender-destroy-blocked-writes",
		"seq-sender-destroy-failed-writes", "seq-server-reload-peer-down", "seq-server-dispose-after-collision", "seq-server-write-failure-teardown"}
}

func concNames() []string {
	return []string{"pipeline", "export-policy", "session-churn", "dispose-late-register", "client-manager", "sender-blocked-writes"}
}

// master stands for a table behind a ClientManager.
type master struct{ n atomic.Int64 }

func (m *master) UpdateNewClient(c routingtable.RouteTableClient) error {
	m.n.Add(1)
	c.EndOfRIB()
	return nil
}

var (
	ebgpTap  = conc.SessionKind{}
	rrTap    = conc.SessionKind{IBGP: true, RRClient: true}
	ebgpSend = conc.SessionKind{Sender: true}
	rrAPSend = conc.SessionKind{IBGP: true, RRClient: true, AddPath: true, Sender: true}
	ebgpAP   = conc.SessionKind{AddPath: true}
)

func newRound(sc Scenario, n int) *round {
	r := &round{sc: sc, n: n, prog: &conc.Progress{}, rig: conc.NewRig(fmt.Sprintf("%s-%d", sc.Name, n)), notes: map[string]int64{},
		rng: rand.New(rand.NewPCG(sc.Seed, uint64(n)+7))}
	rg, p := r.rig, r.prog
	sess := func(ks ...conc.SessionKind) {
		for i, k := range ks {
			rg.Sessions = append(rg.Sessions, rg.AddSession(i, k))
		}
	}
	add := func(name string, fn func()) { r.steps = append(r.steps, step{name, fn}) }
	stat := func(id uint32) *route.Path { return tbl.PathSpec{Static: true, ID: id}.Build() }
	const nops = 60

	switch sc.Name {
	// ------------------------------------------------------------------------------------------- sequential pre-pass
	case "seq-clientmanager-dispose-register":
		m := &master{}
		cm := routingtable.NewClientManager(m)
		c1, c2, c3 := conc.NewClient("c1"), conc.NewClient("c2"), conc.NewClient("c3")
		add("RegisterWithOptions(c1)", func() { cm.RegisterWithOptions(c1, routingtable.ClientOptions{BestOnly: true}) })
		add("Dispose", func() { cm.Dispose() })
		add("RegisterWithOptions(c2) after Dispose", func() { cm.RegisterWithOptions(c2, routingtable.ClientOptions{BestOnly: true}) })
		add("ClientCount", func() { cm.ClientCount() })
		add("Clients", func() { cm.Clients() })
		add("GetOptions", func() { cm.GetOptions(c2) })
		add("Unregister(c2)", func() { cm.Unregister(c2) })
		add("RegisterWithOptions(c3)", func() { cm.RegisterWithOptions(c3, routingtable.ClientOptions{MaxPaths: 2}) })
		add("Dispose again", func() { cm.Dispose() })
	case "seq-locrib-dispose-late-register":
		sess(ebgpTap)
		c1, c2 := conc.NewClient("c1"), conc.NewClient("late")
		add("Register(c1)", func() { rg.Loc.RegisterWithOptions(c1, routingtable.ClientOptions{MaxPaths: 100}) })
		add("AddPath", func() { rg.Loc.AddPath(conc.Pfxs[0], stat(1)) })
		add("Dispose", func() { rg.Loc.Dispose() })
		add("Register(late)", func() { rg.Loc.Register(c2) })
		add("AddPath after Dispose", func() { rg.Loc.AddPath(conc.Pfxs[1], stat(2)) })
		add("Dump", func() { rg.Loc.Dump() })
		add("RefreshClient(late)", func() { rg.Loc.RefreshClient(c2) })
		add("Unregister(late)", func() { rg.Loc.Unregister(c2) })
		add("Dispose again", func() { rg.Loc.Dispose() })
		add("adjRIBIn.AddPath after Dispose", func() { rg.Sessions[0].In.AddPath(conc.Pfxs[2], rg.LearnedPath(rg.Sessions[0], r.rng)) })
		r.tableProbes()
	case "seq-adjribin-chain":
		sess(ebgpTap, rrTap)
		s := rg.Sessions[0]
		tap := conc.NewClient("tap")
		add("AddPath", func() { s.In.AddPath(conc.Pfxs[0], rg.LearnedPath(s, r.rng)) })
		for i := 1; i <= 5; i++ {
			i := i
			add(fmt.Sprintf("ReplaceFilterChain(%d)", i), func() { s.In.ReplaceFilterChain(conc.Policy(i)) })
			add("AddPath", func() { s.In.AddPath(conc.Pfxs[i], rg.LearnedPath(s, r.rng)) })
		}
		add("Register(tap)", func() { s.In.Register(tap) })
		add("RemovePath", func() { s.In.RemovePath(conc.Pfxs[0], &route.Path{Type: route.BGPPathType, BGPPath: &route.BGPPath{}}) })
		add("Unregister(tap)", func() { s.In.Unregister(tap) })
		add("Flush", func() { s.In.Flush() })
		add("Unregister(locRIB)", func() { s.In.Unregister(rg.Loc) })
		add("Unregister(locRIB) twice", func() { s.In.Unregister(rg.Loc) })
		add("Register(locRIB)", func() { s.In.Register(rg.Loc) })
		add("AddPath", func() { s.In.AddPath(conc.Pfxs[0], rg.LearnedPath(s, r.rng)) })
		r.tableProbes()
	case "seq-adjribout-chain":
		sess(ebgpTap, rrTap, ebgpAP)
		add("locRIB.AddPath x3", func() {
			for i := 0; i < 3; i++ {
				rg.Loc.AddPath(conc.Pfxs[i], rg.LocalPath(uint32(10+i), r.rng).Build())
			}
			rg.Loc.AddPath(conc.Pfxs[0], stat(20))
		})
		for si := range rg.Sessions {
			s := rg.Sessions[si]
			for i := 1; i <= 5; i++ {
				i := i
				add(fmt.Sprintf("adjRIBOut[%d].ReplaceFilterChain(%d)", si, i), func() { s.Out.ReplaceFilterChain(conc.Policy(i)) })
			}
			add("locRIB.RemovePath", func() { rg.Loc.RemovePath(conc.Pfxs[0], stat(20)) })
			add(fmt.Sprintf("adjRIBOut[%d].Unregister(tap)", si), func() { s.Out.Unregister(s.Tap) })
			add(fmt.Sprintf("adjRIBOut[%d].ReplaceFilterChain without client", si), func() { s.Out.ReplaceFilterChain(conc.Policy(1)) })
			add(fmt.Sprintf("locRIB.Unregister(adjRIBOut[%d])", si), func() { rg.Loc.Unregister(s.Out) })
			add(fmt.Sprintf("adjRIBOut[%d].ReplaceFilterChain unregistered", si), func() { s.Out.ReplaceFilterChain(conc.Policy(2)) })
			add(fmt.Sprintf("locRIB.Register(adjRIBOut[%d]) again", si), func() { rg.Loc.RegisterWithOptions(s.Out, routingtable.ClientOptions{BestOnly: true}) })
			add(fmt.Sprintf("adjRIBOut[%d].Register(tap) again", si), func() { s.Out.Register(s.Tap) })
		}
		r.tableProbes()
	case "seq-adjribout-addpath-own-path":
		// an add-path Adj-RIB-Out is offered a path learned from its own peer: checkPropagateUpdate takes the lock,
		// releases it and calls RemovePath (which locks again)
		sess(ebgpAP, rrAPSend)
		for si := range rg.Sessions {
			s := rg.Sessions[si]
			other := rg.Sessions[1-si]
			add(fmt.Sprintf("adjRIBIn[%d].AddPath", 1-si), func() { other.In.AddPath(conc.Pfxs[0], rg.LearnedPath(other, r.rng)) })
			add(fmt.Sprintf("adjRIBIn[%d].AddPath own", si), func() { s.In.AddPath(conc.Pfxs[0], rg.LearnedPath(s, r.rng)) })
			add(fmt.Sprintf("adjRIBIn[%d].AddPath own better", si), func() {
				pth := rg.LearnedPath(s, r.rng)
				pth.BGPPath.BGPPathA.LocalPref = 500
				s.In.AddPath(conc.Pfxs[0], pth)
			})
			add(fmt.Sprintf("adjRIBOut[%d].ReplaceFilterChain while its own peer's path is best", si), func() { s.Out.ReplaceFilterChain(conc.Policy(1)) })
			add(fmt.Sprintf("adjRIBIn[%d].RemovePath", si), func() { s.In.RemovePath(conc.Pfxs[0], &route.Path{Type: route.BGPPathType, BGPPath: &route.BGPPath{}}) })
		}
		add("dispose sessions", func() {
			for _, s := range rg.Sessions {
				rg.DisposeSession(s)
			}
		})
	case "seq-session-init-dispose":
		rg.NoStatic = true
		for i := 0; i < 3; i++ {
			i := i
			var s *conc.Session
			add("session.init", func() { s = rg.AddSession(i, []conc.SessionKind{ebgpSend, rrAPSend, ebgpSend}[i]) })
			add("adjRIBIn.AddPath", func() { s.In.AddPath(conc.Pfxs[i], rg.LearnedPath(s, r.rng)) })
			lp := rg.LocalPath(uint32(30+i), r.rng)
			add("locRIB.AddPath", func() { rg.Loc.AddPath(conc.Pfxs[i+1], lp.Build()) })
			add("sender tick", func() { time.Sleep(12 * time.Millisecond) })
			add("session.dispose", func() { rg.DisposeSession(s) })
			add("locRIB.RemovePath", func() { rg.Loc.RemovePath(conc.Pfxs[i+1], lp.Build()) })
		}
	case "seq-sender-destroy-blocked-writes":
		var s *conc.Session
		add("session.init", func() { s = rg.AddSession(0, ebgpSend) })
		add("peer stops reading", func() { s.Gate.Block() })
		add("locRIB.AddPath (queued)", func() { rg.Loc.AddPath(conc.Pfxs[0], stat(40)) })
		add("sender blocks in Write", func() {
			for i := 0; i < 200 && s.Gate.BlockedWrites() == 0; i++ {
				time.Sleep(time.Millisecond)
			}
			r.note("sender_blocked_in_write", s.Gate.BlockedWrites())
		})
		add("peer reads again in 50 ms", func() { go func() { time.Sleep(50 * time.Millisecond); s.Gate.Unblock() }() })
		add("session.dispose (Destroy while the sender is blocked)", func() { rg.DisposeSession(s) })
		add("locRIB.AddPath", func() { rg.Loc.AddPath(conc.Pfxs[1], stat(41)) })
	case "seq-sender-destroy-failed-writes":
		// the peer goes away (every write on the connection fails) while announcements are queued for it; an aggregation
		// round of the sender runs into the failure, a withdrawal is written directly and fails too; then the session is
		// torn down (what every way out of Established does) and the table must still be usable
		rg.NoStatic = true
		for i, k := range []conc.SessionKind{ebgpSend, rrAPSend} {
			i, k := i, k
			var s *conc.Session
			lp := rg.LocalPath(uint32(60+i), r.rng)
			lp2 := rg.LocalPath(uint32(70+i), r.rng)
			add("session.init", func() { s = rg.AddSession(i, k) })
			add("peer goes away (writes fail)", func() { s.Gate.Break() })
			add("locRIB.AddPath (queued)", func() { rg.Loc.AddPath(conc.Pfxs[i], lp.Build()) })
			add("aggregation round runs into the failed write", func() {
				for j := 0; j < 400 && s.Gate.FailedWrites() == 0; j++ {
					time.Sleep(time.Millisecond)
				}
				r.note("sender_write_failures", s.Gate.FailedWrites())
			})
			add("locRIB.RemovePath (withdrawal fails)", func() { rg.Loc.RemovePath(conc.Pfxs[i], lp.Build()) })
			add("locRIB.AddPath (queued after the failure)", func() { rg.Loc.AddPath(conc.Pfxs[i+2], lp2.Build()) })
			add("sender tick", func() { time.Sleep(12 * time.Millisecond) })
			add("session.dispose (Destroy after failed writes)", func() { rg.DisposeSession(s) })
			add("locRIB.AddPath", func() { rg.Loc.AddPath(conc.Pfxs[i+4], rg.LocalPath(uint32(80+i), r.rng).Build()) })
		}

	// ------------------------------------------------------------------------------------------- concurrent
	case "pipeline":
		sess(ebgpTap, rrTap)
		r.workers = []conc.Worker{rg.Announcer(rg.Sessions[0], p, nops), rg.Announcer(rg.Sessions[1], p, nops), rg.LocMutator(p, nops),
			rg.InReplacer(p, nops/3), rg.Registrar(p, nops/2, nil), rg.AdjRegistrar(p, nops/3), rg.Reader(p, nops)}
		r.tableProbes()
	case "export-policy":
		sess(ebgpTap, rrTap, ebgpAP)
		r.workers = []conc.Worker{rg.Announcer(rg.Sessions[0], p, nops), rg.Announcer(rg.Sessions[1], p, nops), rg.Announcer(rg.Sessions[2], p, nops/2), rg.LocMutator(p, nops),
			rg.OutReplacer(p, nops/2), rg.Registrar(p, nops/3, nil), rg.Reader(p, nops/2)}
		r.tableProbes()
	case "session-churn":
		rg.NoStatic = true
		sess(ebgpSend)
		r.workers = []conc.Worker{rg.Announcer(rg.Sessions[0], p, nops), rg.LocMutator(p, nops), rg.Churn(1, rrAPSend, p, 5), rg.Churn(4, ebgpTap, p, 8),
			rg.Registrar(p, nops/3, nil), rg.Reader(p, nops/2)}
		r.after = func() { rg.Op(p, "session.dispose", func() { rg.DisposeSession(rg.Sessions[0]) }); rg.Sessions = nil }
		r.tableProbes()
		r.probes = r.probes[:4] // the session was disposed: Loc-RIB only
	case "dispose-late-register":
		sess(ebgpTap)
		var late atomic.Int64
		r.workers = []conc.Worker{rg.LocMutator(p, nops), rg.LocMutator(p, nops), rg.Announcer(rg.Sessions[0], p, nops), rg.Registrar(p, nops/2, &late), rg.Registrar(p, nops/2, &late),
			rg.Disposer(p, 3), rg.Reader(p, nops/2)}
		r.after = func() { r.note("late_registrations", late.Load()) }
		r.tableProbes()
	case "client-manager":
		m := &master{}
		cm := routingtable.NewClientManager(m)
		reg := func(k int) conc.Worker {
			return conc.Worker{Name: fmt.Sprintf("cm-registrar%d", k), Fn: func(rng *rand.Rand) {
				var cs []*conc.Client
				for i := 0; i < nops; i++ {
					if rng.IntN(3) > 0 || len(cs) == 0 {
						c := conc.NewClient("c")
						cs = append(cs, c)
						rg.Op(p, "clientManager.RegisterWithOptions", func() { cm.RegisterWithOptions(c, routingtable.ClientOptions{MaxPaths: uint(rng.IntN(3))}) })
					} else {
						c := cs[len(cs)-1]
						cs = cs[:len(cs)-1]
						rg.Op(p, "clientManager.Unregister", func() { cm.Unregister(c) })
					}
				}
			}}
		}
		r.workers = []conc.Worker{reg(0), reg(1),
			{Name: "cm-reader", Fn: func(rng *rand.Rand) {
				for i := 0; i < nops; i++ {
					rg.Op(p, "clientManager.Clients/GetOptions", func() {
						for _, c := range cm.Clients() {
							cm.GetOptions(c)
						}
						cm.ClientCount()
					})
				}
			}},
			{Name: "cm-disposer", Fn: func(rng *rand.Rand) {
				for i := 0; i < 1+rng.IntN(30); i++ {
					cm.ClientCount()
				}
				rg.Op(p, "clientManager.Dispose", func() { cm.Dispose() })
			}}}
		r.probes = []step{{"clientManager.ClientCount", func() { cm.ClientCount() }},
			{"clientManager.RegisterWithOptions", func() { cm.RegisterWithOptions(conc.NewClient("probe"), routingtable.ClientOptions{}) }},
			{"clientManager.Clients", func() { cm.Clients() }}}
	case "sender-blocked-writes":
		rg.NoStatic = true
		sess(ebgpSend, rrAPSend)
		gates := func(f func(g *conc.GateWriter)) {
			for _, s := range rg.Sessions {
				f(s.Gate)
			}
		}
		r.workers = []conc.Worker{rg.LocMutator(p, nops), rg.LocMutator(p, nops), rg.Announcer(rg.Sessions[0], p, nops),
			{Name: "slow-peer", Fn: func(rng *rand.Rand) {
				// the peers stop reading for a while (writes block) or their connections break for a while (writes fail)
				for i := 0; i < 6; i++ {
					if rng.IntN(3) == 0 {
						gates(func(g *conc.GateWriter) { g.Break() })
						time.Sleep(time.Duration(1+rng.IntN(8)) * time.Millisecond)
						gates(func(g *conc.GateWriter) { g.Mend() })
					} else {
						gates(func(g *conc.GateWriter) { g.Block() })
						time.Sleep(time.Duration(1+rng.IntN(8)) * time.Millisecond)
						gates(func(g *conc.GateWriter) { g.Unblock() })
					}
					time.Sleep(time.Duration(rng.IntN(3)) * time.Millisecond)
					p.Done()
				}
			}}}
		r.after = func() {
			// tear the sessions down while the peers do not read (they read again 30 ms later) or after they went away
			// (writes fail) with an announcement queued
			gone := r.rng.IntN(2) == 0
			if gone {
				gates(func(g *conc.GateWriter) { g.Break() })
			} else {
				gates(func(g *conc.GateWriter) { g.Block() })
				go func() { time.Sleep(30 * time.Millisecond); gates(func(g *conc.GateWriter) { g.Unblock() }) }()
			}
			rg.Op(p, "locRIB.AddPath", func() { rg.Loc.AddPath(conc.Pfxs[0], rg.LocalPath(50, r.rng).Build()) })
			time.Sleep(8 * time.Millisecond)
			var blocked, failed int64
			gates(func(g *conc.GateWriter) { failed += g.FailedWrites() })
			for _, s := range rg.Sessions {
				s := s
				rg.Op(p, "session.dispose", func() { rg.DisposeSession(s) })
			}
			gates(func(g *conc.GateWriter) { blocked += g.BlockedWrites() })
			r.note("writes_that_blocked", blocked)
			r.note("sender_write_failures", failed)
			if gone {
				r.note("teardowns_after_failed_writes", int64(len(rg.Sessions)))
			}
			rg.Sessions = nil
		}
		r.tableProbes()
		r.probes = r.probes[:4]
	default:
		if !buildServerScenario(r) {
			panic("unknown scenario " + sc.Name)
		}
	}
	return r
}
