// Package fuzz holds the coverage-guided native Go fuzz targets that the thorough tiers of C16 (BGP
// packet.Decode) and C30 (IS-IS packet.Decode) start as a child `go test -fuzz` (see
// internal/gofuzz). The targets are seeded with the same valid-message corpora as the typed-mutation
// workloads of those checks. A crasher the fuzzer saves is converted by the check into its own case
// type and judged by the check's own oracle; nothing is decided here.
package fuzz
