package fuzz

import (
	"bytes"
	"math/rand/v2"
	"os"
	"strconv"
	"testing"

	"github.com/bio-routing/bio-rd/protocols/bgp/packet"

	"verifharness/internal/wiregen"
)

// maxBGPInput is what recvMsg can hand to Decode (C16 assumes inputs of at most 4096 octets).
const maxBGPInput = 4096

// bgpCombo maps the low four bits of the option byte to one of the 16 decode option sets; the bit
// assignment is the one cmd/c16 uses, so that (combo, input) of a crasher is a C16 case as is.
func bgpCombo(i byte) *packet.DecodeOptions {
	return &packet.DecodeOptions{AddPathIPv4Unicast: i&1 != 0, AddPathIPv6Unicast: i&2 != 0, Use32BitASN: i&4 != 0, ExtendedNextHop: i&8 != 0}
}

func fuzzSeed() uint64 {
	if n, err := strconv.ParseUint(os.Getenv("VERIF_SEED"), 10, 64); err == nil {
		return n
	}
	return 1
}

// FuzzBGPDecode: packet.Decode must return exactly one of (message, error) for every input under
// every option set; a panic is found by the fuzzing engine itself.
func FuzzBGPDecode(f *testing.F) {
	rng := rand.New(rand.NewPCG(fuzzSeed(), 0xc16))
	for _, it := range wiregen.Corpus(rng) {
		c := byte(0)
		if it.Opts.AddPathIPv4 {
			c |= 1
		}
		if it.Opts.AddPathIPv6 {
			c |= 2
		}
		if it.Opts.AS4 {
			c |= 4
		}
		// under the options the message was encoded for, without and with extended next hop
		f.Add(c, it.Raw)
		f.Add(c|8, it.Raw)
	}
	f.Fuzz(func(t *testing.T, opt byte, msg []byte) {
		if len(msg) > maxBGPInput {
			return
		}
		m, err := packet.Decode(bytes.NewBuffer(append([]byte{}, msg...)), bgpCombo(opt&15))
		if (m == nil) == (err == nil) {
			t.Fatalf("Decode returned msg!=nil: %v, err: %v (combo %d)", m != nil, err, opt&15)
		}
	})
}
