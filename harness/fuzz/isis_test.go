package fuzz

import (
	"bytes"
	"math/rand/v2"
	"testing"

	"github.com/bio-routing/bio-rd/protocols/isis/packet"

	"verifharness/internal/isish"
)

// maxISISInput bounds the frame payload (LLC + PDU); the largest PDU of the C30 workloads is 1500 octets.
const maxISISInput = 4096

// FuzzISISDecode: packet.Decode, given the three LLC octets followed by the PDU as on the receive
// path, must return exactly one of (PDU, error); a panic is found by the fuzzing engine itself.
func FuzzISISDecode(f *testing.F) {
	for _, p := range isish.Corpus() { // hellos, LSPs, CSNPs, PSNPs under every type code, with LLC
		f.Add(p)
	}
	rng := rand.New(rand.NewPCG(fuzzSeed(), 0xc30))
	for i := 0; i < 64; i++ { // well-formed PDUs in every layout the independent encoder produces
		f.Add(isish.WithLLC(isish.GenWirePDU(rng, i)))
	}
	f.Fuzz(func(t *testing.T, in []byte) {
		if len(in) > maxISISInput {
			return
		}
		pkt, err := packet.Decode(bytes.NewBuffer(append([]byte{}, in...)))
		if (pkt == nil) == (err == nil) {
			t.Fatalf("Decode returned pkt!=nil: %v, err: %v", pkt != nil, err)
		}
		// LAN hellos have their own exported decoder, which Decode does not dispatch to (C30 runs it the same way)
		if len(in) >= 11 && (in[7] == isish.PDUL1LANHello || in[7] == isish.PDUL2LANHello) {
			packet.DecodeL2Hello(bytes.NewBuffer(append([]byte{}, in[11:]...)))
		}
	})
}
